(* Proofs/ReadDecode.v — "read reply decode . target encode = value" for the type classes a Logix read
   returns, by induction on the type (template nesting):

     pyeq                     equality of Python values: dicts compare as maps (insertion order ignored)
     atom_decode              an elementary type class decodes its own image to Expect.decode_atom
     decode_elem_spec         for every element type of the project (atomic, structure with bit members
                              and hidden hosts at any nesting depth, string): the client's type class,
                              fed the image [d] followed by anything, consumes exactly [d], never fails,
                              and returns a value pyeq to Expect.decode_val whenever that is defined
     decode_array_spec        the same for n consecutive elements (Array.decode; BOOL arrays flattened)
   Hypotheses on the project are computable predicates ([layout_ok]): member sizes inside the
   structure (in any order: StructTag seeks to each offset), distinct member names, standard string layout.
   No axioms. *)
From Coq Require Import ZifyBool.
From PV Require Import Base.Bytes Base.BytesLemmas Base.Res Base.Proto Base.PyStr.
From PV Require Import Gen.Types Model.Path Model.LogixRead.
From PV Require Import Spec.Project Spec.Expect.
From PV Require Import Proofs.TargetLogixP Proofs.ReadBits.
Open Scope Z_scope.
Ltac Zify.zify_post_hook ::= Z.to_euclidean_division_equations.

(* ================================================================ text keys *)
Lemma teqb_refl a : text_eqb a a = true.
Proof. induction a as [|x a IH]; [reflexivity|]. cbn. rewrite Z.eqb_refl, IH. reflexivity. Qed.
Lemma teqb_eq a b : text_eqb a b = true -> a = b.
Proof.
  revert b; induction a as [|x a IH]; intros [|y b] H; try discriminate; [reflexivity|].
  cbn in H. apply andb_prop in H. destruct H as [H1 H2]. f_equal; [lia|auto].
Qed.
Lemma teqb_sym a b : text_eqb a b = text_eqb b a.
Proof.
  revert b; induction a as [|x a IH]; intros [|y b]; try reflexivity.
  cbn. rewrite IH, Z.eqb_sym. reflexivity.
Qed.
Lemma teqb_neq a b : a <> b -> text_eqb a b = false.
Proof. intros H. destruct (text_eqb a b) eqn:E; [|reflexivity]. apply teqb_eq in E. contradiction. Qed.

(* ================================================================ dicts *)
Lemma dget_dset_same {A} k (v : A) d : dget k (dset k v d) = Some v.
Proof.
  induction d as [|[k' v'] r IH]; cbn.
  - rewrite teqb_refl. reflexivity.
  - destruct (text_eqb k' k) eqn:E; cbn; rewrite E; auto.
Qed.

Lemma dset_fresh {A} k (v : A) d : dget k d = None -> dset k v d = d ++ [(k, v)].
Proof.
  induction d as [|[k' v'] r IH]; intros H; [reflexivity|].
  cbn in *. destruct (text_eqb k' k); [discriminate|]. rewrite IH by assumption. reflexivity.
Qed.

Lemma dget_app {A} k (a b : list (text * A)) :
  dget k (a ++ b) = match dget k a with Some v => Some v | None => dget k b end.
Proof.
  induction a as [|[k' v'] r IH]; [reflexivity|]. cbn. destruct (text_eqb k' k); auto.
Qed.

Lemma dget_none_map {A B} (f : B -> text * A) k l :
  (forall x, In x l -> fst (f x) <> k) -> dget k (map f l) = None.
Proof.
  induction l as [|x r IH]; intros H; [reflexivity|].
  cbn [map dget]. destruct (f x) as [k' v'] eqn:E.
  rewrite teqb_neq.
  - apply IH. intros y Hy. apply H. right. exact Hy.
  - specialize (H x (or_introl eq_refl)). rewrite E in H. exact H.
Qed.

Lemma tmem_in k l : tmem k l = true <-> In k l.
Proof.
  induction l as [|x r IH]; cbn; [split; [discriminate|tauto]|].
  rewrite orb_true_iff, IH. split; intros [H|H]; auto.
  - left. apply teqb_eq. exact H.
  - left. subst. apply teqb_refl.
Qed.

(* ================================================================ equality of Python values *)
Inductive pyeq : rvalue -> rvalue -> Prop :=
  | pe_refl v : pyeq v v
  | pe_list xs ys : Forall2 pyeq xs ys -> pyeq (RList xs) (RList ys)
  | pe_dict fa fb :
      NoDup (map fst fa) -> NoDup (map fst fb) -> length fa = length fb ->
      (forall k v, In (k, v) fa -> exists v', dget k fb = Some v' /\ pyeq v v') ->
      pyeq (RStruct fa) (RStruct fb).

Lemma Forall2_pyeq_refl l : Forall2 pyeq l l.
Proof. induction l; constructor; [apply pe_refl|assumption]. Qed.

(* ================================================================ streams *)
Lemma len_app_z (a b : bytes) : len (a ++ b) = len a + len b.
Proof. unfold len. rewrite app_length. lia. Qed.

Lemma stream_read_app n d rest : len d = n -> 0 < n -> stream_read n (d ++ rest) = Ok (d, rest).
Proof.
  intros Hl Hn. unfold stream_read, len in *.
  replace (Z.to_nat n) with (length d) by lia.
  rewrite firstn_app_exact, skipn_app_exact. cbv zeta.
  destruct d as [|z d]; [cbn in Hl; lia|]. unfold len. replace (Z.of_nat (length (z :: d)) <? n) with false by lia. reflexivity.
Qed.

(* ================================================================ elementary types *)
(* the codes with an image size, and what their class decodes to *)
Lemma atom_size_codes c s : atom_size c = Some s ->
  c = 193 \/ c = 194 \/ c = 195 \/ c = 196 \/ c = 197 \/ c = 198 \/ c = 199 \/ c = 200 \/ c = 201
  \/ c = 202 \/ c = 203 \/ c = 209 \/ c = 210 \/ c = 211 \/ c = 212.
Proof.
  unfold atom_size, C_BOOL, C_SINT, C_USINT, C_BYTE, C_INT, C_UINT, C_WORD, C_DINT, C_UDINT, C_REAL, C_DWORD,
    C_LINT, C_ULINT, C_LREAL, C_LWORD.
  repeat match goal with |- context [if ?b then _ else _] => destruct b eqn:? end; intros H; try discriminate; lia.
Qed.

Ltac atom_cases H :=
  match type of H with
  | atom_size ?c = Some _ =>
      let H' := fresh in
      pose proof (atom_size_codes _ _ H) as H';
      repeat (destruct H' as [H'|H']; [subst c|]); [..|subst c]
  end.

(* what the class of code c is, for the codes that have an image *)
Lemma atom_class_some c s : atom_size c = Some s ->
  exists n k, atom_class c = Some (n, s, k) /\ kind_size k = s /\ atom_name c = Some n
              /\ text_eqb n txt_BOOL = (c =? C_BOOL) /\ text_eqb n txt_DWORD = (c =? C_DWORD)
              /\ (match k with ABits _ => atom_bits c = true | _ => atom_bits c = false end).
Proof.
  intros H. atom_cases H; vm_compute in H; injection H as <-;
  eexists; eexists; (split; [vm_compute; reflexivity|]); vm_compute; repeat split; reflexivity.
Qed.

Lemma le_dec_single x : le_dec [x] = x.
Proof. cbn. lia. Qed.

Theorem atom_decode c s d rest : atom_size c = Some s -> len d = s -> bytes_ok d = true ->
  exists v, decode_tc (KAtom c) (d ++ rest) = Ok (v, rest) /\ decode_atom c d = Some v.
Proof.
  intros Hs Hl Hok.
  assert (Hpos : 0 < s) by (destruct (atom_size_cases c s Hs) as [|[|[|]]]; lia).
  unfold decode_atom. rewrite Hs.
  replace (Expect.blen d =? s) with true by (unfold Expect.blen, len in *; lia). cbn [negb].
  cbn [decode_tc].
  atom_cases Hs; vm_compute in Hs; injection Hs as <-;
  match goal with |- context [atom_class ?c] =>
    let r := eval vm_compute in (atom_class c) in change (atom_class c) with r end;
  cbv iota beta; unfold decode_kind; cbn [kind_size];
  rewrite (stream_read_app _ d rest Hl) by lia; cbn [bind];
  rewrite Hl; cbn [Z.eqb Pos.eqb negb];
  eexists; (split; [reflexivity|]);
  try reflexivity.
  - (* BOOL *)
    vm_compute (193 =? C_BOOL). cbv iota.
    destruct d as [|x [|y t]]; cbn in Hl; try lia.
    rewrite le_dec_single. do 2 f_equal.
    destruct x as [|px|px]; try reflexivity; destruct px; reflexivity.
  - (* BYTE *) rewrite (bits_value_bools 1 d Hok) by (unfold len in Hl; lia). reflexivity.
  - rewrite (bits_value_bools 2 d Hok) by (unfold len in Hl; lia). reflexivity.
  - rewrite (bits_value_bools 4 d Hok) by (unfold len in Hl; lia). reflexivity.
  - rewrite (bits_value_bools 8 d Hok) by (unfold len in Hl; lia). reflexivity.
Qed.

(* ================================================================ the template scan of the upload *)
Definition mi_name (mi : member * tinfo) : text := m_name (fst mi).

Definition fresh_for (infos : list (member * tinfo)) (a : scan_acc) : Prop :=
  forall mi, In mi infos ->
    dget (mi_name mi) (sc_itags a) = None /\ dget (mi_name mi) (sc_bits a) = None /\ tmem (mi_name mi) (sc_priv a) = false.

Lemma tmem_app k a b : tmem k (a ++ b) = tmem k a || tmem k b.
Proof. induction a as [|x a IH]; [reflexivity|]. cbn. rewrite IH. apply orb_assoc. Qed.

Lemma scan_spec tid : forall infos a, NoDup (map mi_name infos) -> fresh_for infos a ->
  fold_left (scan_step tid) infos a =
  mkScan (sc_itags a ++ map (fun mi => (mi_name mi, snd mi)) infos)
         (sc_attrs a ++ map mi_name (filter (fun mi => negb (is_private tid (mi_name mi))) infos))
         (sc_smem a ++ map (fun mi => (mi_name mi, m_off (fst mi), ti_class (snd mi)))
                           (filter (fun mi => negb (is_bool_info (snd mi))) infos))
         (sc_bits a ++ map (fun mi => (mi_name mi, (m_off (fst mi), m_bit (fst mi))))
                           (filter (fun mi => is_bool_info (snd mi)) infos))
         (sc_priv a ++ map mi_name (filter (fun mi => is_private tid (mi_name mi)) infos)).
Proof.
  induction infos as [|[m info] rest IH]; intros a Hnd Hfr.
  - cbn. rewrite !app_nil_r. destruct a; reflexivity.
  - cbn [fold_left]. inversion Hnd as [|x l Hnotin Hnd']; subst.
    destruct (Hfr (m, info) (or_introl eq_refl)) as (F1 & F2 & F3). unfold mi_name in F1, F2, F3; cbn [fst] in F1, F2, F3.
    rewrite IH; [|assumption|].
    + unfold scan_step. cbn [sc_itags sc_attrs sc_smem sc_bits sc_priv].
      rewrite (dset_fresh _ _ _ F1).
      cbn [filter map]. change (mi_name (m, info)) with (m_name m). cbn [fst snd].
      rewrite F3.
      destruct (is_private tid (m_name m)); destruct (is_bool_info info); cbn [negb map];
        change (mi_name (m, info)) with (m_name m); cbn [fst snd];
        rewrite ?(dset_fresh _ _ _ F2); rewrite <- ?app_assoc; reflexivity.
    + intros mi Hin.
      assert (Hne : m_name m <> mi_name mi).
      { intros E. apply Hnotin. change (mi_name (m, info)) with (m_name m). rewrite E. apply in_map. exact Hin. }
      destruct (Hfr mi (or_intror Hin)) as (G1 & G2 & G3).
      unfold scan_step. cbn [sc_itags sc_bits sc_priv].
      rewrite (dset_fresh _ _ _ F1), dget_app, G1. cbn [dget]. rewrite (teqb_neq _ _ Hne).
      split; [reflexivity|]. split.
      * destruct (is_bool_info info); [|exact G2].
        rewrite (dset_fresh _ _ _ F2), dget_app, G2. cbn [dget]. rewrite (teqb_neq _ _ Hne). reflexivity.
      * destruct (is_private tid (m_name m)); [|exact G3]. rewrite F3.
        rewrite tmem_app, G3. cbn [tmem]. rewrite (teqb_neq _ _ Hne). reflexivity.
Qed.

Lemma distinct_by_nodup (l : list text) : distinct_by text_eqb l = true -> NoDup l.
Proof.
  induction l as [|x r IH]; intros H; [constructor|].
  cbn in H. apply andb_prop in H. destruct H as [H1 H2]. constructor; [|auto].
  intros Hin. apply negb_true_iff in H1.
  assert (existsb (text_eqb x) r = true); [|congruence].
  apply existsb_exists. exists x. split; [assumption|apply teqb_refl].
Qed.

Lemma member_infos_spec sd : forall ms infos, member_infos sd ms = Some infos ->
  map fst infos = ms /\ Forall (fun mi => member_info sd (fst mi) = Some (snd mi)) infos.
Proof.
  induction ms as [|m r IH]; intros infos H; cbn in H.
  - injection H as <-. split; constructor.
  - destruct (member_info sd m) as [i|] eqn:E; [|discriminate].
    destruct (member_infos sd r) as [l|] eqn:E2; [|discriminate].
    injection H as <-. destruct (IH l eq_refl) as [H1 H2]. cbn [map fst]. split; [congruence|].
    constructor; [exact E|exact H2].
Qed.

(* ================================================================ StructTag._decode on a laid-out image *)
(* a laid-out field: name, offset, class, size, decoded value *)
Definition fld := (text * Z * tclass * Z * rvalue)%type.
Definition f_name (e : fld) : text := let '(n, _, _, _, _) := e in n.
Definition f_req (e : fld) : text * Z * tclass := let '(n, off, tc, _, _) := e in (n, off, tc).
Definition f_val (e : fld) : text * rvalue := let '(n, _, _, _, v) := e in (n, v).

Fixpoint chain (total pos : Z) (L : list fld) : Prop :=
  match L with
  | [] => True
  | (_, off, _, sz, _) :: r => 0 <= off /\ 0 <= sz /\ off + sz <= total /\ chain total pos r
  end.

Lemma len_skipn_z (l : bytes) k : 0 <= k <= len l -> len (skipn (Z.to_nat k) l) = len l - k.
Proof. intros H. unfold len in *. rewrite skipn_length. lia. Qed.

Lemma dec_members_ok dec raw : forall L pos vals,
  0 <= pos <= len raw -> chain (len raw) pos L ->
  (forall n off tc sz v, In (n, off, tc, sz, v) L ->
     dec tc (skipn (Z.to_nat off) raw) = Ok (v, skipn (Z.to_nat (off + sz)) raw)) ->
  NoDup (map f_name L) -> (forall e, In e L -> dget (f_name e) vals = None) ->
  dec_members dec (map f_req L) raw vals = Ok (vals ++ map f_val L).
Proof.
  induction L as [|[[[[n off] tc] sz] v] r IH]; intros pos vals Hpos Hch Hdec Hnd Hfr.
  - cbn. rewrite app_nil_r. reflexivity.
  - cbn [map f_req dec_members]. cbn [chain] in Hch. destruct Hch as (H1 & H2 & H3 & H4).
    replace (off <? 0) with false by lia.
    rewrite (Hdec n off tc sz v (or_introl eq_refl)). cbn [bind].
    inversion Hnd as [|x l Hnotin Hnd']; subst.
    rewrite (dset_fresh _ _ _ (Hfr _ (or_introl eq_refl))).
    rewrite (IH pos).
    + rewrite <- app_assoc. reflexivity.
    + lia.
    + exact H4.
    + intros n' off' tc' sz' v' Hin. apply (Hdec n' off' tc' sz' v'). right. exact Hin.
    + exact Hnd'.
    + intros e He. rewrite dget_app, (Hfr e (or_intror He)). cbn [dget].
      rewrite teqb_neq; [reflexivity|].
      intros E. apply Hnotin. cbn [f_name] in *. rewrite E. apply in_map. exact He.
Qed.

Definition bfld := (text * Z * Z)%type.
Lemma dec_bits_ok raw : forall (L : list bfld) vals,
  (forall n off bit, In (n, off, bit) L -> 0 <= off < len raw) ->
  NoDup (map (fun e : bfld => fst (fst e)) L) -> (forall e, In e L -> dget (fst (fst e)) vals = None) ->
  dec_bits raw L vals
  = Ok (vals ++ map (fun e : bfld => (fst (fst e), RBool (Z.testbit (nth (Z.to_nat (snd (fst e))) raw 0) (snd e)))) L).
Proof.
  induction L as [|[[n off] bit] r IH]; intros vals Hin Hnd Hfr.
  - cbn. rewrite app_nil_r. reflexivity.
  - cbn [dec_bits]. pose proof (Hin n off bit (or_introl eq_refl)) as Ho.
    destruct (off <? 0) eqn:E; [lia|].
    destruct (nth_error raw (Z.to_nat off)) as [b|] eqn:En.
    2:{ apply nth_error_None in En. unfold len in Ho. lia. }
    inversion Hnd as [|x l Hnotin Hnd']; subst.
    rewrite (dset_fresh _ _ _ (Hfr _ (or_introl eq_refl))). cbn [fst snd].
    rewrite IH.
    + cbn [map fst snd]. rewrite <- app_assoc. rewrite (nth_error_nth _ _ 0 En). reflexivity.
    + intros n' off' bit' H. apply (Hin n' off' bit'). right. exact H.
    + exact Hnd'.
    + intros e He. rewrite dget_app, (Hfr e (or_intror He)). cbn [dget].
      rewrite teqb_neq; [reflexivity|].
      intros Eq. apply Hnotin. cbn [fst] in *. rewrite Eq. apply (in_map (fun e : bfld => fst (fst e))). exact He.
Qed.

(* ================================================================ arrays *)
Lemma chunks_concat n s (d : bytes) : length d = (n * s)%nat -> concat (Expect.chunks n s d) = d.
Proof.
  revert d; induction n as [|n IH]; intros d H.
  - cbn in *. destruct d; [reflexivity|discriminate].
  - cbn [Expect.chunks concat]. rewrite IH.
    + apply firstn_skipn.
    + rewrite skipn_length. lia.
Qed.

Lemma chunks_length n s (d : bytes) : length (Expect.chunks n s d) = n.
Proof. revert d; induction n as [|n IH]; intros d; [reflexivity|]. cbn. rewrite IH. reflexivity. Qed.

Lemma bytes_ok_firstn_ k (d : bytes) : bytes_ok d = true -> bytes_ok (firstn k d) = true.
Proof.
  revert d; induction k as [|k IH]; intros d H; [reflexivity|]. destruct d as [|x d]; [reflexivity|].
  cbn [firstn]. rewrite bytes_ok_cons in *. apply andb_prop in H. destruct H as [H1 H2]. rewrite H1, IH; auto.
Qed.
Lemma bytes_ok_skipn_ k (d : bytes) : bytes_ok d = true -> bytes_ok (skipn k d) = true.
Proof.
  revert d; induction k as [|k IH]; intros d H; [assumption|]. destruct d as [|x d]; [reflexivity|].
  cbn [skipn]. rewrite bytes_ok_cons in H. apply andb_prop in H. destruct H as [H1 H2]. auto.
Qed.

(* n elements of size s: each chunk is decoded by [dec] as [Q] says *)
Lemma dec_many_spec dec (Q : bytes -> rvalue -> Prop) (s : nat) :
  (forall d rest, length d = s -> bytes_ok d = true -> exists v, dec (d ++ rest) = Ok (v, rest) /\ Q d v) ->
  forall n d rest, length d = (n * s)%nat -> bytes_ok d = true ->
  exists vs, dec_many dec n (d ++ rest) = Ok (vs, rest) /\ Forall2 Q (Expect.chunks n s d) vs.
Proof.
  intros Hdec. induction n as [|n IH]; intros d rest Hl Hok.
  - cbn in Hl. destruct d; [|discriminate]. exists []. split; [reflexivity|constructor].
  - cbn [dec_many Expect.chunks].
    replace (d ++ rest) with (firstn s d ++ (skipn s d ++ rest)) by (rewrite app_assoc, firstn_skipn; reflexivity).
    destruct (Hdec (firstn s d) (skipn s d ++ rest)) as (v & Hv & HQ).
    { rewrite firstn_length. lia. }
    { apply bytes_ok_firstn_. exact Hok. }
    rewrite Hv. cbn [bind].
    destruct (IH (skipn s d) rest) as (vs & Hvs & HQs).
    { rewrite skipn_length. lia. }
    { apply bytes_ok_skipn_. exact Hok. }
    rewrite Hvs. cbn [bind]. exists (v :: vs). split; [reflexivity|]. constructor; assumption.
Qed.

(* ================================================================ layout hypotheses (computable) *)
(* a structure whose visible members are LEN and DATA[n] is a real string: LEN DINT at 0, DATA SINT[n] at 4 *)
Definition string_std (t : template) : bool :=
  match visible_members t with
  | [l; d] =>
      if text_eqb (m_name l) txt_LEN && text_eqb (m_name d) txt_DATA && negb (m_arr d =? 0)
      then (match string_shape t with Some _ => true | None => false end) && (m_off l =? 0) && (m_off d =? 4)
      else true
  | _ => true
  end.

Definition tmpl_layout_ok (p : project) (t : template) : bool :=
  forallb (member_ok p t) (t_members t)
  && distinct_by text_eqb (map m_name (t_members t)) && string_std t && (0 <? t_size t).

Definition layout_ok (p : project) : bool := forallb (tmpl_layout_ok p) (p_templates p).

Lemma find_template_in ts tid t : find_template ts tid = Some t -> In t ts /\ t_id t = tid.
Proof.
  induction ts as [|x r IH]; [discriminate|]. cbn. destruct (t_id x =? tid) eqn:E.
  - intros H; injection H as <-. split; [left; reflexivity|lia].
  - intros H. destruct (IH H). split; [right; assumption|assumption].
Qed.

(* ================================================================ element type classes *)
Definition dt_class (d : dtype) : tclass := let '(_, tc, _, _, _) := d in tc.
Definition elem_tc (fuel : nat) (p : project) (ty : base_ty) : option tclass :=
  match ty with
  | BAtom c => match atom_class c with Some _ => Some (KAtom c) | None => None end
  | BStruct tid => option_map dt_class (struct_dtype fuel p tid)
  | BOpaque _ => None
  end.

Definition elem_spec (p : project) (ty : base_ty) (tc : tclass) (s : Z) : Prop :=
  forall d rest, len d = s -> bytes_ok d = true ->
    exists v', decode_tc tc (d ++ rest) = Ok (v', rest)
               /\ forall f2 v, decode_val f2 p ty d = Some v -> pyeq v' v.

(* the reference value of n elements *)
Definition array_spec (p : project) (ty : base_ty) (tc : tclass) (s n : Z) : Prop :=
  forall d rest, len d = s * n -> bytes_ok d = true ->
    exists v', decode_tc (KArr n tc) (d ++ rest) = Ok (v', rest)
               /\ forall f2 v, decode_array_with (decode_val f2 p) ty s n d = Some v -> pyeq v' v.

Lemma all_some_forall2 {A B} (f : A -> option B) : forall l r, all_some (map f l) = Some r ->
  Forall2 (fun a b => f a = Some b) l r.
Proof.
  induction l as [|a l IH]; intros r H; cbn in H.
  - injection H as <-. constructor.
  - destruct (f a) as [b|] eqn:E; [|discriminate].
    destruct (all_some (map f l)) as [r'|] eqn:E2; [|discriminate].
    injection H as <-. constructor; [exact E|apply IH; reflexivity].
Qed.

Lemma flatten_rbools (cs : list bytes) :
  flatten_lists (map rbools cs) = map RBool (bools_of_bytes (concat cs)).
Proof.
  induction cs as [|c r IH]; [reflexivity|].
  cbn [map flatten_lists flat_map concat]. rewrite bools_of_bytes_app, map_app.
  unfold flatten_lists in IH. rewrite IH. reflexivity.
Qed.

Lemma is_bitarray_atom c s : atom_size c = Some s -> is_bitarray (KAtom c) = atom_bits c.
Proof.
  intros H. destruct (atom_class_some c s H) as (n & k & Hc & _ & _ & _ & _ & Hk).
  unfold is_bitarray. rewrite Hc. destruct k; congruence.
Qed.

Lemma decode_val_atom f2 p c d v : decode_val f2 p (BAtom c) d = Some v -> decode_atom c d = Some v.
Proof. destruct f2; [discriminate|]. cbn. auto. Qed.

Lemma decode_tc_arr n e s :
  decode_tc (KArr n e) s
  = wrap_decode (let* (vs, r) := dec_many (decode_tc e) (Z.to_nat n) s in
                 Ok (RList (if is_bitarray e then flatten_lists vs else vs), r)).
Proof. reflexivity. Qed.

Lemma decode_tc_struct ms bits priv size s :
  decode_tc (KStruct ms bits priv size) s
  = wrap_decode (if negb (match firstn (Z.to_nat size) s with [] => true | _ => false end)
                    && (len (firstn (Z.to_nat size) s) <? size) then Err DataError else
                 let* vals := dec_members decode_tc ms (firstn (Z.to_nat size) s) [] in
                 let* vals2 := dec_bits (firstn (Z.to_nat size) s) bits vals in
                 Ok (RStruct (filter (fun kv => negb (tmem (fst kv) priv)) vals2), skipn (Z.to_nat size) s)).
Proof. reflexivity. Qed.

Lemma decode_atom_bits c s d : atom_size c = Some s -> atom_bits c = true -> forall v, decode_atom c d = Some v -> v = rbools d.
Proof.
  intros Hs Hb v H. unfold decode_atom in H. rewrite Hs in H.
  destruct (negb (Expect.blen d =? s)); [discriminate|].
  unfold atom_bits, atom_signed, atom_unsigned, C_BOOL, C_REAL, C_LREAL, C_SINT, C_INT, C_DINT, C_LINT, C_USINT, C_UINT,
    C_UDINT, C_ULINT, C_BYTE, C_WORD, C_DWORD, C_LWORD in *.
  repeat match type of H with context [if ?b then _ else _] => destruct b eqn:? end; try lia; congruence.
Qed.

(* n consecutive elementary values; BOOL arrays (bit strings) come back as one flat list *)
Theorem decode_array_atom p c s n : atom_size c = Some s -> 0 <= n -> array_spec p (BAtom c) (KAtom c) s n.
Proof.
  intros Hs Hn d rest Hl Hok.
  assert (Hpos : 0 < s) by (destruct (atom_size_cases c s Hs) as [|[|[|]]]; lia).
  rewrite decode_tc_arr.
  destruct (dec_many_spec (decode_tc (KAtom c)) (fun d v => decode_atom c d = Some v) (Z.to_nat s))
    with (n := Z.to_nat n) (d := d) (rest := rest) as (vs & Hvs & HQ).
  - intros d0 rest0 Hl0 Hok0. apply (atom_decode c s); [assumption|unfold len; lia|assumption].
  - unfold len in Hl. nia.
  - assumption.
  - rewrite Hvs. cbn [bind wrap_decode]. eexists. split; [reflexivity|].
    intros f2 v Hv. unfold decode_array_with in Hv. cbn [is_bits_ty] in Hv.
    rewrite (is_bitarray_atom c s Hs).
    destruct (atom_bits c) eqn:Eb.
    + injection Hv as <-.
      assert (Hvals : vs = map rbools (Expect.chunks (Z.to_nat n) (Z.to_nat s) d)).
      { clear Hvs. induction HQ as [|c0 v0 cs0 vs0 H0 _ IH]; [reflexivity|].
        cbn [map]. rewrite IH. f_equal. apply (decode_atom_bits c s c0 Hs Eb). exact H0. }
      rewrite Hvals, flatten_rbools, chunks_concat by (unfold len in Hl; nia).
      apply pe_refl.
    + destruct (all_some (map (decode_val f2 p (BAtom c)) (Expect.chunks (Z.to_nat n) (Z.to_nat s) d))) as [rs|] eqn:Ea;
        [|discriminate].
      injection Hv as <-.
      apply all_some_forall2 in Ea.
      assert (vs = rs); [|subst; apply pe_refl].
      clear Hvs. revert rs Ea. induction HQ as [|c0 v0 cs0 vs0 H0 _ IH]; intros rs Ea; inversion Ea; subst; [reflexivity|].
      f_equal; [|apply IH; assumption].
      match goal with H : decode_val _ _ _ _ = Some _ |- _ => apply decode_val_atom in H; congruence end.
Qed.

(* n consecutive structures / strings *)
Theorem decode_array_struct p tid tc s n : is_bitarray tc = false -> 0 < s -> 0 <= n ->
  elem_spec p (BStruct tid) tc s -> array_spec p (BStruct tid) tc s n.
Proof.
  intros Hnb Hs Hn He d rest Hl Hok.
  rewrite decode_tc_arr.
  destruct (dec_many_spec (decode_tc tc) (fun d v' => forall f2 v, decode_val f2 p (BStruct tid) d = Some v -> pyeq v' v)
              (Z.to_nat s)) with (n := Z.to_nat n) (d := d) (rest := rest) as (vs & Hvs & HQ).
  - intros d0 rest0 Hl0 Hok0. apply He; [unfold len; lia|assumption].
  - unfold len in Hl. nia.
  - assumption.
  - rewrite Hvs. cbn [bind wrap_decode]. rewrite Hnb. eexists. split; [reflexivity|].
    intros f2 v Hv. unfold decode_array_with in Hv. cbn [is_bits_ty] in Hv.
    destruct (all_some (map (decode_val f2 p (BStruct tid)) (Expect.chunks (Z.to_nat n) (Z.to_nat s) d))) as [rs|] eqn:Ea;
      [|discriminate].
    injection Hv as <-. apply all_some_forall2 in Ea. apply pe_list.
    clear Hvs. revert rs Ea. induction HQ as [|c0 v0 cs0 vs0 H0 _ IH]; intros rs Ea; inversion Ea; subst; constructor.
    + eapply H0. eassumption.
    + apply IH. assumption.
Qed.

(* ================================================================ members *)
Lemma is_private_host tid n : is_private tid n = host_name tid n.
Proof. reflexivity. Qed.

Lemma wrap_arr_not_bits arr tc : is_bitarray tc = false -> (arr =? 0) = false -> is_bitarray (wrap_arr arr tc) = false.
Proof. intros _ H. unfold wrap_arr. rewrite H. reflexivity. Qed.

Lemma dt_class_not_bits t infos : is_bitarray (dt_class (dtype_of t infos)) = false.
Proof. unfold dtype_of, dt_class. destruct (is_string_dtype _); reflexivity. Qed.

(* what the reference decodes for a non-BOOL member from its own bytes *)
Definition ref_member (f2 : nat) (p : project) (m : member) (es : Z) (dm : bytes) : option rvalue :=
  if m_arr m =? 0 then decode_val f2 p (m_ty m) dm
  else decode_array_with (decode_val f2 p) (m_ty m) es (m_arr m) dm.

Definition IHspec (p : project) (f : nat) : Prop :=
  forall ty tc s, elem_tc f p ty = Some tc -> base_size p ty = Some s -> elem_spec p ty tc s.

Lemma member_spec p f t m i :
  IHspec p f -> member_ok p t m = true -> member_info (struct_dtype f p) m = Some i ->
  is_bool_info i = is_bool_member m /\
  (is_bool_member m = false ->
   exists sz es, member_size p m = Some sz /\ base_size p (m_ty m) = Some es /\ 0 < sz /\
     forall dm rest, len dm = sz -> bytes_ok dm = true ->
       exists v', decode_tc (ti_class i) (dm ++ rest) = Ok (v', rest) /\
                  forall f2 v, ref_member f2 p m es dm = Some v -> pyeq v' v).
Proof.
  intros IH Hok Hi. unfold member_ok in Hok.
  repeat (apply andb_prop in Hok; destruct Hok as [Hok ?]).
  unfold member_info in Hi. destruct (m_ty m) as [c|tid'|w] eqn:Ety; [| |discriminate].
  - (* elementary member *)
    cbv beta iota in Hi. destruct (atom_class c) as [[[n sz0] k]|] eqn:Ec; [|discriminate]. cbv beta iota in Hi. injection Hi as <-.
    unfold is_bool_info. cbn [ti_struct ti_dtname negb andb ti_class].
    assert (Hsz : exists es, atom_size c = Some es).
    { unfold is_bool_member in *. rewrite Ety in *. destruct (c =? C_BOOL) eqn:Eb.
      - exists 1. replace c with C_BOOL by lia. reflexivity.
      - unfold member_size, base_size in *. rewrite Ety in *. destruct (atom_size c) as [es|]; [eauto|destruct (m_bit m =? 0); discriminate]. }
    destruct Hsz as [es Hes].
    destruct (atom_class_some c es Hes) as (n' & k' & Hc' & _ & _ & Hbool & _ & _).
    rewrite Ec in Hc'. injection Hc' as E1 E2 E3. subst n' sz0 k'.
    unfold is_bool_member at 1. rewrite Ety. split; [exact Hbool|].
    intros Hnb. unfold is_bool_member in Hnb. rewrite Ety in Hnb. rewrite Hbool, Hnb.
    unfold is_bool_member in *. rewrite Ety, Hnb in *.
    unfold member_size, base_size in *. rewrite Ety, Hes in *.
    exists (es * member_elems m), es. split; [reflexivity|]. split; [reflexivity|].
    apply andb_prop in H. destruct H as [Hbit0 H]. apply andb_prop in H. destruct H as [Hpos Hfit].
    split; [lia|].
    intros dm rest Hl Hokd. unfold ref_member, wrap_arr, member_elems in *. rewrite Ety.
    destruct (m_arr m =? 0) eqn:Ea.
    + destruct (atom_decode c es dm rest Hes) as (v & Hv & Hd); [lia|assumption|].
      exists v. split; [exact Hv|]. intros f2 v0 Hv0. apply decode_val_atom in Hv0.
      replace v0 with v by congruence. apply pe_refl.
    + apply (decode_array_atom p c es (m_arr m) Hes); [lia|lia|assumption].
  - (* structure member *)
    cbv beta iota in Hi. destruct (struct_dtype f p tid') as [[[[[n tc'] sz0] attrs] mem]|] eqn:Esd; [|discriminate]. cbv beta iota in Hi. injection Hi as <-.
    unfold is_bool_info. cbn [ti_struct negb andb ti_class].
    unfold is_bool_member. rewrite Ety. split; [reflexivity|]. intros _.
    unfold is_bool_member in *. rewrite Ety in *.
    apply andb_prop in H. destruct H as [Hbit0 Hms].
    unfold member_size in *. destruct (base_size p (m_ty m)) as [es|] eqn:Ebs; [|discriminate].
    rewrite Ety in Ebs.
    apply andb_prop in Hms. destruct Hms as [Hpos Hfit].
    exists (es * member_elems m), es. split; [reflexivity|]. split; [exact Ebs|]. split; [lia|].
    assert (Hspec : elem_spec p (BStruct tid') tc' es).
    { apply (IH (BStruct tid') tc' es); [|exact Ebs]. cbn [elem_tc]. rewrite Esd. reflexivity. }
    assert (Hnb : is_bitarray tc' = false).
    { cbn [struct_dtype] in Esd. destruct f; [discriminate|]. cbn [struct_dtype] in Esd.
      destruct (find_template (p_templates p) tid'); [|discriminate].
      destruct (member_infos (struct_dtype f p) (t_members t0)); [|discriminate].
      injection Esd as E1 E2 _ _ _. rewrite <- E2.
      change (is_bitarray (dt_class (dtype_of t0 l)) = false). apply dt_class_not_bits. }
    intros dm rest Hl Hokd. unfold ref_member, wrap_arr, member_elems in *. rewrite Ety.
    destruct (m_arr m =? 0) eqn:Ea.
    + apply Hspec; [lia|assumption].
    + apply (decode_array_struct p tid' tc' es (m_arr m) Hnb); [nia|lia|exact Hspec|lia|assumption].
Qed.

(* ================================================================ list helpers for the structure proof *)
From Coq Require Import Permutation.

Lemma filter_split_perm {A} (g h : A -> bool) (l : list A) :
  Permutation (filter g (filter (fun x => negb (h x)) l) ++ filter g (filter h l)) (filter g l).
Proof.
  induction l as [|x l IH]; [constructor|].
  cbn [filter]. destruct (h x) eqn:Eh; cbn [negb filter].
  - destruct (g x) eqn:Eg; [|exact IH].
    apply Permutation_sym. apply Permutation_cons_app. apply Permutation_sym. exact IH.
  - destruct (g x) eqn:Eg; [|exact IH]. cbn [app]. constructor. exact IH.
Qed.

Lemma NoDup_map_filter {A B} (f : A -> B) (g : A -> bool) l : NoDup (map f l) -> NoDup (map f (filter g l)).
Proof.
  induction l as [|x l IH]; intros H; [constructor|].
  cbn [map] in H. inversion H as [|y r Hn Hd]; subst. cbn [filter].
  destruct (g x); [|auto]. cbn [map]. constructor; [|auto].
  intros Hin. apply Hn. apply in_map_iff in Hin. destruct Hin as (z & Hz & Hzin).
  apply filter_In in Hzin. rewrite <- Hz. apply in_map. tauto.
Qed.

Lemma filter_map_fst_length {A B} (P : A -> bool) (l : list (A * B)) :
  length (filter (fun e => P (fst e)) l) = length (filter P (map fst l)).
Proof.
  induction l as [|[a b] l IH]; [reflexivity|]. cbn [filter map fst].
  destruct (P a); cbn [length]; rewrite IH; reflexivity.
Qed.

Lemma dget_nodup_in {A} (l : list (text * A)) k v : NoDup (map fst l) -> In (k, v) l -> dget k l = Some v.
Proof.
  induction l as [|[k' v'] r IH]; intros Hnd Hin; [contradiction|].
  cbn [map fst] in Hnd. inversion Hnd as [|x y Hn Hd]; subst.
  cbn [dget]. destruct Hin as [E|Hin].
  - injection E as -> ->. rewrite teqb_refl. reflexivity.
  - rewrite teqb_neq; [auto|]. intros E. subst. apply Hn. apply (in_map fst) in Hin. exact Hin.
Qed.

Lemma get_bytes_split (d : bytes) off n dm : get_bytes d off n = Some dm ->
  skipn (Z.to_nat off) d = dm ++ skipn (Z.to_nat (off + n)) d /\ len dm = n /\ 0 <= off /\ 0 <= n /\ off + n <= len d.
Proof.
  unfold get_bytes. destruct ((0 <=? off) && (0 <=? n) && (off + n <=? Expect.blen d)) eqn:E; [|discriminate].
  intros H. injection H as <-. unfold Expect.blen, len in *.
  split.
  - replace (Z.to_nat (off + n)) with (Z.to_nat off + Z.to_nat n)%nat by lia.
    rewrite <- skipn_add. symmetry. apply firstn_skipn.
  - rewrite firstn_length, skipn_length. lia.
Qed.

Lemma get_bytes_some (d : bytes) off n : 0 <= off -> 0 <= n -> off + n <= len d -> exists dm, get_bytes d off n = Some dm.
Proof.
  intros. unfold get_bytes. replace ((0 <=? off) && (0 <=? n) && (off + n <=? Expect.blen d)) with true; [eauto|].
  unfold Expect.blen, len in *. lia.
Qed.

Lemma bytes_ok_get (d : bytes) off n dm : bytes_ok d = true -> get_bytes d off n = Some dm -> bytes_ok dm = true.
Proof.
  unfold get_bytes. destruct (_ && _); [|discriminate]. intros H E. injection E as <-.
  apply bytes_ok_firstn_, bytes_ok_skipn_. exact H.
Qed.

(* ================================================================ structures *)
Lemma map_filter_fst {A B C} (f : A -> C) (P : A -> bool) (l : list (A * B)) :
  map (fun e => f (fst e)) (filter (fun e => P (fst e)) l) = map f (filter P (map fst l)).
Proof.
  induction l as [|[a b] l IH]; [reflexivity|]. cbn [filter map fst].
  destruct (P a); cbn [map fst]; rewrite IH; reflexivity.
Qed.

Lemma forallb_In {A} (P : A -> bool) l x : forallb P l = true -> In x l -> P x = true.
Proof. intros H Hin. rewrite forallb_forall in H. auto. Qed.

(* the chain of the non-BOOL members *)
Definition mk_fld (p : project) (dval : member * tinfo -> rvalue) (mi : member * tinfo) : fld :=
  (mi_name mi, m_off (fst mi), ti_class (snd mi), match member_size p (fst mi) with Some s => s | None => 0 end, dval mi).

Lemma sorted_chain p t dval : forall infos pos,
  (forall mi, In mi infos -> is_bool_info (snd mi) = is_bool_member (fst mi) /\ member_ok p t (fst mi) = true) ->
  chain (t_size t) pos (map (mk_fld p dval) (filter (fun mi => negb (is_bool_info (snd mi))) infos)).
Proof.
  induction infos as [|[m i] r IH]; intros pos Hm; [exact I|].
  cbn [filter fst snd].
  destruct (Hm (m, i) (or_introl eq_refl)) as [Hb Hok]. cbn [fst snd] in Hb, Hok. rewrite Hb.
  destruct (is_bool_member m) eqn:Eb; cbn [negb].
  - apply IH. intros mi Hin. apply Hm. right. exact Hin.
  - cbn [map]. unfold mk_fld at 1. cbn [fst snd chain].
    unfold member_ok in Hok. rewrite Eb in Hok.
    destruct (member_size p m) as [s|] eqn:Es; [|rewrite !andb_false_r in Hok; discriminate Hok].
    repeat (apply andb_prop in Hok; destruct Hok as [Hok ?]).
    split; [lia|]. split; [lia|]. split; [lia|].
    apply IH. intros mi Hin. apply Hm. right. exact Hin.
Qed.

Lemma firstn_app_all {A} (a b : list A) n : n = length a -> firstn n (a ++ b) = a.
Proof. intros ->. apply firstn_app_exact. Qed.
Lemma skipn_app_all {A} (a b : list A) n : n = length a -> skipn n (a ++ b) = b.
Proof. intros ->. apply skipn_app_exact. Qed.

(* the value the client's class of member [mi] decodes at the member's offset of the image [d] *)
Definition dval_of (d : bytes) (mi : member * tinfo) : rvalue :=
  match decode_tc (ti_class (snd mi)) (skipn (Z.to_nat (m_off (fst mi))) d) with
  | Ok (v, _) => v
  | Err _ => RInt 0
  end.
Definition bval_of (d : bytes) (mi : member * tinfo) : rvalue :=
  RBool (Z.testbit (nth (Z.to_nat (m_off (fst mi))) d 0) (m_bit (fst mi))).

Section StructCase.
  Variables (p : project) (f : nat) (t : template) (infos : list (member * tinfo)).
  Hypothesis IH : IHspec p f.
  Hypothesis Hlay : tmpl_layout_ok p t = true.
  Hypothesis Hmi : member_infos (struct_dtype f p) (t_members t) = Some infos.

  Let tid := t_id t.
  Let np (mi : member * tinfo) : bool := negb (is_private tid (mi_name mi)).
  Let nb (mi : member * tinfo) : bool := negb (is_bool_info (snd mi)).

  Lemma sc_fst : map fst infos = t_members t.
  Proof. apply (member_infos_spec _ _ _ Hmi). Qed.

  Lemma sc_lay : forallb (member_ok p t) (t_members t) = true /\ True
                 /\ distinct_by text_eqb (map m_name (t_members t)) = true /\ string_std t = true /\ 0 < t_size t.
  Proof.
    pose proof Hlay as H. unfold tmpl_layout_ok in H. repeat (apply andb_prop in H; destruct H as [H ?]).
    repeat split; try assumption. lia.
  Qed.

  Lemma sc_nodup : NoDup (map mi_name infos).
  Proof.
    replace (map mi_name infos) with (map m_name (map fst infos)) by (rewrite map_map; reflexivity).
    rewrite sc_fst. apply distinct_by_nodup. apply sc_lay.
  Qed.

  Lemma sc_member mi : In mi infos ->
    member_ok p t (fst mi) = true /\ member_info (struct_dtype f p) (fst mi) = Some (snd mi).
  Proof.
    intros Hin. split.
    - apply (forallb_In _ (t_members t)); [apply sc_lay|]. rewrite <- sc_fst. apply in_map. exact Hin.
    - pose proof (proj2 (member_infos_spec _ _ _ Hmi)) as HF. rewrite Forall_forall in HF. apply HF. exact Hin.
  Qed.

  Lemma sc_bool mi : In mi infos -> is_bool_info (snd mi) = is_bool_member (fst mi).
  Proof. intros Hin. destruct (sc_member mi Hin) as [H1 H2]. apply (member_spec p f t _ _ IH H1 H2). Qed.

  Lemma sc_hidden mi : In mi infos -> is_private tid (mi_name mi) = m_hidden (fst mi).
  Proof.
    intros Hin. destruct (sc_member mi Hin) as [H1 _]. unfold member_ok in H1.
    repeat (apply andb_prop in H1; destruct H1 as [H1 ?]).
    rewrite is_private_host. unfold mi_name, tid. symmetry. apply eqb_prop. assumption.
  Qed.

  Lemma sc_scan : scan_members tid infos =
    mkScan (map (fun mi => (mi_name mi, snd mi)) infos)
           (map mi_name (filter np infos))
           (map (fun mi => (mi_name mi, m_off (fst mi), ti_class (snd mi))) (filter nb infos))
           (map (fun mi => (mi_name mi, (m_off (fst mi), m_bit (fst mi)))) (filter (fun mi => is_bool_info (snd mi)) infos))
           (map mi_name (filter (fun mi => is_private tid (mi_name mi)) infos)).
  Proof.
    unfold scan_members. rewrite (scan_spec tid infos _ sc_nodup); [reflexivity|].
    intros mi _. repeat split; reflexivity.
  Qed.

  Lemma sc_attrs_visible : map mi_name (filter np infos) = map m_name (visible_members t).
  Proof.
    unfold visible_members. rewrite <- sc_fst.
    rewrite <- (map_filter_fst m_name (fun m => negb (m_hidden m)) infos).
    f_equal. apply filter_ext_in. intros mi Hin. unfold np. rewrite (sc_hidden mi Hin). reflexivity.
  Qed.

  Lemma sc_itag mi : In mi infos -> dget (mi_name mi) (map (fun mi => (mi_name mi, snd mi)) infos) = Some (snd mi).
  Proof.
    intros Hin. apply dget_nodup_in.
    - rewrite map_map. cbn [fst]. exact sc_nodup.
    - apply (in_map (fun mi => (mi_name mi, snd mi))) in Hin. exact Hin.
  Qed.

  Lemma sc_priv mi : In mi infos ->
    tmem (mi_name mi) (map mi_name (filter (fun mi => is_private tid (mi_name mi)) infos)) = is_private tid (mi_name mi).
  Proof.
    intros Hin. destruct (is_private tid (mi_name mi)) eqn:E.
    - apply tmem_in. apply in_map. apply filter_In. split; assumption.
    - destruct (tmem _ _) eqn:Et; [|reflexivity]. apply tmem_in in Et. apply in_map_iff in Et.
      destruct Et as (mi' & Hn & Hin'). apply filter_In in Hin'. rewrite Hn in Hin'. destruct Hin'. congruence.
  Qed.

  Lemma nodup_map_inj {A B} (g : A -> B) l a b : NoDup (map g l) -> In a l -> In b l -> g a = g b -> a = b.
  Proof.
    induction l as [|x l IHl]; intros Hnd Ha Hb E; [contradiction|].
    cbn [map] in Hnd. inversion Hnd as [|y r Hn Hd]; subst.
    destruct Ha as [->|Ha]; destruct Hb as [->|Hb]; auto.
    - exfalso. apply Hn. rewrite E. apply in_map. exact Hb.
    - exfalso. apply Hn. rewrite <- E. apply in_map. exact Ha.
  Qed.

  Let isb (mi : member * tinfo) : bool := is_bool_info (snd mi).

  (* every non-BOOL member decodes at its offset, consuming exactly its bytes *)
  Lemma sc_member_decode d mi : len d = t_size t -> bytes_ok d = true -> In mi infos -> nb mi = true ->
    exists sz es dm, member_size p (fst mi) = Some sz /\ base_size p (m_ty (fst mi)) = Some es
      /\ get_bytes d (m_off (fst mi)) sz = Some dm
      /\ decode_tc (ti_class (snd mi)) (skipn (Z.to_nat (m_off (fst mi))) d)
         = Ok (dval_of d mi, skipn (Z.to_nat (m_off (fst mi) + sz)) d)
      /\ forall f2 v, ref_member f2 p (fst mi) es dm = Some v -> pyeq (dval_of d mi) v.
  Proof.
    intros Hl Hokd Hin Hnb. destruct (sc_member mi Hin) as [Hok Hinfo].
    destruct (member_spec p f t _ _ IH Hok Hinfo) as [Hb Hs].
    unfold nb in Hnb. rewrite Hb in Hnb. apply negb_true_iff in Hnb.
    destruct (Hs Hnb) as (sz & es & Hsz & Hes & Hpos & Hdec).
    assert (Hfit : 0 <= m_off (fst mi) /\ m_off (fst mi) + sz <= t_size t).
    { unfold member_ok in Hok. rewrite Hnb, Hsz in Hok.
      repeat (apply andb_prop in Hok; destruct Hok as [Hok ?]). lia. }
    destruct (get_bytes_some d (m_off (fst mi)) sz) as [dm Hdm]; [lia|lia|lia|].
    destruct (get_bytes_split _ _ _ _ Hdm) as (Hsplit & Hldm & _).
    destruct (Hdec dm (skipn (Z.to_nat (m_off (fst mi) + sz)) d) Hldm (bytes_ok_get _ _ _ _ Hokd Hdm)) as (v' & Hv' & Hpy).
    exists sz, es, dm. repeat split; try assumption.
    - unfold dval_of. rewrite Hsplit, Hv'. reflexivity.
    - unfold dval_of. rewrite Hsplit, Hv'. exact Hpy.
  Qed.

  Lemma sc_filter_priv (g : member * tinfo -> rvalue) (l : list (member * tinfo)) :
    (forall mi, In mi l -> In mi infos) ->
    filter (fun kv : text * rvalue => negb (tmem (fst kv) (map mi_name (filter (fun mi => is_private tid (mi_name mi)) infos))))
           (map (fun mi => (mi_name mi, g mi)) l)
    = map (fun mi => (mi_name mi, g mi)) (filter np l).
  Proof.
    induction l as [|x l IHl]; intros Hsub; [reflexivity|].
    cbn [map filter fst]. rewrite (sc_priv x (Hsub x (or_introl eq_refl))).
    unfold np at 1. destruct (is_private tid (mi_name x)); cbn [negb map]; rewrite IHl; auto.
    - intros mi Hin. apply Hsub. right. exact Hin.
    - intros mi Hin. apply Hsub. right. exact Hin.
  Qed.

  Definition client_fields (d : bytes) : list (text * rvalue) :=
    map (fun mi => (mi_name mi, dval_of d mi)) (filter np (filter nb infos))
    ++ map (fun mi => (mi_name mi, bval_of d mi)) (filter np (filter isb infos)).

  Lemma sc_struct_value d rest : len d = t_size t -> bytes_ok d = true ->
    decode_tc (KStruct (map (fun mi => (mi_name mi, m_off (fst mi), ti_class (snd mi))) (filter nb infos))
                       (map (fun e : text * (Z * Z) => (fst e, fst (snd e), snd (snd e)))
                            (map (fun mi => (mi_name mi, (m_off (fst mi), m_bit (fst mi)))) (filter isb infos)))
                       (map mi_name (filter (fun mi => is_private tid (mi_name mi)) infos)) (t_size t)) (d ++ rest)
    = Ok (RStruct (client_fields d), rest).
  Proof.
    intros Hl Hokd. rewrite decode_tc_struct.
    rewrite firstn_app_all, skipn_app_all by (unfold len in Hl; lia).
    replace (len d <? t_size t) with false by lia. rewrite andb_false_r.
    pose proof sc_lay as (Hmok & Hsort & Hdist & Hstd & Hsz).
    (* first loop *)
    replace (map (fun mi => (mi_name mi, m_off (fst mi), ti_class (snd mi))) (filter nb infos))
      with (map f_req (map (mk_fld p (dval_of d)) (filter nb infos))) by (rewrite map_map; reflexivity).
    assert (H1 := dec_members_ok decode_tc d (map (mk_fld p (dval_of d)) (filter nb infos)) 0 []).
    rewrite H1; clear H1.
    2:{ unfold len. lia. }
    2:{ rewrite Hl. apply sorted_chain.
        intros mi Hin. split; [apply sc_bool; exact Hin|apply sc_member; exact Hin]. }
    2:{ intros n off tc sz v Hin. apply in_map_iff in Hin. destruct Hin as (mi & E & Hin).
        apply filter_In in Hin. destruct Hin as [Hin Hnb].
        destruct (sc_member_decode d mi Hl Hokd Hin Hnb) as (sz' & es & dm & Hsz' & _ & _ & Hdec & _).
        unfold mk_fld in E. rewrite Hsz' in E. injection E as <- <- <- <- <-. exact Hdec. }
    2:{ rewrite map_map. cbn [f_name mk_fld]. apply (NoDup_map_filter mi_name nb). exact sc_nodup. }
    2:{ intros e _. reflexivity. }
    cbn [bind app].
    (* second loop *)
    rewrite map_map. cbn [fst snd].
    rewrite (dec_bits_ok d (map (fun mi => (mi_name mi, m_off (fst mi), m_bit (fst mi))) (filter isb infos))).
    2:{ intros n off bit Hin. apply in_map_iff in Hin. destruct Hin as (mi & E & Hin). injection E as <- <- <-.
        apply filter_In in Hin. destruct Hin as [Hin Hb]. destruct (sc_member mi Hin) as [Hok _].
        unfold isb in Hb. rewrite (sc_bool mi Hin) in Hb. unfold member_ok in Hok. rewrite Hb in Hok.
        repeat (apply andb_prop in Hok; destruct Hok as [Hok ?]). lia. }
    2:{ rewrite map_map. cbn [fst]. apply (NoDup_map_filter mi_name isb). exact sc_nodup. }
    2:{ intros e He. apply in_map_iff in He. destruct He as (mi & E & Hin). subst e. cbn [fst].
        rewrite map_map. apply dget_none_map. intros x Hx. cbn [f_val mk_fld fst].
        apply filter_In in Hin. apply filter_In in Hx. destruct Hin as [Hin Hb]. destruct Hx as [Hx Hnbx].
        intros E. assert (x = mi) by (apply (nodup_map_inj mi_name infos); auto using sc_nodup).
        subst x. unfold nb, isb in *. rewrite Hb in Hnbx. discriminate. }
    cbn [bind wrap_decode]. do 3 f_equal.
    rewrite !map_map. cbn [f_val mk_fld fst snd].
    rewrite filter_app. unfold client_fields. f_equal.
    - apply sc_filter_priv. intros mi Hin. apply filter_In in Hin. tauto.
    - apply sc_filter_priv. intros mi Hin. apply filter_In in Hin. tauto.
  Qed.

  Lemma Forall2_in_l {A B} (R : A -> B -> Prop) l1 l2 a : Forall2 R l1 l2 -> In a l1 -> exists b, In b l2 /\ R a b.
  Proof.
    induction 1 as [|x y l1' l2' Hxy _ IHf]; intros Hin; [contradiction|].
    destruct Hin as [->|Hin]; [exists y; split; [left; reflexivity|exact Hxy]|].
    destruct (IHf Hin) as (b & Hb & HR). exists b. split; [right; exact Hb|exact HR].
  Qed.

  Lemma nth_of_skipn (l : bytes) n b r : skipn n l = b :: r -> nth n l 0 = b.
  Proof.
    revert l; induction n as [|n IHn]; intros l H.
    - cbn in H. subst l. reflexivity.
    - destruct l as [|x l]; [discriminate|]. cbn [skipn] in H. cbn [nth]. apply IHn. exact H.
  Qed.

  Definition ref_field (f2 : nat) (d : bytes) (m : member) : option (text * rvalue) :=
    match decode_member_with (decode_val f2 p) p m d with Some v => Some (m_name m, v) | None => None end.

  Lemma sc_perm : Permutation (filter np (filter nb infos) ++ filter np (filter isb infos)) (filter np infos).
  Proof. apply (filter_split_perm np isb infos). Qed.

  Lemma sc_visible mi : In mi infos -> np mi = true -> In (fst mi) (visible_members t).
  Proof.
    intros Hin Hnp. unfold visible_members. apply filter_In. split.
    - rewrite <- sc_fst. apply in_map. exact Hin.
    - unfold np in Hnp. rewrite (sc_hidden mi Hin) in Hnp. exact Hnp.
  Qed.

  Lemma sc_struct_pyeq d f2 fs : len d = t_size t -> bytes_ok d = true ->
    all_some (map (ref_field f2 d) (visible_members t)) = Some fs ->
    pyeq (RStruct (client_fields d)) (RStruct fs).
  Proof.
    intros Hl Hokd Hall. apply all_some_forall2 in Hall.
    assert (K1 : map fst fs = map m_name (visible_members t)).
    { clear -Hall. induction Hall as [|m kv ms kvs Hm _ IHa]; [reflexivity|].
      cbn [map]. rewrite IHa. f_equal. unfold ref_field in Hm.
      destruct (decode_member_with _ _ _ _); [|discriminate]. injection Hm as <-. reflexivity. }
    assert (Hnd_np : NoDup (map mi_name (filter np infos))) by (apply NoDup_map_filter; exact sc_nodup).
    assert (Hkeys : map fst (client_fields d)
                    = map mi_name (filter np (filter nb infos) ++ filter np (filter isb infos))).
    { unfold client_fields. rewrite map_app, !map_map. cbn [fst]. rewrite <- map_app. reflexivity. }
    assert (Hnd_fs : NoDup (map fst fs)) by (rewrite K1, <- sc_attrs_visible; exact Hnd_np).
    apply pe_dict.
    - rewrite Hkeys. eapply Permutation_NoDup; [|exact Hnd_np].
      apply Permutation_sym. apply Permutation_map. exact sc_perm.
    - exact Hnd_fs.
    - rewrite <- (map_length fst (client_fields d)), Hkeys, map_length.
      rewrite (Permutation_length sc_perm).
      rewrite <- (map_length fst fs), K1, <- sc_attrs_visible, map_length. reflexivity.
    - intros k v' Hin. unfold client_fields in Hin. apply in_app_or in Hin. destruct Hin as [Hin|Hin].
      + (* a non-BOOL member *)
        apply in_map_iff in Hin. destruct Hin as (mi & E & Hin). injection E as <- <-.
        apply filter_In in Hin. destruct Hin as [Hin Hnp]. apply filter_In in Hin. destruct Hin as [Hin Hnb].
        destruct (Forall2_in_l _ _ _ _ Hall (sc_visible mi Hin Hnp)) as (kv & Hkv & Hrel).
        destruct (sc_member_decode d mi Hl Hokd Hin Hnb) as (sz & es & dm & Hsz & Hes & Hdm & _ & Hpy).
        unfold ref_field, decode_member_with in Hrel.
        assert (Hb : is_bool_member (fst mi) = false).
        { unfold nb in Hnb. rewrite (sc_bool mi Hin) in Hnb. apply negb_true_iff. exact Hnb. }
        rewrite Hb, Hes in Hrel.
        assert (Esz : sz = es * member_elems (fst mi)).
        { unfold member_size in Hsz. rewrite Hes in Hsz. congruence. }
        rewrite <- Esz, Hdm in Hrel.
        destruct (if m_arr (fst mi) =? 0 then decode_val f2 p (m_ty (fst mi)) dm
                  else decode_array_with (decode_val f2 p) (m_ty (fst mi)) es (m_arr (fst mi)) dm) as [v|] eqn:Ev;
          [|discriminate].
        injection Hrel as <-. exists v. split.
        * apply dget_nodup_in; assumption.
        * apply (Hpy f2). exact Ev.
      + (* a BOOL member *)
        apply in_map_iff in Hin. destruct Hin as (mi & E & Hin). injection E as <- <-.
        apply filter_In in Hin. destruct Hin as [Hin Hnp]. apply filter_In in Hin. destruct Hin as [Hin Hb].
        destruct (Forall2_in_l _ _ _ _ Hall (sc_visible mi Hin Hnp)) as (kv & Hkv & Hrel).
        unfold ref_field, decode_member_with in Hrel.
        unfold isb in Hb. rewrite (sc_bool mi Hin) in Hb. rewrite Hb in Hrel.
        destruct (get_bytes d (m_off (fst mi)) 1) as [[|b [|b2 r]]|] eqn:Eg; try discriminate.
        injection Hrel as <-. exists (RBool (Z.testbit b (m_bit (fst mi)))). split.
        * apply dget_nodup_in; assumption.
        * destruct (get_bytes_split _ _ _ _ Eg) as (Hsplit & _).
          unfold bval_of. rewrite (nth_of_skipn _ _ _ _ Hsplit). apply pe_refl.
  Qed.

  (* ---------------------------------------------------------------- strings *)
  Lemma sc_class_arr mi n e : In mi infos -> ti_class (snd mi) = KArr n e -> m_arr (fst mi) = n /\ (n =? 0) = false.
  Proof.
    intros Hin Hc. destruct (sc_member mi Hin) as [_ Hinfo]. unfold member_info in Hinfo.
    destruct (m_ty (fst mi)) as [c|tid'|w]; [| |discriminate].
    - destruct (atom_class c) as [[[nm sz] k]|]; [|discriminate]. injection Hinfo as E. rewrite <- E in Hc. cbn [ti_class] in Hc.
      destruct (text_eqb nm txt_BOOL); [discriminate|]. unfold wrap_arr in Hc.
      destruct (m_arr (fst mi) =? 0) eqn:Ea; [discriminate|]. injection Hc as <- _. split; [reflexivity|exact Ea].
    - destruct (struct_dtype f p tid') as [[[[[nm tc'] sz] attrs] mem]|] eqn:Esd; [|discriminate].
      injection Hinfo as E. rewrite <- E in Hc. cbn [ti_class] in Hc. unfold wrap_arr in Hc.
      destruct (m_arr (fst mi) =? 0) eqn:Ea.
      + exfalso. destruct f as [|f']; [discriminate|]. cbn [struct_dtype] in Esd.
        destruct (find_template (p_templates p) tid'); [|discriminate].
        destruct (member_infos (struct_dtype f' p) (t_members t0)); [|discriminate].
        injection Esd as _ E2 _ _ _. rewrite Hc in E2. unfold dtype_of in E2.
        destruct (is_string_dtype _); discriminate.
      + injection Hc as <- _. split; [reflexivity|exact Ea].
  Qed.

  Lemma sc_info_of m : In m (t_members t) -> exists mi, In mi infos /\ fst mi = m.
  Proof. intros Hin. rewrite <- sc_fst in Hin. apply in_map_iff in Hin. destruct Hin as (mi & E & H). eauto. Qed.

  Let the_scan := scan_members tid infos.

  Lemma sc_is_string_true : is_string_dtype the_scan = true ->
    exists l dd, string_shape t = Some (l, dd) /\ m_off l = 0 /\ m_off dd = 4 /\ string_cap the_scan = m_arr dd
                 /\ In dd (t_members t).
  Proof.
    unfold the_scan. rewrite sc_scan. unfold is_string_dtype, string_cap. cbn [sc_attrs sc_itags].
    rewrite sc_attrs_visible.
    destruct (visible_members t) as [|l [|dd [|x r]]] eqn:Ev; try discriminate.
    cbn [map]. intros H. apply andb_prop in H. destruct H as [H Hd]. apply andb_prop in H. destruct H as [Hl Hdd].
    assert (Hin_dd : In dd (t_members t)).
    { assert (In dd (visible_members t)) by (rewrite Ev; right; left; reflexivity).
      unfold visible_members in H. apply filter_In in H. tauto. }
    destruct (sc_info_of dd Hin_dd) as (mi & Hmi_in & Hfst).
    assert (Hname : mi_name mi = txt_DATA_) by (unfold mi_name; rewrite Hfst; apply teqb_eq; exact Hdd).
    pose proof (sc_itag mi Hmi_in) as Hget. rewrite Hname in Hget. rewrite Hget in Hd |- *.
    apply andb_prop in Hd. destruct Hd as [_ Hcls].
    destruct (ti_class (snd mi)) as [| n e | |] eqn:Ec; try discriminate.
    destruct (sc_class_arr mi n e Hmi_in Ec) as [Harr Hn0]. rewrite Hfst in Harr.
    pose proof sc_lay as (_ & _ & _ & Hstd & _). unfold string_std in Hstd. rewrite Ev in Hstd.
    change txt_LEN with txt_LEN_ in Hstd. change txt_DATA with txt_DATA_ in Hstd.
    rewrite Hl, Hdd, Harr, Hn0 in Hstd. cbn [andb negb] in Hstd.
    apply andb_prop in Hstd. destruct Hstd as [Hstd Ho4]. apply andb_prop in Hstd. destruct Hstd as [Hshape Ho0].
    destruct (string_shape t) as [[l' d']|] eqn:Es; [|discriminate].
    assert (E : (l', d') = (l, dd)).
    { unfold string_shape in Es. rewrite Ev in Es. destruct (_ && _); [|discriminate]. congruence. }
    injection E as -> ->.
    exists l, dd. repeat split; try lia; try assumption.
  Qed.

  Lemma sc_is_string_false : is_string_dtype the_scan = false -> string_shape t = None.
  Proof.
    intros Hf. destruct (string_shape t) as [[l dd]|] eqn:Es; [|reflexivity]. exfalso.
    unfold string_shape in Es.
    destruct (visible_members t) as [|l0 [|d0 [|x r]]] eqn:Ev; try discriminate.
    destruct (_ && _) eqn:Ec in Es; [|discriminate]. injection Es as -> ->.
    repeat (apply andb_prop in Ec; destruct Ec as [Ec ?]).
    assert (Hin_dd : In dd (t_members t)).
    { assert (In dd (visible_members t)) by (rewrite Ev; right; left; reflexivity).
      unfold visible_members in H4. apply filter_In in H4. tauto. }
    destruct (sc_info_of dd Hin_dd) as (mi & Hmi_in & Hfst).
    assert (Hname : mi_name mi = txt_DATA_) by (unfold mi_name; rewrite Hfst; apply teqb_eq; assumption).
    revert Hf. unfold the_scan. rewrite sc_scan. unfold is_string_dtype. cbn [sc_attrs sc_itags].
    rewrite sc_attrs_visible, Ev. cbn [map].
    change txt_LEN_ with txt_LEN. change txt_DATA_ with txt_DATA. rewrite Ec, H3. cbn [andb].
    pose proof (sc_itag mi Hmi_in) as Hget. rewrite Hname in Hget. change txt_DATA with txt_DATA_. rewrite Hget.
    destruct (sc_member mi Hmi_in) as [_ Hinfo]. unfold member_info in Hinfo. rewrite Hfst in Hinfo.
    destruct (m_ty dd) as [c| |]; try discriminate.
    assert (c = 194) by (unfold C_SINT in *; lia). subst c.
    vm_compute (atom_class 194) in Hinfo. cbv beta iota in Hinfo.
    change (text_eqb [83; 73; 78; 84] txt_BOOL) with false in Hinfo. cbv iota in Hinfo.
    injection Hinfo as <-. cbn [ti_dtname ti_class]. unfold wrap_arr.
    destruct (m_arr dd =? 0) eqn:Ea; [lia|]. rewrite Ea. discriminate.
  Qed.
End StructCase.

Lemma decode_tc_str size cap s :
  decode_tc (KStr size cap) s
  = wrap_decode (let* (lv, s1) := decode_kind (AInt false 4) s in
                 let* (d, s2) := stream_read size s1 in
                 match lv with
                 | RInt l => Ok (RStr (firstn (Z.to_nat (Z.min l (len d))) d), s2)
                 | _ => Err DataError
                 end).
Proof. reflexivity. Qed.

Lemma string_decode_spec p t l dd d rest :
  string_shape t = Some (l, dd) -> m_off l = 0 -> m_off dd = 4 -> member_ok p t dd = true ->
  len d = t_size t -> bytes_ok d = true ->
  exists v', decode_tc (KStr (t_size t - 4) (m_arr dd)) (d ++ rest) = Ok (v', rest)
             /\ forall v, decode_string l dd d = Some v -> v' = v.
Proof.
  intros Hs Hl0 Hd4 Hok Hl Hokd.
  assert (Hdd : m_ty dd = BAtom C_SINT /\ 0 < m_arr dd).
  { unfold string_shape in Hs. destruct (visible_members t) as [|l0 [|d0 [|x r]]]; try discriminate.
    destruct (_ && _) eqn:Ec in Hs; [|discriminate]. injection Hs as -> ->.
    repeat (apply andb_prop in Ec; destruct Ec as [Ec ?]).
    destruct (m_ty dd) as [c| |]; try discriminate. split; [f_equal|]; lia. }
  destruct Hdd as [Hty Harr].
  assert (Hfit : 4 + m_arr dd <= t_size t).
  { unfold member_ok, is_bool_member, member_size, base_size, member_elems in Hok. rewrite Hty in Hok.
    change (C_SINT =? C_BOOL) with false in Hok. change (atom_size C_SINT) with (Some 1) in Hok.
    repeat (apply andb_prop in Hok; destruct Hok as [Hok ?]).
    destruct (m_arr dd =? 0) eqn:Ea; lia. }
  set (lb := firstn 4 d). set (data := skipn 4 d).
  assert (Hd : d = lb ++ data) by (symmetry; apply firstn_skipn).
  assert (Hlb : len lb = 4) by (subst lb; unfold len in *; rewrite firstn_length; lia).
  assert (Hdata : len data = t_size t - 4) by (subst data; unfold len in *; rewrite skipn_length; lia).
  assert (Hoklb : bytes_ok lb = true) by (apply bytes_ok_firstn_; exact Hokd).
  rewrite decode_tc_str.
  replace (d ++ rest) with (lb ++ (data ++ rest)) by (rewrite app_assoc; subst lb data; rewrite firstn_skipn; reflexivity).
  unfold decode_kind. cbn [kind_size]. rewrite (stream_read_app 4 lb (data ++ rest) Hlb) by lia. cbn [bind].
  rewrite Hlb. cbn [Z.eqb Pos.eqb negb bind].
  rewrite (stream_read_app (t_size t - 4) data rest Hdata) by lia. cbn [bind wrap_decode].
  eexists. split; [reflexivity|].
  intros v Hv. unfold decode_string in Hv.
  assert (G1 : get_bytes d (m_off l) 4 = Some lb).
  { unfold get_bytes. rewrite Hl0. replace ((0 <=? 0) && (0 <=? 4) && (0 + 4 <=? Expect.blen d)) with true
      by (unfold Expect.blen, len in *; lia). reflexivity. }
  assert (G2 : get_bytes d (m_off dd) (m_arr dd) = Some (firstn (Z.to_nat (m_arr dd)) data)).
  { unfold get_bytes. rewrite Hd4. replace ((0 <=? 4) && (0 <=? m_arr dd) && (4 + m_arr dd <=? Expect.blen d)) with true
      by (unfold Expect.blen, len in *; lia). reflexivity. }
  rewrite G1, G2 in Hv.
  pose proof (le_dec_range lb Hoklb) as Hr. unfold len in Hlb.
  replace (length lb) with 4%nat in Hr by lia.
  destruct ((0 <=? to_signed 4 (le_dec lb)) && (to_signed 4 (le_dec lb) <=? m_arr dd)) eqn:Ec; [|discriminate].
  injection Hv as <-. f_equal.
  revert Ec. unfold to_signed. change (pow256 4) with 4294967296 in *.
  destruct (le_dec lb <? 4294967296 / 2) eqn:Eh; intros Ec; [|lia].
  rewrite firstn_firstn. f_equal. unfold len in Hdata |- *. lia.
Qed.

(* ================================================================ the theorem *)
Theorem decode_elem_spec p : layout_ok p = true -> forall f1, IHspec p f1.
Proof.
  intros Hlay. induction f1 as [|f IH]; intros ty tc s Htc Hsz.
  - destruct ty as [c|tid|w]; cbn [elem_tc struct_dtype option_map] in Htc; try discriminate.
    destruct (atom_class c); [|discriminate]. injection Htc as <-. cbn [base_size] in Hsz.
    intros d rest Hl Hokd. destruct (atom_decode c s d rest Hsz Hl Hokd) as (v & Hv & Hd).
    exists v. split; [exact Hv|]. intros f2 v0 H0. apply decode_val_atom in H0. replace v0 with v by congruence. apply pe_refl.
  - destruct ty as [c|tid|w]; cbn [elem_tc] in Htc; try discriminate.
    + destruct (atom_class c); [|discriminate]. injection Htc as <-. cbn [base_size] in Hsz.
      intros d rest Hl Hokd. destruct (atom_decode c s d rest Hsz Hl Hokd) as (v & Hv & Hd).
      exists v. split; [exact Hv|]. intros f2 v0 H0. apply decode_val_atom in H0. replace v0 with v by congruence. apply pe_refl.
    + cbn [struct_dtype] in Htc.
      destruct (find_template (p_templates p) tid) as [t|] eqn:Ef; [|discriminate].
      destruct (member_infos (struct_dtype f p) (t_members t)) as [infos|] eqn:Emi; [|discriminate].
      cbn [option_map] in Htc. injection Htc as <-.
      cbn [base_size] in Hsz. rewrite Ef in Hsz. injection Hsz as <-.
      destruct (find_template_in _ _ _ Ef) as [Hin Hid].
      assert (Hlt : tmpl_layout_ok p t = true) by (apply (forallb_In _ (p_templates p)); assumption).
      intros d rest Hl Hokd.
      unfold dtype_of, dt_class.
      destruct (is_string_dtype (scan_members (t_id t) infos)) eqn:Estr.
      * (* a string *)
        destruct (sc_is_string_true p f t infos IH Hlt Emi Estr) as (l & dd & Hshape & Ho0 & Ho4 & Hcap & Hdd).
        rewrite Hcap.
        assert (Hokdd : member_ok p t dd = true).
        { pose proof (sc_lay p t Hlt) as (Hmok & _). apply (forallb_In _ (t_members t)); assumption. }
        destruct (string_decode_spec p t l dd d rest Hshape Ho0 Ho4 Hokdd Hl Hokd) as (v' & Hv' & Hpy).
        exists v'. split; [exact Hv'|].
        intros f2 v Hv. destruct f2 as [|f2]; [discriminate|]. cbn [decode_val] in Hv. rewrite Ef in Hv.
        replace (Expect.blen d =? t_size t) with true in Hv by (unfold Expect.blen, len in *; lia). cbn [negb] in Hv.
        rewrite Hshape in Hv. rewrite (Hpy v Hv). apply pe_refl.
      * (* a structure *)
        pose proof (sc_is_string_false p f t infos Hlt Emi Estr) as Hshape.
        rewrite (sc_scan p f t infos Hlt Emi). cbn [sc_smem sc_bits LogixRead.sc_priv].
        rewrite (sc_struct_value p f t infos IH Hlt Emi d rest Hl Hokd).
        eexists. split; [reflexivity|].
        intros f2 v Hv. destruct f2 as [|f2]; [discriminate|]. cbn [decode_val] in Hv. rewrite Ef in Hv.
        replace (Expect.blen d =? t_size t) with true in Hv by (unfold Expect.blen, len in *; lia). cbn [negb] in Hv.
        rewrite Hshape in Hv.
        match type of Hv with match all_some (map ?g _) with _ => _ end = _ =>
          change g with (ref_field p f2 d) in Hv end.
        destruct (all_some (map (ref_field p f2 d) (visible_members t))) as [fs|] eqn:Ea; [|discriminate].
        injection Hv as <-.
        apply (sc_struct_pyeq p f t infos IH Hlt Emi d f2 fs Hl Hokd Ea).
Qed.

Print Assumptions decode_elem_spec.
