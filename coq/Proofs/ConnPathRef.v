(* Proofs/ConnPathRef.v — C15: for EVERY string, what the model of parse_connection_path +
   PADDED_EPATH.encode does against the total reference reader [ref_parse]. *)
From Coq Require Import String.
From PV Require Import Base.Bytes Base.BytesLemmas Base.Proto Base.Res Base.PyStr Gen.PathTables Gen.Consts
     Model.Path Model.ConnPath Spec.ConnPathGrammar Proofs.ConnPathStr Proofs.ConnPathEnc.
From Coq Require Import ZifyBool.
Ltac Zify.zify_post_hook ::= Z.to_euclidean_division_equations.
Open Scope Z_scope.

(* ================================================================ E. the model in terms of [fields] *)
Lemma pairs_ind {A} (P : list A -> Prop) :
  P [] -> (forall a, P [a]) -> (forall a b r, P r -> P (a :: b :: r)) -> forall l, P l.
Proof.
  intros H0 H1 H2. assert (H : forall l, P l /\ forall x, P (x :: l)).
  { induction l as [|a l [IH1 IH2]]; split; auto. }
  intros l. apply H.
Qed.

Definition host_nf (ip h : text) (cs : list text) : res (text * option Z) :=
  match cs with
  | [] => Ok (ip, None)
  | [b] => match int_of_text b with
           | Ok p => if (p <=? 0) || (65535 <=? p) then Err RequestError else Ok (h, Some p)
           | Err _ => Err RequestError
           end
  | _ => Err (Foreign ValueError)
  end.
Lemma parse_host_nf ip :
  parse_host ip = host_nf ip (fst (fields is_colon ip)) (snd (fields is_colon ip)).
Proof.
  unfold parse_host. rewrite contains_chr_fields, split_chr_fields.
  change (fun x => x =? 58) with is_colon. destruct (fields is_colon ip) as [h cs]. cbn [fst snd].
  destruct cs as [|b [|c r]]; reflexivity.
Qed.
Lemma fields_no_rest p s : snd (fields p s) = [] -> fst (fields p s) = s.
Proof.
  induction s as [|c r IH]; cbn [fields]; [reflexivity|].
  destruct (fields p r) as [f fs]. cbn [fst snd] in *. destruct (p c); cbn [fst snd]; [discriminate|].
  intros H. now rewrite IH.
Qed.

Lemma parse_connection_path_nf s auto :
  parse_connection_path s auto =
  wrap_request
    (let* (host, port) := host_nf (fst (fields is_sep s)) (fst (fields is_colon (fst (fields is_sep s))))
                                  (snd (fields is_colon (fst (fields is_sep s)))) in
     let* segs := parse_cip_route_list (snd (fields is_sep s)) auto in
     Ok (host, port, segs)).
Proof.
  unfold parse_connection_path. rewrite split_chr_fields, fields_normalise.
  destruct (fields is_sep s) as [hp fs]. cbn [fst snd]. now rewrite parse_host_nf.
Qed.

(* ---------------------------------------------------------------- route part *)
Fixpoint model_hops (hs : list hop) : res (list Z) :=
  match hs with
  | [] => Ok []
  | h :: r => let* a := model_hop h in let* b := model_hops r in Ok (a ++ b)
  end.
Lemma model_hops_ok hs : forallb wf_hop hs = true -> model_hops hs = Ok (hops_bytes hs).
Proof.
  induction hs as [|h hs IH]; cbn [forallb model_hops hops_bytes flat_map]; [reflexivity|].
  intros Hw. apply andb_prop in Hw as [Hw1 Hw2].
  rewrite (model_hop_ok h Hw1). rewrite (IH Hw2). reflexivity.
Qed.

Lemma pair_up_encode fs : Nat.even (List.length fs) = true ->
  match classify_pairs fs with
  | RouteOk hs =>
      exists segs, pair_up fs = Ok segs /\ encode_segs true segs = model_hops hs
                   /\ forallb wf_hop hs = true
  | RouteReject c => (exists e, pair_up fs = Err e)
                     \/ (exists segs e, pair_up fs = Ok segs /\ encode_segs true segs = Err e)
  | RouteUnspec => True
  end.
Proof.
  induction fs as [| a | p l r IH] using pairs_ind; intros Hev.
  - cbn. exists []. repeat split.
  - discriminate.
  - cbn [List.length Nat.even] in Hev. specialize (IH Hev).
    cbn [classify_pairs pair_up].
    assert (Hrej : forall c, classify_pairs r = RouteReject c ->
       (exists e, (let* pt := port_of_text p in let* rest := pair_up r in Ok (Port pt (LinkStr l) :: rest)) = Err e)
       \/ (exists segs e, (let* pt := port_of_text p in let* rest := pair_up r in Ok (Port pt (LinkStr l) :: rest)) = Ok segs
                          /\ encode_segs true segs = Err e)).
    { intros c Er. rewrite Er in IH. destruct (port_of_text p) as [pt|e0]; cbn [bind]; [|left; eauto].
      destruct IH as [[e He]|[segs [e [Hs He]]]].
      - rewrite He. cbn [bind]. left. eauto.
      - rewrite Hs. cbn [bind]. right. exists (Port pt (LinkStr l) :: segs).
        cbn [encode_segs]. rewrite He. destruct (encode_seg true (Port pt (LinkStr l))); cbn [bind]; eauto. }
    destruct (classify_hop p l) as [h| |c] eqn:Eh.
    + destruct (classify_pairs r) as [hs| |c] eqn:Er; cbn [cons_verdict]; [| exact I | exact (Hrej c eq_refl)].
      destruct IH as [segs [IH0 [IH1 IH2]]].
      destruct (hop_gen p l h Eh) as [pt [Hpt [H1 H2]]].
      rewrite Hpt, IH0. cbn [bind]. exists (Port pt (LinkStr l) :: segs). split; [reflexivity|].
      cbn [encode_segs model_hops]. rewrite H1, IH1. cbn [forallb]. rewrite H2, IH2. split; reflexivity.
    + destruct (classify_pairs r) as [hs| |c] eqn:Er; cbn [cons_verdict]; try exact I. exact (Hrej c eq_refl).
    + cbn [cons_verdict]. destruct (hop_bad p l c Eh) as [[e He]|[pt [Hpt He]]].
      * rewrite He. cbn [bind]. left. eauto.
      * rewrite Hpt. cbn [bind]. destruct (pair_up r) as [segs|e]; cbn [bind]; [|left; eauto].
        right. exists (Port pt (LinkStr l) :: segs), DataError. split; [reflexivity|].
        cbn [encode_segs]. now rewrite He.
Qed.

Lemma even_odd_len {A} (l : list A) : Nat.odd (List.length l) = negb (Nat.even (List.length l)).
Proof. symmetry. apply Nat.negb_even. Qed.

(* what the model does with the route fields *)
Definition route_outcome (fs : list text) (auto pl : bool) : res (list Z) :=
  let* segs := parse_cip_route_list fs auto in encode_route segs pl.

(* the bytes of a route as the encoder computes them from the hops alone *)
Definition model_route (pl : bool) (hs : list hop) : res (list Z) :=
  wrap_all DataError
    (let* path := model_hops hs in
     let* l := USINT_encode (len path / 2) in
     Ok (l ++ (if pl then [0] else []) ++ path)).
Lemma encode_route_model segs pl hs :
  encode_segs true segs = model_hops hs -> encode_route segs pl = model_route pl hs.
Proof. intros H. unfold encode_route, epath_encode, model_route, padded_PADDED_EPATH. now rewrite H. Qed.
Lemma model_route_ok pl hs : forallb wf_hop hs = true -> fits hs = true ->
  model_route pl hs = Ok (route_wire pl hs).
Proof.
  intros Hw Hf. unfold model_route. rewrite (model_hops_ok hs Hw). cbn [bind].
  unfold fits, route_words, tlen in Hf. rewrite USINT_encode_byte by (unfold len; lia). reflexivity.
Qed.
Lemma encode_route_err segs pl e :
  encode_segs true segs = Err e -> encode_route segs pl = Err DataError.
Proof. intros H. unfold encode_route, epath_encode, padded_PADDED_EPATH. now rewrite H. Qed.

Lemma classify_link_not_odd l : classify_link l <> LinkBad OddSegments.
Proof.
  unfold classify_link. destruct (isdigit l).
  - destruct (negb (numeral_ok l)); [discriminate|]. destruct (dval l <=? 255); discriminate.
  - destruct (existsb is_colon l); [discriminate|]. destruct (strict_quad l); discriminate.
Qed.
Lemma classify_hop_not_odd p l : classify_hop p l <> HBad OddSegments.
Proof.
  unfold classify_hop. pose proof (classify_link_not_odd l) as H.
  destruct (classify_port p); destruct (classify_link l) as [k| |c]; try discriminate;
    intros E; injection E as ->; now apply H.
Qed.
Lemma classify_pairs_not_odd fs : Nat.even (List.length fs) = true ->
  classify_pairs fs <> RouteReject OddSegments.
Proof.
  induction fs as [| x | p l r IH] using pairs_ind; intros Hev; try discriminate.
  cbn [List.length Nat.even] in Hev. specialize (IH Hev). cbn [classify_pairs].
  pose proof (classify_hop_not_odd p l) as Hh.
  destruct (classify_hop p l) as [h| |c]; destruct (classify_pairs r) as [hs| |c']; cbn [cons_verdict];
    try discriminate; intros E; injection E as ->; try (now apply Hh); now apply IH.
Qed.

Definition not_odd (c : rclass) : Prop := c <> OddSegments.

Lemma route_meets_reference fs auto pl :
  match classify_route auto fs with
  | RouteOk hs => (exists segs, parse_cip_route_list fs auto = Ok segs)
                  /\ route_outcome fs auto pl = model_route pl hs /\ forallb wf_hop hs = true
  | RouteReject c =>
      (c = OddSegments /\ parse_cip_route_list fs auto = Err RequestError)
      \/ (c <> OddSegments /\
          (parse_cip_route_list fs auto = Err RequestError
           \/ (exists segs, parse_cip_route_list fs auto = Ok segs /\ encode_route segs pl = Err DataError)))
  | RouteUnspec => True
  end.
Proof.
  unfold route_outcome. destruct fs as [|a [|b r]].
  - (* no route segment *)
    cbn [classify_route parse_cip_route_list wrap_request wrap_all].
    split; [eauto|]. destruct auto; cbn [bind]; split; reflexivity.
  - (* one segment *)
    destruct auto; cbn [classify_route parse_cip_route_list wrap_request wrap_all bind]; [|left; auto].
    destruct (classify_link a) as [k| |c] eqn:El; [destruct k as [n|t]| |]; try exact I.
    + split; [eauto|]. destruct (link_ok a _ El) as [Hl [Hwf _]].
      assert (Hh : classify_hop (txt "bp") a = HOk (mkHop 1 (Slot n))).
      { unfold classify_hop. rewrite El. reflexivity. }
      destruct (hop_gen _ _ _ Hh) as [pt [Hpt [He Hw]]].
      assert (Hbp : port_of_text (txt "bp") = Ok (inr (txt "bp"))) by reflexivity.
      assert (Hpt' : pt = inr (txt "bp")) by (rewrite Hbp in Hpt; congruence). subst pt.
      split; [|cbn [forallb]; now rewrite Hw].
      apply encode_route_model. cbn [encode_segs model_hops]. rewrite He.
      destruct (model_hop _); reflexivity.
    + assert (Hh : classify_hop (txt "bp") a = HBad c).
      { unfold classify_hop. rewrite El. reflexivity. }
      right. split; [intros ->; now apply (classify_link_not_odd a)|]. right.
      eexists. split; [reflexivity|].
      destruct (hop_bad _ _ _ Hh) as [[e He]|[pt [Hpt He]]]; [discriminate|].
      assert (Hbp : port_of_text (txt "bp") = Ok (inr (txt "bp"))) by reflexivity.
      assert (Hpt' : pt = inr (txt "bp")) by (rewrite Hbp in Hpt; congruence). subst pt.
      apply (encode_route_err _ pl DataError). cbn [encode_segs]. now rewrite He.
  - (* two or more *)
    set (fs := a :: b :: r). assert (Hfs : classify_route auto fs =
      if Nat.odd (List.length fs) then RouteReject OddSegments else classify_pairs fs) by reflexivity.
    assert (Hm : parse_cip_route_list fs auto =
      wrap_request (if Nat.odd (List.length fs) then Err RequestError else pair_up fs)) by reflexivity.
    rewrite Hfs, Hm. destruct (Nat.odd (List.length fs)) eqn:Eo; [left; auto|].
    assert (Hev : Nat.even (List.length fs) = true).
    { rewrite even_odd_len in Eo. now destruct (Nat.even (List.length fs)). }
    pose proof (pair_up_encode fs Hev) as H. pose proof (classify_pairs_not_odd fs Hev) as Hno.
    destruct (classify_pairs fs) as [hs| |c] eqn:Ec.
    + destruct H as [segs [H0 [H1 H2]]]. rewrite H0.
      cbn [wrap_request wrap_all bind]. split; [eauto|]. split; [|exact H2].
      now apply encode_route_model.
    + exact I.
    + right. split; [congruence|]. destruct H as [[e He]|[segs [e [Hs He]]]].
      * rewrite He. left. reflexivity.
      * rewrite Hs. right. exists segs. split; [reflexivity|]. now apply (encode_route_err _ pl e).
Qed.

(* ---------------------------------------------------------------- host[:port] against the reference *)
Lemma host_meets_reference hp :
  let h := fst (fields is_colon hp) in
  let cs := snd (fields is_colon hp) in
  match classify_tcp cs with
  | TcpNone => host_nf hp h cs = Ok (h, None)
  | TcpOk p => host_nf hp h cs = Ok (h, Some p) /\ wf_tcp p = true
  | TcpBad => exists e, host_nf hp h cs = Err e
  | TcpLenient => forall h' t, host_nf hp h cs = Ok (h', t) -> h' = h
  end.
Proof.
  intros h cs. pose proof (fields_no_rest is_colon hp) as Hnr. fold cs in Hnr. fold h in Hnr.
  destruct cs as [|p [|q r]]; cbn [classify_tcp host_nf].
  - now rewrite (Hnr eq_refl).
  - destruct (isdigit p) eqn:Hd.
    + rewrite (int_of_numeral p Hd). unfold wf_tcp.
      destruct ((1 <=? dval p) && (dval p <=? 65534)) eqn:E.
      * destruct (numeral_ok p); [|discriminate].
        replace ((dval p <=? 0) || (65535 <=? dval p)) with false by lia. split; [reflexivity|exact E].
      * destruct (numeral_ok p); [|eauto].
        replace ((dval p <=? 0) || (65535 <=? dval p)) with true by lia. eauto.
    + destruct (forallb lenient_char p && existsb is_ascii_digit p) eqn:E.
      * destruct (existsb (fun c => c =? 45) p) eqn:Em.
        -- destruct (int_of_text p) as [z|e] eqn:Ei; [|eauto].
           pose proof (int_minus p z Ei Em). replace ((z <=? 0) || (65535 <=? z)) with true by lia. eauto.
        -- intros h' t. destruct (int_of_text p) as [z|e]; [|discriminate].
           destruct ((z <=? 0) || (65535 <=? z)); [discriminate|]. now intros [= <- _].
      * destruct (int_of_text p) as [z|e] eqn:Ei; [|eauto].
        destruct (int_ok_chars p z Ei) as [H1 H2]. rewrite H1, H2 in E. discriminate.
  - eauto.
Qed.

(* ================================================================ G. every string: model vs reference *)
Lemma ref_parse_eq auto s :
  ref_parse auto s =
  mkVerdict (fst (fields is_colon (fst (fields is_sep s))))
            (classify_tcp (snd (fields is_colon (fst (fields is_sep s)))))
            (classify_route auto (snd (fields is_sep s))).
Proof.
  unfold ref_parse. destruct (fields is_sep s) as [hp fs]. cbn [fst snd].
  destruct (fields is_colon hp) as [h cs]. reflexivity.
Qed.

Lemma outcome_nf s auto pl :
  outcome s auto pl =
  match host_nf (fst (fields is_sep s)) (fst (fields is_colon (fst (fields is_sep s))))
                (snd (fields is_colon (fst (fields is_sep s)))) with
  | Err _ => inl RequestError
  | Ok (h, t) =>
      match parse_cip_route_list (snd (fields is_sep s)) auto with
      | Err _ => inl RequestError
      | Ok segs => match encode_route segs pl with Err e => inl e | Ok b => inr (h, t, b) end
      end
  end.
Proof.
  unfold outcome. rewrite parse_connection_path_nf.
  destruct (host_nf _ _ _) as [[h t]|e]; cbn [bind wrap_request wrap_all]; [|reflexivity].
  destruct (parse_cip_route_list _ auto) as [segs|e]; cbn [bind wrap_all]; reflexivity.
Qed.

Lemma parse_nf_err s auto :
  (exists e, host_nf (fst (fields is_sep s)) (fst (fields is_colon (fst (fields is_sep s))))
                     (snd (fields is_colon (fst (fields is_sep s)))) = Err e)
  \/ (exists e, parse_cip_route_list (snd (fields is_sep s)) auto = Err e) ->
  parse_connection_path s auto = Err RequestError.
Proof.
  rewrite parse_connection_path_nf. intros [[e He]|[e He]].
  - now rewrite He.
  - rewrite He. destruct (host_nf _ _ _) as [[h t]|e']; reflexivity.
Qed.

(* rejection, with the exception class the property names *)
Theorem bad_tcp_port_rejected s auto :
  v_tcp (ref_parse auto s) = TcpBad -> parse_connection_path s auto = Err RequestError.
Proof.
  rewrite ref_parse_eq. cbn [v_tcp]. intros H. apply parse_nf_err. left.
  pose proof (host_meets_reference (fst (fields is_sep s))) as Hh. cbv zeta in Hh.
  rewrite H in Hh. exact Hh.
Qed.

Theorem odd_segments_rejected s auto :
  v_route (ref_parse auto s) = RouteReject OddSegments -> parse_connection_path s auto = Err RequestError.
Proof.
  rewrite ref_parse_eq. cbn [v_route]. intros H. apply parse_nf_err. right.
  pose proof (route_meets_reference (snd (fields is_sep s)) auto true) as Hr. rewrite H in Hr.
  destruct Hr as [[_ Hr]|[Hr _]]; [eauto|congruence].
Qed.

(* unknown port name / link out of range / not a link: RequestError when parsed (only if the TCP
   port or an over-long numeral is also at fault) or DataError when the route is encoded *)
Theorem bad_hop_rejected s auto pl c :
  v_route (ref_parse auto s) = RouteReject c -> c <> OddSegments ->
  parse_connection_path s auto = Err RequestError
  \/ (exists h t segs, parse_connection_path s auto = Ok (h, t, segs) /\ encode_route segs pl = Err DataError).
Proof.
  rewrite ref_parse_eq. cbn [v_route]. intros H Hc.
  pose proof (route_meets_reference (snd (fields is_sep s)) auto pl) as Hr. rewrite H in Hr.
  destruct Hr as [[Hr _]|[_ Hr]]; [congruence|].
  destruct Hr as [Hr|[segs [Hs He]]].
  - left. apply parse_nf_err. right. eauto.
  - rewrite parse_connection_path_nf, Hs.
    destruct (host_nf _ _ _) as [[h t]|e']; cbn [bind wrap_request wrap_all]; [right; eauto 6|left; reflexivity].
Qed.

Theorem rejected_no_bytes s auto pl :
  must_reject (ref_parse auto s) = true ->
  outcome s auto pl = inl RequestError \/ outcome s auto pl = inl DataError.
Proof.
  intros H. unfold must_reject in H.
  assert (Hcases : v_tcp (ref_parse auto s) = TcpBad \/ exists c, v_route (ref_parse auto s) = RouteReject c).
  { destruct (v_tcp (ref_parse auto s)); destruct (v_route (ref_parse auto s)); try discriminate; eauto. }
  unfold outcome. destruct Hcases as [Ht|[c Hc]].
  - rewrite (bad_tcp_port_rejected s auto Ht). now left.
  - destruct c.
    + rewrite (odd_segments_rejected s auto Hc). now left.
    + destruct (bad_hop_rejected s auto pl _ Hc ltac:(discriminate)) as [-> |[h [t [segs [-> ->]]]]]; auto.
    + destruct (bad_hop_rejected s auto pl _ Hc ltac:(discriminate)) as [-> |[h [t [segs [-> ->]]]]]; auto.
    + destruct (bad_hop_rejected s auto pl _ Hc ltac:(discriminate)) as [-> |[h [t [segs [-> ->]]]]]; auto.
    + destruct (bad_hop_rejected s auto pl _ Hc ltac:(discriminate)) as [-> |[h [t [segs [-> ->]]]]]; auto.
Qed.

(* acceptance, in general: the outcome is a function of the reference reading alone *)
Definition accepted_outcome (h : text) (t : option Z) (pl : bool) (hs : list hop)
  : exn + (list Z * option Z * list Z) :=
  match model_route pl hs with Ok b => inr (h, t, b) | Err e => inl e end.
Definition tcp_value (t : tcp_verdict) : option (option Z) :=
  match t with TcpNone => Some None | TcpOk p => Some (Some p) | _ => None end.

Theorem outcome_of_reading s auto pl t hs :
  tcp_value (v_tcp (ref_parse auto s)) = Some t -> v_route (ref_parse auto s) = RouteOk hs ->
  outcome s auto pl = accepted_outcome (v_host (ref_parse auto s)) t pl hs /\ forallb wf_hop hs = true.
Proof.
  rewrite ref_parse_eq. cbn [v_host v_tcp v_route]. intros Ht Hr0.
  rewrite outcome_nf. unfold accepted_outcome.
  pose proof (host_meets_reference (fst (fields is_sep s))) as Hh. cbv zeta in Hh.
  pose proof (route_meets_reference (snd (fields is_sep s)) auto pl) as Hr. unfold route_outcome in Hr.
  rewrite Hr0 in Hr. destruct Hr as [[segs Hp] [Ho Hw]]. rewrite Hp in *. cbn [bind] in Ho.
  split; [|exact Hw].
  destruct (classify_tcp _) as [|p| |]; try discriminate; injection Ht as <-.
  - rewrite Hh, Ho. reflexivity.
  - destruct Hh as [Hh _]. rewrite Hh, Ho. reflexivity.
Qed.

(* acceptance: a string of the grammar yields exactly its reference reading *)
Theorem grammar_accepted s auto pl h t hs :
  must_accept (ref_parse auto s) = Some (h, t, hs) ->
  outcome s auto pl = inr (h, t, route_wire pl hs).
Proof.
  unfold must_accept. intros H.
  destruct (v_tcp (ref_parse auto s)) as [|p| |] eqn:Et; try discriminate;
    destruct (v_route (ref_parse auto s)) as [hs'| |c] eqn:Er; try discriminate;
    destruct (fits hs') eqn:Ef; try discriminate; injection H as <- <- <-.
  - destruct (outcome_of_reading s auto pl None hs') as [Ho Hw]; [now rewrite Et|exact Er|].
    rewrite Ho. unfold accepted_outcome. now rewrite (model_route_ok pl hs' Hw Ef).
  - destruct (outcome_of_reading s auto pl (Some p) hs') as [Ho Hw]; [now rewrite Et|exact Er|].
    rewrite Ho. unfold accepted_outcome. now rewrite (model_route_ok pl hs' Hw Ef).
Qed.

(* no silent corruption, also in the zones where the property is silent: whatever is accepted
   has the reference host, and the reference TCP port / route bytes wherever those are defined *)
Theorem accepted_is_reference s auto pl h t b :
  outcome s auto pl = inr (h, t, b) ->
  let v := ref_parse auto s in
  h = v_host v
  /\ match v_tcp v with TcpNone => t = None | TcpOk p => t = Some p | TcpBad => False | TcpLenient => True end
  /\ match v_route v with
     | RouteOk hs => fits hs = true -> b = route_wire pl hs
     | RouteReject _ => False
     | RouteUnspec => True
     end.
Proof.
  intros H v. subst v.
  rewrite ref_parse_eq in *. cbn [v_host v_tcp v_route] in *. rewrite outcome_nf in H.
  pose proof (host_meets_reference (fst (fields is_sep s))) as Hh. cbv zeta in Hh.
  pose proof (route_meets_reference (snd (fields is_sep s)) auto pl) as Hr. unfold route_outcome in Hr.
  destruct (host_nf _ _ _) as [[h' t']|e] eqn:Eh; [|discriminate].
  destruct (parse_cip_route_list _ auto) as [segs|e] eqn:Ep; [|discriminate].
  destruct (encode_route segs pl) as [b'|e] eqn:Ee; [|discriminate]. injection H as -> -> ->.
  assert (Hnot : forall c, classify_route auto (snd (fields is_sep s)) <> RouteReject c).
  { intros c Hc. rewrite Hc in Hr. destruct Hr as [[_ Hr]|[_ [Hr|[segs' [Hs' He']]]]]; try discriminate.
    injection Hs' as <-. congruence. }
  split; [|split].
  - destruct (classify_tcp _) as [|p| |].
    + congruence.
    + destruct Hh as [Hh _]. congruence.
    + destruct Hh as [e He]. discriminate.
    + now apply (Hh h t).
  - destruct (classify_tcp _) as [|p| |].
    + congruence.
    + destruct Hh as [Hh _]. congruence.
    + destruct Hh as [e He]. discriminate.
    + exact I.
  - destruct (classify_route auto _) as [hs| |c].
    + intros Hf. destruct Hr as [_ [Ho Hw]]. cbn [bind] in Ho.
      rewrite (model_route_ok pl hs Hw Hf) in Ho. congruence.
    + exact I.
    + now apply (Hnot c).
Qed.
