(* Proofs/ReadTarget.v — what the reference target answers to the client's read messages.
     quiet                    the part of the target state a read call depends on and leaves unchanged
     peer_read / peer_frag    target_peer on a Read Tag / Read Tag Fragmented message whose path resolves
                              to a tag location: the reply is the envelope + the service's reply data
     svc_read_full            Read Tag returns type field ++ the whole addressed data when it fits
     svc_read_frag_step       Read Tag Fragmented from an aligned offset returns the next k >= 1 bytes,
                              status 6 while more remains
     loc_bytes_concat         fragments are consecutive slices of the same data
   No axioms. *)
From Coq Require Import ZifyBool.
From PV Require Import Base.Bytes Base.BytesLemmas Base.Res Base.PyStr.
From PV Require Import Spec.EncapParser Spec.MRParser Spec.TargetIface Spec.TargetCore Spec.Project Spec.Expect Spec.TargetLogix.
From PV Require Import Proofs.TargetCoreP Proofs.TargetLogixP Proofs.ReadBits.
From PV Require Import Model.LogixRead.
Open Scope Z_scope.
Ltac Zify.zify_post_hook ::= Z.to_euclidean_division_equations.

(* ================================================================ the invariant of a read call *)
Definition quiet (app : lstate) (ms : bool) (st : tstate lstate) : Prop :=
  t_inject st = [] /\ t_app st = app /\ cf_multi_service (t_cfg st) = ms.

Lemma quiet_logs app ms evs st : quiet app ms st -> quiet app ms (logs evs st).
Proof. intros (A & B & C). repeat split; assumption. Qed.
Lemma quiet_set_inject app ms st : quiet app ms st -> quiet app ms (set_inject [] st).
Proof. intros (A & B & C). repeat split; assumption. Qed.
Lemma quiet_set_app app ms st : quiet app ms st -> quiet app ms (set_app app st).
Proof. intros (A & B & C). repeat split; assumption. Qed.

(* a tag path never addresses the identity object or the message router *)
Definition tag_cia (path : bytes) : Prop :=
  path_cia path = None \/ exists i a, path_cia path = Some (107, i, a).

Lemma dispatch_one_tag app ms st tr cap seq rq l rp evs :
  quiet app ms st -> tag_cia (mr_path rq) ->
  resolve_path (ls_proj app) (mr_service rq =? 85) (mr_path rq) = TgTag l ->
  tag_service app l cap rq = (app, rp, evs) ->
  exists st', dispatch_one logix_handler tr cap seq st rq = (st', rp) /\ quiet app ms st'.
Proof.
  intros Hq Hcia Hres Hsvc.
  unfold dispatch_one, with_injection.
  assert (Hq1 : quiet app ms (logs [EvRequest tr seq rq] st)) by (apply quiet_logs; exact Hq).
  destruct Hq1 as (Hi & Ha & Hm). rewrite Hi. cbn [take_injection].
  set (st2 := set_inject [] (logs [EvRequest tr seq rq] st)).
  assert (Hq2 : quiet app ms st2) by (apply quiet_set_inject; repeat split; assumption).
  assert (Hreq : h_request logix_handler (t_app st2) tr cap rq = Some (app, rp, evs)).
  { destruct Hq2 as (_ & Ha2 & _). rewrite Ha2. cbn [h_request logix_handler]. unfold logix_request.
    rewrite Hres, Hsvc. reflexivity. }
  destruct Hcia as [Hn|(i & a & Hs)].
  - rewrite Hn, Hreq. eexists. split; [reflexivity|]. apply quiet_logs, quiet_set_app. exact Hq2.
  - rewrite Hs. cbv iota beta. rewrite Hreq. eexists. split; [reflexivity|]. apply quiet_logs, quiet_set_app. exact Hq2.
Qed.

(* a non-multi request whose reply fits: the reply bytes are the envelope + the reply *)
Lemma dispatch_tag app ms st tr cap seq rq l rp evs :
  quiet app ms st -> tag_cia (mr_path rq) -> (mr_service rq =? 10) = false ->
  resolve_path (ls_proj app) (mr_service rq =? 85) (mr_path rq) = TgTag l ->
  tag_service app l cap rq = (app, rp, evs) ->
  EncapParser.blen (mr_bytes (mr_service rq) rp) <= cap ->
  exists st', dispatch logix_handler tr cap seq st rq = (st', mr_bytes (mr_service rq) rp) /\ quiet app ms st'.
Proof.
  intros Hq Hcia Hsvc Hres Htag Hfit.
  unfold dispatch, is_multi_request. rewrite Hsvc. cbn [andb].
  destruct (dispatch_one_tag app ms st tr cap seq rq l rp evs Hq Hcia Hres Htag) as (st1 & Hd & Hq1).
  rewrite Hd. unfold finish_reply, fit.
  replace (EncapParser.blen (mr_bytes (mr_service rq) rp) <=? cap) with true by lia.
  eexists. split; [reflexivity|]. apply quiet_logs. exact Hq1.
Qed.

(* ================================================================ the message-router envelope of a client message *)
(* a request path as the client encodes it: length byte (16-bit words) then the padded EPATH *)
Definition path_wf (path pb : bytes) : Prop :=
  path = (EncapParser.blen pb / 2) :: pb /\ Z.even (EncapParser.blen pb) = true /\ EncapParser.blen pb < 512.

Lemma parse_mr_msg svc path pb data :
  path_wf path pb -> 0 <= svc < 128 ->
  parse_mr (svc :: path ++ data) = RcOk {| mr_service := svc; mr_path := pb; mr_data := data |}.
Proof.
  intros (-> & Hev & Hlt) Hsvc. cbn [app parse_mr].
  replace (128 <=? svc) with false by lia.
  replace (2 * (EncapParser.blen pb / 2)) with (EncapParser.blen pb).
  - rewrite takez_app. reflexivity.
  - apply Z.even_spec in Hev. destruct Hev as [k Hk]. rewrite Hk. rewrite (Z.mul_comm 2 k), Z.div_mul by lia. lia.
Qed.

(* ================================================================ Read Tag *)
Lemma u16_le_enc n : 0 <= n < 65536 -> le_enc 2 n = [n mod 256; (n / 256) mod 256] /\ u16 (n mod 256) ((n / 256) mod 256) = n.
Proof. intros H. split; [reflexivity|]. apply u16_enc. exact H. Qed.

Theorem svc_read_full p pol img l cap n s tb d :
  0 <= n < 65536 -> loc_esize p l = Some s -> type_bytes p l = Some tb -> 1 <= s ->
  1 <= n <= w_avail l -> n * s <= cap - 4 - Expect.blen tb ->
  loc_bytes pol img l 0 (n * s) = Some d ->
  svc_read p pol img l cap (le_enc 2 n) = (reply6 false (tb ++ d), []).
Proof.
  intros Hn Hs Htb Hs1 Hav Hfit Hd.
  destruct (u16_le_enc n Hn) as [He Hu]. rewrite He. unfold svc_read. rewrite Hu, Hs, Htb.
  replace (s <? 1) with false by lia.
  replace ((n <? 1) || (w_avail l <? n)) with false by lia.
  replace (n * s <=? cap - 4 - Expect.blen tb) with true by lia.
  replace (n * s <? 1) with false by nia.
  rewrite Hd. replace (n * s <? n * s) with false by lia. reflexivity.
Qed.

(* ================================================================ Read Tag Fragmented *)
Definition frag_lim (pol : policy) (l : wloc) (s room off : Z) : Z :=
  let want := pol_entry (po_frag pol) off in
  let lim0 := if want <=? 0 then room else Z.min want room in
  if loc_is_struct l then Z.max 1 lim0 else Z.max s (lim0 - lim0 mod s).

Lemma frag_lim_bounds pol l s room off : 1 <= s -> s <= room ->
  1 <= frag_lim pol l s room off <= room /\ (loc_is_struct l = false -> frag_lim pol l s room off mod s = 0).
Proof.
  intros Hs Hr. unfold frag_lim.
  set (want := pol_entry (po_frag pol) off).
  set (lim0 := if want <=? 0 then room else Z.min want room).
  assert (H0 : lim0 <= room) by (subst lim0; destruct (want <=? 0); lia).
  destruct (loc_is_struct l).
  - split; [lia|discriminate].
  - split.
    + assert (lim0 - lim0 mod s <= room \/ lim0 < 0) by (destruct (Z.le_gt_cases 0 lim0); [left; nia|right; lia]). nia.
    + intros _. assert (Hm : (lim0 - lim0 mod s) mod s = 0).
      { rewrite Zminus_mod, Z.mod_mod, Z.sub_diag by lia. apply Z.mod_0_l. lia. }
      destruct (Z.max_spec s (lim0 - lim0 mod s)) as [[_ ->]|[_ ->]]; [exact Hm|apply Z.mod_same; lia].
Qed.

Lemma u32_le_enc n : 0 <= n < 4294967296 ->
  exists a b c d, le_enc 4 n = [a; b; c; d] /\ u32 a b c d = n.
Proof.
  intros H. exists (n mod 256), ((n / 256) mod 256), ((n / 256 / 256) mod 256), ((n / 256 / 256 / 256) mod 256).
  split; [reflexivity|]. unfold u32. lia.
Qed.

Theorem svc_read_frag_step p pol img l cap n s tb off :
  0 <= n < 65536 -> 0 <= off < 4294967296 ->
  loc_esize p l = Some s -> type_bytes p l = Some tb -> 1 <= s ->
  1 <= n <= w_avail l -> off < n * s -> (loc_is_struct l = false -> off mod s = 0) ->
  s <= cap - 4 - Expect.blen tb ->
  let k := Z.min (n * s - off) (frag_lim pol l s (cap - 4 - Expect.blen tb) off) in
  forall d, loc_bytes pol img l off k = Some d ->
  svc_read_frag p pol img l cap (le_enc 2 n ++ le_enc 4 off) = (reply6 (k <? n * s - off) (tb ++ d), []).
Proof.
  intros Hn Ho Hs Htb Hs1 Hav Hoff Hal Hroom k d Hd.
  destruct (u16_le_enc n Hn) as [He Hu]. destruct (u32_le_enc off Ho) as (a & b & c & e & Ho4 & Hu4).
  rewrite He, Ho4. cbn [app]. unfold svc_read_frag. rewrite Hu, Hu4, Hs, Htb.
  replace (s <? 1) with false by lia.
  replace ((n <? 1) || (w_avail l <? n)) with false by lia.
  replace (n * s <=? off) with false by lia.
  destruct (frag_lim_bounds pol l s (cap - 4 - Expect.blen tb) off Hs1 Hroom) as [Hb _].
  fold (frag_lim pol l s (cap - 4 - Expect.blen tb) off).
  assert (Hal' : negb (loc_is_struct l) && negb (off mod s =? 0) = false).
  { destruct (loc_is_struct l); [reflexivity|]. rewrite (Hal eq_refl). reflexivity. }
  rewrite Hal'.
  unfold frag_lim in *.
  match goal with |- context [if ?c <? ?x then _ else _] =>
    replace (c <? x) with false by lia end.
  fold k. subst k. unfold frag_lim in Hd. rewrite Hd. reflexivity.
Qed.

(* consecutive slices of the addressed data *)
Lemma loc_bytes_data pol img l from k d : w_bit l = None -> loc_bytes pol img l from k = Some d ->
  get_bytes img (w_off l + from) k = Some d.
Proof. unfold loc_bytes. intros ->. auto. Qed.

Lemma firstn_add_app {A} (a b : nat) (t : list A) : firstn (a + b) t = firstn a t ++ firstn b (skipn a t).
Proof.
  revert t; induction a as [|a IH]; intros t; [reflexivity|].
  destruct t as [|x t]; [cbn; rewrite firstn_nil; reflexivity|]. cbn [Nat.add firstn skipn app]. rewrite IH. reflexivity.
Qed.

Lemma get_bytes_concat img off a b da db :
  get_bytes img off a = Some da -> get_bytes img (off + a) b = Some db -> get_bytes img off (a + b) = Some (da ++ db).
Proof.
  unfold get_bytes.
  destruct ((0 <=? off) && (0 <=? a) && (off + a <=? Expect.blen img)) eqn:E1; [|discriminate].
  destruct ((0 <=? off + a) && (0 <=? b) && (off + a + b <=? Expect.blen img)) eqn:E2; [|discriminate].
  intros H1 H2. injection H1 as <-. injection H2 as <-.
  replace ((0 <=? off) && (0 <=? a + b) && (off + (a + b) <=? Expect.blen img)) with true by lia.
  f_equal.
  replace (Z.to_nat (off + a)) with (Z.to_nat off + Z.to_nat a)%nat by lia.
  rewrite <- skipn_add.
  replace (Z.to_nat (a + b)) with (Z.to_nat a + Z.to_nat b)%nat by lia.
  apply firstn_add_app.
Qed.

(* ================================================================ target_peer on the client's read messages *)
Lemma blen_len (b : bytes) : EncapParser.blen b = Path.len b.
Proof. reflexivity. Qed.
Lemma eblen_app (a b : bytes) : Expect.blen (a ++ b) = Expect.blen a + Expect.blen b.
Proof. unfold Expect.blen. rewrite app_length. lia. Qed.

Lemma reply_bytes svc more tb d :
  mr_bytes svc (reply6 more (tb ++ d)) = reply_service svc :: 0 :: (if more then 6 else 0) :: 0 :: tb ++ d.
Proof. unfold mr_bytes, reply6. cbn. destruct more; reflexivity. Qed.

Theorem peer_read app ms st conn path pb n l img s tb d :
  quiet app ms st -> path_wf path pb -> tag_cia pb ->
  resolve_path (ls_proj app) false pb = TgTag l -> mem_get (ls_mem app) (w_inst l) = Some img ->
  0 <= n < 65536 -> loc_esize (ls_proj app) l = Some s -> type_bytes (ls_proj app) l = Some tb -> 1 <= s ->
  1 <= n <= w_avail l -> n * s <= conn - 2 - 4 - Expect.blen tb ->
  loc_bytes (ls_pol app) img l 0 (n * s) = Some d ->
  2 + (1 + EncapParser.blen path + 2) <= conn ->
  exists st', target_peer conn st (76 :: path ++ le_enc 2 n) = (st', Some (204 :: 0 :: 0 :: 0 :: tb ++ d))
              /\ quiet app ms st'.
Proof.
  intros Hq Hpw Hcia Hres Hmem Hn Hs Htb Hs1 Hav Hfit Hd Hmsg.
  unfold target_peer.
  assert (Hlen : EncapParser.blen (76 :: path ++ le_enc 2 n) = 1 + EncapParser.blen path + 2).
  { unfold EncapParser.blen. cbn [length]. rewrite app_length, le_enc_length. lia. }
  rewrite Hlen. replace (conn <? 2 + (1 + EncapParser.blen path + 2)) with false by lia.
  rewrite (parse_mr_msg 76 path pb (le_enc 2 n) Hpw) by lia.
  set (rq := {| mr_service := 76; mr_path := pb; mr_data := le_enc 2 n |}).
  assert (Hsvc : tag_service app l (conn - 2) rq = (app, reply6 false (tb ++ d), [])).
  { unfold tag_service. rewrite Hmem. cbn [mr_service rq Z.eqb Pos.eqb mr_data].
    rewrite (svc_read_full (ls_proj app) (ls_pol app) img l (conn - 2) n s tb d Hn Hs Htb Hs1 Hav ltac:(lia) Hd). reflexivity. }
  destruct (dispatch_tag app ms st (TConnected 0) (conn - 2) (Some 0) rq l _ _ Hq Hcia eq_refl Hres Hsvc) as (st' & Hd' & Hq').
  { cbn [mr_service rq]. rewrite reply_bytes. rewrite !blen_cons, blen_app.
    pose proof (loc_bytes_len _ _ _ _ _ _ Hd). unfold EncapParser.blen, Expect.blen in *. nia. }
  rewrite Hd'. cbn [mr_service rq]. rewrite reply_bytes. exists st'. split; [reflexivity|exact Hq'].
Qed.

Theorem peer_frag app ms st conn path pb n l img s tb off d :
  quiet app ms st -> path_wf path pb -> tag_cia pb ->
  resolve_path (ls_proj app) false pb = TgTag l -> mem_get (ls_mem app) (w_inst l) = Some img ->
  0 <= n < 65536 -> 0 <= off < 4294967296 ->
  loc_esize (ls_proj app) l = Some s -> type_bytes (ls_proj app) l = Some tb -> 1 <= s ->
  1 <= n <= w_avail l -> off < n * s -> (loc_is_struct l = false -> off mod s = 0) ->
  s <= conn - 2 - 4 - Expect.blen tb ->
  let k := Z.min (n * s - off) (frag_lim (ls_pol app) l s (conn - 2 - 4 - Expect.blen tb) off) in
  loc_bytes (ls_pol app) img l off k = Some d ->
  2 + (1 + EncapParser.blen path + 6) <= conn ->
  exists st', target_peer conn st (82 :: path ++ le_enc 2 n ++ le_enc 4 off)
              = (st', Some (210 :: 0 :: (if k <? n * s - off then 6 else 0) :: 0 :: tb ++ d))
              /\ quiet app ms st'.
Proof.
  intros Hq Hpw Hcia Hres Hmem Hn Ho Hs Htb Hs1 Hav Hoff Hal Hroom k Hd Hmsg.
  unfold target_peer.
  assert (Hlen : EncapParser.blen (82 :: path ++ le_enc 2 n ++ le_enc 4 off) = 1 + EncapParser.blen path + 6).
  { unfold EncapParser.blen. cbn [length]. rewrite !app_length, !le_enc_length. lia. }
  rewrite Hlen. replace (conn <? 2 + (1 + EncapParser.blen path + 6)) with false by lia.
  rewrite (parse_mr_msg 82 path pb (le_enc 2 n ++ le_enc 4 off) Hpw) by lia.
  set (rq := {| mr_service := 82; mr_path := pb; mr_data := le_enc 2 n ++ le_enc 4 off |}).
  assert (Hsvc : tag_service app l (conn - 2) rq = (app, reply6 (k <? n * s - off) (tb ++ d), [])).
  { unfold tag_service. rewrite Hmem. cbn [mr_service rq Z.eqb Pos.eqb mr_data].
    rewrite (svc_read_frag_step (ls_proj app) (ls_pol app) img l (conn - 2) n s tb off Hn Ho Hs Htb Hs1 Hav Hoff Hal ltac:(lia) d);
      [reflexivity|exact Hd]. }
  destruct (frag_lim_bounds (ls_pol app) l s (conn - 2 - 4 - Expect.blen tb) off Hs1 Hroom) as [Hb _].
  destruct (dispatch_tag app ms st (TConnected 0) (conn - 2) (Some 0) rq l _ _ Hq Hcia eq_refl Hres Hsvc) as (st' & Hd' & Hq').
  { cbn [mr_service rq]. rewrite reply_bytes. rewrite !blen_cons, blen_app.
    assert (1 <= k) by (subst k; lia).
    pose proof (loc_bytes_len _ _ _ _ _ _ Hd H). unfold EncapParser.blen, Expect.blen in *. subst k. lia. }
  rewrite Hd'. cbn [mr_service rq]. rewrite reply_bytes. exists st'. split; [reflexivity|exact Hq'].
Qed.
