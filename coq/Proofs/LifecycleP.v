(* Proofs/LifecycleP.v — lemmas about the connection lifecycle model (Model/Lifecycle.v) composed
   with the reference target: frames the driver builds as the target's strict parser reads them,
   replies of the target as the driver classifies them, and the invariants of a run. *)
From Coq Require Import ZifyBool.
From PV Require Import Base.Bytes Base.BytesLemmas Base.Res.
From PV Require Import Gen.Consts Gen.LifecycleGen Gen.SeqGen Gen.ReplyTables.
From PV Require Import Spec.EncapParser Spec.MRParser Spec.TargetIface Spec.TargetCore.
From PV Require Import Proofs.TargetCoreP Proofs.LifecycleTarget Model.Lifecycle.
Open Scope Z_scope.
Ltac Zify.zify_post_hook ::= Z.to_euclidean_division_equations.

(* ================================================================ replies, as the driver classifies them *)
Lemma nth_header_body cmd len ses st ctx opt body k :
  List.length ctx = 8%nat -> nth (24 + k) (mk_header cmd len ses st ctx opt ++ body) 0 = nth k body 0.
Proof.
  intros H. rewrite app_nth2; unfold mk_header; rewrite !app_length, !le_enc_length, H; [| lia].
  f_equal. lia.
Qed.

Lemma length8_nat (l : bytes) : List.length l = 8%nat -> exists x0 x1 x2 x3 x4 x5 x6 x7, l = [x0; x1; x2; x3; x4; x5; x6; x7].
Proof.
  intros H. do 8 (destruct l as [| ? l]; [cbn in H; lia |]).
  destruct l; [| cbn in H; lia]. now do 8 eexists.
Qed.

Lemma rr_refusal_invalid raw : rr_refusal raw -> valid KRR raw = false.
Proof.
  intros [H | (cmd & ses & ctx & bs & Hctx & -> & Hnz)].
  - unfold valid, parse_error, cip_error, off_svc, off_st, RR_OFF_SERVICE, RR_OFF_STATUS, base_error, OFF_STATUS_HI.
    rewrite H. reflexivity.
  - destruct (length8_nat ctx Hctx) as (x0 & x1 & x2 & x3 & x4 & x5 & x6 & x7 & ->).
    unfold valid, off_st, RR_OFF_STATUS.
    assert (nthz 42 (encap_reply cmd ses 0 [x0; x1; x2; x3; x4; x5; x6; x7] (mk_cpf 0 AddrNull ITEM_UNCONN_DATA bs)) = nth 2 bs 0) as ->.
    { unfold nthz, encap_reply, mk_header, mk_cpf, addr_bytes. cbn [le_enc app nth]. reflexivity. }
    destruct (nth 2 bs 0 =? SUCCESS) eqn:E; [unfold SUCCESS in E; lia |].
    rewrite Bool.andb_false_r. reflexivity.
Qed.

Lemma fo_success_valid raw otid : fo_success raw otid ->
  valid KRR raw = true /\ firstn 4 (data_of KRR raw) = le_enc 4 otid /\ error_raises KRR raw = None.
Proof.
  intros (cmd & ses & ctx & svcb & rest & Hctx & Hsvc & ->).
  destruct (length8_nat ctx Hctx) as (x0 & x1 & x2 & x3 & x4 & x5 & x6 & x7 & ->).
  assert (valid KRR (encap_reply cmd ses 0 [x0; x1; x2; x3; x4; x5; x6; x7]
                       (mk_cpf 0 AddrNull ITEM_UNCONN_DATA (svcb :: 0 :: 0 :: 0 :: le_enc 4 otid ++ rest))) = true) as Hv.
  { unfold valid, parse_error, cip_error, base_error, command_status, off_svc, off_st, nthz,
      RR_OFF_SERVICE, RR_OFF_STATUS, OFF_STATUS_HI, OFF_STATUS_LO, slice, encap_reply, mk_header, mk_cpf, addr_bytes.
    cbn [le_enc app nth List.length firstn skipn Nat.sub Nat.ltb Nat.leb le_dec].
    destruct (svcb <? 128) eqn:E; [lia |]. reflexivity. }
  split; [exact Hv |]. split.
  - unfold data_of, off_data, RR_OFF_DATA, encap_reply, mk_header, mk_cpf, addr_bytes.
    cbn [le_enc app skipn firstn]. reflexivity.
  - unfold error_raises. rewrite Hv. reflexivity.
Qed.

(* ================================================================ frames, as the target's strict parser reads them *)
Lemma in_urange2 x : in_urange 2 x = true <-> 0 <= x < 65536.
Proof. unfold in_urange. change (pow256 2) with 65536. lia. Qed.
Lemma in_urange4 x : in_urange 4 x = true <-> 0 <= x < 4294967296.
Proof. unfold in_urange. change (pow256 4) with 4294967296. lia. Qed.

Lemma build_request_inv cmd common ses fr : build_request cmd common ses = Ok fr ->
  exists c, common = Ok c /\ 0 <= blen c < 65536 /\ 0 <= ses < 4294967296
            /\ fr = (cmd ++ le_enc 2 (blen c) ++ le_enc 4 ses ++ HEADER_STATUS ++ CFG_CONTEXT ++ le_enc 4 CFG_OPTION) ++ c.
Proof.
  unfold build_request, bind. destruct common as [c | e]; [| discriminate].
  unfold build_header.
  destruct (in_urange 2 (blen c)) eqn:E1; cbn [andb]; [| discriminate].
  destruct (in_urange 4 ses) eqn:E2; cbn [andb]; [| discriminate].
  destruct (in_urange 4 CFG_OPTION); [| discriminate].
  intros H. inversion H; subst. exists c. apply in_urange2 in E1. apply in_urange4 in E2. auto.
Qed.

Definition rr_parsed (ses : Z) (msg : bytes) : frame :=
  {| f_cmd := CMD_RRDATA; f_session := ses; f_context := CFG_CONTEXT; f_body := BCpf 10 AddrNull ITEM_UNCONN_DATA msg |}.

Lemma rr_frame_mk ses msg fr : rr_frame ses msg = Ok fr ->
  fr = mk_frame (rr_parsed ses msg) /\ 0 <= ses < 4294967296 /\ blen msg < 65536 - 16.
Proof.
  unfold rr_frame. intros H. destruct (build_request_inv _ _ _ _ H) as (c & Hc & Hlen & Hses & ->).
  unfold cpf, bind in Hc. destruct (in_urange 2 (blen msg)) eqn:E; [| discriminate].
  inversion Hc; subst c; clear Hc. apply in_urange2 in E.
  split; [| split; [exact Hses |]].
  - unfold mk_frame, rr_parsed, mk_header, mk_cpf, body_bytes, addr_bytes. cbn [f_cmd f_session f_context f_body].
    reflexivity.
  - rewrite !blen_cons in Hlen. lia.
Qed.

Lemma rr_frame_parse ses msg fr : rr_frame ses msg = Ok fr ->
  parse_frame fr = if bytes_ok msg then RcOk (rr_parsed ses msg) else RcErr 1.
Proof.
  intros H. destruct (rr_frame_mk _ _ _ H) as (-> & Hses & Hlen).
  destruct (bytes_ok msg) eqn:Eok.
  - apply parse_mk_frame. unfold frame_wf, rr_parsed, body_wf. cbn [f_session f_context f_cmd f_body].
    rewrite Eok. pose proof (blen_nonneg msg).
    replace (bytes_ok CFG_CONTEXT) with true by reflexivity.
    replace (blen CFG_CONTEXT =? 8) with true by reflexivity.
    unfold CMD_RRDATA, ITEM_UNCONN_DATA. lia.
  - unfold parse_frame, mk_frame, rr_parsed, body_bytes, mk_cpf. cbn [f_cmd f_session f_context f_body].
    rewrite !bytes_ok_app, Eok, !Bool.andb_false_r. reflexivity.
Qed.

Lemma rr_frame_effect ses msg fr : rr_frame ses msg = Ok fr ->
  frame_effect fr = if bytes_ok msg then msg_effect msg else ENone.
Proof.
  intros H. unfold frame_effect. rewrite (rr_frame_parse _ _ _ H). destruct (bytes_ok msg); reflexivity.
Qed.

(* the command of a parsed frame is its first two bytes *)
Lemma parse_frame_cmd bs f : parse_frame bs = RcOk f -> f_cmd f = u16 (nth 0 bs 0) (nth 1 bs 0).
Proof.
  intros H. destruct (parse_frame_inv _ _ H) as (hd & body & Eh & Fcmd & _). rewrite Fcmd.
  eapply parse_header_cmd. exact Eh.
Qed.

Lemma parse_body_register cmd body : parse_body cmd body = RcOk BRegister -> cmd = CMD_REGISTER.
Proof.
  unfold parse_body.
  destruct (cmd =? CMD_NOP) eqn:E0; [discriminate |].
  destruct (cmd =? CMD_REGISTER) eqn:E1; [intros _; lia |].
  destruct ((cmd =? CMD_RRDATA) || (cmd =? CMD_UNITDATA)) eqn:E2.
  2: { destruct body; discriminate. }
  unfold parse_cpf.
  repeat (match goal with
          | |- context [match ?x with _ => _ end] => destruct x
          | |- context [if ?x then _ else _] => destruct x
          end; try discriminate).
Qed.

(* which commands can have which effect *)
Lemma frame_effect_cmd bs :
  let c := u16 (nth 0 bs 0) (nth 1 bs 0) in
  match frame_effect bs with
  | ENone => True
  | ERegister => c = CMD_REGISTER
  | EUnregister => c = CMD_UNREGISTER
  | EFo _ | EFClose => c = CMD_RRDATA
  end.
Proof.
  cbv zeta. unfold frame_effect. destruct (parse_frame bs) as [f | e] eqn:Ep; [| exact I].
  rewrite <- (parse_frame_cmd _ _ Ep).
  destruct (parse_frame_inv _ _ Ep) as (hd & body & Eh & Fcmd & Fses & Fctx & Fbody & Fk & Fok).
  unfold parsed_effect. destruct (f_body f) as [d | | | t a dt d] eqn:Eb; try exact I.
  - destruct (f_cmd f =? CMD_UNREGISTER) eqn:E; [lia | exact I].
  - rewrite Fcmd. eapply parse_body_register. exact Fbody.
  - destruct a as [| cid]; [| exact I].
    destruct (parse_body_cpf _ _ _ _ _ _ Fbody) as [[Ec _] | [_ [cid Hc]]]; [| discriminate].
    destruct (msg_effect_cases d) as [-> | [[l ->] | ->]]; try exact I; congruence.
Qed.

Lemma build_request_cmd a b common ses fr : build_request [a; b] common ses = Ok fr ->
  u16 (nth 0 fr 0) (nth 1 fr 0) = u16 a b.
Proof.
  intros H. destruct (build_request_inv _ _ _ _ H) as (c & _ & _ & _ & ->). reflexivity.
Qed.

(* frames that never touch the tables: SendUnitData, ListIdentity *)
Lemma ud_frame_effect ses cid sq msg fr : ud_frame ses cid sq msg = Ok fr -> frame_effect fr = ENone.
Proof.
  unfold ud_frame. destruct (in_urange 2 sq); [| discriminate]. intros H.
  pose proof (build_request_cmd _ _ _ _ _ H) as Hc. pose proof (frame_effect_cmd fr) as He. cbv zeta in He.
  rewrite Hc in He. destruct (frame_effect fr); try reflexivity; discriminate.
Qed.
Lemma list_identity_frame_effect ses fr : list_identity_frame ses = Ok fr -> frame_effect fr = ENone.
Proof.
  unfold list_identity_frame. intros H.
  pose proof (build_request_cmd _ _ _ _ _ H) as Hc. pose proof (frame_effect_cmd fr) as He. cbv zeta in He.
  rewrite Hc in He. destruct (frame_effect fr); try reflexivity; discriminate.
Qed.
Lemma register_frame_effect ses fr : register_frame ses = Ok fr -> frame_effect fr = ENone \/ frame_effect fr = ERegister.
Proof.
  unfold register_frame. intros H.
  pose proof (build_request_cmd _ _ _ _ _ H) as Hc. pose proof (frame_effect_cmd fr) as He. cbv zeta in He.
  rewrite Hc in He. destruct (frame_effect fr); auto; discriminate.
Qed.

(* a SendUnitData frame of the driver, read back by the strict parser *)
Definition ud_parsed (ses otid sq : Z) (msg : bytes) : frame :=
  {| f_cmd := CMD_UNITDATA; f_session := ses; f_context := CFG_CONTEXT;
     f_body := BCpf 10 (AddrConn otid) ITEM_CONN_DATA (le_enc 2 sq ++ msg) |}.

Lemma ud_frame_mk ses otid sq msg fr : ud_frame ses (Some (le_enc 4 otid)) sq msg = Ok fr ->
  fr = mk_frame (ud_parsed ses otid sq msg) /\ 0 <= ses < 4294967296 /\ blen msg < 65536 - 22.
Proof.
  unfold ud_frame. destruct (in_urange 2 sq) eqn:Esq; [| discriminate]. intros H.
  destruct (build_request_inv _ _ _ _ H) as (c & Hc & Hlen & Hses & ->).
  unfold cpf, bind in Hc. rewrite blen_le_enc in Hc.
  replace (in_urange 2 (Z.of_nat 4)) with true in Hc by reflexivity.
  destruct (in_urange 2 (blen (le_enc 2 sq ++ msg))) eqn:E; [| discriminate].
  inversion Hc; subst c; clear Hc.
  split; [| split; [exact Hses |]].
  - unfold mk_frame, ud_parsed, mk_header, mk_cpf, body_bytes, addr_bytes. cbn [f_cmd f_session f_context f_body].
    reflexivity.
  - rewrite !blen_cons in Hlen. lia.
Qed.

Lemma ud_frame_parse ses otid sq msg fr f :
  ud_frame ses (Some (le_enc 4 otid)) sq msg = Ok fr -> 0 <= otid < 4294967296 -> parse_frame fr = RcOk f ->
  f = ud_parsed ses otid sq msg.
Proof.
  intros H Hid Hp. destruct (ud_frame_mk _ _ _ _ _ H) as (-> & Hses & Hlen).
  destruct (parse_frame_inv _ _ Hp) as (_ & _ & _ & _ & _ & _ & _ & _ & Hok).
  assert (bytes_ok (le_enc 2 sq ++ msg) = true) as Hokm.
  { unfold mk_frame, ud_parsed, body_bytes, mk_cpf in Hok. cbn [f_cmd f_session f_context f_body] in Hok.
    rewrite !bytes_ok_app in Hok. rewrite !Bool.andb_true_iff in Hok.
    rewrite bytes_ok_app, le_enc_ok. cbn [andb]. tauto. }
  assert (parse_frame (mk_frame (ud_parsed ses otid sq msg)) = RcOk (ud_parsed ses otid sq msg)) as Hp'.
  { apply parse_mk_frame. unfold frame_wf, ud_parsed, body_wf. cbn [f_session f_context f_cmd f_body].
    rewrite Hokm. replace (bytes_ok CFG_CONTEXT) with true by reflexivity.
    replace (blen CFG_CONTEXT =? 8) with true by reflexivity.
    rewrite blen_app, blen_le_enc. pose proof (blen_nonneg msg).
    unfold CMD_UNITDATA, ITEM_CONN_DATA. lia. }
  rewrite Hp' in Hp. inversion Hp. reflexivity.
Qed.

(* ================================================================ results *)
Definition okres {A} (r : res A) : Prop := is_library r = true.
Lemma okres_ok {A} (a : A) : okres (Ok a). Proof. reflexivity. Qed.
Lemma okres_wrap {A} (r : res A) : okres (wrap_all CommError r).
Proof. destruct r; reflexivity. Qed.
#[export] Hint Resolve okres_ok okres_wrap : lc.

Lemma frame_builders_ok :
  (forall cmd len ses, okres (build_header cmd len ses))
  /\ (forall a b c d, okres (cpf a b c d))
  /\ (forall cmd common ses, okres common -> okres (build_request cmd common ses)).
Proof.
  split; [| split].
  - intros. unfold build_header. destruct (_ && _); reflexivity.
  - intros. unfold cpf, bind. destruct b as [x |]; [destruct (in_urange 2 (blen x)) |]; try reflexivity;
      destruct (in_urange 2 (blen d)); reflexivity.
  - intros cmd common ses H. unfold build_request, bind. destruct common as [c | e]; [| exact H].
    unfold build_header. destruct (_ && _); reflexivity.
Qed.

Lemma rr_frame_ok ses msg : okres (rr_frame ses msg).
Proof. apply frame_builders_ok. apply frame_builders_ok. Qed.
Lemma ud_frame_ok ses cid sq msg : okres (ud_frame ses cid sq msg).
Proof. unfold ud_frame. destruct (in_urange 2 sq); [| reflexivity]. apply frame_builders_ok. apply frame_builders_ok. Qed.
Lemma simple_frames_ok ses : okres (register_frame ses) /\ okres (unregister_frame ses) /\ okres (list_identity_frame ses).
Proof. repeat split; apply frame_builders_ok; reflexivity. Qed.

Lemma ext_status_raises_lib s e : ext_status_raises s = Some e -> is_foreign e = false.
Proof.
  unfold ext_status_raises.
  repeat (match goal with |- context [match ?x with _ => _ end] => destruct x end; try discriminate);
    intros H; inversion H; reflexivity.
Qed.

Lemma classify_ok k raw : okres (classify k raw).
Proof.
  unfold okres, classify, error_raises.
  destruct (valid k raw || parse_error k raw); [reflexivity |].
  destruct (ext_status_raises (skipn (off_ext k) raw)) as [e |] eqn:E; [| reflexivity].
  cbn. rewrite (ext_status_raises_lib _ _ E). reflexivity.
Qed.

(* ================================================================ the world under socket operations *)
Section World.
Context {S : Type} (h : handler S).
Notation world := (world (S := S)).
Notation st := (st (S := S)).

(* the trace (newest first) is a consistent history of the target: it starts from empty tables, every
   frame delivered was processed by [tstep] in the state the previous event left, and the TCP
   connection dropping ([TVanish], a socket close the target is notified of) empties the tables *)
Fixpoint chained (tr : list (tev (S := S))) (t : tstate S) : Prop :=
  match tr with
  | [] => t_sessions t = [] /\ t_conns t = []
  | e :: older =>
      match e with
      | TDeliver b fr rep =>
          chained older b /\ inj_ok (t_inject b) /\ t = fst (tstep h b fr) /\ rep = snd (tstep h b fr)
      | TVanish => exists b, chained older b /\ t = tclosed b
      | TSockClose n => exists b, chained older b /\ t = (if n then tclosed b else b)
      | TConnect _ => chained older t
      end
  end.

(* holds of every world a run can reach, whatever the faults *)
Record WGood (cfg0 : tcfg) (w : world) : Prop := {
  wg_cfg : t_cfg (w_t w) = cfg0;
  wg_inj : inj_ok (t_inject (w_t w));
  wg_closed : w_open w = false -> t_sessions (w_t w) = [] /\ t_conns (w_t w) = [];
  wg_chain : chained (w_trace w) (w_t w) }.

Ltac wproj := cbn [w_t w_open w_queue w_dead w_rands w_trace w_nconnect w_nsend w_nrecv w_nclose fst snd].

Lemma sock_connect_w cfg0 flt (w : world) : WGood cfg0 w -> WGood cfg0 (fst (sock_connect flt w)).
Proof.
  intros [A B C D]. unfold sock_connect. destruct (flookup (w_nconnect w) (f_connect flt)); wproj.
  - split; wproj; assumption.
  - split; wproj; try assumption. intros; discriminate.
Qed.

Lemma sock_send_w cfg0 flt (w : world) fr : WGood cfg0 w ->
  WGood cfg0 (fst (sock_send h flt w fr)) /\ w_open (fst (sock_send h flt w fr)) = w_open w
  /\ w_rands (fst (sock_send h flt w fr)) = w_rands w.
Proof.
  intros [A B C D]. unfold sock_send.
  destruct (negb (w_open w) || w_dead w) eqn:E1; wproj.
  { split; [split; wproj; assumption | split; reflexivity]. }
  assert (w_open w = true) as Ho by (destruct (w_open w); [reflexivity | discriminate]).
  destruct (fmem (w_nsend w) (f_vanish flt)); wproj.
  { split; [split; wproj; try assumption; [rewrite Ho; intros; discriminate | cbn [chained]; exists (w_t w); auto]
           | split; reflexivity]. }
  destruct (flookup (w_nsend w) (f_send flt)); wproj.
  { split; [split; wproj; assumption | split; reflexivity]. }
  pose proof (tstep_effect h (w_t w) fr B) as (T1 & T2 & _).
  destruct (tstep h (w_t w) fr) as [t' rep] eqn:Et. cbn [fst] in *.
  destruct (flookup (w_nsend w) (f_send_after flt)); wproj;
    (split; [split; wproj; [congruence | assumption | rewrite Ho; intros; discriminate
                             | cbn [chained]; rewrite Et; auto] | split; reflexivity]).
Qed.

Lemma sock_recv_w cfg0 flt (w : world) : WGood cfg0 w ->
  WGood cfg0 (fst (sock_recv flt w)) /\ w_open (fst (sock_recv flt w)) = w_open w
  /\ w_rands (fst (sock_recv flt w)) = w_rands w /\ w_t (fst (sock_recv flt w)) = w_t w
  /\ w_trace (fst (sock_recv flt w)) = w_trace w /\ w_dead (fst (sock_recv flt w)) = w_dead w.
Proof.
  intros [A B C D]. unfold sock_recv.
  destruct (negb (w_open w) || w_dead w); wproj; [split; [split; wproj; assumption | repeat split] |].
  destruct (flookup (w_nrecv w) (f_recv flt)); wproj; [split; [split; wproj; assumption | repeat split] |].
  destruct (w_queue w); wproj; (split; [split; wproj; assumption | repeat split]).
Qed.

Lemma sock_close_w cfg0 flt (w : world) : WGood cfg0 w ->
  WGood cfg0 (fst (sock_close flt w)) /\ w_open (fst (sock_close flt w)) = false
  /\ t_sessions (w_t (fst (sock_close flt w))) = [] /\ t_conns (w_t (fst (sock_close flt w))) = []
  /\ w_queue (fst (sock_close flt w)) = [].
Proof.
  intros [A B C D]. unfold sock_close.
  assert (t_sessions (if w_open w then tclosed (w_t w) else w_t w) = []
          /\ t_conns (if w_open w then tclosed (w_t w) else w_t w) = []) as [H1 H2].
  { destruct (w_open w); [split; reflexivity | apply C; reflexivity]. }
  assert (t_cfg (if w_open w then tclosed (w_t w) else w_t w) = cfg0
          /\ inj_ok (t_inject (if w_open w then tclosed (w_t w) else w_t w))) as [H3 H4].
  { destruct (w_open w); split; assumption. }
  destruct (flookup (w_nclose w) (f_close flt)); wproj;
    (split; [split; wproj; try assumption; [intros _; split; assumption | cbn [chained]; exists (w_t w); auto]
            | repeat split; assumption]).
Qed.

Lemma urandom_w cfg0 (w : world) : WGood cfg0 w ->
  WGood cfg0 (snd (urandom w)) /\ w_open (snd (urandom w)) = w_open w /\ w_queue (snd (urandom w)) = w_queue w
  /\ w_t (snd (urandom w)) = w_t w /\ w_trace (snd (urandom w)) = w_trace w /\ w_dead (snd (urandom w)) = w_dead w.
Proof.
  intros [A B C D]. unfold urandom. destruct (w_rands w); wproj; (split; [split; wproj; assumption | repeat split]).
Qed.

(* ================================================================ driver functions: reachable states, library exceptions *)
Record DGood (s : st) : Prop := {
  dg_sock : d_sock (snd s) = false -> w_open (fst s) = false;
  dg_tconn : d_tconn (snd s) = true -> d_session (snd s) <> 0;
  dg_sess : d_session (snd s) <> 0 -> d_opened (snd s) = true }.

Definition Good (cfg0 : tcfg) (s : st) : Prop := WGood cfg0 (fst s) /\ DGood s.

(* what CIPDriver._abandon_transport leaves: no socket, no session, not connected *)
Definition abandoned (s : st) : Prop :=
  d_sock (snd s) = false /\ d_session (snd s) = 0 /\ d_opened (snd s) = false /\ d_tconn (snd s) = false
  /\ w_open (fst s) = false.

(* I/O that leaves the driver state alone and the socket open/closed as it was — or abandons the transport *)
Definition io_only (s s' : st) : Prop :=
  (snd s' = snd s /\ w_open (fst s') = w_open (fst s)) \/ abandoned s'.
(* ... and when the I/O succeeded it did the former *)
Definition io_kept {A} (s s' : st) (r : res A) : Prop :=
  forall a, r = Ok a -> snd s' = snd s /\ w_open (fst s') = w_open (fst s).
Lemma io_only_refl s : io_only s s. Proof. left. split; reflexivity. Qed.
Lemma io_only_trans a b c : io_only a b -> io_only b c -> io_only a c.
Proof.
  intros Hab [[B1 B2] | Hc]; [| right; exact Hc].
  destruct Hab as [[A1 A2] | (A1 & A2 & A3 & A4 & A5)]; [left; split; congruence |].
  right. unfold abandoned. rewrite B1, B2. auto.
Qed.
Lemma abandoned_dgood s : abandoned s -> DGood s.
Proof.
  intros (A1 & A2 & A3 & A4 & A5). split; intros H; try assumption; try congruence; exfalso; apply H; exact A2.
Qed.
Lemma io_good cfg0 s s' : io_only s s' -> WGood cfg0 (fst s') -> Good cfg0 s -> Good cfg0 s'.
Proof.
  intros [[A1 A2] | Ha] Hw [_ [D1 D2 D3]]; (split; [exact Hw |]); [| apply abandoned_dgood; exact Ha].
  split; rewrite ?A1, ?A2; assumption.
Qed.

Lemma abandon_good cfg0 flt (s : st) : WGood cfg0 (fst s) -> (d_sock (snd s) = false -> w_open (fst s) = false) ->
  WGood cfg0 (fst (abandon_transport flt s)) /\ abandoned (abandon_transport flt s).
Proof.
  destruct s as [w d]. cbn [fst snd]. intros W Hs. unfold abandon_transport.
  destruct (d_sock d) eqn:Ek; cbn [fst snd].
  - pose proof (sock_close_w cfg0 flt w W) as (W1 & O1 & _). split; [exact W1 |].
    unfold abandoned. cbn [fst snd reset_driver set_opened set_session set_tconn set_sock d_sock d_tconn d_session d_opened]. auto 10.
  - split; [exact W |]. unfold abandoned.
    cbn [fst snd reset_driver set_opened set_session set_tconn set_sock d_sock d_tconn d_session d_opened]. auto 10.
Qed.

Lemma tx_good cfg0 flt s fr : Good cfg0 s ->
  let r := tx h flt s fr in Good cfg0 (fst r) /\ io_only s (fst r) /\ okres (snd r) /\ io_kept s (fst r) (snd r).
Proof.
  intros G. cbv zeta. unfold tx. destruct s as [w d]. destruct (d_sock d) eqn:Ek.
  - pose proof (sock_send_w cfg0 flt w fr (proj1 G)) as (W1 & W2 & W3).
    destruct (sock_send h flt w fr) as [w' r]. cbn [fst snd] in *.
    destruct r as [u | e].
    + assert (io_only (w, d) (w', d)) as Hio by (left; split; [reflexivity | exact W2]).
      cbn [fst snd]. split; [eapply io_good; eassumption |]. split; [exact Hio |]. split; [reflexivity |].
      intros a _. split; [reflexivity | exact W2].
    + destruct (abandon_good cfg0 flt (w', d) W1) as [Wa Ha]; [cbn [snd]; congruence |].
      split; [split; [exact Wa | apply abandoned_dgood; exact Ha] |]. split; [right; exact Ha |].
      split; [reflexivity | intros a H; discriminate].
  - destruct (abandon_good cfg0 flt (w, d) (proj1 G)) as [Wa Ha]; [apply (dg_sock _ (proj2 G)) |].
    split; [split; [exact Wa | apply abandoned_dgood; exact Ha] |]. split; [right; exact Ha |].
    split; [reflexivity | intros a H; discriminate].
Qed.

Lemma rx_good cfg0 flt s : Good cfg0 s ->
  let r := rx (S := S) flt s in Good cfg0 (fst r) /\ io_only s (fst r) /\ okres (snd r) /\ io_kept s (fst r) (snd r).
Proof.
  intros G. cbv zeta. unfold rx. destruct s as [w d]. destruct (d_sock d) eqn:Ek.
  - pose proof (sock_recv_w cfg0 flt w (proj1 G)) as (W1 & W2 & _).
    destruct (sock_recv flt w) as [w' r]. cbn [fst snd] in *.
    destruct r as [raw | e].
    + assert (io_only (w, d) (w', d)) as Hio by (left; split; [reflexivity | exact W2]).
      cbn [fst snd]. split; [eapply io_good; eassumption |]. split; [exact Hio |]. split; [reflexivity |].
      intros a _. split; [reflexivity | exact W2].
    + destruct (abandon_good cfg0 flt (w', d) W1) as [Wa Ha]; [cbn [snd]; congruence |].
      split; [split; [exact Wa | apply abandoned_dgood; exact Ha] |]. split; [right; exact Ha |].
      split; [reflexivity | intros a H; discriminate].
  - destruct (abandon_good cfg0 flt (w, d) (proj1 G)) as [Wa Ha]; [apply (dg_sock _ (proj2 G)) |].
    split; [split; [exact Wa | apply abandoned_dgood; exact Ha] |]. split; [right; exact Ha |].
    split; [reflexivity | intros a H; discriminate].
Qed.

Lemma drv_send_good cfg0 flt s fr nr : Good cfg0 s -> okres fr ->
  let r := drv_send h flt s fr nr in Good cfg0 (fst r) /\ io_only s (fst r) /\ okres (snd r) /\ io_kept s (fst r) (snd r).
Proof.
  intros G Hfr. cbv zeta. unfold drv_send. destruct fr as [f | e].
  2: { cbn [fst snd]. split; [exact G |]. split; [apply io_only_refl |]. split; [exact Hfr | intros a H; discriminate]. }
  pose proof (tx_good cfg0 flt s f G) as (G1 & I1 & R1 & K1). cbv zeta in *.
  destruct (tx h flt s f) as [s1 r1]. cbn [fst snd] in *.
  destruct r1 as [u | e]; [| cbn [fst snd]; split; [exact G1 |]; split; [exact I1 |]; split; [exact R1 | intros a H; discriminate]].
  destruct (K1 u eq_refl) as [K1a K1b].
  destruct nr; [cbn [fst snd]; split; [exact G1 |]; split; [exact I1 |]; split; [reflexivity | intros a _; split; assumption] |].
  pose proof (rx_good cfg0 flt s1 G1) as (G2 & I2 & R2 & K2). cbv zeta in *.
  destruct (rx flt s1) as [s2 r2]. cbn [fst snd] in *.
  destruct r2 as [raw | e]; cbn [fst snd]; (split; [exact G2 |]); (split; [eapply io_only_trans; eassumption |]).
  - split; [reflexivity |]. intros a _. destruct (K2 raw eq_refl) as [Ka Kb]. split; congruence.
  - split; [exact R2 | intros a H; discriminate].
Qed.

(* the socket stays as it is; the driver keeps its socket, session and `connected`; a connection is
   only ever claimed while a session is held — or the transport was abandoned *)
Definition soft (s s' : st) : Prop :=
  (w_open (fst s') = w_open (fst s) /\ d_sock (snd s') = d_sock (snd s) /\ d_session (snd s') = d_session (snd s)
   /\ d_opened (snd s') = d_opened (snd s)
   /\ (d_tconn (snd s') = true -> d_tconn (snd s) = true \/ d_session (snd s) <> 0))
  \/ abandoned s'.
Lemma soft_refl s : soft s s. Proof. left. repeat split; auto. Qed.
Lemma soft_trans a b c : soft a b -> soft b c -> soft a c.
Proof.
  intros Hab [(B1 & B2 & B3 & B4 & B5) | Hc]; [| right; exact Hc].
  destruct Hab as [(A1 & A2 & A3 & A4 & A5) | (A1 & A2 & A3 & A4 & A5)].
  - left. repeat split; try congruence.
    intros H. destruct (B5 H) as [H1 | H1]; [apply A5; exact H1 | right; congruence].
  - right. unfold abandoned. rewrite B1, B2, B3, B4. repeat split; auto.
    destruct (d_tconn (snd c)) eqn:E; [| reflexivity]. destruct (B5 eq_refl) as [H1 | H1]; [congruence | exfalso; apply H1; exact A2].
Qed.
Lemma io_soft s s' : io_only s s' -> soft s s'.
Proof. intros [[A1 A2] | Ha]; [| right; exact Ha]. left. rewrite A1, A2. repeat split; auto. Qed.
Lemma soft_good cfg0 s s' : soft s s' -> WGood cfg0 (fst s') -> Good cfg0 s -> Good cfg0 s'.
Proof.
  intros [(A1 & A2 & A3 & A4 & A5) | Ha] Hw [_ [D1 D2 D3]]; (split; [exact Hw |]); [| apply abandoned_dgood; exact Ha].
  split; rewrite ?A1, ?A2, ?A3, ?A4; try assumption.
  intros H. destruct (A5 H) as [H1 | H1]; [apply D2; exact H1 | exact H1].
Qed.
(* driver-state updates that [soft] allows *)
Lemma soft_upd (s : st) (d' : dstate) :
  d_sock d' = d_sock (snd s) -> d_session d' = d_session (snd s) -> d_opened d' = d_opened (snd s) ->
  (d_tconn d' = true -> d_tconn (snd s) = true \/ d_session (snd s) <> 0) -> soft s (fst s, d').
Proof. intros. left. repeat split; assumption. Qed.

Definition spec_soft (cfg0 : tcfg) {A} (s : st) (r : st * res A) : Prop :=
  Good cfg0 (fst r) /\ soft s (fst r) /\ okres (snd r).

Lemma generic_unconnected_good cfg0 flt s msg : Good cfg0 s ->
  let r := generic_unconnected h flt s msg in
  Good cfg0 (fst r) /\ io_only s (fst r) /\ okres (snd r) /\ io_kept s (fst r) (snd r).
Proof.
  intros G. cbv zeta. unfold generic_unconnected.
  pose proof (drv_send_good cfg0 flt s (rr_frame (d_session (snd s)) msg) false G (rr_frame_ok _ _)) as (G1 & I1 & R1 & K1).
  cbv zeta in *. destruct (drv_send h flt s (rr_frame (d_session (snd s)) msg) false) as [s1 r1]. cbn [fst snd] in *.
  destruct r1 as [[raw |] | e]; cbn [fst snd]; (split; [exact G1 |]); (split; [exact I1 |]).
  - split; [apply classify_ok |]. intros a _. eapply K1. reflexivity.
  - split; [reflexivity |]. intros a _. eapply K1. reflexivity.
  - split; [exact R1 | intros a H; discriminate].
Qed.

Lemma fo_message_ok d : okres (fo_message d).
Proof.
  unfold fo_message, bind, net_params, epath_len.
  repeat (match goal with |- context [if ?x then _ else _] => destruct x end; try reflexivity).
Qed.
Lemma fc_message_ok d : okres (fc_message d).
Proof.
  unfold fc_message, bind, epath_len.
  repeat (match goal with |- context [if ?x then _ else _] => destruct x end; try reflexivity).
Qed.

Lemma drv_forward_open_good cfg0 flt s : Good cfg0 s -> spec_soft cfg0 s (drv_forward_open h flt s).
Proof.
  intros G. unfold spec_soft, drv_forward_open. destruct s as [w d].
  destruct (d_tconn d); [cbn [fst snd]; split; [exact G |]; split; [apply soft_refl | reflexivity] |].
  destruct (d_session d =? 0) eqn:Es; [cbn [fst snd]; split; [exact G |]; split; [apply soft_refl | reflexivity] |].
  pose proof (fo_message_ok d) as Hm. destruct (fo_message d) as [msg | e];
    [| cbn [fst snd]; split; [exact G |]; split; [apply soft_refl | exact Hm]].
  pose proof (generic_unconnected_good cfg0 flt (w, d) msg G) as (G1 & I1 & R1 & K1). cbv zeta in *.
  destruct (generic_unconnected h flt (w, d) msg) as [s1 r1]. cbn [fst snd] in *.
  destruct r1 as [[truthy value] | e]; [| cbn [fst snd]; split; [exact G1 |]; split; [apply io_soft; exact I1 | exact R1]].
  destruct truthy; cbn [fst snd].
  2: { split; [exact G1 |]. split; [apply io_soft; exact I1 | reflexivity]. }
  assert (soft (w, d) (fst s1, set_tconn true (set_cid (Some (firstn 4 value)) (snd s1)))) as Hs.
  { destruct (K1 _ eq_refl) as [I2 I3]. cbn [fst snd] in I2, I3. left.
    cbn [fst snd set_tconn set_cid d_sock d_session d_opened d_tconn]. rewrite I2.
    split; [exact I3 |]. repeat (split; [reflexivity |]). intros _. right. lia. }
  split; [| split; [exact Hs | reflexivity]].
  eapply soft_good; [exact Hs | apply G1 | exact G].
Qed.

Lemma with_forward_open_good cfg0 flt s : Good cfg0 s -> spec_soft cfg0 s (with_forward_open h flt s).
Proof.
  intros G. unfold spec_soft, with_forward_open.
  destruct (d_tconn (snd s)); [cbn [fst snd]; split; [exact G |]; split; [apply soft_refl | reflexivity] |].
  pose proof (drv_forward_open_good cfg0 flt s G) as (G1 & S1 & R1).
  destruct (drv_forward_open h flt s) as [s1 r1]. cbn [fst snd] in *.
  destruct r1 as [[|] | e]; cbn [fst snd]; try (split; [exact G1 |]; split; [exact S1 |]; auto; reflexivity).
  destruct (d_ext (snd s1)); [| cbn [fst snd]; split; [exact G1 |]; split; [exact S1 | reflexivity]].
  set (s2 := (fst s1, set_fo_cfg FALLBACK_EXTENDED_FO FALLBACK_CONNECTION_SIZE (snd s1))).
  assert (soft s1 s2) as S12 by (apply soft_upd; try reflexivity; cbn; auto).
  assert (Good cfg0 s2) as G2 by (eapply soft_good; [exact S12 | apply G1 | exact G1]).
  pose proof (drv_forward_open_good cfg0 flt s2 G2) as (G3 & S3 & R3).
  destruct (drv_forward_open h flt s2) as [s3 r3]. cbn [fst snd] in *.
  assert (soft s s3) as S03 by exact (soft_trans _ _ _ S1 (soft_trans _ _ _ S12 S3)).
  destruct r3 as [[|] | e]; cbn [fst snd]; (split; [exact G3 |]); (split; [exact S03 |]); auto; reflexivity.
Qed.

Lemma connected_request_seq_good cfg0 flt s sq msg : Good cfg0 s ->
  let r := connected_request_seq h flt s sq msg in Good cfg0 (fst r) /\ io_only s (fst r) /\ okres (snd r).
Proof.
  intros G. cbv zeta. unfold connected_request_seq.
  pose proof (drv_send_good cfg0 flt s (ud_frame (d_session (snd s)) (d_cid (snd s)) sq msg) false G (ud_frame_ok _ _ _ _)) as (G1 & I1 & R1 & _).
  cbv zeta in *. destruct (drv_send h flt s _ false) as [s1 r1]. cbn [fst snd] in *.
  destruct r1 as [[raw |] | e]; cbn [fst snd]; (split; [exact G1 |]); (split; [exact I1 |]); auto;
    try apply classify_ok; reflexivity.
Qed.

Lemma draw_soft (s : st) : soft s (fst s, snd (draw (snd s))).
Proof. unfold draw. destruct (cycle_step SEQ_STOP SEQ_START (d_seq (snd s))). apply soft_upd; try reflexivity. cbn. auto. Qed.

Lemma connected_request_good cfg0 flt s msg : Good cfg0 s -> spec_soft cfg0 s (connected_request h flt s msg).
Proof.
  intros G. unfold spec_soft, connected_request. destruct s as [w d].
  pose proof (draw_soft (w, d)) as Sd. cbn [fst snd] in Sd.
  destruct (draw d) as [sq d1]. cbn [snd] in Sd.
  assert (Good cfg0 (w, d1)) as G0 by (eapply soft_good; [exact Sd | apply G | exact G]).
  pose proof (drv_send_good cfg0 flt (w, d1) (ud_frame (d_session d1) (d_cid d1) sq msg) false G0 (ud_frame_ok _ _ _ _)) as (G1 & I1 & R1 & _).
  cbv zeta in *. destruct (drv_send h flt (w, d1) _ false) as [s1 r1]. cbn [fst snd] in *.
  assert (soft (w, d) s1) as S1 by (eapply soft_trans; [exact Sd | apply io_soft; exact I1]).
  destruct r1 as [[raw |] | e]; cbn [fst snd]; (split; [exact G1 |]); (split; [exact S1 |]); auto;
    try apply classify_ok; reflexivity.
Qed.

Lemma generic_connected_good cfg0 flt s msg : Good cfg0 s -> spec_soft cfg0 s (generic_connected h flt s msg).
Proof.
  intros G. unfold spec_soft, generic_connected.
  pose proof (with_forward_open_good cfg0 flt s G) as (G1 & S1 & R1).
  destruct (with_forward_open h flt s) as [s1 r1]. cbn [fst snd] in *.
  destruct r1 as [u | e]; [| cbn [fst snd]; auto].
  pose proof (connected_request_good cfg0 flt s1 msg G1) as (G2 & S2 & R2).
  split; [exact G2 |]. split; [eapply soft_trans; eassumption | exact R2].
Qed.

Lemma connected_requests_good cfg0 flt items : forall s, Good cfg0 s -> spec_soft cfg0 s (connected_requests h flt s items).
Proof.
  induction items as [| [sq m] rest IH]; intros s G; unfold spec_soft; cbn [connected_requests].
  - cbn [fst snd]. split; [exact G |]. split; [apply soft_refl | reflexivity].
  - pose proof (connected_request_seq_good cfg0 flt s sq m G) as (G1 & I1 & R1). cbv zeta in *.
    destruct (connected_request_seq h flt s sq m) as [s1 r1]. cbn [fst snd] in *.
    destruct r1 as [[b v] | e]; [| cbn [fst snd]; split; [exact G1 |]; split; [apply io_soft; exact I1 | exact R1]].
    destruct (IH s1 G1) as (G2 & S2 & R2).
    destruct (connected_requests h flt s1 rest) as [s2 r2]. cbn [fst snd] in *.
    assert (soft s s2) as S02 by (eapply soft_trans; [apply io_soft; exact I1 | exact S2]).
    destruct r2 as [l | e]; cbn [fst snd]; (split; [exact G2 |]); (split; [exact S02 |]); auto; reflexivity.
Qed.

Lemma connected_call_good cfg0 flt s items sa : Good cfg0 s -> spec_soft cfg0 s (connected_call h flt s items sa).
Proof.
  intros G. unfold spec_soft, connected_call.
  pose proof (with_forward_open_good cfg0 flt s G) as (G1 & S1 & R1).
  destruct (with_forward_open h flt s) as [s1 r1]. cbn [fst snd] in *.
  destruct r1 as [u | e]; [| cbn [fst snd]; auto].
  set (s1' := (fst s1, set_seq sa (snd s1))).
  assert (soft s1 s1') as S11 by (apply soft_upd; try reflexivity; cbn; auto).
  assert (Good cfg0 s1') as G1' by (eapply soft_good; [exact S11 | apply G1 | exact G1]).
  destruct (connected_requests_good cfg0 flt items s1' G1') as (G2 & S2 & R2).
  split; [exact G2 |]. split; [| exact R2].
  exact (soft_trans _ _ _ S1 (soft_trans _ _ _ S11 S2)).
Qed.

Lemma drv_register_session_good cfg0 flt s : Good cfg0 s -> d_opened (snd s) = true ->
  let r := drv_register_session h flt s in Good cfg0 (fst r) /\ okres (snd r).
Proof.
  intros G Ho. cbv zeta. unfold drv_register_session. destruct s as [w d]. cbn [snd] in Ho.
  destruct (negb (d_session d =? 0)) eqn:Es.
  { cbn [fst snd]. split; [exact G | reflexivity]. }
  pose proof (drv_send_good cfg0 flt (w, d) (register_frame (d_session d)) false G (proj1 (simple_frames_ok _))) as (G1 & I1 & R1 & K1).
  cbv zeta in *. destruct (drv_send h flt (w, d) (register_frame (d_session d)) false) as [s1 r1]. cbn [fst snd] in *.
  destruct r1 as [[raw |] | e]; cbn [fst snd]; try (split; [exact G1 |]; first [exact R1 | reflexivity]).
  destruct (register_valid raw); cbn [fst snd]; [| split; [exact G1 | reflexivity]].
  split; [| reflexivity].
  destruct (K1 _ eq_refl) as [I2 I3]. cbn [fst snd] in I2, I3.
  destruct G1 as [W1 [D1 D2 D3]]. rewrite I2 in *. split; [exact W1 |].
  split; cbn [fst snd set_session d_sock d_tconn d_session d_opened]; auto.
  intros Ht. exfalso. apply (D2 Ht). lia.
Qed.

Lemma cip_open_good cfg0 flt s : Good cfg0 s -> let r := cip_open h flt s in Good cfg0 (fst r) /\ okres (snd r).
Proof.
  intros G. cbv zeta. unfold cip_open. destruct s as [w d].
  destruct (d_opened d) eqn:Eo; [cbn [fst snd]; split; [exact G | reflexivity] |].
  destruct G as [W [D1 D2 D3]]. cbn [fst snd] in *.
  pose proof (sock_connect_w cfg0 flt w W) as W1.
  destruct (sock_connect flt w) as [w1 rc]. cbn [fst] in W1.
  assert (DGood (w1, set_sock true d)) as DG1.
  { split; cbn [fst snd set_sock d_sock d_tconn d_session d_opened]; auto. intros; discriminate. }
  destruct rc as [u | e]; [| cbn [fst snd]; split; [split; assumption | reflexivity]].
  pose proof (urandom_w cfg0 w1 W1) as (W2 & O2 & _). destruct (urandom w1) as [c w2]. cbn [snd] in *.
  pose proof (urandom_w cfg0 w2 W2) as (W3 & O3 & _). destruct (urandom w2) as [v w3]. cbn [snd] in *.
  set (d1 := set_ids c v (set_opened true (set_sock true d))).
  assert (Good cfg0 (w3, d1)) as G3.
  { split; [exact W3 |]. split; cbn [fst snd d1 set_ids set_opened set_sock d_sock d_tconn d_session d_opened]; auto.
    intros; discriminate. }
  pose proof (drv_register_session_good cfg0 flt (w3, d1) G3 eq_refl) as (G4 & R4). cbv zeta in *.
  destruct (drv_register_session h flt (w3, d1)) as [s2 r]. cbn [fst snd] in *.
  destruct r as [[z |] | e]; cbn [fst snd]; split; auto; reflexivity.
Qed.

Lemma plc_info_message_ok d m : okres (plc_info_message d m).
Proof.
  unfold plc_info_message, bind, epath_len, wrap_unconnected_send.
  repeat (match goal with |- context [if ?x then _ else _] => destruct x end; try reflexivity).
Qed.

Lemma get_plc_info_good cfg0 flt s : Good cfg0 s ->
  let r := get_plc_info h flt s in Good cfg0 (fst r) /\ io_only s (fst r) /\ okres (snd r).
Proof.
  intros G. cbv zeta. unfold get_plc_info.
  destruct (plc_info_message (snd s) (d_micro (snd s))) as [msg | e];
    [| cbn [fst snd]; split; [exact G |]; split; [apply io_only_refl | reflexivity]].
  pose proof (drv_send_good cfg0 flt s (rr_frame (d_session (snd s)) msg) false G (rr_frame_ok _ _)) as (G1 & I1 & R1 & _).
  cbv zeta in *. destruct (drv_send h flt s (rr_frame (d_session (snd s)) msg) false) as [s1 r1]. cbn [fst snd] in *.
  destruct r1 as [[raw |] | e]; cbn [fst snd]; (split; [exact G1 |]); (split; [exact I1 |]); try reflexivity.
  destruct (Identity.get_plc_info raw); reflexivity.
Qed.

Lemma get_plc_name_good cfg0 flt s : Good cfg0 s -> spec_soft cfg0 s (get_plc_name h flt s).
Proof.
  intros G. unfold spec_soft, get_plc_name.
  pose proof (with_forward_open_good cfg0 flt s G) as (G1 & S1 & R1).
  destruct (with_forward_open h flt s) as [s1 r1]. cbn [fst snd] in *.
  destruct r1 as [u | e]; [| cbn [fst snd]; auto].
  pose proof (connected_request_good cfg0 flt s1 PLC_NAME_MSG G1) as (G2 & S2 & R2).
  destruct (connected_request h flt s1 PLC_NAME_MSG) as [s2 r2]. cbn [fst snd] in *.
  assert (soft s s2) as S02 by (eapply soft_trans; eassumption).
  destruct r2 as [[[|] data] | e]; cbn [fst snd]; (split; [exact G2 |]); (split; [exact S02 |]); try reflexivity.
  destruct (string_decodes data); reflexivity.
Qed.

Lemma initialize_driver_good cfg0 flt s : Good cfg0 s -> spec_soft cfg0 s (initialize_driver h flt s).
Proof.
  intros G. unfold spec_soft, initialize_driver.
  pose proof (drv_send_good cfg0 flt s (list_identity_frame (d_session (snd s))) false G (proj2 (proj2 (simple_frames_ok _)))) as (G1 & I1 & R1 & _).
  cbv zeta in *. destruct (drv_send h flt s (list_identity_frame (d_session (snd s))) false) as [s1 r1]. cbn [fst snd] in *.
  destruct r1 as [reply | e]; [| cbn [fst snd]; split; [exact G1 |]; split; [apply io_soft; exact I1 | exact R1]].
  set (micro := match reply with Some raw => starts_with MICRO800_PREFIX (product_name_of raw) | None => false end).
  set (s2 := (fst s1, set_micro micro (snd s1))).
  assert (soft s1 s2) as S12 by (apply soft_upd; try reflexivity; cbn; auto).
  assert (Good cfg0 s2) as G2 by (eapply soft_good; [exact S12 | apply G1 | exact G1]).
  pose proof (get_plc_info_good cfg0 flt s2 G2) as (G3 & I3 & R3). cbv zeta in *.
  destruct (get_plc_info h flt s2) as [s3 r3]. cbn [fst snd] in *.
  assert (soft s s3) as S03 by exact (soft_trans _ _ _ (io_soft _ _ I1) (soft_trans _ _ _ S12 (io_soft _ _ I3))).
  destruct r3 as [u | e]; [| cbn [fst snd]; auto].
  assert (exists s4 r4, (if micro then (s3, Ok tt) else get_plc_name h flt s3) = (s4, r4)
                        /\ Good cfg0 s4 /\ soft s3 s4 /\ okres r4) as (s4 & r4 & E4 & G4 & S4 & R4).
  { destruct micro.
    - exists s3, (Ok tt). split; [reflexivity |]. split; [exact G3 |]. split; [apply soft_refl | reflexivity].
    - pose proof (get_plc_name_good cfg0 flt s3 G3) as (Ga & Sa & Ra).
      destruct (get_plc_name h flt s3) as [sa ra]. exists sa, ra. auto. }
  rewrite E4. destruct r4 as [u4 | e]; [| cbn [fst snd]; split; [exact G4 |]; split; [eapply soft_trans; eassumption | exact R4]].
  cbn [fst snd].
  set (s5 := (fst s4, if micro then set_route (removelast (d_route (snd s4))) (snd s4) else snd s4)).
  assert (soft s4 s5) as S45 by (apply soft_upd; destruct micro; try reflexivity; cbn; auto).
  split; [eapply soft_good; [exact S45 | apply G4 | exact G4] |].
  split; [| reflexivity]. exact (soft_trans _ _ _ S03 (soft_trans _ _ _ S4 S45)).
Qed.

Lemma drv_open_good cfg0 logix flt s : Good cfg0 s -> let r := drv_open h logix flt s in Good cfg0 (fst r) /\ okres (snd r).
Proof.
  intros G. cbv zeta. unfold drv_open. destruct logix; [| apply cip_open_good; exact G].
  unfold logix_open. pose proof (cip_open_good cfg0 flt s G) as (G1 & R1). cbv zeta in *.
  destruct (cip_open h flt s) as [s1 r1]. cbn [fst snd] in *.
  destruct r1 as [[|] | e]; cbn [fst snd]; auto.
  pose proof (initialize_driver_good cfg0 flt s1 G1) as (G2 & _ & R2).
  destruct (initialize_driver h flt s1) as [s2 r2]. cbn [fst snd] in *.
  destruct r2; cbn [fst snd]; split; auto; reflexivity.
Qed.

Lemma drv_forward_close_good cfg0 flt s : Good cfg0 s -> spec_soft cfg0 s (drv_forward_close h flt s).
Proof.
  intros G. unfold spec_soft, drv_forward_close. destruct s as [w d].
  destruct (d_session d =? 0); [cbn [fst snd]; split; [exact G |]; split; [apply soft_refl | reflexivity] |].
  pose proof (fc_message_ok d) as Hm. destruct (fc_message d) as [msg | e];
    [| cbn [fst snd]; split; [exact G |]; split; [apply soft_refl | exact Hm]].
  pose proof (generic_unconnected_good cfg0 flt (w, d) msg G) as (G1 & I1 & R1 & _). cbv zeta in *.
  destruct (generic_unconnected h flt (w, d) msg) as [s1 r1]. cbn [fst snd] in *.
  destruct r1 as [[truthy value] | e]; [| cbn [fst snd]; split; [exact G1 |]; split; [apply io_soft; exact I1 | exact R1]].
  destruct truthy; cbn [fst snd].
  2: { split; [exact G1 |]. split; [apply io_soft; exact I1 | reflexivity]. }
  assert (soft s1 (fst s1, set_tconn false (snd s1))) as Hs by (apply soft_upd; try reflexivity; cbn; intros; discriminate).
  split; [eapply soft_good; [exact Hs | apply G1 | exact G1] |].
  split; [eapply soft_trans; [apply io_soft; exact I1 | exact Hs] | reflexivity].
Qed.

Lemma drv_un_register_session_good cfg0 flt s : Good cfg0 s ->
  let r := drv_un_register_session h flt s in Good cfg0 (fst r) /\ io_only s (fst r) /\ okres (snd r).
Proof.
  intros G. cbv zeta. unfold drv_un_register_session.
  pose proof (drv_send_good cfg0 flt s (unregister_frame (d_session (snd s))) true G (proj1 (proj2 (simple_frames_ok _)))) as (G1 & I1 & R1 & _).
  cbv zeta in *. destruct (drv_send h flt s (unregister_frame (d_session (snd s))) true) as [s1 r1]. cbn [fst snd] in *.
  destruct r1; cbn [fst snd]; auto.
Qed.

(* CIPDriver.close: whatever happened before and whatever fails inside, the driver is reset and
   the target holds nothing *)
Definition closed_state (s : st) : Prop :=
  d_sock (snd s) = false /\ d_session (snd s) = 0 /\ d_opened (snd s) = false /\ d_tconn (snd s) = false
  /\ w_open (fst s) = false /\ t_sessions (w_t (fst s)) = [] /\ t_conns (w_t (fst s)) = [].

Lemma drv_close_good cfg0 flt s : Good cfg0 s ->
  let r := drv_close h flt s in Good cfg0 (fst r) /\ okres (snd r) /\ closed_state (fst r).
Proof.
  intros G. cbv zeta. unfold drv_close.
  (* forward close *)
  assert (exists s1 r1, (if d_tconn (snd s)
                         then let (sa, ra) := drv_forward_close h flt s in (sa, match ra with Err e => Err e | Ok _ => Ok tt end)
                         else (s, Ok tt)) = (s1, r1) /\ Good cfg0 s1 /\ soft s s1) as (s1 & r1 & E1 & G1 & S1).
  { destruct (d_tconn (snd s)).
    - pose proof (drv_forward_close_good cfg0 flt s G) as (Ga & Sa & _).
      destruct (drv_forward_close h flt s) as [sa ra]. eexists. eexists. split; [reflexivity |]. auto.
    - exists s, (Ok tt). split; [reflexivity |]. split; [exact G | apply soft_refl]. }
  rewrite E1.
  (* unregister *)
  assert (exists s2 r2, match r1 with
                        | Err e => (s1, Err e)
                        | Ok _ => if negb (d_session (snd s1) =? 0) then drv_un_register_session h flt s1 else (s1, Ok tt)
                        end = (s2, r2) /\ Good cfg0 s2) as (s2 & r2 & E2 & G2).
  { destruct r1 as [u | e]; [| eexists; eexists; split; [reflexivity | exact G1]].
    destruct (negb (d_session (snd s1) =? 0)); [| eexists; eexists; split; [reflexivity | exact G1]].
    pose proof (drv_un_register_session_good cfg0 flt s1 G1) as (Ga & _). cbv zeta in Ga.
    destruct (drv_un_register_session h flt s1) as [sa ra]. eexists. eexists. split; [reflexivity | exact Ga]. }
  rewrite E2.
  (* socket close *)
  assert (exists s3 r3, (if d_sock (snd s2) then let (w', rc) := sock_close flt (fst s2) in ((w', snd s2), rc) else (s2, Ok tt)) = (s3, r3)
                        /\ WGood cfg0 (fst s3) /\ w_open (fst s3) = false
                        /\ t_sessions (w_t (fst s3)) = [] /\ t_conns (w_t (fst s3)) = []) as (s3 & r3 & E3 & W3 & O3 & T3 & C3).
  { destruct G2 as [W2 [D1 D2 D3]]. destruct (d_sock (snd s2)) eqn:Es.
    - pose proof (sock_close_w cfg0 flt (fst s2) W2) as (Wa & Oa & Ta & Ca & _).
      destruct (sock_close flt (fst s2)) as [w' rc]. cbn [fst] in *.
      eexists. eexists. split; [reflexivity |]. cbn [fst].
      split; [exact Wa |]. split; [exact Oa |]. split; [exact Ta | exact Ca].
    - eexists. eexists. split; [reflexivity |]. specialize (D1 eq_refl).
      destruct (wg_closed _ _ W2 D1) as [Ta Ca].
      split; [exact W2 |]. split; [exact D1 |]. split; [exact Ta | exact Ca]. }
  rewrite E3.
  assert (Good cfg0 (fst s3, reset_driver (snd s3)) /\ closed_state (fst s3, reset_driver (snd s3))) as [G4 C4].
  { split.
    - split; [exact W3 |]. split; cbn [fst snd reset_driver set_opened set_session set_tconn set_sock d_sock d_tconn d_session d_opened];
        intros; try discriminate; auto; exfalso; auto.
    - unfold closed_state. cbn [fst snd reset_driver set_opened set_session set_tconn set_sock d_sock d_tconn d_session d_opened].
      auto 10. }
  destruct r2, r3; cbn [fst snd]; (split; [exact G4 |]); (split; [reflexivity | exact C4]).
Qed.

(* ================================================================ operations and histories *)
Definition lib_outcome (o : outcome) : Prop := match o with OErr e => is_foreign e = false | _ => True end.
Lemma lib_of_res {A} (r : res A) (f : A -> outcome) :
  okres r -> (forall a, lib_outcome (f a)) -> lib_outcome (match r with Ok a => f a | Err e => OErr e end).
Proof. intros H Hf. destruct r as [a | e]; [apply Hf |]. unfold okres in H. cbn in *. destruct e; cbn in *; congruence. Qed.

Lemma exec_sop_good cfg0 logix flt s o : Good cfg0 s ->
  let r := exec_sop h logix flt s o in
  Good cfg0 (fst r) /\ lib_outcome (snd r) /\ (o = Close -> closed_state (fst r)).
Proof.
  intros G. cbv zeta. destruct o as [| | m | m | items sa]; cbn [exec_sop].
  - pose proof (drv_open_good cfg0 logix flt s G) as (G1 & R1). cbv zeta in *.
    destruct (drv_open h logix flt s) as [s1 r1]. cbn [fst snd] in *.
    split; [exact G1 |]. split; [| discriminate]. apply lib_of_res; [exact R1 | intros; exact I].
  - pose proof (drv_close_good cfg0 flt s G) as (G1 & R1 & C1). cbv zeta in *.
    destruct (drv_close h flt s) as [s1 r1]. cbn [fst snd] in *.
    split; [exact G1 |]. split; [| intros _; exact C1]. apply lib_of_res; [exact R1 | intros; exact I].
  - pose proof (generic_connected_good cfg0 flt s m G) as (G1 & _ & R1).
    destruct (generic_connected h flt s m) as [s1 r1]. cbn [fst snd] in *.
    split; [exact G1 |]. split; [| discriminate]. apply lib_of_res; [exact R1 | intros [b v]; exact I].
  - pose proof (generic_unconnected_good cfg0 flt s m G) as (G1 & _ & R1 & _). cbv zeta in *.
    destruct (generic_unconnected h flt s m) as [s1 r1]. cbn [fst snd] in *.
    split; [exact G1 |]. split; [| discriminate]. apply lib_of_res; [exact R1 | intros [b v]; exact I].
  - pose proof (connected_call_good cfg0 flt s items sa G) as (G1 & _ & R1).
    destruct (connected_call h flt s items sa) as [s1 r1]. cbn [fst snd] in *.
    split; [exact G1 |]. split; [| discriminate]. apply lib_of_res; [exact R1 | intros; exact I].
Qed.

Definition obs_ok (cfg0 : tcfg) (o : obs (S := S)) : Prop := Good cfg0 (o_state o) /\ lib_outcome (o_out o).

Lemma exec_body_good cfg0 logix flt body : forall s, Good cfg0 s ->
  let r := exec_body h logix flt s body in
  Good cfg0 (fst (fst r)) /\ Forall (obs_ok cfg0) (snd (fst r))
  /\ (forall e, snd r = Some e -> is_foreign e = false).
Proof.
  induction body as [| o rest IH]; intros s G; cbv zeta; cbn [exec_body].
  - cbn [fst snd]. split; [exact G |]. split; [constructor | discriminate].
  - pose proof (exec_sop_good cfg0 logix flt s o G) as (G1 & L1 & _). cbv zeta in *.
    destruct (exec_sop h logix flt s o) as [s1 out]. cbn [fst snd] in *.
    assert (obs_ok cfg0 (mkObs out s1)) as Ho by (split; assumption).
    specialize (IH s1 G1). cbv zeta in IH.
    destruct (exec_body h logix flt s1 rest) as [[s2 l] e]. cbn [fst snd] in *.
    destruct IH as (G2 & F2 & E2).
    destruct out; cbn [fst snd]; try (split; [exact G2 |]; split; [constructor; assumption | exact E2]).
    split; [exact G1 |]. split; [constructor; [exact Ho | constructor] |].
    intros e' H. inversion H; subst. exact L1.
Qed.

Lemma Forall_app_intro {A} (P : A -> Prop) l1 l2 : Forall P l1 -> Forall P l2 -> Forall P (l1 ++ l2).
Proof. intros H1 H2. apply Forall_app. split; assumption. Qed.

Lemma exec_op_good cfg0 logix flt s o : Good cfg0 s ->
  let r := exec_op h logix flt s o in Good cfg0 (fst r) /\ Forall (obs_ok cfg0) (snd r).
Proof.
  intros G. cbv zeta. destruct o as [so | body raises]; cbn [exec_op].
  - pose proof (exec_sop_good cfg0 logix flt s so G) as (G1 & L1 & _). cbv zeta in *.
    destruct (exec_sop h logix flt s so) as [s1 out]. cbn [fst snd] in *.
    split; [exact G1 |]. constructor; [split; assumption | constructor].
  - pose proof (drv_open_good cfg0 logix flt s G) as (G1 & R1). cbv zeta in *.
    destruct (drv_open h logix flt s) as [s1 r1]. cbn [fst snd] in *.
    destruct r1 as [b | e].
    2: { cbn [fst snd]. split; [exact G1 |]. constructor; [| constructor]. split; [exact G1 |].
         unfold okres in R1. cbn in *. destruct (is_foreign e); [discriminate | reflexivity]. }
    pose proof (exec_body_good cfg0 logix flt body s1 G1) as (G2 & F2 & E2). cbv zeta in *.
    destruct (exec_body h logix flt s1 body) as [[s2 l] e]. cbn [fst snd] in *.
    pose proof (drv_close_good cfg0 flt s2 G2) as (G3 & _ & _). cbv zeta in *.
    destruct (drv_close h flt s2) as [s3 r3]. cbn [fst snd] in *.
    split; [exact G3 |]. apply Forall_app_intro; [exact F2 |]. constructor; [| constructor].
    split; [exact G3 |]. cbn [o_out]. destruct e as [ex |]; [apply E2; reflexivity |]. destruct raises; exact I.
Qed.

Lemma run_ops_good cfg0 logix flt ops : forall s, Good cfg0 s ->
  let r := run_ops h logix flt s ops in Good cfg0 (fst r) /\ Forall (obs_ok cfg0) (snd r).
Proof.
  induction ops as [| o rest IH]; intros s G; cbv zeta; cbn [run_ops].
  - split; [exact G | constructor].
  - pose proof (exec_op_good cfg0 logix flt s o G) as (G1 & F1). cbv zeta in *.
    destruct (exec_op h logix flt s o) as [s1 l1]. cbn [fst snd] in *.
    specialize (IH s1 G1). cbv zeta in IH.
    destruct (run_ops h logix flt s1 rest) as [s2 l2]. cbn [fst snd] in *.
    split; [apply IH |]. apply Forall_app_intro; [exact F1 | apply IH].
Qed.

Lemma run_ops_app logix flt a b s :
  run_ops h logix flt s (a ++ b) =
  let (s1, l1) := run_ops h logix flt s a in let (s2, l2) := run_ops h logix flt s1 b in (s2, l1 ++ l2).
Proof.
  revert s. induction a as [| o rest IH]; intros s; cbn [run_ops app].
  - destruct (run_ops h logix flt s b). reflexivity.
  - destruct (exec_op h logix flt s o) as [s1 l1]. rewrite IH.
    destruct (run_ops h logix flt s1 rest) as [s2 l2]. destruct (run_ops h logix flt s2 b) as [s3 l3].
    rewrite app_assoc. reflexivity.
Qed.
End World.

(* the start of every run is good *)
Lemma start_good {S} (h : handler S) (app : S) cfg inj rands route : inj_ok inj ->
  Good h cfg (init_world (start_target cfg inj app) rands, init_dstate route).
Proof.
  intros Hinj. split.
  - split; cbn; auto.
  - split; cbn; auto; intros H; try discriminate; exfalso; apply H; reflexivity.
Qed.
