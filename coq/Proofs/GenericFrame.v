(* Proofs/GenericFrame.v — the frames Model/Generic.v builds are the spec-side builders of
   Spec/EncapParser.v / Spec/MRParser.v applied to the same fields, and the spec parsers read them
   back (frame layer, message-router envelope, Unconnected Send wrapper with its pad byte). *)
From Coq Require Import String ZifyBool.
From PV Require Import Base.Bytes Base.BytesLemmas Base.Res Base.Proto Base.PyStr.
From PV Require Import Gen.PathTables Gen.Consts Gen.Tables Gen.GenericFacts Model.EnumMapDefs Model.Path Model.Generic.
From PV Require Import Spec.EncapParser Spec.MRParser Spec.TargetIface Proofs.TargetCoreP Proofs.GenericPath.
Open Scope Z_scope.
Ltac Zify.zify_post_hook ::= Z.to_euclidean_division_equations.

(* ---------------------------------------------------------------- regenerated members *)
Lemma cmd_unit : enc_command "send_unit_data" = Ok [112; 0]. Proof. reflexivity. Qed.
Lemma cmd_rr : enc_command "send_rr_data" = Ok [111; 0]. Proof. reflexivity. Qed.
Lemma addr_connection : member tbl_AddressItem "connection" = Ok [161; 0]. Proof. reflexivity. Qed.
Lemma addr_uccm : member tbl_AddressItem "uccm" = Ok [0; 0]. Proof. reflexivity. Qed.
Lemma item_connected : member tbl_DataItem "connected" = Ok [177; 0]. Proof. reflexivity. Qed.
Lemma item_unconnected : member tbl_DataItem "unconnected" = Ok [178; 0]. Proof. reflexivity. Qed.
Lemma packet_timeout_v : packet_timeout = [10; 0]. Proof. reflexivity. Qed.
Lemma driver_option_v : driver_option = 0. Proof. reflexivity. Qed.
Lemma ucsend_path_v : request_path (LBytes ucsend_class) (lval_of ucsend_instance) None = Ok [2; 32; 6; 36; 1].
Proof. reflexivity. Qed.

Lemma uint16_ok z : 0 <= z < 65536 -> UINT_encode z = Ok (le_enc 2 z).
Proof. intros H. unfold UINT_encode. apply uint_encode_ok. rewrite pow256_2. lia. Qed.
Lemma uint32_ok z : 0 <= z < 4294967296 -> UDINT_encode z = Ok (le_enc 4 z).
Proof. intros H. unfold UDINT_encode. apply uint_encode_ok. rewrite pow256_4. lia. Qed.

(* ---------------------------------------------------------------- the driver fields a frame needs *)
Definition drv_ok (d : drv) : bool :=
  (0 <=? d_session d) && (d_session d <? 4294967296)
  && bytes_ok (d_context d) && (blen (d_context d) =? 8)
  && (d_option d =? driver_option)
  && bytes_ok (d_cid d) && (blen (d_cid d) =? 4).

(* ---------------------------------------------------------------- build_request = mk_frame *)
Lemma build_request_unit d msg :
  drv_ok d = true -> 2 <= blen msg < 65000 ->
  build_request [112; 0] [161; 0] [177; 0] (Some (d_cid d)) d msg
  = Ok (mk_frame {| f_cmd := 112; f_session := d_session d; f_context := d_context d;
                    f_body := BCpf 10 (AddrConn (le_dec (d_cid d))) 177 msg |}).
Proof.
  intros Hd Hm. unfold drv_ok in Hd. rewrite driver_option_v in Hd.
  repeat (apply andb_prop in Hd as [Hd ?]).
  unfold build_request, common_packet_format. change (len (d_cid d)) with (blen (d_cid d)).
  rewrite uint16_ok by lia. cbn [bind]. change (len msg) with (blen msg). rewrite uint16_ok by lia. cbn [bind].
  rewrite packet_timeout_v.
  set (common := [0; 0; 0; 0] ++ [10; 0] ++ [2; 0] ++ [161; 0] ++ (le_enc 2 (blen (d_cid d)) ++ d_cid d) ++ [177; 0] ++ le_enc 2 (blen msg) ++ msg).
  assert (Hc : blen common = 20 + blen msg).
  { unfold common. rewrite !blen_app, !blen_le_enc, !blen_cons, !blen_nil. lia. }
  unfold build_header. change (len common) with (blen common).
  rewrite uint16_ok by lia. rewrite uint32_ok by lia. replace (d_option d) with 0 by lia. rewrite uint32_ok by lia.
  cbn [bind wrap_all]. f_equal.
  unfold mk_frame, mk_header. cbn [f_cmd f_session f_context f_body body_bytes].
  assert (Hb : mk_cpf 10 (AddrConn (le_dec (d_cid d))) 177 msg = common).
  { unfold mk_cpf, common, addr_bytes. replace (blen (d_cid d)) with 4 by lia.
    assert (Hcid : le_enc 4 (le_dec (d_cid d)) = d_cid d).
    { replace 4%nat with (List.length (d_cid d)) by (unfold blen in *; lia). apply le_enc_dec. assumption. }
    rewrite Hcid. reflexivity. }
  rewrite Hb. rewrite <- !app_assoc. reflexivity.
Qed.

Lemma build_request_rr d msg :
  drv_ok d = true -> 0 <= blen msg < 65000 ->
  build_request [111; 0] [0; 0] [178; 0] None d msg
  = Ok (mk_frame {| f_cmd := 111; f_session := d_session d; f_context := d_context d;
                    f_body := BCpf 10 AddrNull 178 msg |}).
Proof.
  intros Hd Hm. unfold drv_ok in Hd. rewrite driver_option_v in Hd.
  repeat (apply andb_prop in Hd as [Hd ?]).
  unfold build_request, common_packet_format. cbn [bind]. change (len msg) with (blen msg). rewrite uint16_ok by lia. cbn [bind].
  rewrite packet_timeout_v.
  set (common := [0; 0; 0; 0] ++ [10; 0] ++ [2; 0] ++ [0; 0] ++ [0; 0] ++ [178; 0] ++ le_enc 2 (blen msg) ++ msg).
  assert (Hc : blen common = 16 + blen msg).
  { unfold common. rewrite !blen_app, !blen_le_enc, !blen_cons, !blen_nil. lia. }
  unfold build_header. change (len common) with (blen common).
  rewrite uint16_ok by lia. rewrite uint32_ok by lia. replace (d_option d) with 0 by lia. rewrite uint32_ok by lia.
  cbn [bind wrap_all]. reflexivity.
Qed.

Lemma frame_wf_unit d msg :
  drv_ok d = true -> bytes_ok msg = true -> 2 <= blen msg < 65000 ->
  frame_wf {| f_cmd := 112; f_session := d_session d; f_context := d_context d;
              f_body := BCpf 10 (AddrConn (le_dec (d_cid d))) 177 msg |} = true.
Proof.
  intros Hd Ho Hm. unfold drv_ok in Hd. repeat (apply andb_prop in Hd as [Hd ?]).
  assert (Hr : 0 <= le_dec (d_cid d) < pow256 (List.length (d_cid d))) by (apply le_dec_range; assumption).
  replace (List.length (d_cid d)) with 4%nat in Hr by (unfold blen in *; lia). rewrite pow256_4 in Hr.
  unfold frame_wf, body_wf. cbn [f_cmd f_session f_context f_body].
  unfold CMD_UNITDATA, ITEM_CONN_DATA. rewrite Ho, H3. lia.
Qed.

Lemma frame_wf_rr d msg :
  drv_ok d = true -> bytes_ok msg = true -> 0 <= blen msg < 65000 ->
  frame_wf {| f_cmd := 111; f_session := d_session d; f_context := d_context d;
              f_body := BCpf 10 AddrNull 178 msg |} = true.
Proof.
  intros Hd Ho Hm. unfold drv_ok in Hd. repeat (apply andb_prop in Hd as [Hd ?]).
  unfold frame_wf, body_wf. cbn [f_cmd f_session f_context f_body].
  unfold CMD_RRDATA, ITEM_UNCONN_DATA. rewrite Ho, H3. lia.
Qed.

(* ---------------------------------------------------------------- message-router envelope *)
Lemma parse_mr_built svc p data :
  0 <= svc < 128 -> Z.even (blen p) = true -> blen p < 512 ->
  parse_mr (svc :: (blen p / 2) :: p ++ data) = RcOk {| mr_service := svc; mr_path := p; mr_data := data |}.
Proof.
  intros Hs He Hl.
  apply (parse_mk_mr {| mr_service := svc; mr_path := p; mr_data := data |}).
  unfold mr_wf. cbn [mr_service mr_path]. rewrite He. lia.
Qed.

(* ---------------------------------------------------------------- Unconnected Send wrapper *)
Lemma ucsend_parts_eval rp m r :
  map (ucsend_part rp m r) ucsend_parts
  = [member tbl_ConnectionManagerServices "unconnected_send"; Ok rp; Ok PRIORITY; Ok TIMEOUT_TICKS;
     UINT_encode (len m); Ok m; Ok (if Z.odd (len m) then [0] else []);
     Ok (match r with [] => ucsend_empty_route | _ => r end)].
Proof. reflexivity. Qed.

Lemma ucsend_service_v : member tbl_ConnectionManagerServices "unconnected_send" = Ok [82]. Proof. reflexivity. Qed.

(* wrap_unconnected_send = the Unconnected Send request to the connection manager whose data is the
   spec-side [mk_ucsend] — when the route carries its size byte and pad: (words, 0, route path) *)
Lemma wrap_unconnected_send_spec emb rb :
  blen emb < 65536 ->
  wrap_unconnected_send emb ((blen rb / 2) :: 0 :: rb)
  = Ok (82 :: (blen [32; 6; 36; 1] / 2) :: [32; 6; 36; 1] ++ mk_ucsend 10 5 emb rb).
Proof.
  intros Hl. unfold wrap_unconnected_send. rewrite ucsend_path_v. cbn [bind].
  rewrite ucsend_parts_eval, ucsend_service_v. change (len emb) with (blen emb).
  pose proof (blen_nonneg emb). rewrite uint16_ok by lia.
  cbn [concat_res bind]. f_equal. unfold mk_ucsend.
  change PRIORITY with [10]. change TIMEOUT_TICKS with [5].
  cbn [app]. rewrite app_nil_r. reflexivity.
Qed.

(* an Unconnected Send WITHOUT a route carries an EMPTY route path: size 0, reserved 0 *)
Lemma wrap_unconnected_send_noroute emb :
  blen emb < 65536 ->
  wrap_unconnected_send emb []
  = Ok (82 :: (blen [32; 6; 36; 1] / 2) :: [32; 6; 36; 1] ++ mk_ucsend 10 5 emb []).
Proof.
  intros Hl. unfold wrap_unconnected_send. rewrite ucsend_path_v. cbn [bind].
  rewrite ucsend_parts_eval, ucsend_service_v. change (len emb) with (blen emb).
  pose proof (blen_nonneg emb). rewrite uint16_ok by lia.
  cbn [concat_res bind]. reflexivity.
Qed.

Lemma takez_exact a b n : n = blen a -> takez n (a ++ b) = Some (a, b).
Proof. intros ->. apply takez_app. Qed.

Lemma u16_le_enc z r : 0 <= z < 65536 -> exists l0 l1, le_enc 2 z ++ r = l0 :: l1 :: r /\ u16 l0 l1 = z.
Proof. intros H. exists (z mod 256), ((z / 256) mod 256). split; [reflexivity | apply u16_enc; assumption]. Qed.

(* the spec-side Unconnected Send unwrapper reads the wrapper back: embedded length, the pad byte
   exactly when that length is odd (case analysis on the parity), route words, reserved byte, route *)
Theorem parse_mk_ucsend pr tk emb rb rq :
  blen emb < 65536 -> Z.even (blen rb) = true -> blen rb < 512 -> route_ok rb = true ->
  parse_mr emb = RcOk rq ->
  parse_ucsend (mk_ucsend pr tk emb rb)
  = RcOk {| us_priority := pr; us_ticks := tk; us_embedded := emb; us_request := rq; us_route := rb |}.
Proof.
  intros Hl He Hr Hok Hrq. pose proof (blen_nonneg emb) as Hn. pose proof (blen_nonneg rb) as Hnr.
  unfold mk_ucsend.
  destruct (u16_le_enc (blen emb) (emb ++ (if Z.odd (blen emb) then [0] else []) ++ blen rb / 2 :: 0 :: rb) ltac:(lia))
    as (l0 & l1 & Heq & Hu).
  rewrite Heq. unfold parse_ucsend. rewrite Hu.
  rewrite takez_app.
  destruct (Z.odd (blen emb)) eqn:Eodd.
  - (* odd: one pad byte 00 *)
    cbn [app]. replace (0 =? 0) with true by reflexivity.
    replace (negb (0 =? 0)) with false by reflexivity.
    replace (blen rb <? 2 * (blen rb / 2)) with false by lia.
    replace (2 * (blen rb / 2) <? blen rb) with false by (apply Z.even_spec in He; destruct He as [k Hk]; lia).
    rewrite Hok, Hrq. reflexivity.
  - cbn [app].
    replace (negb (0 =? 0)) with false by reflexivity.
    replace (blen rb <? 2 * (blen rb / 2)) with false by lia.
    replace (2 * (blen rb / 2) <? blen rb) with false by (apply Z.even_spec in He; destruct He as [k Hk]; lia).
    rewrite Hok, Hrq. reflexivity.
Qed.
