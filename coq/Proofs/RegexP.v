(* Proofs/RegexP.v — lemmas about the backtracking matcher of Model/Regex.v.

   "Success form": a greedy digit run [\d{lo,hi}] / [\d+] followed by something that is not a digit
   (or of maximal length) consumes the whole run, provided the continuation then succeeds — the
   greedy choice is tried first, so no backtracking takes place.  "Failure form": a pattern whose
   first character class rejects the next character cannot match there ([first_miss]), a search
   over a text none of whose characters can start the pattern finds nothing ([search_from_none]),
   and a character-class repetition whose continuation fails at every split point fails
   ([rep_loop_fail]).  Nothing here enumerates texts: digit runs are arbitrary lists. *)
From PV Require Import Base.Bytes Base.Proto Base.Res Base.PyStr Model.Regex.
From Coq Require Import ZifyBool.
Open Scope Z_scope.
Ltac Zify.zify_post_hook ::= Z.to_euclidean_division_equations.

Definition all_digits (ds : text) : Prop := Forall (fun c => is_ascii_digit c = true) ds.
Definition nodigit_head (s : text) : Prop :=
  match s with [] => True | c :: _ => is_ascii_digit c = false end.

Lemma span_app (a b : text) : span (a ++ b) b = a.
Proof.
  unfold span. rewrite app_length.
  replace (length a + length b - length b)%nat with (length a) by lia.
  rewrite firstn_app, Nat.sub_diag, firstn_all. cbn. apply app_nil_r.
Qed.

Lemma span_nil (s : text) : span s [] = s.
Proof. unfold span. cbn. rewrite Nat.sub_0_r. apply firstn_all. Qed.

Lemma span_cons c (a b : text) : span (c :: a ++ b) b = c :: a.
Proof. exact (span_app (c :: a) b). Qed.

Lemma cc_digit ic c : cc_match ic [CDigit] c = is_ascii_digit c.
Proof. cbn. apply orb_false_r. Qed.

(* ---------------------------------------------------------------- success form *)
Lemma m_chr_ok fuel ic cs c s g k : cc_match ic cs c = true -> m fuel ic (Chr cs) (c :: s) g k = k s g.
Proof. intros H. cbn. rewrite H. reflexivity. Qed.

Lemma m_chr_miss fuel ic cs c s g k : cc_match ic cs c = false -> m fuel ic (Chr cs) (c :: s) g k = NoMatch.
Proof. intros H. cbn. rewrite H. reflexivity. Qed.

Lemma rep_digits_ok fuel ic : forall ds lo hi rest g K e gf,
  all_digits ds -> (lo <= length ds)%nat -> (length ds <= hi)%nat ->
  (length ds = hi \/ nodigit_head rest) ->
  K rest g = Match e gf ->
  rep_loop (m fuel ic (Chr [CDigit])) lo hi (ds ++ rest) g K = Match e gf.
Proof.
  induction ds as [|d ds IH]; intros lo hi rest g K e gf Hd Hlo Hhi Hend HK.
  - cbn in Hlo. assert (lo = O) by lia. subst lo. cbn [app].
    destruct hi as [|hi]; cbn [rep_loop]; [exact HK|].
    destruct Hend as [Hend|Hend]; [cbn in Hend; discriminate|].
    destruct rest as [|c rest].
    + cbn. exact HK.
    + cbn in Hend. rewrite m_chr_miss by (rewrite cc_digit; exact Hend). exact HK.
  - destruct hi as [|hi]; [cbn in Hhi; lia|].
    inversion Hd as [|? ? Hd1 Hd2]; subst.
    cbn [app rep_loop]. rewrite m_chr_ok by (rewrite cc_digit; exact Hd1).
    rewrite (IH (pred lo) hi rest g K e gf); try assumption.
    + reflexivity.
    + cbn in Hlo. lia.
    + cbn in Hhi. lia.
    + destruct Hend as [Hend|Hend]; [left; cbn in Hend; lia|right; exact Hend].
Qed.

Lemma group_digits_ok fuel ic i nm lo hi ds rest g k e gf :
  all_digits ds -> (lo <= length ds)%nat -> (length ds <= hi)%nat ->
  (length ds = hi \/ nodigit_head rest) ->
  k rest (gset i ds g) = Match e gf ->
  m fuel ic (Group i nm (Rep lo hi (Chr [CDigit]))) (ds ++ rest) g k = Match e gf.
Proof.
  intros Hd Hlo Hhi Hend Hk.
  change (rep_loop (m fuel ic (Chr [CDigit])) lo hi (ds ++ rest) g
            (fun s' g' => k s' (gset i (span (ds ++ rest) s') g')) = Match e gf).
  apply rep_digits_ok; try assumption. rewrite span_app. exact Hk.
Qed.

Lemma plus_digits_ok f0 ic : forall ds fuel rest g K e gf,
  all_digits ds -> ds <> [] -> nodigit_head rest -> (length ds < fuel)%nat ->
  K rest g = Match e gf ->
  plus_loop (m f0 ic (Chr [CDigit])) fuel (ds ++ rest) g K = Match e gf.
Proof.
  induction ds as [|d ds IH]; intros fuel rest g K e gf Hd Hne Hend Hfuel HK; [congruence|].
  inversion Hd as [|? ? Hd1 Hd2]; subst.
  destruct fuel as [|fuel]; [cbn in Hfuel; lia|].
  cbn [app plus_loop]. rewrite m_chr_ok by (rewrite cc_digit; exact Hd1).
  destruct ds as [|d2 ds].
  - cbn [app]. destruct fuel as [|fuel]; [cbn in Hfuel; lia|].
    cbn [plus_loop]. destruct rest as [|c rest].
    + cbn. exact HK.
    + cbn in Hend. rewrite m_chr_miss by (rewrite cc_digit; exact Hend). exact HK.
  - rewrite (IH fuel rest g K e gf); try assumption; [reflexivity|congruence|cbn in Hfuel |- *; lia].
Qed.

Lemma group_plus_digits_ok fuel ic i nm ds rest g k e gf :
  all_digits ds -> ds <> [] -> nodigit_head rest -> (length ds < fuel)%nat ->
  k rest (gset i ds g) = Match e gf ->
  m fuel ic (Group i nm (Plus (Chr [CDigit]))) (ds ++ rest) g k = Match e gf.
Proof.
  intros Hd Hne Hend Hf Hk.
  change (plus_loop (m fuel ic (Chr [CDigit])) fuel (ds ++ rest) g
            (fun s' g' => k s' (gset i (span (ds ++ rest) s') g')) = Match e gf).
  apply plus_digits_ok; try assumption. rewrite span_app. exact Hk.
Qed.

Lemma m_opt_some fuel ic a s g k e gf :
  m fuel ic a s g k = Match e gf -> m fuel ic (Opt a) s g k = Match e gf.
Proof. intros H. cbn [m]. rewrite H. reflexivity. Qed.

Lemma m_opt_none fuel ic a s g k :
  m fuel ic a s g k = NoMatch -> m fuel ic (Opt a) s g k = k s g.
Proof. intros H. cbn [m]. rewrite H. reflexivity. Qed.

(* ---------------------------------------------------------------- failure form *)
Fixpoint nullable (r : re) : bool :=
  match r with
  | Eps => true
  | Chr _ => false
  | Seq a _ => nullable a                 (* conservative: the second component is ignored *)
  | Alt a b => nullable a || nullable b
  | Opt _ => true
  | Rep lo _ a => match lo with O => true | _ => nullable a end
  | Plus a => nullable a
  | Group _ _ a => nullable a
  end.

(* could a match of [r] start with the character [c]?  (conservative) *)
Fixpoint first_ok (ic : bool) (r : re) (c : Z) : bool :=
  match r with
  | Eps => true
  | Chr cs => cc_match ic cs c
  | Seq a _ => if nullable a then true else first_ok ic a c
  | Alt a b => first_ok ic a c || first_ok ic b c
  | Opt _ => true
  | Rep lo _ a => match lo with O => true | _ => first_ok ic a c end
  | Plus a => first_ok ic a c
  | Group _ _ a => first_ok ic a c
  end.

Lemma first_ok_nullable ic r c : nullable r = true -> first_ok ic r c = true.
Proof.
  induction r; cbn; intros H; try reflexivity; try discriminate.
  - rewrite H. reflexivity.
  - apply orb_true_iff in H. destruct H as [H|H]; [rewrite IHr1|rewrite IHr2]; auto using orb_true_r.
  - destruct lo; auto.
  - auto.
  - auto.
Qed.

Lemma first_miss ic : forall r fuel c s g k, (0 < fuel)%nat -> first_ok ic r c = false ->
  m fuel ic r (c :: s) g k = NoMatch.
Proof.
  induction r; intros fuel c s g k Hf H; cbn in H.
  - discriminate.
  - apply m_chr_miss. exact H.
  - cbn [m]. destruct (nullable r1); [discriminate|]. apply IHr1; assumption.
  - apply orb_false_iff in H. destruct H as [H1 H2]. cbn [m].
    rewrite IHr1 by assumption. apply IHr2; assumption.
  - discriminate.
  - destruct lo as [|lo]; [discriminate|]. cbn [m].
    destruct hi as [|hi]; cbn [rep_loop]; [reflexivity|]. rewrite IHr by assumption. reflexivity.
  - cbn [m]. destruct fuel as [|fuel]; [lia|]. cbn [plus_loop]. apply IHr; [lia|assumption].
  - cbn [m]. apply IHr; assumption.
Qed.

Lemma empty_miss ic : forall r fuel g k, (0 < fuel)%nat -> nullable r = false -> m fuel ic r [] g k = NoMatch.
Proof.
  induction r; intros fuel g k Hf H; cbn in H.
  - discriminate.
  - reflexivity.
  - cbn [m]. apply IHr1; assumption.
  - apply orb_false_iff in H. destruct H as [H1 H2]. cbn [m].
    rewrite IHr1 by assumption. apply IHr2; assumption.
  - discriminate.
  - destruct lo as [|lo]; [discriminate|]. cbn [m].
    destruct hi as [|hi]; cbn [rep_loop]; [reflexivity|]. rewrite IHr by assumption. reflexivity.
  - cbn [m]. destruct fuel as [|fuel]; [lia|]. cbn [plus_loop]. apply IHr; [lia|assumption].
  - cbn [m]. apply IHr; assumption.
Qed.

Definition cannot_start (rx : regex) (c : Z) : Prop := first_ok (rx_ic rx) (rx_re rx) c = false.

Lemma search_from_step rx fuel pos c s :
  match_here fuel rx (c :: s) = NoMatch -> search_from fuel rx pos (c :: s) = search_from fuel rx (S pos) s.
Proof. intros H. cbn [search_from]. rewrite H. reflexivity. Qed.

Lemma search_from_skip rx fuel : (0 < fuel)%nat -> forall s1 s2 pos,
  Forall (cannot_start rx) s1 ->
  search_from fuel rx pos (s1 ++ s2) = search_from fuel rx (pos + length s1)%nat s2.
Proof.
  intros Hf. induction s1 as [|c s1 IH]; intros s2 pos H.
  - cbn. rewrite Nat.add_0_r. reflexivity.
  - inversion H as [|? ? H1 H2]; subst. cbn [app].
    rewrite search_from_step by (unfold match_here; apply first_miss; assumption).
    rewrite IH by assumption. cbn [length]. f_equal. lia.
Qed.

Lemma search_from_nil rx fuel pos : (0 < fuel)%nat -> nullable (rx_re rx) = false ->
  search_from fuel rx pos [] = SNoMatch.
Proof. intros Hf Hn. cbn. unfold match_here. rewrite empty_miss by assumption. reflexivity. Qed.

Lemma search_from_none rx fuel pos s : (0 < fuel)%nat -> nullable (rx_re rx) = false ->
  Forall (cannot_start rx) s -> search_from fuel rx pos s = SNoMatch.
Proof.
  intros Hf Hn H. rewrite <- (app_nil_r s). rewrite search_from_skip by assumption.
  apply search_from_nil; assumption.
Qed.

Lemma search_none rx s : nullable (rx_re rx) = false -> Forall (cannot_start rx) s -> search rx s = SNoMatch.
Proof. intros. unfold search, search_fuel. apply search_from_none; [lia|assumption|assumption]. Qed.

Lemma search_hit rx s e g :
  match_here (S (length s)) rx s = Match e g -> search rx s = SMatch O (span s e) g.
Proof.
  intros H. unfold search, search_fuel. destruct s; cbn [search_from]; rewrite H; reflexivity.
Qed.

(* a character-class repetition whose continuation fails at every split point fails *)
Lemma rep_loop_fail fuel ic cs (P : text -> Prop) K :
  (forall c s, P (c :: s) -> cc_match ic cs c = true -> P s) ->
  (forall s g, P s -> K s g = NoMatch) ->
  forall hi lo s g, P s -> rep_loop (m fuel ic (Chr cs)) lo hi s g K = NoMatch.
Proof.
  intros Htl HK. induction hi as [|hi IH]; intros lo s g HP; cbn [rep_loop].
  - destruct lo; [apply HK; exact HP|reflexivity].
  - assert (Hstep : m fuel ic (Chr cs) s g (fun s' g' => rep_loop (m fuel ic (Chr cs)) (pred lo) hi s' g' K) = NoMatch).
    { destruct s as [|c s]; [reflexivity|]. cbn [m]. destruct (cc_match ic cs c) eqn:E; [|reflexivity].
      apply IH. eapply Htl; eassumption. }
    rewrite Hstep. destruct lo; [apply HK; exact HP|reflexivity].
Qed.

(* one-step unfoldings, as equations (so that the other constructors stay folded) *)
Lemma m_seq fuel ic a b s g k : m fuel ic (Seq a b) s g k = m fuel ic a s g (fun s' g' => m fuel ic b s' g' k).
Proof. reflexivity. Qed.
Lemma m_group fuel ic i nm a s g k :
  m fuel ic (Group i nm a) s g k = m fuel ic a s g (fun s' g' => k s' (gset i (span s s') g')).
Proof. reflexivity. Qed.
Lemma span_cons1 c (s : text) : span (c :: s) s = [c].
Proof. exact (span_app [c] s). Qed.

(* a digit run followed by a character that is neither a digit nor the one the pattern wants next *)
Lemma group_digits_then_lit_miss fuel ic i nm lo hi j nm' want r ds c rest g k :
  all_digits ds -> is_ascii_digit c = false -> cc_match ic [CLit want] c = false ->
  (forall d, is_ascii_digit d = true -> cc_match ic [CLit want] d = false) ->
  m fuel ic (Seq (Group i nm (Rep lo hi (Chr [CDigit]))) (Seq (Group j nm' (Chr [CLit want])) r)) (ds ++ c :: rest) g k = NoMatch.
Proof.
  intros Hd Hw Hc Hdig. rewrite m_seq.
  change (rep_loop (m fuel ic (Chr [CDigit])) lo hi (ds ++ c :: rest) g
            (fun s' g' => (fun s'' g'' => m fuel ic (Seq (Group j nm' (Chr [CLit want])) r) s'' g'' k)
                            s' (gset i (span (ds ++ c :: rest) s') g')) = NoMatch).
  apply rep_loop_fail with (P := fun s => exists ds', all_digits ds' /\ s = ds' ++ c :: rest).
  - intros x s [ds' [Hds' E]] Hx. destruct ds' as [|d ds'].
    + cbn [app] in E. injection E as E1 E2. subst. rewrite cc_digit in Hx. congruence.
    + cbn [app] in E. injection E as E1 E2. subst. inversion Hds'; subst. exists ds'. split; [assumption|reflexivity].
  - intros s g0 [ds' [Hds' E]]. subst s. cbv beta. rewrite m_seq, m_group.
    destruct ds' as [|d ds'].
    + cbn [app]. apply m_chr_miss. exact Hc.
    + inversion Hds'; subst. cbn [app]. apply m_chr_miss. apply Hdig. assumption.
  - exists ds. split; [assumption|reflexivity].
Qed.

(* ---------------------------------------------------------------- characters *)
Lemma lower_c_digit c : is_ascii_digit c = true -> lower_c c = c.
Proof. unfold is_ascii_digit, lower_c. intros H. destruct ((65 <=? c) && (c <=? 90)) eqn:E; lia. Qed.

Lemma lit_match_ic l c : cc_match true [CLit l] c = (lower_c c =? lower_c l).
Proof. cbn. apply orb_false_r. Qed.

(* int() of a digit run *)
Definition dval (ds : text) : Z := fold_left (fun a c => a * 10 + (c - 48)) ds 0.

Lemma digits_val_fold : forall ds acc, all_digits ds ->
  digits_val ds acc = Some (fold_left (fun a c => a * 10 + (c - 48)) ds acc).
Proof.
  induction ds as [|d ds IH]; intros acc H; [reflexivity|].
  inversion H as [|? ? H1 H2]; subst. cbn [digits_val fold_left]. rewrite H1. apply IH. exact H2.
Qed.

Lemma py_int_digits ds : all_digits ds -> ds <> [] -> py_int ds = Ok (dval ds).
Proof.
  intros H Hne. destruct ds as [|d ds]; [congruence|].
  inversion H as [|? ? H1 H2]; subst.
  unfold py_int. unfold is_ascii_digit in H1.
  assert (d <> 45 /\ d <> 43) as [N1 N2] by lia.
  destruct d as [|p|p]; try lia.
  do 6 (destruct p as [p|p|]; try lia; try (rewrite digits_val_fold by exact H; reflexivity)).
Qed.

(* the same with a bound that shrinks with the iterations left: a digit run LONGER than the
   repetition allows can never be consumed up to the character the pattern wants next *)
Lemma rep_loop_fail_idx fuel ic cs (P : nat -> text -> Prop) K :
  (forall n c s, P (S n) (c :: s) -> cc_match ic cs c = true -> P n s) ->
  (forall n s g, P n s -> K s g = NoMatch) ->
  forall hi lo s g, P hi s -> rep_loop (m fuel ic (Chr cs)) lo hi s g K = NoMatch.
Proof.
  intros Htl HK. induction hi as [|hi IH]; intros lo s g HP; cbn [rep_loop].
  - destruct lo; [eapply HK; exact HP|reflexivity].
  - assert (Hstep : m fuel ic (Chr cs) s g (fun s' g' => rep_loop (m fuel ic (Chr cs)) (pred lo) hi s' g' K) = NoMatch).
    { destruct s as [|c s]; [reflexivity|]. cbn [m]. destruct (cc_match ic cs c) eqn:E; [|reflexivity].
      apply IH. eapply Htl; eassumption. }
    rewrite Hstep. destruct lo; [eapply HK; exact HP|reflexivity].
Qed.

Lemma group_digits_overlong fuel ic i nm lo hi j nm' want r ds rest g k :
  all_digits ds -> (hi < length ds)%nat ->
  (forall d, is_ascii_digit d = true -> cc_match ic [CLit want] d = false) ->
  m fuel ic (Seq (Group i nm (Rep lo hi (Chr [CDigit]))) (Seq (Group j nm' (Chr [CLit want])) r)) (ds ++ rest) g k = NoMatch.
Proof.
  intros Hd Hlen Hdig. rewrite m_seq.
  change (rep_loop (m fuel ic (Chr [CDigit])) lo hi (ds ++ rest) g
            (fun s' g' => (fun s'' g'' => m fuel ic (Seq (Group j nm' (Chr [CLit want])) r) s'' g'' k)
                            s' (gset i (span (ds ++ rest) s') g')) = NoMatch).
  apply rep_loop_fail_idx with (P := fun n s => exists ds', all_digits ds' /\ (n < length ds')%nat /\ s = ds' ++ rest).
  - intros n x s (ds' & Hds' & Hn & E) Hx. destruct ds' as [|d ds']; [cbn in Hn; lia|].
    cbn [app] in E. injection E as E1 E2. subst. inversion Hds'; subst. exists ds'. repeat split; [assumption|cbn in Hn; lia].
  - intros n s g0 (ds' & Hds' & Hn & E). subst s. cbv beta. rewrite m_seq, m_group.
    destruct ds' as [|d ds']; [cbn in Hn; lia|]. inversion Hds'; subst. cbn [app]. apply m_chr_miss. apply Hdig. assumption.
  - exists ds. repeat split; assumption.
Qed.

(* ---------------------------------------------------------------- fullmatch *)
Lemma at_end_cons c s g : at_end (c :: s) g = NoMatch.
Proof. reflexivity. Qed.

Lemma fullmatch_hit rx s e g : fullmatch_here (S (length s)) rx s = Match e g -> fullmatch rx s = SMatch O s g.
Proof. intros H. unfold fullmatch. rewrite H. reflexivity. Qed.
Lemma fullmatch_miss rx s : fullmatch_here (S (length s)) rx s = NoMatch -> fullmatch rx s = SNoMatch.
Proof. intros H. unfold fullmatch. rewrite H. reflexivity. Qed.
Lemma fullmatch_first_miss rx c s : cannot_start rx c -> fullmatch rx (c :: s) = SNoMatch.
Proof. intros H. apply fullmatch_miss. unfold fullmatch_here. apply first_miss; [lia|exact H]. Qed.

(* could [r] consume the character [c] first?  (conservative; [r] may be nullable) *)
Fixpoint firstc (ic : bool) (r : re) (c : Z) : bool :=
  match r with
  | Eps => false
  | Chr cs => cc_match ic cs c
  | Seq a b => firstc ic a c || (nullable a && firstc ic b c)
  | Alt a b => firstc ic a c || firstc ic b c
  | Opt a => firstc ic a c
  | Rep _ _ a => firstc ic a c
  | Plus a => first_ok ic a c
  | Group _ _ a => firstc ic a c
  end.

Lemma firstc_first_ok ic c : forall r, nullable r = false -> firstc ic r c = false -> first_ok ic r c = false.
Proof.
  induction r; cbn [nullable firstc first_ok]; intros Hn H; try discriminate; try assumption.
  - rewrite Hn in H |- *. apply orb_false_iff in H. destruct H as [H _]. apply IHr1; assumption.
  - apply orb_false_iff in Hn. destruct Hn. apply orb_false_iff in H. destruct H.
    rewrite IHr1, IHr2 by assumption. reflexivity.
  - destruct lo; [discriminate|]. apply IHr; assumption.
  - apply IHr; assumption.
Qed.

(* if [r] cannot consume [c] and the continuation fails on the text as it stands, [r] fails *)
Lemma m_skip ic fuel c s : (0 < fuel)%nat -> forall r g k,
  firstc ic r c = false -> (forall g', k (c :: s) g' = NoMatch) -> m fuel ic r (c :: s) g k = NoMatch.
Proof.
  intros Hf. induction r; intros g k H Hk; cbn [firstc] in H.
  - apply Hk.
  - apply m_chr_miss. exact H.
  - apply orb_false_iff in H. destruct H as [H1 H2]. destruct (nullable r1) eqn:En.
    + cbn [andb] in H2. rewrite m_seq. apply IHr1; [exact H1|]. intros g'. apply IHr2; assumption.
    + rewrite m_seq. apply first_miss; [exact Hf|]. apply firstc_first_ok; assumption.
  - apply orb_false_iff in H. destruct H as [H1 H2]. cbn [m]. rewrite IHr1 by assumption. apply IHr2; assumption.
  - cbn [m]. rewrite IHr by assumption. apply Hk.
  - cbn [m]. revert lo g. induction hi as [|hi IHhi]; intros lo g; cbn [rep_loop].
    + destruct lo; [apply Hk|reflexivity].
    + rewrite IHr; [destruct lo; [apply Hk|reflexivity]|exact H|]. intros g'. apply IHhi.
  - cbn [m]. destruct fuel as [|fuel]; [lia|]. cbn [plus_loop]. apply first_miss; [lia|exact H].
  - rewrite m_group. apply IHr; [exact H|]. intros g'. apply Hk.
Qed.

(* a digit run followed by a continuation that fails on every text starting with a digit: only the
   split after the whole run can succeed, so the repetition behaves deterministically *)
Definition digit_blind (k : K) : Prop := forall d s g, is_ascii_digit d = true -> k (d :: s) g = NoMatch.

Lemma rep_digits_unique fuel ic : forall ds lo hi rest g K,
  all_digits ds -> (lo <= length ds)%nat -> (length ds <= hi)%nat -> nodigit_head rest -> digit_blind K ->
  rep_loop (m fuel ic (Chr [CDigit])) lo hi (ds ++ rest) g K = K rest g.
Proof.
  induction ds as [|d ds IH]; intros lo hi rest g K Hd Hlo Hhi Hend HK.
  - cbn in Hlo. assert (lo = O) by lia. subst lo. cbn [app].
    destruct hi as [|hi]; cbn [rep_loop]; [reflexivity|].
    destruct rest as [|c rest]; [reflexivity|]. cbn in Hend.
    rewrite m_chr_miss by (rewrite cc_digit; exact Hend). reflexivity.
  - destruct hi as [|hi]; [cbn in Hhi; lia|].
    inversion Hd as [|? ? Hd1 Hd2]; subst.
    cbn [app rep_loop]. rewrite m_chr_ok by (rewrite cc_digit; exact Hd1).
    rewrite (IH (pred lo) hi rest g K) by (try assumption; cbn in Hlo, Hhi; lia).
    destruct (K rest g) eqn:E; try reflexivity.
    destruct lo; [apply HK; exact Hd1|reflexivity].
Qed.

Lemma a_group_digits fuel ic i nm lo hi ds rest g k R :
  all_digits ds -> (lo <= length ds)%nat -> (length ds <= hi)%nat -> nodigit_head rest -> digit_blind k ->
  k rest (gset i ds g) = R -> m fuel ic (Group i nm (Rep lo hi (Chr [CDigit]))) (ds ++ rest) g k = R.
Proof.
  intros Hd Hlo Hhi Hend Hk HR.
  change (rep_loop (m fuel ic (Chr [CDigit])) lo hi (ds ++ rest) g
            (fun s' g' => k s' (gset i (span (ds ++ rest) s') g')) = R).
  rewrite rep_digits_unique; try assumption; [rewrite span_app; exact HR|].
  intros d s g' H. apply Hk. exact H.
Qed.

(* a digit run LONGER than the repetition allows, before a digit-blind continuation *)
Lemma group_digits_overlong_k fuel ic i nm lo hi ds rest g k :
  all_digits ds -> (hi < length ds)%nat -> digit_blind k ->
  m fuel ic (Group i nm (Rep lo hi (Chr [CDigit]))) (ds ++ rest) g k = NoMatch.
Proof.
  intros Hd Hlen Hk.
  change (rep_loop (m fuel ic (Chr [CDigit])) lo hi (ds ++ rest) g
            (fun s' g' => k s' (gset i (span (ds ++ rest) s') g')) = NoMatch).
  apply rep_loop_fail_idx with (P := fun n s => exists ds', all_digits ds' /\ (n < length ds')%nat /\ s = ds' ++ rest).
  - intros n x s (ds' & Hds' & Hn & E) Hx. destruct ds' as [|d ds']; [cbn in Hn; lia|].
    cbn [app] in E. injection E as E1 E2. subst. inversion Hds'; subst. exists ds'. repeat split; [assumption|cbn in Hn; lia].
  - intros n s g0 (ds' & Hds' & Hn & E). subst s. cbv beta.
    destruct ds' as [|d ds']; [cbn in Hn; lia|]. inversion Hds'; subst. cbn [app]. apply Hk. assumption.
  - exists ds. repeat split; assumption.
Qed.

Lemma digit_blind_skip ic fuel r k : (0 < fuel)%nat ->
  (forall d, is_ascii_digit d = true -> firstc ic r d = false) -> digit_blind k ->
  digit_blind (fun s g => m fuel ic r s g k).
Proof. intros Hf Hr Hk d s g Hd. apply m_skip; [exact Hf|apply Hr; exact Hd|]. intros g'. apply Hk. exact Hd. Qed.

Lemma digit_blind_at_end : digit_blind at_end.
Proof. intros d s g _. reflexivity. Qed.

Lemma digit_blind_first ic fuel r k : (0 < fuel)%nat ->
  (forall d, is_ascii_digit d = true -> first_ok ic r d = false) -> digit_blind (fun s g => m fuel ic r s g k).
Proof. intros Hf Hr d s g Hd. apply first_miss; [exact Hf|apply Hr; exact Hd]. Qed.
