(* Proofs/WritePlan.v — C02 `applied_once`: every request of a write call that parsed and encoded
   is served by exactly one packet of what LogixDriver.write sends — one Write Tag service (alone or
   embedded in one multi-service packet), or one fragmented transfer, or (bit writes) the one
   Read-Modify-Write of its merged group — and a request that failed is served by none.
   Rests on the planner theorems of Proofs/PlanP.v (write_multi_partition). *)
From Coq Require Import ZifyBool Permutation.
From PV Require Import Base.Bytes Base.Res Base.PyStr Model.Path Model.LogixPlan Model.LogixWrite Proofs.PlanP.
Open Scope Z_scope.

Notation cnt := (count_occ Z.eq_dec).

(* ---- the single-request path *)
Theorem write_single_partition conn reqs :
  plan_ids (filter_map (write_build_single conn) reqs) = map w_id (wvalid reqs).
Proof.
  unfold wvalid. induction reqs as [|w reqs IH]; [reflexivity|]. cbn [filter_map filter].
  unfold write_build_single at 1.
  destruct (w_err w); cbn [negb andb]; [exact IH|].
  destruct (w_bit w); cbn [orb].
  - cbn [map plan_ids flat_map packet_ids app]. fold (plan_ids (filter_map (write_build_single conn) reqs)). rewrite IH. reflexivity.
  - destruct (w_enc_err w); cbn [negb]; [exact IH|].
    destruct (w_val w + w_msg w >? conn); cbn [map plan_ids flat_map packet_ids app];
      fold (plan_ids (filter_map (write_build_single conn) reqs)); rewrite IH; reflexivity.
Qed.

Theorem write_plan_partition conn micro reqs :
  Permutation (plan_ids (write_build_requests conn micro reqs)) (map w_id (wvalid reqs)).
Proof.
  unfold write_build_requests. destruct (negb (length reqs =? 1)%nat && negb micro).
  - apply write_multi_partition.
  - rewrite write_single_partition. apply Permutation_refl.
Qed.

Definition w_valid (w : wreq) : bool := negb (w_err w) && (w_bit w || negb (w_enc_err w)).

Lemma NoDup_map_filter {A} (f : A -> Z) (g : A -> bool) l : NoDup (map f l) -> NoDup (map f (filter g l)).
Proof.
  induction l as [|a l IH]; intros H; [constructor|]. cbn [map] in H. inversion H as [|? ? Hn Hr]; subst.
  cbn [filter]. destruct (g a); [|apply IH, Hr]. cbn [map]. constructor; [|apply IH, Hr].
  intros Hin. apply Hn. apply in_map_iff in Hin as [x [E Hx]]. apply filter_In in Hx as [Hx _]. apply in_map_iff. exists x. auto.
Qed.

Lemma in_map_filter_valid reqs w : In w reqs -> w_valid w = true -> In (w_id w) (map w_id (wvalid reqs)).
Proof. intros Hin Hv. apply in_map. unfold wvalid. apply filter_In. split; [exact Hin|exact Hv]. Qed.

Lemma not_in_map_filter_invalid reqs w : NoDup (map w_id reqs) -> In w reqs -> w_valid w = false ->
  ~ In (w_id w) (map w_id (wvalid reqs)).
Proof.
  intros Hnd Hin Hv Hc. apply in_map_iff in Hc as [x [E Hx]]. unfold wvalid in Hx. apply filter_In in Hx as [Hx Hvx].
  assert (x = w).
  { clear -Hnd Hin Hx E. induction reqs as [|a r IH]; [destruct Hin|]. cbn [map] in Hnd. inversion Hnd as [|? ? Hn Hr]; subst.
    destruct Hin as [->|Hin], Hx as [->|Hx]; try reflexivity.
    - exfalso. apply Hn. rewrite <- E. apply in_map, Hx.
    - exfalso. apply Hn. rewrite E. apply in_map, Hin.
    - apply IH; assumption. }
  subst x. unfold w_valid in Hv. congruence.
Qed.

(* applied_once over the planner: with distinct request ids (they are the positions in the call),
   a valid request occurs in exactly one packet of the plan, exactly once; an invalid one in none *)
Theorem applied_once_plan conn micro reqs w :
  NoDup (map w_id reqs) -> In w reqs ->
  cnt (plan_ids (write_build_requests conn micro reqs)) (w_id w) = if w_valid w then 1%nat else 0%nat.
Proof.
  intros Hnd Hin.
  pose proof (write_plan_partition conn micro reqs) as P.
  rewrite (proj1 (Permutation_count_occ Z.eq_dec _ _) P).
  pose proof (NoDup_map_filter w_id (fun w => negb (w_err w) && (w_bit w || negb (w_enc_err w))) reqs Hnd) as Hnd2.
  fold (wvalid reqs) in Hnd2.
  destruct (w_valid w) eqn:Hv.
  - apply (proj1 (NoDup_count_occ' Z.eq_dec _) Hnd2). apply in_map_filter_valid; assumption.
  - apply count_occ_not_In. apply not_in_map_filter_invalid; assumption.
Qed.

(* ---- the concrete call *)
Definition out_ids (o : outpkt) : list Z :=
  match o with OMulti _ ids _ => ids | OSingle i _ => [i] | OFrag i _ => [i] | ORmw _ ids _ => ids end.

Lemma materialise_ids cfg v bl plan : forall md d out,
  materialise cfg v bl plan md d = Ok out -> flat_map out_ids out = plan_ids plan.
Proof.
  induction plan as [|pk rest IH]; intros md d out H; cbn [materialise] in H.
  - injection H as <-. reflexivity.
  - destruct pk as [ids|id|id|rid ids].
    + destruct (members_of bl ids) as [ms|]; [|discriminate].
      destruct (multi_message (seq_at v md) ms) as [mm|]; [|discriminate].
      destruct (materialise cfg v bl rest (S md) d) as [r|] eqn:E; [|discriminate]. injection H as <-.
      cbn [flat_map out_ids plan_ids packet_ids]. fold (plan_ids rest). rewrite (IH _ _ _ E). reflexivity.
    + destruct (find_built bl id) as [[[q b] dn]|]; [|discriminate]. destruct b as [| | | |pw]; try discriminate.
      destruct (build_message pw) as [p'|]; [|discriminate].
      destruct (materialise cfg v bl rest md d) as [r|] eqn:E; [|discriminate]. injection H as <-.
      cbn [flat_map out_ids plan_ids packet_ids app]. fold (plan_ids rest). rewrite (IH _ _ _ E). reflexivity.
    + destruct (find_built bl id) as [[[q b] dn]|]; [|discriminate]. destruct b as [| | | |pw]; try discriminate.
      destruct (send_fragmented cfg v d pw (seq_at v (S dn))) as [[ms d']|]; [|discriminate].
      destruct (materialise cfg v bl rest md d') as [r|] eqn:E; [|discriminate]. injection H as <-.
      cbn [flat_map out_ids plan_ids packet_ids app]. fold (plan_ids rest). rewrite (IH _ _ _ E). reflexivity.
    + destruct (rmw_packet cfg v bl rid ids) as [pr|]; [|discriminate].
      destruct (materialise cfg v bl rest md d) as [r|] eqn:E; [|discriminate]. injection H as <-.
      cbn [flat_map out_ids plan_ids packet_ids]. fold (plan_ids rest). rewrite (IH _ _ _ E). reflexivity.
Qed.

Lemma build_all_reqs cfg multi v reqs : forall drawn seen bl n,
  build_all cfg multi v reqs drawn seen = Ok (bl, n) -> map (fun x => fst (fst x)) bl = reqs.
Proof.
  induction reqs as [|q rest IH]; intros drawn seen bl n H; cbn [build_all] in H.
  - injection H as <- _. reflexivity.
  - match type of H with context [build_one ?c ?j ?sq q] => destruct (build_one c j sq q) as [b|]; [|discriminate] end.
    match type of H with context [build_all cfg multi v rest ?d ?s] => destruct (build_all cfg multi v rest d s) as [[l n']|] eqn:E; [|discriminate] end.
    injection H as <- _. cbn [map fst]. rewrite (IH _ _ _ _ E). reflexivity.
Qed.

Lemma abstract_id q b : w_id (abstract_of q b) = q_id q.
Proof. destruct b; reflexivity. Qed.

(* the request was not served: parsing failed, or encode_value raised *)
Definition built_failed (b : built) : bool := match b with BErr | BEncErr | BBuildErr => true | _ => false end.
Lemma abstract_valid q b : w_valid (abstract_of q b) = negb (built_failed b).
Proof. destruct b; reflexivity. Qed.

(* applied_once: in what write() sends, each request that parsed and encoded is served exactly once
   (a bit write: by the single Read-Modify-Write of its merged group); a failed one never *)
Theorem applied_once cfg v reqs plan out failed :
  write_plan cfg v reqs = Ok (plan, out, failed) -> NoDup (map q_id reqs) ->
  length failed = length reqs
  /\ forall k q, nth_error reqs k = Some q ->
       exists fl, nth_error failed k = Some (q_id q, fl)
                  /\ cnt (flat_map out_ids out) (q_id q) = if fl then 0%nat else 1%nat.
Proof.
  unfold write_plan. intros H Hnd.
  destruct (build_all cfg (negb (length reqs =? 1)%nat && negb (c_micro800 cfg)) v reqs 0 []) as [[bl drawn]|] eqn:EB; [|discriminate].
  set (abs := map (fun x : wparsed * built * nat => abstract_of (fst (fst x)) (snd (fst x))) bl) in *.
  destruct (materialise cfg v bl (write_build_requests (c_conn cfg) (c_micro800 cfg) abs) drawn
              (drawn + count_multi (write_build_requests (c_conn cfg) (c_micro800 cfg) abs))) as [o|] eqn:EM; [|discriminate].
  injection H as <- <- <-.
  pose proof (build_all_reqs _ _ _ _ _ _ _ _ EB) as Hreqs.
  pose proof (materialise_ids _ _ _ _ _ _ _ EM) as Hids.
  assert (Hl : length bl = length reqs) by (rewrite <- Hreqs, map_length; reflexivity).
  split; [rewrite map_length; exact Hl|].
  intros k q Hk.
  assert (Hx : exists x, nth_error bl k = Some x /\ fst (fst x) = q).
  { rewrite <- Hreqs in Hk. rewrite nth_error_map in Hk. destruct (nth_error bl k) as [x|]; [|discriminate].
    exists x. cbn in Hk. injection Hk as <-. auto. }
  destruct Hx as (x & Hx & Hq).
  exists (built_failed (snd (fst x))). split.
  - rewrite nth_error_map, Hx. cbn [option_map]. rewrite Hq. destruct (snd (fst x)); reflexivity.
  - rewrite Hids.
    assert (Hw : In (abstract_of (fst (fst x)) (snd (fst x))) abs).
    { unfold abs. apply in_map_iff. exists x. split; [reflexivity|]. eapply nth_error_In; eassumption. }
    assert (Hndw : NoDup (map w_id abs)).
    { unfold abs. rewrite map_map. erewrite map_ext; [|intros a; apply abstract_id].
      rewrite <- (map_map (fun x => fst (fst x)) q_id), Hreqs. exact Hnd. }
    pose proof (applied_once_plan (c_conn cfg) (c_micro800 cfg) abs _ Hndw Hw) as A.
    rewrite abstract_id, Hq, abstract_valid in A. rewrite A. destruct (built_failed (snd (fst x))); reflexivity.
Qed.
