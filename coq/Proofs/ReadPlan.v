(* Proofs/ReadPlan.v — LogixDriver.read as a whole against the reference target: parsing of every
   request, planning (Model/LogixPlan.v, theorems of Proofs/PlanP.v: every request in exactly one
   packet, groups within the connection size), the three kinds of exchange (Proofs/ReadMulti.v,
   Proofs/ReadFrag.v), the id-keyed result map, and the per-tag post-processing.
     read_transport     for requests that the target serves: read() returns, for request i, post_read
                        applied to parse_read_reply of (type field ++ the whole addressed data) — whatever
                        the plan (single / multi-service groups / fragmented), connection size and
                        fragment policy
   No axioms. *)
From Coq Require Import ZifyBool Permutation.
From PV Require Import Base.Bytes Base.BytesLemmas Base.Res Base.PyStr.
From PV Require Import Gen.Consts Model.Path Model.Reply Model.LogixPlan Model.LogixRead.
From PV Require Import Spec.EncapParser Spec.MRParser Spec.TargetIface Spec.TargetCore Spec.Project Spec.Expect Spec.TargetLogix.
From PV Require Import Proofs.PlanP Proofs.TargetCoreP Proofs.TargetLogixP Proofs.ReadBits Proofs.ReadDecode Proofs.ReadTarget
  Proofs.ReadValue Proofs.ReadFrag Proofs.ReadMulti.
Open Scope Z_scope.
Ltac Zify.zify_post_hook ::= Z.to_euclidean_division_equations.

(* ================================================================ one request and what the target holds for it *)
Record rq := mkRq { rq_s : text; rq_q : preq; rq_path : bytes; rq_tb : bytes; rq_d : bytes; rq_sz : Z }.

Definition rq_n (r : rq) : Z := pq_elements (rq_q r).
Definition res_of (r : rq) : option (rvalue * text) :=
  reply_opt (rq_tb r ++ rq_d r) (pq_info (rq_q r)) (rq_n r).
Definition rq_item (r : rq) : item := (rq_q r, rq_path r, rq_tb r, rq_d r, rq_sz r).
(* len(request.message): sequence count, service, path, element count *)
Definition rq_msglen (r : rq) : Z := 2 + (1 + Path.len (rq_path r) + 2).

Definition rq_good (app : lstate) (tags : tagdb) (use_ids : bool) (conn : Z) (r : rq) : Prop :=
  parse_tag_request tags (rq_s r) = Ok (rq_q r)
  /\ read_path use_ids (rq_q r) = Ok (rq_path r)
  /\ served app (rq_q r) (rq_path r) (rq_tb r) (rq_d r) (rq_sz r)
  /\ ti_esize (pq_info (rq_q r)) = rq_sz r
  /\ Path.len (rq_path r) + 11 <= conn /\ rq_sz r + 10 <= conn /\ rq_n r * rq_sz r < 4294967296.

Lemma good_facts app tags use_ids conn r : rq_good app tags use_ids conn r ->
  0 <= rq_n r < 65536 /\ 1 <= rq_sz r /\ 5 <= Path.len (rq_path r) /\ Expect.blen (rq_tb r) <= 4 /\ 1 <= rq_n r.
Proof.
  intros (_ & _ & (pb & l & img & Hpw & _ & Hpb4 & _ & _ & Hn & _ & _ & _ & Htb4 & Hs1 & Hav & _) & _).
  destruct Hpw as (E & _). unfold rq_n. repeat split; try lia.
  rewrite E. unfold Path.len, EncapParser.blen in *. cbn [length]. lia.
Qed.

(* ================================================================ ids *)
Fixpoint tag_ids (i : Z) (rs : list rq) : list (Z * rq) :=
  match rs with [] => [] | r :: t => (i, r) :: tag_ids (i + 1) t end.

Lemma tag_ids_ge rs : forall i0 i r, In (i, r) (tag_ids i0 rs) -> i0 <= i.
Proof.
  induction rs as [|x t IH]; intros i0 i r H; [contradiction|]. cbn in H. destruct H as [E|H].
  - injection E as <- _. lia.
  - apply IH in H. lia.
Qed.

Lemma zget_tag_ids rs : forall i0 i r, In (i, r) (tag_ids i0 rs) -> zget i (tag_ids i0 rs) = Some r.
Proof.
  induction rs as [|x t IH]; intros i0 i r H; [contradiction|]. cbn [tag_ids zget] in *. destruct H as [E|H].
  - injection E as <- <-. rewrite Z.eqb_refl. reflexivity.
  - pose proof (tag_ids_ge _ _ _ _ H). replace (i0 =? i) with false by lia. apply IH. exact H.
Qed.

Lemma zget_map {A B} (g : A -> B) (l : list (Z * A)) i :
  zget i (map (fun e => (fst e, g (snd e))) l) = option_map g (zget i l).
Proof. induction l as [|[k v] l IH]; [reflexivity|]. cbn. destruct (k =? i); [reflexivity|exact IH]. Qed.

Lemma tag_ids_nodup rs : forall i0, NoDup (map fst (tag_ids i0 rs)).
Proof.
  induction rs as [|x t IH]; intros i0; [constructor|]. cbn. constructor; [|apply IH].
  intros H. apply in_map_iff in H. destruct H as ([i r] & E & H). cbn in E. subst i.
  apply tag_ids_ge in H. lia.
Qed.

Lemma tag_ids_snd rs : forall i0, map snd (tag_ids i0 rs) = rs.
Proof. induction rs as [|x t IH]; intros i0; [reflexivity|]. cbn. rewrite IH. reflexivity. Qed.

Lemma tag_ids_length rs i0 : length (tag_ids i0 rs) = length rs.
Proof. rewrite <- (tag_ids_snd rs i0) at 2. rewrite map_length. reflexivity. Qed.

(* ================================================================ parsing, paths, planner input *)
Section Transport.
  Variables (app : lstate) (tags : tagdb) (cfg : ccfg).
  Let conn := c_conn cfg.
  Let use_ids := c_use_ids cfg.
  Definition good := rq_good app tags use_ids conn.

  Lemma parse_requested_ok rs : Forall good rs -> forall i0,
    parse_requested tags (map rq_s rs) i0 = map (fun e => (fst e, rq_s (snd e), Ok (rq_q (snd e)))) (tag_ids i0 rs).
  Proof.
    induction 1 as [|r t Hr _ IH]; intros i0; [reflexivity|].
    cbn [map parse_requested tag_ids fst snd]. destruct Hr as (Hp & _). rewrite Hp, IH. reflexivity.
  Qed.

  Definition paths_of (IR : list (Z * rq)) : list (Z * (preq * bytes)) :=
    map (fun e => (fst e, (rq_q (snd e), rq_path (snd e)))) IR.

  Lemma build_paths_ok IR : Forall (fun e => good (snd e)) IR ->
    build_paths use_ids (map (fun e => (fst e, rq_s (snd e), Ok (rq_q (snd e)))) IR) = paths_of IR.
  Proof.
    induction 1 as [|[i r] t Hr _ IH]; [reflexivity|]. cbn [map build_paths fst snd paths_of]. cbn [snd] in Hr.
    pose proof (good_facts _ _ _ _ _ Hr) as (Hn & _). destruct Hr as (_ & Hpath & _).
    unfold build_one. rewrite Hpath. cbn [bind]. rewrite (read_message_ok _ _ Hn). cbn [bind]. fold (paths_of t).
    unfold paths_of in IH. rewrite IH. reflexivity.
  Qed.

  Definition rreq_of (e : Z * rq) : rreq :=
    {| r_id := fst e; r_err := false; r_data := rq_sz (snd e) * rq_n (snd e); r_msg := rq_msglen (snd e) |}.

  Lemma plan_input_ok IR : NoDup (map fst IR) -> Forall (fun e => good (snd e)) IR ->
    (forall i r, In (i, r) IR -> zget i IR = Some r) ->
    plan_input (paths_of IR) (map (fun e => (fst e, rq_s (snd e), Ok (rq_q (snd e)))) IR) = map rreq_of IR.
  Proof.
    intros _ HF Hz. unfold plan_input. rewrite map_map. apply map_ext_in. intros [i r] Hin. cbn [fst snd].
    unfold paths_of. rewrite (zget_map (fun r => (rq_q r, rq_path r))), (Hz i r Hin). cbn [option_map].
    rewrite Forall_forall in HF. destruct (HF _ Hin) as (_ & _ & _ & Hes & _). cbn [snd] in Hes.
    unfold rreq_of, rq_msglen, rq_n. cbn [fst snd]. rewrite Hes. reflexivity.
  Qed.
End Transport.

Lemma msg_len r : Path.len (it_msg (rq_item r)) = 3 + Path.len (rq_path r).
Proof. unfold rq_item, it_msg, Path.len. cbn [length]. rewrite app_length, le_enc_length. lia. Qed.

(* ================================================================ the packets of a plan *)
Section Packets.
  Variables (app : lstate) (tags : tagdb) (cfg : ccfg) (IR : list (Z * rq)).
  Let conn := c_conn cfg.
  Hypothesis HIR : Forall (fun e => good app tags cfg (snd e)) IR.
  Hypothesis Hz : forall i r, In (i, r) IR -> zget i IR = Some r.
  Hypothesis Hconn : conn < 65536.

  Definition ids_results (ids : list Z) : results :=
    map (fun i => (i, match zget i IR with Some r => res_of r | None => None end)) ids.

  Lemma good_in i r : In (i, r) IR -> good app tags cfg r.
  Proof. intros H. rewrite Forall_forall in HIR. apply (HIR _ H). Qed.

  Lemma zget_paths i r : In (i, r) IR -> zget i (paths_of IR) = Some (rq_q r, rq_path r).
  Proof.
    intros H. unfold paths_of. rewrite (zget_map (fun r => (rq_q r, rq_path r))), (Hz i r H). reflexivity.
  Qed.

  Definition rq_est (r : rq) : Z := rq_sz r * rq_n r + rq_msglen r + 2.

  Lemma packet_single ms st fuel i r : quiet app ms st -> In (i, r) IR ->
    rq_sz r * rq_n r + rq_msglen r <= conn ->
    exists st' sent, run_packet (target_peer conn) fuel cfg (paths_of IR) st (PSingle i)
                     = (st', sent, Done (ids_results [i])) /\ quiet app ms st'.
  Proof.
    intros Hq Hin Hfit. pose proof (good_in i r Hin) as Hg. pose proof (good_facts _ _ _ _ _ Hg) as (Hn & _).
    destruct Hg as (_ & _ & Hserved & _).
    cbn [run_packet]. rewrite (zget_paths i r Hin). fold (rq_n r). rewrite (read_message_ok _ _ Hn).
    destruct (single_read_ok app ms conn st (rq_q r) (rq_path r) (rq_tb r) (rq_d r) (rq_sz r) Hq Hserved) as (st' & Hs & Hq').
    { unfold rq_msglen, rq_n in *. lia. }
    fold (rq_n r) in Hs. rewrite Hs. exists st'. eexists. split; [|exact Hq'].
    rewrite read_response_204. unfold ids_results. cbn [map]. rewrite (Hz i r Hin). reflexivity.
  Qed.

  Lemma packet_frag ms st fuel i r : quiet app ms st -> In (i, r) IR -> (Z.to_nat (rq_n r * rq_sz r) < fuel)%nat ->
    exists st' sent, run_packet (target_peer conn) fuel cfg (paths_of IR) st (PFrag i)
                     = (st', sent, Done (ids_results [i])) /\ quiet app ms st'.
  Proof.
    intros Hq Hin Hfuel. pose proof (good_in i r Hin) as Hg. pose proof (good_facts _ _ _ _ _ Hg) as (Hn & Hs1 & Hp5 & Htb4 & Hn1).
    destruct Hg as (_ & _ & (pb & l & img & Hpw & Hcia & Hpb4 & Hres & Hmem & _ & Hs & Htb & Htbok & _ & _ & Hav & Hd & Hbit) & _ & Hplen & Hszc & Htot).
    cbn [run_packet]. rewrite (zget_paths i r Hin).
    destruct (frag_read_ok app ms conn (rq_path r) pb (rq_q r) l img (rq_sz r) (rq_tb r) (rq_d r) Hpw Hcia Hres Hmem Hn Hs Htb Htbok
                Hs1 Hav) with (fuel := fuel) (st := st) (sent := @nil bytes) as (st' & sent' & Hl & Hq'); try assumption.
    - unfold Expect.blen in *. lia.
    - unfold EncapParser.blen, Path.len in *. lia.
    - rewrite Hl. exists st', sent'. split; [|exact Hq'].
      unfold ids_results. cbn [map]. rewrite (Hz i r Hin). reflexivity.
  Qed.

  Lemma collect_reads_ok : forall ids rs, Forall2 (fun i r => In (i, r) IR) ids rs ->
    collect_reads (paths_of IR) ids = Ok (combine ids (map it_q (map rq_item rs)), map it_msg (map rq_item rs)).
  Proof.
    induction 1 as [|i r ids rs Hin _ IH]; [reflexivity|].
    cbn [collect_reads map combine]. rewrite (zget_paths i r Hin).
    pose proof (good_facts _ _ _ _ _ (good_in i r Hin)) as (Hn & _).
    fold (rq_n r). rewrite (read_message_ok _ _ Hn). cbn [bind]. rewrite IH. reflexivity.
  Qed.

  Definition sum_est (rs : list rq) : Z := fold_right (fun r a => rq_est r + a) 0 rs.

  Lemma packet_multi st fuel ids rs : quiet app true st -> ids <> [] -> Forall2 (fun i r => In (i, r) IR) ids rs ->
    sum_est rs + 10 <= conn ->
    exists st' sent, run_packet (target_peer conn) fuel cfg (paths_of IR) st (PMulti ids)
                     = (st', sent, Done (ids_results ids)) /\ quiet app true st'.
  Proof.
    intros Hq Hne HF Hsum.
    assert (Hlen : length ids = length (map rq_item rs)).
    { rewrite map_length. clear -HF. induction HF; cbn; congruence. }
    assert (Hserved : Forall (it_served app) (map rq_item rs)).
    { clear -HF HIR. induction HF as [|i r ids rs Hin _ IH]; constructor; [|exact IH].
      destruct (good_in i r Hin) as (_ & _ & Hs & _). exact Hs. }
    assert (Hbounds : sum_need (map rq_item rs) + 4 * Z.of_nat (length rs) <= sum_est rs
                      /\ Path.len (concat (map it_msg (map rq_item rs))) + 5 * Z.of_nat (length rs) <= sum_est rs).
    { clear -HF HIR. induction HF as [|i r ids rs Hin _ IH]; [cbn; lia|].
      pose proof (good_facts _ _ _ _ _ (good_in i r Hin)) as (Hn & Hs1 & Hp5 & Htb4 & Hn1).
      cbn [map sum_need fold_right sum_est concat length]. fold (sum_need (map rq_item rs)). fold (sum_est rs).
      rewrite len_app_z, msg_len. unfold rq_item at 1. cbn [it_need]. unfold rq_est, rq_msglen, rq_n in *.
      unfold Path.len, Expect.blen in *. nia. }
    destruct Hbounds as [Hb1 Hb2].
    assert (HN : length (map rq_item rs) = length rs) by apply map_length.
    destruct (multi_read_ok app conn st (map rq_item rs) ids Hq) as (msg & st' & Hmm & Hsend & Hq' & Hres);
      try assumption.
    - destruct rs; [inversion HF; subst; congruence|discriminate].
    - rewrite HN. lia.
    - rewrite HN. lia.
    - cbn [run_packet]. rewrite (collect_reads_ok ids rs HF). cbn [bind]. rewrite Hmm. cbn [bind].
      rewrite Hsend. exists st'. eexists. split; [|exact Hq']. f_equal. f_equal.
      rewrite Hres. unfold ids_results. clear -HF Hz.
      induction HF as [|i r ids rs Hin _ IH]; [reflexivity|]. cbn [map combine]. rewrite IH, (Hz i r Hin). reflexivity.
  Qed.
End Packets.

(* ================================================================ a whole plan *)
Section Plan.
  Variables (app : lstate) (tags : tagdb) (cfg : ccfg) (IR : list (Z * rq)) (ms : bool) (fuel : nat).
  Let conn := c_conn cfg.
  Hypothesis HIR : Forall (fun e => good app tags cfg (snd e)) IR.
  Hypothesis Hz : forall i r, In (i, r) IR -> zget i IR = Some r.
  Hypothesis Hconn : conn < 65536.
  Hypothesis Hfuel : Forall (fun e => (Z.to_nat (rq_n (snd e) * rq_sz (snd e)) < fuel)%nat) IR.

  Inductive packet_ok : packet -> Prop :=
    | pok_single i r : In (i, r) IR -> rq_sz r * rq_n r + rq_msglen r <= conn -> packet_ok (PSingle i)
    | pok_frag i r : In (i, r) IR -> packet_ok (PFrag i)
    | pok_multi ids rs : ms = true -> ids <> [] -> Forall2 (fun i r => In (i, r) IR) ids rs ->
                         sum_est rs + 10 <= conn -> packet_ok (PMulti ids).

  Lemma ids_results_app a b : ids_results IR (a ++ b) = ids_results IR a ++ ids_results IR b.
  Proof. unfold ids_results. apply map_app. Qed.

  Lemma run_packets_ok : forall pks st sent acc, quiet app ms st -> Forall packet_ok pks ->
    exists st' sent', run_packets (target_peer conn) fuel cfg (paths_of IR) st pks sent acc
                      = (st', sent', Done (acc ++ ids_results IR (plan_ids pks))) /\ quiet app ms st'.
  Proof.
    induction pks as [|pk r IH]; intros st sent acc Hq HF.
    - cbn. rewrite app_nil_r. eauto.
    - inversion HF as [|x y Hpk HF']; subst. cbn [run_packets].
      assert (Hone : exists st1 s1, run_packet (target_peer conn) fuel cfg (paths_of IR) st pk
                       = (st1, s1, Done (ids_results IR (packet_ids pk))) /\ quiet app ms st1).
      { destruct Hpk as [i rr Hin Hfit|i rr Hin|ids rs Hms Hne HF2 Hsum].
        - apply (packet_single app tags cfg IR HIR Hz ms st fuel i rr Hq Hin Hfit).
        - rewrite Forall_forall in Hfuel. pose proof (Hfuel _ Hin) as Hf. cbn [snd] in Hf.
          apply (packet_frag app tags cfg IR HIR Hz ms st fuel i rr Hq Hin Hf).
        - assert (Hqt : quiet app true st) by (rewrite <- Hms; exact Hq).
          destruct (packet_multi app tags cfg IR HIR Hz Hconn st fuel ids rs Hqt Hne HF2 Hsum) as (st1 & s1 & H1 & Hq1).
          exists st1, s1. split; [exact H1|rewrite Hms; exact Hq1]. }
      destruct Hone as (st1 & s1 & H1 & Hq1). rewrite H1.
      destruct (IH st1 (sent ++ s1) (acc ++ ids_results IR (packet_ids pk)) Hq1 HF') as (st' & sent' & H2 & Hq').
      rewrite H2. exists st', sent'. split; [|exact Hq'].
      unfold plan_ids. cbn [flat_map]. fold (plan_ids r). rewrite ids_results_app, app_assoc. reflexivity.
  Qed.

  Lemma rget_results ids i : NoDup ids -> In i ids ->
    rget i (ids_results IR ids) = Some (match zget i IR with Some r => res_of r | None => None end).
  Proof.
    unfold ids_results. induction ids as [|j l IH]; intros Hnd Hin; [contradiction|].
    inversion Hnd as [|x y Hn Hd]; subst. cbn [map rget].
    destruct Hin as [->|Hin].
    - assert (Hnone : rget i (map (fun i0 => (i0, match zget i0 IR with Some r => res_of r | None => None end)) l) = None).
      { clear -Hn. induction l as [|k l IH]; [reflexivity|]. cbn [map rget].
        rewrite IH by (intros H; apply Hn; right; exact H).
        destruct (k =? i) eqn:E; [exfalso; apply Hn; left; lia|reflexivity]. }
      rewrite Hnone, Z.eqb_refl. reflexivity.
    - rewrite (IH Hd Hin). reflexivity.
  Qed.
End Plan.

(* ================================================================ the planner's packets are served *)
Section Planner.
  Variables (app : lstate) (tags : tagdb) (cfg : ccfg) (IR : list (Z * rq)) (fuel : nat).
  Let conn := c_conn cfg.
  Hypothesis HIR : Forall (fun e => good app tags cfg (snd e)) IR.

  Lemma rvalid_all (L : list (Z * rq)) : rvalid (map rreq_of L) = map rreq_of L.
  Proof. unfold rvalid. induction L as [|e L IH]; [reflexivity|]. cbn. rewrite IH. reflexivity. Qed.

  Lemma est_eq e : r_est (rreq_of e) = rq_est (snd e).
  Proof. reflexivity. Qed.

  (* ---- single-request mode *)
  Lemma single_plan_ok ms (L : list (Z * rq)) : incl L IR ->
    Forall (packet_ok cfg IR ms) (filter_map (read_build_single conn) (map rreq_of L)).
  Proof.
    induction L as [|[i r] L IH]; intros Hincl; [constructor|].
    cbn [map filter_map]. unfold read_build_single at 1. cbn [rreq_of r_err r_data r_msg r_id fst snd].
    assert (Hin : In (i, r) IR) by (apply Hincl; left; reflexivity).
    destruct (rq_sz r * rq_n r + rq_msglen r >? conn) eqn:E; constructor.
    - apply (pok_frag cfg IR ms i r Hin).
    - apply IH. intros x Hx. apply Hincl. right. exact Hx.
    - apply (pok_single cfg IR ms i r Hin). fold conn. lia.
    - apply IH. intros x Hx. apply Hincl. right. exact Hx.
  Qed.

  (* ---- multi-service mode *)
  Lemma group_members (g : list (Z * Z)) :
    Forall (fun pr => exists r, In (fst pr, r) IR /\ snd pr = rq_est r) g ->
    exists rs, Forall2 (fun i r => In (i, r) IR) (map fst g) rs /\ sum_est rs = sum_sz g.
  Proof.
    induction 1 as [|[i e] g (r & Hin & He) _ (rs & HF & Hs)].
    - exists []. split; [constructor|reflexivity].
    - exists (r :: rs). cbn [fst snd] in *. split; [constructor; assumption|].
      cbn [sum_est fold_right sum_sz snd]. fold (sum_est rs). fold (sum_sz g). lia.
  Qed.

  Lemma multi_plan_ok : Forall (packet_ok cfg IR true) (read_build_multi conn (map rreq_of IR)).
  Proof.
    rewrite read_build_multi_shape. rewrite rvalid_all. apply Forall_app. split.
    - set (G := filter (fun r => negb (r_frag conn r)) (map rreq_of IR)).
      destruct (is_nil G) eqn:EG; [constructor|].
      unfold read_groups. rewrite rvalid_all. fold G.
      set (sized := map (fun r => (r_id r, r_est r)) G).
      assert (Hsfit : Forall (fun pr => OVH + snd pr <= conn) sized).
      { unfold sized, G. apply grouped_fit. }
      assert (Hne : sized <> []) by (unfold sized; destruct G; [discriminate|discriminate]).
      pose proof (groups_sized_fit conn sized Hsfit) as Hfit.
      pose proof (groups_sized_nonempty conn sized Hne Hsfit) as Hnonempty.
      pose proof (groups_sized_concat conn sized) as Hcat.
      assert (Hmem : forall g, In g (groups_sized conn sized) ->
                Forall (fun pr => exists r, In (fst pr, r) IR /\ snd pr = rq_est r) g).
      { intros g Hg. apply Forall_forall. intros pr Hpr.
        assert (Hin : In pr sized) by (rewrite <- Hcat; apply in_concat; eauto).
        unfold sized in Hin. apply in_map_iff in Hin. destruct Hin as (rr & <- & Hrr).
        unfold G in Hrr. apply filter_In in Hrr. destruct Hrr as [Hrr _]. apply in_map_iff in Hrr.
        destruct Hrr as ([i r] & <- & He). exists r. split; [exact He|reflexivity]. }
      rewrite Forall_forall in Hfit, Hnonempty.
      apply Forall_forall. intros pk Hpk. apply in_map_iff in Hpk. destruct Hpk as (ids & <- & Hids).
      apply in_map_iff in Hids. destruct Hids as (g & <- & Hg).
      destruct (group_members g (Hmem g Hg)) as (rs & HF2 & Hsum).
      apply (pok_multi cfg IR true (map fst g) rs eq_refl).
      + pose proof (Hnonempty g Hg). destruct g; [congruence|discriminate].
      + exact HF2.
      + destruct (Hfit g Hg) as [H|H]; [|pose proof (Hnonempty g Hg); congruence].
        rewrite Hsum. unfold OVH, Gen.Consts.MULTISERVICE_READ_OVERHEAD in H. fold conn. lia.
    - apply Forall_forall. intros pk Hpk. apply in_map_iff in Hpk. destruct Hpk as (rr & <- & Hrr).
      apply filter_In in Hrr. destruct Hrr as [Hrr _]. apply in_map_iff in Hrr. destruct Hrr as ([i r] & <- & He).
      apply (pok_frag cfg IR true i r He).
  Qed.
End Planner.

(* ================================================================ read() *)
Theorem read_transport app tags cfg st (rs : list rq) fuel ms :
  quiet app ms st -> (c_micro800 cfg = false -> ms = true) ->
  Forall (good app tags cfg) rs -> c_conn cfg < 65536 ->
  Forall (fun r => (Z.to_nat (rq_n r * rq_sz r) < fuel)%nat) rs ->
  exists st' sent,
    read (target_peer (c_conn cfg)) fuel cfg tags st (map rq_s rs)
    = (st', sent, Done (map (fun r => post_read (rq_q r) (res_of r)) rs)) /\ quiet app ms st'.
Proof.
  intros Hq Hms Hgood Hconn Hfuel.
  set (IR := tag_ids 0 rs).
  assert (HIR : Forall (fun e => good app tags cfg (snd e)) IR).
  { apply Forall_forall. intros [i r] Hin. cbn [snd]. rewrite Forall_forall in Hgood. apply Hgood.
    rewrite <- (tag_ids_snd rs 0). apply (in_map snd) in Hin. exact Hin. }
  assert (Hz : forall i r, In (i, r) IR -> zget i IR = Some r) by (intros i r H; apply zget_tag_ids; exact H).
  assert (Hnd : NoDup (map fst IR)) by apply tag_ids_nodup.
  assert (HfuelIR : Forall (fun e => (Z.to_nat (rq_n (snd e) * rq_sz (snd e)) < fuel)%nat) IR).
  { apply Forall_forall. intros [i r] Hin. cbn [snd]. rewrite Forall_forall in Hfuel. apply Hfuel.
    rewrite <- (tag_ids_snd rs 0). apply (in_map snd) in Hin. exact Hin. }
  unfold read.
  rewrite (parse_requested_ok app tags cfg rs Hgood 0). fold IR.
  rewrite (build_paths_ok app tags cfg IR HIR).
  rewrite (plan_input_ok app tags cfg IR Hnd HIR Hz).
  set (plan := read_build_requests (c_conn cfg) (c_micro800 cfg) (map rreq_of IR)).
  assert (Hplan : Forall (packet_ok cfg IR ms) plan).
  { unfold plan, read_build_requests.
    destruct (negb (length (map rreq_of IR) =? 1)%nat && negb (c_micro800 cfg)) eqn:Emode.
    - apply andb_prop in Emode. destruct Emode as [_ Em]. apply negb_true_iff in Em. rewrite (Hms Em).
      apply (multi_plan_ok cfg IR).
    - apply (single_plan_ok cfg IR ms IR). apply incl_refl. }
  destruct (run_packets_ok app tags cfg IR ms fuel HIR Hz Hconn HfuelIR plan st [] [] Hq Hplan) as (st' & sent' & Hrun & Hq').
  rewrite Hrun. exists st', sent'. split; [|exact Hq']. f_equal. f_equal.
  cbn [List.app].
  assert (Hperm : Permutation (plan_ids plan) (map fst IR)).
  { unfold plan. eapply Permutation_trans; [apply read_plan_partition|].
    rewrite rvalid_all, map_map. cbn [rreq_of r_id]. apply Permutation_refl. }
  assert (Hnd_plan : NoDup (plan_ids plan)) by (eapply Permutation_NoDup; [apply Permutation_sym; exact Hperm|exact Hnd]).
  rewrite map_map.
  replace (map (fun r : rq => post_read (rq_q r) (res_of r)) rs)
    with (map (fun e : Z * rq => post_read (rq_q (snd e)) (res_of (snd e))) IR)
    by (unfold IR; rewrite <- (tag_ids_snd rs 0) at 2; rewrite map_map; reflexivity).
  apply map_ext_in. intros [i r] Hin. cbn [fst snd].
  rewrite (rget_results IR (plan_ids plan) i Hnd_plan).
  - rewrite (Hz i r Hin). reflexivity.
  - eapply Permutation_in; [apply Permutation_sym; exact Hperm|]. apply (in_map fst) in Hin. exact Hin.
Qed.

Print Assumptions read_transport.
