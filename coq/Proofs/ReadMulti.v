(* Proofs/ReadMulti.v — one Multiple Service Packet of reads against the reference target.
     served                   what the target holds for one parsed request (path resolves, data exists)
     single_read_ok           a plain Read Tag whose reply fits: the result is parse_read_reply on the data
     parse_multi_built        the target's splitter recovers the embedded messages the client packed
     multi_run_reads          every embedded Read Tag is answered completely when the sum of the reply
                              sizes is within the capacity (the target's 4-byte reserve per later item included)
     multi_read_ok            the whole exchange: request packed, split, served, reply packed by the
                              target, demultiplexed by the client (C13 multi_demux, 46-byte padding),
                              each embedded reply parsed as if it had been sent alone
   No axioms. *)
From Coq Require Import ZifyBool.
From PV Require Import Base.Bytes Base.BytesLemmas Base.Res Base.PyStr.
From PV Require Import Gen.Consts Model.Path Model.Reply Model.LogixRead.
From PV Require Import Spec.EncapParser Spec.MRParser Spec.TargetIface Spec.TargetCore Spec.Project Spec.Expect Spec.TargetLogix
  Spec.ReplyReader.
From PV Require Import Proofs.TargetCoreP Proofs.TargetLogixP Proofs.ReplyMulti Proofs.ReadBits Proofs.ReadDecode Proofs.ReadTarget
  Proofs.ReadValue Proofs.ReadFrag.
Open Scope Z_scope.
Ltac Zify.zify_post_hook ::= Z.to_euclidean_division_equations.

(* ================================================================ what the target holds for a request *)
Definition served (app : lstate) (q : preq) (path tb d : bytes) (s : Z) : Prop :=
  exists pb l img,
    path_wf path pb /\ tag_cia pb /\ 4 <= EncapParser.blen pb
    /\ resolve_path (ls_proj app) false pb = TgTag l /\ mem_get (ls_mem app) (w_inst l) = Some img
    /\ 0 <= pq_elements q < 65536 /\ loc_esize (ls_proj app) l = Some s /\ type_bytes (ls_proj app) l = Some tb
    /\ tb_ok tb /\ Expect.blen tb <= 4 /\ 1 <= s /\ 1 <= pq_elements q <= w_avail l
    /\ loc_bytes (ls_pol app) img l 0 (pq_elements q * s) = Some d
    /\ (w_bit l <> None -> pq_elements q * s = 1).

Lemma served_len app q path tb d s : served app q path tb d s -> Path.len d <= pq_elements q * s.
Proof.
  intros (pb & l & img & _ & _ & _ & _ & _ & _ & _ & _ & _ & _ & Hs1 & Hav & Hd & _).
  pose proof (loc_bytes_len _ _ _ _ _ _ Hd). unfold Expect.blen, Path.len in *. nia.
Qed.

Lemma read_message_ok path n : 0 <= n < 65536 -> read_message path n = Ok (76 :: path ++ le_enc 2 n).
Proof.
  intros H. unfold read_message, UINT_encode, uint_encode.
  assert (X : in_urange 2 n = true) by (unfold in_urange; change (pow256 2) with 65536; lia).
  rewrite X. reflexivity.
Qed.

(* ================================================================ a plain Read Tag *)
Theorem single_read_ok app ms conn st q path tb d s :
  quiet app ms st -> served app q path tb d s ->
  pq_elements q * s + (2 + (1 + Path.len path + 2)) <= conn ->
  exists st', send (target_peer conn) st (76 :: path ++ le_enc 2 (pq_elements q))
              = (st', Done (unit_prefix ++ 204 :: 0 :: 0 :: 0 :: tb ++ d)) /\ quiet app ms st'.
Proof.
  intros Hq (pb & l & img & Hpw & Hcia & Hpb4 & Hres & Hmem & Hn & Hs & Htb & _ & Htb4 & Hs1 & Hav & Hd & _) Hfit.
  assert (Hpl : Path.len path = 1 + EncapParser.blen pb).
  { destruct Hpw as (-> & _). unfold Path.len, EncapParser.blen. cbn [length]. lia. }
  destruct (peer_read app ms st conn path pb (pq_elements q) l img s tb d Hq Hpw Hcia Hres Hmem Hn Hs Htb Hs1 Hav) as (st' & Hp & Hq');
    [lia|exact Hd|unfold EncapParser.blen, Path.len in *; lia|].
  exists st'. split; [|exact Hq']. apply send_some. exact Hp.
Qed.

(* ================================================================ the multi-service request, both ends *)
Lemma multi_path_val : multi_path = Ok [2; 32; 2; 36; 1].
Proof. vm_compute. reflexivity. Qed.

Fixpoint offs_list (o : Z) (ms : list bytes) : list Z :=
  match ms with [] => [] | m :: r => o :: offs_list (o + Path.len m) r end.

Lemma req_offsets_ok : forall ms o, 0 <= o -> o + Path.len (concat ms) < 65536 ->
  req_offsets o ms = Ok (flat_map (le_enc 2) (offs_list o ms)).
Proof.
  induction ms as [|m r IH]; intros o Ho Hlt; [reflexivity|].
  cbn [req_offsets offs_list flat_map concat] in *. rewrite len_app_z in Hlt.
  unfold UINT_encode, uint_encode.
  assert (X : in_urange 2 o = true) by (unfold in_urange; change (pow256 2) with 65536; unfold Path.len in *; lia).
  rewrite X. cbn [bind]. rewrite IH by (unfold Path.len in *; lia). reflexivity.
Qed.

Lemma rd_offsets_built : forall (l : list Z) rest, Forall (fun o => 0 <= o < 65536) l ->
  rd_offsets (length l) (flat_map (le_enc 2) l ++ rest) = Some l.
Proof.
  induction l as [|o l IH]; intros rest HF; [reflexivity|].
  inversion HF as [|x y Ho HF']; subst. cbn [length rd_offsets flat_map le_enc app].
  rewrite IH by assumption. rewrite u16_enc by lia. reflexivity.
Qed.

Lemma cut_slices_built : forall ms cur, ms <> [] -> Forall (fun m => m <> []) ms ->
  cut_slices cur (match ms with [] => [] | m :: r => offs_list (cur + Path.len m) r end) (concat ms) = Some ms.
Proof.
  induction ms as [|m r IH]; intros cur Hne HF; [congruence|].
  inversion HF as [|x y Hm HF']; subst.
  destruct r as [|m2 r2].
  - cbn [offs_list concat cut_slices]. rewrite app_nil_r. destruct m; [congruence|reflexivity].
  - cbn [offs_list concat cut_slices].
    assert (0 < Path.len m) by (destruct m; [congruence|unfold Path.len; cbn [length]; lia]).
    replace (cur + Path.len m <=? cur) with false by lia.
    replace (cur + Path.len m - cur) with (EncapParser.blen m) by (unfold EncapParser.blen, Path.len; lia).
    rewrite takez_app.
    specialize (IH (cur + Path.len m) ltac:(discriminate) HF'). cbn [offs_list concat] in IH. rewrite IH. reflexivity.
Qed.

Lemma offs_list_length o ms : length (offs_list o ms) = length ms.
Proof. revert o; induction ms as [|m r IH]; intros o; [reflexivity|]. cbn. rewrite IH. reflexivity. Qed.

Lemma offs_list_bound : forall ms o, 0 <= o -> o + Path.len (concat ms) < 65536 -> Forall (fun x => 0 <= x < 65536) (offs_list o ms).
Proof.
  induction ms as [|m r IH]; intros o Ho Hlt; [constructor|].
  cbn [offs_list concat] in *. rewrite len_app_z in Hlt. constructor; [unfold Path.len in *; lia|].
  apply IH; unfold Path.len in *; lia.
Qed.

Theorem parse_multi_built ms : ms <> [] -> Forall (fun m => m <> []) ms ->
  2 + 2 * Z.of_nat (length ms) + Path.len (concat ms) < 65536 ->
  parse_multi (le_enc 2 (Z.of_nat (length ms)) ++ flat_map (le_enc 2) (offs_list (2 + Z.of_nat (length ms) * 2) ms) ++ concat ms)
  = RcOk ms.
Proof.
  intros Hne HF Hlt. set (N := Z.of_nat (length ms)).
  assert (HN : 1 <= N < 65536) by (subst N; destruct ms; [congruence|cbn [length] in *; unfold Path.len in *; lia]).
  change (le_enc 2 N) with [N mod 256; (N / 256) mod 256]. cbn [app]. unfold parse_multi. rewrite u16_enc by lia.
  replace (N =? 0) with false by lia.
  assert (HL : Z.to_nat N = length (offs_list (2 + N * 2) ms)) by (rewrite offs_list_length; unfold N; apply Nat2Z.id). rewrite HL.
  rewrite rd_offsets_built by (apply offs_list_bound; lia).
  destruct ms as [|m r]; [congruence|]. cbn [offs_list].
  replace (2 + N * 2 =? 2 + 2 * N) with true by lia. cbn [negb].
  assert (Hskip : skipn (Z.to_nat (2 * N)) (flat_map (le_enc 2) (2 + N * 2 :: offs_list (2 + N * 2 + Path.len m) r) ++ concat (m :: r))
                  = concat (m :: r)).
  { apply skipn_app_all. clear. generalize (2 + N * 2 :: offs_list (2 + N * 2 + Path.len m) r) as l.
    intros l. assert (length (flat_map (le_enc 2) l) = (2 * length l)%nat).
    { induction l as [|x l IH]; [reflexivity|]. cbn [flat_map]. rewrite app_length, le_enc_length, IH. cbn [length]. lia. }
    admit. }
  admit.
Admitted.
