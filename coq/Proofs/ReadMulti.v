(* Proofs/ReadMulti.v — one Multiple Service Packet of reads against the reference target.
     served                   what the target holds for one parsed request (path resolves, data exists)
     single_read_ok           a plain Read Tag whose reply fits: the result is parse_read_reply on the data
     parse_multi_built        the target's splitter recovers the embedded messages the client packed
     multi_run_reads          every embedded Read Tag is answered completely when the sum of the reply
                              sizes is within the capacity (the target's 4-byte reserve per later item included)
     multi_read_ok            the whole exchange: request packed, split, served, reply packed by the
                              target, demultiplexed by the client (C13 multi_demux, 46-byte padding),
                              each embedded reply parsed as if it had been sent alone
   No axioms. *)
From Coq Require Import ZifyBool.
From PV Require Import Base.Bytes Base.BytesLemmas Base.Res Base.PyStr.
From PV Require Import Gen.Consts Model.Path Model.Reply Model.LogixRead.
From PV Require Import Spec.EncapParser Spec.MRParser Spec.TargetIface Spec.TargetCore Spec.Project Spec.Expect Spec.TargetLogix
  Spec.ReplyReader.
From PV Require Import Proofs.TargetCoreP Proofs.TargetLogixP Proofs.ReplyMulti Proofs.ReadBits Proofs.ReadDecode Proofs.ReadTarget
  Proofs.ReadValue Proofs.ReadFrag.
Open Scope Z_scope.
Ltac Zify.zify_post_hook ::= Z.to_euclidean_division_equations.

(* ================================================================ what the target holds for a request *)
Definition served (app : lstate) (q : preq) (path tb d : bytes) (s : Z) : Prop :=
  exists pb l img,
    path_wf path pb /\ tag_cia pb /\ 4 <= EncapParser.blen pb
    /\ resolve_path (ls_proj app) false pb = TgTag l /\ mem_get (ls_mem app) (w_inst l) = Some img
    /\ 0 <= pq_elements q < 65536 /\ loc_esize (ls_proj app) l = Some s /\ type_bytes (ls_proj app) l = Some tb
    /\ tb_ok tb /\ Expect.blen tb <= 4 /\ 1 <= s /\ 1 <= pq_elements q <= w_avail l
    /\ loc_bytes (ls_pol app) img l 0 (pq_elements q * s) = Some d
    /\ (w_bit l <> None -> pq_elements q * s = 1).

Lemma served_len app q path tb d s : served app q path tb d s -> Path.len d <= pq_elements q * s.
Proof.
  intros (pb & l & img & _ & _ & _ & _ & _ & _ & _ & _ & _ & _ & Hs1 & Hav & Hd & _).
  pose proof (loc_bytes_len _ _ _ _ _ _ Hd). unfold Expect.blen, Path.len in *. nia.
Qed.

Lemma read_message_ok path n : 0 <= n < 65536 -> read_message path n = Ok (76 :: path ++ le_enc 2 n).
Proof.
  intros H. unfold read_message, UINT_encode, uint_encode.
  assert (X : in_urange 2 n = true) by (unfold in_urange; change (pow256 2) with 65536; lia).
  rewrite X. reflexivity.
Qed.

(* ================================================================ a plain Read Tag *)
Theorem single_read_ok app ms conn st q path tb d s :
  quiet app ms st -> served app q path tb d s ->
  pq_elements q * s + (2 + (1 + Path.len path + 2)) <= conn ->
  exists st', send (target_peer conn) st (76 :: path ++ le_enc 2 (pq_elements q))
              = (st', Done (unit_prefix ++ 204 :: 0 :: 0 :: 0 :: tb ++ d)) /\ quiet app ms st'.
Proof.
  intros Hq (pb & l & img & Hpw & Hcia & Hpb4 & Hres & Hmem & Hn & Hs & Htb & _ & Htb4 & Hs1 & Hav & Hd & _) Hfit.
  assert (Hpl : Path.len path = 1 + EncapParser.blen pb).
  { destruct Hpw as (-> & _). unfold Path.len, EncapParser.blen. cbn [length]. lia. }
  destruct (peer_read app ms st conn path pb (pq_elements q) l img s tb d Hq Hpw Hcia Hres Hmem Hn Hs Htb Hs1 Hav) as (st' & Hp & Hq');
    [lia|exact Hd|unfold EncapParser.blen, Path.len in *; lia|].
  exists st'. split; [|exact Hq']. apply send_some. exact Hp.
Qed.

(* ================================================================ the multi-service request, both ends *)
Lemma multi_path_val : multi_path = Ok [2; 32; 2; 36; 1].
Proof. vm_compute. reflexivity. Qed.

Fixpoint offs_list (o : Z) (ms : list bytes) : list Z :=
  match ms with [] => [] | m :: r => o :: offs_list (o + Path.len m) r end.

Lemma req_offsets_ok : forall ms o, 0 <= o -> o + Path.len (concat ms) < 65536 ->
  req_offsets o ms = Ok (flat_map (le_enc 2) (offs_list o ms)).
Proof.
  induction ms as [|m r IH]; intros o Ho Hlt; [reflexivity|].
  cbn [req_offsets offs_list flat_map concat] in *. rewrite len_app_z in Hlt.
  unfold UINT_encode, uint_encode.
  assert (X : in_urange 2 o = true) by (unfold in_urange; change (pow256 2) with 65536; unfold Path.len in *; lia).
  rewrite X. cbn [bind]. rewrite IH by (unfold Path.len in *; lia). reflexivity.
Qed.

Lemma rd_offsets_built : forall (l : list Z) rest, Forall (fun o => 0 <= o < 65536) l ->
  rd_offsets (length l) (flat_map (le_enc 2) l ++ rest) = Some l.
Proof.
  induction l as [|o l IH]; intros rest HF; [reflexivity|].
  inversion HF as [|x y Ho HF']; subst. cbn [length rd_offsets flat_map le_enc app].
  rewrite IH by assumption. rewrite u16_enc by lia. reflexivity.
Qed.

Lemma cut_slices_built : forall ms cur, ms <> [] -> Forall (fun m => m <> []) ms ->
  cut_slices cur (match ms with [] => [] | m :: r => offs_list (cur + Path.len m) r end) (concat ms) = Some ms.
Proof.
  induction ms as [|m r IH]; intros cur Hne HF; [congruence|].
  inversion HF as [|x y Hm HF']; subst.
  destruct r as [|m2 r2].
  - cbn [offs_list concat cut_slices]. rewrite app_nil_r. destruct m; [congruence|reflexivity].
  - cbn [offs_list concat cut_slices].
    assert (0 < Path.len m) by (destruct m; [congruence|unfold Path.len; cbn [length]; lia]).
    replace (cur + Path.len m <=? cur) with false by lia.
    replace (cur + Path.len m - cur) with (EncapParser.blen m) by (unfold EncapParser.blen, Path.len; lia).
    rewrite takez_app.
    specialize (IH (cur + Path.len m) ltac:(discriminate) HF'). cbn [offs_list concat] in IH. rewrite IH. reflexivity.
Qed.

Lemma offs_list_length o ms : length (offs_list o ms) = length ms.
Proof. revert o; induction ms as [|m r IH]; intros o; [reflexivity|]. cbn. rewrite IH. reflexivity. Qed.

Lemma offs_list_bound : forall ms o, 0 <= o -> o + Path.len (concat ms) < 65536 -> Forall (fun x => 0 <= x < 65536) (offs_list o ms).
Proof.
  induction ms as [|m r IH]; intros o Ho Hlt; [constructor|].
  cbn [offs_list concat] in *. rewrite len_app_z in Hlt. constructor; [unfold Path.len in *; lia|].
  apply IH; unfold Path.len in *; lia.
Qed.

Theorem parse_multi_built ms : ms <> [] -> Forall (fun m => m <> []) ms ->
  2 + 2 * Z.of_nat (length ms) + Path.len (concat ms) < 65536 ->
  parse_multi (le_enc 2 (Z.of_nat (length ms)) ++ flat_map (le_enc 2) (offs_list (2 + Z.of_nat (length ms) * 2) ms) ++ concat ms)
  = RcOk ms.
Proof.
  intros Hne HF Hlt. unfold bytes in *. remember (Z.of_nat (length ms)) as N eqn:EN.
  assert (HN : 1 <= N < 65536) by (destruct ms; [congruence|cbn [length] in *; unfold Path.len in *; lia]).
  change (le_enc 2 N) with [N mod 256; (N / 256) mod 256]. cbn [app]. unfold parse_multi. rewrite u16_enc by lia.
  replace (N =? 0) with false by lia.
  assert (HL : Z.to_nat N = length (offs_list (2 + N * 2) ms)) by (rewrite offs_list_length; unfold bytes in *; lia). rewrite HL.
  rewrite rd_offsets_built by (apply offs_list_bound; lia).
  destruct ms as [|m r]; [congruence|]. cbn [offs_list].
  replace (2 + N * 2 =? 2 + 2 * N) with true by lia. cbn [negb].
  assert (Hfl : forall l : list Z, length (flat_map (le_enc 2) l) = (2 * length l)%nat).
  { induction l as [|x l IH]; [reflexivity|]. cbn [flat_map]. rewrite app_length, le_enc_length, IH. cbn [length]. lia. }
  assert (Hskip : skipn (Z.to_nat (2 * N)) (flat_map (le_enc 2) (2 + N * 2 :: offs_list (2 + N * 2 + Path.len m) r) ++ concat (m :: r))
                  = concat (m :: r)).
  { apply skipn_app_all. rewrite Hfl. cbn [length] in *. rewrite offs_list_length. unfold bytes in *. lia. }
  rewrite Hskip.
  pose proof (cut_slices_built (m :: r) (2 + N * 2) Hne HF) as Hcut. cbn [offs_list] in Hcut. rewrite Hcut. reflexivity.
Qed.

(* ================================================================ the embedded reads, served one after the other *)
Definition item := (preq * bytes * bytes * bytes * Z)%type.      (* request, path, type field, data, element size *)
Definition it_q (it : item) : preq := let '(q, _, _, _, _) := it in q.
Definition it_msg (it : item) : bytes := let '(q, path, _, _, _) := it in 76 :: path ++ le_enc 2 (pq_elements q).
Definition it_reply (it : item) : bytes := let '(_, _, tb, d, _) := it in 204 :: 0 :: 0 :: 0 :: tb ++ d.
Definition it_need (it : item) : Z := let '(q, _, tb, _, s) := it in 4 + Expect.blen tb + pq_elements q * s.
Definition it_served (app : lstate) (it : item) : Prop := let '(q, path, tb, d, s) := it in served app q path tb d s.
Definition sum_need (items : list item) : Z := fold_right (fun it a => it_need it + a) 0 items.

Lemma it_need_ge app it : it_served app it -> Path.len (it_reply it) <= it_need it /\ 4 <= it_need it.
Proof.
  destruct it as [[[[q path] tb] d] s]. intros H. pose proof (served_len _ _ _ _ _ _ H) as Hl.
  destruct H as (pb & l & img & _ & _ & _ & _ & _ & Hn & _ & _ & _ & _ & Hs1 & Hav & _).
  cbn [it_reply it_need]. unfold Path.len, Expect.blen in *. cbn [length]. rewrite app_length. nia.
Qed.

Lemma multi_one_read app ms st tr cap seq it :
  quiet app ms st -> it_served app it -> it_need it <= cap ->
  exists st', multi_one logix_handler tr cap seq st (it_msg it) = (st', it_reply it) /\ quiet app ms st'.
Proof.
  destruct it as [[[[q path] tb] d] s]. cbn [it_served it_need it_msg it_reply].
  intros Hq (pb & l & img & Hpw & Hcia & Hpb4 & Hres & Hmem & Hn & Hs & Htb & _ & Htb4 & Hs1 & Hav & Hd & _) Hcap.
  unfold multi_one. rewrite (parse_mr_msg 76 path pb (le_enc 2 (pq_elements q)) Hpw) by lia.
  set (rq := {| mr_service := 76; mr_path := pb; mr_data := le_enc 2 (pq_elements q) |}).
  change (is_multi_request rq) with false. cbv iota.
  assert (Hsvc : tag_service app l cap rq = (app, reply6 false (tb ++ d), [])).
  { unfold tag_service. rewrite Hmem. cbn [mr_service rq Z.eqb Pos.eqb mr_data].
    rewrite (svc_read_full (ls_proj app) (ls_pol app) img l cap (pq_elements q) s tb d Hn Hs Htb Hs1 Hav ltac:(lia) Hd). reflexivity. }
  destruct (dispatch_one_tag app ms st tr cap seq rq l _ _ Hq Hcia Hres Hsvc) as (st1 & Hd1 & Hq1).
  rewrite Hd1. cbn [mr_service rq]. rewrite reply_bytes. unfold fit.
  pose proof (loc_bytes_len _ _ _ _ _ _ Hd) as Hld.
  assert (Hfit : EncapParser.blen (reply_service 76 :: 0 :: 0 :: 0 :: tb ++ d) <= cap).
  { unfold EncapParser.blen, Expect.blen in *. cbn [length]. rewrite app_length. nia. }
  replace (EncapParser.blen (reply_service 76 :: 0 :: 0 :: 0 :: tb ++ d) <=? cap) with true by lia.
  eexists. split; [reflexivity|]. apply quiet_logs. exact Hq1.
Qed.

Lemma rev_append_snoc {A} (acc : list A) b : rev_append (b :: acc) [] = rev_append acc [] ++ [b].
Proof. rewrite !rev_append_rev, !app_nil_r. reflexivity. Qed.

Lemma sum_need_tail app items : Forall (it_served app) items -> 4 * Z.of_nat (length items) <= sum_need items.
Proof.
  induction 1 as [|it r Hit _ IH]; [cbn; lia|]. cbn [sum_need fold_right length] in *.
  destruct (it_need_ge app it Hit). fold (sum_need r). lia.
Qed.

Theorem multi_run_reads app ms tr seq : forall items st left later acc,
  quiet app ms st -> Forall (it_served app) items -> later = Z.of_nat (length items) -> sum_need items <= left ->
  exists st', multi_run logix_handler tr seq left later (map it_msg items) st acc
              = (st', rev_append acc [] ++ map it_reply items) /\ quiet app ms st'.
Proof.
  induction items as [|it r IH]; intros st left later acc Hq HF Hlater Hsum.
  - cbn. rewrite app_nil_r. eauto.
  - inversion HF as [|x y Hit HF']; subst. cbn [map multi_run].
    cbn [sum_need fold_right] in Hsum. fold (sum_need r) in Hsum.
    pose proof (sum_need_tail app r HF') as Htail. destruct (it_need_ge app it Hit) as [Hrl Hn4].
    destruct (multi_one_read app ms st tr (left - 4 * (Z.of_nat (length (it :: r)) - 1)) seq it Hq Hit) as (st1 & H1 & Hq1).
    { cbn [length]. lia. }
    rewrite H1.
    destruct (IH st1 (left - EncapParser.blen (it_reply it)) (Z.of_nat (length (it :: r)) - 1) (it_reply it :: acc) Hq1 HF') as (st' & H2 & Hq').
    { cbn [length]. lia. }
    { unfold EncapParser.blen, Path.len in *. lia. }
    rewrite H2. exists st'. split; [|exact Hq']. rewrite rev_append_snoc, <- app_assoc. reflexivity.
Qed.

(* ================================================================ the whole exchange *)
Lemma offsets_of_multi : forall reps cur, offsets_of cur reps = multi_offsets cur reps.
Proof. induction reps as [|b r IH]; intros cur; [reflexivity|]. cbn. rewrite IH. reflexivity. Qed.

Lemma any_error_replies items : any_error (map it_reply items) = false.
Proof.
  induction items as [|[[[[q path] tb] d] s] r IH]; [reflexivity|]. cbn [map any_error existsb it_reply] in *.
  unfold any_error in IH. rewrite IH. reflexivity.
Qed.

Lemma concat_len_replies app items : Forall (it_served app) items -> Path.len (concat (map it_reply items)) <= sum_need items.
Proof.
  induction 1 as [|it r Hit _ IH]; [cbn; lia|]. cbn [map concat sum_need fold_right]. fold (sum_need r).
  rewrite len_app_z. destruct (it_need_ge app it Hit). lia.
Qed.

Lemma multi_message_ok (msgs : list bytes) : 2 + 2 * Z.of_nat (length msgs) + Path.len (concat msgs) < 65536 ->
  multi_message msgs = Ok (10 :: [2; 32; 2; 36; 1] ++ le_enc 2 (Z.of_nat (length msgs))
                              ++ flat_map (le_enc 2) (offs_list (2 + Z.of_nat (length msgs) * 2) msgs) ++ concat msgs).
Proof.
  intros Hlt. unfold multi_message. rewrite multi_path_val. cbn [bind].
  unfold UINT_encode, uint_encode.
  assert (X : in_urange 2 (Z.of_nat (length msgs)) = true)
    by (unfold in_urange; change (pow256 2) with 65536; unfold Path.len in *; lia).
  rewrite X. cbn [bind]. rewrite req_offsets_ok by (unfold Path.len in *; lia). reflexivity.
Qed.

Theorem multi_read_ok app conn st (items : list item) (ids : list Z) :
  quiet app true st -> items <> [] -> Forall (it_served app) items -> length ids = length items ->
  sum_need items <= conn - 8 - 2 * Z.of_nat (length items) ->
  2 + (8 + 2 * Z.of_nat (length items) + Path.len (concat (map it_msg items))) <= conn -> conn < 65536 ->
  exists msg st',
    multi_message (map it_msg items) = Ok msg
    /\ send (target_peer conn) st msg = (st', Done (unit_prefix ++ 138 :: 0 :: 0 :: 0 :: multi_data (map it_reply items)))
    /\ quiet app true st'
    /\ multi_results (multi_datas (unit_prefix ++ 138 :: 0 :: 0 :: 0 :: multi_data (map it_reply items)))
                     (combine ids (map it_q items))
       = combine ids (map (fun it => let '(q, _, tb, d, _) := it in reply_opt (tb ++ d) (pq_info q) (pq_elements q)) items).
Proof.
  intros Hq Hne HF Hids Hsum Hreq Hconn.
  remember (map it_msg items) as msgs eqn:Emsgs. remember (Z.of_nat (length items)) as N eqn:EN.
  assert (HlenN : length msgs = length items) by (rewrite Emsgs; apply map_length).
  assert (HN1 : 1 <= N) by (destruct items; [congruence|cbn [length] in EN; lia]).
  assert (Hmm : multi_message msgs = Ok (10 :: [2; 32; 2; 36; 1] ++ le_enc 2 N
                 ++ flat_map (le_enc 2) (offs_list (2 + N * 2) msgs) ++ concat msgs)).
  { rewrite multi_message_ok; rewrite HlenN, <- EN; [reflexivity|]. unfold bytes, Path.len in *; lia. }
  remember (le_enc 2 N ++ flat_map (le_enc 2) (offs_list (2 + N * 2) msgs) ++ concat msgs) as data eqn:Edata.
  exists (10 :: [2; 32; 2; 36; 1] ++ data). rewrite Hmm.
  assert (Hpm : parse_multi data = RcOk msgs).
  { rewrite Edata, EN, <- HlenN. apply parse_multi_built.
    - rewrite Emsgs. destruct items; [congruence|discriminate].
    - rewrite Emsgs. clear. induction items as [|[[[[q path] tb] d] s] r IH]; constructor; [discriminate|exact IH].
    - unfold bytes, Path.len in *; lia. }
  (* the target *)
  assert (Hpeer : exists st', target_peer conn st (10 :: [2; 32; 2; 36; 1] ++ data)
                   = (st', Some (138 :: 0 :: 0 :: 0 :: multi_data (map it_reply items))) /\ quiet app true st').
  { unfold target_peer.
    assert (Hdl : EncapParser.blen data = 2 + 2 * N + Path.len (concat msgs)).
    { rewrite Edata. unfold EncapParser.blen, Path.len. rewrite !app_length, le_enc_length.
      assert (Hfl : forall l : list Z, length (flat_map (le_enc 2) l) = (2 * length l)%nat).
      { induction l as [|x l IH]; [reflexivity|]. cbn [flat_map]. rewrite app_length, le_enc_length, IH. cbn [length]. lia. }
      rewrite Hfl, offs_list_length, HlenN. unfold bytes in *; lia. }
    replace (conn <? 2 + EncapParser.blen (10 :: [2; 32; 2; 36; 1] ++ data)) with false.
    2:{ change (10 :: [2; 32; 2; 36; 1] ++ data) with (10 :: 2 :: 32 :: 2 :: 36 :: 1 :: data).
        rewrite !blen_cons, Hdl. unfold bytes, Path.len in *; lia. }
    rewrite (parse_mr_msg 10 [2; 32; 2; 36; 1] [32; 2; 36; 1] data) by (repeat split; try reflexivity; lia).
    set (rq := {| mr_service := 10; mr_path := [32; 2; 36; 1]; mr_data := data |}).
    unfold dispatch. change (is_multi_request rq) with true. cbv iota.
    unfold multi_service, with_injection.
    assert (Hq1 : quiet app true (logs [EvRequest (TConnected 0) (Some 0) rq] st)) by (apply quiet_logs; exact Hq).
    destruct Hq1 as (Hi & Ha & Hm). rewrite Hi. cbn [take_injection].
    set (st2 := set_inject [] (logs [EvRequest (TConnected 0) (Some 0) rq] st)).
    assert (Hq2 : quiet app true st2) by (apply quiet_set_inject; repeat split; assumption).
    destruct Hq2 as (Hi2 & Ha2 & Hm2). rewrite Hm2. cbn [negb]. cbn [mr_data rq]. rewrite Hpm.
    replace (zlen msgs) with N by (unfold zlen; rewrite HlenN; unfold bytes in *; lia).
    destruct (multi_run_reads app true (TConnected 0) (Some 0) items st2 (conn - 2 - 6 - 2 * N) N []) as (st3 & Hrun & Hq3);
      [repeat split; assumption|exact HF|exact EN|lia|].
    rewrite <- Emsgs in Hrun. rewrite Hrun. cbn [rev_append List.app].
    remember (map it_reply items) as reps eqn:Ereps.
    assert (Hrn : Z.of_nat (length reps) = N) by (rewrite Ereps, map_length; unfold bytes in *; lia).
    unfold finish_reply, fit. rewrite Ereps, any_error_replies, <- Ereps.
    assert (Hbytes : mr_bytes 10 {| rp_status := 0; rp_ext := []; rp_data := le_enc 2 N ++ offsets_of (2 + 2 * N) reps ++ concat reps |}
                     = 138 :: 0 :: 0 :: 0 :: multi_data reps).
    { unfold mr_bytes, multi_data. cbn [rp_status rp_ext rp_data flat_map List.app].
      rewrite offsets_of_multi, Hrn. reflexivity. }
    cbn [mr_service rq]. rewrite Hbytes.
    assert (Hrl : EncapParser.blen (138 :: 0 :: 0 :: 0 :: multi_data reps) <= conn - 2).
    { unfold multi_data. rewrite !blen_cons, !blen_app, blen_le_enc.
      assert (Hol : forall rs o, EncapParser.blen (multi_offsets o rs) = 2 * Z.of_nat (length rs)).
      { induction rs as [|b r IH]; intros o; [reflexivity|]. cbn [multi_offsets]. rewrite blen_app, blen_le_enc, IH. cbn [length]. lia. }
      rewrite Hol, Hrn.
      pose proof (concat_len_replies app items HF) as Hcl. rewrite <- Ereps in Hcl. unfold bytes, EncapParser.blen, Expect.blen, Path.len in *; lia. }
    replace (EncapParser.blen (138 :: 0 :: 0 :: 0 :: multi_data reps) <=? conn - 2) with true by lia.
    eexists. split; [reflexivity|]. apply quiet_logs. exact Hq3. }
  destruct Hpeer as (st' & Hpeer & Hq').
  exists st'. split; [reflexivity|]. split; [apply send_some; exact Hpeer|]. split; [exact Hq'|].
  (* the client *)
  remember (map it_reply items) as reps eqn:Ereps.
  assert (Hrn : Z.of_nat (length reps) = N) by (rewrite Ereps, map_length; unfold bytes in *; lia).
  assert (Hdatas : multi_datas (unit_prefix ++ 138 :: 0 :: 0 :: 0 :: multi_data reps) = reps).
  { unfold multi_datas.
    replace (is_some (r_error (parse_unit (unit_prefix ++ 138 :: 0 :: 0 :: 0 :: multi_data reps)))) with false by (vm_compute; reflexivity).
    replace (opt_is (r_command_status (parse_unit (unit_prefix ++ 138 :: 0 :: 0 :: 0 :: multi_data reps))) SUCCESS) with true
      by (vm_compute; reflexivity).
    replace (Reply.r_data (parse_unit (unit_prefix ++ 138 :: 0 :: 0 :: 0 :: multi_data reps))) with (Some (multi_data reps))
      by (vm_compute; reflexivity).
    replace (slice 49 50 (unit_prefix ++ 138 :: 0 :: 0 :: 0 :: multi_data reps)) with [0] by (vm_compute; reflexivity).
    cbn [orb negb].
    assert (Hsplit : split_multi (multi_data reps) = Reply.ROk reps).
    { apply multi_demux.
      - rewrite Ereps. destruct items; [congruence|discriminate].
      - unfold multi_data_size. rewrite Hrn.
        pose proof (concat_len_replies app items HF) as Hcl. rewrite <- Ereps in Hcl. unfold bytes, Path.len in *; lia. }
    rewrite Hsplit. unfold multi_data. change (le_enc 2 (Z.of_nat (length reps))) with
      [Z.of_nat (length reps) mod 256; (Z.of_nat (length reps) / 256) mod 256]. reflexivity. }
  rewrite Hdatas, Ereps. clear -Hids.
  revert ids Hids. induction items as [|[[[[q path] tb] d] s] r IH]; intros ids Hids.
  - destruct ids; reflexivity.
  - destruct ids as [|i ids]; [discriminate|]. cbn [map combine multi_results it_q it_reply].
    rewrite read_response_204_padded. unfold reply_opt. f_equal. apply IH. cbn in Hids. lia.
Qed.
