(* Proofs/WriteBits.v — the Read-Modify-Write masks (C02 `rmw_effect`), by bitwise reasoning
   (Z.testbit), for ALL bit lists; nothing is enumerated.

     masks_testbit        bit k of the OR / AND mask after any sequence of set_bit calls = the value of
                          the LAST call naming k, else the initial bit
     apply_bits_testbit   the reference (Spec/Expect.set_bit_byte folded over the list) likewise
     rmw_bytes_le_enc     the target's byte-wise (old | or) & and on little-endian images = the same
                          operation on the integers
     firstn_le_enc        ULINT.encode(m)[:size] = the size-byte encoding of m: the masks have the tag's width
     rmw_effect           for every old value, every list of bit writes (merged per tag): what the
                          target stores = the reference applied to exactly the named bits below the
                          width; every other bit keeps its old value *)
From Coq Require Import ZifyBool.
From PV Require Import Base.Bytes Base.BytesLemmas Base.Res Model.Path Model.LogixWrite Spec.Project Spec.Expect Spec.TargetLogix.
Open Scope Z_scope.
Ltac Zify.zify_post_hook ::= Z.to_euclidean_division_equations.

(* ------------------------------------------------------------------ last write to a bit *)
Fixpoint last_write (bl : list (Z * bool)) (k : Z) : option bool :=
  match bl with
  | [] => None
  | (b, v) :: r => match last_write r k with
                   | Some v' => Some v'
                   | None => if b =? k then Some v else None
                   end
  end.

Definition or_default (o : option bool) (d : bool) : bool := match o with Some v => v | None => d end.

Lemma last_write_app bl b v k :
  last_write (bl ++ [(b, v)]) k = if b =? k then Some v else last_write bl k.
Proof.
  induction bl as [|[b' v'] r IH]; cbn [app last_write].
  - reflexivity.
  - rewrite IH. destruct (b =? k); [reflexivity|]. reflexivity.
Qed.

(* the bit a set_bit call really names *)
Definition eff_bit (dword : bool) (b : Z) : Z := if dword then b mod 32 else b.
Definition eff (dword : bool) (bl : list (Z * bool)) : list (Z * bool) := map (fun bv => (eff_bit dword (fst bv), snd bv)) bl.

Lemma testbit_one_shift b k : 0 <= b -> Z.testbit (Z.shiftl 1 b) k = (b =? k).
Proof. intros Hb. rewrite Z.shiftl_1_l. apply Z.pow2_bits_eqb, Hb. Qed.

(* one set_bit step on either mask *)
Lemma step_testbit dword o a b v k : 0 <= eff_bit dword b -> 0 <= k ->
  let '(o', a') := set_bit_masks dword o a b v in
  Z.testbit o' k = (if eff_bit dword b =? k then v else Z.testbit o k)
  /\ Z.testbit a' k = (if eff_bit dword b =? k then v else Z.testbit a k).
Proof.
  intros Hb Hk. unfold set_bit_masks. fold (eff_bit dword b). set (e := eff_bit dword b) in *.
  destruct v.
  - rewrite !Z.lor_spec, testbit_one_shift by exact Hb. destruct (e =? k); split; try reflexivity; apply orb_false_r || apply orb_true_r.
  - rewrite !Z.land_spec, Z.lnot_spec, testbit_one_shift by assumption.
    destruct (e =? k); cbn [negb]; split; try apply andb_false_r; apply andb_true_r.
Qed.

Lemma fold_masks_testbit dword bl : forall o a k,
  Forall (fun bv => 0 <= eff_bit dword (fst bv)) bl -> 0 <= k ->
  let r := fold_left (fun st bv => set_bit_masks dword (fst st) (snd st) (fst bv) (snd bv)) bl (o, a) in
  Z.testbit (fst r) k = or_default (last_write (eff dword bl) k) (Z.testbit o k)
  /\ Z.testbit (snd r) k = or_default (last_write (eff dword bl) k) (Z.testbit a k).
Proof.
  induction bl as [|[b v] r IH] using rev_ind; intros o a k Hall Hk.
  - cbn. auto.
  - apply Forall_app in Hall as [Hr Hb]. inversion Hb as [|? ? Hb0 _]; subst. cbn [fst] in Hb0.
    rewrite fold_left_app. cbn [fold_left].
    specialize (IH o a k Hr Hk). cbn zeta in IH.
    set (st := fold_left _ r (o, a)) in *. destruct st as [o1 a1]. cbn [fst snd] in *.
    pose proof (step_testbit dword o1 a1 b v k Hb0 Hk) as S.
    destruct (set_bit_masks dword o1 a1 b v) as [o2 a2]. cbn [fst snd].
    unfold eff. rewrite map_app. cbn [map fst snd]. rewrite last_write_app.
    destruct S as [S1 S2]. rewrite S1, S2.
    destruct (eff_bit dword b =? k); [split; reflexivity|].
    fold (eff dword r). exact IH.
Qed.

Definition ALL64 : Z := 18446744073709551615.
Lemma all64_ones : ALL64 = Z.ones 64.
Proof. reflexivity. Qed.

Theorem masks_testbit dword bl k :
  Forall (fun bv => 0 <= eff_bit dword (fst bv)) bl -> 0 <= k ->
  Z.testbit (fst (rmw_masks dword bl)) k = or_default (last_write (eff dword bl) k) false
  /\ Z.testbit (snd (rmw_masks dword bl)) k = or_default (last_write (eff dword bl) k) (k <? 64).
Proof.
  intros Hall Hk. unfold rmw_masks.
  pose proof (fold_masks_testbit dword bl 0 ALL64 k Hall Hk) as H. cbn zeta in H.
  rewrite Z.bits_0 in H. rewrite all64_ones, Z.testbit_ones_nonneg in H by lia. exact H.
Qed.

(* ------------------------------------------------------------------ the reference: set_bit_byte folded *)
Definition apply_bits (old : Z) (bl : list (Z * bool)) : Z :=
  fold_left (fun x bv => set_bit_byte x (fst bv) (snd bv)) bl old.

Lemma apply_bits_testbit bl : forall old k,
  Forall (fun bv => 0 <= fst bv) bl -> 0 <= k ->
  Z.testbit (apply_bits old bl) k = or_default (last_write bl k) (Z.testbit old k).
Proof.
  induction bl as [|[b v] r IH] using rev_ind; intros old k Hall Hk.
  - reflexivity.
  - apply Forall_app in Hall as [Hr Hb]. inversion Hb as [|? ? Hb0 _]; subst. cbn [fst] in Hb0.
    unfold apply_bits. rewrite fold_left_app. cbn [fold_left fst snd]. fold (apply_bits old r).
    rewrite last_write_app. unfold set_bit_byte. destruct v.
    + rewrite Z.setbit_eqb by exact Hb0. destruct (b =? k); [reflexivity|]. cbn [orb]. apply IH; assumption.
    + rewrite Z.clearbit_eqb by exact Hb0. destruct (b =? k); cbn [negb]; [apply andb_false_r|].
      rewrite andb_true_r. apply IH; assumption.
Qed.

(* ------------------------------------------------------------------ little-endian images *)
Lemma pow256_pow2 w : pow256 w = 2 ^ (8 * Z.of_nat w).
Proof. unfold pow256. replace 256 with (2 ^ 8) by reflexivity. rewrite <- Z.pow_mul_r by lia. reflexivity. Qed.

Lemma land_lor_mod256 x y z : Z.land (Z.lor (x mod 256) (y mod 256)) (z mod 256) = (Z.land (Z.lor x y) z) mod 256.
Proof.
  apply Z.bits_inj'. intros n Hn. change 256 with (2 ^ 8).
  rewrite Z.land_spec, Z.lor_spec, !Z.testbit_mod_pow2 by lia. rewrite Z.land_spec, Z.lor_spec.
  destruct (n <? 8); cbn [andb]; [reflexivity|]. reflexivity.
Qed.

Lemma land_lor_div256 x y z : Z.land (Z.lor (x / 256) (y / 256)) (z / 256) = (Z.land (Z.lor x y) z) / 256.
Proof.
  apply Z.bits_inj'. intros n Hn. change 256 with (2 ^ 8).
  rewrite Z.land_spec, Z.lor_spec, !Z.div_pow2_bits by lia. rewrite Z.land_spec, Z.lor_spec. reflexivity.
Qed.

Theorem rmw_bytes_le_enc n : forall x y z,
  rmw_bytes (le_enc n x) (le_enc n y) (le_enc n z) = le_enc n (Z.land (Z.lor x y) z).
Proof.
  induction n as [|n IH]; intros x y z; cbn [le_enc rmw_bytes]; [reflexivity|].
  rewrite IH, land_lor_mod256, land_lor_div256. reflexivity.
Qed.

Lemma firstn_le_enc n : forall m z, (n <= m)%nat -> firstn n (le_enc m z) = le_enc n z.
Proof.
  induction n as [|n IH]; intros m z H; [reflexivity|].
  destruct m as [|m]; [lia|]. cbn [le_enc firstn]. rewrite IH by lia. reflexivity.
Qed.

(* ------------------------------------------------------------------ masks are encodable and have the tag's width *)
Lemma nonneg_of_bits z : (forall k, 0 <= k -> Z.testbit z k = true -> k < 64) -> (exists k, 0 <= k /\ Z.testbit z k = false /\ forall j, k <= j -> Z.testbit z j = false) -> 0 <= z < 2 ^ 64.
Proof.
  intros Hhi [k0 (Hk0 & _ & Hz)].
  assert (Hn : 0 <= z).
  { apply Z.bits_iff_nonneg_ex. exists k0. intros m Hm. apply Hz. lia. }
  split; [exact Hn|].
  destruct (Z.eq_dec z 0) as [->|Hnz]; [lia|].
  assert (Hpos : 0 < z) by lia.
  pose proof (Z.bit_log2 z Hpos) as Hb. pose proof (Z.log2_nonneg z) as Hl.
  specialize (Hhi (Z.log2 z) Hl Hb).
  apply Z.log2_lt_pow2; lia.
Qed.

Theorem masks_range dword bl :
  Forall (fun bv => 0 <= eff_bit dword (fst bv) < 64) bl ->
  0 <= fst (rmw_masks dword bl) < 2 ^ 64 /\ 0 <= snd (rmw_masks dword bl) < 2 ^ 64.
Proof.
  intros Hall.
  assert (Hnn : Forall (fun bv => 0 <= eff_bit dword (fst bv)) bl) by (eapply Forall_impl; [|exact Hall]; cbn; lia).
  assert (Hlw : forall k, 64 <= k -> last_write (eff dword bl) k = None).
  { intros k Hk. clear Hnn. induction Hall as [|[b v] r Hb Hr IH]; [reflexivity|].
    cbn [eff map last_write fst snd]. fold (eff dword r). rewrite IH. cbn [fst] in Hb.
    destruct (eff_bit dword b =? k) eqn:E; [lia|reflexivity]. }
  split; apply nonneg_of_bits.
  - intros k Hk Ht. destruct (Z_lt_le_dec k 64); [assumption|].
    destruct (masks_testbit dword bl k Hnn Hk) as [H1 _]. rewrite Hlw in H1 by lia. cbn in H1. congruence.
  - exists 64. split; [lia|]. split.
    + destruct (masks_testbit dword bl 64 Hnn ltac:(lia)) as [H1 _]. rewrite Hlw in H1 by lia. exact H1.
    + intros j Hj. destruct (masks_testbit dword bl j Hnn ltac:(lia)) as [H1 _]. rewrite Hlw in H1 by lia. exact H1.
  - intros k Hk Ht. destruct (Z_lt_le_dec k 64); [assumption|].
    destruct (masks_testbit dword bl k Hnn Hk) as [_ H2]. rewrite Hlw in H2 by lia. cbn [or_default] in H2. rewrite H2 in Ht. lia.
  - exists 64. split; [lia|]. split.
    + destruct (masks_testbit dword bl 64 Hnn ltac:(lia)) as [_ H2]. rewrite Hlw in H2 by lia. exact H2.
    + intros j Hj. destruct (masks_testbit dword bl j Hnn ltac:(lia)) as [_ H2]. rewrite Hlw in H2 by lia.
      cbn [or_default] in H2. rewrite H2. lia.
Qed.

(* ULINT.encode(mask)[: size] is the size-byte encoding: masks have the tag's width *)
Theorem mask_bytes_width m size : 0 <= m < 2 ^ 64 -> 0 <= size <= 8 ->
  mask_bytes m size = Ok (le_enc (Z.to_nat size) m) /\ length (le_enc (Z.to_nat size) m) = Z.to_nat size.
Proof.
  intros Hm Hs. unfold mask_bytes, uint_encode, in_urange.
  replace (pow256 8) with (2 ^ 64) by reflexivity.
  replace ((0 <=? m) && (m <? 2 ^ 64)) with true by lia.
  rewrite firstn_le_enc by lia. split; [reflexivity|apply le_enc_length].
Qed.

(* ------------------------------------------------------------------ rmw_effect *)
Definition in_width (size : Z) (bv : Z * bool) : bool := fst bv <? 8 * size.

Lemma last_write_filter f bl k : (forall b v, In (b, v) bl -> b = k -> f (b, v) = true) ->
  last_write (filter f bl) k = last_write bl k.
Proof.
  induction bl as [|[b v] r IH]; intros H; [reflexivity|].
  cbn [filter last_write].
  assert (Hr : last_write (filter f r) k = last_write r k) by (apply IH; intros; apply H; [right|]; assumption).
  destruct (f (b, v)) eqn:E.
  - cbn [last_write]. rewrite Hr. reflexivity.
  - rewrite Hr. destruct (last_write r k); [reflexivity|].
    destruct (b =? k) eqn:Eb; [|reflexivity]. rewrite H in E; [discriminate|left; reflexivity|lia].
Qed.

Lemma last_write_none_out f bl k : (forall b v, In (b, v) bl -> f (b, v) = true -> b <> k) ->
  last_write (filter f bl) k = None.
Proof.
  induction bl as [|[b v] r IH]; intros H; [reflexivity|].
  cbn [filter]. assert (Hr : last_write (filter f r) k = None) by (apply IH; intros; eapply H; [right|]; eassumption).
  destruct (f (b, v)) eqn:E; [|exact Hr]. cbn [last_write]. rewrite Hr.
  destruct (b =? k) eqn:Eb; [|reflexivity]. exfalso. eapply H; [left; reflexivity|exact E|lia].
Qed.

(* For every old value of the tag, every merged list of bit writes with named bits 0 <= b < 64, and
   the tag's width size (1/2/4/8 — any 0 < size <= 8): the integer the target stores,
   (old | OR) & AND computed byte-wise on the size-byte images with the masks cut to that size, is
   the reference set_bit_byte applied, in call order, to the named bits that lie inside the width.
   So: a named bit gets the value of the LAST call naming it; every other bit keeps its old value. *)
Theorem rmw_effect dword bl size old :
  Forall (fun bv => 0 <= eff_bit dword (fst bv) < 64) bl -> 0 < size <= 8 -> 0 <= old < pow256 (Z.to_nat size) ->
  let o := fst (rmw_masks dword bl) in
  let a := snd (rmw_masks dword bl) in
  let w := Z.to_nat size in
  mask_bytes o size = Ok (le_enc w o) /\ mask_bytes a size = Ok (le_enc w a)
  /\ length (le_enc w o) = w /\ length (le_enc w a) = w
  /\ le_dec (rmw_bytes (le_enc w old) (le_enc w o) (le_enc w a)) = apply_bits old (filter (in_width size) (eff dword bl))
  /\ forall k, 0 <= k ->
       Z.testbit (apply_bits old (filter (in_width size) (eff dword bl))) k
       = if k <? 8 * size then or_default (last_write (eff dword bl) k) (Z.testbit old k) else false.
Proof.
  intros Hall Hsize Hold o a w.
  destruct (masks_range dword bl Hall) as [Ho Ha]. fold o a in Ho, Ha.
  destruct (mask_bytes_width o size Ho ltac:(lia)) as [Mo Lo].
  destruct (mask_bytes_width a size Ha ltac:(lia)) as [Ma La].
  assert (Hnn : Forall (fun bv => 0 <= eff_bit dword (fst bv)) bl) by (eapply Forall_impl; [|exact Hall]; cbn; lia).
  assert (Heff : Forall (fun bv => 0 <= fst bv) (filter (in_width size) (eff dword bl))).
  { apply Forall_forall. intros [b v] Hin. apply filter_In in Hin as [Hin _]. unfold eff in Hin.
    apply in_map_iff in Hin as [[b0 v0] [E Hin]]. inversion E; subst. cbn [fst].
    rewrite Forall_forall in Hnn. apply (Hnn _ Hin). }
  assert (Hw8 : 8 * Z.of_nat w = 8 * size) by (unfold w; lia).
  assert (Hbits : forall k, 0 <= k ->
            Z.testbit (apply_bits old (filter (in_width size) (eff dword bl))) k
            = if k <? 8 * size then or_default (last_write (eff dword bl) k) (Z.testbit old k) else false).
  { intros k Hk. rewrite apply_bits_testbit by assumption.
    destruct (k <? 8 * size) eqn:E.
    - rewrite last_write_filter; [reflexivity|]. intros b v _ ->. unfold in_width. cbn [fst]. exact E.
    - rewrite last_write_none_out.
      + cbn [or_default]. rewrite pow256_pow2 in Hold. fold w in Hold. rewrite Hw8 in Hold.
        destruct (Z.eq_dec old 0) as [->|Hz]; [apply Z.bits_0|].
        apply Z.bits_above_log2; [lia|]. apply Z.log2_lt_pow2; [lia|].
        apply Z.lt_le_trans with (2 ^ (8 * size)); [lia|]. apply Z.pow_le_mono_r; lia.
      + intros b v _ Hf ->. unfold in_width in Hf. cbn [fst] in Hf. lia. }
  repeat split; try assumption.
  rewrite rmw_bytes_le_enc, le_dec_enc, pow256_pow2. fold w. rewrite Hw8.
  apply Z.bits_inj'. intros k Hk. rewrite Hbits by exact Hk.
  rewrite Z.testbit_mod_pow2 by lia.
  destruct (k <? 8 * size) eqn:E; cbn [andb]; [|reflexivity].
  rewrite Z.land_spec, Z.lor_spec.
  destruct (masks_testbit dword bl k Hnn Hk) as [H1 H2]. fold o in H1. fold a in H2. rewrite H1, H2.
  destruct (last_write (eff dword bl) k) as [v|]; cbn [or_default].
  - destruct v; [rewrite orb_true_r; reflexivity|apply andb_false_r].
  - replace (k <? 64) with true by lia. rewrite orb_false_r, andb_true_r. reflexivity.
Qed.

(* non-vacuity / hand check: bits 3 := 1, 0 := 0, 3 := 0, 9 := 1 on an INT holding 0x00FF *)
Example rmw_effect_example :
  rmw_masks false [(3, true); (0, false); (3, false); (9, true)] = (512, 18446744073709551606)
  /\ le_dec (rmw_bytes (le_enc 2 255) (le_enc 2 512) (le_enc 2 18446744073709551606)) = 758
  /\ apply_bits 255 [(3, true); (0, false); (3, false); (9, true)] = 758.
Proof. vm_compute. repeat split; reflexivity. Qed.
