(* Proofs/C19P.v — instantiation of the generic EnumMap lemmas on the regenerated tables. *)
From PV Require Import Base.Bytes Base.Proto Model.EnumMapDefs Model.EnumMap Proofs.EnumMapP.
From PV Require Import Gen.Tables Gen.Types Gen.Status.
Open Scope Z_scope.

Lemma all_tables_ok : forallb (fun '(_, t) => table_ok type_codes t) all_tables = true.
Proof. vm_compute. reflexivity. Qed.

Definition dt_member_ok (m : list Z * key) : bool :=
  match snd m with
  | KObj ty =>
      match code_of type_codes ty with
      | Some c => match get_type type_codes tbl_DataTypes c with
                  | Some (KObj ty') => match code_of type_codes ty' with Some c' => c' =? c | None => false end
                  | _ => false
                  end
      | None => false
      end
  | _ => true
  end.
Lemma datatypes_ok : forallb dt_member_ok (t_members tbl_DataTypes) = true.
Proof. vm_compute. reflexivity. Qed.

Definition status_ok (s : Z) : bool :=
  negb (match get_service_status service_status s with [] => true | _ => false end)
  && match ilookup service_status s with
     | Some _ => true
     | None => contains_sub (hex_fixed 2 s) (get_service_status service_status s)
     end.
Lemma status_sweep : forallb status_ok (zrange 256) = true.
Proof. vm_compute. reflexivity. Qed.

Lemma C19_all :
  (forall tn t, In (tn, t) all_tables ->
     (forall n v s, In (n, v) (t_members t) -> lower s = lower n ->
        getitem type_codes t (KStr s) = Some v /\ get type_codes t (KStr s) None = Some v
        /\ contains type_codes t (KStr s) = true)
     /\ (t_bidir t = true -> forall n v, In (n, v) (t_members t) ->
           exists n' v', getitem type_codes t (vkey type_codes t v) = Some (KStr n')
                         /\ getitem type_codes t (KStr n') = Some v'
                         /\ vkey type_codes t v' = vkey type_codes t v
                         /\ mem_name (t_members t) (lower n') = true)
     /\ (forall k, contains type_codes t k = true <-> getitem type_codes t k <> None)
     /\ (forall k, get type_codes t k None = getitem type_codes t k)
     /\ (forall k d, getitem type_codes t k = None -> get type_codes t k (Some d) = Some (caps t d)))
  /\ (forall n ty, In (n, KObj ty) (t_members tbl_DataTypes) ->
        exists c ty', code_of type_codes ty = Some c
                      /\ get_type type_codes tbl_DataTypes c = Some (KObj ty') /\ code_of type_codes ty' = Some c)
  /\ (forall s, 0 <= s < 256 ->
        get_service_status service_status s <> []
        /\ (ilookup service_status s = None ->
              contains_sub (hex_fixed 2 s) (get_service_status service_status s) = true)).
Proof.
  split; [|split].
  - intros tn t Hin. pose proof all_tables_ok as H. rewrite forallb_forall in H.
    specialize (H _ Hin). cbn in H.
    split; [|split; [|split; [|split]]].
    + intros n v s Hm Hs. now apply by_name_any_case with (n := n).
    + intros Hb n v Hm. now apply by_code with (n := n).
    + intros k. apply contains_iff.
    + intros k. apply get_is_getitem.
    + intros k d. apply get_default.
  - intros n ty Hin. pose proof datatypes_ok as H. rewrite forallb_forall in H.
    specialize (H _ Hin). unfold dt_member_ok in H. cbn [snd] in H.
    destruct (code_of type_codes ty) as [c|] eqn:E0; [|discriminate].
    destruct (get_type type_codes tbl_DataTypes c) as [[| | |ty']|] eqn:E1; try discriminate.
    destruct (code_of type_codes ty') as [c'|] eqn:E; [|discriminate].
    apply Z.eqb_eq in H. subst c'. exists c, ty'. repeat split; auto.
  - intros s Hs. pose proof (forallb_zrange status_ok 256 status_sweep s) as H.
    specialize (H ltac:(lia)). unfold status_ok in H. apply andb_true_iff in H as [H1 H2].
    split.
    + destruct (get_service_status service_status s); [discriminate|congruence].
    + intros Hn. now rewrite Hn in H2.
Qed.
