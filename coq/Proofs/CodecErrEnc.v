(* Proofs/CodecErrEnc.v — C08, encode side: every T.encode(value) returns bytes or raises
   DataError (no exception of another class escapes any call); a value that is clearly outside the
   domain ([bad]) and not in the silently accepted class ([silent]: arrays of bit strings given too
   few bits / a partial element) is rejected with DataError. *)
From PV Require Import Base.Bytes Base.BytesLemmas Base.Res.
From PV Require Import Gen.Types Gen.CodecFacts Model.Codec.
From PV Require Import Proofs.CodecErrDefs Proofs.CodecErrBase.
From Coq Require Import ZifyBool.
Open Scope Z_scope.
Ltac Zify.zify_post_hook ::= Z.to_euclidean_division_equations.

Definition lib_enc (r : res bytes) : Prop := match r with Ok _ => True | Err e => e = DataError end.

Lemma wrap_all_lib (r : res bytes) : lib_enc (wrap_all DataError r).
Proof. destruct r; cbn; auto. Qed.
Lemma pub_encode_lib f v : lib_enc (pub_encode f v).
Proof. apply wrap_all_lib. Qed.

(* ------------------------------------------------------------------ no exception but DataError escapes encode *)
Theorem encode_lib t v : lib_enc (encode t v).
Proof.
  destruct t; cbn [encode]; try (apply pub_encode_lib); apply wrap_all_lib.
Qed.

(* the positional forms of the overriding public methods *)
Theorem datetime_encode2_lib time date : lib_enc (datetime_encode2 time date).
Proof. apply wrap_all_lib. Qed.
Theorem stringn_encode_cs_lib cs v : lib_enc (stringn_encode_cs cs v).
Proof. apply wrap_all_lib. Qed.
Theorem stringi_encode_args_lib items : lib_enc (stringi_encode_args items).
Proof. apply wrap_all_lib. Qed.

(* ------------------------------------------------------------------ values outside the domain are rejected *)
Lemma is_err_bind {A B} (r : res A) (f : A -> res B) :
  is_err r = true -> is_err (bind r f) = true.
Proof. destruct r; cbn; [discriminate|auto]. Qed.
Lemma is_err_bind_all {A B} (r : res A) (f : A -> res B) :
  (forall a, is_err (f a) = true) -> is_err (bind r f) = true.
Proof. destruct r; cbn; auto. Qed.
Lemma is_err_wrap {A} e (r : res A) : is_err (wrap_all e r) = is_err r.
Proof. destruct r; reflexivity. Qed.
Lemma is_err_pub f v : is_err (pub_encode f v) = is_err (f v).
Proof. apply is_err_wrap. Qed.

Lemma as_member_err t x : is_err (encode t x) = true -> is_err (as_member t (encode t) x) = true.
Proof. unfold as_member. auto. Qed.

Lemma int_encode_err sg w v : int_bad sg w v = true -> is_err (int_encode sg w v) = true.
Proof.
  unfold int_encode, int_bad. rewrite is_err_pub. unfold pack_int. destruct v; intros H; try reflexivity; try discriminate.
  apply negb_true_iff in H. now rewrite H.
Qed.

Lemma enc_ok_false e s : enc_ok e s = false -> is_err (text_encode e s) = true.
Proof. unfold enc_ok. now intros H%negb_false_iff. Qed.

Lemma enc_char_size_width e : enc_char_size e = char_width e.
Proof. destruct e; reflexivity. Qed.

Lemma str_encode_bad lsg lw enc v :
  match v with VStr s => str_bad lsg lw enc s = true | _ => True end -> is_err (str_encode lsg lw enc v) = true.
Proof.
  intros H. unfold str_encode. rewrite is_err_pub. destruct v; try reflexivity.
  unfold str_bad in H. destruct (text_encode enc s) as [d|]; cbn [bind]; [|reflexivity].
  apply is_err_bind, int_encode_err. cbn [int_bad]. now rewrite enc_char_size_width.
Qed.

Lemma stringn_encode_bad v :
  match v with VStr s => str_bad false 2 Latin1 s = true | _ => True end -> is_err (stringn_encode v) = true.
Proof.
  intros H. unfold stringn_encode, stringn_encode_cs. rewrite is_err_wrap. cbn [as_int]. rewrite stringn_enc_1_is.
  destruct v; try reflexivity. unfold str_bad in H. destruct (text_encode Latin1 s) as [d|]; cbn [bind]; [|reflexivity].
  rewrite named_UINT_encode. destruct (int_encode false 2 (VInt 1)) as [a|]; cbn [bind]; [|reflexivity].
  apply is_err_bind, int_encode_err. cbn [int_bad char_width] in *. exact H.
Qed.

Lemma fixedstr_encode_bad size lsg lw cap v :
  match v with VStr s => fstr_bad lsg lw (firstn cap s) = true | _ => True end ->
  is_err (fixedstr_encode size lsg lw cap v) = true.
Proof.
  intros H. unfold fixedstr_encode. rewrite is_err_pub, fss_enc_is.
  destruct v; cbn [py_slice bind]; try reflexivity.
  - (* VStr *)
    unfold slice. rewrite Nat.sub_0_r. cbn [skipn py_len bind].
    unfold fstr_bad in H. apply orb_prop in H as [H|H].
    + apply is_err_bind, int_encode_err. exact H.
    + apply is_err_bind_all. intros l. apply is_err_bind, enc_ok_false. now apply negb_true_iff.
  - cbn [py_len bind]. destruct (int_encode lsg lw _); reflexivity.
  - cbn [py_len bind]. destruct (int_encode lsg lw _); reflexivity.
  - cbn [py_len bind]. destruct (int_encode lsg lw _); reflexivity.
Qed.

Lemma pccc_string_encode_bad v :
  match v with VStr s => enc_ok Latin1 s = false | _ => True end -> is_err (pccc_string_encode v) = true.
Proof.
  intros H. unfold pccc_string_encode. rewrite is_err_pub, pccc_string_enc_is, named_UINT_encode.
  destruct v; cbn [py_len bind]; try reflexivity; try (destruct (int_encode false 2 (VInt _)); reflexivity).
  apply is_err_bind_all. intros l. apply is_err_bind, enc_ok_false, H.
Qed.

Lemma datetime_encode_bad v :
  match seq_items v with
  | Some [time; date] => int_bad false 4 time || int_bad false 2 date = true
  | Some _ => True
  | None => sized v = false
  end -> is_err (datetime_encode v) = true.
Proof.
  intros H. unfold datetime_encode, datetime_encode2. rewrite is_err_wrap, named_UDINT_encode, named_UINT_encode.
  assert (Hseq : forall l, match l with
                           | [time; date] => int_bad false 4 time || int_bad false 2 date = true
                           | _ => True
                           end ->
                 is_err (let* td := match l with [t; d] => Ok (t, d) | _ => Err (Foreign ValueError) end in
                         let* a := int_encode false 4 (fst td) in let* b := int_encode false 2 (snd td) in Ok (a ++ b)) = true).
  { intros l Hl. destruct l as [|t [|d [|? ?]]]; try reflexivity. cbn [bind fst snd].
    apply orb_prop in Hl as [Hl|Hl]; [now apply is_err_bind, int_encode_err|].
    apply is_err_bind_all. intros a. now apply is_err_bind, int_encode_err. }
  destruct v; cbn [seq_items sized] in H; try discriminate; cbn [py_iter bind]; try reflexivity; apply Hseq, H.
Qed.

(* ---- sequences of members / elements: one failing item fails the whole *)
Lemma encode_items_err enc l : forall n i,
  (exists j x, (j < n)%nat /\ nth_error l (i + j) = Some x /\ is_err (enc x) = true) ->
  is_err (encode_items enc (VList l) i n) = true /\ is_err (encode_items enc (VTuple l) i n) = true.
Proof.
  induction n as [|n IH]; intros i (j & x & Hj & Hn & He); [lia|]. cbn [encode_items py_index].
  destruct j as [|j].
  - rewrite Nat.add_0_r in Hn. rewrite Hn. cbn [bind]. split; apply is_err_bind; exact He.
  - assert (Hx : exists j' x', (j' < n)%nat /\ nth_error l (S i + j') = Some x' /\ is_err (enc x') = true).
    { exists j, x. repeat split; [lia| |exact He]. now replace (S i + j)%nat with (i + S j)%nat by lia. }
    destruct (IH (S i) Hx) as [H1 H2].
    destruct (nth_error l i); cbn [bind]; [|split; reflexivity].
    split; (destruct (enc v); cbn [bind]; [|reflexivity]); apply is_err_bind; assumption.
Qed.

Lemma existsb_firstn_nth {A} (f : A -> bool) n (l : list A) :
  existsb f (firstn n l) = true -> exists j x, (j < n)%nat /\ nth_error l j = Some x /\ f x = true.
Proof.
  revert l. induction n as [|n IH]; intros l; [cbn; discriminate|]. destruct l as [|a l]; [cbn; discriminate|].
  cbn [firstn existsb]. intros H. apply orb_prop in H as [H|H].
  - exists 0%nat, a. repeat split; [lia|exact H].
  - destruct (IH l H) as (j & x & Hj & Hn & Hf). exists (S j), x. repeat split; [lia|exact Hn|exact Hf].
Qed.

Lemma struct_seq_err (ms : list (key * (val -> res bytes))) : forall l,
  (exists j m x, nth_error ms j = Some m /\ nth_error l j = Some x /\ is_err (snd m x) = true) ->
  is_err (struct_encode_seq ms l) = true.
Proof.
  induction ms as [|[k enc] ms IH]; intros l (j & m & x & Hm & Hx & He).
  - destruct j; discriminate.
  - destruct l as [|y l]; [destruct j; discriminate|]. cbn [struct_encode_seq].
    destruct j as [|j].
    + injection Hm as <-. injection Hx as <-. now apply is_err_bind.
    + destruct (enc y); cbn [bind]; [|reflexivity]. apply is_err_bind. apply IH. exists j, m, x. auto.
Qed.

Lemma struct_dict_err (ms : list (key * (val -> res bytes))) d :
  (exists m, In m ms /\ match dict_get d (fst m) with Ok x => is_err (snd m x) = true | Err _ => True end) ->
  is_err (struct_encode_dict ms d) = true.
Proof.
  induction ms as [|[k enc] ms IH]; intros (m & Hin & Hm); [contradiction|]. cbn [struct_encode_dict].
  destruct Hin as [<-|Hin].
  - cbn [fst snd] in Hm. destruct (dict_get d k); cbn [bind]; [|reflexivity]. now apply is_err_bind.
  - destruct (dict_get d k); cbn [bind]; [|reflexivity]. destruct (enc a); cbn [bind]; [|reflexivity].
    apply is_err_bind. apply IH. eauto.
Qed.

Lemma stag_members_err (ms : list ((key * nat) * (val -> res bytes))) priv d : forall buf,
  (exists m, In m ms /\ key_in (fst (fst m)) priv = false
             /\ match dict_get d (fst (fst m)) with Ok x => is_err (snd m x) = true | Err _ => True end) ->
  is_err (stag_encode_members ms priv d buf) = true.
Proof.
  induction ms as [|[[k off] enc] ms IH]; intros buf (m & Hin & Hp & Hm); [contradiction|]. cbn [stag_encode_members].
  destruct Hin as [<-|Hin].
  - cbn [fst snd] in Hp, Hm. rewrite Hp. destruct (dict_get d k); cbn [bind]; [|reflexivity]. now apply is_err_bind.
  - destruct (key_in k priv); [apply IH; eauto|].
    destruct (dict_get d k); cbn [bind]; [|reflexivity]. destruct (enc a); cbn [bind]; [|reflexivity]. apply IH. eauto.
Qed.

Lemma stag_bits_err (bits : list (text * (nat * nat))) d : forall buf,
  existsb (fun b => is_err (dict_get d (Some (fst b)))) bits = true -> is_err (stag_encode_bits bits d buf) = true.
Proof.
  induction bits as [|[name [off bit]] bits IH]; intros buf; cbn [existsb stag_encode_bits fst]; [discriminate|].
  intros H. destruct (dict_get d (Some name)) as [x|]; cbn [bind is_err orb] in *; [|reflexivity].
  destruct (truthy x).
  - destruct (nth_error buf off); [|reflexivity]. destruct (_ <? 256); [|reflexivity].
    destruct (set_nth buf off _); [apply IH, H|reflexivity].
  - destruct (set_nth buf off _); [apply IH, H|reflexivity].
Qed.

Lemma existsb2_nth {A B} (f : A -> B -> bool) (la : list A) : forall (lb : list B),
  existsb2 f la lb = true -> exists j a b, nth_error la j = Some a /\ nth_error lb j = Some b /\ f a b = true.
Proof.
  induction la as [|a la IH]; intros lb; [cbn; discriminate|]. destruct lb as [|b lb]; [cbn; discriminate|].
  cbn [existsb2]. intros H. apply orb_prop in H as [H|H].
  - exists 0%nat, a, b. auto.
  - destruct (IH lb H) as (j & a' & b' & H1 & H2 & H3). exists (S j), a', b'. auto.
Qed.
Lemma existsb2_false_nth {A B} (f : A -> B -> bool) (la : list A) : forall (lb : list B) j a b,
  existsb2 f la lb = false -> nth_error la j = Some a -> nth_error lb j = Some b -> f a b = false.
Proof.
  induction la as [|a0 la IH]; intros lb j a b; [destruct j; discriminate|]. destruct lb as [|b0 lb]; [destruct j; discriminate|].
  cbn [existsb2]. intros H. apply orb_false_elim in H as [H1 H2]. destruct j as [|j]; cbn [nth_error].
  - intros Ha Hb. injection Ha as <-. injection Hb as <-. exact H1.
  - apply IH, H2.
Qed.
Lemma existsb_false_in {A} (f : A -> bool) l x : existsb f l = false -> In x l -> f x = false.
Proof.
  intros H Hin. destruct (f x) eqn:E; [|reflexivity]. assert (existsb f l = true) by (apply existsb_exists; eauto). congruence.
Qed.
Lemma nth_error_firstn_lt {A} (l : list A) n j : (j < n)%nat -> nth_error (firstn n l) j = nth_error l j.
Proof.
  revert l j. induction n as [|n IH]; intros l j Hj; [lia|]. destruct l; [now destruct j|]. destruct j; [reflexivity|].
  cbn [firstn nth_error]. apply IH. lia.
Qed.

(* the array body, for a list / tuple of values *)
Lemma array_items_err (fixed : option nat) (enc : val -> res bytes) (v : val) l :
  seq_items v = Some l ->
  (match fixed with
   | Some n => (length l <? n)%nat = true \/ exists j x, (j < n)%nat /\ nth_error l j = Some x /\ is_err (enc x) = true
   | None => exists j x, nth_error l j = Some x /\ is_err (enc x) = true
   end) ->
  is_err (array_encode fixed None enc v) = true.
Proof.
  intros Hv H. unfold array_encode. rewrite is_err_wrap.
  assert (Hlen : py_len v = Ok (zlen l)) by (destruct v; try discriminate; injection Hv as <-; reflexivity).
  rewrite Hlen. cbn [bind].
  destruct fixed as [n|].
  - destruct (zlen l <? Z.of_nat n) eqn:En; [reflexivity|]. cbn [bind].
    destruct H as [H|(j & x & Hj & Hn & He)]; [apply Nat.ltb_lt in H; unfold zlen in En; lia|].
    assert (Hx : exists j' x', (j' < n)%nat /\ nth_error l (0 + j') = Some x' /\ is_err (enc x') = true) by (exists j, x; auto).
    destruct (encode_items_err enc l n 0%nat Hx) as [H1 H2].
    destruct v; try discriminate; injection Hv as ->; assumption.
  - cbn [bind]. destruct H as (j & x & Hn & He).
    assert (Hj : (j < length l)%nat) by (apply nth_error_Some; congruence).
    assert (Hx : exists j' x', (j' < Z.to_nat (zlen l))%nat /\ nth_error l (0 + j') = Some x' /\ is_err (enc x') = true).
    { exists j, x. repeat split; [unfold zlen; lia|exact Hn|exact He]. }
    destruct (encode_items_err enc l _ 0%nat Hx) as [H1 H2].
    destruct v; try discriminate; injection Hv as ->; assumption.
Qed.

Lemma unsized_array_err fixed bw enc v : sized v = false -> is_err (array_encode fixed bw enc v) = true.
Proof. intros Hs. unfold array_encode. rewrite is_err_wrap. destruct v; try discriminate; reflexivity. Qed.

(* bit-string arrays: the only loud case is fewer values than the array length *)
Lemma bits_array_fixed_err n w enc v l :
  seq_items v = Some l -> zlen l <? Z.of_nat n = true ->
  is_err (array_encode (Some n) (Some w) enc v) = true.
Proof.
  intros Hv H. unfold array_encode. rewrite is_err_wrap.
  assert (Hlen : py_len v = Ok (zlen l)) by (destruct v; try discriminate; injection Hv as <-; reflexivity).
  rewrite Hlen. cbn [bind]. now rewrite H.
Qed.

Definition Rejects (t : ty) : Prop :=
  forall v, bad t v = true -> silent t v = false -> is_err (encode t v) = true.

Lemma seq_items_cases v : (exists l, seq_items v = Some l) \/ seq_items v = None.
Proof. destruct v; cbn; eauto. Qed.

Lemma rejects_array_common e (IH : Rejects e) (fixed : option nat) v :
  (match seq_items v with
   | Some l => match bits_width e with
               | Some w => match fixed with
                           | Some n => zlen l <? Z.of_nat n = true
                           | None => False
                           end
               | None => match fixed with
                         | Some n => (length l <? n)%nat = true
                                     \/ (existsb (bad e) (firstn n l) = true /\ existsb (silent e) (firstn n l) = false)
                         | None => existsb (bad e) l = true /\ existsb (silent e) l = false
                         end
               end
   | None => sized v = false
   end) ->
  is_err (array_encode fixed (bits_width e) (as_member e (encode e)) v) = true.
Proof.
  intros H. destruct (seq_items_cases v) as [(l & Hl)|Hn].
  - rewrite Hl in H. destruct (bits_width e) as [w|] eqn:Hb.
    + destruct fixed as [n|]; [|contradiction]. eapply bits_array_fixed_err; eauto.
    + apply (array_items_err fixed _ v l Hl).
      destruct fixed as [n|].
      * destruct H as [H|[H1 H2]]; [now left|right].
        destruct (existsb_firstn_nth _ _ _ H1) as (j & x & Hj & Hx & Hbx). exists j, x. repeat split; auto.
        apply as_member_err, IH; [exact Hbx|].
        eapply existsb_false_in; [exact H2|]. apply nth_error_In with (n := j). now rewrite nth_error_firstn_lt.
      * destruct H as [H1 H2]. apply existsb_exists in H1 as (x & Hin & Hbx).
        destruct (In_nth_error _ _ Hin) as [j Hj]. exists j, x. split; [exact Hj|].
        apply as_member_err, IH; [exact Hbx|]. eapply existsb_false_in; eauto.
  - rewrite Hn in H. now apply unsized_array_err.
Qed.

Theorem encode_rejects : forall t, Rejects t.
Proof.
  induction t using ty_ind_nested; intros v Hb Hs; cbn [bad] in Hb; try discriminate; cbn [encode].
  - (* TInt *) now apply int_encode_err.
  - (* TReal *)
    unfold real_encode. rewrite is_err_pub. unfold pack_real. unfold real_bad in Hb.
    destruct (as_float v) as [b|]; cbn [bind]; [|reflexivity].
    apply andb_prop in Hb as [Hd Hr]. destruct dbl; [discriminate|]. destruct (round32 b); [discriminate|reflexivity].
  - (* TDateTime *)
    apply datetime_encode_bad. destruct (seq_items v) as [[|t [|d [|? ?]]]|]; auto. now apply negb_true_iff.
  - (* TStr *) apply str_encode_bad. destruct v; auto.
  - (* TStringN *) apply stringn_encode_bad. destruct v; auto.
  - (* TNBytes *)
    unfold nbytes_encode. rewrite is_err_pub. destruct v; try discriminate; reflexivity.
  - (* TBits *)
    unfold bits_encode. rewrite is_err_pub. destruct (py_len v) as [n|]; cbn [bind]; [|reflexivity]. now rewrite Hb.
  - (* TArrFixed *)
    cbn [silent] in Hs. apply (rejects_array_common t IHt (Some n)).
    destruct (seq_items v) as [l|]; [|now apply negb_true_iff].
    destruct (bits_width t) as [w|].
    + apply andb_false_iff in Hs as [Hs|Hs]; [lia|congruence].
    + apply orb_prop in Hb as [Hb|Hb]; [now left|right; split; assumption].
  - (* TArrPrefix *)
    cbn [silent] in Hs. apply (rejects_array_common t2 IHt2 None).
    destruct (seq_items v) as [l|]; [|now apply negb_true_iff].
    destruct (bits_width t2) as [w|]; [congruence|split; assumption].
  - (* TArrAll *)
    cbn [silent] in Hs. apply (rejects_array_common t IHt None).
    destruct (seq_items v) as [l|]; [|now apply negb_true_iff].
    destruct (bits_width t) as [w|]; [congruence|split; assumption].
  - (* TStruct *)
    cbn [silent] in Hs. unfold struct_encode. rewrite is_err_pub.
    set (ms' := map (fun m => (fst m, as_member (snd m) (encode (snd m)))) ms).
    assert (Hlen' : length ms' = length ms) by (unfold ms'; apply map_length).
    assert (Hseq : forall l, (length l <? length ms)%nat || existsb2 (fun m x => bad (snd m) x) ms l = true ->
                              existsb2 (fun m x => silent (snd m) x) ms l = false ->
                              is_err (if (length l <? length ms')%nat then Err DataError else struct_encode_seq ms' l) = true).
    { intros l Hbl Hsl. rewrite Hlen'. destruct (length l <? length ms)%nat; [reflexivity|]. cbn [orb] in Hbl.
      destruct (existsb2_nth _ _ _ Hbl) as (j & m & x & Hm & Hx & Hbx).
      apply struct_seq_err. exists j, (fst m, as_member (snd m) (encode (snd m))), x. repeat split.
      - unfold ms'. rewrite nth_error_map, Hm. reflexivity.
      - exact Hx.
      - cbn [snd]. apply as_member_err. rewrite Forall_forall in H. apply (H m (nth_error_In _ _ Hm)); [exact Hbx|].
        exact (existsb2_false_nth (fun m x => silent (snd m) x) ms l j m x Hsl Hm Hx). }
    assert (Hdict : forall d,
               existsb (fun m => match dict_get d (fst m) with Ok x => bad (snd m) x | Err _ => true end) ms = true ->
               existsb (fun m => match dict_get d (fst m) with Ok x => silent (snd m) x | Err _ => false end) ms = false ->
               is_err (struct_encode_dict ms' d) = true).
    { intros d Hbd Hsd. apply existsb_exists in Hbd as (m & Hin & Hbm).
      apply struct_dict_err. exists (fst m, as_member (snd m) (encode (snd m))). split.
      - unfold ms'. apply in_map_iff. eauto.
      - cbn [fst snd]. pose proof (existsb_false_in _ _ _ Hsd Hin) as Hsm. cbn beta in Hsm.
        destruct (dict_get d (fst m)); [|exact I]. apply as_member_err. rewrite Forall_forall in H. now apply (H m Hin). }
    destruct k.
    + (* SPlain *)
      unfold struct_encode_inner. destruct v; cbn [py_iter bind sized negb] in *; try discriminate; try reflexivity; auto.
    + (* SModuleIdentity *)
      destruct v; try discriminate; reflexivity.
    + unfold struct_encode_inner. destruct v; cbn [py_iter bind sized negb] in *; try discriminate; try reflexivity; auto.
  - (* TFixedStr *) apply fixedstr_encode_bad. destruct v; auto.
  - (* TStructTag *)
    cbn [silent] in Hs. unfold structtag_encode. rewrite is_err_pub. destruct v; try reflexivity.
    apply orb_prop in Hb as [Hb|Hb].
    + apply is_err_bind. apply existsb_exists in Hb as (m & Hin & Hbm). apply andb_prop in Hbm as [Hp Hbm].
      apply stag_members_err. exists (fst m, as_member (snd m) (encode (snd m))). split; [apply in_map_iff; eauto|].
      cbn [fst snd]. split; [now apply negb_true_iff|].
      pose proof (existsb_false_in _ _ _ Hs Hin) as Hsm. cbn beta in Hsm. rewrite Hp in Hsm. cbn [andb] in Hsm.
      destruct (dict_get d (fst (fst m))); [|exact I]. apply as_member_err. rewrite Forall_forall in H. now apply (H m Hin).
    + apply is_err_bind_all. intros buf. now apply stag_bits_err.
  - (* TIPAddr *)
    unfold ip_encode. rewrite is_err_pub. destruct v; try reflexivity; try discriminate.
    + destruct (in_urange 4 z); [discriminate|reflexivity].
    + unfold ip_ok in Hb. destruct (parse_ipv4 s); [discriminate|reflexivity].
    + destruct (length b =? 4)%nat; [discriminate|reflexivity].
  - (* TPcccAscii *)
    unfold pccc_ascii_encode. rewrite is_err_pub, pccc_ascii_enc_is. destruct v; try discriminate; reflexivity.
  - (* TPcccString *)
    apply pccc_string_encode_bad. destruct v; auto. now apply negb_true_iff.
Qed.

(* at the public call the rejection is a DataError *)
Theorem encode_rejects_dataerror t v :
  bad t v = true -> silent t v = false -> encode t v = Err DataError.
Proof.
  intros Hb Hs. pose proof (encode_rejects t v Hb Hs) as He. pose proof (encode_lib t v) as Hl.
  destruct (encode t v); [discriminate|]. cbn in Hl. now subst.
Qed.
