(* Proofs/ReadResolve2.v — the string layer for member paths and program-scoped tags:
       [Program:P.]tag[i..].member[j..]. ... .member[k..][.bit][{n}]
   Part 1  _parse_tag_request on such a string (split at '{', '.', the Program: prefix, the bit, _get_tag_info)
   Part 2  tag_request_path: one symbolic segment per name, member segments per index; the target's path
           parser reads them back; resolve_path walks them
   Part 3  reference (Expect.walk_members), target (member_step / apply_idx) and client (_get_tag_info
           through the data-type dicts of the upload) reach the same member
   Part 4  [request_ok] for such requests: C01's conclusion holds for them
   No axioms. *)
From Coq Require Import ZifyBool String.
From PV Require Import Base.Bytes Base.BytesLemmas Base.Res Base.Proto Base.PyStr.
From PV Require Import Gen.Consts Gen.PathTables Model.Path Model.Reply Model.LogixPlan Model.LogixRead.
From PV Require Import Spec.EncapParser Spec.MRParser Spec.TargetIface Spec.TargetCore Spec.Project Spec.Expect Spec.TargetLogix.
From PV Require Import Proofs.PathStr Proofs.TargetCoreP Proofs.TargetLogixP Proofs.ReadBits Proofs.ReadDecode Proofs.ReadTarget
  Proofs.ReadValue Proofs.ReadFrag Proofs.ReadMulti Proofs.ReadPlan Proofs.ReadCorrect Proofs.ReadResolve Proofs.ReadResolve1.
Open Scope list_scope.
Open Scope Z_scope.
Ltac Zify.zify_post_hook ::= Z.to_euclidean_division_equations.

(* ================================================================ Part 1: the request string *)
Lemma join_cons2 sep a b (r : list text) : join sep (a :: b :: r) = a ++ sep ++ join sep (b :: r).
Proof. reflexivity. Qed.

Lemma join_snoc sep x : forall l, l <> [] -> join sep (l ++ [x]) = join sep l ++ sep ++ x.
Proof.
  induction l as [|a [|b r] IH]; intros Hne; [congruence|reflexivity|].
  change ((a :: b :: r) ++ [x]) with (a :: (b :: r) ++ [x]).
  change ((b :: r) ++ [x]) with (b :: r ++ [x]) at 1. rewrite join_cons2.
  change (b :: r ++ [x]) with ((b :: r) ++ [x]). rewrite IH by discriminate.
  rewrite join_cons2. rewrite <- !app_assoc. reflexivity.
Qed.

Lemma forallb_snoc {A} (P : A -> bool) l x : forallb P (l ++ [x]) = forallb P l && P x.
Proof. rewrite forallb_app. cbn. rewrite andb_true_r. reflexivity. Qed.

Lemma nosep_nonempty_join c p ps : p <> [] -> join [c] (p :: ps) <> [].
Proof. intros Hp. destruct ps; cbn [join]; [exact Hp|]. destruct p; [congruence|discriminate]. Qed.

Section GenParse.
  Variables (pre : option text) (t1 : text) (X : list text) (bit cnt : option (text * Z)).
  Let prog_txt : option text := match pre with Some P => Some (txt_Program_ ++ P) | None => None end.
  Let parts : list text := (match prog_txt with Some q => [q] | None => [] end) ++ t1 :: X.
  Let base : text := match prog_txt with Some q => q ++ 46 :: t1 | None => t1 end.
  Let body0 : text := join [46] (base :: X).
  Let body : text := body0 ++ bit_txt bit.
  Let req : text := body ++ cnt_txt cnt.

  Hypothesis Hsep : forall c, c = 46 \/ c = 123 \/ c = 125 ->
    forallb (nosep c) (t1 :: X) = true /\ match prog_txt with Some q => nosep c q = true | None => True end.
  Hypothesis Hne : t1 <> [].
  Hypothesis HX : forallb (fun x => negb (isdigit x)) X = true.
  Hypothesis Hnp : pre = None -> starts_with txt_Program_ t1 = false.
  Hypothesis Hbit : opt_ok bit.
  Hypothesis Hcnt : opt_ok cnt.

  Lemma gp_body0 : body0 = join [46] parts.
  Proof.
    unfold body0, base, parts. destruct prog_txt as [q|]; [|reflexivity].
    cbn [app]. rewrite join_cons2. destruct X as [|x r]; cbn [join]; rewrite <- ?app_assoc; reflexivity.
  Qed.

  Lemma gp_parts_nosep c : c = 46 \/ c = 123 \/ c = 125 -> forallb (nosep c) parts = true.
  Proof.
    intros Hc. destruct (Hsep c Hc) as [H1 H2]. unfold parts. destruct prog_txt as [q|]; [|exact H1].
    cbn [app forallb]. rewrite H2. exact H1.
  Qed.

  Lemma gp_body0_nosep c : c = 123 \/ c = 125 -> nosep c body0 = true.
  Proof.
    intros Hc. rewrite gp_body0. apply nosep_join; [apply gp_parts_nosep; tauto|].
    unfold nosep. cbn [forallb]. replace (46 =? c) with false by lia. reflexivity.
  Qed.

  Lemma gp_body_nosep c : c = 123 \/ c = 125 -> nosep c body = true.
  Proof.
    intros Hc. unfold body. rewrite nosep_app, gp_body0_nosep by exact Hc. cbn [andb]. unfold bit_txt.
    destruct bit as [[b bv]|]; [|reflexivity]. cbn [nosep forallb]. replace (46 =? c) with false by lia. cbn [negb andb].
    apply (num_nosep c b bv Hbit). lia.
  Qed.

  Lemma gp_body_nonempty : body <> [].
  Proof.
    unfold body, body0, base. intros E. apply app_eq_nil in E. destruct E as [E _].
    revert E. apply nosep_nonempty_join. destruct prog_txt as [q|]; [destruct q; discriminate|exact Hne].
  Qed.

  Lemma gp_split_count :
    (if ends_with [125] req && contains_chr 123 req then
       match split_chr 123 req with
       | [t; tmp] => let* k := py_int_full (removelast tmp) in Ok (t, k, false)
       | _ => Err (Foreign ValueError)
       end
     else Ok (req, 1, true))
    = Ok (body, cnt_val cnt, match cnt with Some _ => false | None => true end).
  Proof.
    unfold req, cnt_txt, cnt_val.
    destruct cnt as [[c cv]|].
    - replace (body ++ [123] ++ c ++ [125]) with ((body ++ 123 :: c) ++ [125]) by (rewrite <- app_assoc; reflexivity).
      rewrite ends_with_snoc. rewrite <- app_assoc. cbn [app].
      rewrite contains_chr_app. cbn [contains_chr existsb Z.eqb Pos.eqb orb]. rewrite orb_true_r. cbn [andb].
      rewrite split2.
      + rewrite removelast_snoc. rewrite (num_int c cv Hcnt). reflexivity.
      + apply gp_body_nosep. tauto.
      + rewrite nosep_app. rewrite (num_nosep 123 c cv Hcnt) by lia. reflexivity.
    - rewrite app_nil_r. rewrite <- (app_nil_l body). rewrite ends_with_app_nosep; [reflexivity|apply gp_body_nonempty|apply gp_body_nosep; tauto].
  Qed.

  Lemma gp_split_dot : split_chr 46 body = parts ++ match bit with Some (b, _) => [b] | None => [] end.
  Proof.
    unfold body, bit_txt. rewrite gp_body0. pose proof (gp_parts_nosep 46 (or_introl eq_refl)) as Hp.
    assert (Hparts : exists p0 ps, parts = p0 :: ps) by (unfold parts; destruct prog_txt; cbn [app]; eauto).
    destruct Hparts as (p0 & ps & Ep). rewrite Ep in *.
    destruct bit as [[b bv]|].
    - change (join [46] (p0 :: ps) ++ 46 :: b) with (join [46] (p0 :: ps) ++ [46] ++ b).
      rewrite <- join_snoc by discriminate. change ((p0 :: ps) ++ [b]) with (p0 :: ps ++ [b]).
      cbn [forallb] in Hp. apply andb_prop in Hp. destruct Hp as [H0 Hps].
      apply split_join; [exact H0|]. rewrite forallb_snoc, Hps. apply (num_nosep 46 b bv Hbit). lia.
    - rewrite !app_nil_r. cbn [forallb] in Hp. apply andb_prop in Hp. destruct Hp as [H0 Hps]. apply split_join; assumption.
  Qed.

  Let bp : list text := match bit with Some (b, _) => [b] | None => [] end.

  Lemma gp_bit :
    (match rev (X ++ bp) with
     | [] => Ok (None, X ++ bp, body)
     | l :: initr =>
         if isdigit l then let* b := py_int_full l in Ok (Some b, rev initr, dot_join base (rev initr))
         else Ok (None, X ++ bp, body)
     end) = Ok (opt_val bit, X, body0).
  Proof.
    unfold bp, body, bit_txt. destruct bit as [[b bv]|].
    - rewrite rev_app_distr. cbn [rev app]. destruct Hbit as (Hd & Hl & Hv). rewrite Hd.
      rewrite (num_int b bv Hbit). cbn [bind opt_val]. rewrite rev_involutive. reflexivity.
    - rewrite !app_nil_r. cbn [opt_val]. destruct (rev X) as [|l initr] eqn:E; [reflexivity|].
      assert (Hin : In l X) by (apply in_rev; rewrite E; left; reflexivity).
      pose proof (forallb_In _ _ _ HX Hin) as Hl. cbv beta in Hl. apply negb_true_iff in Hl. rewrite Hl. reflexivity.
  Qed.

  Lemma starts_with_self_app (a b : text) : starts_with a (a ++ b) = true.
  Proof. induction a as [|x a IH]; [destruct b; reflexivity|]. cbn [app starts_with]. rewrite Z.eqb_refl. exact IH. Qed.

  (* everything up to _get_tag_info *)
  Theorem parse_gen tags info : get_tag_info tags base X = Ok info ->
    parse_tag_request tags req =
    wrap_all RequestError
      (if negb (ti_struct info) && text_eqb (ti_dtname info) txt_DWORD then
         let* (t, idx) := get_array_index body0 in
         let tag2 := match idx with Some _ => t ++ zs_of_string "[0]" | None => body0 end in
         let bools := if (match cnt with Some _ => false | None => true end) || (cnt_val cnt =? 1) then None else Some (cnt_val cnt) in
         let total := (match idx with Some b => b | None => 0 end) + cnt_val cnt in
         let elements' := total / 32 + (if total mod 32 =? 0 then 0 else 1) in
         Ok (mkPreq body tag2 idx elements' bools info)
       else Ok (mkPreq body body0 (opt_val bit) (cnt_val cnt) None info)).
  Proof.
    intros Hg. unfold parse_tag_request. rewrite gp_split_count. cbn [bind]. rewrite gp_split_dot. fold bp.
    unfold parts. unfold base in Hg. pose proof gp_bit as Hb. unfold base in Hb.
    unfold prog_txt in *. destruct pre as [P|].
    - cbn [app]. rewrite starts_with_self_app. cbn [bind]. rewrite Hb. cbn [bind]. rewrite Hg. reflexivity.
    - cbn [app]. rewrite (Hnp eq_refl). cbn [bind]. rewrite Hb. cbn [bind]. rewrite Hg. reflexivity.
  Qed.
End GenParse.

(* ================================================================ Part 2: the request path *)
(* a name in a path: ASCII, none of . [ ] { }, 1..255 characters ("Program:P" is one) *)
Definition pchar (c : Z) : bool :=
  (0 <=? c) && (c <? 128) && negb (c =? 46) && negb (c =? 91) && negb (c =? 93) && negb (c =? 123) && negb (c =? 125).
Definition pname (n : text) : bool :=
  forallb pchar n && negb (match n with [] => true | _ => false end) && (Path.len n <? 256).

Lemma pchar_nosep c n : forallb pchar n = true -> (c = 46 \/ c = 91 \/ c = 93 \/ c = 123 \/ c = 125) -> nosep c n = true.
Proof.
  intros H Hc. unfold nosep. apply forallb_forall. intros x Hx. rewrite forallb_forall in H. specialize (H x Hx).
  unfold pchar in H. lia.
Qed.

Lemma pname_facts n : pname n = true -> forallb pchar n = true /\ n <> [] /\ 1 <= Path.len n < 256 /\ ascii_ok n = true.
Proof.
  unfold pname. intros H. apply andb_prop in H. destruct H as [H Hl]. apply andb_prop in H. destruct H as [Hc Hne].
  split; [exact Hc|]. split; [destruct n; [discriminate|discriminate]|].
  split; [destruct n; [discriminate|unfold Path.len in *; cbn [length] in *; lia]|].
  unfold ascii_ok. apply forallb_forall. intros x Hx. rewrite forallb_forall in Hc. specialize (Hc x Hx). unfold pchar in Hc. lia.
Qed.

Lemma plain_pname n : plain_name n = true -> pname n = true.
Proof.
  unfold plain_name, pname. intros H. apply andb_prop in H. destruct H as [H Hl]. apply andb_prop in H. destruct H as [Hc Hne].
  rewrite Hl, Hne, !andb_true_r. apply forallb_forall. intros x Hx. rewrite forallb_forall in Hc. specialize (Hc x Hx).
  unfold plain_char in Hc. unfold pchar. lia.
Qed.

(* a path part: name, index texts, index values *)
Definition ppart := (text * list text * list Z)%type.
Definition pp_name (x : ppart) : text := fst (fst x).
Definition pp_idv (x : ppart) : list Z := snd x.
Definition seg_txt (x : ppart) : text := pp_name x ++ idx_txt (snd (fst x)).
Definition ppart_ok (x : ppart) : Prop :=
  pname (pp_name x) = true /\ Forall2 num_ok (snd (fst x)) (pp_idv x) /\ idx32 (pp_idv x).

Definition gsegs (pp : list ppart) : list seg := flat_map (fun x => DataSym (pp_name x) :: member_segs (pp_idv x)) pp.
Definition gbytes (pp : list ppart) : bytes := flat_map (fun x => sym_seg_bytes (pp_name x) ++ mems_bytes (pp_idv x)) pp.
Definition gpsegs (pp : list ppart) : list pseg := flat_map (fun x => PSym (pp_name x) :: map (PLog 2) (pp_idv x)) pp.

Lemma ids_nosep_gen c ids idv : Forall2 num_ok ids idv -> (c < 48 \/ 57 < c) -> forallb (nosep c) ids = true.
Proof.
  intros HF Hc. induction HF as [|t v ts vs H HF IH]; [reflexivity|]. cbn [forallb].
  rewrite (num_nosep c t v H Hc), IH. reflexivity.
Qed.

Lemma seg_txt_nosep c x : ppart_ok x -> (c = 46 \/ c = 123 \/ c = 125) -> nosep c (seg_txt x) = true.
Proof.
  intros (Hn & Hids & _) Hc. destruct (pname_facts _ Hn) as (Hpc & _). unfold seg_txt. rewrite nosep_app.
  rewrite (pchar_nosep c _ Hpc) by tauto. cbn [andb].
  apply idx_txt_nosep; [apply (ids_nosep_gen c _ _ Hids); lia|lia|lia|lia].
Qed.

Lemma find_tag_index_seg x : ppart_ok x -> find_tag_index (seg_txt x) = (pp_name x, snd (fst x)).
Proof.
  intros (Hn & Hids & _). destruct (pname_facts _ Hn) as (Hpc & _).
  destruct x as [[n ids] idv]. unfold seg_txt, pp_name, pp_idv in *. cbn [fst snd] in *.
  unfold find_tag_index, idx_txt. pose proof (pchar_nosep 91 n Hpc) as Hns.
  pose proof (ids_nosep_gen 44 ids idv Hids (or_introl eq_refl)) as H44.
  destruct ids as [|i0 ir].
  - rewrite app_nil_r. rewrite (contains_chr_nosep 91 n) by (apply Hns; tauto). reflexivity.
  - rewrite contains_chr_app. cbn [app contains_chr existsb Z.eqb Pos.eqb orb]. rewrite orb_true_r.
    replace (n ++ 91 :: join [44] (i0 :: ir) ++ [93]) with ((n ++ 91 :: join [44] (i0 :: ir)) ++ [93])
      by (rewrite <- app_assoc; reflexivity).
    rewrite removelast_snoc. unfold find. rewrite find_from_nosep by (apply Hns; tauto). cbn [Nat.add].
    rewrite firstn_app_exact.
    replace (skipn (S (length n)) (n ++ 91 :: join [44] (i0 :: ir))) with (join [44] (i0 :: ir)).
    + cbn [forallb] in H44. apply andb_prop in H44. destruct H44 as [H0 Hr].
      rewrite split_join by assumption. reflexivity.
    + change (n ++ 91 :: join [44] (i0 :: ir)) with (n ++ [91] ++ join [44] (i0 :: ir)). rewrite app_assoc.
      replace (S (length n)) with (length (n ++ [91])) by (rewrite app_length; cbn; lia).
      rewrite skipn_app_exact. reflexivity.
Qed.

Lemma map_res_ids_gen ids idv : Forall2 num_ok ids idv -> map_res py_int_full ids = Ok idv.
Proof.
  induction 1 as [|t v ts vs H HF IH]; [reflexivity|].
  cbn [map_res]. rewrite (num_int t v H). cbn [bind]. rewrite IH. reflexivity.
Qed.

Lemma attr_segments_gen pp : Forall ppart_ok pp -> attr_segments (map seg_txt pp) = Ok (gsegs pp).
Proof.
  induction 1 as [|x r Hx Hr IH]; [reflexivity|].
  cbn [map attr_segments]. rewrite (find_tag_index_seg x Hx). destruct Hx as (_ & Hids & _).
  rewrite (map_res_ids_gen _ _ Hids). cbn [bind]. rewrite IH. reflexivity.
Qed.

Lemma tag_segments_gen x pp inst use_ids : Forall ppart_ok (x :: pp) ->
  (match inst with Some i => use_ids && negb (starts_with (txt "Program:") (seg_txt x)) && negb (i =? 0) | None => false end) = false ->
  tag_segments (join [46] (map seg_txt (x :: pp))) inst use_ids = Ok (Some (gsegs (x :: pp))).
Proof.
  intros HF Hsym. inversion HF as [|x' pp' Hx Hpp]; subst.
  unfold tag_segments. cbn [map]. rewrite split_join.
  2:{ apply seg_txt_nosep; [exact Hx|tauto]. }
  2:{ rewrite forallb_forall. intros y Hy. apply in_map_iff in Hy. destruct Hy as (z & <- & Hz).
      rewrite Forall_forall in Hpp. apply seg_txt_nosep; [apply Hpp; exact Hz|tauto]. }
  rewrite (find_tag_index_seg x Hx). destruct Hx as (_ & Hids & _).
  rewrite (map_res_ids_gen _ _ Hids). cbn [bind]. rewrite (attr_segments_gen pp Hpp). cbn [bind].
  destruct inst as [i|]; [rewrite Hsym|]; reflexivity.
Qed.

Lemma encode_segs_mems_app idv rest : idx32 idv ->
  encode_segs true (member_segs idv ++ rest) = (let* b := encode_segs true rest in Ok (mems_bytes idv ++ b)).
Proof.
  induction 1 as [|i r Hi Hr IH].
  - cbn [member_segs map app mems_bytes concat]. destruct (encode_segs true rest); reflexivity.
  - unfold member_segs in *. cbn [map app encode_segs encode_seg]. rewrite (encode_member_seg i Hi). cbn [wrap_all bind].
    rewrite IH. destruct (encode_segs true rest); cbn [bind]; [|reflexivity].
    unfold mems_bytes. cbn [map concat]. rewrite <- app_assoc. reflexivity.
Qed.

Lemma encode_gsegs pp : Forall ppart_ok pp -> encode_segs true (gsegs pp) = Ok (gbytes pp).
Proof.
  induction 1 as [|x r Hx Hr IH]; [reflexivity|].
  unfold gsegs, gbytes in *. cbn [flat_map]. destruct Hx as (Hn & _ & H32). destruct (pname_facts _ Hn) as (_ & _ & Hl & Ha).
  cbn [app encode_segs encode_seg]. unfold encode_data_sym. rewrite (utf8_encode_ascii _ Ha). cbn [bind].
  change (Z.lor data_segment_type data_extended_symbol) with 145.
  rewrite (uint_encode_1 145) by lia. cbn [bind]. rewrite (uint_encode_1 (Path.len (pp_name x))) by lia. cbn [bind wrap_all].
  rewrite (encode_segs_mems_app _ _ H32), IH. cbn [bind]. unfold sym_seg_bytes. rewrite <- !app_assoc. reflexivity.
Qed.

Lemma gbytes_len pp : Z.even (Path.len (gbytes pp)) = true /\ (length (gpsegs pp) <= length (gbytes pp))%nat.
Proof.
  induction pp as [|x r [IHe IHl]]; [split; [reflexivity|cbn; lia]|].
  unfold gbytes, gpsegs in *. cbn [flat_map]. unfold Path.len in *. rewrite !app_length. cbn [length]. rewrite ?app_length, map_length.
  pose proof (even_len_sym (pp_name x)) as H1. destruct (mems_len (pp_idv x)) as [H2 H3]. unfold Path.len in *.
  assert (H4 : (2 <= length (sym_seg_bytes (pp_name x)))%nat) by (unfold sym_seg_bytes; rewrite !app_length; cbn; lia).
  split; [|lia]. rewrite !Nat2Z.inj_add, !Z.even_add, H1, H2, IHe. reflexivity.
Qed.

Lemma parse_psegs_mems_app idv rest f : idx32 idv ->
  parse_psegs (length idv + f) (mems_bytes idv ++ rest)
  = match parse_psegs f rest with Some l => Some (map (PLog 2) idv ++ l) | None => None end.
Proof.
  induction 1 as [|i r Hi Hr IH].
  - cbn [length Nat.add mems_bytes map concat app]. destruct (parse_psegs f rest); reflexivity.
  - unfold mems_bytes in *. cbn [map concat length Nat.add]. rewrite <- app_assoc.
    destruct (parse_logical_mem i (concat (map mem_seg_bytes r) ++ rest) Hi) as (b & rr & -> & Hb & Hp).
    cbn [parse_psegs]. rewrite (pseg_log b rr Hb), Hp, IH. destruct (parse_psegs f rest); reflexivity.
Qed.

Lemma parse_gpsegs pp : Forall ppart_ok pp -> parse_psegs (length (gpsegs pp)) (gbytes pp) = Some (gpsegs pp).
Proof.
  induction 1 as [|x r Hx Hr IH]; [reflexivity|].
  unfold gbytes, gpsegs in *. cbn [flat_map]. destruct Hx as (Hn & _ & H32). destruct (pname_facts _ Hn) as (_ & _ & Hl & _).
  cbn [app length]. rewrite <- app_assoc. rewrite app_length, map_length.
  rewrite (parse_psegs_sym _ _ _ Hl). rewrite (parse_psegs_mems_app _ _ _ H32), IH. reflexivity.
Qed.

Theorem path_gen x pp inst use_ids : Forall ppart_ok (x :: pp) ->
  (match inst with Some i => use_ids && negb (starts_with (txt "Program:") (seg_txt x)) && negb (i =? 0) | None => false end) = false ->
  let pb := gbytes (x :: pp) in
  tag_request_path (join [46] (map seg_txt (x :: pp))) inst use_ids
  = (if Path.len pb / 2 <? 256 then Ok (Some ((Path.len pb / 2) :: pb)) else Err DataError)
  /\ (Path.len pb / 2 < 256 -> path_wf ((Path.len pb / 2) :: pb) pb)
  /\ parse_psegs (length pb) pb = Some (gpsegs (x :: pp))
  /\ tag_cia pb /\ 4 <= EncapParser.blen pb.
Proof.
  intros HF Hsym pb. destruct (gbytes_len (x :: pp)) as [He Hl]. fold pb in He, Hl.
  assert (H4 : 4 <= Path.len pb).
  { inversion HF as [|x' pp' Hx _]; subst. destruct Hx as (Hn & _). 
    assert (Hpn : plain_name (pp_name x) = true \/ True) by (right; exact I).
    destruct (pname_facts _ Hn) as (_ & _ & Hl1 & _).
    unfold pb, gbytes. cbn [flat_map]. unfold Path.len in *. rewrite !app_length.
    assert (4 <= Z.of_nat (length (sym_seg_bytes (pp_name x)))); [|lia].
    pose proof (even_len_sym (pp_name x)) as Hev. unfold sym_seg_bytes, Path.len in *. rewrite !app_length in *. cbn [length] in *.
    destruct (odd_len (pp_name x)) eqn:Eo; cbn [length] in *; [lia|].
    assert (Z.of_nat (length (pp_name x)) <> 1); [|lia]. intros E1. unfold odd_len in Eo.
    assert (length (pp_name x) = 1%nat) by lia. rewrite H in Eo. discriminate. }
  split; [|split; [|split; [|split]]].
  - unfold tag_request_path. rewrite (tag_segments_gen x pp inst use_ids HF Hsym). cbn [bind].
    unfold epath_encode. change padded_PADDED_EPATH with true. rewrite (encode_gsegs _ HF). cbn [bind]. fold pb.
    destruct (Path.len pb / 2 <? 256) eqn:E.
    + rewrite (uint_encode_1 (Path.len pb / 2)) by lia. reflexivity.
    + unfold USINT_encode, uint_encode, in_urange. change (pow256 1) with 256.
      replace ((0 <=? Path.len pb / 2) && (Path.len pb / 2 <? 256)) with false by lia. reflexivity.
  - intros Hlt. unfold path_wf. change (EncapParser.blen pb) with (Path.len pb). split; [reflexivity|]. split; [exact He|lia].
  - apply (parse_psegs_mono (length (gpsegs (x :: pp)))); [apply parse_gpsegs; exact HF|exact Hl].
  - left. unfold path_cia, pb, gbytes. cbn [flat_map]. rewrite <- app_assoc.
    destruct (length (sym_seg_bytes (pp_name x) ++ mems_bytes (pp_idv x) ++ flat_map (fun x0 => sym_seg_bytes (pp_name x0) ++ mems_bytes (pp_idv x0)) pp)) eqn:E.
    + unfold sym_seg_bytes in E. cbn in E. discriminate.
    + rewrite parse_logicals_sym. reflexivity.
  - change (EncapParser.blen pb) with (Path.len pb). exact H4.
Qed.

(* ================================================================ the target walks the path *)
Fixpoint twalk (p : project) (l : wloc) (more : list ppart) : rres wloc :=
  match more with
  | [] => ROk l
  | x :: r =>
      match member_step p l (pp_name x) with
      | ROk l1 => match apply_idx p l1 (pp_idv x) with
                  | ROk l2 => twalk p l2 r
                  | RErr a b c => RErr a b c
                  end
      | RErr a b c => RErr a b c
      end
  end.

Lemma resolve_segs_idx p l idv : forall acc rest,
  resolve_segs p l acc (map (PLog 2) idv ++ rest) = resolve_segs p l (rev idv ++ acc) rest.
Proof.
  induction idv as [|i r IH]; intros acc rest; [reflexivity|].
  cbn [map app resolve_segs rev]. rewrite IH. rewrite <- app_assoc. reflexivity.
Qed.

Lemma resolve_segs_walk p : forall more l acc,
  resolve_segs p l acc (gpsegs more)
  = match apply_idx p l (rev acc) with ROk l1 => twalk p l1 more | RErr a b c => RErr a b c end.
Proof.
  induction more as [|x r IH]; intros l acc.
  - cbn [gpsegs flat_map resolve_segs twalk]. destruct (apply_idx p l (rev acc)); reflexivity.
  - unfold gpsegs in *. cbn [flat_map app resolve_segs twalk].
    destruct (apply_idx p l (rev acc)) as [l1|a b c]; [|reflexivity].
    destruct (member_step p l1 (pp_name x)) as [l2|a b c]; [|reflexivity].
    rewrite resolve_segs_idx, IH. rewrite app_nil_r, rev_involutive. reflexivity.
Qed.

Definition prog_of (sc : scope) : option text := match sc with ScCtrl => None | ScProg P => Some P end.
Definition prog_parts (sc : scope) : list ppart :=
  match sc with ScCtrl => [] | ScProg P => [(txt_Program_ ++ P, [], [])] end.

Lemma skipn8_program P : skipn 8 (txt_Program_ ++ P) = P.
Proof. reflexivity. Qed.

(* the whole path: program part (if any), the tag with its indices, the members *)
Lemma resolve_path_gen p g x more l :
  In g (p_tags p) -> tag_ok p g = true -> distinct_by tag_key_eqb (p_tags p) = true ->
  pp_name x = g_name g -> starts_with txt_Program_ (g_name g) = false ->
  tag_wloc g = ROk l -> Forall ppart_ok (prog_parts (g_scope g) ++ x :: more) ->
  resolve_path p false (gbytes (prog_parts (g_scope g) ++ x :: more))
  = of_rres (match apply_idx p l (pp_idv x) with ROk l1 => twalk p l1 more | RErr a b c => RErr a b c end).
Proof.
  intros Hin Hok Hdist Hname Hnp Hl HF.
  assert (Hsym : (match @None Z with Some i => false && negb (starts_with (txt "Program:") (seg_txt x)) && negb (i =? 0) | None => false end) = false)
    by reflexivity.
  assert (Hfind : find_tag_name (p_tags p) (g_scope g) (g_name g) = Some g) by (apply find_tag_name_distinct; assumption).
  unfold resolve_path.
  destruct (g_scope g) as [|P] eqn:Esc.
  - cbn [prog_parts app] in *.
    destruct (path_gen x more None false HF Hsym) as (_ & _ & Hps & _ & _). rewrite Hps.
    unfold gpsegs. cbn [flat_map app]. fold (gpsegs more). rewrite Hname.
    change txt_Program with txt_Program_. rewrite Hnp.
    assert (E : resolve_in_scope p false ScCtrl (PSym (g_name g) :: map (PLog 2) (pp_idv x) ++ gpsegs more)
                = of_rres (match apply_idx p l (pp_idv x) with ROk l1 => twalk p l1 more | RErr a b c => RErr a b c end)).
    { unfold resolve_in_scope. rewrite Hfind, Hl. rewrite resolve_segs_idx, resolve_segs_walk.
      rewrite app_nil_r, rev_involutive. reflexivity. }
    destruct (map (PLog 2) (pp_idv x) ++ gpsegs more); exact E.
  - cbn [prog_parts app] in *.
    destruct (path_gen (txt_Program_ ++ P, [], []) (x :: more) None false HF Hsym) as (_ & _ & Hps & _ & _). rewrite Hps.
    unfold gpsegs. cbn [flat_map app pp_name pp_idv fst snd map]. fold (gpsegs more). rewrite Hname.
    change txt_Program with txt_Program_. rewrite starts_with_self_app. cbv zeta. rewrite skipn8_program.
    assert (Hprog : existsb (name_eqb P) (program_names p) = true).
    { unfold tag_ok in Hok. repeat (apply andb_prop in Hok; destruct Hok as [Hok ?]).
      rewrite Esc in *. cbn [scope_ok] in *. assumption. }
    rewrite Hprog. unfold resolve_in_scope. rewrite Hfind, Hl. rewrite resolve_segs_idx, resolve_segs_walk.
    rewrite app_nil_r, rev_involutive.
    destruct (apply_idx p l (pp_idv x)) as [l1|a b c]; [|reflexivity]. destruct (twalk p l1 more); reflexivity.
Qed.

(* ================================================================ Part 3: reference, target and client walk alike *)
(* the client's info dict of something of type [ty]: [n_el] elements when [is_arr] *)
Definition tinfo_of (p : project) (ty : base_ty) (n_el : Z) (is_arr : bool) (info : tinfo) : Prop :=
  match ty with
  | BAtom c => exists nm sz k, atom_class c = Some (nm, sz, k) /\ ti_struct info = false /\ ti_dtname info = nm
                 /\ ti_esize info = sz /\ ti_class info = (if is_arr then KArr n_el (KAtom c) else KAtom c)
  | BStruct tid => exists f nm tc sz attrs mem, struct_dtype (S f) p tid = Some (nm, tc, sz, attrs, mem)
                 /\ ti_struct info = true /\ ti_dtname info = nm /\ ti_esize info = sz /\ ti_attrs info = attrs
                 /\ ti_members info = mem /\ ti_class info = (if is_arr then KArr n_el tc else tc)
  | BOpaque _ => False
  end.

Definition no_dims (dims : list Z) : bool := match dims with [] => true | _ => false end.

(* an array (or scalar) of [ty] at [off] of the image, not yet indexed *)
Definition data_rel (p : project) (total inst off : Z) (ty : base_ty) (dims : list Z) (avail : Z) (info : tinfo) : Prop :=
  0 <= off /\ avail = dims_count dims /\ forallb (fun d => 0 <? d) dims = true /\ (length dims <= 3)%nat
  /\ Forall (fun d => d <= 4294967296) dims
  /\ (exists s, base_size p ty = Some s /\ 0 < s /\ off + s * avail <= total)
  /\ tinfo_of p ty avail (negb (no_dims dims)) info
  /\ match ty with BAtom c => (c =? C_BOOL) = false | _ => True end
  /\ (is_dword ty = true -> no_dims dims = false).

(* BOOL arrays are arrays: a DWORD tag or member has a dimension (`x[i]` on a scalar DWORD has a place in
   Expect.index_place, but the client sends x[0], which the target rejects) *)
Definition dword_arrays (p : project) : bool :=
  forallb (fun g => negb (is_dword (g_ty g)) || negb (no_dims (g_dims g))) (p_tags p)
  && forallb (fun t => forallb (fun m => negb (is_dword (m_ty m)) || negb (m_arr m =? 0)) (t_members t)) (p_templates p).

Definition pre_rel (p : project) (total inst : Z) (pl : place) (l : wloc) (info : tinfo) : Prop :=
  (exists off ty dims avail, pl = PlData inst off ty dims avail /\ l = mkWLoc inst off ty dims avail None
                                  /\ data_rel p total inst off ty dims avail info)
  \/ (exists off b, pl = PlBit inst off b /\ l = mkWLoc inst off (BAtom C_BOOL) [] 1 (Some b)
                         /\ ti_struct info = false /\ ti_dtname info = txt_BOOL /\ ti_class info = KAtom 193 /\ ti_esize info = 1).

(* ---------------------------------------------------------------- the tag *)
Lemma tag_pre_rel p g info :
  layout_ok p = true -> dword_arrays p = true -> In g (p_tags p) -> tag_ok p g = true -> tag_info p g = Some info ->
  Forall (fun d => d <= 4294967296) (g_dims g) ->
  exists total pl l, tag_size p g = Some total /\ tag_place g = Some pl /\ tag_wloc g = ROk l /\ pre_rel p total (g_inst g) pl l info.
Proof.
  intros Hlay Hda Hgin Hok Hinfo H32. destruct (tag_ok_dims p g Hok) as [Hd3 Hdpos].
  assert (Hdwd : is_dword (g_ty g) = true -> no_dims (g_dims g) = false).
  { unfold dword_arrays in Hda. apply andb_prop in Hda. destruct Hda as [Hda _].
    pose proof (forallb_In _ _ _ Hda Hgin) as Hx. cbv beta in Hx. intros E. rewrite E in Hx. cbn in Hx.
    apply negb_true_iff in Hx. exact Hx. }
  unfold tag_ok in Hok. repeat (apply andb_prop in Hok; destruct Hok as [Hok ?]).
  unfold tag_info in Hinfo. unfold tag_place, tag_wloc, tag_size.
  destruct (g_ty g) as [c|tid|w] eqn:Ety; [| |discriminate].
  - apply andb_prop in H. destruct H as [H Hbooldims]. apply andb_prop in H. destruct H as [H Hbp]. apply andb_prop in H. destruct H as [Hsz Hbp0].
    cbn [base_size].
    destruct (atom_size c) as [sz|] eqn:Esz; [|discriminate].
    destruct (atom_client_name c sz Esz) as (nm & k & Hcls & Hnm & Hcn & Hdw & Hbool).
    rewrite Hcls in Hinfo. injection Hinfo as <-. exists (sz * tag_elems g).
    destruct (c =? C_BOOL) eqn:Eb.
    + eexists. eexists. split; [reflexivity|]. split; [reflexivity|]. split; [reflexivity|]. right.
      assert (c = 193) by (unfold C_BOOL in Eb; lia). subst c.
      assert (Hd : g_dims g = []) by (destruct (g_dims g); [reflexivity|cbn in Hbooldims; discriminate]).
      rewrite Hd. vm_compute in Hcls. injection Hcls as <- <- <-.
      exists 0, (g_bitpos g). repeat split; reflexivity.
    + eexists. eexists. split; [reflexivity|]. split; [reflexivity|]. split; [reflexivity|]. left.
      exists 0, (BAtom c), (g_dims g), (tag_elems g). split; [reflexivity|]. split; [reflexivity|].
      unfold data_rel. split; [lia|]. split; [reflexivity|]. split; [exact Hdpos|]. split; [exact Hd3|]. split; [exact H32|].
      split; [exists sz; cbn [base_size]; split; [exact Esz|]; split; [destruct (atom_size_cases c sz Esz) as [|[|[|]]]; lia|lia]|].
      split; [|split; [exact Eb|exact Hdwd]].
      cbn [tinfo_of]. exists nm, sz, k. cbn [ti_struct ti_dtname ti_esize ti_class].
      repeat split; try assumption; try reflexivity. unfold tag_elems. destruct (g_dims g); reflexivity.
  - apply andb_prop in H. destruct H as [Hft Hbp0]. cbn [base_size].
    destruct (find_template (p_templates p) tid) as [t|] eqn:Eft; [|discriminate]. exists (t_size t * tag_elems g).
    destruct (struct_dtype (client_fuel p) p tid) as [[[[[nm tc] sz] attrs] mem']|] eqn:Esd; [|discriminate].
    injection Hinfo as <-.
    eexists. eexists. split; [reflexivity|]. split; [reflexivity|]. split; [reflexivity|]. left.
    exists 0, (BStruct tid), (g_dims g), (tag_elems g). split; [reflexivity|]. split; [reflexivity|].
    unfold data_rel. split; [lia|]. split; [reflexivity|]. split; [exact Hdpos|]. split; [exact Hd3|]. split; [exact H32|].
    split.
    { exists (t_size t). cbn [base_size]. rewrite Eft. split; [reflexivity|].
      destruct (find_template_in _ _ _ Eft) as [Hint _].
      pose proof (forallb_In _ _ _ Hlay Hint) as Hlt. split; [apply (sc_lay p t Hlt)|lia]. }
    split; [|split; [exact I|cbn; discriminate]].
    cbn [tinfo_of]. exists (S (length (p_templates p))), nm, tc, sz, attrs, mem'. cbn [ti_struct ti_dtname ti_esize ti_class ti_attrs ti_members].
    split; [exact Esd|]. repeat split; try reflexivity. unfold tag_elems. destruct (g_dims g); reflexivity.
Qed.

(* ---------------------------------------------------------------- indexing a data place *)
Lemma index_data_gen p inst off ty dims idv sz pl1 :
  is_dword ty = false -> forallb (fun d => 0 <? d) dims = true -> base_size p ty = Some sz -> 0 < sz -> 0 <= off ->
  index_place p (PlData inst off ty dims (dims_count dims)) idv = Some pl1 ->
  exists off' av dl,
    pl1 = PlData inst off' ty dl av
    /\ apply_idx p (mkWLoc inst off ty dims (dims_count dims) None) idv = ROk (mkWLoc inst off' ty dl av None)
    /\ 0 <= off' /\ 1 <= av /\ off' + sz * av = off + sz * dims_count dims
    /\ ((idv = [] /\ av = dims_count dims /\ dl = dims /\ off' = off) \/ (dl = [] /\ Forall2 (fun i d => 0 <= i < d) idv dims)).
Proof.
  intros Hnd Hpos Hsz Hsp Hoff H. unfold index_place in H. rewrite Hnd in H.
  pose proof (dims_count_pos dims Hpos) as Hc.
  destruct idv as [|i ir].
  - injection H as <-. exists off, (dims_count dims), dims. repeat split; try reflexivity; try lia. left. repeat split; reflexivity.
  - destruct (flat_index dims (i :: ir) 0) as [k|] eqn:Ef; [|discriminate]. rewrite Hsz in H. injection H as <-.
    destruct (flat_index_bound dims Hpos (i :: ir) 0 k (Z.le_refl 0) Ef) as [Hb HF].
    pose proof (flat_index_len dims _ _ _ Ef) as Hlen.
    exists (off + k * sz), (dims_count dims - k), []. split; [reflexivity|]. split.
    + unfold apply_idx. cbn [w_bit w_dims w_ty w_inst w_off].
      destruct dims as [|d dr]; [cbn in Ef; discriminate|].
      rewrite Hlen, Nat.eqb_refl. cbn [negb]. rewrite Ef, Hsz. reflexivity.
    + split; [nia|]. split; [lia|]. split; [nia|]. right. split; [reflexivity|exact HF].
Qed.

(* ---------------------------------------------------------------- one member *)
Lemma find_member_in ms n m : find_member ms n = Some m -> In m ms.
Proof.
  induction ms as [|x r IH]; [discriminate|]. cbn [find_member]. destruct (name_eqb (m_name x) n).
  - intros H. injection H as <-. left. reflexivity.
  - intros H. right. exact (IH H).
Qed.

Lemma in_map_fst_ex {A B} (l : list (A * B)) a : In a (map fst l) -> exists b, In (a, b) l.
Proof. intros H. apply in_map_iff in H. destruct H as ([a' b] & E & Hin). cbn in E. subst a'. exists b. exact Hin. Qed.

Lemma member_step_agree p total inst off tid av dw info n pl2 :
  layout_ok p = true -> dword_arrays p = true ->
  0 <= off -> 1 <= av ->
  (exists s, base_size p (BStruct tid) = Some s /\ off + s * av <= total) ->
  (exists ne ia, tinfo_of p (BStruct tid) ne ia info) ->
  member_place p (PlData inst off (BStruct tid) [] av) n = Some pl2 ->
  (forall t m, find_template (p_templates p) tid = Some t -> find_member (t_members t) n = Some m -> m_name m = n) ->
  dw = [] ->
  exists l2 info2,
    member_step p (mkWLoc inst off (BStruct tid) dw av None) n = ROk l2
    /\ ti_struct info = true /\ dget n (ti_members info) = Some info2
    /\ pre_rel p total inst pl2 l2 info2 /\ ti_inst info2 = None.
Proof.
  intros Hlay Hda Hoff Hav (s & Hs & Hbound) (ne & ia & Hti) Hmp Hexact ->.
  unfold member_place in Hmp. unfold member_step. cbn [w_bit w_dims w_ty w_inst w_off].
  cbn [base_size] in Hs.
  destruct (find_template (p_templates p) tid) as [t|] eqn:Eft; [|discriminate]. injection Hs as <-.
  destruct (find_member (t_members t) n) as [m|] eqn:Efm; [|discriminate].
  pose proof (Hexact t m eq_refl Efm) as Hnm.
  cbn [tinfo_of] in Hti. destruct Hti as (f & nm & tc & sz & attrs & mem' & Hsd & Hst & _ & _ & _ & Hmem & _).
  rewrite struct_dtype_S, Eft in Hsd.
  destruct (member_infos (struct_dtype f p) (t_members t)) as [infos|] eqn:Emi; [|discriminate].
  injection Hsd as _ _ _ _ Hmem'.
  destruct (find_template_in _ _ _ Eft) as [Hint Htid].
  pose proof (forallb_In _ _ _ Hlay Hint) as Hlt.
  pose proof (decode_elem_spec p Hlay f) as IH.
  pose proof (find_member_in _ _ _ Efm) as Hmin. rewrite <- (sc_fst p f t infos Emi) in Hmin.
  destruct (in_map_fst_ex _ _ Hmin) as (i & Hin).
  destruct (sc_member p f t infos Hlt Emi (m, i) Hin) as [Hmok Hmi]. cbn [fst snd] in Hmok, Hmi.
  pose proof (sc_itag p f t infos Hlt Emi (m, i) Hin) as Hget. unfold mi_name in Hget. cbn [fst snd] in Hget.
  assert (Hdget : dget n (ti_members info) = Some i).
  { rewrite Hmem, <- Hmem'. unfold dtype_of. cbn [fst snd]. rewrite (sc_scan p f t infos Hlt Emi). cbn [sc_itags].
    rewrite <- Hnm. exact Hget. }
  pose proof (sc_lay p t Hlt) as (_ & _ & _ & _ & Htsz).
  unfold member_ok in Hmok. repeat (apply andb_prop in Hmok; destruct Hmok as [Hmok ?]).
  unfold member_info in Hmi.
  destruct (is_bool_member m) eqn:Eb.
  - (* a BOOL member *)
    injection Hmp as <-. eexists. exists i. split; [reflexivity|]. split; [exact Hst|]. split; [exact Hdget|].
    unfold is_bool_member in Eb. destruct (m_ty m) as [c| |] eqn:Ety; try discriminate.
    assert (c = 193) by (unfold C_BOOL in Eb; lia). subst c.
    change (atom_class 193) with (Some (txt_BOOL, 1, ABool)) in Hmi. change (text_eqb txt_BOOL txt_BOOL) with true in Hmi.
    injection Hmi as <-. split; [|reflexivity]. right. exists (off + m_off m), (m_bit m). repeat split; reflexivity.
  - (* data *)
    injection Hmp as <-. eexists. exists i. split; [reflexivity|]. split; [exact Hst|]. split; [exact Hdget|].
    assert (Hinone : ti_inst i = None).
    { destruct (m_ty m) as [c|tid'|w]; [| |discriminate].
      - destruct (atom_class c) as [[[? ?] ?]|]; [|discriminate]. injection Hmi as <-. reflexivity.
      - destruct (struct_dtype f p tid') as [[[[[? ?] ?] ?] ?]|]; [|discriminate]. injection Hmi as <-. reflexivity. }
    assert (Hdwd : is_dword (m_ty m) = true -> no_dims (if m_arr m =? 0 then [] else [m_arr m]) = false).
    { unfold dword_arrays in Hda. apply andb_prop in Hda. destruct Hda as [_ Hda].
      pose proof (forallb_In _ _ _ Hda Hint) as Hx. cbv beta in Hx.
      assert (Hmin' : In m (t_members t)) by (apply (find_member_in _ _ _ Efm)).
      pose proof (forallb_In _ _ _ Hx Hmin') as Hy. cbv beta in Hy. intros E. rewrite E in Hy. cbn in Hy.
      apply negb_true_iff in Hy. rewrite Hy. reflexivity. }
    split; [|exact Hinone].
    left. exists (off + m_off m), (m_ty m), (if m_arr m =? 0 then [] else [m_arr m]), (member_elems m).
    split; [reflexivity|]. split; [reflexivity|].
    cbv beta iota in H. unfold member_size in H. apply andb_prop in H. destruct H as [Hb0 H].
    destruct (base_size p (m_ty m)) as [es|] eqn:Ees; [|discriminate]. apply andb_prop in H. destruct H as [Hspos Hfit].
    assert (Hel : 1 <= member_elems m) by (unfold member_elems; destruct (m_arr m =? 0) eqn:E; lia).
    unfold data_rel. split; [lia|].
    split; [unfold member_elems, dims_count; destruct (m_arr m =? 0); cbn [fold_right]; lia|].
    split; [destruct (m_arr m =? 0) eqn:E; cbn [forallb]; [reflexivity|lia]|].
    split; [destruct (m_arr m =? 0); cbn [length]; lia|].
    split; [destruct (m_arr m =? 0); repeat constructor; lia|].
    split; [exists es; split; [exact Ees|]; split; nia|].
    split.
    + unfold is_bool_member in Eb.
      destruct (m_ty m) as [c|tid'|w] eqn:Ety; [| |discriminate].
      * destruct (atom_class c) as [[[nm' sz'] k]|] eqn:Ecls; [|discriminate]. injection Hmi as <-.
        cbn [tinfo_of]. exists nm', sz', k. cbn [ti_struct ti_dtname ti_esize ti_class].
        split; [exact Ecls|]. repeat split.
        cbn [base_size] in Ees. destruct (atom_client_name c es Ees) as (nm2 & k2 & Hcls2 & _ & _ & _ & Hbool).
        rewrite Ecls in Hcls2. injection Hcls2 as -> -> ->. rewrite Hbool, Eb.
        unfold wrap_arr, member_elems, no_dims. destruct (m_arr m =? 0); reflexivity.
      * destruct (struct_dtype f p tid') as [[[[[nm' tc'] sz'] attrs'] mem2]|] eqn:Esd2; [|discriminate]. injection Hmi as <-.
        cbn [tinfo_of]. destruct f as [|f']; [discriminate|].
        exists f', nm', tc', sz', attrs', mem2. cbn [ti_struct ti_dtname ti_esize ti_class ti_attrs ti_members].
        split; [exact Esd2|]. repeat split.
        unfold wrap_arr, member_elems, no_dims. destruct (m_arr m =? 0); reflexivity.
    + split; [unfold is_bool_member in Eb; destruct (m_ty m); [exact Eb|exact I|exact I]|exact Hdwd].
Qed.

(* ---------------------------------------------------------------- the whole member path *)
Definition seg_ast (x : ppart) : rseg := mkSeg (pp_name x) (pp_idv x).

(* the request spells member names as the templates do (README: names are case-sensitive; the
   reference, like Logix, compares them case-insensitively) *)
Fixpoint exact_members (p : project) (pl : place) (more : list ppart) : Prop :=
  match more with
  | [] => True
  | y :: r =>
      match pl with
      | PlData _ _ (BStruct tid) _ _ =>
          match find_template (p_templates p) tid with
          | Some t =>
              match find_member (t_members t) (pp_name y) with
              | Some m => m_name m = pp_name y
                          /\ match member_place p pl (pp_name y) with
                             | Some pl2 => match index_place p pl2 (pp_idv y) with
                                           | Some pl3 => exact_members p pl3 r
                                           | None => True
                                           end
                             | None => True
                             end
              | None => True
              end
          | None => True
          end
      | _ => True
      end
  end.

(* target: index the current location, then the members *)
Definition tall (p : project) (l : wloc) (xs : list ppart) : rres wloc :=
  match xs with
  | [] => ROk l
  | x :: more => match apply_idx p l (pp_idv x) with ROk l1 => twalk p l1 more | RErr a b c => RErr a b c end
  end.

Lemma twalk_cons p l y r :
  twalk p l (y :: r) = match member_step p l (pp_name y) with ROk l1 => tall p l1 (y :: r) | RErr a b c => RErr a b c end.
Proof. reflexivity. Qed.

(* client: the info dicts along the path *)
Fixpoint cwalk (info : tinfo) (more : list ppart) : option tinfo :=
  match more with
  | [] => Some info
  | y :: r => if ti_struct info
              then match dget (pp_name y) (ti_members info) with Some i => cwalk i r | None => None end
              else None
  end.

Lemma strip_seg x : ppart_ok x -> strip_array (seg_txt x) = pp_name x.
Proof.
  intros (Hn & _). destruct (pname_facts _ Hn) as (Hpc & _). pose proof (pchar_nosep 91 _ Hpc) as Hns.
  unfold strip_array, seg_txt, idx_txt. destruct (snd (fst x)) as [|i0 ir].
  - rewrite app_nil_r. rewrite find_nosep by (apply Hns; tauto). reflexivity.
  - cbn [app]. unfold find. rewrite find_from_nosep by (apply Hns; tauto). cbn [Nat.add].
    rewrite firstn_app_exact. reflexivity.
Qed.

Lemma recurse_cwalk : forall r y data i0 infol, Forall ppart_ok (y :: r) ->
  dget (pp_name y) data = Some i0 -> cwalk i0 r = Some infol ->
  recurse_attrs (map seg_txt (y :: r)) data = Some infol.
Proof.
  induction r as [|z r IH]; intros y data i0 infol HF Hd Hc; inversion HF as [|y' r' Hy Hr]; subst.
  - cbn [map recurse_attrs]. rewrite (strip_seg y Hy), Hd. cbn in Hc. exact Hc.
  - cbn [map]. cbn [recurse_attrs]. rewrite (strip_seg y Hy), Hd.
    cbn [cwalk] in Hc. destruct (ti_struct i0); [|discriminate].
    destruct (dget (pp_name z) (ti_members i0)) as [i1|] eqn:E1; [|discriminate].
    change (seg_txt z :: map seg_txt r) with (map seg_txt (z :: r)). apply (IH z (ti_members i0) i1 infol Hr E1 Hc).
Qed.

Lemma get_tag_info_walk tags base x more info infol : Forall ppart_ok more ->
  strip_array base = x -> dget x tags = Some info -> cwalk info more = Some infol ->
  get_tag_info tags base (map seg_txt more) = Ok infol.
Proof.
  intros HF Hb Hd Hc. unfold get_tag_info. rewrite Hb, Hd. destruct more as [|y r].
  - cbn in *. congruence.
  - cbn [cwalk] in Hc. destruct (ti_struct info); [|discriminate].
    destruct (dget (pp_name y) (ti_members info)) as [i1|] eqn:E1; [|discriminate].
    cbn [map]. change (seg_txt y :: map seg_txt r) with (map seg_txt (y :: r)).
    rewrite (recurse_cwalk r y (ti_members info) i1 infol HF E1 Hc). reflexivity.
Qed.

(* the three walks agree; [A ++ [xl]] is the path, [xl] its last segment *)
Lemma walk_agree p total inst : layout_ok p = true -> dword_arrays p = true ->
  forall more x pl l info plf,
  pre_rel p total inst pl l info ->
  match index_place p pl (pp_idv x) with Some pl' => walk_members p pl' (map seg_ast more) | None => None end = Some plf ->
  match index_place p pl (pp_idv x) with Some pl' => exact_members p pl' more | None => True end ->
  exists A xl pll ll infol,
    x :: more = A ++ [xl] /\ pre_rel p total inst pll ll infol /\ index_place p pll (pp_idv xl) = Some plf
    /\ cwalk info more = Some infol /\ (more <> [] -> ti_inst infol = None)
    /\ forall xl', pp_name xl' = pp_name xl -> tall p l (A ++ [xl']) = apply_idx p ll (pp_idv xl').
Proof.
  intros Hlay Hda. induction more as [|y r IH]; intros x pl l info plf Hpre Href Hex.
  - exists [], x, pl, l, info. split; [reflexivity|]. split; [exact Hpre|].
    split; [destruct (index_place p pl (pp_idv x)); [cbn in Href; exact Href|discriminate]|].
    split; [reflexivity|]. split; [congruence|]. intros xl' _. cbn [app tall twalk]. destruct (apply_idx p l (pp_idv xl')); reflexivity.
  - destruct (index_place p pl (pp_idv x)) as [pl'|] eqn:Eip; [|discriminate].
    cbn [map walk_members seg_ast s_name s_idx] in Href.
    destruct (member_place p pl' (pp_name y)) as [pl2|] eqn:Emp; [|discriminate].
    (* the current place is a structure, not a BOOL, not a BOOL array *)
    destruct Hpre as [(off & ty & dims & avail & -> & -> & Hdr)|(off & b & -> & -> & _)].
    2:{ unfold index_place in Eip. destruct (pp_idv x); [|discriminate]. injection Eip as <-. cbn in Emp. discriminate. }
    destruct Hdr as (Hoff & Hav & Hpos & Hd3 & H32 & (s & Hs & Hspos & Hbound) & Hti & Hnb & Hdwd).
    destruct (is_dword ty) eqn:Edw.
    { unfold index_place in Eip. rewrite Edw in Eip.
      destruct dims as [|d1 [|d2 dr]]; destruct (pp_idv x) as [|i1 [|i2 ir]]; try discriminate;
        try (injection Eip as <-; cbn in Emp; discriminate);
        try (destruct (_ && _); [injection Eip as <-; cbn in Emp; discriminate|discriminate]). }
    rewrite Hav in Eip.
    destruct (index_data_gen p inst off ty dims (pp_idv x) s pl' Edw Hpos Hs Hspos Hoff Eip)
      as (off' & av' & dl & -> & Hai & Hoff' & Hav' & Hsum & Hshape).
    (* member_place needs a structure without pending dimensions *)
    assert (Hst : exists tid, ty = BStruct tid /\ dl = []).
    { unfold member_place in Emp. destruct ty as [c|tid|w]; try discriminate. destruct dl; [|discriminate]. eauto. }
    destruct Hst as (tid & -> & ->).
    assert (Hexm : forall t m, find_template (p_templates p) tid = Some t -> find_member (t_members t) (pp_name y) = Some m ->
                               m_name m = pp_name y).
    { intros t m Eft Efm. cbn [exact_members] in Hex. rewrite Eft, Efm in Hex. tauto. }
    destruct (member_step_agree p total inst off' tid av' [] info (pp_name y) pl2 Hlay Hda Hoff' Hav')
      as (l2 & info2 & Hms & Hstr & Hdg & Hpre2 & Hinone); try assumption; try reflexivity.
    { exists s. split; [exact Hs|]. rewrite Hav in Hbound. lia. }
    { eauto. }
    destruct (IH y pl2 l2 info2 plf Hpre2 Href) as (A & xl & pll & ll & infol & EA & Hprel & Hipl & Hcw & Hinl & Htall).
    { cbn [exact_members] in Hex.
      unfold member_place in Emp.
      destruct (find_template (p_templates p) tid) as [t|] eqn:Eft; [|discriminate].
      destruct (find_member (t_members t) (pp_name y)) as [m|] eqn:Efm; [|discriminate].
      destruct Hex as [_ Hex]. unfold member_place in Hex. rewrite Eft, Efm in Hex.
      destruct (is_bool_member m); injection Emp as <-; exact Hex. }
    exists (x :: A), xl, pll, ll, infol.
    split; [rewrite EA; reflexivity|]. split; [exact Hprel|]. split; [exact Hipl|].
    split; [cbn [cwalk]; rewrite Hstr, Hdg; exact Hcw|].
    split.
    { intros _. destruct r as [|z r']; [cbn in Hcw; injection Hcw as <-; exact Hinone|apply Hinl; discriminate]. }
    intros xl' Hn'. specialize (Htall xl' Hn').
    change ((x :: A) ++ [xl']) with (x :: (A ++ [xl'])). cbn [tall].
    rewrite Hav. rewrite Hai.
    (* the head of A ++ [xl'] is named like y *)
    assert (Hhd : exists z rest, A ++ [xl'] = z :: rest /\ pp_name z = pp_name y).
    { destruct A as [|a A'].
      - cbn [app] in *. injection EA as -> _. exists xl', []. split; [reflexivity|exact Hn'].
      - cbn [app] in *. injection EA as -> _. exists a, (A' ++ [xl']). split; reflexivity. }
    destruct Hhd as (z & rest & Ez & Hnz). rewrite Ez in *. rewrite twalk_cons, Hnz, Hms. exact Htall.
Qed.

(* ================================================================ Part 4: the request is sound *)
Lemma tinfo_facts p ty ne ia info s : layout_ok p = true -> tinfo_of p ty ne ia info -> base_size p ty = Some s ->
  info_for p ty s info /\ info_is_arr info = ia
  /\ (is_dword ty = false -> upload_ok p = true -> text_eqb (ti_dtname info) txt_DWORD = false)
  /\ (is_dword ty = true -> ti_struct info = false /\ ti_dtname info = txt_DWORD /\ ti_esize info = 4
                            /\ info_elem info = KAtom C_DWORD).
Proof.
  intros Hlay Hti Hs. destruct ty as [c|tid|w]; cbn [tinfo_of] in Hti; [| |contradiction].
  - destruct Hti as (nm & sz & k & Hcls & Hst & Hdt & Hes & Hcl). cbn [base_size] in Hs.
    destruct (atom_client_name c s Hs) as (n2 & k2 & Hcls2 & Hnm & Hcn & Hdw & Hbool).
    rewrite Hcls in Hcls2. injection Hcls2 as -> -> ->.
    assert (Hie : info_elem info = KAtom c) by (unfold info_elem; rewrite Hcl; destruct ia; reflexivity).
    split; [|split; [|split]].
    + unfold info_for. split; [exists 1%nat; rewrite Hie; cbn [elem_tc]; rewrite Hcls; reflexivity|].
      split; [exact Hes|]. split; [exists n2; cbn [ty_name]; split; [exact Hnm|rewrite Hdt; symmetry; exact Hcn]|exact Hst].
    + unfold info_is_arr. rewrite Hcl. destruct ia; reflexivity.
    + intros E _. cbn [is_dword] in E. rewrite Hdt, Hdw. exact E.
    + intros E. cbn [is_dword] in E. assert (c = 211) by (unfold C_DWORD in E; lia). subst c.
      vm_compute in Hcls. injection Hcls as <- <- <-. repeat split; try assumption.
  - destruct Hti as (f & nm & tc & sz & attrs & mem' & Hsd & Hst & Hdt & Hes & Hat & Hmem & Hcl). cbn [base_size] in Hs.
    destruct (find_template (p_templates p) tid) as [t|] eqn:Eft; [|discriminate]. injection Hs as <-.
    pose proof Hsd as Hsd'. rewrite struct_dtype_S, Eft in Hsd'.
    destruct (member_infos (struct_dtype f p) (t_members t)) as [infos|] eqn:Emi; [|discriminate].
    injection Hsd' as Hnm Htc Hsz Hattrs Hmem'.
    destruct (find_template_in _ _ _ Eft) as [Hint Htid].
    pose proof (forallb_In _ _ _ Hlay Hint) as Hlt.
    assert (Hnotarr : match tc with KArr _ _ => false | _ => true end = true).
    { rewrite <- Htc. unfold dtype_of. destruct (is_string_dtype _); reflexivity. }
    assert (Hie : info_elem info = tc).
    { unfold info_elem. rewrite Hcl. destruct ia; [reflexivity|]. destruct tc; try reflexivity. discriminate. }
    split; [|split; [|split]].
    + unfold info_for. split; [exists (S f); rewrite Hie; cbn [elem_tc]; rewrite Hsd; reflexivity|].
      split; [rewrite Hes, <- Hsz; reflexivity|].
      split; [exists (t_name t); cbn [ty_name]; rewrite Eft; split; [reflexivity|rewrite Hdt, <- Hnm; reflexivity]|].
      split; [exact Hst|]. exists t. split; [exact Eft|]. rewrite Hat, <- Hattrs. unfold dtype_of. cbn [fst snd].
      rewrite (sc_scan p f t infos Hlt Emi). cbn [sc_attrs]. apply (sc_attrs_visible p f t infos Hlt Emi).
    + unfold info_is_arr. rewrite Hcl. destruct ia; [reflexivity|]. destruct tc; try reflexivity. discriminate.
    + intros _ Hup. rewrite Hdt, <- Hnm. unfold upload_ok in Hup. apply andb_prop in Hup. destruct Hup as [_ Hnd].
      pose proof (forallb_In _ _ _ Hnd Hint) as Hx. cbv beta in Hx. apply negb_true_iff in Hx. exact Hx.
    + intros E. discriminate E.
Qed.

Definition idx_start (idvl : list Z) : option Z := match idvl with [] => None | i :: _ => Some i end.
Definition is_dw (info : tinfo) : bool := negb (ti_struct info) && text_eqb (ti_dtname info) txt_DWORD.

Lemma final_agree p total inst0 pll ll infol idvl plf (bit cnt : option Z) img :
  layout_ok p = true -> upload_ok p = true ->
  pre_rel p total inst0 pll ll infol -> index_place p pll idvl = Some plf ->
  read_place p img plf bit cnt <> None ->
  let idv' := if is_dw infol then match idvl with [] => [] | _ => [0] end else idvl in
  (is_dw infol = true -> (length idvl <= 1)%nat /\ bit = None) /\
  exists lf, apply_idx p ll idv' = ROk lf /\
    (forall q, pq_info q = infol ->
       (if is_dw infol
        then pq_bit q = idx_start idvl /\ pq_bools q = bools_of_cnt cnt
             /\ pq_elements q = dword_elements (match idx_start idvl with Some b => b | None => 0 end) (cnt_n cnt)
        else pq_bit q = bit /\ pq_bools q = None /\ pq_elements q = cnt_n cnt) ->
       agree p plf bit cnt lf q)
    /\ match plf with PlBools i off nbits _ => i = inst0 /\ off + nbits / 8 <= total | _ => True end.
Proof.
  intros Hlay Hup Hpre Hip Href idv'. rename inst0 into inst.
  destruct Hpre as [(off & ty & dims & avail & -> & -> & Hdr)|(off & b & -> & -> & Hst & Hdt & Hcl & Hes)].
  2:{ (* a BOOL *)
    assert (Hdw : is_dw infol = false) by (unfold is_dw; rewrite Hst, Hdt; reflexivity).
    unfold idv'. rewrite Hdw. split; [discriminate|].
    unfold index_place in Hip. destruct idvl; [|discriminate]. injection Hip as <-.
    exists (mkWLoc inst off (BAtom C_BOOL) [] 1 (Some b)). split; [reflexivity|]. split; [|exact I].
    intros q Hq (Hqb & Hqbools & Hqn). unfold read_place in Href.
    destruct bit; [congruence|]. destruct cnt; [congruence|].
    cbn [agree w_inst w_off w_bit w_ty w_avail]. rewrite Hq. repeat split; try assumption; try reflexivity; lia. }
  destruct Hdr as (Hoff & Hav & Hpos & Hd3 & H32 & (s & Hs & Hspos & Hbound) & Hti & Hnb & Hdwd).
  destruct (tinfo_facts p ty avail _ infol s Hlay Hti Hs) as (Hifor & Hisarr & Hnodw & Hisdw).
  destruct (is_dword ty) eqn:Edw.
  - (* a BOOL array *)
    destruct (Hisdw eq_refl) as (Hst & Hdt & Hes & Hie).
    assert (Hdw : is_dw infol = true) by (unfold is_dw; rewrite Hst, Hdt; reflexivity).
    unfold idv'. rewrite Hdw.
    destruct ty as [c| |]; cbn [is_dword] in Edw; try discriminate.
    assert (c = C_DWORD) by lia. subst c. cbn [base_size] in Hs. change (atom_size C_DWORD) with (Some 4) in Hs. injection Hs as <-.
    specialize (Hdwd eq_refl).
    assert (Hbit : bit = None).
    { unfold index_place in Hip. cbn [is_dword] in Hip. change (C_DWORD =? C_DWORD) with true in Hip. cbv iota in Hip.
      destruct bit; [|reflexivity]. exfalso. apply Href.
      destruct dims as [|d1 [|d2 dr]]; destruct idvl as [|i1 [|i2 ir]]; try discriminate;
        try (injection Hip as <-; reflexivity); destruct (_ && _); try discriminate; injection Hip as <-; reflexivity. }
    subst bit.
    destruct (index_dword p inst off dims avail idvl plf) as [[-> ->]|(kk & i & -> & -> & Hi0 & ->)].
    { exact Hip. }
    { unfold index_place in Hip. cbn [is_dword] in Hip. change (C_DWORD =? C_DWORD) with true in Hip. cbv iota in Hip.
      destruct dims as [|d1 [|d2 dr]]; [discriminate Hdwd| |]; destruct idvl as [|i1 [|i2 ir]]; cbn [length]; try lia; discriminate. }
    + split; [intros _; split; [cbn; lia|reflexivity]|].
      exists (mkWLoc inst off (BAtom C_DWORD) dims avail None). split; [reflexivity|]. split.
      * intros q Hq (Hqb & Hqbools & Hqn). cbn [idx_start] in *.
        cbn [agree w_inst w_off w_bit w_ty w_avail]. rewrite Hq, Hav.
        repeat split; try assumption; try reflexivity; try lia.
        -- right. split; [exact Hqb|reflexivity].
        -- exists 1%nat. rewrite Hie. reflexivity.
        -- intros Ena. rewrite Hisarr in Ena. rewrite Hdwd in Ena. discriminate.
      * split; [reflexivity|]. rewrite <- Hav. lia.
    + split; [intros _; split; [cbn; lia|reflexivity]|].
      assert (Hkk : 0 < kk) by (cbn [forallb] in Hpos; lia).
      assert (Havk : avail = kk) by (rewrite Hav; unfold dims_count; cbn [fold_right]; lia).
      exists (mkWLoc inst off (BAtom C_DWORD) [] kk None). split.
      { unfold apply_idx. cbn [w_bit w_dims w_ty w_inst w_off length Nat.eqb negb flat_index].
        replace ((0 <=? 0) && (0 <? kk)) with true by lia. cbn [base_size]. change (atom_size C_DWORD) with (Some 4).
        unfold dims_count. cbn [fold_right]. f_equal. f_equal; lia. }
      split.
      * intros q Hq (Hqb & Hqbools & Hqn). cbn [idx_start] in *.
        cbn [agree w_inst w_off w_bit w_ty w_avail]. rewrite Hq.
        repeat split; try assumption; try reflexivity; try lia.
        -- left. exact Hqb.
        -- exists 1%nat. rewrite Hie. reflexivity.
        -- intros Ena. rewrite Hisarr in Ena. discriminate.
      * split; [reflexivity|lia].
  - (* data *)
    assert (Hdw : is_dw infol = false).
    { unfold is_dw. rewrite (Hnodw eq_refl Hup). apply andb_false_r. }
    unfold idv'. rewrite Hdw. split; [discriminate|].
    rewrite Hav in Hip.
    destruct (index_data_gen p inst off ty dims idvl s plf Edw Hpos Hs Hspos Hoff Hip)
      as (off' & av' & dl & -> & Hai & Hoff' & Hav' & Hsum & Hshape).
    exists (mkWLoc inst off' ty dl av' None). rewrite Hav. split; [exact Hai|]. split; [|exact I].
    intros q Hq (Hqb & Hqbools & Hqn).
    cbn [agree w_inst w_off w_bit w_ty w_avail]. rewrite Hq.
    split; [exact Edw|]. repeat split; try assumption; try reflexivity.
    + exists s. split; assumption.
    + intros Ena. rewrite Hisarr in Ena. apply negb_false_iff in Ena. destruct dims; [|discriminate].
      assert (Hav1 : av' = 1).
      { destruct Hshape as [(_ & -> & _)|[_ HF]]; [reflexivity|].
        pose proof (forall2_nil_r _ _ HF) as ->. unfold index_place in Hip. rewrite Edw in Hip. injection Hip as _ _ <-. reflexivity. }
      subst av'. unfold read_place in Href. rewrite Hs in Href.
      destruct cnt as [cv|]; [|left; reflexivity]. right. destruct bit; [congruence|].
      destruct ((1 <=? cv) && (cv <=? 1)) eqn:E; [|congruence]. f_equal. lia.
    + apply (Hnodw eq_refl Hup).
Qed.

(* ---------------------------------------------------------------- the strings of a general request *)
Definition g_base (pre : option text) (t1 : text) : text :=
  match pre with Some P => (txt_Program_ ++ P) ++ 46 :: t1 | None => t1 end.
Definition g_body0 (pre : option text) (t1 : text) (X : list text) : text := join [46] (g_base pre t1 :: X).
Definition g_text (pre : option text) (t1 : text) (X : list text) (bit cnt : option (text * Z)) : text :=
  (g_body0 pre t1 X ++ bit_txt bit) ++ cnt_txt cnt.

Lemma seg_txt_prog P : seg_txt (txt_Program_ ++ P, [], []) = txt_Program_ ++ P.
Proof. unfold seg_txt, pp_name. cbn [fst snd idx_txt]. apply app_nil_r. Qed.

Lemma g_body0_parts sc x1 more :
  g_body0 (prog_of sc) (seg_txt x1) (map seg_txt more) = join [46] (map seg_txt (prog_parts sc ++ x1 :: more)).
Proof.
  unfold g_body0, g_base. destruct sc as [|P]; [reflexivity|].
  cbn [prog_of prog_parts app map]. rewrite seg_txt_prog. rewrite join_cons2.
  destruct (map seg_txt more); cbn [join]; rewrite <- ?app_assoc; reflexivity.
Qed.

Definition pfx (B : list ppart) : text := concat (map (fun b => seg_txt b ++ [46]) B).

Lemma join_last B xl : join [46] (map seg_txt (B ++ [xl])) = pfx B ++ seg_txt xl.
Proof.
  induction B as [|b r IH]; [reflexivity|].
  change ((b :: r) ++ [xl]) with (b :: (r ++ [xl])). cbn [map]. unfold pfx in *. cbn [map concat].
  destruct (map seg_txt (r ++ [xl])) as [|z zs] eqn:E.
  - destruct r; discriminate.
  - rewrite join_cons2. rewrite IH. rewrite <- !app_assoc. reflexivity.
Qed.

Lemma strip_base sc x1 g : ppart_ok x1 -> pp_name x1 = g_name g -> g_scope g = sc ->
  match sc with ScProg P => pname (txt_Program_ ++ P) = true | ScCtrl => True end ->
  strip_array (g_base (prog_of sc) (seg_txt x1)) = full_name g.
Proof.
  intros Hx Hn Hsc HP. unfold g_base, full_name. rewrite Hsc. destruct sc as [|P]; cbn [prog_of].
  - rewrite (strip_seg x1 Hx). exact Hn.
  - destruct Hx as (Hpn & _). destruct (pname_facts _ Hpn) as (Hpc & _). destruct (pname_facts _ HP) as (HPc & _).
    unfold strip_array, seg_txt. rewrite <- Hn. change txt_Program with txt_Program_. unfold DOT.
    assert (Hns : nosep 91 ((txt_Program_ ++ P) ++ 46 :: pp_name x1) = true).
    { rewrite nosep_app, (pchar_nosep 91 _ HPc) by tauto. cbn [nosep forallb andb]. replace (46 =? 91) with false by lia.
      cbn [negb andb]. apply (pchar_nosep 91 _ Hpc). tauto. }
    unfold idx_txt. destruct (snd (fst x1)) as [|i0 ir].
    + rewrite app_nil_r. rewrite find_nosep by exact Hns. rewrite <- app_assoc. reflexivity.
    + replace ((txt_Program_ ++ P) ++ 46 :: pp_name x1 ++ [91] ++ join [44] (i0 :: ir) ++ [93])
        with (((txt_Program_ ++ P) ++ 46 :: pp_name x1) ++ 91 :: (join [44] (i0 :: ir) ++ [93])).
      2:{ rewrite <- !app_assoc. cbn [app]. reflexivity. }
      unfold find. rewrite find_from_nosep by exact Hns. cbn [Nat.add]. rewrite firstn_app_exact.
      rewrite <- app_assoc. reflexivity.
Qed.

(* the client's plc tag for a BOOL array: the last index becomes [0] *)
Definition dw_last (xl : ppart) : ppart :=
  match pp_idv xl with [] => xl | _ => (pp_name xl, [[48]], [0]) end.

Lemma get_array_index_last B xl : ppart_ok xl -> (length (pp_idv xl) <= 1)%nat ->
  get_array_index (pfx B ++ seg_txt xl) = Ok (pfx B ++ pp_name xl, idx_start (pp_idv xl))
  /\ match idx_start (pp_idv xl) with
     | Some _ => (pfx B ++ pp_name xl) ++ zs_of_string "[0]"
     | None => pfx B ++ seg_txt xl
     end = pfx B ++ seg_txt (dw_last xl).
Proof.
  intros (Hn & Hids & _) Hl1. destruct (pname_facts _ Hn) as (Hpc & Hne & _).
  destruct xl as [[n ids] idv]. unfold seg_txt, pp_name, pp_idv, dw_last, idx_start in *. cbn [fst snd] in *.
  unfold get_array_index.
  destruct Hids as [|t v ts vs Hv HF].
  - cbn [idx_txt]. rewrite !app_nil_r. split; [|reflexivity].
    rewrite ends_with_app_nosep; [reflexivity|exact Hne|apply (pchar_nosep 93 n Hpc); tauto].
  - destruct HF; [|cbn in Hl1; lia]. unfold idx_txt. cbn [join fst snd].
    split; [|rewrite <- app_assoc; reflexivity].
    replace (pfx B ++ n ++ [91] ++ t ++ [93]) with (((pfx B ++ n) ++ 91 :: t) ++ [93]) by (rewrite <- !app_assoc; reflexivity).
    rewrite ends_with_snoc. rewrite <- app_assoc. cbn [app].
    rewrite contains_chr_app. cbn [contains_chr existsb Z.eqb Pos.eqb orb]. rewrite orb_true_r. cbn [andb].
    assert (Hns : nosep 91 (t ++ [93]) = true).
    { rewrite nosep_app, (num_nosep 91 t v Hv) by lia. reflexivity. }
    rewrite (rsplit1_app 91 (pfx B ++ n) (t ++ [93]) Hns). rewrite removelast_snoc, (num_int t v Hv). reflexivity.
Qed.

Lemma starts_with_app_false a n r : starts_with a (n ++ r) = false -> starts_with a n = false.
Proof.
  destruct (starts_with a n) eqn:E; [|reflexivity]. apply PathStr.starts_with_app in E. destruct E as [r' ->].
  rewrite <- app_assoc, starts_with_self_app. discriminate.
Qed.

Lemma forall_app_inv {A} (P : A -> Prop) l1 l2 : Forall P (l1 ++ l2) -> Forall P l1 /\ Forall P l2.
Proof. rewrite Forall_app. tauto. Qed.

Lemma dw_last_ok xl : ppart_ok xl -> ppart_ok (dw_last xl) /\ pp_name (dw_last xl) = pp_name xl
  /\ pp_idv (dw_last xl) = match pp_idv xl with [] => [] | _ => [0] end.
Proof.
  intros Hx. unfold dw_last. destruct (pp_idv xl) eqn:E.
  - split; [exact Hx|]. split; [reflexivity|exact E].
  - split; [|split; reflexivity]. destruct Hx as (Hn & _ & _). split; [exact Hn|]. split; [exact num_ok_zero|].
    constructor; [lia|constructor].
Qed.

Definition greq_text (g : tagdef) (x1 : ppart) (more : list ppart) (bit cnt : option (text * Z)) : text :=
  g_text (prog_of (g_scope g)) (seg_txt x1) (map seg_txt more) bit cnt.
Definition greq_ast (g : tagdef) (x1 : ppart) (more : list ppart) (bit cnt : option (text * Z)) : request_ast :=
  mkReq (prog_of (g_scope g)) (map seg_ast (x1 :: more)) (opt_val bit) (opt_val cnt).

Theorem gen_request_ok p mem cfg fuel g x1 more bit cnt :
  wf_project p = true -> wf_mem p mem = true -> layout_ok p = true -> upload_ok p = true -> dword_arrays p = true ->
  In g (visible_tags p) -> pp_name x1 = g_name g ->
  Forall ppart_ok (prog_parts (g_scope g) ++ x1 :: more) ->
  starts_with txt_Program_ (seg_txt x1) = false ->
  forallb (fun y => negb (isdigit (seg_txt y))) more = true ->
  opt_ok bit -> opt_ok cnt ->
  Forall (fun d => d <= 4294967296) (g_dims g) ->
  (more <> [] \/ g_scope g <> ScCtrl \/ c_use_ids cfg = false) ->
  (forall pl0 pl1, tag_place g = Some pl0 -> index_place p pl0 (pp_idv x1) = Some pl1 -> exact_members p pl1 more) ->
  ref_read p mem (greq_ast g x1 more bit cnt) <> None ->
  (forall q, parse_tag_request (client_tags p) (greq_text g x1 more bit cnt) = Ok q ->
             exists path, read_path (c_use_ids cfg) q = Ok path) ->
  (forall q path, parse_tag_request (client_tags p) (greq_text g x1 more bit cnt) = Ok q ->
                  read_path (c_use_ids cfg) q = Ok path -> fits (c_conn cfg) fuel q path) ->
  request_ok p mem cfg fuel (greq_text g x1 more bit cnt) (greq_ast g x1 more bit cnt).
Proof.
  intros Hwf Hwm Hlay Hup Hda Hvis Hx1n HF Hnp Hdig Hbit Hcnt H32 Hsym Hex Href Hbuild Hfits.
  set (s := greq_text g x1 more bit cnt) in *. set (r := greq_ast g x1 more bit cnt) in *.
  pose proof (pl_in_tags p g Hvis) as Hgin.
  destruct (pl_wf p g Hwf Hvis) as (Hok & Hdi & Hdk).
  destruct (forall_app_inv _ _ _ HF) as [HFprog HF1]. inversion HF1 as [|x1' more' Hx1 HFmore]; subst x1' more'.
  (* the client's dict *)
  assert (Hinfo : exists info, tag_info p g = Some info /\ dget (full_name g) (client_tags p) = Some info).
  { pose proof Hup as Hup'. unfold upload_ok in Hup'. apply andb_prop in Hup'. destruct Hup' as [Hup1 _].
    apply andb_prop in Hup1. destruct Hup1 as [Hi Hdist].
    pose proof (forallb_In _ _ _ Hi Hvis) as Hi'. cbv beta in Hi'.
    destruct (tag_info p g) as [info|] eqn:E; [|discriminate]. exists info. split; [reflexivity|].
    apply client_tags_lookup; [apply distinct_by_nodup; exact Hdist|exact Hvis|exact E]. }
  destruct Hinfo as (info & Hinfo & Hget).
  destruct (tag_pre_rel p g info Hlay Hda Hgin Hok Hinfo H32) as (total & pl0 & l0 & Hts & Htp & Htw & Hpre).
  (* the reference *)
  assert (Hfind : find_tag_name (p_tags p) (g_scope g) (g_name g) = Some g) by (apply find_tag_name_distinct; assumption).
  assert (Hscope : req_scope r = g_scope g) by (unfold req_scope, r, greq_ast; cbn [r_prog]; destruct (g_scope g); reflexivity).
  assert (Hres : exists plf, resolve p r = Some plf
                 /\ match index_place p pl0 (pp_idv x1) with Some pl' => walk_members p pl' (map seg_ast more) | None => None end = Some plf).
  { unfold ref_read in Href. destruct (resolve p r) as [plf|] eqn:E; [|congruence]. exists plf. split; [reflexivity|].
    unfold resolve in E. rewrite Hscope in E. unfold r, greq_ast in E. cbn [r_segs map seg_ast s_name s_idx] in E.
    rewrite Hx1n, Hfind, Htp in E. exact E. }
  destruct Hres as (plf & Hres & Hwalk).
  assert (Hex' : match index_place p pl0 (pp_idv x1) with Some pl' => exact_members p pl' more | None => True end).
  { destruct (index_place p pl0 (pp_idv x1)) as [pl'|] eqn:E; [|exact I]. apply (Hex pl0 pl' Htp E). }
  destruct (walk_agree p total (g_inst g) Hlay Hda more x1 pl0 l0 info plf Hpre Hwalk Hex')
    as (A & xl & pll & ll & infol & EA & Hprel & Hipl & Hcw & Hinone & Htall).
  unfold ref_read in Href. rewrite Hres in Href.
  destruct (mem_get mem (place_inst plf)) as [img|] eqn:Emem; [|congruence].
  unfold r, greq_ast in Href. cbn [r_bit r_count] in Href.
  destruct (final_agree p total (g_inst g) pll ll infol (pp_idv xl) plf (opt_val bit) (opt_val cnt) img Hlay Hup Hprel Hipl Href)
    as (Hdwc & lf & Hai & Hag & Hcover).
  (* the last segment is a good part *)
  assert (Hxl : ppart_ok xl /\ Forall ppart_ok A).
  { assert (HFa : Forall ppart_ok (A ++ [xl])) by (rewrite <- EA; exact HF1).
    destruct (forall_app_inv _ _ _ HFa) as [Ha Hl]. inversion Hl; subst. split; assumption. }
  destruct Hxl as [Hxl HFA].
  (* the client's parse *)
  assert (Hstrip : strip_array (g_base (prog_of (g_scope g)) (seg_txt x1)) = full_name g).
  { apply (strip_base (g_scope g) x1 g Hx1 Hx1n eq_refl).
    destruct (g_scope g) as [|P]; [exact I|]. cbn [prog_parts] in HFprog. inversion HFprog as [|y ys Hy _]; subst. apply Hy. }
  pose proof (get_tag_info_walk (client_tags p) _ _ more info infol HFmore Hstrip Hget Hcw) as Hgti.
  assert (Hparse0 := fun Hsep Hne HX Hnp' =>
            parse_gen (prog_of (g_scope g)) (seg_txt x1) (map seg_txt more) bit cnt Hsep Hne HX Hnp' Hbit Hcnt (client_tags p) infol).
  assert (Hsep : forall c, c = 46 \/ c = 123 \/ c = 125 ->
            forallb (nosep c) (seg_txt x1 :: map seg_txt more) = true
            /\ match match prog_of (g_scope g) with Some P => Some (txt_Program_ ++ P) | None => None end with
               | Some q => nosep c q = true | None => True end).
  { intros c Hc. split.
    - cbn [forallb]. rewrite (seg_txt_nosep c x1 Hx1 Hc). cbn [andb]. rewrite forallb_forall. intros y Hy.
      apply in_map_iff in Hy. destruct Hy as (z & <- & Hz). rewrite Forall_forall in HFmore. apply seg_txt_nosep; [apply HFmore; exact Hz|exact Hc].
    - destruct (g_scope g) as [|P]; [exact I|]. cbn [prog_of prog_parts] in *. inversion HFprog as [|y ys Hy _]; subst.
      destruct Hy as (Hpn & _). destruct (pname_facts _ Hpn) as (Hpc & _). apply (pchar_nosep c _ Hpc). tauto. }
  assert (Hne : seg_txt x1 <> []).
  { destruct Hx1 as (Hpn & _). destruct (pname_facts _ Hpn) as (_ & Hne & _). unfold seg_txt. intros E. apply app_eq_nil in E. tauto. }
  assert (HX : forallb (fun x => negb (isdigit x)) (map seg_txt more) = true).
  { rewrite forallb_forall. intros y Hy. apply in_map_iff in Hy. destruct Hy as (z & <- & Hz).
    apply (forallb_In _ _ _ Hdig Hz). }
  specialize (Hparse0 Hsep Hne HX (fun _ => Hnp)).
  assert (Hgb : forall pre t1, match match pre with Some P => Some (txt_Program_ ++ P) | None => None end with
                                 | Some q => q ++ 46 :: t1 | None => t1 end = g_base pre t1) by (intros [P|] t1; reflexivity).
  rewrite (Hgb _ _) in Hparse0. specialize (Hparse0 Hgti).
  fold (g_body0 (prog_of (g_scope g)) (seg_txt x1) (map seg_txt more)) in Hparse0.
  fold (g_text (prog_of (g_scope g)) (seg_txt x1) (map seg_txt more) bit cnt) in Hparse0.
  fold (greq_text g x1 more bit cnt) in Hparse0. fold s in Hparse0.
  (* the path the client builds: the parts with the last one as the client sends it *)
  set (B := prog_parts (g_scope g) ++ A).
  assert (Hall : prog_parts (g_scope g) ++ x1 :: more = B ++ [xl]) by (unfold B; rewrite <- app_assoc; f_equal; exact EA).
  assert (Hbody0 : g_body0 (prog_of (g_scope g)) (seg_txt x1) (map seg_txt more) = pfx B ++ seg_txt xl).
  { rewrite g_body0_parts, Hall. apply join_last. }
  set (xl' := if is_dw infol then dw_last xl else xl).
  assert (Hxl' : ppart_ok xl' /\ pp_name xl' = pp_name xl
                 /\ pp_idv xl' = (if is_dw infol then match pp_idv xl with [] => [] | _ => [0] end else pp_idv xl)).
  { unfold xl'. destruct (is_dw infol); [apply dw_last_ok; exact Hxl|]. split; [exact Hxl|]. split; reflexivity. }
  destruct Hxl' as (Hxl'ok & Hxl'n & Hxl'i).
  assert (Hq : exists q, parse_tag_request (client_tags p) s = Ok q /\ pq_info q = infol
               /\ pq_plc q = join [46] (map seg_txt (B ++ [xl']))
               /\ (if is_dw infol
                   then pq_bit q = idx_start (pp_idv xl) /\ pq_bools q = bools_of_cnt (opt_val cnt)
                        /\ pq_elements q = dword_elements (match idx_start (pp_idv xl) with Some b => b | None => 0 end) (cnt_n (opt_val cnt))
                   else pq_bit q = opt_val bit /\ pq_bools q = None /\ pq_elements q = cnt_n (opt_val cnt))).
  { rewrite join_last. unfold xl'. fold (is_dw infol) in Hparse0. destruct (is_dw infol) eqn:Edw.
    - destruct (Hdwc eq_refl) as [Hl1 Hb0]. rewrite Hbody0 in Hparse0.
      destruct (get_array_index_last B xl Hxl Hl1) as [Hgai Hplc]. rewrite Hgai in Hparse0. cbn [bind] in Hparse0.
      rewrite Hplc in Hparse0. eexists. split; [exact Hparse0|]. cbn [pq_info pq_plc pq_bit pq_bools pq_elements].
      split; [reflexivity|]. split; [reflexivity|]. split; [reflexivity|]. split.
      + unfold bools_of_cnt, cnt_val. destruct cnt as [[c cv]|]; cbn [opt_val orb]; [|reflexivity]. destruct (cv =? 1); reflexivity.
      + unfold dword_elements. rewrite cnt_val_n. reflexivity.
    - rewrite Hbody0 in Hparse0. eexists. split; [exact Hparse0|]. cbn [pq_info pq_plc pq_bit pq_bools pq_elements].
      split; [reflexivity|]. split; [reflexivity|]. rewrite cnt_val_n. repeat split; reflexivity. }
  destruct Hq as (q & Hparse & Hqi & Hqplc & Hqf).
  (* the head of the member-free part is the tag *)
  assert (Hhd : exists z rest, A ++ [xl'] = z :: rest /\ pp_name z = g_name g).
  { destruct A as [|a A'].
    - cbn [app] in *. injection EA as Ex _. exists xl', []. split; [reflexivity|]. rewrite Hxl'n, <- Ex. exact Hx1n.
    - cbn [app] in *. injection EA as Ex _. exists a, (A' ++ [xl']). split; [reflexivity|]. rewrite <- Ex. exact Hx1n. }
  destruct Hhd as (z & rest & Ez & Hzn).
  assert (HFall : Forall ppart_ok (prog_parts (g_scope g) ++ z :: rest)).
  { rewrite <- Ez. apply Forall_app. split; [exact HFprog|]. apply Forall_app. split; [exact HFA|]. constructor; [exact Hxl'ok|constructor]. }
  assert (HBz : B ++ [xl'] = prog_parts (g_scope g) ++ z :: rest) by (unfold B; rewrite <- app_assoc, Ez; reflexivity).
  (* symbolic addressing *)
  assert (Hfirst : exists f0 pp0, prog_parts (g_scope g) ++ z :: rest = f0 :: pp0
            /\ (match ti_inst infol with
                | Some i => c_use_ids cfg && negb (starts_with (txt "Program:") (seg_txt f0)) && negb (i =? 0)
                | None => false end) = false).
  { destruct (g_scope g) as [|P] eqn:Esc.
    - cbn [prog_parts app]. exists z, rest. split; [reflexivity|].
      destruct Hsym as [Hm|[Hs|Hu]]; [rewrite (Hinone Hm); reflexivity|congruence|].
      rewrite Hu. destruct (ti_inst infol); reflexivity.
    - cbn [prog_parts app]. eexists. eexists. split; [reflexivity|]. rewrite seg_txt_prog.
      change (txt "Program:") with txt_Program_. rewrite starts_with_self_app. cbn [negb]. rewrite andb_false_r.
      destruct (ti_inst infol); reflexivity. }
  destruct Hfirst as (f0 & pp0 & Efp & Hsymc). rewrite Efp in HFall.
  destruct (path_gen f0 pp0 (ti_inst infol) (c_use_ids cfg) HFall Hsymc) as (Hpath & Hpw & _ & Hcia & Hpb4).
  rewrite <- Efp in Hpath, Hpw, Hcia, Hpb4. rewrite HBz in Hqplc.
  set (pb := gbytes (prog_parts (g_scope g) ++ z :: rest)) in *.
  destruct (Hbuild q Hparse) as (path & Hrp).
  assert (Hpathv : path = (Path.len pb / 2) :: pb /\ Path.len pb / 2 < 256).
  { unfold read_path in Hrp. rewrite Hqi, Hqplc, Hpath in Hrp. destruct (Path.len pb / 2 <? 256) eqn:E.
    - cbn [bind] in Hrp. injection Hrp as <-. split; [reflexivity|lia].
    - cbn [bind] in Hrp. discriminate Hrp. }
  destruct Hpathv as [-> Hlt].
  exists q, ((Path.len pb / 2) :: pb). split; [|split; [exact (Hfits _ _ Hparse Hrp)|split]].
  - exists plf, pb, lf. split; [exact Hres|]. split; [exact Hparse|]. split; [exact Hrp|]. split; [exact (Hpw Hlt)|].
    split; [exact Hcia|]. split; [exact Hpb4|]. split.
    + assert (Hnpn : starts_with txt_Program_ (g_name g) = false) by (rewrite <- Hx1n; exact (starts_with_app_false _ _ _ Hnp)).
      unfold pb. rewrite (resolve_path_gen p g z rest l0 Hgin Hok Hdk Hzn Hnpn Htw).
      2:{ rewrite Efp. exact HFall. }
      specialize (Htall xl' Hxl'n). rewrite Ez in Htall. cbn [tall] in Htall. rewrite Htall, Hxl'i.
      fold (is_dw infol) in Hai. rewrite Hai. reflexivity.
    + unfold r, greq_ast. cbn [r_bit r_count]. apply Hag; [exact Hqi|exact Hqf].
  - unfold image_covers. rewrite Hres. destruct plf as [| |i off nbits start]; try exact I.
    destruct Hcover as [-> Hc]. destruct (mem_get mem (g_inst g)) as [img'|] eqn:Em'; [|exact I].
    pose proof (wf_mem_size p mem g _ img' Hwm Hgin Hts Em') as Hl. lia.
  - unfold ref_read. rewrite Hres, Emem. exact Href.
Qed.

Print Assumptions gen_request_ok.

(* ================================================================ request records *)
Record greq := mkGreq {
  gq_g : tagdef; gq_x1 : ppart; gq_more : list ppart; gq_bit : option (text * Z); gq_cnt : option (text * Z) }.
Definition gq_text (x : greq) : text := greq_text (gq_g x) (gq_x1 x) (gq_more x) (gq_bit x) (gq_cnt x).
Definition gq_ast (x : greq) : request_ast := greq_ast (gq_g x) (gq_x1 x) (gq_more x) (gq_bit x) (gq_cnt x).

(* [Program:P.]tag[..].member[..]...[.bit][{n}] names a visible tag and members as the controller spells them,
   exists (ref_read <> None), can be built and fits the connection; addressed symbolically (a member path, a
   program-scoped tag, or a driver that does not use symbol instance ids: the remaining case is [sreq]) *)
Definition greq_ok (p : project) (mem : Project.mem) (cfg : ccfg) (fuel : nat) (x : greq) : Prop :=
  In (gq_g x) (visible_tags p) /\ pp_name (gq_x1 x) = g_name (gq_g x)
  /\ Forall ppart_ok (prog_parts (g_scope (gq_g x)) ++ gq_x1 x :: gq_more x)
  /\ starts_with txt_Program_ (seg_txt (gq_x1 x)) = false
  /\ forallb (fun y => negb (isdigit (seg_txt y))) (gq_more x) = true
  /\ opt_ok (gq_bit x) /\ opt_ok (gq_cnt x)
  /\ Forall (fun d => d <= 4294967296) (g_dims (gq_g x))
  /\ (gq_more x <> [] \/ g_scope (gq_g x) <> ScCtrl \/ c_use_ids cfg = false)
  /\ (forall pl0 pl1, tag_place (gq_g x) = Some pl0 -> index_place p pl0 (pp_idv (gq_x1 x)) = Some pl1 ->
                      exact_members p pl1 (gq_more x))
  /\ ref_read p mem (gq_ast x) <> None
  /\ (forall q, parse_tag_request (client_tags p) (gq_text x) = Ok q -> exists path, read_path (c_use_ids cfg) q = Ok path)
  /\ (forall q path, parse_tag_request (client_tags p) (gq_text x) = Ok q -> read_path (c_use_ids cfg) q = Ok path ->
                     fits (c_conn cfg) fuel q path).

Theorem greq_request_ok p mem cfg fuel x :
  wf_project p = true -> wf_mem p mem = true -> layout_ok p = true -> upload_ok p = true -> dword_arrays p = true ->
  greq_ok p mem cfg fuel x -> request_ok p mem cfg fuel (gq_text x) (gq_ast x).
Proof.
  intros Hwf Hwm Hlay Hup Hda (H1 & H2 & H3 & H4 & H5 & H6 & H7 & H8 & H9 & H10 & H11 & H12 & H13).
  apply gen_request_ok; assumption.
Qed.

(* any request: single-segment controller-scope (symbol-instance or symbolic addressing), or a path *)
Definition ritem := (sreq + greq)%type.
Definition item_text (x : ritem) : text := match x with inl a => sreq_text a | inr b => gq_text b end.
Definition item_ast (x : ritem) : request_ast := match x with inl a => sreq_ast a | inr b => gq_ast b end.
Definition item_ok (p : project) (mem : Project.mem) (cfg : ccfg) (fuel : nat) (x : ritem) : Prop :=
  match x with inl a => sreq_ok p mem cfg fuel a | inr b => greq_ok p mem cfg fuel b end.

Theorem item_request_ok p mem cfg fuel x :
  wf_project p = true -> wf_mem p mem = true -> layout_ok p = true -> upload_ok p = true -> dword_arrays p = true ->
  item_ok p mem cfg fuel x -> request_ok p mem cfg fuel (item_text x) (item_ast x).
Proof.
  intros Hwf Hwm Hlay Hup Hda H. destruct x as [a|b].
  - apply sreq_request_ok; assumption.
  - apply greq_request_ok; assumption.
Qed.

Print Assumptions item_request_ok.

(* ================================================================ the reference reads the same request *)
Lemma split_last_snoc {A} (l : list A) x : split_last (l ++ [x]) = Some (l, x).
Proof. unfold split_last. rewrite rev_app_distr. cbn [rev app]. rewrite rev_involutive. reflexivity. Qed.

Lemma exists_snoc {A} (l : list A) : l <> [] -> exists i x, l = i ++ [x].
Proof. intros H. destruct (exists_last H) as (i & x & ->). eauto. Qed.

Lemma all_some_parse_nat ids idv : Forall2 num_ok ids idv -> all_some (map parse_nat ids) = Some idv.
Proof.
  induction 1 as [|t v ts vs (Hd & _ & Hv) HF IH]; [reflexivity|].
  cbn [map all_some]. unfold parse_nat at 1. rewrite Hd, Hv, IH. reflexivity.
Qed.

Lemma parse_seg_txt x : ppart_ok x -> (length (pp_idv x) <= 3)%nat -> parse_seg (seg_txt x) = Some (seg_ast x).
Proof.
  intros (Hn & Hids & _) Hl3. destruct (pname_facts _ Hn) as (Hpc & Hne & _).
  destruct x as [[n ids] idv]. unfold seg_txt, seg_ast, pp_name, pp_idv in *. cbn [fst snd] in *.
  unfold parse_seg, LBRACK, RBRACK, COMMA.
  assert (Hnn : nonempty n = true) by (destruct n; [congruence|reflexivity]).
  destruct Hids as [|t v ts vs Hv HF].
  - cbn [idx_txt]. rewrite app_nil_r. rewrite split_nosep by (apply (pchar_nosep 91 n Hpc); tauto).
    rewrite Hnn, (contains_chr_nosep 93 n) by (apply (pchar_nosep 93 n Hpc); tauto). reflexivity.
  - pose proof (Forall2_cons _ _ Hv HF) as Hall.
    pose proof (ids_nosep_gen 44 _ _ Hall (or_introl eq_refl)) as H44.
    pose proof (ids_nosep_gen 91 _ _ Hall (or_intror eq_refl)) as H91.
    pose proof (ids_nosep_gen 93 _ _ Hall (or_intror eq_refl)) as H93.
    assert (S1 : forall c x, x <> c -> nosep c [x] = true).
    { intros c x Hx. unfold nosep. cbn [forallb]. replace (x =? c) with false by lia. reflexivity. }
    unfold idx_txt. cbn [app].
    rewrite split2; [|apply (pchar_nosep 91 n Hpc); tauto|].
    2:{ rewrite nosep_app, nosep_join by (try exact H91; apply S1; lia). apply S1. lia. }
    rewrite split_last_snoc. cbn [Z.eqb Pos.eqb]. rewrite Hnn. cbn [andb].
    rewrite (contains_chr_nosep 93) by (apply nosep_join; [exact H93|apply S1; lia]). cbn [negb].
    cbn [forallb] in H44. apply andb_prop in H44. destruct H44 as [H0 Hr].
    rewrite split_join by assumption. rewrite (all_some_parse_nat _ _ Hall).
    replace (Nat.leb (length (v :: vs)) 3) with true by (symmetry; apply Nat.leb_le; exact Hl3). reflexivity.
Qed.

Lemma all_some_parse_segs l : Forall ppart_ok l -> Forall (fun x => (length (pp_idv x) <= 3)%nat) l ->
  all_some (map parse_seg (map seg_txt l)) = Some (map seg_ast l).
Proof.
  induction 1 as [|x r Hx Hr IH]; intros H3; [reflexivity|]. inversion H3; subst.
  cbn [map all_some]. rewrite (parse_seg_txt x Hx) by assumption. rewrite IH by assumption. reflexivity.
Qed.

Theorem parse_request_gtext sc x1 more bit cnt :
  Forall ppart_ok (prog_parts sc ++ x1 :: more) ->
  Forall (fun x => (length (pp_idv x) <= 3)%nat) (x1 :: more) ->
  match sc with ScProg P => P <> [] | ScCtrl => True end ->
  starts_with txt_Program_ (seg_txt x1) = false ->
  forallb (fun y => negb (isdigit (seg_txt y))) more = true ->
  opt_ok bit -> opt_ok cnt ->
  parse_request (g_text (prog_of sc) (seg_txt x1) (map seg_txt more) bit cnt)
  = Some (mkReq (prog_of sc) (map seg_ast (x1 :: more)) (opt_val bit) (opt_val cnt)).
Proof.
  intros HF H3 HP Hnp Hdig Hbit Hcnt.
  destruct (forall_app_inv _ _ _ HF) as [HFprog HF1]. inversion HF1 as [|x1' more' Hx1 HFmore]; subst x1' more'.
  assert (Hsep : forall c, c = 46 \/ c = 123 \/ c = 125 ->
            forallb (nosep c) (seg_txt x1 :: map seg_txt more) = true
            /\ match match prog_of sc with Some P => Some (txt_Program_ ++ P) | None => None end with
               | Some q => nosep c q = true | None => True end).
  { intros c Hc. split.
    - cbn [forallb]. rewrite (seg_txt_nosep c x1 Hx1 Hc). cbn [andb]. rewrite forallb_forall. intros y Hy.
      apply in_map_iff in Hy. destruct Hy as (z & <- & Hz). rewrite Forall_forall in HFmore. apply seg_txt_nosep; [apply HFmore; exact Hz|exact Hc].
    - destruct sc as [|P]; [exact I|]. cbn [prog_of prog_parts] in *. inversion HFprog as [|y ys Hy _]; subst.
      destruct Hy as (Hpn & _). destruct (pname_facts _ Hpn) as (Hpc & _). apply (pchar_nosep c _ Hpc). tauto. }
  assert (Hne : seg_txt x1 <> []).
  { destruct Hx1 as (Hpn & _). destruct (pname_facts _ Hpn) as (_ & Hne & _). unfold seg_txt. intros E. apply app_eq_nil in E. tauto. }
  assert (HX : forallb (fun x => negb (isdigit x)) (map seg_txt more) = true).
  { rewrite forallb_forall. intros y Hy. apply in_map_iff in Hy. destruct Hy as (z & <- & Hz). apply (forallb_In _ _ _ Hdig Hz). }
  assert (Hgb : forall pre t1, match match pre with Some P => Some (txt_Program_ ++ P) | None => None end with
                               | Some q => q ++ 46 :: t1 | None => t1 end = g_base pre t1) by (intros [P|] t1; reflexivity).
  assert (Hdot := gp_split_dot (prog_of sc) (seg_txt x1) (map seg_txt more) bit cnt).
  assert (Hbns := gp_body_nosep (prog_of sc) (seg_txt x1) (map seg_txt more) bit cnt).
  assert (Hbne := gp_body_nonempty (prog_of sc) (seg_txt x1) (map seg_txt more) bit cnt).
  rewrite Hgb in Hdot, Hbns, Hbne.
  fold (g_body0 (prog_of sc) (seg_txt x1) (map seg_txt more)) in Hdot, Hbns, Hbne.
  assert (Hdot' := Hdot Hsep HX Hbit). assert (Hbns' := Hbns Hsep HX Hbit).
  assert (Hbne' : g_body0 (prog_of sc) (seg_txt x1) (map seg_txt more) ++ bit_txt bit <> []) by (apply Hbne; assumption).
  clear Hdot Hbns Hbne. rename Hdot' into Hdot. rename Hbns' into Hbns. rename Hbne' into Hbne.
  set (body := g_body0 (prog_of sc) (seg_txt x1) (map seg_txt more) ++ bit_txt bit) in *.
  unfold parse_request, g_text. fold body.
  (* the count *)
  assert (Hsc : split_count (body ++ cnt_txt cnt) = Some (body, opt_val cnt)).
  { unfold split_count, cnt_txt, LBRACE, RBRACE. destruct cnt as [[c cv]|].
    - replace (body ++ [123] ++ c ++ [125]) with ((body ++ 123 :: c) ++ [125]) by (rewrite <- !app_assoc; reflexivity).
      rewrite split_last_snoc. cbn [Z.eqb Pos.eqb]. rewrite split2.
      + destruct Hcnt as (Hd & _ & Hv). unfold parse_nat. rewrite Hd, Hv. reflexivity.
      + apply Hbns. tauto.
      + apply (num_nosep 123 c cv Hcnt). lia.
    - rewrite app_nil_r. destruct (exists_snoc body Hbne) as (bi & bx & Eb). rewrite Eb, split_last_snoc. rewrite <- Eb.
      assert (H125 : nosep 125 body = true) by (apply Hbns; tauto).
      assert (Hbx : (bx =? 125) = false).
      { rewrite Eb in H125. rewrite nosep_app in H125. apply andb_prop in H125. destruct H125 as [_ H]. unfold nosep in H. cbn in H. lia. }
      rewrite Hbx. rewrite (contains_chr_nosep 123 body) by (apply Hbns; tauto). rewrite (contains_chr_nosep 125 body) by exact H125.
      reflexivity. }
  rewrite Hsc. unfold DOT. rewrite Hdot.
  set (bp := match bit with Some (b, _) => [b] | None => [] end).
  assert (Hbitstep : forall parts1, parts1 = (seg_txt x1 :: map seg_txt more) ++ bp ->
            (let '(bit0, parts2) := match split_last parts1 with
                                    | Some (init, l) => if nonempty init && isdigit l then (digits_val l 0, init) else (None, parts1)
                                    | None => (None, parts1) end in
             match all_some (map parse_seg parts2) with
             | Some (sg :: segs) => Some (mkReq (prog_of sc) (sg :: segs) bit0 (opt_val cnt))
             | _ => None end)
            = Some (mkReq (prog_of sc) (map seg_ast (x1 :: more)) (opt_val bit) (opt_val cnt))).
  { intros parts1 ->. unfold bp. destruct bit as [[b bv]|].
    - rewrite split_last_snoc. destruct Hbit as (Hd & _ & Hv). rewrite Hd, Hv. cbn [nonempty andb opt_val].
      change (seg_txt x1 :: map seg_txt more) with (map seg_txt (x1 :: more)).
      rewrite (all_some_parse_segs _ HF1 H3). reflexivity.
    - rewrite app_nil_r. cbn [opt_val].
      assert (Hs : match split_last (seg_txt x1 :: map seg_txt more) with
                   | Some (init, l) => if nonempty init && isdigit l then (digits_val l 0, init) else (None, seg_txt x1 :: map seg_txt more)
                   | None => (None, seg_txt x1 :: map seg_txt more) end = (None, seg_txt x1 :: map seg_txt more)).
      { destruct more as [|y r].
        - reflexivity.
        - change (seg_txt x1 :: map seg_txt (y :: r)) with (map seg_txt (x1 :: y :: r)).
          destruct (exists_snoc (y :: r) ltac:(discriminate)) as (mi & mx & Em). rewrite Em.
          change (x1 :: mi ++ [mx]) with ((x1 :: mi) ++ [mx]). rewrite map_app. cbn [map]. rewrite split_last_snoc.
          assert (Hin : In mx (y :: r)) by (rewrite Em; apply in_or_app; right; left; reflexivity).
          pose proof (forallb_In _ _ _ Hdig Hin) as Hx. cbv beta in Hx. apply negb_true_iff in Hx. rewrite Hx, andb_false_r. reflexivity. }
      rewrite Hs. change (seg_txt x1 :: map seg_txt more) with (map seg_txt (x1 :: more)).
      rewrite (all_some_parse_segs _ HF1 H3). reflexivity. }
  destruct sc as [|P].
  - cbn [prog_of app]. change txt_Program with txt_Program_. rewrite Hnp. cbv iota beta.
    apply Hbitstep. reflexivity.
  - cbn [prog_of app]. change txt_Program with txt_Program_. rewrite starts_with_self_app. rewrite skipn8_program.
    destruct P as [|pc pr]; [congruence|]. cbv iota beta. apply Hbitstep. reflexivity.
Qed.

(* well-formedness the reference parser asks for: at most three indices per segment (fitting a member
   segment), a program name that is not empty *)
Definition parts_wf (sc : scope) (l : list ppart) : Prop :=
  Forall (fun x => (length (pp_idv x) <= 3)%nat /\ idx32 (pp_idv x)) l /\ match sc with ScProg P => P <> [] | ScCtrl => True end.
Definition item_wf (x : ritem) : Prop :=
  match x with
  | inl a => parts_wf ScCtrl [(g_name (sr_g a), sr_ids a, sr_idv a)]
  | inr b => parts_wf (g_scope (gq_g b)) (gq_x1 b :: gq_more b)
  end.

Theorem item_parse_request p mem cfg fuel x : item_ok p mem cfg fuel x -> item_wf x ->
  parse_request (item_text x) = Some (item_ast x).
Proof.
  destruct x as [a|b]; cbn [item_ok item_wf item_text item_ast].
  - intros (Hvis & Hsc & Hname & Hids & Hbit & Hcnt & _) (Hwf & _).
    inversion Hwf as [|y ys [H3 H32] _]; subst. cbn [pp_idv snd] in H3, H32.
    unfold sreq_text, sreq_ast, single_req.
    pose proof (parse_request_gtext ScCtrl (g_name (sr_g a), sr_ids a, sr_idv a) [] (sr_bit a) (sr_cnt a)) as H.
    unfold g_text, g_body0, g_base in H. cbn [prog_of prog_parts app map join seg_ast pp_name pp_idv fst snd] in H.
    unfold seg_txt in H at 2 3. cbn [pp_name fst snd] in H. rewrite <- app_assoc in H. apply H; try assumption.
    + constructor; [|constructor]. split; [apply plain_pname; exact Hname|]. split; assumption.
    + constructor; [exact H3|constructor].
    + exact I.
    + apply (body0_not_program _ _ _ Hname Hids).
    + reflexivity.
  - intros (Hvis & Hn & HF & Hnp & Hdig & Hbit & Hcnt & _) (Hwf & HP).
    unfold gq_text, gq_ast, greq_text, greq_ast. apply parse_request_gtext; try assumption.
    clear - Hwf. induction Hwf as [|y ys [H3 _] _ IH]; constructor; assumption.
Qed.
