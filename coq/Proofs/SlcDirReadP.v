(* Proofs/SlcDirReadP.v — the reads _read_whole_file_directory issues tile the image: for every
   size and every even chunk size (the code's is 0x50), by induction on the bytes still to read. *)
From PV Require Import Base.Bytes Base.BytesLemmas Base.Res Model.Slc Model.SlcDir Spec.SlcDirSpec.
From Coq Require Import ZifyBool.
Ltac Zify.zify_post_hook ::= Z.to_euclidean_division_equations.
Open Scope Z_scope.

Lemma firstn_plus {A} (a b : nat) (t : list A) : firstn (a + b) t = firstn a t ++ firstn b (skipn a t).
Proof.
  revert t. induction a as [|a IH]; intros t; [reflexivity|].
  destruct t as [|x t]; [cbn; now rewrite firstn_nil|]. cbn [Nat.add firstn skipn app]. now rewrite IH.
Qed.

Lemma skipn_twice {A} (a b : nat) (t : list A) : skipn a (skipn b t) = skipn (b + a) t.
Proof.
  revert t. induction b as [|b IH]; intros t; [reflexivity|].
  destruct t as [|x t]; [cbn; now rewrite skipn_nil|]. cbn [Nat.add skipn]. apply IH.
Qed.

(* the loop from a state in which the first k bytes have been read *)
Lemma read_loop_tiles image chunk (sz : nat) :
  0 < chunk <= 255 -> chunk mod 2 = 0 -> (sz <= length image)%nat -> Z.of_nat sz < 131072 ->
  forall fuel (k : nat) off reads0,
    (sz - k < fuel)%nat -> (k <= sz)%nat -> ((k < sz)%nat -> 2 * off = Z.of_nat k) ->
    exists tail,
      read_loop fuel chunk (Z.of_nat sz) (serve_image image) (firstn k image) off reads0
        = ROk (firstn sz image) (reads0 ++ tail)
      /\ tiles (Z.of_nat k) tail (Z.of_nat sz).
Proof.
  intros Hc Hev Hsz Hmax.
  induction fuel as [|fuel IH]; intros k off reads0 Hf Hk Hoff; [lia|].
  assert (Hlen : length (firstn k image) = k) by (rewrite firstn_length; lia).
  cbn [read_loop]. rewrite Hlen.
  destruct (Z.of_nat k <? Z.of_nat sz) eqn:Elt.
  - assert (Hks : (k < sz)%nat) by lia. specialize (Hoff Hks).
    set (rem := Z.of_nat sz - Z.of_nat k).
    set (size := if rem >? chunk then chunk else rem).
    assert (Hsize : 0 < size <= 255 /\ size <= rem /\ (size = chunk \/ size = rem)).
    { unfold size. destruct (rem >? chunk) eqn:E; unfold rem in *; lia. }
    destruct Hsize as [Hs1 [Hs2 Hs3]].
    assert (Hur : in_urange 1 size = true).
    { unfold in_urange, pow256. cbn. lia. }
    rewrite Hur. cbn [negb].
    assert (Hor : (negb (off <? 256) && negb (in_urange 2 off)) = false).
    { unfold in_urange, pow256. cbn [Z.of_nat Z.pow Pos.of_succ_nat Pos.succ Z.pow_pos Pos.iter Z.mul Pos.mul].
      destruct (off <? 256) eqn:E1; [reflexivity|]. cbn [negb andb].
      assert (H : (0 <=? off) && (off <? 65536) = true) by lia. rewrite H. reflexivity. }
    rewrite Hor.
    unfold serve_image at 1.
    replace (Z.to_nat (2 * off)) with k by lia.
    set (s := Z.to_nat size).
    assert (Hdl : length (firstn s (skipn k image)) = s).
    { rewrite firstn_length, skipn_length. unfold s, rem in *. lia. }
    rewrite Hdl. rewrite <- firstn_plus.
    destruct (IH (k + s)%nat (off + Z.of_nat s / 2) (reads0 ++ [(size, off)])) as [tail [Hrun Htl]].
    + unfold s. lia.
    + unfold s, rem in *. lia.
    + intros Hlt. unfold s, rem in *.
      destruct Hs3 as [Hs3|Hs3]; [|lia].
      rewrite Hs3 in *. lia.
    + exists ((size, off) :: tail). split.
      * rewrite Hrun. rewrite <- app_assoc. reflexivity.
      * cbn [tiles]. split; [lia|]. split; [exact Hoff|].
        replace (Z.of_nat k + size) with (Z.of_nat (k + s)) by (unfold s; lia). exact Htl.
  - assert (k = sz) by lia. subst k. exists []. split; [now rewrite app_nil_r|]. reflexivity.
Qed.

(* tiles => the served slices, concatenated, are the bytes of [start, total) *)
Lemma tiles_served image : forall reads start total,
  0 <= start -> total <= Z.of_nat (length image) -> tiles start reads total ->
  start <= total /\
  served image reads = firstn (Z.to_nat (total - start)) (skipn (Z.to_nat start) image).
Proof.
  induction reads as [|[size off] reads IH]; intros start total Hs Ht Hti.
  - cbn [tiles] in Hti. subst. split; [lia|]. rewrite Z.sub_diag. reflexivity.
  - cbn [tiles] in Hti. destruct Hti as [Hsz [Ho Hti]].
    destruct (IH (start + size) total ltac:(lia) Ht Hti) as [Hle Hsv].
    split; [lia|]. cbn [served flat_map fst snd]. fold (served image reads). rewrite Hsv.
    rewrite Ho.
    replace (Z.to_nat (total - start)) with (Z.to_nat size + Z.to_nat (total - (start + size)))%nat by lia.
    rewrite firstn_plus. f_equal. rewrite skipn_twice.
    replace (Z.to_nat start + Z.to_nat size)%nat with (Z.to_nat (start + size)) by lia. reflexivity.
Qed.

(* the whole call: from nothing read, for every image, every size within the image, every even
   chunk that fits the one-byte size field *)
Theorem dir_reads_tile image chunk (sz : nat) fuel :
  0 < chunk <= 255 -> chunk mod 2 = 0 -> (sz <= length image)%nat -> Z.of_nat sz < 131072 -> (sz < fuel)%nat ->
  exists reads,
    read_loop fuel chunk (Z.of_nat sz) (serve_image image) [] 0 [] = ROk (firstn sz image) reads
    /\ tiles 0 reads (Z.of_nat sz)
    /\ served image reads = firstn sz image.
Proof.
  intros Hc Hev Hsz Hmax Hf.
  destruct (read_loop_tiles image chunk sz Hc Hev Hsz Hmax fuel 0%nat 0 []) as [tail [Hrun Hti]]; try lia.
  exists tail. cbn [firstn app] in Hrun. split; [exact Hrun|]. split; [exact Hti|].
  destruct (tiles_served image tail 0 (Z.of_nat sz)) as [_ Hsv]; try lia; [exact Hti|].
  rewrite Hsv. rewrite Z.sub_0_r, Nat2Z.id. reflexivity.
Qed.

Corollary whole_directory_reads_tile image (sz : nat) :
  (sz <= length image)%nat -> Z.of_nat sz < 131072 ->
  exists reads,
    read_whole_file_directory (S sz) (Z.of_nat sz) (serve_image image) = ROk (firstn sz image) reads
    /\ tiles 0 reads (Z.of_nat sz) /\ served image reads = firstn sz image.
Proof.
  intros H1 H2. unfold read_whole_file_directory, DIR_CHUNK.
  apply dir_reads_tile; try lia.
Qed.

(* an odd chunk does NOT tile: the offset is counted in words (chunk 3, 6 bytes: second read
   starts at byte 2) *)
Example odd_chunk_overlaps :
  read_loop 10 3 6 (serve_image [1; 2; 3; 4; 5; 6]) [] 0 [] = ROk [1; 2; 3; 3; 4; 5] [(3, 0); (3, 1)].
Proof. vm_compute. reflexivity. Qed.

Definition dir_reads_tile_stmt : Prop :=
  (forall image chunk (sz : nat) fuel,
     0 < chunk <= 255 -> chunk mod 2 = 0 -> (sz <= length image)%nat -> Z.of_nat sz < 131072 -> (sz < fuel)%nat ->
     exists reads,
       read_loop fuel chunk (Z.of_nat sz) (serve_image image) [] 0 [] = ROk (firstn sz image) reads
       /\ tiles 0 reads (Z.of_nat sz)
       /\ served image reads = firstn sz image)
  /\ (forall image (sz : nat),
        (sz <= length image)%nat -> Z.of_nat sz < 131072 ->
        exists reads,
          read_whole_file_directory (S sz) (Z.of_nat sz) (serve_image image) = ROk (firstn sz image) reads
          /\ tiles 0 reads (Z.of_nat sz) /\ served image reads = firstn sz image).
Theorem dir_reads_tile_all : dir_reads_tile_stmt.
Proof. split; [exact dir_reads_tile|exact whole_directory_reads_tile]. Qed.
