(* Proofs/LifecycleHistory.v — from the target's tables back to the history: a session in the table
   was granted by a RegisterSession delivered earlier, a connection by a Forward Open delivered
   earlier, and the TCP connection has not dropped in between (property C10, "preceded by"). *)
From Coq Require Import ZifyBool.
From PV Require Import Base.Bytes Base.Res.
From PV Require Import Spec.EncapParser Spec.MRParser Spec.TargetIface Spec.TargetCore.
From PV Require Import Proofs.LifecycleTarget Model.Lifecycle Proofs.LifecycleP Proofs.LifecycleInv.
Open Scope Z_scope.

Section History.
Context {S : Type} (h : handler S).
Notation tev := (tev (S := S)).

(* the TCP connection dropped: the peer vanished, or the socket was closed and the target noticed *)
Definition is_reset (e : tev) : bool :=
  match e with TVanish => true | TSockClose n => n | _ => false end.
Definition no_reset (l : list tev) : Prop := forallb (fun e => negb (is_reset e)) l = true.

(* in the trace [tr] (newest first) a RegisterSession frame was delivered that put [s] into the
   session table, and no reset happened after it *)
Definition session_granted (tr : list tev) (s : Z) : Prop :=
  exists newer b fr rep older,
    tr = newer ++ TDeliver b fr rep :: older /\ no_reset newer /\ frame_effect fr = ERegister
    /\ ~ In s (t_sessions b) /\ In s (t_sessions (fst (tstep h b fr))).
(* ... a Forward Open frame was delivered that put [c] into the connection table, no reset after it *)
Definition conn_granted (tr : list tev) (c : conn) : Prop :=
  exists newer b fr rep older l,
    tr = newer ++ TDeliver b fr rep :: older /\ no_reset newer /\ frame_effect fr = EFo l
    /\ t_conns (fst (tstep h b fr)) = c :: t_conns b.

Lemma session_granted_cons e tr s : is_reset e = false -> session_granted tr s -> session_granted (e :: tr) s.
Proof.
  intros He (newer & b & fr & rep & older & -> & Hn & Hf & H1 & H2).
  exists (e :: newer), b, fr, rep, older. repeat split; auto.
  unfold no_reset in *. cbn [forallb]. rewrite He, Hn. reflexivity.
Qed.
Lemma conn_granted_cons e tr c : is_reset e = false -> conn_granted tr c -> conn_granted (e :: tr) c.
Proof.
  intros He (newer & b & fr & rep & older & l & -> & Hn & Hf & H1).
  exists (e :: newer), b, fr, rep, older, l. repeat split; auto.
  unfold no_reset in *. cbn [forallb]. rewrite He, Hn. reflexivity.
Qed.

Lemma chained_sessions tr : forall t, chained h tr t -> forall s, In s (t_sessions t) -> session_granted tr s.
Proof.
  induction tr as [| e older IH]; intros t Hc s Hin; cbn [chained] in Hc.
  - destruct Hc as [Hs _]. rewrite Hs in Hin. contradiction.
  - destruct e as [okc | b fr rep | n |].
    + apply session_granted_cons; [reflexivity |]. eapply IH; eassumption.
    + destruct Hc as (Hb & Hinj & -> & ->).
      pose proof (tstep_effect h b fr Hinj) as (_ & _ & He).
      assert (In s (t_sessions b) -> session_granted (TDeliver b fr (snd (tstep h b fr)) :: older) s) as Hold.
      { intros H. apply session_granted_cons; [reflexivity |]. eapply IH; eassumption. }
      destruct (frame_effect fr) as [| | | l |] eqn:Ef.
      * destruct He as [E _]. apply Hold. rewrite <- E. exact Hin.
      * destruct He as [_ [E | [hd E]]]; [apply Hold; rewrite <- E; exact Hin |].
        destruct (in_dec Z.eq_dec s (t_sessions b)) as [Hi | Hni]; [apply Hold; exact Hi |].
        exists [], b, fr, (snd (tstep h b fr)), older. repeat split; auto.
      * destruct He as [_ [[E _] | (ses & E & _)]]; apply Hold.
        -- rewrite <- E. exact Hin.
        -- rewrite E in Hin. apply filter_In in Hin. apply Hin.
      * destruct He as [E _]. apply Hold. rewrite <- E. exact Hin.
      * destruct He as [E _]. apply Hold. rewrite <- E. exact Hin.
    + destruct Hc as (b & Hb & ->). destruct n; [cbn in Hin; contradiction |].
      apply session_granted_cons; [reflexivity |]. eapply IH; eassumption.
    + destruct Hc as (b & Hb & ->). cbn in Hin. contradiction.
Qed.

Lemma chained_conns tr : forall t, chained h tr t -> forall c, In c (t_conns t) -> conn_granted tr c.
Proof.
  induction tr as [| e older IH]; intros t Hc c Hin; cbn [chained] in Hc.
  - destruct Hc as [_ Hs]. rewrite Hs in Hin. contradiction.
  - destruct e as [okc | b fr rep | n |].
    + apply conn_granted_cons; [reflexivity |]. eapply IH; eassumption.
    + destruct Hc as (Hb & Hinj & -> & ->).
      pose proof (tstep_effect h b fr Hinj) as (_ & _ & He).
      assert (In c (t_conns b) -> conn_granted (TDeliver b fr (snd (tstep h b fr)) :: older) c) as Hold.
      { intros H. apply conn_granted_cons; [reflexivity |]. eapply IH; eassumption. }
      destruct (frame_effect fr) as [| | | l |] eqn:Ef.
      * destruct He as [_ E]. apply Hold. rewrite <- E. exact Hin.
      * destruct He as [E _]. apply Hold. rewrite <- E. exact Hin.
      * destruct He as [_ [[_ E] | (ses & _ & E)]]; apply Hold.
        -- rewrite <- E. exact Hin.
        -- rewrite E in Hin. apply filter_In in Hin. apply Hin.
      * destruct He as [_ [[E _] | (c' & f & raw & _ & E & _)]].
        -- apply Hold. rewrite <- E. exact Hin.
        -- rewrite E in Hin. destruct Hin as [<- | Hin]; [| apply Hold; exact Hin].
           exists [], b, fr, (snd (tstep h b fr)), older, l. repeat split; auto.
      * destruct He as [_ (P & E)]. apply Hold. rewrite E in Hin. apply filter_In in Hin. apply Hin.
    + destruct Hc as (b & Hb & ->). destruct n; [cbn in Hin; contradiction |].
      apply conn_granted_cons; [reflexivity |]. eapply IH; eassumption.
    + destruct Hc as (b & Hb & ->). cbn in Hin. contradiction.
Qed.

Lemma chained_suffix newer : forall e older t, chained h (newer ++ e :: older) t -> exists t', chained h (e :: older) t'.
Proof.
  induction newer as [| x newer IH]; intros e older t Hc; [exists t; exact Hc |].
  cbn [app chained] in Hc. destruct x as [okc | b fr rep | n |].
  - eapply IH; exact Hc.
  - destruct Hc as (Hb & _). eapply IH; exact Hb.
  - destruct Hc as (b & Hb & _). eapply IH; exact Hb.
  - destruct Hc as (b & Hb & _). eapply IH; exact Hb.
Qed.

(* a SendUnitData frame is preceded, with no intervening reset, by a RegisterSession success for the
   session of its header and by a Forward Open success that created, in that session, the connection
   whose id the frame carries *)
Definition unitdata_preceded (older : list tev) (fr : bytes) : Prop :=
  forall f, parse_frame fr = RcOk f -> f_cmd f = CMD_UNITDATA ->
    session_granted older (f_session f)
    /\ exists t cid dt d c, f_body f = BCpf t (AddrConn cid) dt d /\ conn_granted older c
                            /\ c_ot_id c = cid /\ c_session c = f_session f.

Lemma preceded_of_tables tr t : chained h tr t -> Forall (deliver_ok (S := S)) tr ->
  forall newer b fr rep older, tr = newer ++ TDeliver b fr rep :: older -> unitdata_preceded older fr.
Proof.
  intros Hc Hok newer b fr rep older -> f Hp Hcmd.
  destruct (chained_suffix _ _ _ _ Hc) as (t' & Hc'). cbn [chained] in Hc'. destruct Hc' as (Hb & _).
  rewrite Forall_forall in Hok.
  assert (deliver_ok (TDeliver b fr rep)) as Hd by (apply Hok; apply in_or_app; right; left; reflexivity).
  cbn [deliver_ok] in Hd. destruct (Hd f Hp Hcmd) as (Hm & tt & cid & dt & d & c & Hbody & Hin & Hot & Hses).
  split.
  - eapply chained_sessions; [exact Hb |]. unfold mem_z in Hm. apply existsb_exists in Hm. destruct Hm as (x & Hx & E).
    assert (x = f_session f) by lia. subst x. exact Hx.
  - exists tt, cid, dt, d, c. split; [exact Hbody |]. split; [eapply chained_conns; eassumption |]. auto.
Qed.
End History.
