(* Proofs/CodecErrDefs.v — C08: the computable side conditions and the independent notions the
   error-algebra theorems are stated with.  Definitions only.

     progress / hprogress   element types on which Array(None, T) terminates
     strict / swidth        types every value of which is read from exactly [swidth] bytes
     width_of / announced   the number of bytes a type / the head of a buffer announces (spec side:
                            written from the wire layout, never from the decoders)
     be_ok                  types whose decoder raises BufferEmptyError only at the end of the buffer
     enc_foreign            (type, value) pairs on which the length test outside Array.encode's try
                            (or DATE_AND_TIME's arity) lets TypeError escape
     bad / silent           values clearly outside a type's domain; those the code accepts silently *)
From PV Require Import Base.Bytes Base.Res Model.Codec Model.CodecDom.
Open Scope Z_scope.

Definition is_nil {A} (l : list A) : bool := match l with [] => true | _ => false end.
Definition is_none {A} (o : option A) : bool := match o with None => true | Some _ => false end.
Definition is_err {A} (r : res A) : bool := match r with Err _ => true | Ok _ => false end.

(* ------------------------------------------------------------------ termination of Array(None, T) *)
(* every successful decode of the type consumes at least one byte *)
Fixpoint progress (t : ty) : bool :=
  match t with
  | TPcccAscii => false                       (* plain stream.read(2): "" from the empty buffer *)
  | TArrAll _ => false                        (* [] from the empty buffer *)
  | TArrFixed n e => (0 <? n)%nat && progress e
  | TStruct _ ms => existsb (fun m => progress (snd m)) ms
  | TStructTag ms bits _ size =>
      (0 <? size)%nat && (existsb (fun m => progress (snd m)) ms || negb (is_nil bits))
  | _ => true                                 (* the first action is a _stream_read / an integer decode *)
  end.

(* every unbounded array inside the type is over an element type that makes progress *)
Fixpoint hprogress (t : ty) : bool :=
  match t with
  | TArrAll e => progress e && hprogress e
  | TArrFixed _ e => hprogress e
  | TArrPrefix inst lt _ => negb inst || hprogress lt      (* only the length decoder ever runs *)
  | TStruct _ ms => forallb (fun m => hprogress (snd m)) ms
  | TStructTag ms _ _ _ => forallb (fun m => hprogress (snd m)) ms
  | _ => true
  end.

(* ------------------------------------------------------------------ widths (spec side) *)
Fixpoint sum_widths (l : list (option nat)) : option nat :=
  match l with
  | [] => Some O
  | Some a :: r => match sum_widths r with Some b => Some (a + b)%nat | None => None end
  | None :: _ => None
  end.

(* the number of bytes every value of the type occupies on the wire, when that is a constant *)
Fixpoint width_of (t : ty) : option nat :=
  match t with
  | TBool => Some 1%nat
  | TInt _ w => Some w
  | TReal dbl => Some (if dbl then 8 else 4)%nat
  | TDateTime => Some 6%nat                                (* UDINT time, UINT date *)
  | TBits w => Some w
  | TNBytes n => if 0 <=? n then Some (Z.to_nat n) else None
  | TFixedStr size _ lw _ => Some (lw + size)%nat
  | TIPAddr => Some 4%nat
  | TPcccAscii => Some 2%nat
  | TArrFixed n e => match width_of e with Some w => Some (n * w)%nat | None => None end
  | TStruct _ ms => sum_widths (map (fun m => width_of (snd m)) ms)
  | TStructTag _ _ _ size => Some size
  | _ => None
  end.

(* the integer a length prefix of [w] bytes denotes *)
Definition prefix_val (sg : bool) (w : nat) (bs : bytes) : Z :=
  let u := le_dec (firstn w bs) in if sg then to_signed w u else u.

(* the number of bytes the value at the head of [bs] announces: the constant width, or the length
   prefix plus the character data it counts *)
Definition announced (t : ty) (bs : bytes) : option Z :=
  match t with
  | TStr lsg lw _ =>
      if (lw <=? length bs)%nat then Some (Z.of_nat lw + Z.max 0 (prefix_val lsg lw bs)) else Some (Z.of_nat lw)
  | TStringN =>
      if (4 <=? length bs)%nat
      then Some (4 + prefix_val false 2 bs * prefix_val false 2 (skipn 2 bs))
      else Some 4
  | _ => option_map Z.of_nat (width_of t)
  end.

(* ------------------------------------------------------------------ strict fixed-width types *)
Fixpoint swidth (t : ty) : nat :=
  match t with
  | TBool => 1
  | TInt _ w => w
  | TReal dbl => if dbl then 8 else 4
  | TDateTime => 6
  | TBits w => w
  | TIPAddr => 4
  | TArrFixed n e => n * swidth e
  | TStruct _ ms => list_sum (map (fun m => swidth (snd m)) ms)
  | TStructTag _ _ _ size => size
  | _ => 0
  end.

(* StructTag members at increasing, non-overlapping offsets inside the structure *)
Fixpoint stag_layout_strict (pos : nat) (ms : list ((key * nat) * ty)) (size : nat) : bool :=
  match ms with
  | [] => (pos <=? size)%nat
  | ((_, off), t) :: r => (pos <=? off)%nat && stag_layout_strict (off + swidth t) r size
  end.
(* the structure's last byte belongs to a member or carries a bit member (no trailing padding) *)
Definition stag_tight (ms : list ((key * nat) * ty)) (bits : list (text * (nat * nat))) (size : nat) : bool :=
  (size =? 0)%nat
  || existsb (fun m => (0 <? swidth (snd m))%nat && (snd (fst m) + swidth (snd m) =? size)%nat) ms
  || existsb (fun b => (fst (snd b) + 1 =? size)%nat) bits.

(* every value is decoded from exactly [swidth t] bytes: the elementary fixed-width classes and
   arrays / structures / tightly laid out StructTags of them.  Excluded (they accept short
   buffers): strings, n_bytes, FixedSizeString, PCCC_ASCII, StructTags with trailing padding. *)
Fixpoint strict (t : ty) : bool :=
  match t with
  | TBool | TReal _ | TIPAddr | TDateTime => true
  | TInt _ w | TBits w => (0 <? w)%nat
  | TArrFixed _ e => strict e
  | TStruct _ ms => forallb (fun m => strict (snd m)) ms
  | TStructTag ms bits _ size =>
      forallb (fun m => strict (snd m)) ms && stag_layout_strict 0 ms size && stag_tight ms bits size
  | _ => false
  end.

(* ------------------------------------------------------------------ BufferEmptyError only at the end *)
Fixpoint be_ok (t : ty) : bool :=
  match t with
  | TBool | TReal _ | TIPAddr | TDateTime | TPcccAscii | TPcccString | TArrAll _ => true
  | TInt _ w | TBits w => (0 <? w)%nat
  | TStr _ lw _ => (0 <? lw)%nat
  | TStringN | TStringI => false               (* _stream_read(stream, 0) for a string of zero characters *)
  | TNBytes n => negb (n =? 0)
  | TFixedStr size _ lw _ => (0 <? size)%nat && (0 <? lw)%nat
  | TArrFixed _ e => be_ok e
  | TArrPrefix inst lt _ => negb inst || be_ok lt
  | TStruct _ ms => forallb (fun m => be_ok (snd m)) ms
  | TStructTag ms bits priv size => strict (TStructTag ms bits priv size)
  end.

(* ------------------------------------------------------------------ encode: foreign exceptions *)
Definition sized (v : val) : bool :=
  match v with VStr _ | VBytes _ | VList _ | VTuple _ | VDict _ => true | _ => false end.

(* exactly the calls on which a TypeError escapes T.encode(value) *)
Definition enc_foreign (t : ty) (v : val) : bool :=
  match t with
  | TDateTime => true                                              (* arity: encode(cls, time, date) *)
  | TArrFixed _ _ | TArrPrefix _ _ _ | TArrAll _ => negb (sized v)  (* len(values) outside the try *)
  | _ => false
  end.

(* values the model does not cover: a list with non-integer items given to n_bytes *)
Definition in_model (t : ty) (v : val) : bool :=
  match t, v with
  | TNBytes _, (VList l | VTuple l) => negb (is_none (ints_of l))
  | _, _ => true
  end.

(* ------------------------------------------------------------------ encode: values outside the domain *)
Definition seq_items (v : val) : option (list val) :=
  match v with VList l | VTuple l => Some l | _ => None end.

Section Existsb2.
  Context {A B : Type}.
  Variable f : A -> B -> bool.
  Fixpoint existsb2 (la : list A) (lb : list B) : bool :=
    match la, lb with
    | a :: la', b :: lb' => f a b || existsb2 la' lb'
    | _, _ => false
    end.
End Existsb2.

Definition real_bad (dbl : bool) (v : val) : bool :=
  match as_float v with
  | Err _ => true                                   (* not a number, or an int beyond the double range *)
  | Ok b => negb dbl && is_none (round32 b)         (* a finite value that rounds beyond binary32 *)
  end.

Definition str_bad (lsg : bool) (lw : nat) (e : tenc) (s : text) : bool :=
  negb (int_in_range lsg lw (zlen s)) || negb (encodable e s).

(* [bad t v]: v is clearly outside the domain of t — out of range, wrong Python type, too few
   elements for a fixed array, too few values for a structure, missing member, wrong bit-string
   length, unencodable character.  [false] = inside, or not classified (BOOL takes any value by
   truthiness; str / bytes / dict given to an array are sequences the code indexes). *)
Fixpoint bad (t : ty) (v : val) : bool :=
  match t with
  | TBool | TDateTime | TStringI => false
  | TInt sg w => match v with VInt z => negb (int_in_range sg w z) | VBool _ => false | _ => true end
  | TReal dbl => real_bad dbl v
  | TStr lsg lw e => match v with VStr s => str_bad lsg lw e s | _ => true end
  | TStringN => match v with VStr s => str_bad false 2 Utf8 s | _ => true end
  | TNBytes _ => match v with VBytes _ | VList _ | VTuple _ => false | _ => true end
  | TBits w => match py_len v with Ok n => negb (n =? 8 * Z.of_nat w) | Err _ => true end
  | TArrFixed n e =>
      match seq_items v with
      | Some l => match bits_width e with
                  | Some w => zlen l <? Z.of_nat n * (8 * Z.of_nat w)
                  | None => (length l <? n)%nat || existsb (bad e) (firstn n l)
                  end
      | None => negb (sized v)
      end
  | TArrPrefix _ _ e | TArrAll e =>
      match seq_items v with
      | Some l => match bits_width e with
                  | Some w => negb (zlen l mod (8 * Z.of_nat w) =? 0)
                  | None => existsb (bad e) l
                  end
      | None => negb (sized v)
      end
  | TStruct k ms =>
      match k with
      | SModuleIdentity => match v with VDict _ => false | _ => true end
      | _ =>
          match v with
          | VList l | VTuple l => (length l <? length ms)%nat || existsb2 (fun m x => bad (snd m) x) ms l
          | VDict d => existsb (fun m => match dict_get d (fst m) with Ok x => bad (snd m) x | Err _ => true end) ms
          | _ => negb (sized v)
          end
      end
  | TFixedStr _ lsg lw cap => match v with VStr s => str_bad lsg lw Latin1 (firstn cap s) | _ => true end
  | TStructTag ms bits priv _ =>
      match v with
      | VDict d =>
          existsb (fun m => negb (key_in (fst (fst m)) priv)
                            && match dict_get d (fst (fst m)) with Ok x => bad (snd m) x | Err _ => true end) ms
          || existsb (fun b => is_err (dict_get d (Some (fst b)))) bits
      | _ => true
      end
  | TIPAddr =>
      match v with
      | VStr s => negb (ip_dom s)
      | VInt z => negb (in_urange 4 z)
      | VBool _ => false
      | VBytes b => negb (length b =? 4)%nat
      | _ => true
      end
  | TPcccAscii => negb (sized v)
  | TPcccString => match v with VStr s => negb (encodable Latin1 s) | _ => true end
  end.

(* the three classes of values outside the domain that the code encodes without an error, wherever
   they occur in the value: a structure given fewer values than members, n_bytes given a str, an
   array of bit strings given too few bits / a partial element *)
Fixpoint silent (t : ty) (v : val) : bool :=
  match t with
  | TNBytes _ => match v with VStr _ => true | _ => false end
  | TArrFixed n e =>
      match seq_items v with
      | Some l => match bits_width e with
                  | Some w => (Z.of_nat n <=? zlen l) && (zlen l <? Z.of_nat n * (8 * Z.of_nat w))
                  | None => existsb (silent e) (firstn n l)
                  end
      | None => false
      end
  | TArrPrefix _ _ e | TArrAll e =>
      match seq_items v with
      | Some l => match bits_width e with
                  | Some w => negb (zlen l mod (8 * Z.of_nat w) =? 0)
                  | None => existsb (silent e) l
                  end
      | None => false
      end
  | TStruct k ms =>
      match v with
      | VList l | VTuple l => (length l <? length ms)%nat || existsb2 (fun m x => silent (snd m) x) ms l
      | VDict d => existsb (fun m => match dict_get d (fst m) with Ok x => silent (snd m) x | Err _ => false end) ms
      | _ => false
      end
  | TStructTag ms _ priv _ =>
      match v with
      | VDict d => existsb (fun m => negb (key_in (fst (fst m)) priv)
                                     && match dict_get d (fst (fst m)) with Ok x => silent (snd m) x | Err _ => false end) ms
      | _ => false
      end
  | _ => false
  end.
