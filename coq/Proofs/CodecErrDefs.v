(* Proofs/CodecErrDefs.v — C08: the computable side conditions and the independent notions the
   error-algebra theorems are stated with.  Definitions only.  (Model as of /repo bcb4254: the codec
   fix wave; the classes those commits repaired are no longer excluded here.)

     progress / hprogress   types whose successful decode consumes input; the only place where it
                            still matters is Array(<length type>, T): the loop runs `count` times
     strict / swidth        types every value of which is read from exactly [swidth] bytes
     width_of / announced   the number of bytes a type / the head of a buffer announces (spec side:
                            written from the wire layout, never from the decoders)
     be_ok                  types whose decoder raises BufferEmptyError only at the end of the buffer
     bad / silent           values clearly outside a type's domain; those the code accepts silently *)
From PV Require Import Base.Bytes Base.Res Model.Codec.
Open Scope Z_scope.

Definition is_nil {A} (l : list A) : bool := match l with [] => true | _ => false end.
Definition is_none {A} (o : option A) : bool := match o with None => true | Some _ => false end.
Definition is_err {A} (r : res A) : bool := match r with Err _ => true | Ok _ => false end.

(* ------------------------------------------------------------------ progress *)
(* every successful decode of the type consumes at least one byte *)
Fixpoint progress (t : ty) : bool :=
  match t with
  | TBool | TReal _ | TIPAddr | TDateTime | TStringN | TStringI | TPcccAscii | TPcccString => true
  | TInt _ w | TBits w => (0 <? w)%nat
  | TStr _ lw _ => (0 <? lw)%nat
  | TNBytes n => negb (n =? 0)
  | TFixedStr size _ lw _ => (0 <? lw)%nat || (0 <? size)%nat
  | TArrFixed n e => (0 <? n)%nat && progress e
  | TArrPrefix _ lt _ => progress lt
  | TArrAll _ => false                        (* [] from the empty buffer *)
  | TStruct _ ms => existsb (fun m => progress (snd m)) ms
  | TStructTag ms bits _ size =>
      (0 <? size)%nat && (existsb (fun m => progress (snd m)) ms || negb (is_nil bits))
  end.

(* Array(L, T).decode runs `count` element decodes whatever the buffer holds: with an element type
   that can succeed without consuming input the loop is as long as the (attacker-chosen) count.
   [hprogress]: every length-prefixed array inside the type is over an element type that makes
   progress (so the loop ends with the buffer). *)
Fixpoint hprogress (t : ty) : bool :=
  match t with
  | TArrAll e => hprogress e
  | TArrFixed _ e => hprogress e
  | TArrPrefix _ lt e => progress e && hprogress lt && hprogress e
  | TStruct _ ms => forallb (fun m => hprogress (snd m)) ms
  | TStructTag ms _ _ _ => forallb (fun m => hprogress (snd m)) ms
  | _ => true
  end.
Fixpoint has_prefix (t : ty) : bool :=
  match t with
  | TArrPrefix _ _ _ => true
  | TArrAll e | TArrFixed _ e => has_prefix e
  | TStruct _ ms => existsb (fun m => has_prefix (snd m)) ms
  | TStructTag ms _ _ _ => existsb (fun m => has_prefix (snd m)) ms
  | _ => false
  end.

(* ------------------------------------------------------------------ widths (spec side) *)
Fixpoint sum_widths (l : list (option nat)) : option nat :=
  match l with
  | [] => Some O
  | Some a :: r => match sum_widths r with Some b => Some (a + b)%nat | None => None end
  | None :: _ => None
  end.

(* the number of bytes every value of the type occupies on the wire, when that is a constant *)
Fixpoint width_of (t : ty) : option nat :=
  match t with
  | TBool => Some 1%nat
  | TInt _ w => Some w
  | TReal dbl => Some (if dbl then 8 else 4)%nat
  | TDateTime => Some 6%nat                                (* UDINT time, UINT date *)
  | TBits w => Some w
  | TNBytes n => if 0 <=? n then Some (Z.to_nat n) else None
  | TFixedStr size _ lw _ => Some (lw + size)%nat
  | TIPAddr => Some 4%nat
  | TPcccAscii => Some 2%nat
  | TArrFixed n e => match width_of e with Some w => Some (n * w)%nat | None => None end
  | TStruct _ ms => sum_widths (map (fun m => width_of (snd m)) ms)
  | TStructTag _ _ _ size => Some size
  | _ => None
  end.

(* the integer a length prefix of [w] bytes denotes *)
Definition prefix_val (sg : bool) (w : nat) (bs : bytes) : Z :=
  let u := le_dec (firstn w bs) in if sg then to_signed w u else u.
Definition char_width (e : tenc) : Z := match e with Latin1 | Utf8 => 1 | Utf16 => 2 | Utf32 => 4 end.

(* the number of bytes the value at the head of [bs] announces: the constant width, or the length
   prefix plus the characters it counts *)
Definition announced (t : ty) (bs : bytes) : option Z :=
  match t with
  | TStr lsg lw e =>
      if (lw <=? length bs)%nat then Some (Z.of_nat lw + Z.max 0 (prefix_val lsg lw bs * char_width e)) else Some (Z.of_nat lw)
  | TStringN =>
      if (4 <=? length bs)%nat
      then Some (4 + prefix_val false 2 bs * prefix_val false 2 (skipn 2 bs))
      else Some 4
  | _ => option_map Z.of_nat (width_of t)
  end.

(* ------------------------------------------------------------------ strict fixed-width types *)
Fixpoint swidth (t : ty) : nat :=
  match t with
  | TBool => 1
  | TInt _ w => w
  | TReal dbl => if dbl then 8 else 4
  | TDateTime => 6
  | TBits w => w
  | TNBytes n => Z.to_nat n
  | TFixedStr size _ lw _ => lw + size
  | TIPAddr => 4
  | TPcccAscii => 2
  | TArrFixed n e => n * swidth e
  | TStruct _ ms => list_sum (map (fun m => swidth (snd m)) ms)
  | TStructTag _ _ _ size => size
  | _ => 0
  end.

(* every value is decoded from exactly [swidth t] bytes.  A StructTag qualifies when its members
   are strict and lie inside the structure, and it cannot be "decoded" from an exhausted buffer
   (it has a member that makes progress, or a bit member, or no size). *)
Fixpoint strict (t : ty) : bool :=
  match t with
  | TBool | TReal _ | TIPAddr | TDateTime | TInt _ _ | TBits _ | TFixedStr _ _ _ _ | TPcccAscii => true
  | TNBytes n => 0 <=? n
  | TArrFixed _ e => strict e
  | TStruct _ ms => forallb (fun m => strict (snd m)) ms
  | TStructTag ms bits _ size =>
      forallb (fun m => strict (snd m) && (snd (fst m) + swidth (snd m) <=? size)%nat) ms
      && ((size =? 0)%nat || existsb (fun m => progress (snd m)) ms || negb (is_nil bits))
  | _ => false
  end.

(* the types the short-read statement speaks about: those with a width or an announced length *)
Definition short_ok (t : ty) : bool :=
  match t with TStr _ _ _ | TStringN => true | _ => strict t end.

(* ------------------------------------------------------------------ BufferEmptyError only at the end *)
Fixpoint be_ok (t : ty) : bool :=
  match t with
  | TArrFixed _ e => be_ok e
  | TArrPrefix _ lt e => be_ok lt && be_ok e
  | TStruct _ ms => forallb (fun m => be_ok (snd m)) ms
  | TStructTag ms bits priv size => strict (TStructTag ms bits priv size)
  | _ => true
  end.

(* ------------------------------------------------------------------ encode: values outside the domain *)
Definition sized (v : val) : bool :=
  match v with VStr _ | VBytes _ | VList _ | VTuple _ | VDict _ => true | _ => false end.
Definition seq_items (v : val) : option (list val) :=
  match v with VList l | VTuple l => Some l | _ => None end.

Section Existsb2.
  Context {A B : Type}.
  Variable f : A -> B -> bool.
  Fixpoint existsb2 (la : list A) (lb : list B) : bool :=
    match la, lb with
    | a :: la', b :: lb' => f a b || existsb2 la' lb'
    | _, _ => false
    end.
End Existsb2.

Definition enc_ok (e : tenc) (s : text) : bool := negb (is_err (text_encode e s)).
Definition ip_ok (s : text) : bool := negb (is_none (parse_ipv4 s)).

Definition int_bad (sg : bool) (w : nat) (v : val) : bool :=
  match v with VInt z => negb (int_in_range sg w z) | VBool _ => false | _ => true end.

Definition real_bad (dbl : bool) (v : val) : bool :=
  match as_float v with
  | Err _ => true                                   (* not a number, or an int beyond the double range *)
  | Ok b => negb dbl && is_none (round32 b)         (* a finite value that rounds beyond binary32 *)
  end.

(* the prefix counts code units: the encoded length divided by the character width *)
Definition str_bad (lsg : bool) (lw : nat) (e : tenc) (s : text) : bool :=
  match text_encode e s with
  | Ok d => negb (int_in_range lsg lw (zlen d / char_width e))
  | Err _ => true
  end.

(* FixedSizeString: the prefix is len(value) (one byte per character) *)
Definition fstr_bad (lsg : bool) (lw : nat) (s : text) : bool :=
  negb (int_in_range lsg lw (zlen s)) || negb (enc_ok Latin1 s).

(* [bad t v]: v is clearly outside the domain of t — out of range, wrong Python type, too few
   elements for a fixed array, too few values for a structure, missing member, wrong bit-string
   length, unencodable character.  [false] = inside, or not classified (BOOL takes any value by
   truthiness; str / bytes / dict given to an array are sequences the code indexes; a list given
   to n_bytes is converted). *)
Fixpoint bad (t : ty) (v : val) : bool :=
  match t with
  | TBool | TStringI => false
  | TInt sg w => int_bad sg w v
  | TReal dbl => real_bad dbl v
  | TDateTime =>
      match seq_items v with
      | Some [time; date] => int_bad false 4 time || int_bad false 2 date
      | Some _ => true
      | None => negb (sized v)
      end
  | TStr lsg lw e => match v with VStr s => str_bad lsg lw e s | _ => true end
  | TStringN => match v with VStr s => str_bad false 2 Latin1 s | _ => true end
  | TNBytes _ => match v with VBytes _ | VList _ | VTuple _ => false | _ => true end
  | TBits w => match py_len v with Ok n => negb (n =? 8 * Z.of_nat w) | Err _ => true end
  | TArrFixed n e =>
      match seq_items v with
      | Some l => match bits_width e with
                  | Some w => zlen l <? Z.of_nat n * (8 * Z.of_nat w)
                  | None => (length l <? n)%nat || existsb (bad e) (firstn n l)
                  end
      | None => negb (sized v)
      end
  | TArrPrefix _ _ e | TArrAll e =>
      match seq_items v with
      | Some l => match bits_width e with
                  | Some w => negb (zlen l mod (8 * Z.of_nat w) =? 0)
                  | None => existsb (bad e) l
                  end
      | None => negb (sized v)
      end
  | TStruct k ms =>
      match k with
      | SModuleIdentity => match v with VDict _ => false | _ => true end
      | _ =>
          match v with
          | VList l | VTuple l => (length l <? length ms)%nat || existsb2 (fun m x => bad (snd m) x) ms l
          | VDict d => existsb (fun m => match dict_get d (fst m) with Ok x => bad (snd m) x | Err _ => true end) ms
          | _ => negb (sized v)
          end
      end
  | TFixedStr _ lsg lw cap => match v with VStr s => fstr_bad lsg lw (firstn cap s) | _ => true end
  | TStructTag ms bits priv _ =>
      match v with
      | VDict d =>
          existsb (fun m => negb (key_in (fst (fst m)) priv)
                            && match dict_get d (fst (fst m)) with Ok x => bad (snd m) x | Err _ => true end) ms
          || existsb (fun b => is_err (dict_get d (Some (fst b)))) bits
      | _ => true
      end
  | TIPAddr =>
      match v with
      | VStr s => negb (ip_ok s)
      | VInt z => negb (in_urange 4 z)
      | VBool _ => false
      | VBytes b => negb (length b =? 4)%nat
      | _ => true
      end
  | TPcccAscii => negb (sized v)
  | TPcccString => match v with VStr s => negb (enc_ok Latin1 s) | _ => true end
  end.

(* the class of values outside the domain that the code still encodes without an error, wherever
   it occurs in the value: an array of bit strings given too few bits / a partial element
   (Array.encode recomputes the element count as len(values) // bits-per-element) *)
Fixpoint silent (t : ty) (v : val) : bool :=
  match t with
  | TArrFixed n e =>
      match seq_items v with
      | Some l => match bits_width e with
                  | Some w => (Z.of_nat n <=? zlen l) && (zlen l <? Z.of_nat n * (8 * Z.of_nat w))
                  | None => existsb (silent e) (firstn n l)
                  end
      | None => false
      end
  | TArrPrefix _ _ e | TArrAll e =>
      match seq_items v with
      | Some l => match bits_width e with
                  | Some w => negb (zlen l mod (8 * Z.of_nat w) =? 0)
                  | None => existsb (silent e) l
                  end
      | None => false
      end
  | TStruct k ms =>
      match v with
      | VList l | VTuple l => existsb2 (fun m x => silent (snd m) x) ms l
      | VDict d => existsb (fun m => match dict_get d (fst m) with Ok x => silent (snd m) x | Err _ => false end) ms
      | _ => false
      end
  | TStructTag ms _ priv _ =>
      match v with
      | VDict d => existsb (fun m => negb (key_in (fst (fst m)) priv)
                                     && match dict_get d (fst (fst m)) with Ok x => silent (snd m) x | Err _ => false end) ms
      | _ => false
      end
  | _ => false
  end.
