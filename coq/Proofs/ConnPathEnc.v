(* Proofs/ConnPathEnc.v — C15: the port-segment encoder of Model/Path.v on the (port text, link
   text) pairs the path parser produces, against the reference classification of one hop. *)
From Coq Require Import String.
From PV Require Import Base.Bytes Base.BytesLemmas Base.Proto Base.Res Base.PyStr Gen.PathTables Gen.Consts
     Model.Path Model.ConnPath Spec.ConnPathGrammar Proofs.ConnPathStr.
From Coq Require Import ZifyBool.
Ltac Zify.zify_post_hook ::= Z.to_euclidean_division_equations.
Open Scope Z_scope.

(* ================================================================ D. the port-segment encoder *)
(* the documented names are the regenerated ones *)
Lemma doc_names_regenerated : doc_port_names = port_segments.
Proof. reflexivity. Qed.
Lemma same_text_eqb a : forall b, same_text a b = text_eqb a b.
Proof. induction a as [|x a IH]; intros [|y b]; cbn; try reflexivity; try now rewrite IH. Qed.
Lemma lookup_assoc k t : lookup k t = assoc_text k t.
Proof. induction t as [|[k' v] r IH]; cbn; [reflexivity|]. now rewrite same_text_eqb, IH. Qed.
Lemma same_text_eq a : forall b, same_text a b = true -> a = b.
Proof.
  induction a as [|x a IH]; intros [|y b]; cbn; try discriminate; [reflexivity|].
  intros H. apply andb_prop in H as [H1 H2]. f_equal; [lia|now apply IH].
Qed.
Lemma lookup_in k t v : lookup k t = Some v -> In k (map fst t).
Proof.
  induction t as [|[k' v'] r IH]; cbn; [discriminate|].
  destruct (same_text k' k) eqn:E; intros H.
  - left. now apply same_text_eq.
  - right. now apply IH.
Qed.
Lemma names_not_numbers : forallb (fun n => negb (isdigit n)) (map fst doc_port_names) = true.
Proof. reflexivity. Qed.
Lemma name_not_digit k v : lookup k doc_port_names = Some v -> isdigit k = false.
Proof.
  intros H. apply lookup_in in H. pose proof names_not_numbers as Hn.
  rewrite forallb_forall in Hn. specialize (Hn _ H). now destruct (isdigit k).
Qed.

(* what the encoder resolves the port text to *)
Definition resolve (port : Z + list Z) : res Z :=
  match port with
  | inl n => Ok n
  | inr name => match assoc_text name port_segments with
                | Some n => Ok n
                | None => Err (Foreign KeyError)
                end
  end.

Lemma resolve_ok p n : classify_port p = PortOk n ->
  exists pt, port_of_text p = Ok pt /\ resolve pt = Ok n /\ 1 <= n <= PMAX.
Proof.
  unfold classify_port. destruct (lookup p doc_port_names) as [k|] eqn:El.
  - intros H. injection H as ->. pose proof (name_not_digit _ _ El) as Hd.
    exists (inr p). unfold port_of_text. rewrite Hd. split; [reflexivity|].
    cbn [resolve]. rewrite <- doc_names_regenerated, <- lookup_assoc, El.
    split; [reflexivity|].
    (* every documented name denotes a port in 1..3 *)
    assert (Hall : forallb (fun kv => (1 <=? snd kv) && (snd kv <=? 3)) doc_port_names = true) by reflexivity.
    clear Hd. revert El. generalize doc_port_names Hall. intros t. induction t as [|[k' v'] r IH]; cbn; [discriminate|].
    intros Ht. apply andb_prop in Ht as [H1 H2]. destruct (same_text k' p).
    + intros E. injection E as <-. unfold PMAX. lia.
    + apply IH. exact H2.
  - destruct (isdigit p) eqn:Hd; [|discriminate].
    destruct (isdigit_dval p Hd) as [Hv Hp].
    destruct ((1 <=? dval p) && (dval p <=? PMAX) && numeral_ok p) eqn:E1; [|discriminate].
    intros H. injection H as <-. exists (inl (dval p)). unfold port_of_text.
    apply andb_prop in E1 as [E1 E2]. rewrite Hd, (int_of_numeral p Hd), E2.
    cbn. repeat split; lia.
Qed.

Lemma resolve_bad p : classify_port p = PortBad ->
  port_of_text p = Ok (inr p) /\ resolve (inr p) = Err (Foreign KeyError).
Proof.
  unfold classify_port. destruct (lookup p doc_port_names) as [k|] eqn:El; [discriminate|].
  destruct (isdigit p) eqn:Hd.
  - destruct ((1 <=? dval p) && (dval p <=? PMAX) && numeral_ok p); discriminate.
  - intros _. unfold port_of_text. rewrite Hd. split; [reflexivity|]. cbn [resolve].
    now rewrite <- doc_names_regenerated, <- lookup_assoc, El.
Qed.

Lemma resolve_notbad p : classify_port p <> PortBad ->
  (exists e, port_of_text p = Err e) \/ (exists pt k, port_of_text p = Ok pt /\ resolve pt = Ok k).
Proof.
  intros H. destruct (classify_port p) as [n| |] eqn:E; [| |contradiction].
  - right. destruct (resolve_ok p n E) as [pt [H1 [H2 _]]]. eauto.
  - unfold classify_port in E. destruct (lookup p doc_port_names); [discriminate|].
    destruct (isdigit p) eqn:Hd; [|discriminate].
    unfold port_of_text. rewrite Hd, (int_of_numeral p Hd).
    destruct (numeral_ok p); cbn [bind]; [right|left]; eauto. exists (inl (dval p)), (dval p). auto.
Qed.

(* ---------------------------------------------------------------- links *)
Lemma USINT_encode_byte z : 0 <= z <= 255 -> USINT_encode z = Ok [z].
Proof.
  intros H. unfold USINT_encode, uint_encode, in_urange, pow256.
  replace ((0 <=? z) && (z <? 256 ^ Z.of_nat 1)) with true by (change (256 ^ Z.of_nat 1) with 256; lia).
  cbn [le_enc]. f_equal. f_equal. lia.
Qed.
Lemma USINT_encode_big z : 255 < z -> USINT_encode z = Err DataError.
Proof.
  intros H. unfold USINT_encode, uint_encode, in_urange, pow256.
  replace ((0 <=? z) && (z <? 256 ^ Z.of_nat 1)) with false by (change (256 ^ Z.of_nat 1) with 256; lia).
  reflexivity.
Qed.

Lemma octet_bridge o : octet_ok o = octet o.
Proof.
  unfold octet_ok, octet. destruct (isdigit o) eqn:Hd; [|reflexivity].
  destruct (isdigit_dval o Hd) as [Hv _]. now rewrite Hv.
Qed.
Lemma quad_bridge t : ip_v4_ok t = strict_quad t.
Proof.
  unfold ip_v4_ok, strict_quad. rewrite split_chr_fields.
  change (fun c => c =? 46) with is_dot. destruct (fields is_dot t) as [a fs]. cbn [fst snd].
  destruct fs as [|b [|c [|d [|e r]]]]; try reflexivity. now rewrite !octet_bridge.
Qed.

Lemma fields_chars p q s :
  forallb q (fst (fields p s)) = true -> forallb (forallb q) (snd (fields p s)) = true ->
  forallb (fun c => q c || p c) s = true.
Proof.
  induction s as [|c r IH]; cbn [fields forallb]; [reflexivity|].
  destruct (fields p r) as [f fs]. cbn [fst snd] in IH.
  destruct (p c) eqn:E; cbn [fst snd forallb]; intros H1 H2.
  - apply andb_prop in H2 as [H2 H3]. rewrite orb_true_r. cbn. now apply IH.
  - apply andb_prop in H1 as [H1 H3]. rewrite H1. cbn. now apply IH.
Qed.

Lemma octet_props o : octet o = true ->
  forallb is_ascii_digit o = true /\ (1 <= List.length o <= 3)%nat.
Proof.
  unfold octet. intros H. apply andb_prop in H as [H _]. apply andb_prop in H as [H _].
  apply andb_prop in H as [H1 H2]. apply isdigit_forallb in H1 as [Hne Hd]. split; [exact Hd|].
  destruct o; [contradiction|]. cbn [List.length] in *. apply Nat.leb_le in H2. lia.
Qed.

Lemma quad_props t : strict_quad t = true ->
  forallb (fun c => is_ascii_digit c || is_dot c) t = true /\ (7 <= List.length t <= 15)%nat.
Proof.
  unfold strict_quad. intros H.
  pose proof (fields_chars is_dot is_ascii_digit t) as Hc. pose proof (fields_length is_dot t) as Hl.
  destruct (fields is_dot t) as [a fs]. cbn [fst snd] in *.
  destruct fs as [|b [|c [|d [|e r]]]]; try discriminate.
  apply andb_prop in H as [H Hd]. apply andb_prop in H as [H Hc']. apply andb_prop in H as [Ha Hb].
  apply octet_props in Ha as [Ha1 Ha2]. apply octet_props in Hb as [Hb1 Hb2].
  apply octet_props in Hc' as [Hc1 Hc2]. apply octet_props in Hd as [Hd1 Hd2].
  split.
  - apply Hc; [exact Ha1|]. cbn [forallb]. now rewrite Hb1, Hc1, Hd1.
  - cbn [total_len] in Hl. lia.
Qed.

Lemma utf8_encode_ascii t : forallb (fun c => (0 <=? c) && (c <? 128)) t = true -> utf8_encode t = Ok t.
Proof.
  induction t as [|c r IH]; cbn [forallb utf8_encode]; [reflexivity|].
  intros H. apply andb_prop in H as [H1 H2]. unfold utf8_char.
  replace (c <? 0) with false by lia. replace (c <? 128) with true by lia.
  rewrite (IH H2). reflexivity.
Qed.



Lemma link_ok l k : classify_link l = LinkOk k ->
  port_link_bytes (LinkStr l) = Ok (link_bytes k) /\ wf_link k = true
  /\ (1 <= List.length (link_bytes k) <= 15)%nat.
Proof.
  unfold classify_link. destruct (isdigit l) eqn:Hd.
  - destruct (isdigit_dval l Hd) as [Hv Hp]. destruct (numeral_ok l) eqn:En; [|discriminate]. cbn [negb].
    destruct (dval l <=? 255) eqn:E; [|discriminate].
    intros H. injection H as <-. cbn [port_link_bytes link_bytes wf_link List.length]. rewrite Hd, Hv.
    unfold numeral_ok, NUMERAL_LIMIT in En. unfold len, int_max_str_digits. rewrite En.
    rewrite USINT_encode_byte by lia. repeat split; lia.
  - destruct (existsb is_colon l); [discriminate|]. destruct (strict_quad l) eqn:Eq; [|discriminate].
    intros H. injection H as <-. cbn [port_link_bytes link_bytes wf_link]. rewrite Hd, quad_bridge, Eq.
    destruct (quad_props l Eq) as [Hc Hl]. split; [|split; [reflexivity|lia]].
    apply utf8_encode_ascii. revert Hc. apply forallb_impl. intros c.
    unfold is_ascii_digit, is_dot, DOT. lia.
Qed.

Lemma link_bad l c : classify_link l = LinkBad c -> exists e, port_link_bytes (LinkStr l) = Err e.
Proof.
  unfold classify_link. destruct (isdigit l) eqn:Hd.
  - destruct (isdigit_dval l Hd) as [Hv Hp]. destruct (numeral_ok l) eqn:En; [|discriminate]. cbn [negb].
    destruct (dval l <=? 255) eqn:E; [discriminate|].
    intros _. cbn [port_link_bytes]. rewrite Hd, Hv.
    unfold numeral_ok, NUMERAL_LIMIT in En. unfold len, int_max_str_digits. rewrite En.
    rewrite USINT_encode_big by lia. eauto.
  - destruct (existsb is_colon l); [discriminate|]. destruct (strict_quad l) eqn:Eq; [discriminate|].
    intros _. cbn [port_link_bytes]. rewrite Hd, quad_bridge, Eq. eauto.
Qed.

(* ---------------------------------------------------------------- one hop *)
Lemma encode_port_unfold port link :
  encode_port true port link =
  (let* p := resolve port in
   let* lb := port_link_bytes link in
   let* (p1, extb) := (if 14 <? p then let* e := UINT_encode p in Ok (15, e) else Ok (p, [])) in
   let* (p', lenb) := (if 1 <? len lb
                       then let* l := USINT_encode (len lb) in Ok (Z.lor p1 port_extended_link, l)
                       else Ok (p1, [])) in
   let* pb := USINT_encode p' in
   let s := pb ++ lenb ++ extb ++ lb in
   Ok (s ++ (if odd_len s then [0] else []))).
Proof. reflexivity. Qed.

Lemma lor16 n : 1 <= n <= 14 -> Z.lor n 16 = n + 16.
Proof.
  intros H. assert (n = 1 \/ n = 2 \/ n = 3 \/ n = 4 \/ n = 5 \/ n = 6 \/ n = 7 \/ n = 8 \/ n = 9
                    \/ n = 10 \/ n = 11 \/ n = 12 \/ n = 13 \/ n = 14) as Hn by lia.
  repeat (destruct Hn as [->|Hn]; [reflexivity|]). now subst.
Qed.

(* what the encoder makes of a resolved port number and link bytes: a function of the hop alone *)
Definition port_tail (p : Z) (lb : list Z) : res (list Z) :=
  let* (p1, extb) := (if 14 <? p then let* e := UINT_encode p in Ok (15, e) else Ok (p, [])) in
  let* (p', lenb) := (if 1 <? len lb
                       then let* l := USINT_encode (len lb) in Ok (Z.lor p1 port_extended_link, l)
                       else Ok (p1, [])) in
  let* pb := USINT_encode p' in
  let s := pb ++ lenb ++ extb ++ lb in
  Ok (s ++ (if odd_len s then [0] else [])).
Definition model_hop (h : hop) : res (list Z) :=
  wrap_all DataError (port_tail (h_port h) (link_bytes (h_link h))).

Lemma hop_gen p l h : classify_hop p l = HOk h ->
  exists pt, port_of_text p = Ok pt
             /\ encode_seg true (Port pt (LinkStr l)) = model_hop h /\ wf_hop h = true.
Proof.
  unfold classify_hop. destruct (classify_port p) as [n| |] eqn:Ep; try discriminate;
    destruct (classify_link l) as [k| |c] eqn:El; try discriminate.
  intros H. injection H as <-.
  destruct (resolve_ok p n Ep) as [pt [Hpt [Hr Hn]]]. destruct (link_ok l k El) as [Hl [Hwf Hlen]].
  exists pt. split; [exact Hpt|].
  split; [|unfold wf_hop; cbn [h_port h_link]; rewrite Hwf; lia].
  cbn [encode_seg]. rewrite encode_port_unfold, Hr, Hl. reflexivity.
Qed.

Lemma link_bytes_len k : wf_link k = true -> (1 <= List.length (link_bytes k) <= 15)%nat.
Proof.
  destruct k as [n|t]; cbn [wf_link link_bytes List.length]; intros H; [lia|].
  destruct (quad_props t H) as [_ Hl]. lia.
Qed.

Lemma UINT_encode_word z : 0 <= z <= 65535 -> UINT_encode z = Ok [z mod 256; z / 256].
Proof.
  intros H. unfold UINT_encode, uint_encode, in_urange, pow256.
  replace ((0 <=? z) && (z <? 256 ^ Z.of_nat 2)) with true by (change (256 ^ Z.of_nat 2) with 65536; lia).
  cbn [le_enc]. f_equal. f_equal. f_equal. lia.
Qed.

(* for every CIP port number 1..65535 (identifier 1..14, or 15 + the 16-bit extended port number)
   the encoder emits the reference wire form of the hop *)
Lemma model_hop_ok h : wf_hop h = true -> model_hop h = Ok (hop_bytes h).
Proof.
  unfold wf_hop. intros Hw. apply andb_prop in Hw as [Hp Hl]. pose proof (link_bytes_len _ Hl) as Hlen.
  unfold PMAX in Hp. unfold model_hop, port_tail, hop_bytes, len, tlen.
  destruct (h_port h <? 15) eqn:Esm.
  - replace (14 <? h_port h) with false by lia. cbn [bind].
    destruct (1 <? Z.of_nat (List.length (link_bytes (h_link h)))) eqn:Ebig.
    + rewrite USINT_encode_byte by lia. cbn [bind]. unfold port_extended_link. rewrite lor16 by lia.
      rewrite USINT_encode_byte by lia. cbn [bind wrap_all]. unfold odd_len. reflexivity.
    + cbn [bind]. rewrite USINT_encode_byte by lia. cbn [bind wrap_all]. unfold odd_len.
      rewrite Z.add_0_r. reflexivity.
  - replace (14 <? h_port h) with true by lia. rewrite UINT_encode_word by lia. cbn [bind].
    destruct (1 <? Z.of_nat (List.length (link_bytes (h_link h)))) eqn:Ebig.
    + rewrite USINT_encode_byte by lia. cbn [bind]. unfold port_extended_link.
      change (Z.lor 15 16) with (15 + 16).
      rewrite USINT_encode_byte by lia. cbn [bind wrap_all]. unfold odd_len. reflexivity.
    + cbn [bind]. rewrite USINT_encode_byte by lia. cbn [bind wrap_all]. unfold odd_len.
      rewrite Z.add_0_r. reflexivity.
Qed.

Lemma hop_bad p l c : classify_hop p l = HBad c ->
  (exists e, port_of_text p = Err e)
  \/ (exists pt, port_of_text p = Ok pt /\ encode_seg true (Port pt (LinkStr l)) = Err DataError).
Proof.
  unfold classify_hop.
  destruct (classify_port p) as [n| |] eqn:Ep.
  - destruct (classify_link l) as [k| |c'] eqn:El; try discriminate. intros _.
    destruct (resolve_ok p n Ep) as [pt [Hpt [Hr _]]]. destruct (link_bad l c' El) as [e He].
    right. exists pt. split; [exact Hpt|]. cbn [encode_seg]. rewrite encode_port_unfold, Hr, He. reflexivity.
  - destruct (classify_link l) as [k| |c'] eqn:El; try discriminate. intros _.
    destruct (resolve_notbad p) as [[e He]|[pt [k [Hpt Hr]]]]; [congruence|left; eauto|].
    destruct (link_bad l c' El) as [e He].
    right. exists pt. split; [exact Hpt|]. cbn [encode_seg]. rewrite encode_port_unfold, Hr, He. reflexivity.
  - intros _. destruct (resolve_bad p Ep) as [Hpt Hr]. right. exists (inr p). split; [exact Hpt|].
    cbn [encode_seg]. rewrite encode_port_unfold, Hr. reflexivity.
Qed.

Lemma encode_seg_port_err port link e :
  encode_seg true (Port port link) = Err e -> e = DataError.
Proof. cbn [encode_seg]. destruct (encode_port true port link); cbn; congruence. Qed.
