(* Proofs/ResultsP.v — C03, generic part and reads: the results dict of _send_requests is exactly the
   bindings of its packets; with the plan partition (Proofs/PlanP.v) every valid request id is bound
   exactly once; the result list of read() is a MAP over the requests. *)
From PV Require Import Base.Bytes Base.Proto Base.Res Base.PyStr Gen.LogixParseGen.
From PV Require Import Model.LogixParse Model.LogixPlan Model.Path Model.LogixResults Proofs.PlanP Proofs.LogixParseP.
From Coq Require Import Permutation ZifyBool.
Ltac Zify.zify_post_hook ::= Z.to_euclidean_division_equations.
Open Scope Z_scope.

(* ------------------------------------------------------------------ small facts *)
Definition results_of (r : result) : list tag := match r with ROne t => [t] | RList l => l end.

Lemma results_of_shape l : results_of (shape l) = l.
Proof. destruct l as [|a [|b l]]; reflexivity. Qed.

Lemma shape_one l : length l = 1%nat -> exists t, shape l = ROne t.
Proof. destruct l as [|a [|b l]]; cbn; intros H; try discriminate. eauto. Qed.

Lemma shape_list l : length l <> 1%nat -> shape l = RList l.
Proof. destruct l as [|a [|b l]]; cbn; intros H; try reflexivity. congruence. Qed.

(* Tag.__bool__ *)
Theorem tag_truthy_iff t :
  truthy t = true <-> (val_is_none (t_value t) = false /\ t_error t = None).
Proof.
  unfold truthy. destruct (val_is_none (t_value t)), (t_error t); cbn; split; intros H; try discriminate;
    try (destruct H; discriminate); auto.
Qed.

Lemma exc_tag_falsy r k : truthy (exc_tag r k) = false.
Proof. reflexivity. Qed.

Lemma map_res_ok {A B} (f : A -> res B) : forall l l', map_res f l = Ok l' ->
  length l' = length l /\ forall k da db, (k < length l)%nat -> f (nth k l da) = Ok (nth k l' db).
Proof.
  induction l as [|a l IH]; intros l' H; cbn in H.
  - inversion H. split; [reflexivity|]. intros k da db Hk. cbn in Hk. lia.
  - destruct (f a) as [b|e] eqn:Ea; cbn in H; [|discriminate].
    destruct (map_res f l) as [bs|e] eqn:El; cbn in H; [|discriminate]. inversion H; subst l'.
    destruct (IH bs eq_refl) as [HL HN]. split; [cbn; now rewrite HL|].
    intros k da db Hk. destruct k as [|k]; cbn; [exact Ea|]. apply HN. cbn in Hk. lia.
Qed.

Lemma map_res_ok_map {A B C} (f : A -> res B) (g : B -> C) (h : A -> C) : forall l l',
  map_res f l = Ok l' -> (forall a b, In a l -> f a = Ok b -> g b = h a) -> map g l' = map h l.
Proof.
  induction l as [|a l IH]; intros l' H Hg; cbn in H.
  - inversion H. reflexivity.
  - destruct (f a) as [b|e] eqn:Ea; cbn in H; [|discriminate].
    destruct (map_res f l) as [bs|e] eqn:El; cbn in H; [|discriminate]. inversion H; subst l'.
    cbn. f_equal; [apply Hg; [now left | exact Ea]|]. apply IH; [reflexivity|].
    intros a' b' Hin. apply Hg. now right.
Qed.

Definition res_ok {A} (r : res A) : bool := match r with Ok _ => true | Err _ => false end.

Lemma map_res_total {A B} (f : A -> res B) : forall l,
  forallb (fun a => res_ok (f a)) l = true -> exists l', map_res f l = Ok l'.
Proof.
  induction l as [|a l IH]; intros H; cbn in *; [eauto|].
  apply andb_prop in H. destruct H as [Ha Hl]. destruct (f a) as [b|e]; [|discriminate].
  destruct (IH Hl) as [l' ->]. cbn. eauto.
Qed.

Lemma map_res_fails {A B} (f : A -> res B) : forall l,
  forallb (fun a => res_ok (f a)) l = false -> exists e, map_res f l = Err e.
Proof.
  induction l as [|a l IH]; intros H; cbn in *; [discriminate|].
  destruct (f a) as [b|e]; cbn in *; [|eauto].
  destruct (IH H) as [e ->]. cbn. eauto.
Qed.

(* ------------------------------------------------------------------ results dicts *)
Lemma rlookup_In i t : forall rs, rlookup i rs = Some t -> In (i, t) rs.
Proof.
  induction rs as [|[k v] rs IH]; cbn; intros H; [discriminate|].
  destruct (k =? i) eqn:E; [inversion H; left; f_equal; lia | right; auto].
Qed.

Lemma rlookup_NoDup_In i t : forall rs, NoDup (map fst rs) -> In (i, t) rs -> rlookup i rs = Some t.
Proof.
  induction rs as [|[k v] rs IH]; cbn; intros ND H; [contradiction|].
  inversion ND as [|? ? Hn ND']; subst. destruct H as [H|H].
  - inversion H; subst. now rewrite Z.eqb_refl.
  - destruct (k =? i) eqn:E; [|auto].
    exfalso. apply Hn. assert (k = i) by lia. subst. apply (in_map fst) in H. exact H.
Qed.

Lemma rlookup_not_In i : forall rs, ~ In i (map fst rs) -> rlookup i rs = None.
Proof.
  induction rs as [|[k v] rs IH]; cbn; intros H; [reflexivity|].
  destruct (k =? i) eqn:E; [exfalso; apply H; left; lia | apply IH; tauto].
Qed.

(* the bindings one packet adds, in the order they are made *)
Definition opt_binding (name : option text) (i : Z) (r : reply) : list (Z * tag) :=
  match name with Some n => [(i, tag_of_reply n r)] | None => [] end.
Fixpoint multi_bindings (names : Z -> option text) (ids : list Z) (reps : list reply) : list (Z * tag) :=
  match ids, reps with
  | i :: ids', r :: reps' => opt_binding (names i) i r ++ multi_bindings names ids' reps'
  | _, _ => []
  end.
Definition packet_results (names : Z -> option text) (P : peer) (pk : packet) : list (Z * tag) :=
  match pk with
  | PSingle i => opt_binding (names i) i (p_one P i)
  | PFrag i => opt_binding (names i) i (p_one P i)
  | PMulti ids => multi_bindings names ids (pad_replies ids (p_multi P ids) (missing_reply (p_multi_error P ids)))
  | PRmw rid ids => [(rid, tag_of_reply (rmw_tag names ids) (p_one P rid))]
  end.

Lemma set_one_eq name i r rs : set_one name i r rs = rev (opt_binding name i r) ++ rs.
Proof. destruct name; reflexivity. Qed.

Lemma set_multi_eq names : forall ids reps rs,
  set_multi names ids reps rs = rev (multi_bindings names ids reps) ++ rs.
Proof.
  induction ids as [|i ids IH]; intros reps rs; [reflexivity|].
  destruct reps as [|r reps]; [reflexivity|]. cbn [set_multi multi_bindings].
  rewrite IH, set_one_eq, rev_app_distr, <- app_assoc. reflexivity.
Qed.

Lemma send_packet_eq names P rs pk : send_packet names P rs pk = rev (packet_results names P pk) ++ rs.
Proof. destruct pk; cbn [send_packet packet_results]; try apply set_one_eq; [apply set_multi_eq | reflexivity]. Qed.

Lemma send_fold_eq names P : forall ps acc,
  fold_left (send_packet names P) ps acc = rev (flat_map (packet_results names P) ps) ++ acc.
Proof.
  induction ps as [|pk ps IH]; intros acc; [reflexivity|].
  cbn [fold_left flat_map]. rewrite IH, send_packet_eq, rev_app_distr, <- app_assoc. reflexivity.
Qed.

(* the results dict of _send_requests = the bindings of its packets (newest first) *)
Lemma send_requests_eq names P ps :
  send_requests names P ps = rev (flat_map (packet_results names P) ps).
Proof. unfold send_requests. now rewrite send_fold_eq, app_nil_r. Qed.

(* every binding of a non-RMW key is a Tag named after THAT request's plc tag *)
Lemma multi_bindings_named names : forall ids reps i t, In (i, t) (multi_bindings names ids reps) ->
  exists n r, names i = Some n /\ t = tag_of_reply n r.
Proof.
  induction ids as [|j ids IH]; intros reps i t H; [contradiction|].
  destruct reps as [|r reps]; [contradiction|]. cbn [multi_bindings] in H. apply in_app_or in H.
  destruct H as [H|H]; [|eapply IH, H].
  unfold opt_binding in H. destruct (names j) eqn:E; [|contradiction].
  destruct H as [H|[]]. inversion H; subst. eauto.
Qed.

Definition is_rmw (pk : packet) : bool := match pk with PRmw _ _ => true | _ => false end.

Lemma packet_results_named names P pk i t : is_rmw pk = false -> In (i, t) (packet_results names P pk) ->
  exists n r, names i = Some n /\ t = tag_of_reply n r.
Proof.
  destruct pk; cbn [is_rmw packet_results]; intros HR H; try discriminate.
  - eapply multi_bindings_named, H.
  - unfold opt_binding in H. destruct (names id) eqn:E; [|contradiction]. destruct H as [H|[]]. inversion H; subst. eauto.
  - unfold opt_binding in H. destruct (names id) eqn:E; [|contradiction]. destruct H as [H|[]]. inversion H; subst. eauto.
Qed.

Lemma send_requests_named names P ps i t : forallb (fun pk => negb (is_rmw pk)) ps = true ->
  rlookup i (send_requests names P ps) = Some t -> exists n r, names i = Some n /\ t = tag_of_reply n r.
Proof.
  intros HR H. apply rlookup_In in H. rewrite send_requests_eq, <- in_rev in H.
  apply in_flat_map in H. destruct H as [pk [Hpk Hin]].
  rewrite forallb_forall in HR. specialize (HR pk Hpk).
  eapply packet_results_named; [|exact Hin]. now destruct (is_rmw pk).
Qed.

(* ---- independent peers: each service of a multi-service packet is answered like the same service alone *)
Definition independent (P : peer) : Prop := forall ids, p_multi P ids = map (p_one P) ids.

Lemma pad_replies_full m : forall (ids : list Z) (one : Z -> reply), pad_replies ids (map one ids) m = map one ids.
Proof. induction ids as [|i ids IH]; intros one; cbn; [reflexivity | now rewrite IH]. Qed.

Lemma multi_bindings_indep names (one : Z -> reply) (name : Z -> text) : forall ids,
  (forall i, In i ids -> names i = Some (name i)) ->
  multi_bindings names ids (map one ids) = map (fun i => (i, tag_of_reply (name i) (one i))) ids.
Proof.
  induction ids as [|i ids IH]; intros H; [reflexivity|]. cbn [map multi_bindings].
  rewrite (H i (or_introl eq_refl)). cbn [opt_binding app]. f_equal. apply IH. intros j Hj. apply H. now right.
Qed.

(* keys a packet binds *)
Definition stored_keys (pk : packet) : list Z :=
  match pk with PMulti ids => ids | PSingle i => [i] | PFrag i => [i] | PRmw rid _ => [rid] end.

Lemma packet_results_keys names P (name : Z -> text) pk : independent P ->
  (forall i, In i (packet_ids pk) -> names i = Some (name i)) ->
  map fst (packet_results names P pk) = stored_keys pk.
Proof.
  intros HI HN. destruct pk as [ids|i|i|rid ids]; cbn [packet_results stored_keys packet_ids] in *.
  - rewrite HI, pad_replies_full, (multi_bindings_indep names (p_one P) name ids HN), map_map. cbn [fst]. apply map_id.
  - rewrite (HN i (or_introl eq_refl)). reflexivity.
  - rewrite (HN i (or_introl eq_refl)). reflexivity.
  - reflexivity.
Qed.

Lemma flat_map_keys names P (name : Z -> text) : independent P -> forall ps,
  (forall i, In i (plan_ids ps) -> names i = Some (name i)) ->
  map fst (flat_map (packet_results names P) ps) = flat_map stored_keys ps.
Proof.
  intros HI. induction ps as [|pk ps IH]; intros HN; [reflexivity|].
  cbn [flat_map]. rewrite map_app. f_equal.
  - apply (packet_results_keys names P name pk HI). intros i Hi. apply HN. unfold plan_ids. cbn [flat_map]. apply in_or_app. now left.
  - apply IH. intros i Hi. apply HN. unfold plan_ids. cbn [flat_map]. apply in_or_app. now right.
Qed.

(* the binding of a request id that is in a non-RMW packet of the plan *)
Lemma send_lookup names P (name : Z -> text) ps i :
  independent P ->
  (forall j, In j (plan_ids ps) -> names j = Some (name j)) ->
  NoDup (flat_map stored_keys ps) ->
  (exists pk, In pk ps /\ is_rmw pk = false /\ In i (packet_ids pk)) ->
  rlookup i (send_requests names P ps) = Some (tag_of_reply (name i) (p_one P i)).
Proof.
  intros HI HN ND [pk [Hpk [HR Hi]]].
  rewrite send_requests_eq. apply rlookup_NoDup_In.
  - rewrite map_rev. apply NoDup_rev. rewrite (flat_map_keys names P name HI ps HN). exact ND.
  - rewrite <- in_rev. apply in_flat_map. exists pk. split; [exact Hpk|].
    assert (HNi : names i = Some (name i)).
    { apply HN. unfold plan_ids. apply in_flat_map. eauto. }
    destruct pk as [ids|j|j|rid ids]; cbn [is_rmw packet_ids packet_results] in *; try discriminate.
    + rewrite HI, pad_replies_full, (multi_bindings_indep names (p_one P) name ids).
      * apply in_map_iff. exists i. split; [reflexivity | exact Hi].
      * intros j Hj. apply HN. unfold plan_ids. apply in_flat_map. exists (PMulti ids). split; [exact Hpk | exact Hj].
    + destruct Hi as [<-|[]]. rewrite HNi. now left.
    + destruct Hi as [<-|[]]. rewrite HNi. now left.
Qed.

(* ------------------------------------------------------------------ finding a request by id *)
Lemma find_q_In : forall qs q, NoDup (map q_id qs) -> In q qs -> find_q qs (q_id q) = Some q.
Proof.
  induction qs as [|a qs IH]; intros q ND H; [contradiction|]. cbn [find_q].
  cbn [map] in ND. inversion ND as [|? ? Hn ND']; subst. destruct H as [->|H].
  - now rewrite Z.eqb_refl.
  - destruct (q_id a =? q_id q) eqn:E; [|apply IH; assumption].
    exfalso. apply Hn. assert (q_id a = q_id q) by lia. rewrite H0. now apply in_map.
Qed.

(* ------------------------------------------------------------------ the read plan *)
Lemma read_build_multi_no_rmw conn rr : forallb (fun pk => negb (is_rmw pk)) (read_build_multi conn rr) = true.
Proof.
  unfold read_build_multi. rewrite forallb_app. apply andb_true_intro. split.
  - destruct (groups conn _) as [|g0 gs]; [reflexivity|]. destruct (is_nil g0); [reflexivity|].
    apply forallb_forall. intros pk H. apply in_map_iff in H. destruct H as [g [<- _]]. reflexivity.
  - apply forallb_forall. intros pk H. apply in_map_iff in H. destruct H as [g [<- _]]. reflexivity.
Qed.

Lemma filter_map_single_no_rmw conn : forall rr,
  forallb (fun pk => negb (is_rmw pk)) (filter_map (read_build_single conn) rr) = true.
Proof.
  induction rr as [|r rr IH]; [reflexivity|]. cbn [filter_map]. unfold read_build_single at 1.
  destruct (r_err r); [exact IH|]. destruct (r_data r + r_msg r >? conn); cbn; exact IH.
Qed.

Lemma read_plan_no_rmw conn micro rr :
  forallb (fun pk => negb (is_rmw pk)) (read_build_requests conn micro rr) = true.
Proof.
  unfold read_build_requests. destruct (negb (length rr =? 1)%nat && negb micro);
    [apply read_build_multi_no_rmw | apply filter_map_single_no_rmw].
Qed.

Lemma no_rmw_keys : forall ps, forallb (fun pk => negb (is_rmw pk)) ps = true -> flat_map stored_keys ps = plan_ids ps.
Proof.
  induction ps as [|pk ps IH]; intros H; [reflexivity|]. cbn [forallb] in H. apply andb_prop in H. destruct H as [Hp Hr].
  unfold plan_ids in *. cbn [flat_map]. rewrite (IH Hr). f_equal. destruct pk; try reflexivity. discriminate.
Qed.

(* a request that gets a packet: parsed, and its packet can be built *)
Definition rq_ok (c : cfg) (q : preq) : bool := negb (r_err (mk_rreq c q)).

Lemma mk_rreq_id c q : r_id (mk_rreq c q) = q_id q.
Proof. unfold mk_rreq. destruct (q_parsed q) as [p|e]; [destruct (read_msg_len c p)|]; reflexivity. Qed.

Lemma rq_ok_inv c q : rq_ok c q = true -> exists p m, q_parsed q = inl p /\ read_msg_len c p = Ok m.
Proof.
  unfold rq_ok, mk_rreq. destruct (q_parsed q) as [p|e]; [|cbn; discriminate].
  destruct (read_msg_len c p) as [m|x] eqn:E; cbn; intros H; [exists p, m; split; [reflexivity | exact E] | discriminate].
Qed.

Lemma rvalid_ids c : forall qs, map r_id (rvalid (map (mk_rreq c) qs)) = map q_id (filter (rq_ok c) qs).
Proof.
  unfold rvalid, rq_ok. induction qs as [|q qs IH]; [reflexivity|]. cbn [map filter].
  destruct (negb (r_err (mk_rreq c q))); cbn [map]; [f_equal; [apply mk_rreq_id|] |]; exact IH.
Qed.

Lemma NoDup_map_filter {A} (f : A -> Z) (g : A -> bool) : forall l, NoDup (map f l) -> NoDup (map f (filter g l)).
Proof.
  induction l as [|a l IH]; intros H; [constructor|]. cbn [map] in H. inversion H as [|? ? Hn Hd]; subst.
  cbn [filter]. destruct (g a); [|auto]. cbn [map]. constructor; [|auto].
  intros Hin. apply Hn. apply in_map_iff in Hin. destruct Hin as [x [Hx Hin]]. apply filter_In in Hin.
  apply in_map_iff. exists x. tauto.
Qed.

(* plan partition, in the form used here: the ids bound by the read plan are exactly the ids of the
   valid requests, each once *)
Lemma read_plan_ids c qs : NoDup (map q_id qs) ->
  let plan := read_build c qs in
  NoDup (plan_ids plan) /\ (forall i, In i (plan_ids plan) <-> In i (map q_id (filter (rq_ok c) qs)))
  /\ forallb (fun pk => negb (is_rmw pk)) plan = true.
Proof.
  intros ND plan. unfold plan, read_build.
  pose proof (read_plan_partition (c_conn c) (c_micro800 c) (map (mk_rreq c) qs)) as PP.
  rewrite (rvalid_ids c qs) in PP. split; [|split].
  - eapply Permutation_NoDup; [apply Permutation_sym, PP|]. apply NoDup_map_filter, ND.
  - intros i. split; intros Hi; [eapply Permutation_in; [exact PP | exact Hi] | eapply Permutation_in; [apply Permutation_sym, PP | exact Hi]].
  - apply read_plan_no_rmw.
Qed.

Lemma in_plan_packet ps i : In i (plan_ids ps) -> exists pk, In pk ps /\ In i (packet_ids pk).
Proof. unfold plan_ids. intros H. apply in_flat_map in H. exact H. Qed.

(* ------------------------------------------------------------------ read(): shape, names (any peer) *)
Lemma run_read_eq c db P reqs r : run_read c db P reqs = Ok r ->
  r = shape (map (assemble_read c (send_requests (plc_of (parse_requested_tags db RwRead reqs)) P
                                     (read_build c (parse_requested_tags db RwRead reqs))))
                 (parse_requested_tags db RwRead reqs)).
Proof. unfold run_read. intros H; inversion H. reflexivity. Qed.

Theorem read_result_shape c db P reqs r : run_read c db P reqs = Ok r ->
  length (results_of r) = length reqs
  /\ (length reqs = 1%nat -> exists t, r = ROne t)
  /\ (length reqs <> 1%nat -> exists l, r = RList l /\ length l = length reqs).
Proof.
  intros H. rewrite (run_read_eq _ _ _ _ _ H).
  set (l := map _ _). assert (HL : length l = length reqs) by (unfold l; now rewrite map_length, parse_requested_length).
  rewrite results_of_shape. split; [exact HL|]. split; intros Hn.
  - apply shape_one. congruence.
  - exists l. split; [apply shape_list; congruence | exact HL].
Qed.

Lemma tag_of_reply_name n r : t_tag (tag_of_reply n r) = ReqText n.
Proof. unfold tag_of_reply. now destruct (rp_ok r). Qed.

(* the name of one assembled result, whatever the results dict holds for other ids *)
Lemma assemble_read_ok_name req p r :
  t_tag r = ReqText (plc_tag p) ->
  (bit p = None -> is_dword_name (tag_info p) = false -> plc_tag p = user_tag p) ->
  let t := assemble_read_ok req p r in
  (t_tag t = ReqText (user_tag p) \/ (t_tag t = req /\ truthy t = false)).
Proof.
  intros Hn Hp. unfold assemble_read_ok.
  destruct (truthy r); [|left; reflexivity].
  destruct (is_dword_name (tag_info p)) eqn:ED; cbn [negb].
  - destruct (bool_elements p).
    + destruct (py_slice _ _ _) as [l|[| | | | |k]]; cbn; auto.
    + destruct (py_index _ _) as [l|[| | | | |k]]; cbn; auto.
  - destruct (bit p) eqn:EB.
    + destruct (value_bit _ _) as [l|[| | | | |k]]; cbn; auto.
    + left. rewrite Hn, Hp; auto.
Qed.

Theorem read_result_names c db P reqs r : run_read c db P reqs = Ok r ->
  forall k, (k < length reqs)%nat ->
    let t := nth k (results_of r) (exc_tag (ReqOther TypeError) TypeError) in
    let rq := nth k reqs (ReqOther TypeError) in
    (t_tag t = rq /\ truthy t = false)
    \/ (exists s, rq = ReqText s /\ t_tag t = ReqText (drop_count s)).
Proof.
  intros H k Hk. rewrite (run_read_eq _ _ _ _ _ H). rewrite results_of_shape.
  set (qs := parse_requested_tags db RwRead reqs) in *. set (plan := read_build c qs).
  assert (ND : NoDup (map q_id qs)) by apply parse_requested_ids_NoDup.
  assert (HLq : length qs = length reqs) by apply parse_requested_length.
  rewrite (nth_indep _ _ (assemble_read c (send_requests (plc_of qs) P plan) dflt_q)) by (rewrite map_length; lia).
  rewrite map_nth.
  pose proof (parse_requested_nth db RwRead reqs k dflt_q Hk) as Hnth. fold qs in Hnth. rewrite Hnth.
  assert (Hq : In (nth k qs dflt_q) qs) by (apply nth_In; lia). rewrite Hnth in Hq.
  set (rq := nth k reqs (ReqOther TypeError)) in *.
  set (q := mkPreq (Z.of_nat k) rq (parse_request_obj db RwRead rq)) in *.
  cbn zeta. unfold assemble_read. cbn [q_parsed q_request q_id q].
  destruct (parse_request_obj db RwRead rq) as [p|e] eqn:EP; [|left; split; reflexivity].
  destruct (read_msg_len c p) as [m|x]; [|left; split; reflexivity].
  destruct (rlookup (Z.of_nat k) _) as [t0|] eqn:EL; [|left; split; reflexivity].
  destruct (read_plan_ids c qs ND) as [_ [_ HNR]]. fold plan in HNR.
  destruct (send_requests_named _ _ _ _ _ HNR EL) as [n [rp [Hn ->]]].
  unfold plc_of in Hn. change (Z.of_nat k) with (q_id q) in Hn. rewrite (find_q_In qs q ND Hq) in Hn.
  cbn [q_parsed q] in Hn. try rewrite EP in Hn. inversion Hn; subst n.
  destruct rq as [s|x] eqn:ER; cbn [parse_request_obj] in EP; [|discriminate].
  pose proof (user_tag_is_request_without_count _ _ _ _ EP) as HU.
  destruct (assemble_read_ok_name (ReqText s) p (tag_of_reply (plc_tag p) rp) (tag_of_reply_name _ _)) as [A|A].
  - intros Hb Hd. eapply plc_tag_is_user_tag; [exact EP | exact Hb |].
    destruct (is_dword_dt (tag_info p)) eqn:E; [|reflexivity]. apply is_dword_dt_name in E. congruence.
  - right. exists s. split; [reflexivity|]. now rewrite A, HU.
  - left. exact A.
Qed.

Lemma exn_name_nonempty e : exn_name e <> [].
Proof. destruct e as [| | | | |k]; try discriminate. destruct k; discriminate. Qed.

Lemma build_err_tag_falsy rq pre e :
  truthy (build_err_tag rq pre e) = false /\ t_tag (build_err_tag rq pre e) = rq
  /\ exists txt, t_error (build_err_tag rq pre e) = Some txt /\ txt <> [].
Proof.
  split; [reflexivity|]. split; [reflexivity|]. eexists. split; [reflexivity|].
  intros H. apply app_eq_nil in H. destruct H as [_ H]. exact (exn_name_nonempty e H).
Qed.

(* a request whose parsing failed, or whose packet cannot be built (an index that is not a number or
   not a UDINT, an element count that is not a UINT): a falsy Tag carrying the request and a non-empty error *)
Theorem read_parse_error_falsy c db P reqs r : run_read c db P reqs = Ok r ->
  forall k, (k < length reqs)%nat ->
    let t := nth k (results_of r) (exc_tag (ReqOther TypeError) TypeError) in
    let rq := nth k reqs (ReqOther TypeError) in
    (forall e, parse_request_obj db RwRead rq = inr e ->
       t = mkTag rq VNone None (Some (perr_text e)) /\ truthy t = false /\ perr_text e <> [])
    /\ (forall p e, parse_request_obj db RwRead rq = inl p -> read_msg_len c p = Err e ->
       t = build_err_tag rq err_build e /\ truthy t = false).
Proof.
  intros H k Hk. rewrite (run_read_eq _ _ _ _ _ H). rewrite results_of_shape.
  set (qs := parse_requested_tags db RwRead reqs) in *. set (plan := read_build c qs).
  rewrite (nth_indep _ _ (assemble_read c (send_requests (plc_of qs) P plan) dflt_q))
    by (rewrite map_length; unfold qs; rewrite parse_requested_length; lia).
  rewrite map_nth.
  pose proof (parse_requested_nth db RwRead reqs k dflt_q Hk) as Hnth. fold qs in Hnth. rewrite Hnth.
  cbn zeta. unfold assemble_read. cbn [q_parsed q_request]. split.
  - intros e ->. split; [reflexivity|]. split; [reflexivity | apply perr_text_nonempty].
  - intros p e -> ->. split; reflexivity.
Qed.

(* ------------------------------------------------------------------ read(): independent peers *)
Definition no_reply_ : reply := mkReply false VNone None [].

(* the peer of a call whose reply to the service of request i is a function [f] of that request alone *)
Definition reply_of (f : parsed -> reply) (qs : list preq) (i : Z) : reply :=
  match find_q qs i with
  | Some q => match q_parsed q with inl p => f p | inr _ => no_reply_ end
  | None => no_reply_
  end.
Definition peer_of (f : parsed -> reply) (qs : list preq) : peer :=
  mkPeer (reply_of f qs) (fun ids => map (reply_of f qs) ids) (fun _ => None).

Lemma peer_of_independent f qs : independent (peer_of f qs).
Proof. intros ids. reflexivity. Qed.

(* what read() returns for ONE request, as a function of that request only *)
Definition read_outcome (c : cfg) (f : parsed -> reply) (rq : request) (pr : parsed + perr) : tag :=
  match pr with
  | inr e => mkTag rq VNone None (Some (perr_text e))
  | inl p => match read_msg_len c p with
             | Err e => build_err_tag rq err_build e
             | Ok _ => assemble_read_ok rq p (tag_of_reply (plc_tag p) (f p))
             end
  end.

Definition name_of (qs : list preq) (i : Z) : text := match plc_of qs i with Some n => n | None => [] end.

Lemma plan_names c qs : NoDup (map q_id qs) ->
  forall j, In j (plan_ids (read_build c qs)) -> plc_of qs j = Some (name_of qs j).
Proof.
  intros ND j Hj. destruct (read_plan_ids c qs ND) as [_ [HI _]]. apply HI in Hj.
  apply in_map_iff in Hj. destruct Hj as [q [<- Hq]]. apply filter_In in Hq. destruct Hq as [Hq Hok].
  unfold name_of, plc_of. rewrite (find_q_In qs q ND Hq). destruct (rq_ok_inv c q Hok) as [p [m [-> _]]]. reflexivity.
Qed.

Lemma read_lookup c qs f q p m : NoDup (map q_id qs) ->
  In q qs -> q_parsed q = inl p -> read_msg_len c p = Ok m ->
  rlookup (q_id q) (send_requests (plc_of qs) (peer_of f qs) (read_build c qs)) = Some (tag_of_reply (plc_tag p) (f p)).
Proof.
  intros ND Hq Hp Hm. destruct (read_plan_ids c qs ND) as [NDP [HI HNR]]. set (plan := read_build c qs) in *.
  assert (Hin : In (q_id q) (plan_ids plan)).
  { apply HI. apply in_map. apply filter_In. split; [exact Hq|]. unfold rq_ok, mk_rreq. now rewrite Hp, Hm. }
  rewrite (send_lookup (plc_of qs) (peer_of f qs) (name_of qs) plan (q_id q) (peer_of_independent f qs)
             (plan_names c qs ND)).
  - unfold name_of, plc_of. cbn [p_one peer_of]. unfold reply_of. rewrite (find_q_In qs q ND Hq), Hp. reflexivity.
  - rewrite (no_rmw_keys plan HNR). exact NDP.
  - destruct (in_plan_packet plan _ Hin) as [pk [Hpk Hi]]. exists pk. split; [exact Hpk|]. split; [|exact Hi].
    rewrite forallb_forall in HNR. specialize (HNR pk Hpk). now destruct (is_rmw pk).
Qed.

(* THE read theorem: against a peer answering each service independently, read() is a MAP over its
   requests of a function of the single request — one result per request, in request order, and
   the result of request k does not depend on the other requests of the call *)
Theorem read_results_map c db f reqs r :
  run_read c db (peer_of f (parse_requested_tags db RwRead reqs)) reqs = Ok r ->
  results_of r = map (fun rq => read_outcome c f rq (parse_request_obj db RwRead rq)) reqs.
Proof.
  intros H. rewrite (run_read_eq _ _ _ _ _ H). rewrite results_of_shape.
  set (qs := parse_requested_tags db RwRead reqs) in *. set (plan := read_build c qs).
  assert (ND : NoDup (map q_id qs)) by apply parse_requested_ids_NoDup.
  apply (nth_ext _ _ (exc_tag (ReqOther TypeError) TypeError) (exc_tag (ReqOther TypeError) TypeError)).
  { rewrite !map_length. apply parse_requested_length. }
  intros k Hk. rewrite map_length in Hk. assert (Hk' : (k < length reqs)%nat) by (unfold qs in Hk; now rewrite parse_requested_length in Hk).
  rewrite (nth_indep _ _ (assemble_read c (send_requests (plc_of qs) (peer_of f qs) plan) dflt_q)) by (rewrite map_length; exact Hk).
  rewrite map_nth.
  rewrite (nth_indep (map _ reqs) _ ((fun rq => read_outcome c f rq (parse_request_obj db RwRead rq)) (ReqOther TypeError))) by (rewrite map_length; exact Hk').
  rewrite (map_nth (fun rq => read_outcome c f rq (parse_request_obj db RwRead rq))).
  assert (Hq : In (nth k qs dflt_q) qs) by (apply nth_In; exact Hk).
  pose proof (parse_requested_nth db RwRead reqs k dflt_q Hk') as Hnth. fold qs in Hnth.
  rewrite Hnth in Hq |- *.
  set (rq := nth k reqs (ReqOther TypeError)) in *.
  set (q := mkPreq (Z.of_nat k) rq (parse_request_obj db RwRead rq)) in *.
  unfold assemble_read, read_outcome. cbn [q_parsed q_request q].
  destruct (parse_request_obj db RwRead rq) as [p|e] eqn:EP; [|reflexivity].
  destruct (read_msg_len c p) as [m|x] eqn:EM; [|reflexivity].
  unfold plan. rewrite (read_lookup c qs f q p m ND Hq); [reflexivity | reflexivity | exact EM].
Qed.

(* isolation: the outcome of request k in a call = its outcome when it is issued alone *)
Corollary read_isolation c db f reqs r k r1 :
  (k < length reqs)%nat ->
  run_read c db (peer_of f (parse_requested_tags db RwRead reqs)) reqs = Ok r ->
  run_read c db (peer_of f (parse_requested_tags db RwRead [nth k reqs (ReqOther TypeError)])) [nth k reqs (ReqOther TypeError)] = Ok r1 ->
  r1 = ROne (nth k (results_of r) (exc_tag (ReqOther TypeError) TypeError)).
Proof.
  intros Hk H H1. pose proof (read_results_map _ _ _ _ _ H) as E. pose proof (read_results_map _ _ _ _ _ H1) as E1.
  destruct (read_result_shape _ _ _ _ _ H1) as [_ [S1 _]]. destruct (S1 eq_refl) as [t ->].
  cbn [results_of map] in E1. inversion E1 as [Ht]. f_equal. rewrite E.
  rewrite (nth_indep _ _ ((fun rq => read_outcome c f rq (parse_request_obj db RwRead rq)) (ReqOther TypeError))) by (rewrite map_length; exact Hk).
  now rewrite (map_nth (fun rq => read_outcome c f rq (parse_request_obj db RwRead rq))).
Qed.

(* a controller error status (any reply that is not valid) for the service of request k:
   a falsy Tag carrying the user tag and the controller's error text *)
Theorem read_controller_error_falsy c db f reqs r k p m :
  (k < length reqs)%nat ->
  run_read c db (peer_of f (parse_requested_tags db RwRead reqs)) reqs = Ok r ->
  parse_request_obj db RwRead (nth k reqs (ReqOther TypeError)) = inl p -> read_msg_len c p = Ok m -> rp_ok (f p) = false ->
  nth k (results_of r) (exc_tag (ReqOther TypeError) TypeError)
  = mkTag (ReqText (user_tag p)) VNone None (Some (rp_error (f p))).
Proof.
  intros Hk H HP HM HF. rewrite (read_results_map _ _ _ _ _ H).
  rewrite (nth_indep _ _ ((fun rq => read_outcome c f rq (parse_request_obj db RwRead rq)) (ReqOther TypeError))) by (rewrite map_length; exact Hk).
  rewrite (map_nth (fun rq => read_outcome c f rq (parse_request_obj db RwRead rq))). rewrite HP.
  unfold read_outcome. rewrite HM. unfold assemble_read_ok, tag_of_reply. rewrite HF. reflexivity.
Qed.

(* ------------------------------------------------------------------ read(): no exception, for every request list *)
Theorem read_no_exception c db P reqs : exists r, run_read c db P reqs = Ok r.
Proof. unfold run_read. eauto. Qed.
