(* Proofs/CodecErrAll.v — C08: the headline statements over the fuel-free [decode] / [encode],
   assembled from CodecErrDec / CodecErrStrict / CodecErrEnc / CodecErrArr, and the witnesses on
   which the faithful model (of /repo after the codec fix wave) still falsifies a full-strength
   statement. *)
From Coq Require Import String.
From PV Require Import Base.Bytes Base.BytesLemmas Base.Res Base.Proto.
From PV Require Import Gen.Types Gen.CodecFacts Model.Codec.
From PV Require Import Proofs.CodecErrDefs Proofs.CodecErrBase Proofs.CodecErrDec Proofs.CodecErrStrict
  Proofs.CodecErrEnc Proofs.CodecErrArr.
From Coq Require Import ZifyBool.
Open Scope Z_scope.
Ltac Zify.zify_post_hook ::= Z.to_euclidean_division_equations.

(* a decode outcome of the library's own kind: a value, DataError, or BufferEmptyError *)
Definition lib_dec (r : res (val * bytes)) : Prop :=
  match r with Ok _ => True | Err e => e = DataError \/ e = BufferEmpty end.

Lemma decode_ok_inv t bs v rest : decode t bs = Ok (v, rest) -> decode_fuel (S (length bs)) t bs = DOk v rest.
Proof. unfold decode. destruct (decode_fuel _ t bs); cbn; intros H; try discriminate. now injection H as <- <-. Qed.

(* ------------------------------------------------------------------ decode_errors / termination *)
Theorem decode_errors t bs :
  hprogress t = true -> (has_prefix t = true -> Z.of_nat (length bs) < count_limit) -> lib_dec (decode t bs).
Proof.
  intros Hh Hc. unfold decode.
  pose proof (decode_terminates t Hh (S (length bs)) bs (Nat.lt_succ_diag_r _) Hc) as Hf.
  destruct (decode_fuel (S (length bs)) t bs) eqn:E; cbn; auto.
  - left. exact (decode_lib _ _ _ _ E).
  - contradiction.
Qed.

(* whatever the type: the only foreign outcome of [decode] is the marker of non-termination *)
Theorem decode_foreign_is_hang t bs e :
  decode t bs = Err (Foreign e) -> decode_fuel (S (length bs)) t bs = DOutOfFuel.
Proof.
  unfold decode. destruct (decode_fuel (S (length bs)) t bs) eqn:E; cbn; intros H; try discriminate; [|reflexivity].
  injection H as ->. apply decode_lib in E. discriminate.
Qed.

Lemma hang_not_lib t bs : decode_fuel (S (length bs)) t bs = DOutOfFuel -> ~ lib_dec (decode t bs).
Proof. intros E H. unfold decode in H. rewrite E in H. destruct H; discriminate. Qed.

(* types without a length-prefixed array: every decode terminates, whatever the element types *)
Lemma no_prefix_hprogress : forall t, has_prefix t = false -> hprogress t = true.
Proof.
  induction t using ty_ind_nested; cbn [has_prefix hprogress]; intros Hp; auto; try discriminate.
  - apply forallb_forall. intros m Hin. rewrite Forall_forall in H. apply (H m Hin).
    destruct (has_prefix (snd m)) eqn:E; [|reflexivity].
    assert (existsb (fun m0 : key * ty => has_prefix (snd m0)) ms = true) by (apply existsb_exists; eauto). congruence.
  - apply forallb_forall. intros m Hin. rewrite Forall_forall in H. apply (H m Hin).
    destruct (has_prefix (snd m)) eqn:E; [|reflexivity].
    assert (existsb (fun m0 : (key * nat) * ty => has_prefix (snd m0)) ms = true) by (apply existsb_exists; eauto). congruence.
Qed.

Theorem decode_all_terminates t fuel bs :
  has_prefix t = false -> (length bs < fuel)%nat -> decode_fuel fuel t bs <> DOutOfFuel.
Proof.
  intros Hp Hl. apply decode_terminates; [now apply no_prefix_hprogress|exact Hl|]. intros H. congruence.
Qed.

(* ------------------------------------------------------------------ buffer_empty_only_at_start *)
Theorem buffer_empty_only_at_end t fuel bs rest :
  be_ok t = true -> decode_fuel fuel t bs = DEmpty rest -> rest = [].
Proof. intros Hb. apply buffer_empty_at_end, Hb. Qed.

(* ------------------------------------------------------------------ no_short_fixed_width *)
(* a well-formed type that has a width is strict *)
Lemma be_ok_width_strict : forall t w, be_ok t = true -> width_of t = Some w -> strict t = true.
Proof.
  induction t using ty_ind_nested; intros w0 Hb; cbn [be_ok] in Hb; cbn [width_of strict]; intros Hw; try reflexivity; try discriminate.
  - destruct (0 <=? n); [reflexivity|discriminate].
  - destruct (width_of t) as [w'|] eqn:E; [|discriminate]. exact (IHt w' Hb eq_refl).
  - rewrite forallb_forall in Hb. apply forallb_forall. intros m Hin.
    rewrite Forall_forall in H.
    assert (Hm : exists w', width_of (snd m) = Some w').
    { clear - Hw Hin. revert w0 Hw. induction ms as [|m0 ms IH]; intros w0 Hw; [contradiction|].
      cbn [map sum_widths] in Hw. destruct (width_of (snd m0)) as [a|] eqn:Ea; [|discriminate].
      destruct (sum_widths (map (fun m1 : key * ty => width_of (snd m1)) ms)) as [b|] eqn:Eb; [|discriminate].
      destruct Hin as [<-|Hin]; [eauto|exact (IH Hin b eq_refl)]. }
    destruct Hm as [w' Hw']. exact (H m Hin w' (Hb m Hin) Hw').
  - exact Hb.
Qed.

Lemma announced_width t bs :
  match t with TStr _ _ _ | TStringN => False | _ => True end ->
  announced t bs = option_map Z.of_nat (width_of t).
Proof. destruct t; intros H; try contradiction; reflexivity. Qed.

Lemma no_short_read_width t bs v rest k fuel :
  match t with TStr _ _ _ | TStringN => False | _ => True end ->
  be_ok t = true -> decode_fuel fuel t bs = DOk v rest -> announced t bs = Some k -> k <= zlen bs.
Proof.
  intros Ht Hb Hd Ha. rewrite (announced_width t bs Ht) in Ha.
  destruct (width_of t) as [w|] eqn:Ew; [|discriminate]. injection Ha as <-.
  pose proof (be_ok_width_strict t w Hb Ew) as Hs. rewrite (strict_width_of t Hs) in Ew. injection Ew as <-.
  pose proof (strict_decode t Hs fuel bs) as H. rewrite Hd in H. unfold sshape in H. unfold zlen. lia.
Qed.

Theorem no_short_read t bs v rest k :
  be_ok t = true -> decode t bs = Ok (v, rest) -> announced t bs = Some k -> k <= zlen bs.
Proof.
  intros Hb Hd Ha. apply decode_ok_inv in Hd.
  destruct t eqn:Et; try (refine (no_short_read_width _ _ _ _ _ _ _ Hb Hd Ha); exact I).
  - exact (str_no_short _ _ _ _ _ _ _ _ Hd Ha).
  - exact (stringn_no_short _ _ _ _ _ Hd Ha).
Qed.

Theorem strict_consumes_width t bs v rest :
  strict t = true -> decode t bs = Ok (v, rest) -> length bs = (swidth t + length rest)%nat.
Proof.
  intros Hs Hd. apply decode_ok_inv in Hd. pose proof (strict_decode t Hs (S (length bs)) bs) as H. now rewrite Hd in H.
Qed.

(* DESIGN.md's statement, over the spec-side width *)
Theorem no_short_fixed_width t w bs v rest :
  be_ok t = true -> width_of t = Some w -> decode t bs = Ok (v, rest) -> (w <= length bs)%nat.
Proof.
  intros Hb Hw Hd. pose proof (be_ok_width_strict t w Hb Hw) as Hs. rewrite (strict_width_of t Hs) in Hw. injection Hw as <-.
  pose proof (strict_consumes_width t bs v rest Hs Hd). lia.
Qed.

(* ------------------------------------------------------------------ decode_all_exact *)
Theorem decode_all_exact_items e (items : list (bytes * val)) :
  is_bits e = false ->
  (forall b v, In (b, v) items -> b <> [] /\ forall fuel tail, decode_fuel fuel e (b ++ tail) = DOk v tail) ->
  (forall fuel, decode_fuel fuel e [] = DEmpty []) ->
  decode (TArrAll e) (concat (map fst items)) = Ok (VList (map snd items), []).
Proof.
  intros Hb Hit Hnil. unfold decode. rewrite unbounded_array_exact; [reflexivity|exact Hb| |apply Hnil|lia].
  intros b v Hin. destruct (Hit b v Hin) as [H1 H2]. split; [exact H1|]. intros tail. apply H2.
Qed.

Theorem decode_all_exact_fixed t k bs :
  total_leaf t = true -> length bs = (k * swidth t)%nat ->
  exists vs, length vs = k /\ decode (TArrAll t) bs = Ok (VList vs, []).
Proof.
  intros Ht Hl. destruct (unbounded_array_exact_fixed t k bs Ht Hl) as (vs & Hn & Hd).
  exists vs. split; [exact Hn|]. unfold decode. rewrite Hd; [reflexivity|lia].
Qed.

(* ------------------------------------------------------------------ witnesses: what the code still does *)
Definition ty_named (s : string) : ty := match ty_of_name (zs_of_string s) with Some t => t | None => TBool end.
Definition UINT_ty := ty_named "UINT".
Definition UDINT_ty := ty_named "UDINT".
Definition STRING_ty := ty_named "STRING".
Definition STRINGN_ty := ty_named "STRINGN".
Definition BYTE_ty := ty_named "BYTE".

(* BYTE[2].encode([True] * 8) == b"\xff" : one element instead of two, no error *)
Lemma w_bits_array : bad (TArrFixed 2 BYTE_ty) (VList (repeat (VBool true) 8)) = true
                     /\ encode (TArrFixed 2 BYTE_ty) (VList (repeat (VBool true) 8)) = Ok [255].
Proof. split; reflexivity. Qed.
Lemma w_bits_array_partial : bad (TArrAll BYTE_ty) (VList (repeat (VBool true) 12)) = true
                             /\ encode (TArrAll BYTE_ty) (VList (repeat (VBool true) 12)) = Ok [255].
Proof. split; reflexivity. Qed.

(* Array(UDINT, Struct()).decode(b"\xff\xff\xff\xff"): 4294967295 rounds over an exhausted buffer *)
Lemma w_prefix_zero_width : forall fuel,
  decode_fuel fuel (TArrPrefix false UDINT_ty (TStruct SPlain [])) [255; 255; 255; 255] = DOutOfFuel.
Proof.
  intros fuel. change UDINT_ty with (TInt false 4). cbn [decode_fuel map]. unfold array_decode_prefix.
  assert (Hi : int_decode false 4 [255; 255; 255; 255] = DOk (VInt 4294967295) []) by reflexivity.
  rewrite Hi. cbn [dbind].
  destruct (decode_n_zero_width (struct_decode SPlain []) (VDict []) (fun bs => eq_refl) (Z.to_nat (Z.min 4294967295 count_limit)) [])
    as [vs Hvs].
  rewrite Hvs. reflexivity.
Qed.

(* the fixed classes, as the model now has them *)
Lemma w_fixed :
  encode (TArrFixed 2 UINT_ty) VNone = Err DataError
  /\ encode (ty_named "DATE_AND_TIME") (VTuple [VInt 1; VInt 2]) = Ok [1; 0; 0; 0; 2; 0]
  /\ encode (ty_named "DATE_AND_TIME") (VInt 5) = Err DataError
  /\ encode (TStruct SPlain [(Some [97], UINT_ty); (Some [98], UINT_ty)]) (VList [VInt 1]) = Err DataError
  /\ encode (TNBytes 2) (VStr [97; 98]) = Err DataError
  /\ decode (TArrAll (TStruct SPlain [])) [] = Ok (VList [], [])
  /\ decode (TArrAll TPcccAscii) [97; 98] = Ok (VList [VStr [98; 97]], [])
  /\ decode STRINGN_ty [1; 0; 0; 0; 65] = Ok (VStr [], [65])
  /\ decode (TNBytes 0) [97; 98] = Ok (VBytes [], [97; 98])
  /\ decode STRING_ty [5; 0; 97; 98] = Err DataError
  /\ decode (TNBytes 4) [97; 98] = Err DataError
  /\ decode (TFixedStr 4 false 4 4) [4; 0; 0; 0; 97; 98] = Err DataError
  /\ decode (TStructTag [((Some [120], 0%nat), TInt true 4)] [] [] 8) [1; 0; 0; 0] = Err DataError
  /\ decode TPcccAscii [] = Err BufferEmpty.
Proof. repeat split; reflexivity. Qed.
