(* Proofs/CodecErrAll.v — C08: the headline statements over the fuel-free [decode] / [encode],
   assembled from CodecErrDec / CodecErrStrict / CodecErrEnc / CodecErrArr, and the witnesses on
   which the faithful model falsifies the full-strength statements. *)
From Coq Require Import String.
From PV Require Import Base.Bytes Base.BytesLemmas Base.Res Base.Proto.
From PV Require Import Gen.Types Gen.CodecFacts Model.Codec Model.CodecDom.
From PV Require Import Proofs.CodecErrDefs Proofs.CodecErrBase Proofs.CodecErrDec Proofs.CodecErrStrict
  Proofs.CodecErrEnc Proofs.CodecErrArr.
From Coq Require Import ZifyBool.
Open Scope Z_scope.
Ltac Zify.zify_post_hook ::= Z.to_euclidean_division_equations.

(* a decode outcome of the library's own kind: a value, DataError, or BufferEmptyError *)
Definition lib_dec (r : res (val * bytes)) : Prop :=
  match r with Ok _ => True | Err e => e = DataError \/ e = BufferEmpty end.

Lemma decode_ok_inv t bs v rest : decode t bs = Ok (v, rest) -> decode_fuel (S (length bs)) t bs = DOk v rest.
Proof. unfold decode. destruct (decode_fuel _ t bs); cbn; intros H; try discriminate. now injection H as <- <-. Qed.

(* ------------------------------------------------------------------ decode_errors / decode_all_terminates *)
Theorem decode_errors t bs : hprogress t = true -> lib_dec (decode t bs).
Proof.
  intros Hh. unfold decode.
  pose proof (decode_terminates t Hh (S (length bs)) bs (Nat.lt_succ_diag_r _)) as Hf.
  destruct (decode_fuel (S (length bs)) t bs) eqn:E; cbn; auto.
  - left. exact (decode_lib _ _ _ _ E).
  - contradiction.
Qed.

(* whatever the type: the only foreign outcome of [decode] is the marker of non-termination *)
Theorem decode_foreign_is_hang t bs e :
  decode t bs = Err (Foreign e) -> decode_fuel (S (length bs)) t bs = DOutOfFuel.
Proof.
  unfold decode. destruct (decode_fuel (S (length bs)) t bs) eqn:E; cbn; intros H; try discriminate; [|reflexivity].
  injection H as ->. apply decode_lib in E. discriminate.
Qed.

(* ------------------------------------------------------------------ buffer_empty_only_at_start *)
(* BufferEmptyError escapes [decode] only when the stream stood at the end of the buffer *)
Theorem buffer_empty_only_at_end t fuel bs rest :
  be_ok t = true -> decode_fuel fuel t bs = DEmpty rest -> rest = [].
Proof. intros Hb. apply buffer_empty_at_end, Hb. Qed.

(* ------------------------------------------------------------------ no_short_fixed_width *)
Theorem no_short_read t bs v rest k :
  strict t = true -> decode t bs = Ok (v, rest) -> announced t bs = Some k -> k <= zlen bs.
Proof.
  intros Hs Hd Ha. rewrite (strict_announced t bs Hs) in Ha. injection Ha as <-.
  apply decode_ok_inv in Hd. pose proof (strict_decode t Hs (S (length bs)) bs) as H. rewrite Hd in H. cbn in H.
  unfold zlen. lia.
Qed.

(* the consumed bytes are exactly the width *)
Theorem strict_consumes_width t bs v rest :
  strict t = true -> decode t bs = Ok (v, rest) -> length bs = (swidth t + length rest)%nat.
Proof.
  intros Hs Hd. apply decode_ok_inv in Hd. pose proof (strict_decode t Hs (S (length bs)) bs) as H. now rewrite Hd in H.
Qed.

(* DESIGN.md's statement, over the spec-side width *)
Theorem no_short_fixed_width t w bs v rest :
  strict t = true -> width_of t = Some w -> decode t bs = Ok (v, rest) -> (w <= length bs)%nat.
Proof.
  intros Hs Hw Hd. rewrite (strict_width_of t Hs) in Hw. injection Hw as <-.
  pose proof (strict_consumes_width t bs v rest Hs Hd). lia.
Qed.

(* ------------------------------------------------------------------ decode_all_exact *)
Theorem decode_all_exact_items e (items : list (bytes * val)) :
  (forall b v, In (b, v) items -> b <> [] /\ forall fuel tail, decode_fuel fuel e (b ++ tail) = DOk v tail) ->
  (forall fuel, decode_fuel fuel e [] = DEmpty []) ->
  decode (TArrAll e) (concat (map fst items)) = Ok (VList (map snd items), []).
Proof.
  intros Hit Hnil. unfold decode. rewrite unbounded_array_exact; [reflexivity| |apply Hnil|lia].
  intros b v Hin. destruct (Hit b v Hin) as [H1 H2]. split; [exact H1|]. intros tail. apply H2.
Qed.

Theorem decode_all_exact_fixed t k bs :
  total_leaf t = true -> length bs = (k * swidth t)%nat ->
  exists vs, length vs = k /\ decode (TArrAll t) bs = Ok (VList vs, []).
Proof.
  intros Ht Hl. destruct (unbounded_array_exact_fixed t k bs Ht Hl) as (vs & Hn & Hd).
  exists vs. split; [exact Hn|]. unfold decode. rewrite Hd; [reflexivity|lia].
Qed.

(* ------------------------------------------------------------------ witnesses: what the code does *)
Definition ty_named (s : string) : ty := match ty_of_name (zs_of_string s) with Some t => t | None => TBool end.
Definition UINT_ty := ty_named "UINT".
Definition STRING_ty := ty_named "STRING".
Definition STRINGN_ty := ty_named "STRINGN".
Definition BYTE_ty := ty_named "BYTE".
Definition enc_of (t : ty) (v : val) : bytes := match encode t v with Ok b => b | Err _ => [] end.

(* F22: Array(2, UINT).encode(None) -> TypeError *)
Lemma w_array_encode_none : encode (TArrFixed 2 UINT_ty) VNone = Err (Foreign TypeError).
Proof. reflexivity. Qed.
(* DATE_AND_TIME.encode((1, 2)) -> TypeError *)
Lemma w_datetime_encode : encode (ty_named "DATE_AND_TIME") (VTuple [VInt 1; VInt 2]) = Err (Foreign TypeError).
Proof. reflexivity. Qed.
(* F19: Struct(UINT a, UINT b, UINT c).encode([1]) == b"\x01\x00" *)
Definition S3_ty := TStruct SPlain [(Some [97], UINT_ty); (Some [98], UINT_ty); (Some [99], UINT_ty)].
Lemma w_struct_short : bad S3_ty (VList [VInt 1]) = true /\ encode S3_ty (VList [VInt 1]) = Ok [1; 0].
Proof. split; reflexivity. Qed.
(* n_bytes(2).encode("ab") returns the str *)
Lemma w_nbytes_str : bad (TNBytes 2) (VStr [97; 98]) = true /\ encode (TNBytes 2) (VStr [97; 98]) = Ok [97; 98]
                     /\ encode_result_kind (TNBytes 2) (VStr [97; 98]) = 1.
Proof. repeat split; reflexivity. Qed.
(* BYTE[2].encode([True] * 8) == b"\xff" *)
Lemma w_bits_array : bad (TArrFixed 2 BYTE_ty) (VList (repeat (VBool true) 8)) = true
                     /\ encode (TArrFixed 2 BYTE_ty) (VList (repeat (VBool true) 8)) = Ok [255].
Proof. split; reflexivity. Qed.
(* F18: Array(None, Struct()).decode(b"") never returns, whatever the fuel *)
Lemma w_hang_struct0 : forall fuel, decode_fuel fuel (TArrAll (TStruct SPlain [])) [] = DOutOfFuel.
Proof. apply unbounded_array_hangs. intros fuel. eexists. reflexivity. Qed.
Lemma w_hang_arr0 : forall fuel, decode_fuel fuel (TArrAll (TArrFixed 0 UINT_ty)) [] = DOutOfFuel.
Proof. apply unbounded_array_hangs. intros fuel. eexists. reflexivity. Qed.
Lemma w_hang_nested : forall fuel, decode_fuel fuel (TArrAll (TArrAll UINT_ty)) [] = DOutOfFuel.
Proof.
  intros [|f]; [reflexivity|]. cbn [decode_fuel]. unfold array_decode_all at 1.
  rewrite (decode_all_hangs _ (VList [])); reflexivity.
Qed.
Lemma w_hang_pccc_ascii : forall fuel, decode_fuel fuel (TArrAll TPcccAscii) [] = DOutOfFuel.
Proof. apply unbounded_array_hangs. intros fuel. eexists. reflexivity. Qed.
Lemma w_hang_stag0 : forall fuel, decode_fuel fuel (TArrAll (TStructTag [] [] [] 4)) [] = DOutOfFuel.
Proof. apply unbounded_array_hangs. intros fuel. eexists. reflexivity. Qed.
Lemma w_hang_decode : decode (TArrAll (TStruct SPlain [])) [] = Err hang_marker.
Proof. reflexivity. Qed.
(* STRINGN with zero characters: BufferEmptyError although a byte remains *)
Lemma w_stringn_empty : forall fuel, decode_fuel fuel STRINGN_ty [1; 0; 0; 0; 65] = DEmpty [65].
Proof. intros fuel. reflexivity. Qed.
(* n_bytes(0) *)
Lemma w_nbytes0 : forall fuel, decode_fuel fuel (TNBytes 0) [97; 98] = DEmpty [97; 98].
Proof. intros fuel. reflexivity. Qed.
(* F17: values from fewer bytes than announced *)
Lemma w_short_string : decode STRING_ty [5; 0; 97; 98] = Ok (VStr [97; 98], []) /\ announced STRING_ty [5; 0; 97; 98] = Some 7.
Proof. split; reflexivity. Qed.
Lemma w_short_nbytes : decode (TNBytes 4) [97; 98] = Ok (VBytes [97; 98], []) /\ announced (TNBytes 4) [97; 98] = Some 4.
Proof. split; reflexivity. Qed.
Lemma w_short_fss : decode (TFixedStr 4 false 4 4) [4; 0; 0; 0; 97; 98] = Ok (VStr [97; 98], [])
                    /\ announced (TFixedStr 4 false 4 4) [4; 0; 0; 0; 97; 98] = Some 8.
Proof. split; reflexivity. Qed.
Lemma w_short_stag : decode (TStructTag [((Some [120], 0%nat), TInt true 4)] [] [] 8) [1; 0; 0; 0] = Ok (VDict [(Some [120], VInt 1)], [])
                     /\ announced (TStructTag [((Some [120], 0%nat), TInt true 4)] [] [] 8) [1; 0; 0; 0] = Some 8.
Proof. split; reflexivity. Qed.
Lemma w_short_pccc_ascii : decode TPcccAscii [] = Ok (VStr [], []) /\ announced TPcccAscii [] = Some 2.
Proof. split; reflexivity. Qed.
(* Array(None, STRINGN) over ["ab", "", "cd"] stops at the empty string *)
Definition stringn3 : bytes := enc_of STRINGN_ty (VStr [97; 98]) ++ enc_of STRINGN_ty (VStr []) ++ enc_of STRINGN_ty (VStr [99; 100]).
Lemma w_stringn_array : decode (TArrAll STRINGN_ty) stringn3 = Ok (VList [VStr [97; 98]], [1; 0; 2; 0; 99; 100]).
Proof. reflexivity. Qed.
