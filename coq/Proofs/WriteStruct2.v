(* Proofs/WriteStruct2.v — C02, whole structures written from a dict: the boundary of the covered class.

   Props/C02.C02_full asks the struct clause for EVERY well-formed project.  That is false of the faithful
   model, by the two witnesses below (both well-formed, both outside Proofs/WriteStruct.ty_guard):

     struct_full_refuted   a BOOL member listed BEFORE a visible member that covers its byte, written with an
                           INCONSISTENT dict (Pt00 = True, Data = 0, Pt00 being bit 0 of Data): StructTag._encode
                           stores all non-BOOL members and then sets the bits (bits win: Data = 1); the reference
                           (Spec/Expect.encode_val) applies the visible members in template order (the later host
                           wins: Data = 0).  No memory holds "Pt00 = True and Data = 0": the property text ("a
                           structure sets every visible member") cannot be met by ANY encoder on this input, and the
                           reference's tie-break is a convention of the reference, not a statement of the property.
                           With a consistent dict the two orders give the same bytes (bh_consistent).
     struct_hidden_bool    a hidden BOOL member: the uploaded class lists it among its bit members, _encode looks it
                           up in the dict -> KeyError -> the request fails with RequestError and NOTHING is sent
                           (C02 speaks of writes that report success: not a violation; the clause of C02_full fails
                           only because it also demands that the request succeeds).

   BYTE / WORD / LWORD bit-string members and strings whose LEN / DATA are not at offsets 0 / 4 stay outside the
   class as well: for the former model and reference agree where tried (bits_members_agree; the general proof needs
   the 8 / 16 / 64-bit versions of Proofs/WriteBools.dword_encode / chunk_list_32), for the latter they differ
   (odd_string_differs: FixedSizeString always emits LEN at 0 and the characters at 4) — no controller lays a
   string type out like that. *)
From Coq Require Import ZifyBool String.
From PV Require Import Base.Bytes Base.BytesLemmas Base.Res Base.Proto Base.PyStr Model.CodecFloat Model.Path Model.LogixPlan Model.LogixWrite.
From PV Require Import Spec.EncapParser Spec.MRParser Spec.TargetIface Spec.TargetCore Spec.Project Spec.Expect Spec.TargetLogix.
From PV Require Import Proofs.WriteMsg Proofs.WriteFull Proofs.WriteStruct.
Open Scope Z_scope.

(* ================================================================ BOOL listed before its visible host *)
Definition bh_t : template :=
  mkTemplate (zs "modT") None 3900 4660 4 0
    [ mkMember (zs "Pt00") (BAtom C_BOOL) 0 0 0 false;
      mkMember (zs "Data") (BAtom C_INT) 0 0 0 false;
      mkMember (zs "Pad") (BAtom C_INT) 0 2 0 false ].
Definition bh_proj : project := mkProject [bh_t] [mkTag (zs "m") 5 ScCtrl (BStruct 3900) [] 0 false 0 0 0 0].
Definition bh_mem : mem := [(5, [9; 9; 9; 9])].
Definition bh_req : request_ast := mkReq None [mkSeg (zs "m") []] None None.
Definition bh_rv (pt00 : bool) (data : Z) : rvalue := RStruct [(zs "Pt00", RBool pt00); (zs "Data", RInt data); (zs "Pad", RInt 3)].
Definition bh_ty : option wty := Eval vm_compute in wty_of (depth_fuel bh_proj) bh_proj (BStruct 3900).

Definition bh_wty : wty := match bh_ty with Some t => t | None => WElem [] end.
Definition bh_path : bytes := Eval vm_compute in
  match path_of (zs "m") (mkInfo true (zs "modT") bh_wty 4660 (Some 5)) false with Ok (Some b) => b | _ => [] end.

Lemma bh_denotes b z : denotes (py_of (bh_rv b z)) (bh_rv b z).
Proof. cbv [py_of bh_rv]. repeat (constructor; cbn [fst snd]). Qed.

Example bh_facts :
  wf_project bh_proj = true /\ wf_mem bh_proj bh_mem = true
  /\ ty_guard (depth_fuel bh_proj) bh_proj (BStruct 3900) = false
  /\ ref_write bh_proj bh_mem bh_req (bh_rv true 0) = Some [(5, [0; 0; 3; 0])]
  /\ match bh_ty with
     | Some ty => encode_ty ty (py_of (bh_rv true 0)) = Ok [1; 0; 3; 0]
     | None => False
     end.
Proof. vm_compute. repeat split; reflexivity. Qed.

(* with a dict that agrees with itself (Pt00 = bit 0 of Data) the code's encoding IS the reference's *)
Example bh_consistent :
  match bh_ty with
  | Some ty =>
      encode_ty ty (py_of (bh_rv true 4097)) = Ok [1; 16; 3; 0]
      /\ encode_val (depth_fuel bh_proj) bh_proj (BStruct 3900) (bh_rv true 4097) = Some [1; 16; 3; 0]
      /\ encode_ty ty (py_of (bh_rv false (-2))) = Ok [254; 255; 3; 0]
      /\ encode_val (depth_fuel bh_proj) bh_proj (BStruct 3900) (bh_rv false (-2)) = Some [254; 255; 3; 0]
  | None => False
  end.
Proof. vm_compute. repeat split; reflexivity. Qed.

Theorem struct_full_refuted : ~ stmt_struct_with (fun p _ => wf_project p = true).
Proof.
  intros H.
  destruct (H bh_proj bh_mem bh_req 5 0 3900 [] 1 bh_t (py_of (bh_rv true 0)) (bh_rv true 0) [(5, [0; 0; 3; 0])] [9; 9; 9; 9] 0 (zs "m")
               bh_wty (Some 5) false 1 bh_path)
    as (data & pk & pk1 & E1 & _ & _ & _ & E5).
  - vm_compute. reflexivity.
  - vm_compute. reflexivity.
  - reflexivity.
  - reflexivity.
  - reflexivity.
  - vm_compute. reflexivity.
  - vm_compute. reflexivity.
  - change (0 <= 4660 < 65536). lia.
  - vm_compute. reflexivity.
  - vm_compute. reflexivity.
  - apply bh_denotes.
  - vm_compute. reflexivity.
  - lia.
  - lia.
  - vm_compute. reflexivity.
  - vm_compute in E1. injection E1 as <-. vm_compute in E5. discriminate.
Qed.

(* ================================================================ a hidden BOOL member *)
Definition hb_t : template :=
  mkTemplate (zs "hidB") None 3901 4661 4 0
    [ mkMember (zs "ZZZZZZZZZZhidB0") (BAtom C_SINT) 0 0 0 true;
      mkMember (zs "vis") (BAtom C_BOOL) 0 0 0 false;
      mkMember (zs "__hid") (BAtom C_BOOL) 0 0 1 true;
      mkMember (zs "N") (BAtom C_INT) 0 2 0 false ].
Definition hb_proj : project := mkProject [hb_t] [mkTag (zs "m") 5 ScCtrl (BStruct 3901) [] 0 false 0 0 0 0].
Definition hb_rv : rvalue := RStruct [(zs "vis", RBool true); (zs "N", RInt 3)].
Definition hb_ty : option wty := Eval vm_compute in wty_of (depth_fuel hb_proj) hb_proj (BStruct 3901).

Example struct_hidden_bool :
  wf_project hb_proj = true
  /\ ty_guard (depth_fuel hb_proj) hb_proj (BStruct 3901) = false
  /\ ref_write hb_proj [(5, [9; 9; 9; 9])] (mkReq None [mkSeg (zs "m") []] None None) hb_rv = Some [(5, [1; 0; 3; 0])]
  /\ match hb_ty with
     | Some ty =>
         (* the dict of the visible members: refused, nothing is sent *)
         encode_value (mkParsed 0 false (zs "m") None 1 None (mkInfo true (zs "hidB") ty 4661 (Some 5)) (py_of hb_rv)) = Err RequestError
         (* the caller can name the hidden bit: then the visible members are stored as the reference says *)
         /\ encode_value (mkParsed 0 false (zs "m") None 1 None (mkInfo true (zs "hidB") ty 4661 (Some 5))
                            (PDict [(zs "vis", PBool true); (zs "N", PInt 3); (zs "__hid", PBool false)])) = Ok ([1; 0; 3; 0], 1)
     | None => False
     end.
Proof. vm_compute. repeat split; reflexivity. Qed.

(* ================================================================ BYTE / WORD / LWORD members; odd string layouts *)
Definition bm_t : template :=
  mkTemplate (zs "bitsT") None 3902 4662 16 0
    [ mkMember (zs "B") (BAtom C_BYTE) 0 0 0 false;
      mkMember (zs "W") (BAtom C_WORD) 0 2 0 false;
      mkMember (zs "WA") (BAtom C_WORD) 2 4 0 false;
      mkMember (zs "L") (BAtom C_LWORD) 0 8 0 false ].
Definition bm_proj : project := mkProject [bm_t] [mkTag (zs "m") 5 ScCtrl (BStruct 3902) [] 0 false 0 0 0 0].
Definition bm_bl (n : nat) : rvalue := RList (map (fun k => RBool (Z.odd (Z.of_nat k / 3))) (seq 0 n)).
Definition bm_rv : rvalue := RStruct [(zs "B", bm_bl 8); (zs "W", bm_bl 16); (zs "WA", bm_bl 32); (zs "L", bm_bl 64)].
Example bits_members_agree :
  wf_project bm_proj = true /\ ty_guard (depth_fuel bm_proj) bm_proj (BStruct 3902) = false
  /\ match wty_of (depth_fuel bm_proj) bm_proj (BStruct 3902), encode_val (depth_fuel bm_proj) bm_proj (BStruct 3902) bm_rv with
     | Some ty, Some d => encode_ty ty (py_of bm_rv) = Ok d /\ Expect.blen d = 16
     | _, _ => False
     end.
Proof. vm_compute. repeat split; reflexivity. Qed.

Definition os_t : template :=
  mkTemplate (zs "oddS") None 3903 4663 16 0
    [ mkMember (zs "__pad") (BAtom C_DINT) 0 0 0 true;
      mkMember (zs "LEN") (BAtom C_DINT) 0 4 0 false;
      mkMember (zs "DATA") (BAtom C_SINT) 6 8 0 false ].
Definition os_proj : project := mkProject [os_t] [mkTag (zs "m") 5 ScCtrl (BStruct 3903) [] 0 false 0 0 0 0].
Example odd_string_differs :
  wf_project os_proj = true /\ ty_guard (depth_fuel os_proj) os_proj (BStruct 3903) = false
  /\ encode_val (depth_fuel os_proj) os_proj (BStruct 3903) (RStr [65; 66]) = Some [0; 0; 0; 0; 2; 0; 0; 0; 65; 66; 0; 0; 0; 0; 0; 0]
  /\ match wty_of (depth_fuel os_proj) os_proj (BStruct 3903) with
     | Some ty => encode_ty ty (PStr [65; 66]) = Ok [2; 0; 0; 0; 65; 66; 0; 0; 0; 0; 0; 0; 0; 0; 0; 0]
     | None => False
     end.
Proof. vm_compute. repeat split; reflexivity. Qed.
