(* Proofs/ConnPathRender.v — C15: the reference reader reads back every spelling [render] writes. *)
From Coq Require Import String.
From PV Require Import Base.Bytes Base.BytesLemmas Base.Proto Base.Res Base.PyStr Gen.PathTables Gen.Consts
     Model.Path Model.ConnPath Spec.ConnPathGrammar Proofs.ConnPathStr Proofs.ConnPathEnc Proofs.ConnPathRef.
From Coq Require Import ZifyBool.
Ltac Zify.zify_post_hook ::= Z.to_euclidean_division_equations.
Open Scope Z_scope.

(* ================================================================ H. rendered strings are read back *)
Fixpoint hop_fields (ss : list hop_sp) (hs : list hop) : list text :=
  match ss, hs with
  | s :: ss', h :: hs' =>
      render_port (sp_port s) (h_port h) :: render_link (sp_lzeros s) (h_link h) :: hop_fields ss' hs'
  | _, _ => []
  end.

Lemma decimal_none p z n : (forall c, is_ascii_digit c = true -> p c = false) -> none_of p (decimal z n) = true.
Proof.
  intros Hp. apply digits_none; [exact Hp|]. pose proof (decimal_isdigit z n) as H.
  now apply isdigit_forallb in H.
Qed.

Lemma names_no_sep : forallb (none_of is_sep) (map fst doc_port_names) = true.
Proof. reflexivity. Qed.
Lemma render_port_none s n : wf_port_sp s n = true -> none_of is_sep (render_port s n) = true.
Proof.
  destruct s as [a|z]; cbn [wf_port_sp render_port].
  - destruct (lookup a doc_port_names) as [k|] eqn:E; [|discriminate]. intros _.
    apply lookup_in in E. pose proof names_no_sep as H. rewrite forallb_forall in H. now apply H.
  - intros _. apply decimal_none. exact digit_not_sep.
Qed.
Lemma quad_chars_none p t : strict_quad t = true ->
  (forall c, is_ascii_digit c || is_dot c = true -> p c = false) -> none_of p t = true.
Proof.
  intros Hq Hp. destruct (quad_props t Hq) as [Hc _]. unfold none_of. revert Hc. apply forallb_impl.
  intros c Hc. now rewrite (Hp c Hc).
Qed.
Lemma render_link_none z l : wf_link l = true -> none_of is_sep (render_link z l) = true.
Proof.
  destruct l as [n|t]; cbn [wf_link render_link]; intros H.
  - apply decimal_none. exact digit_not_sep.
  - apply (quad_chars_none is_sep t H). intros c.
    unfold is_ascii_digit, is_dot, is_sep, DOT, SLASH, BACKSLASH, COMMA. lia.
Qed.

Lemma fields_render_hops ss : forall hs pre,
  none_of is_sep pre = true -> wf_hop_sps ss hs = true -> forallb wf_hop hs = true ->
  fields is_sep (pre ++ render_hops ss hs) = (pre, hop_fields ss hs).
Proof.
  induction ss as [|s ss IH]; intros [|h hs] pre Hpre Hsp Hwf; cbn [wf_hop_sps] in Hsp; try discriminate.
  - cbn [render_hops hop_fields]. rewrite app_nil_r. now apply fields_none.
  - cbn [render_hops hop_fields render_hop]. cbn [forallb] in Hwf.
    apply andb_prop in Hwf as [Hh Hwf]. apply andb_prop in Hsp as [Hs Hsp].
    unfold wf_hop_sp in Hs. apply andb_prop in Hs as [Hs Hls]. apply andb_prop in Hs as [Hs Hps].
    apply andb_prop in Hs as [Hs1 Hs2].
    unfold wf_hop in Hh. apply andb_prop in Hh as [Hh Hl].
    unfold render_hop. rewrite <- !app_assoc. cbn [app].
    rewrite (fields_app_sep is_sep pre _ _ Hpre Hs1).
    rewrite (fields_app_sep is_sep _ _ _ (render_port_none _ _ Hps) Hs2).
    rewrite (IH hs _ (render_link_none _ _ Hl) Hsp Hwf). reflexivity.
Qed.

Lemma hop_fields_length ss : forall hs, wf_hop_sps ss hs = true ->
  List.length (hop_fields ss hs) = (2 * List.length hs)%nat.
Proof.
  induction ss as [|s ss IH]; intros [|h hs] H; cbn [wf_hop_sps] in H; try discriminate; [reflexivity|].
  apply andb_prop in H as [_ H]. cbn [hop_fields List.length]. rewrite (IH hs H). lia.
Qed.

Lemma lookup_digits_none t : isdigit t = true -> lookup t doc_port_names = None.
Proof.
  intros H. destruct (lookup t doc_port_names) as [k|] eqn:E; [|reflexivity].
  apply name_not_digit in E. congruence.
Qed.

Lemma classify_port_render s n : wf_port_sp s n = true -> 1 <= n <= PMAX ->
  classify_port (render_port s n) = PortOk n.
Proof.
  destruct s as [a|z]; cbn [wf_port_sp render_port]; intros H Hn; unfold classify_port.
  - destruct (lookup a doc_port_names) as [k|]; [|discriminate]. f_equal. lia.
  - rewrite (lookup_digits_none _ (decimal_isdigit z n)), (decimal_isdigit z n), (decimal_dval z n) by lia.
    rewrite H. replace ((1 <=? n) && (n <=? PMAX)) with true by lia. reflexivity.
Qed.

Lemma quad_not_digits t : strict_quad t = true -> isdigit t = false.
Proof.
  unfold strict_quad. intros H. destruct (isdigit t) eqn:Hd; [|reflexivity]. exfalso.
  apply isdigit_forallb in Hd as [_ Hd].
  assert (Hn : none_of is_dot t = true).
  { apply digits_none; [|exact Hd]. intros c. unfold is_ascii_digit, is_dot, DOT. lia. }
  rewrite (fields_none is_dot t Hn) in H. discriminate.
Qed.
Lemma none_existsb p t : none_of p t = true -> existsb p t = false.
Proof.
  induction t as [|c r IH]; cbn [none_of forallb existsb]; [reflexivity|].
  intros H. apply andb_prop in H as [H1 H2]. fold (none_of p r) in H2. rewrite (IH H2).
  now destruct (p c).
Qed.

Lemma classify_link_render z l : wf_link l = true -> wf_link_sp z l = true ->
  classify_link (render_link z l) = LinkOk l.
Proof.
  destruct l as [n|t]; cbn [wf_link wf_link_sp render_link]; intros H Hs; unfold classify_link.
  - rewrite (decimal_isdigit z n), Hs, (decimal_dval z n) by lia. cbn [negb].
    replace (n <=? 255) with true by lia. reflexivity.
  - rewrite (quad_not_digits t H), H.
    rewrite (none_existsb is_colon t); [reflexivity|]. apply (quad_chars_none is_colon t H).
    intros c. unfold is_ascii_digit, is_dot, is_colon, DOT, COLON. lia.
Qed.

Lemma classify_pairs_render ss : forall hs,
  wf_hop_sps ss hs = true -> forallb wf_hop hs = true ->
  classify_pairs (hop_fields ss hs) = RouteOk hs.
Proof.
  induction ss as [|s ss IH]; intros [|h hs] Hsp Hwf; cbn [wf_hop_sps] in Hsp; try discriminate; [reflexivity|].
  cbn [hop_fields classify_pairs]. cbn [forallb] in Hwf.
  apply andb_prop in Hwf as [Hh Hwf]. apply andb_prop in Hsp as [Hs Hsp].
  unfold wf_hop_sp in Hs. apply andb_prop in Hs as [Hs Hls]. apply andb_prop in Hs as [Hs Hps].
  unfold wf_hop in Hh. apply andb_prop in Hh as [Hh Hl].
  unfold classify_hop. rewrite (classify_port_render _ _ Hps) by lia.
  rewrite (classify_link_render _ _ Hl Hls). rewrite (IH hs Hsp Hwf). cbn [cons_verdict].
  now destruct h.
Qed.

Lemma host_none_sep h : forallb host_char h = true -> none_of is_sep h = true.
Proof. apply forallb_impl. intros c. unfold host_char. now destruct (is_sep c). Qed.
Lemma host_none_colon h : forallb host_char h = true -> none_of is_colon h = true.
Proof. apply forallb_impl. intros c. unfold host_char. destruct (is_colon c); [now rewrite andb_false_r|reflexivity]. Qed.

Lemma none_of_app p a b : none_of p (a ++ b) = none_of p a && none_of p b.
Proof. apply forallb_app. Qed.

Lemma hostport_none_sep sp a : forallb host_char (r_host a) = true ->
  none_of is_sep (render_hostport sp a) = true.
Proof.
  intros H. unfold render_hostport. rewrite none_of_app, (host_none_sep _ H).
  destruct (r_tcp a) as [p|]; [|reflexivity]. rewrite none_of_app.
  rewrite (decimal_none is_sep _ _ digit_not_sep). reflexivity.
Qed.

Lemma hostport_fields sp a : forallb host_char (r_host a) = true ->
  fields is_colon (render_hostport sp a)
  = (r_host a, match r_tcp a with Some p => [decimal (sp_tcp_zeros sp) p] | None => [] end).
Proof.
  intros H. unfold render_hostport. destruct (r_tcp a) as [p|].
  - cbn [app]. rewrite (fields_app_sep is_colon _ COLON _ (host_none_colon _ H) eq_refl).
    now rewrite (fields_none is_colon _ (decimal_none is_colon _ _ digit_not_colon)).
  - rewrite app_nil_r. apply fields_none. now apply host_none_colon.
Qed.

Definition tcp_reading (t : option Z) : tcp_verdict :=
  match t with Some p => TcpOk p | None => TcpNone end.

(* every spelling of every well-formed route is read back as that route: the reference reader
   recognises exactly what [render] writes (so the grammar and the reader are one specification) *)
Theorem ref_parse_render a sp auto :
  wf_route a = true -> wf_spelling sp a = true ->
  ref_parse auto (render sp a)
  = mkVerdict (r_host a) (tcp_reading (r_tcp a))
              (match hops_of auto (r_shape a) with
               | Some hs => RouteOk hs
               | None => RouteReject OddSegments
               end).
Proof.
  unfold wf_route, wf_spelling. intros Hwf Hsp.
  apply andb_prop in Hwf as [Hwf Hshape]. apply andb_prop in Hwf as [Hhost Htcp].
  apply andb_prop in Hsp as [Hsptcp Hsp].
  rewrite ref_parse_eq. unfold render.
  assert (Hf : fields is_sep (render_hostport sp a ++
                 match r_shape a with
                 | Explicit hs => render_hops (sp_hops sp) hs
                 | SlotOnly n => [sp_slot_sep sp] ++ decimal (sp_slot_zeros sp) n
                 end)
               = (render_hostport sp a,
                  match r_shape a with
                  | Explicit hs => hop_fields (sp_hops sp) hs
                  | SlotOnly n => [decimal (sp_slot_zeros sp) n]
                  end)).
  { destruct (r_shape a) as [hs|n].
    - apply fields_render_hops; [now apply hostport_none_sep|exact Hsp|exact Hshape].
    - apply andb_prop in Hsp as [Hsep _]. cbn [app].
      rewrite (fields_app_sep is_sep _ _ _ (hostport_none_sep sp a Hhost) Hsep).
      now rewrite (fields_none is_sep _ (decimal_none is_sep _ _ digit_not_sep)). }
  rewrite Hf. cbn [fst snd]. rewrite (hostport_fields sp a Hhost). cbn [fst snd]. f_equal.
  - (* TCP port *)
    destruct (r_tcp a) as [p|]; [|reflexivity]. cbn [classify_tcp tcp_reading].
    rewrite (decimal_isdigit _ p). unfold wf_tcp in Htcp.
    rewrite (decimal_dval _ p) by lia. unfold wf_tcp. rewrite Htcp, Hsptcp. reflexivity.
  - (* route *)
    destruct (r_shape a) as [hs|n]; cbn [hops_of wf_shape] in *.
    + destruct hs as [|h hs].
      * destruct (sp_hops sp); cbn [wf_hop_sps] in Hsp; [|discriminate]. reflexivity.
      * pose proof (classify_pairs_render _ _ Hsp Hshape) as Hc.
        pose proof (hop_fields_length _ _ Hsp) as Hl.
        destruct (sp_hops sp) as [|s ss]; cbn [wf_hop_sps] in Hsp; [discriminate|].
        cbn [hop_fields] in *. cbn [classify_route].
        set (fs := render_port (sp_port s) (h_port h) :: render_link (sp_lzeros s) (h_link h) :: hop_fields ss hs) in *.
        rewrite even_odd_len, Hl. replace (Nat.even (2 * List.length (h :: hs))) with true.
        -- exact Hc.
        -- symmetry. apply Nat.even_spec. exists (List.length (h :: hs)). reflexivity.
    + apply andb_prop in Hsp as [_ Hnum]. cbn [classify_route]. destruct auto; [|reflexivity].
      assert (Hl : classify_link (render_link (sp_slot_zeros sp) (Slot n)) = LinkOk (Slot n)).
      { apply classify_link_render; [exact Hshape|exact Hnum]. }
      cbn [render_link] in Hl. now rewrite Hl.
Qed.
