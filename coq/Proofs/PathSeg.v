(* Proofs/PathSeg.v — every segment the encoders of Model/Path.v emit is read back by the strict
   parser of Spec/EPathParser.v as what the caller asked for ([denote]); paths are concatenations.
   The parser is taken with an explicit code [f32] for the 32-bit logical format (2 is CIP) and the
   lemmas ask that the regenerated table of the code ([table_f32]) agrees with it or that no
   4-byte value occurs: values below 2^16 never look at the code.  (Before /repo 7bdd341 the table
   said 3, the reserved code; Proofs/C09P.v [table_f32_cip] is where a regression breaks.) *)
From Coq Require Import String.
From PV Require Import Base.Bytes Base.BytesLemmas Base.Proto Base.Res Base.PyStr Gen.PathTables
     Model.Path Spec.EPathParser Proofs.PathStr.
From Coq Require Import ZifyBool.
Open Scope Z_scope.
Ltac Zify.zify_post_hook ::= Z.to_euclidean_division_equations.

(* the format code the regenerated table gives to 4-byte values *)
Definition table_f32 : Z := match assoc_z 4 logical_format with Some f => f | None => -1 end.

(* ---------------------------------------------------------------- integer encoders *)
Lemma USINT_small z : 0 <= z < 256 -> USINT_encode z = Ok [z].
Proof.
  intros H. unfold USINT_encode, uint_encode, in_urange. change (pow256 1) with 256.
  replace ((0 <=? z) && (z <? 256)) with true by lia. cbn [le_enc]. now rewrite Z.mod_small by lia.
Qed.

Lemma USINT_big z : 256 <= z -> USINT_encode z = Err DataError.
Proof.
  intros H. unfold USINT_encode, uint_encode, in_urange. change (pow256 1) with 256.
  now replace ((0 <=? z) && (z <? 256)) with false by lia.
Qed.

Lemma USINT_neg z : z < 0 -> USINT_encode z = Err DataError.
Proof.
  intros H. unfold USINT_encode, uint_encode, in_urange. change (pow256 1) with 256.
  now replace ((0 <=? z) && (z <? 256)) with false by lia.
Qed.

Lemma UINT_small z : 0 <= z < 65536 -> UINT_encode z = Ok [z mod 256; z / 256].
Proof.
  intros H. unfold UINT_encode, uint_encode, in_urange. change (pow256 2) with 65536.
  replace ((0 <=? z) && (z <? 65536)) with true by lia. cbn [le_enc].
  now rewrite (Z.mod_small (z / 256)) by lia.
Qed.

Lemma UDINT_small z : 0 <= z < 4294967296 ->
  UDINT_encode z = Ok [z mod 256; z / 256 mod 256; z / 256 / 256 mod 256; z / 256 / 256 / 256].
Proof.
  intros H. unfold UDINT_encode, uint_encode, in_urange. change (pow256 4) with 4294967296.
  replace ((0 <=? z) && (z <? 4294967296)) with true by lia. cbn [le_enc].
  now rewrite (Z.mod_small (z / 256 / 256 / 256)) by lia.
Qed.

(* ---------------------------------------------------------------- the parser on one segment *)
(* [enc] is one complete segment reading as [s], whatever follows it *)
Definition seg_parses (f32 : Z) (enc : list Z) (s : sseg) : Prop :=
  exists b body, enc = b :: body /\ forall tail, parse_seg f32 b (body ++ tail) = Some (s, tail).

Lemma parse_segs_concat f32 encs ssegs :
  Forall2 (seg_parses f32) encs ssegs ->
  forall fuel, (length (concat encs) <= fuel)%nat -> parse_segs f32 fuel (concat encs) = Some ssegs.
Proof.
  induction 1 as [|enc s encs ssegs (b & body & -> & Hp) _ IH]; intros fuel Hf.
  - destruct fuel; reflexivity.
  - cbn [concat app] in *. destruct fuel as [|f]; [cbn [length] in Hf; lia|].
    cbn [parse_segs]. rewrite Hp. rewrite IH; [reflexivity|].
    cbn [length] in Hf. rewrite app_length in Hf. lia.
Qed.

Definition ltype_rows : list (Z * Z) := [(0, 0); (4, 1); (8, 2); (12, 3); (16, 4)].   (* type bits, type number *)

Lemma parse_logical8 f32 ty lt v r : In (ty, lt) ltype_rows ->
  parse_seg f32 (Z.lor (Z.lor 32 ty) 0) (v :: r) = Some (SLogical lt v, r).
Proof.
  intros H. cbn [In ltype_rows] in H.
  repeat (destruct H as [H|H]; [injection H as <- <-; reflexivity|]). destruct H.
Qed.

Lemma parse_logical16 f32 ty lt lo hi r : In (ty, lt) ltype_rows ->
  parse_seg f32 (Z.lor (Z.lor 32 ty) 1) (0 :: lo :: hi :: r) = Some (SLogical lt (lo + 256 * hi), r).
Proof.
  intros H. cbn [In ltype_rows] in H.
  repeat (destruct H as [H|H]; [injection H as <- <-; reflexivity|]). destruct H.
Qed.

Lemma parse_logical32 f32 ty lt b0 b1 b2 b3 r : In (ty, lt) ltype_rows -> f32 = 2 \/ f32 = 3 ->
  parse_seg f32 (Z.lor (Z.lor 32 ty) f32) (0 :: b0 :: b1 :: b2 :: b3 :: r)
  = Some (SLogical lt (le_dec [b0; b1; b2; b3]), r).
Proof.
  intros H [-> | ->]; cbn [In ltype_rows] in H;
  repeat (destruct H as [H|H]; [injection H as <- <-; reflexivity|]); destruct H.
Qed.

(* a 32-bit value written with the reserved code 3 is rejected by the CIP parser *)
Lemma parse_logical_reserved ty lt r : In (ty, lt) ltype_rows ->
  parse_seg FORMAT_32BIT (Z.lor (Z.lor 32 ty) 3) r = None.
Proof.
  intros H. cbn [In ltype_rows] in H.
  repeat (destruct H as [H|H]; [injection H as <- <-; reflexivity|]). destruct H.
Qed.

Lemma parse_port_plain f32 n x r : 1 <= n <= 14 -> parse_seg f32 n (x :: r) = Some (SPort n [x], r).
Proof.
  intros H. assert (E : In n [1;2;3;4;5;6;7;8;9;10;11;12;13;14]) by (cbn [In]; lia).
  cbn [In] in E. repeat (destruct E as [<-|E]; [reflexivity|]). destruct E.
Qed.

Lemma take_app (a b : list Z) : take (length a) (a ++ b) = Some (a, b).
Proof.
  unfold take. rewrite app_length.
  replace (Nat.leb (length a) (length a + length b)) with true by (symmetry; apply Nat.leb_le; lia).
  now rewrite firstn_app_exact, skipn_app_exact.
Qed.

Lemma parse_port_ext f32 n lb tail : 1 <= n <= 14 -> 2 <= len lb <= 255 ->
  parse_seg f32 (n + 16) ((len lb :: lb ++ (if Nat.odd (length lb) then [0] else [])) ++ tail)
  = Some (SPort n lb, tail).
Proof.
  intros Hn Hl. unfold parse_seg, parse_port. cbv zeta.
  replace ((n + 16) / 32) with 0 by lia. replace ((n + 16) / 16 mod 2) with 1 by lia.
  replace ((n + 16) mod 16) with n by lia. cbn [Z.eqb Pos.eqb app].
  destruct (n =? 0) eqn:E0; [lia|]. destruct (len lb =? 0) eqn:E1; [lia|].
  destruct (n =? 15) eqn:E2; [lia|].
  unfold len. rewrite Nat2Z.id. rewrite <- app_assoc, take_app.
  replace (Nat.odd (1 + 1 + 0 + length lb)) with (Nat.odd (length lb))
    by (cbn [Nat.add]; now rewrite !Nat.odd_succ, Nat.even_succ).
  destruct (Nat.odd (length lb)); reflexivity.
Qed.

(* port identifier 15: the 16-bit extended port number follows (after the link size byte if any) *)
Lemma parse_port_x f32 lo hi x r : lo + 256 * hi <> 0 ->
  parse_seg f32 15 (lo :: hi :: x :: r) = Some (SPort (lo + 256 * hi) [x], r).
Proof.
  intros H. unfold parse_seg, parse_port. cbv zeta. change (15 / 32) with 0. change (15 / 16 mod 2) with 0.
  change (15 mod 16) with 15. cbn [Z.eqb Pos.eqb].
  destruct (lo + 256 * hi =? 0) eqn:E; [lia|]. reflexivity.
Qed.

Lemma parse_port_x_ext f32 lo hi lb tail : lo + 256 * hi <> 0 -> 2 <= len lb <= 255 ->
  parse_seg f32 31 ((len lb :: lo :: hi :: lb ++ (if Nat.odd (length lb) then [0] else [])) ++ tail)
  = Some (SPort (lo + 256 * hi) lb, tail).
Proof.
  intros H Hl. unfold parse_seg, parse_port. cbv zeta. change (31 / 32) with 0. change (31 / 16 mod 2) with 1.
  change (31 mod 16) with 15. cbn [Z.eqb Pos.eqb app].
  destruct (len lb =? 0) eqn:E1; [lia|]. destruct (lo + 256 * hi =? 0) eqn:E; [lia|].
  unfold len. rewrite Nat2Z.id. rewrite <- app_assoc, take_app.
  replace (Nat.odd (1 + 1 + 2 + length lb)) with (Nat.odd (length lb))
    by (cbn [Nat.add]; repeat (rewrite Nat.odd_succ || rewrite Nat.even_succ); reflexivity).
  destruct (Nat.odd (length lb)); reflexivity.
Qed.

Lemma parse_symbol f32 n tail : 1 <= len n <= 255 ->
  parse_seg f32 145 ((len n :: n ++ (if Nat.odd (length n) then [0] else [])) ++ tail)
  = Some (SSymbol n, tail).
Proof.
  intros Hl. unfold parse_seg, parse_data. cbv zeta. change (145 / 32) with 4. cbn [Z.eqb Pos.eqb app].
  destruct (len n =? 0) eqn:E1; [lia|].
  unfold len. rewrite Nat2Z.id, Zodd_of_nat. rewrite <- app_assoc, take_app.
  destruct (Nat.odd (length n)); reflexivity.
Qed.

(* ---------------------------------------------------------------- tables agree with the spec *)
Lemma logical_types_agree t lt : assoc_text t spec_ltypes = Some lt ->
  exists ty, assoc_text t logical_types = Some ty /\ In (ty, lt) ltype_rows.
Proof.
  intros H. apply assoc_text_in in H. cbn [In spec_ltypes] in H.
  repeat (destruct H as [H|H]; [injection H as <- <-; eexists; split; [reflexivity|cbn [In ltype_rows]; tauto]|]).
  destruct H.
Qed.

Lemma port_names_agree name n : assoc_text name spec_port_names = Some n ->
  assoc_text name port_segments = Some n /\ 1 <= n <= 14.
Proof.
  intros H. apply assoc_text_in in H. cbn [In spec_port_names] in H.
  repeat (destruct H as [H|H]; [injection H as <- <-; split; [reflexivity|lia]|]). destruct H.
Qed.

Lemma ltype_rows_byte ty lt f : In (ty, lt) ltype_rows -> 0 <= f <= 3 -> byte_ok (Z.lor (Z.lor 32 ty) f) = true.
Proof.
  intros H Hf. assert (E : In f [0;1;2;3]) by (cbn [In]; lia). cbn [In ltype_rows] in H, E.
  repeat (destruct H as [H|H]; [injection H as <- <-;
    repeat (destruct E as [<-|E]; [reflexivity|]); destruct E|]). destruct H.
Qed.

(* ---------------------------------------------------------------- LogicalSegment._encode *)
Lemma even_pad k : Nat.even (k + (if Nat.odd k then 1 else 0)) = true.
Proof.
  destruct (Nat.odd k) eqn:E.
  - now rewrite Nat.add_1_r, Nat.even_succ.
  - now rewrite Nat.add_0_r, <- Nat.negb_odd, E.
Qed.

(* the bytes of a logical segment whose value bytes are [vb] (1, 2 or 4 of them) *)
Lemma encode_logical_bytes t ty v vb f :
  assoc_text t logical_types = Some ty -> logical_value_bytes v = Ok vb ->
  assoc_z (len vb) logical_format = Some f -> byte_ok (Z.lor (Z.lor 32 ty) f) = true ->
  encode_seg true (Logical t v)
  = Ok (Z.lor (Z.lor 32 ty) f :: (if Nat.odd (1 + length vb) then [0] else []) ++ vb).
Proof.
  intros Ht Hv Hf Hb. unfold encode_seg, encode_logical, encode_logical_with.
  rewrite Ht, Hv. cbn [bind]. rewrite Hf. change logical_segment_type with 32. rewrite Hb.
  reflexivity.
Qed.

Lemma logical_value_int v : 0 <= v < 4294967296 ->
  logical_value_bytes (LInt v) =
    if v <=? 255 then Ok [v]
    else if v <=? 65535 then Ok [v mod 256; v / 256]
    else Ok [v mod 256; v / 256 mod 256; v / 256 / 256 mod 256; v / 256 / 256 / 256].
Proof.
  intros H. cbn [logical_value_bytes].
  destruct (v <=? 255) eqn:E1; [apply USINT_small; lia|].
  destruct (v <=? 65535) eqn:E2; [apply UINT_small; lia|].
  destruct (v <=? 4294967295) eqn:E3; [apply UDINT_small; lia|lia].
Qed.

Section WithF32.
Variable f32 : Z.
Hypothesis f32_cases : f32 = 2 \/ f32 = 3.

(* [is32 s]: the segment carries a 4-byte logical value *)
Definition is32 (s : seg) : bool :=
  match s with
  | Logical _ (LInt z) => 65536 <=? z
  | Logical _ (LBytes b) => len b =? 4
  | _ => false
  end.
Definition seg_result (s : seg) (ss : sseg) : Prop :=
  exists enc, encode_seg true s = Ok enc /\ seg_parses f32 enc ss
              /\ bytes_ok enc = true /\ Nat.even (length enc) = true.

Lemma logical_ok_gen t v ss :
  denote (Logical t v) = Some ss -> (table_f32 = f32 \/ is32 (Logical t v) = false) ->
  seg_result (Logical t v) ss.
Proof.
  intros Hd Hg. cbn [denote] in Hd.
  destruct (assoc_text t spec_ltypes) as [lt|] eqn:Et; [|discriminate].
  destruct (logical_types_agree _ _ Et) as (ty & Hty & Hrow).
  destruct v as [z|b].
  - destruct ((0 <=? z) && (z <? LOGICAL_LIMIT)) eqn:Er; [|discriminate]. injection Hd as <-.
    unfold LOGICAL_LIMIT in Er. assert (Hz : 0 <= z < 4294967296) by lia.
    pose proof (logical_value_int z Hz) as Hv.
    destruct (z <=? 255) eqn:E1; [|destruct (z <=? 65535) eqn:E2].
    + eexists. split; [apply (encode_logical_bytes t ty _ [z] 0 Hty Hv eq_refl), (ltype_rows_byte _ _ 0 Hrow); lia|].
      cbn [length Nat.add Nat.odd Nat.even negb app]. split; [|split].
      * eexists _, _. split; [reflexivity|]. intros tail. apply (parse_logical8 _ _ _ _ _ Hrow).
      * rewrite bytes_ok_cons, (ltype_rows_byte _ _ 0 Hrow) by lia. cbn [bytes_ok forallb]. unfold byte_ok. lia.
      * reflexivity.
    + eexists. split; [apply (encode_logical_bytes t ty _ _ 1 Hty Hv eq_refl), (ltype_rows_byte _ _ 1 Hrow); lia|].
      cbn [length Nat.add Nat.odd Nat.even negb app]. split; [|split].
      * eexists _, _. split; [reflexivity|]. intros tail. cbn [app].
        rewrite (parse_logical16 _ _ _ _ _ _ Hrow). do 2 f_equal. f_equal. lia.
      * rewrite bytes_ok_cons, (ltype_rows_byte _ _ 1 Hrow) by lia. cbn [bytes_ok forallb]. unfold byte_ok. lia.
      * reflexivity.
    + destruct Hg as [Hg|Hg]; [|cbn [is32] in Hg; lia].
      assert (Hf : assoc_z 4 logical_format = Some f32).
      { unfold table_f32 in Hg. destruct (assoc_z 4 logical_format); [now subst|lia]. }
      eexists. split; [apply (encode_logical_bytes t ty _ _ f32 Hty Hv Hf), (ltype_rows_byte _ _ f32 Hrow); lia|].
      cbn [length Nat.add Nat.odd Nat.even negb app]. split; [|split].
      * eexists _, _. split; [reflexivity|]. intros tail. cbn [app].
        rewrite (parse_logical32 _ _ _ _ _ _ _ _ Hrow f32_cases). do 2 f_equal. f_equal.
        cbn [le_dec]. lia.
      * rewrite bytes_ok_cons, (ltype_rows_byte _ _ f32 Hrow) by lia. cbn [bytes_ok forallb]. unfold byte_ok. lia.
      * reflexivity.
  - destruct (bytes_ok b && ((len b =? 1) || (len b =? 2) || (len b =? 4))) eqn:Er; [|discriminate].
    injection Hd as <-. apply andb_true_iff in Er as [Hb Hl].
    destruct b as [|x0 [|x1 [|x2 [|x3 [|x4 b]]]]]; unfold len in Hl; cbn [length] in Hl; try lia.
    + eexists. split; [apply (encode_logical_bytes t ty (LBytes [x0]) [x0] 0 Hty eq_refl eq_refl), (ltype_rows_byte _ _ 0 Hrow); lia|].
      cbn [length Nat.add Nat.odd Nat.even negb app]. split; [|split].
      * eexists _, _. split; [reflexivity|]. intros tail. cbn [app le_dec].
        rewrite (parse_logical8 _ _ _ _ _ Hrow). do 2 f_equal. f_equal. lia.
      * rewrite bytes_ok_cons, (ltype_rows_byte _ _ 0 Hrow) by lia. exact Hb.
      * reflexivity.
    + eexists. split; [apply (encode_logical_bytes t ty (LBytes [x0; x1]) [x0; x1] 1 Hty eq_refl eq_refl), (ltype_rows_byte _ _ 1 Hrow); lia|].
      cbn [length Nat.add Nat.odd Nat.even negb app]. split; [|split].
      * eexists _, _. split; [reflexivity|]. intros tail. cbn [app le_dec].
        rewrite (parse_logical16 _ _ _ _ _ _ Hrow). do 2 f_equal. f_equal. lia.
      * rewrite bytes_ok_cons, (ltype_rows_byte _ _ 1 Hrow) by lia. exact Hb.
      * reflexivity.
    + destruct Hg as [Hg|Hg]; [|cbn [is32] in Hg; unfold len in Hg; cbn [length] in Hg; lia].
      assert (Hf : assoc_z 4 logical_format = Some f32).
      { unfold table_f32 in Hg. destruct (assoc_z 4 logical_format); [now subst|lia]. }
      eexists. split; [apply (encode_logical_bytes t ty (LBytes [x0; x1; x2; x3]) [x0; x1; x2; x3] f32 Hty eq_refl Hf), (ltype_rows_byte _ _ f32 Hrow); lia|].
      cbn [length Nat.add Nat.odd Nat.even negb app]. split; [|split].
      * eexists _, _. split; [reflexivity|]. intros tail. cbn [app].
        apply (parse_logical32 _ _ _ _ _ _ _ _ Hrow f32_cases).
      * rewrite bytes_ok_cons, (ltype_rows_byte _ _ f32 Hrow) by lia. exact Hb.
      * reflexivity.
Qed.

(* ---------------------------------------------------------------- PortSegment._encode *)
Lemma lor16 n : 0 <= n <= 15 -> Z.lor n 16 = n + 16.
Proof.
  intros H. assert (E : In n [0;1;2;3;4;5;6;7;8;9;10;11;12;13;14;15]) by (cbn [In]; lia).
  cbn [In] in E. repeat (destruct E as [<-|E]; [reflexivity|]). destruct E.
Qed.

Definition resolve_port (port : Z + list Z) : res Z :=
  match port with
  | inl n => Ok n
  | inr name => match assoc_text name port_segments with Some n => Ok n | None => Err (Foreign KeyError) end
  end.

Lemma encode_port_plain port n link x :
  resolve_port port = Ok n -> 0 <= n <= 14 -> port_link_bytes link = Ok [x] ->
  encode_seg true (Port port link) = Ok [n; x].
Proof.
  intros Hp Hn Hl. unfold encode_seg, encode_port, encode_port_with.
  fold (resolve_port port). rewrite Hp, Hl. cbn [bind]. destruct (14 <? n) eqn:E; [lia|]. cbn [bind].
  change (len [x]) with 1. change (1 <? 1) with false. cbn [bind].
  rewrite USINT_small by lia. reflexivity.
Qed.

Lemma encode_port_ext port n link lb :
  resolve_port port = Ok n -> 0 <= n <= 14 -> port_link_bytes link = Ok lb -> 2 <= len lb <= 255 ->
  encode_seg true (Port port link)
  = Ok (n + 16 :: len lb :: lb ++ (if Nat.odd (length lb) then [0] else [])).
Proof.
  intros Hp Hn Hl Hlen. unfold encode_seg, encode_port, encode_port_with.
  fold (resolve_port port). rewrite Hp, Hl. cbn [bind]. destruct (14 <? n) eqn:E14; [lia|]. cbn [bind].
  destruct (1 <? len lb) eqn:E; [|lia]. rewrite (USINT_small (len lb)) by lia. cbn [bind].
  change port_extended_link with 16. rewrite lor16 by lia. rewrite USINT_small by lia. cbn [bind wrap_all].
  unfold odd_len. cbn [app length]. rewrite !Nat.odd_succ, Nat.even_succ. reflexivity.
Qed.

(* ports above 14: identifier 15 + the 16-bit port number *)
Lemma encode_port_x port n link x :
  resolve_port port = Ok n -> 15 <= n <= 65535 -> port_link_bytes link = Ok [x] ->
  encode_seg true (Port port link) = Ok [15; n mod 256; n / 256; x].
Proof.
  intros Hp Hn Hl. unfold encode_seg, encode_port, encode_port_with.
  fold (resolve_port port). rewrite Hp, Hl. cbn [bind]. destruct (14 <? n) eqn:E; [|lia].
  rewrite UINT_small by lia. cbn [bind].
  change (len [x]) with 1. change (1 <? 1) with false. cbn [bind].
  rewrite USINT_small by lia. reflexivity.
Qed.

Lemma encode_port_x_ext port n link lb :
  resolve_port port = Ok n -> 15 <= n <= 65535 -> port_link_bytes link = Ok lb -> 2 <= len lb <= 255 ->
  encode_seg true (Port port link)
  = Ok (31 :: len lb :: n mod 256 :: n / 256 :: lb ++ (if Nat.odd (length lb) then [0] else [])).
Proof.
  intros Hp Hn Hl Hlen. unfold encode_seg, encode_port, encode_port_with.
  fold (resolve_port port). rewrite Hp, Hl. cbn [bind]. destruct (14 <? n) eqn:E14; [|lia].
  rewrite UINT_small by lia. cbn [bind].
  destruct (1 <? len lb) eqn:E; [|lia]. rewrite (USINT_small (len lb)) by lia. cbn [bind].
  change port_extended_link with 16. change (Z.lor 15 16) with 31. rewrite USINT_small by lia. cbn [bind wrap_all].
  unfold odd_len. cbn [app length]. repeat (rewrite Nat.odd_succ || rewrite Nat.even_succ). reflexivity.
Qed.

Lemma denote_link_bytes link lk : denote_link link = Some lk ->
  port_link_bytes link = Ok lk /\ bytes_ok lk = true /\ 1 <= len lk <= 255.
Proof.
  destruct link as [z|s|b]; cbn [denote_link port_link_bytes].
  - destruct ((0 <=? z) && (z <=? 255)) eqn:E; [|discriminate]. intros H. injection H as <-.
    rewrite USINT_small by lia. repeat split; try (unfold len; cbn [length]; lia).
    cbn [bytes_ok forallb]. unfold byte_ok. lia.
  - destruct (isdigit s) eqn:Ed.
    + destruct (isdigit_all s Ed) as [Ha _].
      destruct (digits_val s 0) as [z|] eqn:Ev; [|discriminate].
      destruct ((z <=? 255) && (len s <=? 4300)) eqn:E; [|discriminate]. intros H. injection H as <-.
      pose proof (digits_val_nonneg s 0 z ltac:(lia) Ev) as Hz.
      unfold int_max_str_digits. destruct (len s <=? 4300) eqn:E4; [|lia].
      rewrite USINT_small by lia. repeat split; try (unfold len; cbn [length]; lia).
      cbn [bytes_ok forallb]. unfold byte_ok. lia.
    + change (dotted_quad s) with (ip_v4_ok s). destruct (ip_v4_ok s) eqn:Ei; [|discriminate].
      intros H. injection H as <-. destruct (ip_v4_ok_shape s Ei) as [Ha Hl].
      rewrite utf8_encode_ascii by exact Ha. repeat split; try lia. now apply ascii_bytes_ok.
  - destruct (bytes_ok b && (1 <=? len b) && (len b <=? 255)) eqn:E; [|discriminate].
    intros H. injection H as <-. apply andb_true_iff in E as [E E3]. apply andb_true_iff in E as [E1 E2].
    repeat split; try reflexivity; try assumption; lia.
Qed.

Lemma denote_port_resolve port n : denote_port port = Some n -> resolve_port port = Ok n /\ 1 <= n <= 65535.
Proof.
  destruct port as [k|name]; cbn [denote_port resolve_port].
  - destruct ((1 <=? k) && (k <=? 65535)) eqn:E; [|discriminate]. intros H. injection H as <-.
    split; [reflexivity|lia].
  - intros H. destruct (port_names_agree _ _ H) as [-> Hn]. split; [reflexivity|lia].
Qed.

Lemma pad_even k : Nat.even (k + length (if Nat.odd k then [0] else [])) = true.
Proof.
  replace (length (if Nat.odd k then [0] else [])) with (if Nat.odd k then 1%nat else 0%nat)
    by (destruct (Nat.odd k); reflexivity).
  apply even_pad.
Qed.

Lemma port_ok_gen port link ss : denote (Port port link) = Some ss -> seg_result (Port port link) ss.
Proof.
  intros Hd. cbn [denote] in Hd.
  destruct (denote_port port) as [n|] eqn:Ep; [|discriminate].
  destruct (denote_link link) as [lk|] eqn:El; [|discriminate]. injection Hd as <-.
  destruct (denote_port_resolve port n Ep) as [Hr Hn].
  destruct (denote_link_bytes link lk El) as (Hlb & Hok & Hlen).
  assert (Hsmall : n <= 14 \/ 15 <= n) by lia.
  destruct lk as [|x [|y lk]].
  - unfold len in Hlen. cbn [length] in Hlen. lia.
  - destruct Hsmall as [Hs|Hs].
    + exists [n; x]. split; [apply (encode_port_plain port n link x Hr); [lia|exact Hlb]|]. split; [|split].
      * eexists _, _. split; [reflexivity|]. intros tail. cbn [app]. apply parse_port_plain. lia.
      * rewrite bytes_ok_cons. unfold byte_ok at 1. rewrite Hok. lia.
      * reflexivity.
    + exists [15; n mod 256; n / 256; x]. split; [apply (encode_port_x port n link x Hr); [lia|exact Hlb]|]. split; [|split].
      * eexists _, _. split; [reflexivity|]. intros tail. cbn [app].
        rewrite parse_port_x by lia. do 2 f_equal. f_equal. lia.
      * rewrite !bytes_ok_cons in *. unfold byte_ok at 1 2 3. apply andb_true_iff in Hok as [Hx _].
        rewrite Hx. cbn [bytes_ok forallb]. lia.
      * reflexivity.
  - set (lb := x :: y :: lk) in *.
    assert (Hlen2 : 2 <= len lb <= 255) by (unfold len, lb in *; cbn [length] in *; lia).
    destruct Hsmall as [Hs|Hs].
    + eexists. split; [apply (encode_port_ext port n link lb Hr); [lia|exact Hlb|exact Hlen2]|]. split; [|split].
      * eexists _, _. split; [reflexivity|]. intros tail. apply parse_port_ext; [lia|exact Hlen2].
      * rewrite !bytes_ok_cons, bytes_ok_app, Hok. unfold byte_ok.
        destruct (Nat.odd (length lb)); cbn [bytes_ok forallb]; unfold byte_ok; lia.
      * cbn [length]. rewrite app_length. rewrite !Nat.even_succ, Nat.odd_succ. apply pad_even.
    + eexists. split; [apply (encode_port_x_ext port n link lb Hr); [lia|exact Hlb|exact Hlen2]|]. split; [|split].
      * eexists _, _. split; [reflexivity|]. intros tail.
        rewrite parse_port_x_ext by (lia || exact Hlen2). do 2 f_equal. f_equal. lia.
      * rewrite !bytes_ok_cons, bytes_ok_app, Hok. unfold byte_ok.
        destruct (Nat.odd (length lb)); cbn [bytes_ok forallb]; unfold byte_ok; lia.
      * cbn [length]. rewrite app_length. repeat (rewrite Nat.odd_succ || rewrite Nat.even_succ). apply pad_even.
Qed.

(* ---------------------------------------------------------------- DataSegment._encode (symbol) *)
Lemma sym_ok_gen name ss : denote (DataSym name) = Some ss -> seg_result (DataSym name) ss.
Proof.
  cbn [denote]. destruct (ascii_ok name && (1 <=? len name) && (len name <=? 255)) eqn:E; [|discriminate].
  intros H. injection H as <-. apply andb_true_iff in E as [E E3]. apply andb_true_iff in E as [Ha E2].
  assert (Hl : 1 <= len name <= 255) by lia.
  exists (145 :: len name :: name ++ (if Nat.odd (length name) then [0] else [])). split; [|split; [|split]].
  - unfold encode_seg, encode_data_sym. rewrite (utf8_encode_ascii _ Ha). cbn [bind].
    change (Z.lor data_segment_type data_extended_symbol) with 145.
    rewrite (USINT_small 145) by lia. rewrite (USINT_small (len name)) by lia. cbn [bind wrap_all app].
    unfold odd_len. reflexivity.
  - eexists _, _. split; [reflexivity|]. intros tail. now apply parse_symbol.
  - rewrite !bytes_ok_cons, bytes_ok_app, (ascii_bytes_ok _ Ha). unfold byte_ok.
    destruct (Nat.odd (length name)); cbn [bytes_ok forallb]; unfold byte_ok; lia.
  - cbn [length]. rewrite app_length. rewrite !Nat.even_succ, Nat.odd_succ.
    replace (length (if Nat.odd (length name) then [0] else [])) with (if Nat.odd (length name) then 1%nat else 0%nat)
      by (destruct (Nat.odd (length name)); reflexivity).
    apply even_pad.
Qed.

(* ---------------------------------------------------------------- any segment, any path *)
Definition seg_guard (s : seg) : bool := negb (table_f32 =? f32) && is32 s.

Lemma seg_ok_gen s ss : denote s = Some ss -> seg_guard s = false -> seg_result s ss.
Proof.
  intros Hd Hg. unfold seg_guard in Hg.
  destruct s as [t v|p l|n|b|b]; try discriminate.
  - apply logical_ok_gen; [exact Hd|]. destruct (table_f32 =? f32) eqn:E; [left; lia|right; exact Hg].
  - now apply port_ok_gen.
  - now apply sym_ok_gen.
Qed.

Lemma segs_ok_gen segs : forall ssegs,
  denote_all segs = Some ssegs -> existsb seg_guard segs = false ->
  exists encs, encode_segs true segs = Ok (concat encs) /\ Forall2 (seg_parses f32) encs ssegs
               /\ bytes_ok (concat encs) = true /\ Nat.even (length (concat encs)) = true.
Proof.
  induction segs as [|s segs IH]; intros ssegs Hd Hg.
  - injection Hd as <-. exists []. repeat split. constructor.
  - cbn [denote_all] in Hd. destruct (denote s) as [a|] eqn:Ea; [|discriminate].
    destruct (denote_all segs) as [b|] eqn:Eb; [|discriminate]. injection Hd as <-.
    cbn [existsb] in Hg. apply orb_false_iff in Hg as [Hs Hr].
    destruct (seg_ok_gen s a Ea Hs) as (enc & He & Hp & Hb & Hev).
    destruct (IH b eq_refl Hr) as (encs & Hes & Hps & Hbs & Hevs).
    exists (enc :: encs). cbn [encode_segs concat]. rewrite He, Hes. cbn [bind]. split; [reflexivity|].
    split; [now constructor|]. split.
    + now rewrite bytes_ok_app, Hb, Hbs.
    + rewrite app_length, Nat.even_add, Hev, Hevs. reflexivity.
Qed.

(* the path body: the parser gives back exactly the intended sequence *)
Lemma path_body_ok segs ssegs :
  denote_all segs = Some ssegs -> existsb seg_guard segs = false ->
  exists body, encode_segs true segs = Ok body /\ bytes_ok body = true /\ Nat.even (length body) = true
               /\ parse_padded_epath_with f32 body = Some ssegs.
Proof.
  intros Hd Hg. destruct (segs_ok_gen segs ssegs Hd Hg) as (encs & He & Hp & Hb & Hev).
  exists (concat encs). repeat split; try assumption.
  unfold parse_padded_epath_with. rewrite Hb, Hev. cbn [andb].
  now apply parse_segs_concat.
Qed.

(* EPATH.encode with the word count: emitted iff the count fits its byte *)
Lemma epath_counted_ok segs ssegs pad_length :
  denote_all segs = Some ssegs -> existsb seg_guard segs = false ->
  exists body, encode_segs true segs = Ok body /\ Nat.even (length body) = true
    /\ parse_padded_epath_with f32 body = Some ssegs
    /\ epath_encode true segs true pad_length
       = (if len body / 2 <=? 255
          then Ok (len body / 2 :: (if pad_length then [0] else []) ++ body)
          else Err DataError)
    /\ (len body / 2 <= 255 ->
        parse_counted_with f32 pad_length (len body / 2 :: (if pad_length then [0] else []) ++ body) = Some ssegs).
Proof.
  intros Hd Hg. destruct (path_body_ok segs ssegs Hd Hg) as (body & He & Hb & Hev & Hp).
  exists body. split; [exact He|]. split; [exact Hev|]. split; [exact Hp|].
  assert (H2 : len body = 2 * (len body / 2)).
  { unfold len. apply Nat.even_spec in Hev as [k Hk]. rewrite Hk. lia. }
  split.
  - unfold epath_encode. rewrite He. cbn [bind].
    destruct (len body / 2 <=? 255) eqn:E.
    + rewrite USINT_small by (pose proof (len_nonneg body); lia). reflexivity.
    + rewrite USINT_big by lia. reflexivity.
  - intros _. unfold parse_counted_with. destruct pad_length; cbn [app].
    + destruct (len body =? 2 * (len body / 2)) eqn:E; [exact Hp|lia].
    + destruct (len body =? 2 * (len body / 2)) eqn:E; [exact Hp|lia].
Qed.

End WithF32.
