(* Proofs/ReadBits.v — bit-level lemmas of the C01 vertical.
     bit_extract            bool(v & 1 << b) = testbit v b, for all v (negative too) and b >= 0
     testbit_to_signed      the two's-complement reading has the bits of the unsigned image
     le_dec_testbit         bit 8k+j of a little-endian integer is bit j of byte k
     bits_value_bools       BitArrayType._decode of w bytes = the bits of the bytes, LSB first
     bools_skipn / bools_firstn   the bit list of a byte string is 8 bits per byte
     dword_cover            ceil((bit + n)/32) DWORDs cover bits [bit, bit+n) and stay inside the array
     bool_range             value[bit : bit+n] of the DWORDs read from element 0 = the addressed BOOLs
   No axioms. *)
From Coq Require Import ZifyBool.
From PV Require Import Base.Bytes Base.BytesLemmas Base.PyStr Spec.Project Spec.Expect Model.LogixRead.
Open Scope Z_scope.
Ltac Zify.zify_post_hook ::= Z.to_euclidean_division_equations.

(* ------------------------------------------------------------------ lists *)
Lemma skipn_add {A} (a b : nat) (l : list A) : skipn a (skipn b l) = skipn (b + a) l.
Proof.
  revert l; induction b as [|b IH]; intros l; [reflexivity|].
  destruct l as [|x l]; [destruct a; reflexivity|]. cbn [skipn Nat.add]. apply IH.
Qed.

(* ------------------------------------------------------------------ bit_extract *)
Lemma land_pow2 v b : 0 <= b -> Z.land v (2 ^ b) = if Z.testbit v b then 2 ^ b else 0.
Proof.
  intros Hb. apply Z.bits_inj'. intros n Hn.
  rewrite Z.land_spec.
  destruct (Z.testbit v b) eqn:E.
  - destruct (Z.eq_dec n b) as [->|Hne].
    + rewrite E, Z.pow2_bits_true by lia. reflexivity.
    + rewrite Z.pow2_bits_false by lia. apply andb_false_r.
  - rewrite Z.bits_0. destruct (Z.eq_dec n b) as [->|Hne].
    + rewrite E. reflexivity.
    + rewrite Z.pow2_bits_false by lia. apply andb_false_r.
Qed.

Theorem bit_extract v b : 0 <= b -> negb (Z.land v (Z.shiftl 1 b) =? 0) = Z.testbit v b.
Proof.
  intros Hb. rewrite Z.shiftl_1_l, land_pow2 by assumption.
  destruct (Z.testbit v b); [|reflexivity].
  assert (0 < 2 ^ b) by (apply Z.pow_pos_nonneg; lia).
  destruct (2 ^ b =? 0) eqn:E; [lia|reflexivity].
Qed.

Lemma testbit_sub_pow v k b : 0 <= b < k -> Z.testbit (v - 2 ^ k) b = Z.testbit v b.
Proof.
  intros Hb.
  replace (v - 2 ^ k) with (v + (-1) * 2 ^ k) by lia.
  rewrite <- (Z.mod_pow2_bits_low (v + -1 * 2 ^ k) k b) by lia.
  rewrite Z.mod_add by (apply Z.pow_nonzero; lia).
  apply Z.mod_pow2_bits_low. lia.
Qed.

Lemma pow256_pow2 w : pow256 w = 2 ^ (8 * Z.of_nat w).
Proof. unfold pow256. replace 256 with (2 ^ 8) by reflexivity. rewrite <- Z.pow_mul_r by lia. reflexivity. Qed.

Theorem testbit_to_signed w u b : 0 <= b < 8 * Z.of_nat w -> Z.testbit (to_signed w u) b = Z.testbit u b.
Proof.
  intros Hb. unfold to_signed. destruct (u <? pow256 w / 2); [reflexivity|].
  rewrite pow256_pow2. apply testbit_sub_pow. lia.
Qed.

(* ------------------------------------------------------------------ bits of little-endian integers *)
Lemma testbit_byte_add b r j : 0 <= b < 256 -> 0 <= j < 8 -> Z.testbit (b + 256 * r) j = Z.testbit b j.
Proof.
  intros Hb Hj.
  rewrite <- (Z.mod_pow2_bits_low (b + 256 * r) 8 j) by lia.
  replace (2 ^ 8) with 256 by reflexivity.
  replace (b + 256 * r) with (b + r * 256) by lia.
  rewrite Z.mod_add by lia. rewrite Z.mod_small by lia. reflexivity.
Qed.

Lemma testbit_byte_high b r j : 0 <= b < 256 -> 8 <= j -> Z.testbit (b + 256 * r) j = Z.testbit r (j - 8).
Proof.
  intros Hb Hj.
  replace j with ((j - 8) + 8) at 1 by lia.
  rewrite <- Z.div_pow2_bits by lia.
  replace (2 ^ 8) with 256 by reflexivity.
  replace (b + 256 * r) with (b + r * 256) by lia.
  rewrite Z.div_add by lia. rewrite Z.div_small by lia. reflexivity.
Qed.

Lemma le_dec_testbit bs : bytes_ok bs = true -> forall k j, (k < length bs)%nat -> 0 <= j < 8 ->
  Z.testbit (le_dec bs) (8 * Z.of_nat k + j) = Z.testbit (nth k bs 0) j.
Proof.
  induction bs as [|b r IH]; intros Hok k j Hk Hj; [cbn in Hk; lia|].
  rewrite bytes_ok_cons in Hok. apply andb_prop in Hok. destruct Hok as [Hb Hr].
  apply byte_ok_iff in Hb. cbn [le_dec].
  destruct k as [|k].
  - cbn [nth]. replace (8 * Z.of_nat 0 + j) with j by lia. apply testbit_byte_add; assumption.
  - cbn [nth]. rewrite testbit_byte_high by lia.
    replace (8 * Z.of_nat (S k) + j - 8) with (8 * Z.of_nat k + j) by lia.
    apply IH; [assumption|cbn in Hk; lia|assumption].
Qed.

(* ------------------------------------------------------------------ bit lists *)
Lemma bools_of_byte_length b : length (bools_of_byte b) = 8%nat.
Proof. reflexivity. Qed.

Lemma bools_of_bytes_length bs : length (bools_of_bytes bs) = (8 * length bs)%nat.
Proof.
  unfold bools_of_bytes. induction bs as [|b r IH]; [reflexivity|].
  cbn [flat_map]. rewrite app_length, IH, bools_of_byte_length. cbn [length]. lia.
Qed.

Lemma bools_of_bytes_app a b : bools_of_bytes (a ++ b) = bools_of_bytes a ++ bools_of_bytes b.
Proof. unfold bools_of_bytes. apply flat_map_app. Qed.

Lemma nth_bools_of_bytes bs : forall k j, (k < length bs)%nat -> (j < 8)%nat ->
  nth (8 * k + j) (bools_of_bytes bs) false = Z.testbit (nth k bs 0) (Z.of_nat j).
Proof.
  induction bs as [|b r IH]; intros k j Hk Hj; [cbn in Hk; lia|].
  change (bools_of_bytes (b :: r)) with (bools_of_byte b ++ bools_of_bytes r).
  destruct k as [|k].
  - rewrite app_nth1 by (rewrite bools_of_byte_length; lia).
    replace (8 * 0 + j)%nat with j by lia. cbn [nth].
    unfold bools_of_byte.
    do 8 (destruct j as [|j]; [reflexivity|]). lia.
  - rewrite app_nth2 by (rewrite bools_of_byte_length; lia).
    rewrite bools_of_byte_length. replace (8 * S k + j - 8)%nat with (8 * k + j)%nat by lia.
    cbn [nth]. apply IH; [cbn in Hk; lia|assumption].
Qed.

(* BitArrayType._decode(w bytes): the list of the 8w bits, least significant first *)
Theorem bits_value_bools w d : bytes_ok d = true -> Z.of_nat (length d) = w ->
  bits_value w (le_dec d) = rbools d.
Proof.
  intros Hok Hl. unfold bits_value, rbools. f_equal.
  apply nth_ext with (d := RBool (Z.testbit (le_dec d) (Z.of_nat 0))) (d' := RBool false).
  - rewrite !map_length, seq_length, bools_of_bytes_length. lia.
  - intros n Hn. rewrite map_length, seq_length in Hn.
    rewrite (map_nth (fun i => RBool (Z.testbit (le_dec d) (Z.of_nat i))) _ 0%nat).
    rewrite (map_nth RBool _ false).
    rewrite seq_nth by lia. cbn [Nat.add]. f_equal.
    assert (Hn' : (n < 8 * length d)%nat) by lia.
    replace n with (8 * (n / 8) + n mod 8)%nat at 2 by (symmetry; apply Nat.div_mod_eq).
    rewrite nth_bools_of_bytes.
    + rewrite <- le_dec_testbit.
      * f_equal. pose proof (Nat.div_mod_eq n 8). lia.
      * assumption.
      * apply Nat.div_lt_upper_bound; lia.
      * pose proof (Nat.mod_upper_bound n 8). lia.
    + apply Nat.div_lt_upper_bound; lia.
    + apply Nat.mod_upper_bound. lia.
Qed.

(* the bit list is 8 bits per byte: dropping 8k bits = dropping k bytes *)
Lemma bools_skipn bs k : skipn (8 * k) (bools_of_bytes bs) = bools_of_bytes (skipn k bs).
Proof.
  revert bs; induction k as [|k IH]; intros bs; [reflexivity|].
  destruct bs as [|b r]; [reflexivity|].
  change (bools_of_bytes (b :: r)) with (bools_of_byte b ++ bools_of_bytes r).
  unfold bools_of_byte. cbn [map seq app].
  replace (8 * S k)%nat with (S (S (S (S (S (S (S (S (8 * k)))))))))%nat by lia.
  cbn [skipn]. apply IH.
Qed.

Lemma bools_firstn bs k : firstn (8 * k) (bools_of_bytes bs) = bools_of_bytes (firstn k bs).
Proof.
  revert bs; induction k as [|k IH]; intros bs; [reflexivity|].
  destruct bs as [|b r]; [reflexivity|].
  change (firstn (S k) (b :: r)) with (b :: firstn k r).
  change (bools_of_bytes (b :: r)) with (bools_of_byte b ++ bools_of_bytes r).
  change (bools_of_bytes (b :: firstn k r)) with (bools_of_byte b ++ bools_of_bytes (firstn k r)).
  unfold bools_of_byte. cbn [map seq app].
  replace (8 * S k)%nat with (S (S (S (S (S (S (S (S (8 * k)))))))))%nat by lia.
  cbn [firstn]. rewrite IH. reflexivity.
Qed.

(* ------------------------------------------------------------------ the BOOL-array arithmetic of _parse_tag_request *)
(* elements = total // 32 + (1 if total % 32 else 0) with total = bit + n: the DWORDs read from
   element 0 cover the addressed bits and do not leave the array *)
Theorem dword_cover bit n words :
  0 <= bit -> 1 <= n -> bit + n <= 32 * words ->
  let total := bit + n in
  let elements := total / 32 + (if total mod 32 =? 0 then 0 else 1) in
  1 <= elements <= words /\ bit + n <= 32 * elements /\ 32 * (elements - 1) < bit + n.
Proof.
  intros Hb Hn Hw total elements. subst total elements.
  destruct ((bit + n) mod 32 =? 0) eqn:E; lia.
Qed.

(* value[bit : bit + n] of the bit list of the first 4*elements bytes = the n BOOLs from bit [bit],
   as Spec/Expect.read_place computes them from the bytes b0 .. b1 only *)
Theorem bool_range (img : bytes) off bit n elements :
  0 <= off -> 0 <= bit -> 1 <= n -> bit + n <= 32 * elements ->
  off + 4 * elements <= Z.of_nat (length img) ->
  let d := firstn (Z.to_nat (4 * elements)) (skipn (Z.to_nat off) img) in
  let b0 := bit / 8 in
  let b1 := (bit + n - 1) / 8 in
  let d' := firstn (Z.to_nat (b1 - b0 + 1)) (skipn (Z.to_nat (off + b0)) img) in
  firstn (Z.to_nat n) (skipn (Z.to_nat bit) (bools_of_bytes d))
  = firstn (Z.to_nat n) (skipn (Z.to_nat (bit - 8 * b0)) (bools_of_bytes d')).
Proof.
  intros Ho Hb Hn Hc Hl d b0 b1 d'.
  set (tail := skipn (Z.to_nat off) img).
  assert (Hd' : d' = firstn (Z.to_nat (b1 - b0 + 1)) (skipn (Z.to_nat b0) tail)).
  { subst d' tail. rewrite skipn_add. f_equal. f_equal. subst b0. lia. }
  assert (Htl : (Z.to_nat (4 * elements) <= length tail)%nat).
  { subst tail. rewrite skipn_length. lia. }
  (* skip: bit = 8 b0 + r *)
  replace (Z.to_nat bit) with (8 * Z.to_nat b0 + Z.to_nat (bit - 8 * b0))%nat by (subst b0; lia).
  rewrite <- skipn_add. rewrite bools_skipn.
  set (r := Z.to_nat (bit - 8 * b0)).
  (* both sides: first n bits after r bits of a byte string that starts at byte b0 of tail *)
  assert (Hgen : forall (x y : bytes) m, (8 * length x >= m)%nat ->
            firstn m (bools_of_bytes (x ++ y)) = firstn m (bools_of_bytes x)).
  { intros x y m Hm. rewrite bools_of_bytes_app, firstn_app.
    replace (m - length (bools_of_bytes x))%nat with 0%nat by (rewrite bools_of_bytes_length; lia).
    cbn [firstn]. apply app_nil_r. }
  rewrite <- (firstn_skipn (Z.to_nat (b1 - b0 + 1)) (skipn (Z.to_nat b0) d)).
  assert (Hcommon : firstn (Z.to_nat (b1 - b0 + 1)) (skipn (Z.to_nat b0) d) = d').
  { rewrite Hd'. subst d. fold tail. rewrite skipn_firstn_comm, firstn_firstn. f_equal. subst b0 b1. lia. }
  rewrite Hcommon.
  rewrite bools_of_bytes_app, skipn_app, firstn_app.
  assert (Hlen' : length d' = Z.to_nat (b1 - b0 + 1)).
  { rewrite Hd'. rewrite firstn_length, skipn_length. subst b0 b1. lia. }
  replace (Z.to_nat n - length (skipn r (bools_of_bytes d')))%nat with 0%nat.
  2:{ rewrite skipn_length, bools_of_bytes_length, Hlen'. subst r b0 b1. lia. }
  cbn [firstn]. rewrite app_nil_r. reflexivity.
Qed.

Print Assumptions bit_extract.
Print Assumptions bool_range.
