(* Proofs/ResultsW.v — C03, writes: the fan-out of read-modify-write results, the structure of write plans
   (request ids of RMW packets, group tags), the results dict after _send_requests + fan-out, and
   write() as a MAP over its (request, value) pairs against independent peers. *)
From PV Require Import Base.Bytes Base.Proto Base.Res Base.PyStr Gen.LogixParseGen.
From PV Require Import Model.LogixParse Model.LogixPlan Model.Path Model.LogixResults Proofs.PlanP Proofs.LogixParseP Proofs.ResultsP.
From Coq Require Import Permutation ZifyBool.
Ltac Zify.zify_post_hook ::= Z.to_euclidean_division_equations.
Open Scope Z_scope.



Lemma NoDup_app_inv {A} (l1 l2 : list A) : NoDup (l1 ++ l2) ->
  NoDup l1 /\ NoDup l2 /\ (forall x, In x l1 -> In x l2 -> False).
Proof.
  induction l1 as [|a l1 IH]; cbn; intros H.
  - split; [constructor|]. split; [exact H|]. intros x [].
  - inversion H as [|? ? Hn Hd]; subst. destruct (IH Hd) as [A1 [A2 A3]]. split; [|split; [exact A2|]].
    + constructor; [|exact A1]. intros Hi. apply Hn, in_or_app. now left.
    + intros x [<-|Hx] Hx2; [apply Hn, in_or_app; now right | eapply A3; eassumption].
Qed.

Lemma NoDup_app_intro {A} (l1 l2 : list A) : NoDup l1 -> NoDup l2 -> (forall x, In x l1 -> In x l2 -> False) ->
  NoDup (l1 ++ l2).
Proof.
  induction l1 as [|a l1 IH]; cbn; intros H1 H2 HD; [exact H2|].
  inversion H1 as [|? ? Hn Hd]; subst. constructor.
  - intros Hi. apply in_app_or in Hi. destruct Hi as [Hi|Hi]; [contradiction | eapply HD; [now left | exact Hi]].
  - apply IH; [exact Hd | exact H2 | intros x Hx; apply HD; now right].
Qed.

(* ------------------------------------------------------------------ fan-out of read-modify-write results *)
Lemma rlookup_app_map i t ids rs :
  rlookup i (map (fun j => (j, t)) ids ++ rs) = if in_dec Z.eq_dec i ids then Some t else rlookup i rs.
Proof.
  induction ids as [|j ids IH]; [reflexivity|]. cbn [map app rlookup].
  destruct (j =? i) eqn:E.
  - assert (j = i) by lia. subst. destruct (in_dec Z.eq_dec i (i :: ids)) as [_|n]; [reflexivity|]. exfalso. apply n. now left.
  - rewrite IH. destruct (in_dec Z.eq_dec i ids) as [a|n]; destruct (in_dec Z.eq_dec i (j :: ids)) as [a'|n']; try reflexivity.
    + exfalso. apply n'. now right.
    + exfalso. destruct a' as [->|a']; [lia | contradiction].
Qed.

Lemma rlookup_rremove i k rs : rlookup i (rremove k rs) = if i =? k then None else rlookup i rs.
Proof.
  induction rs as [|[j v] rs IH]; cbn [rremove filter rlookup fst]; [now destruct (i =? k)|].
  destruct (j =? k) eqn:E; cbn [negb].
  - fold (rremove k rs). rewrite IH. destruct (i =? k) eqn:E2; [reflexivity|]. destruct (j =? i) eqn:E3; [lia | reflexivity].
  - cbn [rlookup]. fold (rremove k rs). rewrite IH. destruct (j =? i) eqn:E3; [|reflexivity].
    destruct (i =? k) eqn:E2; [lia | reflexivity].
Qed.

Definition rids_of (ps : list packet) : list Z :=
  flat_map (fun pk => match pk with PRmw rid _ => [rid] | _ => [] end) ps.
Definition rmw_members (ps : list packet) : list Z :=
  flat_map (fun pk => match pk with PRmw _ ids => ids | _ => [] end) ps.

Lemma rids_of_In ps rid ids : In (PRmw rid ids) ps -> In rid (rids_of ps).
Proof. intros H. unfold rids_of. apply in_flat_map. exists (PRmw rid ids). split; [exact H | now left]. Qed.
Lemma rmw_members_In ps rid ids i : In (PRmw rid ids) ps -> In i ids -> In i (rmw_members ps).
Proof. intros H Hi. unfold rmw_members. apply in_flat_map. exists (PRmw rid ids). split; [exact H | exact Hi]. Qed.
Lemma rmw_members_inv ps i : In i (rmw_members ps) -> exists rid ids, In (PRmw rid ids) ps /\ In i ids.
Proof.
  unfold rmw_members. intros H. apply in_flat_map in H. destruct H as [pk [Hpk Hi]].
  destruct pk; try contradiction. eauto.
Qed.

Lemma fan_out_lookup : forall ps rs,
  NoDup (rids_of ps) -> (forall rid, In rid (rids_of ps) -> rid < 0) ->
  NoDup (rmw_members ps) -> (forall i, In i (rmw_members ps) -> 0 <= i) ->
  (forall rid, In rid (rids_of ps) -> rlookup rid rs <> None) ->
  exists rs', fold_left fan_out_one ps (Ok rs) = Ok rs'
    /\ (forall rid ids i, In (PRmw rid ids) ps -> In i ids -> rlookup i rs' = rlookup rid rs)
    /\ (forall i, 0 <= i -> ~ In i (rmw_members ps) -> rlookup i rs' = rlookup i rs).
Proof.
  induction ps as [|pk ps IH]; intros rs ND NEG NDM POS PRES.
  - exists rs. split; [reflexivity|]. split; [intros ? ? ? []|]. auto.
  - cbn [fold_left].
    destruct pk as [ids|j|j|rid ids].
    1-3: (cbn [fan_out_one bind]; cbn [rids_of rmw_members flat_map app] in *;
          destruct (IH rs ND NEG NDM POS PRES) as [rs' [E [A B]]]; exists rs'; split; [exact E|]; split;
          [intros rid0 ids0 i [H|H]; [discriminate | eauto] | exact B]).
    cbn [rids_of rmw_members flat_map app] in *. fold (rids_of ps) in *. fold (rmw_members ps) in *.
    inversion ND as [|? ? Hnr ND']; subst.
    destruct (NoDup_app_inv _ _ NDM) as [_ [NDM' DISJ]].
    cbn [fan_out_one bind].
    destruct (rlookup rid rs) as [t|] eqn:ET; [|exfalso; eapply PRES; [now left | exact ET]].
    set (rs1 := map (fun i => (i, t)) ids ++ rremove rid rs).
    assert (L1 : forall x, rlookup x rs1 = if in_dec Z.eq_dec x ids then Some t else if x =? rid then None else rlookup x rs).
    { intros x. unfold rs1. rewrite rlookup_app_map, rlookup_rremove. reflexivity. }
    destruct (IH rs1) as [rs' [E [A B]]]; try assumption.
    + intros r Hr. apply NEG. now right.
    + intros i Hi. apply POS. apply in_or_app. now right.
    + intros r Hr. rewrite L1. destruct (in_dec Z.eq_dec r ids) as [a|_]; [discriminate|].
      destruct (r =? rid) eqn:E; [exfalso; apply Hnr; assert (r = rid) by lia; now subst|]. apply PRES. now right.
    + exists rs'. split; [exact E|]. split.
      * intros rid0 ids0 i [H|H] Hi.
        -- inversion H; subst rid0 ids0. rewrite B.
           ++ rewrite L1. destruct (in_dec Z.eq_dec i ids) as [_|n]; [now rewrite ET | contradiction].
           ++ apply POS. apply in_or_app. now left.
           ++ intros Hm. eapply DISJ; eassumption.
        -- rewrite (A rid0 ids0 i H Hi), L1.
           assert (Hr0 : In rid0 (rids_of ps)) by (eapply rids_of_In, H).
           destruct (in_dec Z.eq_dec rid0 ids) as [a|_].
           ++ exfalso. assert (rid0 < 0) by (apply NEG; now right). assert (0 <= rid0) by (apply POS, in_or_app; now left). lia.
           ++ destruct (rid0 =? rid) eqn:E2; [exfalso; apply Hnr; assert (rid0 = rid) by lia; now subst | reflexivity].
      * intros i Hi Hn. rewrite B; [|exact Hi | intros Hm; apply Hn, in_or_app; now right].
        rewrite L1. destruct (in_dec Z.eq_dec i ids) as [a|_]; [exfalso; apply Hn, in_or_app; now left|].
        destruct (i =? rid) eqn:E2; [|reflexivity]. exfalso. assert (rid < 0) by (apply NEG; now left). lia.
Qed.

(* ------------------------------------------------------------------ the keys bound by a plan *)
Lemma stored_keys_split : forall ps x, In x (flat_map stored_keys ps) -> In x (plan_ids ps) \/ In x (rids_of ps).
Proof.
  induction ps as [|pk ps IH]; intros x H; [contradiction|].
  unfold plan_ids, rids_of in *. cbn [flat_map] in *. apply in_app_or in H. destruct H as [H|H].
  - destruct pk; cbn [stored_keys packet_ids] in *; try (left; apply in_or_app; now left).
    right. apply in_or_app. now left.
  - destruct (IH x H) as [A|A]; [left | right]; apply in_or_app; now right.
Qed.

Lemma stored_keys_NoDup : forall ps,
  NoDup (plan_ids ps) -> NoDup (rids_of ps) ->
  (forall i, In i (plan_ids ps) -> 0 <= i) -> (forall r, In r (rids_of ps) -> r < 0) ->
  NoDup (flat_map stored_keys ps).
Proof.
  induction ps as [|pk ps IH]; intros NDP NDR POS NEG; [constructor|].
  unfold plan_ids, rids_of in *. cbn [flat_map] in *.
  destruct (NoDup_app_inv _ _ NDP) as [P1 [P2 P3]].
  assert (POS' : forall i, In i (flat_map packet_ids ps) -> 0 <= i) by (intros i Hi; apply POS, in_or_app; now right).
  assert (NEG' : forall r, In r (flat_map (fun pk => match pk with PRmw rid _ => [rid] | _ => [] end) ps) -> r < 0)
    by (intros r Hr; apply NEG, in_or_app; now right).
  destruct pk as [ids|j|j|rid ids]; cbn [stored_keys packet_ids] in *.
  1-3: (cbn [app] in NDR, NEG; apply NoDup_app_intro; [exact P1 | apply IH; assumption |];
        intros x Hx Hy; destruct (stored_keys_split ps x Hy) as [A|A];
        [eapply P3; eassumption | assert (x < 0) by (apply NEG', A); assert (0 <= x) by (apply POS, in_or_app; now left); lia]).
  cbn [app] in *. inversion NDR as [|? ? Hn Hd]; subst. constructor; [|apply IH; assumption].
  intros Hy. destruct (stored_keys_split ps rid Hy) as [A|A]; [|contradiction].
  assert (rid < 0) by (apply NEG; now left). assert (0 <= rid) by (apply POS', A). lia.
Qed.

(* ------------------------------------------------------------------ read-modify-write groups of the multi planner *)
Lemma zs_eqb_eq : forall a b, LogixPlan.zs_eqb a b = true -> a = b.
Proof.
  induction a as [|x a IH]; destruct b as [|y b]; cbn; intros H; try discriminate; [reflexivity|].
  apply andb_prop in H. destruct H as [H1 H2]. f_equal; [lia | now apply IH].
Qed.

Definition bw_entry_ok (ws : list wreq) (e : list Z * (Z * list Z)) : Prop :=
  snd (snd e) <> [] /\ forall i, In i (snd (snd e)) ->
    exists w, In w ws /\ w_id w = i /\ w_err w = false /\ w_bit w = true /\ w_tag w = fst e.
Definition bw_rids (bw : list (list Z * (Z * list Z))) : list Z := map (fun e => fst (snd e)) bw.
Definition rid_inv (bw : list (list Z * (Z * list Z))) : Prop :=
  NoDup (bw_rids bw) /\ Forall (fun r => - Z.of_nat (length bw) <= r <= -1) (bw_rids bw).

Lemma rmw_add_ok ws w n : forall bw, In w ws -> w_err w = false -> w_bit w = true ->
  Forall (bw_entry_ok ws) bw -> Forall (bw_entry_ok ws) (rmw_add (w_tag w) (w_id w) n bw).
Proof.
  intros bw Hw He Hb. induction bw as [|[t [rid ids]] bw IH]; intros H; cbn [rmw_add].
  - constructor; [|constructor]. split; cbn; [discriminate|]. intros i [<-|[]]. exists w. auto.
  - inversion H as [|? ? H1 H2]; subst. destruct (LogixPlan.zs_eqb t (w_tag w)) eqn:E.
    + constructor; [|exact H2]. destruct H1 as [A B]. cbn in *. split; [destruct ids; discriminate|].
      intros i Hi. apply in_app_or in Hi. destruct Hi as [Hi|[<-|[]]]; [auto|].
      exists w. apply zs_eqb_eq in E. auto.
    + constructor; [exact H1 | apply IH, H2].
Qed.

Lemma rmw_add_rids tag id n : forall bw,
  (bw_rids (rmw_add tag id n bw) = bw_rids bw /\ length (rmw_add tag id n bw) = length bw)
  \/ (bw_rids (rmw_add tag id n bw) = bw_rids bw ++ [- (1 + n)] /\ length (rmw_add tag id n bw) = S (length bw)).
Proof.
  induction bw as [|[t [rid ids]] bw IH]; cbn [rmw_add].
  - right. split; reflexivity.
  - destruct (LogixPlan.zs_eqb t tag).
    + left. split; reflexivity.
    + destruct IH as [[A B]|[A B]]; [left | right]; cbn [bw_rids map length] in *; unfold bw_rids in A; rewrite A, B; split; reflexivity.
Qed.

Lemma rid_inv_add tag id bw : rid_inv bw -> rid_inv (rmw_add tag id (Z.of_nat (length bw)) bw).
Proof.
  intros [ND FA]. destruct (rmw_add_rids tag id (Z.of_nat (length bw)) bw) as [[A B]|[A B]]; unfold rid_inv; rewrite A, B.
  - split; assumption.
  - split.
    + apply NoDup_app_intro; [exact ND | constructor; [intros [] | constructor] |].
      intros x Hx [<-|[]]. rewrite Forall_forall in FA. specialize (FA _ Hx). lia.
    + apply Forall_app. split.
      * eapply Forall_impl; [|exact FA]. intros r Hr. cbn beta in *. lia.
      * constructor; [lia | constructor].
Qed.

Lemma write_scan_bw conn ws : forall reqs bw frags wr,
  (forall w, In w reqs -> In w ws) -> Forall (bw_entry_ok ws) bw -> rid_inv bw ->
  let '(bw', _, _) := write_scan conn reqs bw frags wr in Forall (bw_entry_ok ws) bw' /\ rid_inv bw'.
Proof.
  induction reqs as [|w reqs IH]; intros bw frags wr Hin Hok Hrid; cbn [write_scan]; [split; assumption|].
  assert (Hin' : forall w0, In w0 reqs -> In w0 ws) by (intros w0 H0; apply Hin; now right).
  destruct (w_err w) eqn:Ee; [apply IH; assumption|].
  destruct (w_bit w) eqn:Eb.
  - apply IH; [exact Hin' | apply rmw_add_ok; auto; apply Hin; now left | apply rid_inv_add, Hrid].
  - destruct (w_enc_err w); [apply IH; assumption|].
    destruct (w_fragm conn w); apply IH; assumption.
Qed.

(* facts about the read-modify-write packets of a write plan *)
Definition rmw_facts (ws : list wreq) (plan : list packet) : Prop :=
  forall rid ids, In (PRmw rid ids) plan ->
    rid < 0 /\ ids <> [] /\ exists t, forall i, In i ids ->
      exists w, In w ws /\ w_id w = i /\ w_err w = false /\ w_bit w = true /\ w_tag w = t.

Lemma multi_plan_rmw conn ws :
  rmw_facts ws (write_build_multi conn ws) /\ NoDup (rids_of (write_build_multi conn ws)).
Proof.
  unfold write_build_multi.
  pose proof (write_scan_bw conn ws ws [] [] [] (fun w H => H) (Forall_nil _)) as H.
  assert (R0 : rid_inv []) by (split; constructor). specialize (H R0).
  destruct (write_scan conn ws [] [] []) as [[bw frags] wr]. destruct H as [Hok [ND FA]].
  assert (RID : rids_of (map PMulti (filter (fun g => negb (is_nil g)) (groups conn wr)) ++ map PFrag frags
                         ++ map (fun e : list Z * (Z * list Z) => PRmw (fst (snd e)) (snd (snd e))) bw) = bw_rids bw).
  { unfold rids_of. rewrite !flat_map_app.
    assert (A : forall l, flat_map (fun pk => match pk with PRmw rid _ => [rid] | _ => [] end) (map PMulti l) = []) by (induction l; auto).
    assert (B : forall l, flat_map (fun pk => match pk with PRmw rid _ => [rid] | _ => [] end) (map PFrag l) = []) by (induction l; auto).
    assert (C : forall l : list (list Z * (Z * list Z)),
              flat_map (fun pk => match pk with PRmw rid _ => [rid] | _ => [] end)
                       (map (fun e : list Z * (Z * list Z) => PRmw (fst (snd e)) (snd (snd e))) l) = bw_rids l).
    { induction l as [|e l IHl]; [reflexivity|]. cbn [map flat_map app bw_rids]. f_equal. exact IHl. }
    rewrite A, B, C. reflexivity. }
  split; [|rewrite RID; exact ND].
  intros rid ids Hin. apply in_app_or in Hin. destruct Hin as [Hin|Hin].
  { apply in_map_iff in Hin. destruct Hin as [g [Hg _]]. discriminate. }
  apply in_app_or in Hin. destruct Hin as [Hin|Hin].
  { apply in_map_iff in Hin. destruct Hin as [g [Hg _]]. discriminate. }
  apply in_map_iff in Hin. destruct Hin as [[t [rid' ids']] [He Hin]]. cbn in He. inversion He; subst rid' ids'.
  rewrite Forall_forall in Hok, FA. destruct (Hok _ Hin) as [A B]. cbn in A, B.
  split; [|split; [exact A | exists t; exact B]].
  assert (In rid (bw_rids bw)) by (unfold bw_rids; apply in_map_iff; exists (t, (rid, ids)); auto).
  specialize (FA _ H). lia.
Qed.

(* ------------------------------------------------------------------ the single planner *)
Lemma single_plan_ids conn : forall ws, plan_ids (filter_map (write_build_single conn) ws) = map w_id (wvalid ws).
Proof.
  unfold wvalid. induction ws as [|w ws IH]; [reflexivity|]. cbn [filter_map filter].
  unfold write_build_single at 1. destruct (w_err w); cbn [negb andb]; [exact IH|].
  destruct (w_bit w); cbn [orb].
  - unfold plan_ids in *. cbn [flat_map packet_ids map app]. now rewrite IH.
  - destruct (w_enc_err w); cbn [negb]; [exact IH|].
    unfold plan_ids in *. destruct (w_val w + w_msg w >? conn); cbn [flat_map packet_ids map app]; now rewrite IH.
Qed.

Lemma single_plan_rmw conn : forall ws, (forall w, In w ws -> 0 <= w_id w) ->
  rmw_facts ws (filter_map (write_build_single conn) ws).
Proof.
  intros ws POS rid ids Hin.
  assert (G : forall l, In (PRmw rid ids) (filter_map (write_build_single conn) l) ->
              exists w, In w l /\ rid = - (1 + w_id w) /\ ids = [w_id w] /\ w_err w = false /\ w_bit w = true).
  { induction l as [|w l IH]; intros H; [contradiction|]. cbn [filter_map] in H.
    unfold write_build_single at 1 in H. destruct (w_err w) eqn:Ee.
    - destruct (IH H) as [w0 [A B]]. exists w0. split; [now right | exact B].
    - destruct (w_bit w) eqn:Eb.
      + destruct H as [H|H]; [inversion H; subst; exists w; repeat split; auto; now left|].
        destruct (IH H) as [w0 [A B]]. exists w0. split; [now right | exact B].
      + destruct (w_enc_err w).
        * destruct (IH H) as [w0 [A B]]. exists w0. split; [now right | exact B].
        * destruct H as [H|H]; [destruct (w_val w + w_msg w >? conn); discriminate|].
          destruct (IH H) as [w0 [A B]]. exists w0. split; [now right | exact B]. }
  destruct (G ws Hin) as [w [Hw [-> [-> [He Hb]]]]]. split; [specialize (POS w Hw); lia|]. split; [discriminate|].
  exists (w_tag w). intros i [<-|[]]. exists w. auto.
Qed.

Definition bit_ws (ws : list wreq) : list wreq := filter (fun w => negb (w_err w) && w_bit w) ws.

Lemma single_plan_rids conn : forall ws,
  rids_of (filter_map (write_build_single conn) ws) = map (fun w => - (1 + w_id w)) (bit_ws ws).
Proof.
  unfold bit_ws. induction ws as [|w ws IH]; [reflexivity|]. cbn [filter_map filter].
  unfold write_build_single at 1. destruct (w_err w); cbn [negb andb]; [exact IH|].
  destruct (w_bit w).
  - unfold rids_of in *. cbn [flat_map app map]. now rewrite IH.
  - destruct (w_enc_err w); [exact IH|]. unfold rids_of in *.
    destruct (w_val w + w_msg w >? conn); cbn [flat_map app]; exact IH.
Qed.

Lemma single_plan_rids_NoDup conn ws : NoDup (map w_id ws) -> NoDup (rids_of (filter_map (write_build_single conn) ws)).
Proof.
  intros ND. rewrite single_plan_rids. unfold bit_ws.
  assert (H : NoDup (map w_id (filter (fun w => negb (w_err w) && w_bit w) ws))) by (apply NoDup_map_filter, ND).
  revert H. generalize (filter (fun w => negb (w_err w) && w_bit w) ws). intros l.
  induction l as [|w l IH]; intros H; [constructor|]. cbn [map] in *. inversion H as [|? ? Hn Hd]; subst.
  constructor; [|apply IH, Hd]. intros Hin. apply Hn. apply in_map_iff in Hin. destruct Hin as [w' [E Hw']].
  apply in_map_iff. exists w'. split; [lia | exact Hw'].
Qed.

(* ------------------------------------------------------------------ map helpers *)
Lemma map_eq_length {A B} (h : A -> B) l l' : map h l = l' -> length l' = length l.
Proof. intros <-. apply map_length. Qed.

Lemma map_eq_map {A B C} (h : A -> B) (g : B -> C) (k : A -> C) l l' :
  map h l = l' -> (forall a b, In a l -> h a = b -> g b = k a) -> map g l' = map k l.
Proof. intros <- H. rewrite map_map. apply map_ext_in. intros a Ha. now apply H. Qed.

Lemma map_In_both {A B} (h : A -> B) l l' : map h l = l' ->
  (forall a, In a l -> exists b, In b l' /\ h a = b) /\ (forall b, In b l' -> exists a, In a l /\ h a = b).
Proof.
  intros <-. split.
  - intros a Ha. exists (h a). split; [now apply in_map | reflexivity].
  - intros b Hb. apply in_map_iff in Hb. destruct Hb as [a [E Ha]]. eauto.
Qed.

Section W.
Variable enc_body : parsed -> uval -> option Z.

(* ------------------------------------------------------------------ encode_value keeps everything but `elements` *)
Lemma encode_value_fields p v n p' : encode_value enc_body p v = Some (n, p') ->
  user_tag p' = user_tag p /\ plc_tag p' = plc_tag p /\ bit p' = bit p /\ tag_info p' = tag_info p
  /\ bool_elements p' = bool_elements p.
Proof.
  unfold encode_value. destruct (uv_bytes v); [intros H; inversion H; subst; tauto|].
  destruct (is_dword_name (tag_info p)).
  - destruct (negb _); [discriminate|]. destruct (enc_body _ v); [|discriminate]. intros H; inversion H; subst. cbn. tauto.
  - destruct (enc_body p v); [|discriminate]. intros H; inversion H; subst. tauto.
Qed.

(* a BOOL-array write that does not start on a DWORD boundary cannot be encoded *)
Lemma misaligned_bool_write p v : uv_bytes v = None -> is_dword_name (tag_info p) = true ->
  or0 (bit p) mod dword_bits <> 0 -> encode_value enc_body p v = None.
Proof.
  intros Hb Hd Hm. unfold encode_value. rewrite Hb, Hd.
  destruct (or0 (bit p) mod dword_bits =? 0) eqn:E; [lia | reflexivity].
Qed.

(* ------------------------------------------------------------------ the state of one request after building *)
Definition wstate_of (c : cfg) (q : preq) (v : uval) : wstate := snd (mk_wreq enc_body c (q, v)).

Definition st_valid (st : wstate) : bool := match st with WBit => true | WVal _ => true | _ => false end.

Lemma mk_wreq_spec c q v w st : mk_wreq enc_body c (q, v) = (w, st) ->
  st = wstate_of c q v /\ w_id w = q_id q
  /\ (negb (w_err w) && (w_bit w || negb (w_enc_err w))) = st_valid st
  /\ w_bit w = (match st with WBit => true | _ => false end)
  /\ (forall p, q_parsed q = inl p -> w_err w = false -> w_tag w = plc_tag p).
Proof.
  intros H. unfold wstate_of. rewrite H. split; [reflexivity|]. revert H.
  unfold mk_wreq. destruct (q_parsed q) as [p|e].
  - destruct (is_bit_write p).
    + destruct (rmw_build c p); intros H; inversion H; subst; cbn; repeat split; try discriminate.
      intros p0 Hp _; now inversion Hp.
    + destruct (encode_value enc_body p v) as [[n p']|].
      * destruct (write_msg_len c p' n); intros H; inversion H; subst; cbn; repeat split; try discriminate.
        intros p0 Hp _; now inversion Hp.
      * intros H; inversion H; subst. cbn. repeat split. intros p0 Hp _; now inversion Hp.
  - intros H; inversion H; subst. cbn. repeat split. intros p0 Hp; discriminate.
Qed.

Lemma run_write_eq c db P tvs r : run_write enc_body c db P tvs = Ok r ->
  let qs := parse_requested_tags db RwWrite (map fst tvs) in
  let qvs := combine qs (map snd tvs) in
  exists plan sts rs, write_build enc_body c qvs = (plan, sts)
    /\ fan_out plan (send_requests (plc_of qs) P plan) = Ok rs
    /\ r = shape (map (assemble_write (uses_multi c (length tvs)) rs) (combine qvs sts)).
Proof.
  unfold run_write. cbn zeta.
  destruct (write_build enc_body c _) as [plan sts] eqn:EB.
  destruct (fan_out plan _) as [rs|e] eqn:EO; cbn; [|discriminate].
  intros H; inversion H. exists plan, sts, rs. auto.
Qed.

Lemma combine_length_eq {A B} (a : list A) (b : list B) : length a = length b -> length (combine a b) = length a.
Proof. intros H. rewrite combine_length. lia. Qed.

Lemma write_build_lengths c qvs plan sts : write_build enc_body c qvs = (plan, sts) -> length sts = length qvs.
Proof. unfold write_build. intros H; inversion H; subst. now rewrite !map_length. Qed.

Theorem write_result_shape c db P tvs r : run_write enc_body c db P tvs = Ok r ->
  length (results_of r) = length tvs
  /\ (length tvs = 1%nat -> exists t, r = ROne t)
  /\ (length tvs <> 1%nat -> exists l, r = RList l /\ length l = length tvs).
Proof.
  intros H. destruct (run_write_eq _ _ _ _ _ H) as [plan [sts [rs [HB [_ ->]]]]].
  set (l := map _ _).
  assert (HL : length l = length tvs).
  { unfold l. rewrite map_length. pose proof (write_build_lengths _ _ _ _ HB) as HS.
    assert (HQ : length (combine (parse_requested_tags db RwWrite (map fst tvs)) (map snd tvs)) = length tvs).
    { rewrite combine_length_eq; rewrite parse_requested_length, !map_length; reflexivity. }
    rewrite combine_length_eq; congruence. }
  rewrite results_of_shape. split; [exact HL|]. split; intros Hn.
  - apply shape_one. congruence.
  - exists l. split; [apply shape_list; congruence | exact HL].
Qed.

(* ------------------------------------------------------------------ the call as a map over its (request, value) pairs *)
Fixpoint qvs_from (db : tagdb) (i : Z) (tvs : list (request * uval)) : list (preq * uval) :=
  match tvs with
  | [] => []
  | tv :: r => (mkPreq i (fst tv) (parse_request_obj db RwWrite (fst tv)), snd tv) :: qvs_from db (i + 1) r
  end.

Lemma qvs_from_eq db : forall tvs i,
  combine (parse_requested_from db RwWrite i (map fst tvs)) (map snd tvs) = qvs_from db i tvs.
Proof. induction tvs as [|tv tvs IH]; intros i; cbn; [reflexivity | now rewrite IH]. Qed.

Lemma qvs_from_length db : forall tvs i, length (qvs_from db i tvs) = length tvs.
Proof. induction tvs as [|tv tvs IH]; intros i; cbn; [reflexivity | now rewrite IH]. Qed.

Definition dflt_tv : request * uval := (ReqOther TypeError, mkUval 0 true false None).

Lemma qvs_from_nth db : forall tvs i k d, (k < length tvs)%nat ->
  nth k (qvs_from db i tvs) d
  = (mkPreq (i + Z.of_nat k) (fst (nth k tvs dflt_tv)) (parse_request_obj db RwWrite (fst (nth k tvs dflt_tv))),
     snd (nth k tvs dflt_tv)).
Proof.
  induction tvs as [|tv tvs IH]; intros i k d Hk; cbn [length] in Hk; [lia|].
  destruct k as [|k]; cbn [qvs_from nth].
  - do 2 f_equal. lia.
  - rewrite IH by lia. do 2 f_equal. lia.
Qed.

Lemma qvs_from_ids db : forall tvs i, map (fun qv => q_id (fst qv)) (qvs_from db i tvs) = zseq i (length tvs).
Proof. induction tvs as [|tv tvs IH]; intros i; cbn; [reflexivity | now rewrite IH]. Qed.

Lemma combine_map_self {A B} (h : A -> B) : forall l, combine l (map h l) = map (fun x => (x, h x)) l.
Proof. induction l as [|a l IH]; cbn; [reflexivity | now rewrite IH]. Qed.

Lemma write_build_states c qvs plan sts : write_build enc_body c qvs = (plan, sts) ->
  sts = map (fun qv => wstate_of c (fst qv) (snd qv)) qvs.
Proof.
  unfold write_build. intros H; inversion H; subst. rewrite map_map. apply map_ext. intros [q v]. reflexivity.
Qed.

(* ------------------------------------------------------------------ names of any peer *)
Lemma wstate_of_eq c q v :
  wstate_of c q v =
  match q_parsed q with
  | inr _ => WParseErr
  | inl p =>
      if is_bit_write p then match rmw_build c p with Ok _ => WBit | Err e => WBuildErr e end
      else match encode_value enc_body p v with
           | None => WEncErr
           | Some (n, p') => match write_msg_len c p' n with Ok _ => WVal p' | Err e => WBuildErr e end
           end
  end.
Proof.
  unfold wstate_of, mk_wreq. destruct (q_parsed q) as [p|e]; [|reflexivity].
  destruct (is_bit_write p); [destruct (rmw_build c p); reflexivity|].
  destruct (encode_value enc_body p v) as [[n p']|]; [|reflexivity]. destruct (write_msg_len c p' n); reflexivity.
Qed.

Lemma assemble_write_name c multi rs q v :
  let t := assemble_write multi rs (q, v, wstate_of c q v) in
  (t_tag t = q_request q /\ truthy t = false)
  \/ (exists p, q_parsed q = inl p /\ t_tag t = ReqText (user_tag p)).
Proof.
  cbn zeta. unfold assemble_write. rewrite wstate_of_eq. destruct (q_parsed q) as [p|e] eqn:EP; [|left; split; reflexivity].
  destruct (is_bit_write p).
  - destruct (rmw_build c p); [|left; split; reflexivity].
    destruct (rlookup (q_id q) rs); [right; exists p; split; reflexivity | left; split; reflexivity].
  - destruct (encode_value enc_body p v) as [[n p']|] eqn:EE; [|left; split; reflexivity].
    destruct (write_msg_len c p' n); [|left; split; reflexivity].
    destruct (rlookup (q_id q) rs); [|left; split; reflexivity].
    right. exists p. split; [reflexivity|]. cbn. destruct (encode_value_fields _ _ _ _ EE) as [-> _]. reflexivity.
Qed.

Theorem write_result_names c db P tvs r : run_write enc_body c db P tvs = Ok r ->
  forall k, (k < length tvs)%nat ->
    let t := nth k (results_of r) (exc_tag (ReqOther TypeError) TypeError) in
    let rq := fst (nth k tvs dflt_tv) in
    (t_tag t = rq /\ truthy t = false)
    \/ (exists s, rq = ReqText s /\ t_tag t = ReqText (drop_count s)).
Proof.
  intros H k Hk. destruct (run_write_eq _ _ _ _ _ H) as [plan [sts [rs [HB [_ ->]]]]]. rewrite results_of_shape.
  rewrite (write_build_states _ _ _ _ HB). unfold parse_requested_tags. rewrite qvs_from_eq, combine_map_self, map_map.
  set (F := fun x : preq * uval => assemble_write (uses_multi c (length tvs)) rs (x, wstate_of c (fst x) (snd x))).
  rewrite (nth_indep _ _ (F (dflt_q, snd dflt_tv))) by (rewrite map_length, qvs_from_length; exact Hk).
  rewrite (map_nth F). rewrite qvs_from_nth by exact Hk. unfold F. cbn [fst snd]. cbn zeta.
  set (rq := fst (nth k tvs dflt_tv)). set (v := snd (nth k tvs dflt_tv)).
  set (q := mkPreq (0 + Z.of_nat k) rq (parse_request_obj db RwWrite rq)).
  destruct (assemble_write_name c (uses_multi c (length tvs)) rs q v) as [A|[p [EP A]]]; [left; exact A|].
  right. cbn [q_parsed q] in EP. destruct rq as [s|x]; cbn [parse_request_obj] in EP; [|discriminate].
  exists s. split; [reflexivity|]. rewrite A. f_equal. eapply user_tag_is_request_without_count, EP.
Qed.

Definition build_prefix (multi : bool) : text := if multi then err_build else err_encoding_single.

(* requests that cannot succeed before anything is sent: a falsy Tag with the request as name and a
   non-empty error: parse errors; unencodable / too short values, misaligned BOOL-array writes; packets
   that cannot be built (malformed or out-of-range index, element count that is not a UINT, a bit of a
   non-elementary type, a bit number outside the type) *)
Theorem write_invalid_falsy c db P tvs r : run_write enc_body c db P tvs = Ok r ->
  forall k, (k < length tvs)%nat ->
    let t := nth k (results_of r) (exc_tag (ReqOther TypeError) TypeError) in
    let rq := fst (nth k tvs dflt_tv) in
    let v := snd (nth k tvs dflt_tv) in
    let multi := uses_multi c (length tvs) in
    (forall e, parse_request_obj db RwWrite rq = inr e ->
       t = mkTag rq VNone None (Some (perr_text e)) /\ truthy t = false /\ perr_text e <> [])
    /\ (forall p, parse_request_obj db RwWrite rq = inl p -> is_bit_write p = false ->
          encode_value enc_body p v = None ->
          t = mkTag rq VNone None (Some (enc_err_text multi)) /\ truthy t = false /\ enc_err_text multi <> [])
    /\ (forall p e, parse_request_obj db RwWrite rq = inl p -> is_bit_write p = true -> rmw_build c p = Err e ->
          t = build_err_tag rq (build_prefix multi) e /\ truthy t = false)
    /\ (forall p n p' e, parse_request_obj db RwWrite rq = inl p -> is_bit_write p = false ->
          encode_value enc_body p v = Some (n, p') -> write_msg_len c p' n = Err e ->
          t = build_err_tag rq (build_prefix multi) e /\ truthy t = false).
Proof.
  intros H k Hk. destruct (run_write_eq _ _ _ _ _ H) as [plan [sts [rs [HB [_ ->]]]]]. rewrite results_of_shape.
  rewrite (write_build_states _ _ _ _ HB). unfold parse_requested_tags. rewrite qvs_from_eq, combine_map_self, map_map.
  set (F := fun x : preq * uval => assemble_write (uses_multi c (length tvs)) rs (x, wstate_of c (fst x) (snd x))).
  rewrite (nth_indep _ _ (F (dflt_q, snd dflt_tv))) by (rewrite map_length, qvs_from_length; exact Hk).
  rewrite (map_nth F). rewrite qvs_from_nth by exact Hk. unfold F. cbn [fst snd]. cbn zeta.
  unfold assemble_write. rewrite wstate_of_eq. cbn [q_parsed q_request q_id]. split; [|split; [|split]].
  - intros e ->. split; [reflexivity|]. split; [reflexivity | apply perr_text_nonempty].
  - intros p -> Hb ->. rewrite Hb. split; [reflexivity|]. split; [reflexivity|].
    destruct (uses_multi c (length tvs)); cbn; discriminate.
  - intros p e -> Hb ->. rewrite Hb. split; reflexivity.
  - intros p n p' e -> Hb -> ->. rewrite Hb. split; reflexivity.
Qed.

(* a bit write to a tag whose type is not elementary, and a bit number outside the type, cannot be built *)
Lemma rmw_build_rejects c p :
  (rmw_mask_size (tag_info p) = None -> exists e, rmw_build c p = Err e)
  /\ (forall z, rmw_mask_size (tag_info p) = Some z -> is_dword_name (tag_info p) = false -> z * 8 <= or0 (bit p) ->
        exists e, rmw_build c p = Err e).
Proof.
  unfold rmw_build. split.
  - intros ->. destruct (tag_path c _ _); cbn; eauto.
  - intros z -> -> Hb. destruct (tag_path c _ _); cbn; [|eauto]. destruct (z =? 0); [eauto|].
    destruct ((0 <=? or0 (bit p)) && (or0 (bit p) <? z * 8)) eqn:E; [lia | eauto].
Qed.

(* ------------------------------------------------------------------ independent peers *)
Variable f : parsed -> uval -> reply.     (* the reply to a Write Tag service of (parsed after encode_value, value) *)
Variable g : text -> reply.               (* the reply to a read-modify-write of the tag with this plc name *)

Definition wreply (c : cfg) (qvs : list (preq * uval)) (i : Z) : reply :=
  match List.find (fun qv => q_id (fst qv) =? i) qvs with
  | Some (q, v) => match wstate_of c q v with
                   | WVal p' => f p' v
                   | WBit => match q_parsed q with inl p => g (plc_tag p) | inr _ => no_reply_ end
                   | _ => no_reply_
                   end
  | None => no_reply_
  end.
Definition is_rid (rid : Z) (pk : packet) : bool := match pk with PRmw r _ => r =? rid | _ => false end.
Definition rmw_reply (names : Z -> option text) (plan : list packet) (rid : Z) : reply :=
  match List.find (is_rid rid) plan with
  | Some (PRmw _ ids) => g (rmw_tag names ids)
  | _ => no_reply_
  end.
Definition wone (c : cfg) (qs : list preq) (qvs : list (preq * uval)) (plan : list packet) (i : Z) : reply :=
  if i <? 0 then rmw_reply (plc_of qs) plan i else wreply c qvs i.
Definition wpeer (c : cfg) (qs : list preq) (qvs : list (preq * uval)) (plan : list packet) : peer :=
  mkPeer (wone c qs qvs plan) (map (wone c qs qvs plan)) (fun _ => None).

(* the peer of a write() call: the plan of that call decides which packet carries which request *)
Definition wpeer_of (c : cfg) (db : tagdb) (tvs : list (request * uval)) : peer :=
  let qs := parse_requested_tags db RwWrite (map fst tvs) in
  let qvs := combine qs (map snd tvs) in
  wpeer c qs qvs (fst (write_build enc_body c qvs)).

Definition reply_error (r : reply) : option text := if rp_ok r then None else Some (rp_error r).
Lemma tag_of_reply_error n r : t_error (tag_of_reply n r) = reply_error r.
Proof. unfold tag_of_reply, reply_error. now destruct (rp_ok r). Qed.

(* what write() returns for ONE (request, value), as a function of that pair only (and of which
   planner ran, which decides the wording of an encoding error) *)
Definition write_outcome (c : cfg) (multi : bool) (tv : request * uval) (pr : parsed + perr) : tag :=
  match pr with
  | inr e => mkTag (fst tv) VNone None (Some (perr_text e))
  | inl p =>
      if is_bit_write p then
        match rmw_build c p with
        | Err e => build_err_tag (fst tv) (build_prefix multi) e
        | Ok _ => mkTag (ReqText (user_tag p)) (VUser (snd tv)) (Some (write_type p)) (reply_error (g (plc_tag p)))
        end
      else match encode_value enc_body p (snd tv) with
           | None => mkTag (fst tv) VNone None (Some (enc_err_text multi))
           | Some (n, p') =>
               match write_msg_len c p' n with
               | Err e => build_err_tag (fst tv) (build_prefix multi) e
               | Ok _ => mkTag (ReqText (user_tag p')) (VUser (snd tv)) (Some (write_type p')) (reply_error (f p' (snd tv)))
               end
           end
  end.

Lemma find_by_id (qvs : list (preq * uval)) : NoDup (map (fun qv => q_id (fst qv)) qvs) ->
  forall qv, In qv qvs -> List.find (fun x => q_id (fst x) =? q_id (fst qv)) qvs = Some qv.
Proof.
  induction qvs as [|a l IH]; intros ND qv H; [contradiction|]. cbn [List.find].
  cbn [map] in ND. inversion ND as [|? ? Hn ND']; subst. destruct H as [->|H].
  - now rewrite Z.eqb_refl.
  - destruct (q_id (fst a) =? q_id (fst qv)) eqn:E; [|apply IH; assumption].
    exfalso. apply Hn. assert (q_id (fst a) = q_id (fst qv)) by lia. rewrite H0.
    apply (in_map (fun x => q_id (fst x))) in H. exact H.
Qed.

Lemma find_rid plan rid ids : NoDup (rids_of plan) -> In (PRmw rid ids) plan ->
  List.find (is_rid rid) plan = Some (PRmw rid ids).
Proof.
  induction plan as [|pk plan IH]; intros ND H; [contradiction|]. cbn [List.find].
  destruct H as [->|H].
  - cbn [is_rid]. now rewrite Z.eqb_refl.
  - destruct pk as [l|j|j|r l]; cbn [is_rid]; try (apply IH; [exact ND | exact H]).
    unfold rids_of in ND. cbn [flat_map app] in ND. inversion ND as [|? ? Hn ND']; subst.
    destruct (r =? rid) eqn:E; [|apply IH; assumption].
    exfalso. apply Hn. assert (r = rid) by lia. subst. eapply rids_of_In, H.
Qed.

Lemma non_rmw_not_member : forall plan pk i, NoDup (plan_ids plan) -> In pk plan -> is_rmw pk = false ->
  In i (packet_ids pk) -> ~ In i (rmw_members plan).
Proof.
  induction plan as [|a plan IH]; intros pk i ND Hpk HR Hi; [contradiction|].
  unfold plan_ids in ND. cbn [flat_map] in ND. destruct (NoDup_app_inv _ _ ND) as [N1 [N2 N3]].
  unfold rmw_members. cbn [flat_map]. intros Hm. apply in_app_or in Hm.
  destruct Hpk as [->|Hpk].
  - destruct Hm as [Hm|Hm]; [destruct pk; try contradiction; discriminate|].
    apply rmw_members_inv in Hm. destruct Hm as [rid [ids [Hin Hi2]]].
    eapply N3; [exact Hi|]. apply in_flat_map. exists (PRmw rid ids). split; [exact Hin | exact Hi2].
  - destruct Hm as [Hm|Hm].
    + destruct a; try contradiction. eapply N3; [exact Hm|]. apply in_flat_map. exists pk. split; [exact Hpk | exact Hi].
    + eapply (IH pk i N2 Hpk HR Hi). exact Hm.
Qed.

Lemma rmw_members_sub : forall plan i, In i (rmw_members plan) -> In i (plan_ids plan).
Proof.
  intros plan i H. apply rmw_members_inv in H. destruct H as [rid [ids [Hin Hi]]].
  unfold plan_ids. apply in_flat_map. exists (PRmw rid ids). split; [exact Hin | exact Hi].
Qed.

Lemma NoDup_sublist_members : forall plan, NoDup (plan_ids plan) -> NoDup (rmw_members plan).
Proof.
  induction plan as [|pk plan IH]; intros ND; [constructor|].
  unfold plan_ids in ND. cbn [flat_map] in ND. destruct (NoDup_app_inv _ _ ND) as [N1 [N2 N3]].
  unfold rmw_members. cbn [flat_map]. fold (rmw_members plan).
  destruct pk; cbn [app]; try (apply IH, N2).
  apply NoDup_app_intro; [exact N1 | apply IH, N2|].
  intros x Hx Hm. eapply N3; [exact Hx | apply rmw_members_sub, Hm].
Qed.

Lemma unique_by_w_id : forall ws w w', NoDup (map w_id ws) -> In w ws -> In w' ws -> w_id w = w_id w' -> w = w'.
Proof.
  induction ws as [|a ws IH]; intros w w' ND H H' E; [contradiction|].
  cbn [map] in ND. inversion ND as [|? ? Hn ND']; subst.
  destruct H as [->|H], H' as [->|H']; [reflexivity | | |eapply IH; eassumption].
  - exfalso. apply Hn. rewrite E. now apply in_map.
  - exfalso. apply Hn. rewrite <- E. now apply in_map.
Qed.

Lemma mk_wreq_err c q v w st : mk_wreq enc_body c (q, v) = (w, st) -> w_err w = false ->
  exists p, q_parsed q = inl p.
Proof.
  unfold mk_wreq. destruct (q_parsed q) as [p|e]; [eauto|]. intros H; inversion H; subst. cbn. discriminate.
Qed.

Lemma wstate_bit c q v p : q_parsed q = inl p -> wstate_of c q v = WBit -> is_bit_write p = true.
Proof.
  intros EP. rewrite wstate_of_eq, EP. destruct (is_bit_write p); [reflexivity|].
  destruct (encode_value enc_body p v) as [[n p']|]; [destruct (write_msg_len c p' n)|]; discriminate.
Qed.

(* everything the proof needs to know about the plan of a write() call *)
Record plan_facts (qs : list preq) (qvs : list (preq * uval)) (ws : list wreq) (plan : list packet) : Prop := {
  pf_nodup : NoDup (plan_ids plan);
  pf_valid : forall i, In i (plan_ids plan) <-> In i (map w_id (wvalid ws));
  pf_rmw : rmw_facts ws plan;
  pf_rids : NoDup (rids_of plan)
}.

Section Lookup.
  Variables (c : cfg) (qvs : list (preq * uval)) (wsst : list (wreq * wstate)) (plan : list packet).
  Let qs := map fst qvs.
  Let ws := map fst wsst.
  Hypothesis NDq : NoDup (map q_id qs).
  Hypothesis POSq : forall q, In q qs -> 0 <= q_id q.
  Hypothesis EW : map (mk_wreq enc_body c) qvs = wsst.
  Hypothesis PF : plan_facts qs qvs ws plan.

  Let P := wpeer c qs qvs plan.
  Let S := send_requests (plc_of qs) P plan.

  Lemma NDqv : NoDup (map (fun qv => q_id (fst qv)) qvs).
  Proof. unfold qs in NDq. rewrite map_map in NDq. exact NDq. Qed.

  Lemma ws_ids : map w_id ws = map q_id qs.
  Proof.
    unfold ws, qs. rewrite !map_map.
    apply (map_eq_map _ (fun x => w_id (fst x)) (fun x => q_id (fst x)) _ _ EW).
    intros [q v] [w st] _ Hm. cbn. now destruct (mk_wreq_spec _ _ _ _ _ Hm) as [_ [-> _]].
  Qed.

  Lemma NDw : NoDup (map w_id ws).
  Proof. rewrite ws_ids. exact NDq. Qed.

  (* the wreq of a request *)
  Lemma wreq_of q v : In (q, v) qvs -> exists w st, In (w, st) wsst /\ In w ws /\ mk_wreq enc_body c (q, v) = (w, st).
  Proof.
    intros H. destruct (map_In_both _ _ _ EW) as [I1 _]. destruct (I1 _ H) as [[w st] [Hb E]].
    exists w, st. split; [exact Hb|]. split; [|exact E]. unfold ws. apply (in_map fst) in Hb. exact Hb.
  Qed.

  (* the request of a wreq *)
  Lemma req_of w : In w ws -> exists q v st, In (q, v) qvs /\ mk_wreq enc_body c (q, v) = (w, st).
  Proof.
    intros H. unfold ws in H. apply in_map_iff in H. destruct H as [[w' st] [<- Hin]].
    destruct (map_In_both _ _ _ EW) as [_ I2]. destruct (I2 _ Hin) as [[q v] [Ha E]]. exists q, v, st. auto.
  Qed.

  Lemma plan_ids_nonneg i : In i (plan_ids plan) -> 0 <= i.
  Proof.
    intros H. apply (pf_valid _ _ _ _ PF) in H. apply in_map_iff in H. destruct H as [w [<- Hw]].
    unfold wvalid in Hw. apply filter_In in Hw. destruct Hw as [Hw _].
    assert (In (w_id w) (map q_id qs)) by (rewrite <- ws_ids; now apply in_map).
    apply in_map_iff in H. destruct H as [q [<- Hq]]. now apply POSq.
  Qed.

  Lemma plan_names_w i : In i (plan_ids plan) -> plc_of qs i = Some (name_of qs i).
  Proof.
    intros H. apply (pf_valid _ _ _ _ PF) in H. apply in_map_iff in H. destruct H as [w [<- Hw]].
    unfold wvalid in Hw. apply filter_In in Hw. destruct Hw as [Hw Hv].
    destruct (req_of w Hw) as [q [v [st [Hqv E]]]].
    destruct (mk_wreq_spec _ _ _ _ _ E) as [_ [Hid _]].
    assert (Herr : w_err w = false) by (destruct (w_err w); [discriminate | reflexivity]).
    destruct (mk_wreq_err _ _ _ _ _ E Herr) as [p EP].
    assert (Hq : In q qs) by (unfold qs; apply (in_map fst) in Hqv; exact Hqv).
    unfold name_of, plc_of. rewrite Hid, (find_q_In qs q NDq Hq), EP. reflexivity.
  Qed.

  Lemma rids_neg r : In r (rids_of plan) -> r < 0.
  Proof.
    unfold rids_of. intros H. apply in_flat_map in H. destruct H as [pk [Hpk Hr]].
    destruct pk; try contradiction. destruct Hr as [<-|[]]. now destruct (pf_rmw _ _ _ _ PF _ _ Hpk).
  Qed.

  Lemma keys_nodup : NoDup (flat_map stored_keys plan).
  Proof.
    apply stored_keys_NoDup; [apply (pf_nodup _ _ _ _ PF) | apply (pf_rids _ _ _ _ PF) | apply plan_ids_nonneg | apply rids_neg].
  Qed.

  Lemma P_indep : independent P.
  Proof. intros ids. reflexivity. Qed.

  Lemma S_bindings_nodup : NoDup (map fst S).
  Proof.
    unfold S. rewrite send_requests_eq, map_rev. apply NoDup_rev.
    rewrite (flat_map_keys (plc_of qs) P (name_of qs) P_indep plan plan_names_w). apply keys_nodup.
  Qed.

  Lemma S_rid rid ids : In (PRmw rid ids) plan ->
    rlookup rid S = Some (tag_of_reply (rmw_tag (plc_of qs) ids) (g (rmw_tag (plc_of qs) ids))).
  Proof.
    intros H. apply rlookup_NoDup_In; [apply S_bindings_nodup|].
    unfold S. rewrite send_requests_eq, <- in_rev. apply in_flat_map. exists (PRmw rid ids). split; [exact H|].
    cbn [packet_results]. left. do 2 f_equal. cbn [p_one P wpeer]. unfold wone.
    assert (rid < 0) by (apply rids_neg; eapply rids_of_In, H).
    destruct (rid <? 0) eqn:E; [|lia]. unfold rmw_reply. now rewrite (find_rid plan rid ids (pf_rids _ _ _ _ PF) H).
  Qed.

  (* the group tag of a read-modify-write packet is the plc tag of each of its requests *)
  Lemma rmw_group_tag rid ids q v p : In (PRmw rid ids) plan -> In (q, v) qvs -> q_parsed q = inl p -> In (q_id q) ids ->
    rmw_tag (plc_of qs) ids = plc_tag p /\ is_bit_write p = true.
  Proof.
    intros Hpk Hqv EP Hin. destruct (pf_rmw _ _ _ _ PF _ _ Hpk) as [_ [Hne [t0 Hmem]]].
    (* this request *)
    destruct (wreq_of q v Hqv) as [w [st [_ [Hw E]]]].
    destruct (mk_wreq_spec _ _ _ _ _ E) as [Hst [Hid [_ [Hbit Htag]]]].
    destruct (Hmem _ Hin) as [w' [Hw' [Hid' [He' [Hb' Ht']]]]].
    assert (w' = w) by (eapply unique_by_w_id; [apply NDw | exact Hw' | exact Hw | congruence]). subst w'.
    assert (Hbw : is_bit_write p = true).
    { apply (wstate_bit c q v p EP). rewrite <- Hst. rewrite Hb' in Hbit. destruct st; try discriminate. reflexivity. }
    split; [|exact Hbw].
    (* the first request of the group *)
    destruct ids as [|i0 ids']; [congruence|]. cbn [rmw_tag].
    destruct (Hmem i0 (or_introl eq_refl)) as [w0 [Hw0 [Hid0 [He0 [_ Ht0]]]]].
    destruct (req_of w0 Hw0) as [q0 [v0 [st0 [Hqv0 E0]]]].
    destruct (mk_wreq_spec _ _ _ _ _ E0) as [_ [Hidq0 [_ [_ Htag0]]]]. destruct (mk_wreq_err _ _ _ _ _ E0 He0) as [p0 EP0].
    assert (Hq0 : In q0 qs) by (unfold qs; apply (in_map fst) in Hqv0; exact Hqv0).
    unfold plc_of. rewrite <- Hid0, Hidq0, (find_q_In qs q0 NDq Hq0), EP0.
    rewrite <- (Htag0 p0 EP0 He0), Ht0, <- Ht', (Htag p EP He'). reflexivity.
  Qed.

  Lemma fan_out_ok : exists rs, fan_out plan S = Ok rs
    /\ (forall rid ids i, In (PRmw rid ids) plan -> In i ids -> rlookup i rs = rlookup rid S)
    /\ (forall i, 0 <= i -> ~ In i (rmw_members plan) -> rlookup i rs = rlookup i S).
  Proof.
    apply fan_out_lookup.
    - apply (pf_rids _ _ _ _ PF).
    - apply rids_neg.
    - apply NoDup_sublist_members, (pf_nodup _ _ _ _ PF).
    - intros i Hi. apply plan_ids_nonneg, rmw_members_sub, Hi.
    - intros rid Hr. unfold rids_of in Hr. apply in_flat_map in Hr. destruct Hr as [pk [Hpk Hr]].
      destruct pk; try contradiction. destruct Hr as [<-|[]]. rewrite (S_rid _ _ Hpk). discriminate.
  Qed.

  (* the result bound to a valid request after _send_requests and the fan-out *)
  Lemma write_lookup rs q v p :
    fan_out plan S = Ok rs -> In (q, v) qvs -> q_parsed q = inl p ->
    (is_bit_write p = true -> rmw_build c p = Ok tt ->
       exists t, rlookup (q_id q) rs = Some t /\ t_error t = reply_error (g (plc_tag p)))
    /\ (forall n p' m, is_bit_write p = false -> encode_value enc_body p v = Some (n, p') -> write_msg_len c p' n = Ok m ->
       exists t, rlookup (q_id q) rs = Some t /\ t_error t = reply_error (f p' v)).
  Proof.
    intros HF Hqv EP. destruct fan_out_ok as [rs' [HF' [FA FB]]]. rewrite HF in HF'. inversion HF'; subst rs'. clear HF'.
    destruct (wreq_of q v Hqv) as [w [st [_ [Hw E]]]].
    destruct (mk_wreq_spec _ _ _ _ _ E) as [Hst [Hid [Hval [Hbit Htag]]]].
    assert (Hq : In q qs) by (unfold qs; apply (in_map fst) in Hqv; exact Hqv).
    assert (POS : 0 <= q_id q) by now apply POSq.
    (* the reply of the peer to this request's own id *)
    assert (HP : p_one P (q_id q) = wreply c qvs (q_id q)).
    { cbn [p_one P wpeer]. unfold wone. destruct (q_id q <? 0) eqn:E0; [lia | reflexivity]. }
    assert (HWR : wreply c qvs (q_id q) = match wstate_of c q v with
                                          | WVal p' => f p' v | WBit => g (plc_tag p) | _ => no_reply_ end).
    { unfold wreply. pose proof (find_by_id qvs NDqv (q, v) Hqv) as Hf. cbn [fst] in Hf. rewrite Hf, EP. reflexivity. }
    (* a valid request is in exactly one packet *)
    assert (VALID : st_valid st = true -> exists t, rlookup (q_id q) rs = Some t
              /\ (t_error t = reply_error (match wstate_of c q v with WVal p' => f p' v | WBit => g (plc_tag p) | _ => no_reply_ end)
                  \/ (t_error t = reply_error (g (plc_tag p)) /\ is_bit_write p = true))).
    { intros Hv.
      assert (Hin : In (q_id q) (plan_ids plan)).
      { apply (pf_valid _ _ _ _ PF). rewrite <- Hid. apply in_map. unfold wvalid. apply filter_In. split; [exact Hw|]. now rewrite Hval. }
      destruct (in_plan_packet plan _ Hin) as [pk [Hpk Hi]].
      destruct (is_rmw pk) eqn:ER.
      - destruct pk as [| | |rid ids]; try discriminate. cbn [packet_ids] in Hi.
        destruct (rmw_group_tag rid ids q v p Hpk Hqv EP Hi) as [HT HB].
        rewrite (FA rid ids (q_id q) Hpk Hi), (S_rid rid ids Hpk), HT.
        eexists. split; [reflexivity|]. right. split; [apply tag_of_reply_error | exact HB].
      - rewrite (FB (q_id q) POS (non_rmw_not_member plan pk (q_id q) (pf_nodup _ _ _ _ PF) Hpk ER Hi)).
        unfold S. rewrite (send_lookup (plc_of qs) P (name_of qs) plan (q_id q) P_indep plan_names_w keys_nodup).
        + eexists. split; [reflexivity|]. left. rewrite tag_of_reply_error, HP, HWR. reflexivity.
        + exists pk. auto. }
    split.
    - intros HB HR. assert (Hs : wstate_of c q v = WBit) by (rewrite wstate_of_eq, EP, HB, HR; reflexivity).
      rewrite Hs in VALID. rewrite Hst, Hs in VALID. destruct (VALID eq_refl) as [t [A [B|[B _]]]]; eauto.
    - intros n p' m HB HE HM.
      assert (Hs : wstate_of c q v = WVal p') by (rewrite wstate_of_eq, EP, HB, HE, HM; reflexivity).
      rewrite Hs in VALID. rewrite Hst, Hs in VALID. destruct (VALID eq_refl) as [t [A [B|[B C]]]]; [eauto | congruence].
  Qed.
End Lookup.
End W.

(* ------------------------------------------------------------------ the plan of an actual call *)
Section Final.
Variable enc_body : parsed -> uval -> option Z.

Lemma Permutation_in_iff (l l' : list Z) : Permutation l l' -> forall x, In x l <-> In x l'.
Proof. intros H x. split; intros Hx; [eapply Permutation_in; [exact H | exact Hx] | eapply Permutation_in; [apply Permutation_sym, H | exact Hx]]. Qed.

Lemma plan_facts_of c qvs :
  NoDup (map q_id (map fst qvs)) -> (forall q, In q (map fst qvs) -> 0 <= q_id q) ->
  let ws := map fst (map (mk_wreq enc_body c) qvs) in
  let plan := write_build_requests (c_conn c) (c_micro800 c) ws in
  plan_facts (map fst qvs) qvs ws plan.
Proof.
  intros ND POS ws plan.
  assert (Hids : map w_id ws = map q_id (map fst qvs)).
  { unfold ws. rewrite !map_map. apply map_ext. intros [q v].
    destruct (mk_wreq enc_body c (q, v)) as [w st] eqn:E. cbn [fst]. exact (proj1 (proj2 (mk_wreq_spec _ _ _ _ _ _ E))). }
  assert (NDw : NoDup (map w_id ws)) by (rewrite Hids; exact ND).
  assert (POSw : forall w, In w ws -> 0 <= w_id w).
  { intros w Hw. apply (in_map w_id) in Hw. rewrite Hids in Hw. apply in_map_iff in Hw. destruct Hw as [q [<- Hq]]. now apply POS. }
  assert (NDv : NoDup (map w_id (wvalid ws))) by (unfold wvalid; apply NoDup_map_filter, NDw).
  unfold plan, write_build_requests.
  destruct (negb (length ws =? 1)%nat && negb (c_micro800 c)).
  - pose proof (write_multi_partition (c_conn c) ws) as PP. destruct (multi_plan_rmw (c_conn c) ws) as [F1 F2].
    constructor; [eapply Permutation_NoDup; [apply Permutation_sym, PP | exact NDv] | apply Permutation_in_iff, PP | exact F1 | exact F2].
  - constructor.
    + rewrite single_plan_ids. exact NDv.
    + rewrite single_plan_ids. tauto.
    + apply single_plan_rmw, POSw.
    + apply single_plan_rids_NoDup, NDw.
Qed.

Lemma rlookup_some_of_key i : forall rs, In i (map fst rs) -> rlookup i rs <> None.
Proof.
  induction rs as [|[k v] rs IH]; cbn; intros H; [contradiction|].
  destruct (k =? i) eqn:E; [discriminate|]. destruct H as [H|H]; [lia | auto].
Qed.

Lemma combine_fst {A B} : forall (a : list A) (b : list B), length a = length b -> map fst (combine a b) = a.
Proof. induction a as [|x a IH]; destruct b as [|y b]; cbn; intros H; try discriminate; [reflexivity|]. f_equal. apply IH. lia. Qed.

(* write() returns, for EVERY list of (request, value) pairs and every peer *)
Theorem write_no_exception c db P tvs : exists r, run_write enc_body c db P tvs = Ok r.
Proof.
  unfold run_write. cbn zeta.
  set (qs := parse_requested_tags db RwWrite (map fst tvs)). set (qvs := combine qs (map snd tvs)).
  unfold write_build.
  assert (Hfst : map fst qvs = qs).
  { unfold qvs. apply combine_fst. unfold qs. now rewrite parse_requested_length, !map_length. }
  assert (POSq : forall q, In q (map fst qvs) -> 0 <= q_id q) by (rewrite Hfst; intros q Hq; eapply parse_requested_ids_nonneg, Hq).
  assert (NDq : NoDup (map q_id (map fst qvs))) by (rewrite Hfst; apply parse_requested_ids_NoDup).
  pose proof (plan_facts_of c qvs NDq POSq) as PF. cbn zeta in PF.
  set (wsst := map (mk_wreq enc_body c) qvs) in *.
  set (plan := write_build_requests (c_conn c) (c_micro800 c) (map fst wsst)) in *.
  destruct (fan_out_lookup plan (send_requests (plc_of qs) P plan)) as [rs [E _]].
  - apply (pf_rids _ _ _ _ PF).
  - exact (rids_neg qvs wsst plan PF).
  - apply NoDup_sublist_members, (pf_nodup _ _ _ _ PF).
  - intros i Hi. apply (plan_ids_nonneg enc_body c qvs wsst plan POSq eq_refl PF), rmw_members_sub, Hi.
  - intros rid Hr. apply rlookup_some_of_key. rewrite send_requests_eq, map_rev, <- in_rev.
    unfold rids_of in Hr. apply in_flat_map in Hr. destruct Hr as [pk [Hpk Hr]]. destruct pk; try contradiction.
    destruct Hr as [<-|[]]. rewrite flat_map_concat_map, concat_map, map_map. apply in_concat.
    eexists. split; [apply in_map_iff; exists (PRmw rid0 ids); split; [reflexivity | exact Hpk]|]. cbn. now left.
  - unfold fan_out. rewrite E. cbn. eauto.
Qed.

(* ------------------------------------------------------------------ write() against independent peers *)
Variable f : parsed -> uval -> reply.
Variable g : text -> reply.

Theorem write_results_map c db tvs r :
  run_write enc_body c db (wpeer_of enc_body f g c db tvs) tvs = Ok r ->
  results_of r = map (fun tv => write_outcome enc_body f g c (uses_multi c (length tvs)) tv (parse_request_obj db RwWrite (fst tv))) tvs.
Proof.
  intros H.
  destruct (run_write_eq _ _ _ _ _ _ H) as [plan [sts [rs [HB [HF ->]]]]]. rewrite results_of_shape.
  unfold wpeer_of in HF. cbn zeta in HF. rewrite HB in HF. cbn [fst] in HF.
  set (qs := parse_requested_tags db RwWrite (map fst tvs)) in *. set (qvs := combine qs (map snd tvs)) in *.
  assert (Hfst : map fst qvs = qs).
  { unfold qvs. apply combine_fst. unfold qs. now rewrite parse_requested_length, !map_length. }
  assert (Hqv : qvs = qvs_from db 0 tvs) by (unfold qvs, qs, parse_requested_tags; apply qvs_from_eq).
  pose proof (write_build_states _ _ _ _ _ HB) as HS.
  unfold write_build in HB. injection HB as HP _.
  assert (NDq : NoDup (map q_id (map fst qvs))) by (rewrite Hfst; apply parse_requested_ids_NoDup).
  assert (POSq : forall q, In q (map fst qvs) -> 0 <= q_id q) by (rewrite Hfst; intros q Hq; eapply parse_requested_ids_nonneg, Hq).
  assert (PF : plan_facts (map fst qvs) qvs (map fst (map (mk_wreq enc_body c) qvs)) plan).
  { rewrite <- HP. apply (plan_facts_of c qvs NDq POSq). }
  rewrite <- Hfst in HF.
  pose proof (write_lookup enc_body f g c qvs (map (mk_wreq enc_body c) qvs) plan NDq POSq eq_refl PF rs) as WL.
  cbn zeta in WL. specialize (fun q v p => WL q v p HF).
  (* pointwise *)
  rewrite HS, combine_map_self, map_map.
  set (F := fun x : preq * uval => assemble_write (uses_multi c (length tvs)) rs (x, wstate_of enc_body c (fst x) (snd x))).
  apply (nth_ext _ _ (exc_tag (ReqOther TypeError) TypeError) (exc_tag (ReqOther TypeError) TypeError)).
  { rewrite !map_length, Hqv. apply qvs_from_length. }
  intros k Hk. rewrite map_length, Hqv, qvs_from_length in Hk.
  rewrite (nth_indep _ _ (F (dflt_q, snd dflt_tv))) by (rewrite map_length, Hqv, qvs_from_length; exact Hk).
  rewrite (map_nth F).
  set (G := fun tv => write_outcome enc_body f g c (uses_multi c (length tvs)) tv (parse_request_obj db RwWrite (fst tv))).
  rewrite (nth_indep (map G tvs) _ (G dflt_tv)) by (rewrite map_length; exact Hk). rewrite (map_nth G).
  assert (Hin : In (nth k qvs (dflt_q, snd dflt_tv)) qvs) by (apply nth_In; rewrite Hqv, qvs_from_length; exact Hk).
  rewrite Hqv in Hin |- * at 1. rewrite qvs_from_nth in Hin |- * by exact Hk. rewrite <- Hqv in Hin.
  set (tv := nth k tvs dflt_tv) in *. set (q := mkPreq (0 + Z.of_nat k) (fst tv) (parse_request_obj db RwWrite (fst tv))) in *.
  unfold F, G, assemble_write, write_outcome. rewrite wstate_of_eq. cbn [fst snd q_parsed q_request q].
  destruct (parse_request_obj db RwWrite (fst tv)) as [p|e] eqn:EP; [|reflexivity].
  destruct (WL q (snd tv) p Hin eq_refl) as [WB WV].
  destruct (is_bit_write p) eqn:EB.
  - destruct (rmw_build c p) as [[]|x] eqn:ER; [|reflexivity].
    destruct (WB eq_refl eq_refl) as [t [-> ->]]. reflexivity.
  - destruct (encode_value enc_body p (snd tv)) as [[n p']|] eqn:EE; [|reflexivity].
    destruct (write_msg_len c p' n) as [m|x] eqn:EM; [|reflexivity].
    destruct (WV n p' m eq_refl eq_refl EM) as [t [-> ->]]. reflexivity.
Qed.

(* two Tags that differ at most in the wording of an error raised before anything is sent (the two
   planners word encoding / build failures differently) *)
Definition same_outcome (a b : tag) : Prop :=
  t_tag a = t_tag b /\ t_value a = t_value b /\ t_type a = t_type b /\ truthy a = truthy b
  /\ (t_error a = t_error b
      \/ (t_value a = VNone /\ exists x y, t_error a = Some x /\ t_error b = Some y /\ x <> [] /\ y <> [])).

Lemma enc_err_text_nonempty m : enc_err_text m <> [].
Proof. destruct m; discriminate. Qed.
Lemma build_text_nonempty m e : build_prefix m ++ exn_name e <> [].
Proof. intros H. apply app_eq_nil in H. destruct H as [_ H]. exact (exn_name_nonempty e H). Qed.

Lemma write_outcome_planner c m1 m2 tv pr :
  same_outcome (write_outcome enc_body f g c m1 tv pr) (write_outcome enc_body f g c m2 tv pr).
Proof.
  unfold write_outcome, same_outcome.
  destruct pr as [p|e]; [|repeat (split; [reflexivity|]); left; reflexivity].
  destruct (is_bit_write p).
  - destruct (rmw_build c p); [repeat (split; [reflexivity|]); left; reflexivity|].
    repeat (split; [reflexivity|]). right. split; [reflexivity|]. do 2 eexists. split; [reflexivity|]. split; [reflexivity|].
    split; apply build_text_nonempty.
  - destruct (encode_value enc_body p (snd tv)) as [[n p']|].
    + destruct (write_msg_len c p' n); [repeat (split; [reflexivity|]); left; reflexivity|].
      repeat (split; [reflexivity|]). right. split; [reflexivity|]. do 2 eexists. split; [reflexivity|]. split; [reflexivity|].
      split; apply build_text_nonempty.
    + repeat (split; [reflexivity|]). right. split; [reflexivity|]. do 2 eexists. split; [reflexivity|]. split; [reflexivity|].
      split; apply enc_err_text_nonempty.
Qed.

(* isolation: the outcome of request k in a call = its outcome when it is issued alone *)
Corollary write_isolation c db tvs k r r1 :
  (k < length tvs)%nat ->
  run_write enc_body c db (wpeer_of enc_body f g c db tvs) tvs = Ok r ->
  run_write enc_body c db (wpeer_of enc_body f g c db [nth k tvs dflt_tv]) [nth k tvs dflt_tv] = Ok r1 ->
  exists t1, r1 = ROne t1 /\ same_outcome (nth k (results_of r) (exc_tag (ReqOther TypeError) TypeError)) t1.
Proof.
  intros Hk H H1. pose proof (write_results_map c db tvs r H) as E.
  pose proof (write_results_map c db [nth k tvs dflt_tv] r1 H1) as E1.
  destruct (write_result_shape _ _ _ _ _ _ H1) as [_ [S1 _]]. destruct (S1 eq_refl) as [t1 ->].
  exists t1. split; [reflexivity|].
  cbn [results_of map] in E1. inversion E1 as [Ht]. rewrite E.
  set (G0 := fun tv => write_outcome enc_body f g c (uses_multi c (length tvs)) tv (parse_request_obj db RwWrite (fst tv))).
  rewrite (nth_indep _ _ (G0 dflt_tv)) by (rewrite map_length; exact Hk). rewrite (map_nth G0). unfold G0.
  apply write_outcome_planner.
Qed.

(* a controller error status for the service that carries request k: a falsy Tag with the controller's text *)
Lemma write_outcome_controller_error c m tv p :
  (is_bit_write p = true -> rmw_build c p = Ok tt -> rp_ok (g (plc_tag p)) = false ->
     let t := write_outcome enc_body f g c m tv (inl p) in
     t_tag t = ReqText (user_tag p) /\ t_error t = Some (rp_error (g (plc_tag p))) /\ truthy t = false)
  /\ (forall n p' z, is_bit_write p = false -> encode_value enc_body p (snd tv) = Some (n, p') -> write_msg_len c p' n = Ok z ->
     rp_ok (f p' (snd tv)) = false ->
     let t := write_outcome enc_body f g c m tv (inl p) in
     t_tag t = ReqText (user_tag p) /\ t_error t = Some (rp_error (f p' (snd tv))) /\ truthy t = false).
Proof.
  split.
  - intros HB HRB HR. cbn zeta. unfold write_outcome. rewrite HB, HRB. unfold reply_error. rewrite HR. cbn.
    repeat split. unfold truthy. cbn. apply Bool.andb_false_r.
  - intros n p' z HB HE HM HR. cbn zeta. unfold write_outcome. rewrite HB, HE, HM. unfold reply_error. rewrite HR. cbn.
    destruct (encode_value_fields _ _ _ _ _ HE) as [-> _]. repeat split. unfold truthy. cbn. apply Bool.andb_false_r.
Qed.
End Final.
