(* Proofs/CodecErrStrict.v — C08, decode side: strict fixed-width types are decoded from exactly
   their width (no value from a short buffer), and BufferEmptyError is raised only at the end of
   the buffer. *)
From PV Require Import Base.Bytes Base.BytesLemmas Base.Res.
From PV Require Import Gen.Types Gen.CodecFacts Model.Codec Model.CodecDom.
From PV Require Import Proofs.CodecErrDefs Proofs.CodecErrBase Proofs.CodecErrDec.
From Coq Require Import ZifyBool.
Open Scope Z_scope.
Ltac Zify.zify_post_hook ::= Z.to_euclidean_division_equations.

(* ------------------------------------------------------------------ the shape of a strict decoder's results *)
(* a value consumed exactly [w] bytes; BufferEmptyError means the buffer was shorter than [w] and
   nothing is left; the decoder never runs out of fuel *)
Definition sshape (w : nat) (bs : bytes) (r : dres) : Prop :=
  match r with
  | DOk _ x => length bs = (w + length x)%nat
  | DEmpty x => x = [] /\ (length bs < w)%nat
  | DErr _ => True
  | DOutOfFuel => False
  end.
Definition Strict (w : nat) (dec : bytes -> dres) : Prop := forall bs, sshape w bs (dec bs).

Lemma sshape_wrap w bs r : sshape w bs r -> sshape w bs (dwrap r).
Proof. destruct r; cbn; auto. Qed.

Lemma int_decode_strict sg w : (0 < w)%nat -> Strict w (int_decode sg w).
Proof.
  intros Hw bs. pose proof (int_decode_shape sg w bs) as H. destruct (int_decode sg w bs); cbn; auto.
  - tauto.
  - destruct H as [-> [->|H]]; [cbn; split; [reflexivity|lia]|lia].
Qed.
Lemma bool_decode_strict : Strict 1 bool_decode.
Proof.
  intros bs. pose proof (bool_decode_shape bs) as H. destruct (bool_decode bs); cbn; auto.
  destruct H as [-> ->]. cbn. split; [reflexivity|lia].
Qed.
Lemma real_decode_strict (dbl : bool) : Strict (if dbl then 8 else 4)%nat (real_decode dbl).
Proof.
  intros bs. pose proof (real_decode_shape dbl bs) as H. destruct (real_decode dbl bs); cbn; auto.
  destruct H as [-> ->]. cbn. split; [reflexivity|destruct dbl; lia].
Qed.
Lemma bits_decode_strict w : (0 < w)%nat -> Strict w (bits_decode w).
Proof.
  intros Hw bs. unfold bits_decode. apply sshape_wrap.
  pose proof (int_decode_strict false w Hw bs) as H. destruct (int_decode false w bs); cbn in *; auto.
Qed.
Lemma ip_decode_strict : Strict 4 ip_decode.
Proof.
  intros bs. unfold ip_decode. apply sshape_wrap.
  destruct (stream_read_cases 4 bs (fun data rest =>
      match data with
      | [a; b; c; d] => DOk (VStr (dec3 a ++ [46] ++ dec3 b ++ [46] ++ dec3 c ++ [46] ++ dec3 d)) rest
      | _ => DErr (Foreign ValueError)
      end)) as (d & r & Ht & [[-> ->]|[Hd ->]]).
  - apply stream_take_nil in Ht as [-> [->|H]]; [cbn; split; [reflexivity|lia]|lia].
  - apply stream_take_split in Ht. subst bs.
    destruct d as [|a [|b [|c [|d' [|? ?]]]]]; cbn; auto.
Qed.
Lemma datetime_decode_strict : Strict 6 datetime_decode.
Proof.
  intros bs. unfold datetime_decode. rewrite named_UDINT_decode, named_UINT_decode. apply sshape_wrap.
  pose proof (int_decode_strict false 4 ltac:(lia) bs) as H1.
  destruct (int_decode false 4 bs) as [t r1|e|x|]; cbn [dbind]; cbn in H1; auto.
  - pose proof (int_decode_strict false 2 ltac:(lia) r1) as H2.
    destruct (int_decode false 2 r1) as [d r2|e|x|]; cbn [dbind]; cbn in H2 |- *; auto; [lia|].
    destruct H2. split; [assumption|lia].
  - cbn. destruct H1. split; [assumption|lia].
Qed.

(* ------------------------------------------------------------------ arrays, structures *)
Lemma decode_n_strict w dec n : Strict w dec -> Strict (n * w) (decode_n dec n).
Proof.
  intros Hd. induction n as [|n IH]; intros bs; cbn [decode_n]; [cbn; lia|].
  pose proof (Hd bs) as H1. destruct (dec bs) as [v r1|e|x|]; cbn [dbind]; cbn in H1; auto.
  - pose proof (IH r1) as H2. destruct (decode_n dec n r1) as [vs r2|e|x|]; cbn [dbind]; cbn in H2 |- *; auto.
    + destruct vs; cbn; auto; lia.
    + destruct H2. split; [assumption|lia].
  - cbn. destruct H1. split; [assumption|lia].
Qed.

Lemma struct_members_strict (ds : list (key * (bytes -> dres))) (ws : list nat) :
  Forall2 (fun d w => Strict w (snd d)) ds ws ->
  forall acc, Strict (list_sum ws) (struct_decode_members ds acc).
Proof.
  intros H. induction H as [|[k dec] w ds ws Hd _ IH]; intros acc bs; cbn [struct_decode_members list_sum fold_right]; [cbn; lia|].
  cbn [snd] in Hd. pose proof (Hd bs) as H1. destruct (dec bs) as [v r1|e|x|]; cbn [dbind]; cbn in H1; auto.
  - pose proof (IH (dict_set acc k v) r1) as H2. unfold list_sum in H2.
    destruct (struct_decode_members ds (dict_set acc k v) r1) as [vs r2|e|x|]; cbn in H2 |- *; auto; try lia.
    destruct H2. split; [assumption|lia].
  - cbn. destruct H1. split; [assumption|lia].
Qed.

Lemma Forall2_map_strict {K} (D : ty -> bytes -> dres) (ms : list (K * ty)) :
  Forall (fun m => Strict (swidth (snd m)) (D (snd m))) ms ->
  Forall2 (fun (d : K * (bytes -> dres)) w => Strict w (snd d)) (map (fun m => (fst m, D (snd m))) ms) (map (fun m => swidth (snd m)) ms).
Proof. intros H. induction H; cbn [map]; constructor; auto. Qed.

(* ------------------------------------------------------------------ StructTag *)
Lemma stag_layout_le p ms size : stag_layout_strict p ms size = true -> (p <= size)%nat.
Proof.
  revert p. induction ms as [|[[k off] t] ms IH]; intros p; cbn [stag_layout_strict].
  - intros H. apply Nat.leb_le in H. exact H.
  - intros H. apply andb_prop in H as [H1 H2]. apply Nat.leb_le in H1. apply IH in H2. lia.
Qed.

Lemma stag_members_strict (D : ty -> bytes -> dres) size total (ms : list ((key * nat) * ty)) :
  Forall (fun m => Strict (swidth (snd m)) (D (snd m))) ms ->
  forall p acc sub,
    stag_layout_strict p ms size = true -> (length sub <= total)%nat -> (total - length sub <= p)%nat ->
    match stag_decode_members (map (fun m => (fst m, D (snd m))) ms) total acc sub with
    | DOk _ _ => Forall (fun m => (swidth (snd m) <= total - snd (fst m))%nat) ms
    | DEmpty _ => (total < size)%nat
    | DErr _ => True
    | DOutOfFuel => False
    end.
Proof.
  intros H. induction H as [|[[k off] t] ms Hd _ IH]; intros p acc sub Hlay Hsub Hpos; cbn [map stag_decode_members fst snd].
  - constructor.
  - cbn [stag_layout_strict] in Hlay. apply andb_prop in Hlay as [Hp Hlay]. apply Nat.leb_le in Hp.
    pose proof (stag_layout_le _ _ _ Hlay) as Hend. cbn [snd] in Hd.
    set (sub1 := if (total - length sub <? off)%nat then skipn (off - (total - length sub)) sub else sub).
    assert (Hl1 : length sub1 = (total - off)%nat).
    { unfold sub1. destruct (total - length sub <? off)%nat eqn:E.
      - rewrite skipn_length. apply Nat.ltb_lt in E. lia.
      - apply Nat.ltb_ge in E. lia. }
    pose proof (Hd sub1) as H1. destruct (D t sub1) as [v sub2|e|x|]; cbn [dbind]; cbn in H1; auto.
    + specialize (IH (off + swidth t)%nat (dict_set acc k v) sub2 Hlay).
      assert (Ha : (length sub2 <= total)%nat) by lia.
      assert (Hb : (total - length sub2 <= off + swidth t)%nat) by lia.
      specialize (IH Ha Hb).
      destruct (stag_decode_members _ total (dict_set acc k v) sub2); auto.
      constructor; [cbn [fst snd]; lia|exact IH].
    + destruct H1 as [_ H1]. lia.
Qed.

Lemma stag_bits_ok bits raw : forall acc d, stag_decode_bits bits raw acc = Ok d ->
  Forall (fun b : text * (nat * nat) => (fst (snd b) < length raw)%nat) bits.
Proof.
  induction bits as [|[name [off bit]] bits IH]; intros acc d; cbn [stag_decode_bits]; [constructor|].
  destruct (nth_error raw off) eqn:E; [|discriminate]. intros H. constructor.
  - cbn [fst snd]. apply nth_error_Some. congruence.
  - exact (IH _ _ H).
Qed.

Lemma structtag_strict (D : ty -> bytes -> dres) ms bits priv size :
  Forall (fun m => Strict (swidth (snd m)) (D (snd m))) ms ->
  stag_layout_strict 0 ms size = true -> stag_tight ms bits size = true ->
  Strict size (structtag_decode (map (fun m => (fst m, D (snd m))) ms) bits priv size).
Proof.
  intros Hms Hlay Htight bs. unfold structtag_decode. apply sshape_wrap.
  set (raw := firstn size bs).
  assert (Hraw : length raw = Nat.min size (length bs)) by (unfold raw; apply firstn_length).
  pose proof (stag_members_strict D size (length raw) ms Hms 0%nat [] raw Hlay (le_n _) ltac:(lia)) as Hm.
  destruct (stag_decode_members _ (length raw) [] raw) as [v x|e|x|]; cbn; auto.
  - destruct v; cbn; auto. destruct (stag_decode_bits bits raw d) eqn:Eb; cbn; auto.
    rewrite skipn_length. cut (size <= length bs)%nat; [lia|].
    unfold stag_tight in Htight. apply orb_prop in Htight as [Ht|Ht]; [apply orb_prop in Ht as [Ht|Ht]|].
    + apply Nat.eqb_eq in Ht. lia.
    + apply existsb_exists in Ht as (m & Hin & Ht). apply andb_prop in Ht as [Hw Ht].
      apply Nat.ltb_lt in Hw. apply Nat.eqb_eq in Ht. rewrite Forall_forall in Hm. specialize (Hm m Hin). cbn beta in Hm. lia.
    + apply existsb_exists in Ht as (b & Hin & Ht). apply Nat.eqb_eq in Ht.
      apply stag_bits_ok in Eb. rewrite Forall_forall in Eb. specialize (Eb b Hin). cbn beta in Eb. lia.
  - assert (Hs : (length bs < size)%nat) by lia. split; [|exact Hs].
    apply skipn_all2. lia.
Qed.

(* ------------------------------------------------------------------ no value from a short buffer *)
Theorem strict_decode : forall t, strict t = true -> forall fuel, Strict (swidth t) (decode_fuel fuel t).
Proof.
  induction t using ty_ind_nested; intros Hs fuel; cbn [strict] in Hs; try discriminate; cbn [decode_fuel swidth].
  - apply bool_decode_strict.
  - apply int_decode_strict. now apply Nat.ltb_lt.
  - apply real_decode_strict.
  - apply datetime_decode_strict.
  - apply bits_decode_strict. now apply Nat.ltb_lt.
  - (* TArrFixed *)
    intros bs. unfold array_decode_fixed. apply sshape_wrap.
    pose proof (decode_n_strict _ _ n (IHt Hs fuel) bs) as H.
    destruct (decode_n (decode_fuel fuel t) n bs) as [vs r|e|x|]; cbn [dbind]; cbn in H |- *; auto.
    destruct (is_instance t); [exact I|]. destruct (is_bits t); [|exact H].
    destruct vs; cbn; auto. destruct (chain_vals l); cbn; auto.
  - (* TStruct *)
    intros bs. unfold struct_decode, struct_decode_inner. apply sshape_wrap.
    assert (Hm : Forall (fun m : key * ty => Strict (swidth (snd m)) (decode_fuel fuel (snd m))) ms).
    { rewrite forallb_forall in Hs. rewrite Forall_forall in H |- *. intros m Hin. apply (H m Hin), Hs, Hin. }
    pose proof (struct_members_strict _ _ (Forall2_map_strict (decode_fuel fuel) ms Hm) [] bs) as H1.
    destruct (struct_decode_members _ [] bs) as [v r|e|x|]; cbn [dbind]; cbn in H1 |- *; auto.
    destruct v; cbn; auto.
    destruct k; cbn; auto; destruct (identity_post _); cbn; auto.
  - (* TStructTag *)
    apply andb_prop in Hs as [Hs Htight]. apply andb_prop in Hs as [Hs Hlay].
    apply structtag_strict; auto.
    rewrite forallb_forall in Hs. rewrite Forall_forall in H |- *. intros m Hin. apply (H m Hin), Hs, Hin.
  - apply ip_decode_strict.
Qed.

(* the spec-side width of a strict type is [swidth] *)
Lemma strict_width_of : forall t, strict t = true -> width_of t = Some (swidth t).
Proof.
  induction t using ty_ind_nested; intros Hs; cbn [strict] in Hs; try discriminate; cbn [width_of swidth]; try reflexivity.
  - now rewrite (IHt Hs).
  - rewrite forallb_forall in Hs. induction H as [|m ms Hm _ IH]; [reflexivity|].
    cbn [map sum_widths list_sum fold_right]. rewrite (Hm (Hs m (or_introl eq_refl))).
    unfold list_sum in IH. rewrite IH; [reflexivity|]. intros x Hx. apply Hs. now right.
Qed.

Lemma strict_announced t bs : strict t = true -> announced t bs = Some (Z.of_nat (swidth t)).
Proof.
  intros Hs. pose proof (strict_width_of t Hs) as Hw.
  destruct t; cbn [strict] in Hs; try discriminate; unfold announced; rewrite Hw; reflexivity.
Qed.

(* ------------------------------------------------------------------ BufferEmptyError only at the end *)
Definition AtEnd (dec : bytes -> dres) : Prop := forall bs r, dec bs = DEmpty r -> r = [].

Lemma Strict_AtEnd w dec : Strict w dec -> AtEnd dec.
Proof. intros H bs r E. specialize (H bs). rewrite E in H. now destruct H. Qed.

Lemma int_decode_AtEnd sg w : (0 < w)%nat -> AtEnd (int_decode sg w).
Proof. intros Hw. eapply Strict_AtEnd, int_decode_strict, Hw. Qed.

(* a read of a non-zero number of bytes raises BufferEmptyError only on the exhausted buffer *)
Lemma stream_read_AtEnd n bs k r :
  n <> 0 -> (forall d x, k d x <> DEmpty r) -> stream_read n bs k = DEmpty r -> r = [].
Proof.
  intros Hn Hk E. destruct (stream_read_cases n bs k) as (d & x & Ht & [[-> E']|[_ E']]); rewrite E' in E.
  - injection E as <-. apply stream_take_nil in Ht as [-> [->|H]]; [reflexivity|contradiction].
  - exfalso. exact (Hk _ _ E).
Qed.

Lemma text_result_not_empty enc data r2 r :
  (match text_decode enc data with Ok s => DOk (VStr s) r2 | Err e => DErr e end) <> DEmpty r.
Proof. destruct (text_decode enc data); discriminate. Qed.

Lemma str_decode_AtEnd lsg lw enc : (0 < lw)%nat -> AtEnd (str_decode lsg lw enc).
Proof.
  intros Hw bs r. unfold str_decode. intros E. apply dwrap_empty_inv in E.
  apply dbind_empty_inv in E as [E|(n & r1 & _ & E)]; [exact (int_decode_AtEnd _ _ Hw _ _ E)|].
  destruct (as_int n =? 0) eqn:En; [discriminate|].
  revert E. apply stream_read_AtEnd; [lia|]. intros. apply text_result_not_empty.
Qed.

Lemma nbytes_decode_AtEnd n : n <> 0 -> AtEnd (nbytes_decode n).
Proof.
  intros Hn bs r. unfold nbytes_decode. intros E. apply dwrap_empty_inv in E.
  revert E. apply stream_read_AtEnd; [exact Hn|]. discriminate.
Qed.

Lemma fixedstr_decode_AtEnd size lsg lw : (0 < size)%nat -> (0 < lw)%nat -> AtEnd (fixedstr_decode size lsg lw).
Proof.
  intros Hs Hw bs r. unfold fixedstr_decode. destruct fss_enc; [|discriminate]. intros E. apply dwrap_empty_inv in E.
  apply dbind_empty_inv in E as [E|(n & r1 & _ & E)]; [exact (int_decode_AtEnd _ _ Hw _ _ E)|].
  revert E. apply stream_read_AtEnd; [lia|]. intros. apply text_result_not_empty.
Qed.

Lemma pccc_string_decode_AtEnd : AtEnd pccc_string_decode.
Proof.
  intros bs r. unfold pccc_string_decode. destruct pccc_string_enc; [|discriminate]. rewrite named_UINT_decode.
  intros E. apply dwrap_empty_inv in E.
  apply dbind_empty_inv in E as [E|(n & r1 & _ & E)]; [exact (int_decode_AtEnd false 2 ltac:(lia) _ _ E)|].
  destruct (stream_take 82 r1) as [d r2]. destruct (slc_swap d); [|discriminate].
  exfalso. exact (text_result_not_empty _ _ _ _ E).
Qed.

Lemma pccc_ascii_decode_AtEnd : AtEnd pccc_ascii_decode.
Proof.
  intros bs r. unfold pccc_ascii_decode. destruct pccc_ascii_enc; [|discriminate].
  intros E. apply dwrap_empty_inv in E.
  destruct (stream_take 2 bs) as [d r2]. destruct (slc_swap d); [|discriminate].
  exfalso. exact (text_result_not_empty _ _ _ _ E).
Qed.

Lemma decode_n_AtEnd dec n : AtEnd dec -> AtEnd (decode_n dec n).
Proof.
  intros Hd. induction n as [|n IH]; intros bs r; cbn [decode_n]; [discriminate|].
  intros E. apply dbind_empty_inv in E as [E|(v & r1 & _ & E)]; [exact (Hd _ _ E)|].
  apply dbind_empty_inv in E as [E|(vs & r2 & _ & E)]; [exact (IH _ _ E)|]. destruct vs; discriminate.
Qed.

Lemma decode_all_not_empty dec f : forall bs r, decode_all dec f bs <> DEmpty r.
Proof.
  induction f as [|f IH]; intros bs r; cbn [decode_all]; [discriminate|].
  destruct (dec bs) as [v r1|e|x|]; try discriminate.
  intros E. apply dbind_empty_inv in E as [E|(vs & r2 & _ & E)]; [exact (IH _ _ E)|]. destruct vs; discriminate.
Qed.

Lemma struct_members_AtEnd (ds : list (key * (bytes -> dres))) :
  Forall (fun d => AtEnd (snd d)) ds -> forall acc, AtEnd (struct_decode_members ds acc).
Proof.
  intros H. induction H as [|[k dec] ds Hd _ IH]; intros acc bs r; cbn [struct_decode_members]; [discriminate|].
  intros E. apply dbind_empty_inv in E as [E|(v & r1 & _ & E)]; [exact (Hd _ _ E)|exact (IH _ _ _ E)].
Qed.

Theorem buffer_empty_at_end : forall t, be_ok t = true -> forall fuel, AtEnd (decode_fuel fuel t).
Proof.
  induction t using ty_ind_nested; intros Hb fuel; cbn [be_ok] in Hb; try discriminate; cbn [decode_fuel].
  - eapply Strict_AtEnd, bool_decode_strict.
  - apply int_decode_AtEnd. now apply Nat.ltb_lt.
  - eapply Strict_AtEnd, real_decode_strict.
  - eapply Strict_AtEnd, datetime_decode_strict.
  - apply str_decode_AtEnd. now apply Nat.ltb_lt.
  - apply nbytes_decode_AtEnd. apply negb_true_iff in Hb. lia.
  - eapply Strict_AtEnd, bits_decode_strict. now apply Nat.ltb_lt.
  - (* TArrFixed *)
    intros bs r. unfold array_decode_fixed. intros E. apply dwrap_empty_inv in E.
    apply dbind_empty_inv in E as [E|(vs & r1 & _ & E)]; [exact (decode_n_AtEnd _ n (IHt Hb fuel) _ _ E)|].
    destruct (is_instance t); [discriminate|]. destruct (is_bits t); [|discriminate].
    destruct vs; try discriminate. destruct (chain_vals l); discriminate.
  - (* TArrPrefix *)
    intros bs r. unfold array_decode_prefix. intros E. apply dwrap_empty_inv in E. destruct inst; [|discriminate].
    apply dbind_empty_inv in E as [E|(? & ? & _ & E)]; [|discriminate]. cbn in Hb. exact (IHt1 Hb fuel _ _ E).
  - (* TArrAll *)
    intros bs r. unfold array_decode_all. intros E. apply dwrap_empty_inv in E. exfalso. exact (decode_all_not_empty _ _ _ _ E).
  - (* TStruct *)
    intros bs r. unfold struct_decode, struct_decode_inner. intros E. apply dwrap_empty_inv in E.
    apply dbind_empty_inv in E as [E|(v1 & r1 & _ & E)].
    + apply dbind_empty_inv in E as [E|(v2 & r2 & _ & E)]; [|destruct v2; discriminate].
      revert E. apply struct_members_AtEnd.
      rewrite forallb_forall in Hb. rewrite Forall_forall in H. rewrite Forall_forall. intros d Hd.
      apply in_map_iff in Hd as (m & <- & Hm). cbn [snd]. apply (H m Hm), Hb, Hm.
    + destruct k; [discriminate| |]; destruct v1; try discriminate; destruct (identity_post d); discriminate.
  - apply fixedstr_decode_AtEnd; apply andb_prop in Hb as [H1 H2]; now apply Nat.ltb_lt.
  - (* TStructTag *)
    eapply Strict_AtEnd. apply (strict_decode (TStructTag ms bits priv size) Hb fuel).
  - eapply Strict_AtEnd, ip_decode_strict.
  - apply pccc_ascii_decode_AtEnd.
  - apply pccc_string_decode_AtEnd.
Qed.
