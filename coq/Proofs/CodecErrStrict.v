(* Proofs/CodecErrStrict.v — C08, decode side: fixed-width types are decoded from exactly their
   width and strings from what their prefix announces (no value from a short buffer), and
   BufferEmptyError is raised only at the end of the buffer. *)
From PV Require Import Base.Bytes Base.BytesLemmas Base.Res.
From PV Require Import Gen.Types Gen.CodecFacts Model.Codec.
From PV Require Import Proofs.CodecErrDefs Proofs.CodecErrBase Proofs.CodecErrDec.
From Coq Require Import ZifyBool.
Open Scope Z_scope.
Ltac Zify.zify_post_hook ::= Z.to_euclidean_division_equations.

(* ------------------------------------------------------------------ the shape of a strict decoder's results *)
(* a value consumed exactly [w] bytes; BufferEmptyError means the buffer was shorter than [w] and
   nothing is left; the decoder never runs out of fuel *)
Definition sshape (w : nat) (bs : bytes) (r : dres) : Prop :=
  match r with
  | DOk _ x => length bs = (w + length x)%nat
  | DEmpty x => x = [] /\ (length bs < w)%nat
  | DErr _ => True
  | DOutOfFuel => False
  end.
Definition Strict (w : nat) (dec : bytes -> dres) : Prop := forall bs, sshape w bs (dec bs).

Lemma sshape_wrap w bs r : sshape w bs r -> sshape w bs (dwrap r).
Proof. destruct r; cbn; auto. Qed.

(* sequencing two strict steps *)
Lemma sshape_bind w1 w2 bs r f :
  sshape w1 bs r -> (forall v x, r = DOk v x -> sshape w2 x (f v x)) -> sshape (w1 + w2) bs (dbind r f).
Proof.
  intros H1 H2. destruct r as [v x|e|x|]; cbn [dbind]; cbn in H1; auto.
  - specialize (H2 v x eq_refl). destruct (f v x); cbn in *; auto; [lia|]. destruct H2. split; [assumption|lia].
  - cbn. destruct H1. split; [assumption|lia].
Qed.

(* a continuation that returns a value and the rest it was given, or fails *)
Definition keeps_rest (k : bytes -> bytes -> dres) : Prop :=
  forall d r, match k d r with DOk _ x => x = r | DErr _ => True | _ => False end.

Lemma stream_read_strict n bs k : 0 <= n -> keeps_rest k -> sshape (Z.to_nat n) bs (stream_read n bs k).
Proof.
  intros Hn Hk. destruct (stream_read_cases n bs k)
    as (d & r & Ht & [(-> & Hn0 & ->)|[(-> & Hn0 & ->)|[(Hd & Hl & ->)|(Hd & Hl & ->)]]]); try exact I.
  - destruct (stream_read_empty _ _ _ Ht Hn0) as [-> ->]. cbn [sshape length]. split; [reflexivity|lia].
  - pose proof (stream_take_split _ _ _ _ Ht) as ->. specialize (Hk [] r). destruct (k [] r); cbn [sshape] in *; auto; try contradiction. subst. cbn [app]. lia.
  - pose proof (stream_take_full _ _ _ _ Ht Hn Hl) as Hf. pose proof (stream_take_split _ _ _ _ Ht) as ->.
    specialize (Hk d r). destruct (k d r); cbn [sshape] in *; auto; try contradiction. subst. rewrite app_length. lia.
Qed.

Lemma text_keeps_rest enc : keeps_rest (fun data r2 => match text_decode enc data with Ok s => DOk (VStr s) r2 | Err e => DErr e end).
Proof. intros d r. destruct (text_decode enc d); cbn; auto. Qed.

Lemma int_decode_strict sg w : Strict w (int_decode sg w).
Proof.
  intros bs. pose proof (int_decode_shape sg w bs) as H. destruct (int_decode sg w bs); cbn; auto.
  destruct H as (-> & -> & Hw). split; [reflexivity|exact Hw].
Qed.
Lemma bool_decode_strict : Strict 1 bool_decode.
Proof.
  intros bs. pose proof (bool_decode_shape bs) as H. destruct (bool_decode bs); cbn; auto.
  destruct H as [-> ->]. cbn. split; [reflexivity|lia].
Qed.
Lemma real_decode_strict (dbl : bool) : Strict (if dbl then 8 else 4)%nat (real_decode dbl).
Proof.
  intros bs. pose proof (real_decode_shape dbl bs) as H. destruct (real_decode dbl bs); cbn; auto.
  destruct H as [-> ->]. cbn. split; [reflexivity|destruct dbl; lia].
Qed.
Lemma bits_decode_strict w : Strict w (bits_decode w).
Proof.
  intros bs. unfold bits_decode. apply sshape_wrap.
  pose proof (int_decode_strict false w bs) as H. destruct (int_decode false w bs); cbn in *; auto.
Qed.
Lemma ip_decode_strict : Strict 4 ip_decode.
Proof.
  intros bs. unfold ip_decode. apply sshape_wrap. apply (stream_read_strict 4); [lia|].
  intros d r. destruct d as [|a [|b [|c [|d' [|? ?]]]]]; cbn; auto.
Qed.
Lemma datetime_decode_strict : Strict 6 datetime_decode.
Proof.
  intros bs. unfold datetime_decode. rewrite named_UDINT_decode, named_UINT_decode. apply sshape_wrap.
  apply (sshape_bind 4 2); [apply int_decode_strict|]. intros t r1 _.
  replace 2%nat with (2 + 0)%nat by reflexivity. apply sshape_bind; [apply int_decode_strict|].
  intros d r2 _. cbn. lia.
Qed.
Lemma nbytes_decode_strict n : 0 <= n -> Strict (Z.to_nat n) (nbytes_decode n).
Proof.
  intros Hn bs. unfold nbytes_decode. apply sshape_wrap. apply stream_read_strict; [exact Hn|]. intros d r. cbn. reflexivity.
Qed.
Lemma fixedstr_decode_strict size lsg lw : Strict (lw + size) (fixedstr_decode size lsg lw).
Proof.
  intros bs. unfold fixedstr_decode. rewrite fss_enc_is. apply sshape_wrap.
  apply sshape_bind; [apply int_decode_strict|]. intros n r1 _.
  match goal with |- sshape size r1 (stream_read _ r1 ?k) =>
    pose proof (stream_read_strict (Z.of_nat size) r1 k ltac:(lia)) as Hsr end.
  rewrite Nat2Z.id in Hsr. apply Hsr.
  intros d r. destruct (text_decode Latin1 (slice_to (as_int n) d)); cbn; auto.
Qed.
Lemma pccc_ascii_decode_strict : Strict 2 pccc_ascii_decode.
Proof.
  intros bs. unfold pccc_ascii_decode. rewrite pccc_ascii_enc_is. apply sshape_wrap. apply (stream_read_strict 2); [lia|].
  intros d r. destruct (slc_swap d); cbn; auto.
Qed.

(* ------------------------------------------------------------------ arrays, structures *)
Lemma decode_n_strict w dec n : Strict w dec -> Strict (n * w) (decode_n dec n).
Proof.
  intros Hd. induction n as [|n IH]; intros bs; cbn [decode_n Nat.mul]; [cbn; lia|].
  apply sshape_bind; [apply Hd|]. intros v r1 _.
  replace (n * w)%nat with (n * w + 0)%nat by lia. apply sshape_bind; [apply IH|].
  intros vs r2 _. destruct vs; cbn; auto; lia.
Qed.

Lemma array_flatten_strict b vs r : sshape 0 r (array_flatten b vs r).
Proof. unfold array_flatten. destruct b; [|cbn; lia]. destruct vs; cbn; auto. destruct (chain_vals l); cbn; auto. Qed.

Lemma struct_members_strict (ds : list (key * (bytes -> dres))) (ws : list nat) :
  Forall2 (fun d w => Strict w (snd d)) ds ws ->
  forall acc, Strict (list_sum ws) (struct_decode_members ds acc).
Proof.
  intros H. induction H as [|[k dec] w ds ws Hd _ IH]; intros acc bs; cbn [struct_decode_members list_sum fold_right]; [cbn; lia|].
  cbn [snd] in Hd. apply sshape_bind; [apply Hd|]. intros v r1 _. apply IH.
Qed.

Lemma Forall2_map_strict {K} (D : ty -> bytes -> dres) (ms : list (K * ty)) :
  Forall (fun m => Strict (swidth (snd m)) (D (snd m))) ms ->
  Forall2 (fun (d : K * (bytes -> dres)) w => Strict w (snd d)) (map (fun m => (fst m, D (snd m))) ms) (map (fun m => swidth (snd m)) ms).
Proof. intros H. induction H; cbn [map]; constructor; auto. Qed.

(* ------------------------------------------------------------------ StructTag *)
(* on the full image every member finds its bytes: no BufferEmptyError, no fuel *)
Lemma stag_members_full (D : ty -> bytes -> dres) size raw (ms : list ((key * nat) * ty)) :
  Forall (fun m => Strict (swidth (snd m)) (D (snd m)) /\ (snd (fst m) + swidth (snd m) <= size)%nat) ms ->
  length raw = size ->
  forall acc, match stag_decode_members (map (fun m => (fst m, D (snd m))) ms) acc raw with
              | DOk _ _ | DErr _ => True
              | _ => False
              end.
Proof.
  intros H Hraw. induction H as [|[[k off] t] ms [Hd Hoff] _ IH]; intros acc; cbn [map stag_decode_members fst snd]; [exact I|].
  cbn [fst snd] in Hd, Hoff. pose proof (Hd (skipn off raw)) as H1.
  destruct (D t (skipn off raw)) as [v x|e|x|]; cbn [dbind]; cbn [sshape] in H1; auto.
  - apply IH.
  - destruct H1 as [_ H1]. rewrite skipn_length in H1. lia.
Qed.
(* on the exhausted buffer: a value only from members that all succeed on nothing *)
Lemma stag_members_empty_shape (D : ty -> bytes -> dres) (ms : list ((key * nat) * ty)) :
  Forall (fun m => Strict (swidth (snd m)) (D (snd m))) ms ->
  forall acc, match stag_decode_members (map (fun m => (fst m, D (snd m))) ms) acc [] with
              | DOutOfFuel => False
              | _ => True
              end.
Proof.
  intros H. induction H as [|[[k off] t] ms Hd _ IH]; intros acc; cbn [map stag_decode_members fst snd]; [exact I|].
  rewrite skipn_nil. cbn [snd] in Hd. pose proof (Hd []) as H1.
  destruct (D t []) as [v x|e|x|]; cbn [dbind]; cbn in H1; auto. apply IH.
Qed.

Lemma stag_bits_ok bits raw : forall acc d, stag_decode_bits bits raw acc = Ok d ->
  Forall (fun b : text * (nat * nat) => (fst (snd b) < length raw)%nat) bits.
Proof.
  induction bits as [|[name [off bit]] bits IH]; intros acc d; cbn [stag_decode_bits]; [constructor|].
  destruct (nth_error raw off) eqn:E; [|discriminate]. intros H. constructor.
  - cbn [fst snd]. apply nth_error_Some. congruence.
  - exact (IH _ _ H).
Qed.

Lemma structtag_strict (D : ty -> bytes -> dres) ms bits priv size :
  Forall (fun m => Strict (swidth (snd m)) (D (snd m)) /\ (snd (fst m) + swidth (snd m) <= size)%nat) ms ->
  (size = 0%nat \/ Exists (fun d : (key * nat) * (bytes -> dres) => Lt (snd d)) (map (fun m => (fst m, D (snd m))) ms) \/ bits <> []) ->
  Strict size (structtag_decode (map (fun m => (fst m, D (snd m))) ms) bits priv size).
Proof.
  intros Hms Hne bs. unfold structtag_decode. apply sshape_wrap.
  set (raw := firstn size bs).
  assert (Hraw : length raw = Nat.min size (length bs)) by (unfold raw; apply firstn_length).
  destruct (negb (length raw =? 0)%nat && (length raw <? size)%nat) eqn:Eshort; [exact I|].
  assert (Hcase : length raw = size \/ (length raw = 0%nat /\ (0 < size)%nat)).
  { apply andb_false_iff in Eshort as [E|E].
    - apply negb_false_iff, Nat.eqb_eq in E. destruct size; [left; lia|right; lia].
    - apply Nat.ltb_ge in E. left. lia. }
  destruct Hcase as [Hfull|[Hemp Hs]].
  - pose proof (stag_members_full D size raw ms Hms Hfull []) as Hm.
    destruct (stag_decode_members _ [] raw) as [v x|e|x|]; cbn; auto; try contradiction.
    destruct v; cbn; auto. destruct (stag_decode_bits bits raw d); cbn; auto.
    rewrite skipn_length. lia.
  - assert (Hbs : bs = []) by (destruct bs; [reflexivity|cbn in Hraw; lia]).
    assert (Hr : raw = []) by (destruct raw; [reflexivity|discriminate]).
    assert (Hms' : Forall (fun m : (key * nat) * ty => Strict (swidth (snd m)) (D (snd m))) ms)
      by (eapply Forall_impl; [|exact Hms]; intros m [Hm _]; exact Hm).
    pose proof (stag_members_empty_shape D ms Hms' []) as Hm. rewrite Hr.
    destruct (stag_decode_members _ [] []) as [v x|e|x|] eqn:Em; cbn; auto; try contradiction.
    + destruct v; cbn; auto. destruct (stag_decode_bits bits [] d) eqn:Eb; cbn; auto. exfalso.
      destruct Hne as [Hz|[Hx|Hb]]; [lia| |].
      * exact (stag_members_nil _ Hx _ _ _ Em).
      * destruct (stag_bits_nil bits d Hb) as [e He]. congruence.
    + subst bs. rewrite skipn_nil. cbn. split; [reflexivity|lia].
Qed.

(* ------------------------------------------------------------------ no value from a short buffer *)
Theorem strict_decode : forall t, strict t = true -> forall fuel, Strict (swidth t) (decode_fuel fuel t).
Proof.
  induction t using ty_ind_nested; intros Hs fuel; cbn [strict] in Hs; try discriminate; cbn [decode_fuel swidth].
  - apply bool_decode_strict.
  - apply int_decode_strict.
  - apply real_decode_strict.
  - apply datetime_decode_strict.
  - apply nbytes_decode_strict. lia.
  - apply bits_decode_strict.
  - (* TArrFixed *)
    intros bs. unfold array_decode_fixed. apply sshape_wrap.
    replace (n * swidth t)%nat with (n * swidth t + 0)%nat by lia.
    apply sshape_bind; [apply decode_n_strict, IHt, Hs|]. intros vs r _. apply array_flatten_strict.
  - (* TStruct *)
    intros bs. unfold struct_decode, struct_decode_inner. apply sshape_wrap.
    assert (Hm : Forall (fun m : key * ty => Strict (swidth (snd m)) (decode_fuel fuel (snd m))) ms).
    { rewrite forallb_forall in Hs. rewrite Forall_forall in H |- *. intros m Hin. apply (H m Hin), Hs, Hin. }
    pose proof (struct_members_strict _ _ (Forall2_map_strict (decode_fuel fuel) ms Hm) [] bs) as H1.
    destruct (struct_decode_members _ [] bs) as [v r|e|x|]; cbn [dbind]; cbn in H1 |- *; auto.
    destruct v; cbn; auto.
    destruct k; cbn; auto; destruct (identity_post _); cbn; auto.
  - apply fixedstr_decode_strict.
  - (* TStructTag *)
    apply andb_prop in Hs as [Hs Hne]. rewrite forallb_forall in Hs.
    apply structtag_strict.
    + rewrite Forall_forall in H |- *. intros m Hin. specialize (Hs m Hin). apply andb_prop in Hs as [Hs1 Hs2].
      split; [apply (H m Hin), Hs1|now apply Nat.leb_le].
    + apply orb_prop in Hne as [Hne|Hne]; [apply orb_prop in Hne as [Hne|Hne]|].
      * left. now apply Nat.eqb_eq.
      * right; left. apply (Exists_map_snd progress Lt (decode_fuel fuel)); [|exact Hne].
        rewrite Forall_forall. intros m _ Hp. apply progress_lt, Hp.
      * right; right. destruct bits; [discriminate|discriminate].
  - apply ip_decode_strict.
  - apply pccc_ascii_decode_strict.
Qed.

(* the spec-side width of a strict type is [swidth] *)
Lemma strict_width_of : forall t, strict t = true -> width_of t = Some (swidth t).
Proof.
  induction t using ty_ind_nested; intros Hs; cbn [strict] in Hs; try discriminate; cbn [width_of swidth]; try reflexivity.
  - now rewrite Hs.
  - now rewrite (IHt Hs).
  - rewrite forallb_forall in Hs. induction H as [|m ms Hm _ IH]; [reflexivity|].
    cbn [map sum_widths list_sum fold_right]. rewrite (Hm (Hs m (or_introl eq_refl))).
    unfold list_sum in IH. rewrite IH; [reflexivity|]. intros x Hx. apply Hs. now right.
Qed.

Lemma strict_announced t bs : strict t = true -> announced t bs = Some (Z.of_nat (swidth t)).
Proof.
  intros Hs. pose proof (strict_width_of t Hs) as Hw.
  destruct t; cbn [strict] in Hs; try discriminate; unfold announced; rewrite Hw; reflexivity.
Qed.

(* ------------------------------------------------------------------ strings: the announced length *)
(* an integer prefix decodes to the value its bytes denote and leaves the bytes after it *)
Lemma int_decode_value sg w bs v r :
  int_decode sg w bs = DOk v r -> v = VInt (prefix_val sg w bs) /\ r = skipn w bs /\ (w <= length bs)%nat.
Proof.
  unfold int_decode, elem_decode. intros E. apply dwrap_ok_inv in E.
  destruct (stream_read_cases (Z.of_nat w) bs (fun data rest => dres_of_res (unpack_int sg w data) rest))
    as (d & x & Ht & [(-> & Hn & Hr)|[(-> & Hn & Hr)|[(Hd & Hl & Hr)|(Hd & Hl & Hr)]]]); rewrite Hr in E; try discriminate.
  - assert (w = 0%nat) by lia. subst w. apply stream_take_split in Ht. cbn in Ht. subst x.
    unfold unpack_int in E. cbn in E. injection E as <- <-. unfold prefix_val. cbn. destruct sg; repeat split; auto; lia.
  - pose proof (stream_take_full _ _ _ _ Ht ltac:(lia) Hl) as Hf. rewrite Nat2Z.id in Hf.
    pose proof (stream_take_split _ _ _ _ Ht) as Hs. subst bs.
    unfold unpack_int in E. rewrite Hf, Nat.eqb_refl in E. cbn in E. injection E as <- <-.
    unfold prefix_val. rewrite <- Hf, firstn_app_exact, skipn_app_exact, app_length. repeat split; auto; lia.
Qed.

Lemma enc_char_size_width e : enc_char_size e = char_width e.
Proof. destruct e; reflexivity. Qed.

Lemma stream_read_ok_len n bs k v x :
  stream_read n bs k = DOk v x -> 0 < n -> (forall d r, k d r = DOk v x -> True) -> n <= zlen bs.
Proof.
  intros E Hn _. destruct (stream_read_cases n bs k)
    as (d & r & Ht & [(-> & _ & Hr)|[(-> & Hn0 & Hr)|[(Hd & Hl & Hr)|(Hd & Hl & Hr)]]]); try (rewrite Hr in E; discriminate); [lia|].
  apply stream_take_split in Ht. subst bs. unfold zlen in *. rewrite app_length. lia.
Qed.

Lemma str_no_short lsg lw enc fuel bs v rest k :
  decode_fuel fuel (TStr lsg lw enc) bs = DOk v rest -> announced (TStr lsg lw enc) bs = Some k -> k <= zlen bs.
Proof.
  cbn [decode_fuel announced]. unfold str_decode. intros E Ha. apply dwrap_ok_inv in E.
  apply dbind_ok_inv in E as (n & r1 & E1 & E). apply int_decode_value in E1 as (-> & -> & Hw).
  assert (Hlw : (lw <=? length bs)%nat = true) by now apply Nat.leb_le.
  rewrite Hlw in Ha. injection Ha as <-. cbn [as_int] in E. rewrite enc_char_size_width in E.
  destruct (prefix_val lsg lw bs =? 0) eqn:Ez.
  - apply Z.eqb_eq in Ez. rewrite Ez. unfold zlen. lia.
  - destruct (Z_lt_le_dec 0 (prefix_val lsg lw bs * char_width enc)) as [Hpos|Hneg]; [|unfold zlen; lia].
    apply stream_read_ok_len in E; [|exact Hpos|auto]. unfold zlen in *. rewrite skipn_length in E. lia.
Qed.

Lemma stringn_no_short fuel bs v rest k :
  decode_fuel fuel TStringN bs = DOk v rest -> announced TStringN bs = Some k -> k <= zlen bs.
Proof.
  intros E Ha.
  assert (Hk : (4 <= length bs)%nat -> k = 4 + prefix_val false 2 bs * prefix_val false 2 (skipn 2 bs)).
  { intros H4. unfold announced in Ha. apply Nat.leb_le in H4. rewrite H4 in Ha. now injection Ha. }
  clear Ha. cbn [decode_fuel] in E. unfold stringn_decode in E. rewrite named_UINT_decode in E. apply dwrap_ok_inv in E.
  apply dbind_ok_inv in E as (cs & r1 & E1 & E). apply int_decode_value in E1 as (-> & -> & Hw1).
  apply dbind_ok_inv in E as (cnt & r2 & E2 & E). apply int_decode_value in E2 as (-> & -> & Hw2).
  rewrite skipn_length in Hw2. rewrite Hk by lia. clear Hk. unfold as_int in E.
  remember (prefix_val false 2 bs) as cs eqn:Hcs. remember (prefix_val false 2 (skipn 2 bs)) as cnt eqn:Hcnt.
  destruct (stringn_enc cs); [|discriminate].
  destruct (cnt =? 0) eqn:Ez.
  - apply Z.eqb_eq in Ez. rewrite Ez. unfold zlen. lia.
  - destruct (Z_lt_le_dec 0 (cnt * cs)) as [Hpos|Hneg]; [|unfold zlen; lia].
    apply stream_read_ok_len in E; [|exact Hpos|auto]. unfold zlen in *. rewrite !skipn_length in E. lia.
Qed.

(* ------------------------------------------------------------------ BufferEmptyError only at the end *)
Definition AtEnd (dec : bytes -> dres) : Prop := forall bs r, dec bs = DEmpty r -> r = [].

Lemma Strict_AtEnd w dec : Strict w dec -> AtEnd dec.
Proof. intros H bs r E. specialize (H bs). rewrite E in H. now destruct H. Qed.

Lemma int_decode_AtEnd sg w : AtEnd (int_decode sg w).
Proof. eapply Strict_AtEnd, int_decode_strict. Qed.

(* a read raises BufferEmptyError only on the exhausted buffer *)
Lemma stream_read_AtEnd n bs k r :
  (forall d x, k d x <> DEmpty r) -> stream_read n bs k = DEmpty r -> r = [].
Proof.
  intros Hk E. destruct (stream_read_cases n bs k)
    as (d & x & Ht & [(-> & Hn & Hr)|[(-> & Hn & Hr)|[(Hd & Hl & Hr)|(Hd & Hl & Hr)]]]); rewrite Hr in E; try discriminate.
  - injection E as <-. now destruct (stream_read_empty _ _ _ Ht Hn).
  - exfalso. exact (Hk _ _ E).
  - exfalso. exact (Hk _ _ E).
Qed.

Lemma text_result_not_empty enc data r2 r :
  (match text_decode enc data with Ok s => DOk (VStr s) r2 | Err e => DErr e end) <> DEmpty r.
Proof. destruct (text_decode enc data); discriminate. Qed.

Lemma str_decode_AtEnd lsg lw enc : AtEnd (str_decode lsg lw enc).
Proof.
  intros bs r. unfold str_decode. intros E. apply dwrap_empty_inv in E.
  apply dbind_empty_inv in E as [E|(n & r1 & _ & E)]; [exact (int_decode_AtEnd _ _ _ _ E)|].
  destruct (as_int n =? 0) eqn:En; [discriminate|].
  revert E. apply stream_read_AtEnd. intros. apply text_result_not_empty.
Qed.

Lemma stringn_decode_AtEnd : AtEnd stringn_decode.
Proof.
  intros bs r. unfold stringn_decode. rewrite named_UINT_decode. intros E. apply dwrap_empty_inv in E.
  apply dbind_empty_inv in E as [E|(cs & r1 & _ & E)]; [exact (int_decode_AtEnd _ _ _ _ E)|].
  apply dbind_empty_inv in E as [E|(cnt & r2 & _ & E)]; [exact (int_decode_AtEnd _ _ _ _ E)|].
  destruct (stringn_enc (as_int cs)); [|discriminate].
  destruct (as_int cnt =? 0); [discriminate|].
  revert E. apply stream_read_AtEnd. intros. apply text_result_not_empty.
Qed.

Lemma nbytes_decode_AtEnd n : AtEnd (nbytes_decode n).
Proof.
  intros bs r. unfold nbytes_decode. intros E. apply dwrap_empty_inv in E.
  revert E. apply stream_read_AtEnd. discriminate.
Qed.

Lemma pccc_string_decode_AtEnd : AtEnd pccc_string_decode.
Proof.
  intros bs r. unfold pccc_string_decode. destruct pccc_string_enc; [|discriminate]. rewrite named_UINT_decode.
  intros E. apply dwrap_empty_inv in E.
  apply dbind_empty_inv in E as [E|(n & r1 & _ & E)]; [exact (int_decode_AtEnd false 2 _ _ E)|].
  destruct (stream_take 82 r1) as [d r2]. destruct (slc_swap d); [|discriminate].
  exfalso. exact (text_result_not_empty _ _ _ _ E).
Qed.

Lemma named_decode_AtEnd n : AtEnd (named_decode n).
Proof.
  unfold named_decode. destruct (ty_of_name n) as [[]|]; try (intros bs r; discriminate).
  - apply str_decode_AtEnd.
  - apply stringn_decode_AtEnd.
Qed.

(* lang = SHORT_STRING.decode(b"\x03" + stream.read(3)): BufferEmptyError only when the read
   returned nothing, i.e. the stream is exhausted *)
Lemma lang_decode_empty l3 x : named_decode n_SHORT_STRING (3 :: l3) = DEmpty x -> l3 = [].
Proof.
  rewrite named_SHORT_STRING_decode. unfold str_decode. intros E. apply dwrap_empty_inv in E.
  apply dbind_empty_inv in E as [E|(n & r1 & E1 & E)].
  - pose proof (int_decode_shape false 1 (3 :: l3)) as H. rewrite E in H. destruct H as (_ & H & _). discriminate.
  - apply int_decode_value in E1 as (-> & -> & _). cbn [as_int skipn] in E.
    unfold prefix_val in E. cbn [firstn le_dec] in E. change (3 + 256 * 0 =? 0) with false in E. cbn iota in E.
    destruct (stream_read_cases ((3 + 256 * 0) * enc_char_size Latin1) l3
                (fun data r2 => match text_decode Latin1 data with Ok s => DOk (VStr s) r2 | Err e => DErr e end))
      as (d & y & Ht & [(-> & Hn & Hr)|[(-> & Hn & Hr)|[(Hd & Hl & Hr)|(Hd & Hl & Hr)]]]); rewrite Hr in E; try discriminate.
    now destruct (stream_read_empty _ _ _ Ht Hn).
Qed.

Lemma stringi_items_AtEnd count : forall bs ss ls cs r, stringi_decode_items count bs ss ls cs = DEmpty r -> r = [].
Proof.
  induction count as [|c IH]; intros bs ss ls cs r; cbn [stringi_decode_items]; [discriminate|].
  destruct (stream_take 3 bs) as [l3 r1] eqn:Ht.
  destruct (named_decode n_SHORT_STRING (3 :: l3)) as [lang x|e|x|] eqn:El; try discriminate.
  - destruct r1 as [|code r2]; [discriminate|].
    destruct (zlookup stringi_string_types code) as [tn|]; [|discriminate].
    rewrite named_UINT_decode. intros E.
    apply dbind_empty_inv in E as [E|(chs & r3 & _ & E)]; [exact (int_decode_AtEnd _ _ _ _ E)|].
    apply dbind_empty_inv in E as [E|(s & r4 & _ & E)]; [exact (named_decode_AtEnd _ _ _ E)|].
    exact (IH _ _ _ _ _ E).
  - intros E. injection E as <-. apply lang_decode_empty in El. subst l3.
    now destruct (stream_read_empty _ _ _ Ht ltac:(lia)).
Qed.

Lemma stringi_decode_AtEnd : AtEnd stringi_decode.
Proof.
  intros bs r. unfold stringi_decode. rewrite named_USINT_decode. intros E. apply dwrap_empty_inv in E.
  apply dbind_empty_inv in E as [E|(c & r1 & _ & E)]; [exact (int_decode_AtEnd _ _ _ _ E)|].
  exact (stringi_items_AtEnd _ _ _ _ _ _ E).
Qed.

Lemma decode_n_AtEnd dec n : AtEnd dec -> AtEnd (decode_n dec n).
Proof.
  intros Hd. induction n as [|n IH]; intros bs r; cbn [decode_n]; [discriminate|].
  intros E. apply dbind_empty_inv in E as [E|(v & r1 & _ & E)]; [exact (Hd _ _ E)|].
  apply dbind_empty_inv in E as [E|(vs & r2 & _ & E)]; [exact (IH _ _ E)|]. destruct vs; discriminate.
Qed.

Lemma decode_all_not_empty dec f : forall bs r, decode_all dec f bs <> DEmpty r.
Proof.
  induction f as [|f IH]; intros bs r; cbn [decode_all]; [discriminate|].
  destruct (dec bs) as [v r1|e|x|]; try discriminate.
  destruct (length r1 =? length bs)%nat; [discriminate|].
  intros E. apply dbind_empty_inv in E as [E|(vs & r2 & _ & E)]; [exact (IH _ _ E)|]. destruct vs; discriminate.
Qed.

Lemma struct_members_AtEnd (ds : list (key * (bytes -> dres))) :
  Forall (fun d => AtEnd (snd d)) ds -> forall acc, AtEnd (struct_decode_members ds acc).
Proof.
  intros H. induction H as [|[k dec] ds Hd _ IH]; intros acc bs r; cbn [struct_decode_members]; [discriminate|].
  intros E. apply dbind_empty_inv in E as [E|(v & r1 & _ & E)]; [exact (Hd _ _ E)|exact (IH _ _ _ E)].
Qed.

Theorem buffer_empty_at_end : forall t, be_ok t = true -> forall fuel, AtEnd (decode_fuel fuel t).
Proof.
  induction t using ty_ind_nested; intros Hb fuel; cbn [be_ok] in Hb; try discriminate; cbn [decode_fuel].
  - eapply Strict_AtEnd, bool_decode_strict.
  - apply int_decode_AtEnd.
  - eapply Strict_AtEnd, real_decode_strict.
  - eapply Strict_AtEnd, datetime_decode_strict.
  - apply str_decode_AtEnd.
  - apply stringn_decode_AtEnd.
  - apply stringi_decode_AtEnd.
  - apply nbytes_decode_AtEnd.
  - eapply Strict_AtEnd, bits_decode_strict.
  - (* TArrFixed *)
    intros bs r. unfold array_decode_fixed. intros E. apply dwrap_empty_inv in E.
    apply dbind_empty_inv in E as [E|(vs & r1 & _ & E)]; [exact (decode_n_AtEnd _ n (IHt Hb fuel) _ _ E)|].
    exfalso. exact (array_flatten_not_empty _ _ _ _ E).
  - (* TArrPrefix *)
    apply andb_prop in Hb as [Hb1 Hb2].
    intros bs r. unfold array_decode_prefix. intros E. apply dwrap_empty_inv in E.
    apply dbind_empty_inv in E as [E|(n & r1 & _ & E)]; [exact (IHt1 Hb1 fuel _ _ E)|].
    destruct (match n with VInt z => Some z | VBool b0 => Some (if b0 then 1 else 0) | _ => None end) as [z|]; [|discriminate].
    destruct (decode_n (decode_fuel fuel t2) _ r1) as [vs r2|e|x|] eqn:E2; try discriminate.
    + destruct (count_limit <? z); [discriminate|]. exfalso. exact (array_flatten_not_empty _ _ _ _ E).
    + injection E as <-. exact (decode_n_AtEnd _ _ (IHt2 Hb2 fuel) _ _ E2).
  - (* TArrAll *)
    intros bs r. unfold array_decode_all. intros E. apply dwrap_empty_inv in E.
    apply dbind_empty_inv in E as [E|(vs & r1 & _ & E)]; exfalso;
      [exact (decode_all_not_empty _ _ _ _ E)|exact (array_flatten_not_empty _ _ _ _ E)].
  - (* TStruct *)
    intros bs r. unfold struct_decode, struct_decode_inner. intros E. apply dwrap_empty_inv in E.
    apply dbind_empty_inv in E as [E|(v1 & r1 & _ & E)].
    + apply dbind_empty_inv in E as [E|(v2 & r2 & _ & E)]; [|destruct v2; discriminate].
      revert E. apply struct_members_AtEnd.
      rewrite forallb_forall in Hb. rewrite Forall_forall in H. rewrite Forall_forall. intros d Hd.
      apply in_map_iff in Hd as (m & <- & Hm). cbn [snd]. apply (H m Hm), Hb, Hm.
    + destruct k; [discriminate| |]; destruct v1; try discriminate; destruct (identity_post d); discriminate.
  - eapply Strict_AtEnd, fixedstr_decode_strict.
  - (* TStructTag *)
    eapply Strict_AtEnd. apply (strict_decode (TStructTag ms bits priv size) Hb fuel).
  - eapply Strict_AtEnd, ip_decode_strict.
  - eapply Strict_AtEnd, pccc_ascii_decode_strict.
  - apply pccc_string_decode_AtEnd.
Qed.
