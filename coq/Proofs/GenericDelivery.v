(* Proofs/GenericDelivery.v — delivered_verbatim: what the spec parsers (Spec/GenericSpec.v
   spec_extract = frame parser, message-router request parser, Unconnected Send unwrapper, path
   reader, composed as the target composes them) read out of the frame Model/Generic.v emits is
   what the caller asked — for connected messaging, Unconnected Send with a route, and direct UCMM
   without one (the default route_path=True resolves to none there), an Unconnected Send without a
   route carrying an empty route path; and exactly NOT so on the one guarded input class. *)
From Coq Require Import String ZifyBool.
From PV Require Import Base.Bytes Base.BytesLemmas Base.Res Base.Proto Base.PyStr.
From PV Require Import Gen.PathTables Gen.Consts Gen.Tables Gen.GenericFacts Gen.SeqGen Model.EnumMapDefs Model.Path Model.Generic.
From PV Require Model.Seq.
From PV Require Import Spec.EncapParser Spec.MRParser Spec.TargetIface Spec.GenericSpec.
From PV Require Import Proofs.TargetCoreP Proofs.GenericPath Proofs.GenericFrame.
Open Scope Z_scope.
Ltac Zify.zify_post_hook ::= Z.to_euclidean_division_equations.

(* ---------------------------------------------------------------- the domain of the statement *)
(* a service code: int 0..127, or that one byte *)
Definition service_value (s : sval) : option Z :=
  match s with
  | SInt z => if (0 <=? z) && (z <? 128) then Some z else None
  | SBytes [z] => if (0 <=? z) && (z <? 128) then Some z else None
  | SBytes _ => None
  end.

(* a route path: port segments, even length, at most 255 words *)
Definition route_payload_wf (rb : bytes) : bool :=
  Z.even (blen rb) && (blen rb <? 512) && route_ok rb && bytes_ok rb.
(* the bytes a requested route becomes (PADDED_EPATH with length and pad): words, 0, route path *)
Definition route_wf (rt : bytes) : bool :=
  match rt with
  | n :: 0 :: rb => (n =? blen rb / 2) && route_payload_wf rb
  | _ => false
  end.
Definition requested_route (rt : bytes) : bytes := skipn 2 rt.

Record wf_call (d : drv) (a : gm_args) (svc : Z) (rt : bytes) : Prop := {
  wf_drv : drv_ok d = true;
  wf_conn : a_connected a = true -> d_connected d = true /\ 1 <= d_seq d <= 65536;
  wf_svc : service_value (a_service a) = Some svc;
  wf_cls : id_ok 2 (a_class a) = true;
  wf_ins : id_ok 4 (a_instance a) = true;
  wf_att : att_ok (a_attribute a) = true;
  wf_data : bytes_ok (a_data a) = true /\ blen (a_data a) <= 60000;
  (* unconnected: the route argument resolves to [rt]: nothing, or a well-formed encoded route *)
  wf_route : a_connected a = false -> resolve_route d (a_ucsend a) (a_route a) = Ok rt /\ (rt = [] \/ route_wf rt = true);
  (* a hand-made Unconnected Send passed through direct UCMM is the caller's own wrapper, not a request *)
  wf_plain : a_connected a = false -> a_ucsend a = false ->
             ~ (svc = 82 /\ lval_value (a_class a) = 6 /\ lval_value (a_instance a) = 1 /\ att_value (a_attribute a) = None) }.

(* what the caller asked the target's message router for *)
Definition asked (d : drv) (a : gm_args) (svc : Z) (rt : bytes) : delivered :=
  {| dl_mode := if a_connected a then MConnected (le_dec (d_cid d)) (fst (Seq.draw (d_seq d)))
                else if a_ucsend a then MUcsend (hd 0 PRIORITY) (hd 0 TIMEOUT_TICKS) (requested_route rt)
                else MUcmm;
     dl_session := d_session d; dl_service := svc;
     dl_class := lval_value (a_class a); dl_instance := lval_value (a_instance a);
     dl_attribute := att_value (a_attribute a); dl_data := a_data a |}.

(* the one input class on which the target is NOT asked [asked]: direct UCMM with an EXPLICITLY
   given route (str / segments / bytes): it is appended after the request data — the library's own
   Forward Open / Forward Close calls rely on it.  (An Unconnected Send without a route carries an
   empty route path; route_path=True means the connection's route inside an Unconnected Send only.) *)
Definition delivery_guard (a : gm_args) (rt : bytes) : bool :=
  negb (a_connected a) && negb (a_ucsend a) && match rt with [] => false | _ => true end.

(* ---------------------------------------------------------------- small facts *)
Lemma service_bytes_ok s svc : service_value s = Some svc -> service_bytes s = Ok [svc] /\ 0 <= svc < 128.
Proof.
  destruct s as [z | [| z [| ? ?]]]; cbn [service_value service_bytes]; try discriminate.
  - destruct ((0 <=? z) && (z <? 128)) eqn:E; [| discriminate]. intros [= <-].
    unfold byte_ok. replace ((0 <=? z) && (z <? 256)) with true by lia. split; [reflexivity | lia].
  - destruct ((0 <=? z) && (z <? 128)) eqn:E; [| discriminate]. intros [= <-]. split; [reflexivity | lia].
Qed.

Lemma draw_range v : 1 <= v <= 65536 -> 1 <= fst (Seq.draw v) <= 65535.
Proof.
  intros H. unfold Seq.draw, cycle_step, SEQ_STOP, SEQ_START. cbn [fst].
  destruct (v >? 65535) eqn:E; lia.
Qed.

Lemma le_enc2_cons z r : le_enc 2 z ++ r = (z mod 256) :: ((z / 256) mod 256) :: r.
Proof. reflexivity. Qed.

Lemma route_wf_inv rt : route_wf rt = true ->
  exists rb, rt = (blen rb / 2) :: 0 :: rb /\ Z.even (blen rb) = true /\ blen rb < 512 /\ route_ok rb = true /\ bytes_ok rb = true.
Proof.
  destruct rt as [| n [| z rb]]; try discriminate.
  destruct z; try discriminate. cbn [route_wf]. unfold route_payload_wf. intros H.
  apply andb_prop in H as [Hn H]. apply andb_prop in H as [H Hb]. apply andb_prop in H as [H Hr].
  apply andb_prop in H as [He Hl].
  exists rb. repeat split; try assumption; try lia. f_equal. lia.
Qed.

Lemma bytes_ok_byte b : 0 <= b < 256 -> byte_ok b = true.
Proof. unfold byte_ok. lia. Qed.

(* the embedded / direct message-router request and what the spec reads from it *)
Lemma mr_request_read svc p data ses m (c i : Z) (oa : option Z) :
  0 <= svc < 128 -> Z.even (blen p) = true -> blen p < 512 -> path_cia p = Some (c, i, oa) ->
  parse_mr (svc :: (blen p / 2) :: p ++ data) = RcOk {| mr_service := svc; mr_path := p; mr_data := data |}
  /\ deliver_mr m ses {| mr_service := svc; mr_path := p; mr_data := data |}
     = Some {| dl_mode := m; dl_session := ses; dl_service := svc; dl_class := c; dl_instance := i; dl_attribute := oa; dl_data := data |}.
Proof.
  intros Hs He Hl Hp. split; [apply parse_mr_built; assumption |].
  unfold deliver_mr. cbn [mr_path mr_service mr_data]. rewrite Hp. reflexivity.
Qed.

(* ---------------------------------------------------------------- connected *)
Lemma delivered_connected d a svc rt :
  wf_call d a svc rt -> a_connected a = true ->
  exists d' fr, gm_request d a = (d', Done fr) /\ spec_extract fr = Some (asked d a svc rt).
Proof.
  intros W Hc. destruct W as [Wd Wc Ws Wcl Wi Wa [Wdo Wdl] _ _].
  destruct (Wc Hc) as [Hdc Hseq].
  destruct (service_bytes_ok _ _ Ws) as [Hsb Hsr].
  destruct (request_path_cia _ _ _ Wcl Wi Wa) as (p & Hrp & Hcia & Hpo & Hpe & Hpl).
  pose proof (draw_range _ Hseq) as Hdr.
  unfold gm_request, asked. rewrite Hc, Hdc. cbn [negb].
  destruct (Seq.draw (d_seq d)) as [seq v'] eqn:Ed. cbn [fst] in Hdr |- *.
  rewrite Hsb. cbn [bind]. unfold connected_message. rewrite uint16_ok by lia. cbn [bind]. rewrite Hrp. cbn [bind].
  rewrite cmd_unit, addr_connection, item_connected. cbn [bind].
  set (msg := le_enc 2 seq ++ [svc] ++ (blen p / 2 :: p) ++ a_data a).
  pose proof (blen_nonneg (a_data a)) as Hdn.
  assert (Hml : blen msg = 4 + blen p + blen (a_data a)).
  { unfold msg. rewrite !blen_app, blen_le_enc, !blen_cons, blen_nil. lia. }
  assert (Hmo : bytes_ok msg = true).
  { unfold msg. rewrite !bytes_ok_app, le_enc_ok, !bytes_ok_cons, Hpo, Wdo.
    rewrite !bytes_ok_byte by lia. reflexivity. }
  rewrite (build_request_unit d msg Wd) by lia.
  cbn [of_res]. eexists _, _. split; [reflexivity |].
  unfold spec_extract. rewrite parse_mk_frame by (apply (frame_wf_unit d); [exact Wd | exact Hmo | lia]).
  cbn [f_body f_session].
  unfold msg. rewrite le_enc2_cons. cbn [app].
  destruct (mr_request_read svc p (a_data a) (d_session d) (MConnected (le_dec (d_cid d)) (u16 (seq mod 256) ((seq / 256) mod 256)))
              _ _ _ Hsr Hpe ltac:(lia) Hcia) as [Hpm Hdm].
  rewrite Hpm, Hdm. rewrite u16_enc by lia. reflexivity.
Qed.

(* ---------------------------------------------------------------- direct UCMM, no route *)
Lemma cia_is_ucsend (c i : Z) (oa : option Z) :
  match Some (c, i, oa) with Some (6, 1, None) => true | _ => false end
  = (c =? 6) && (i =? 1) && match oa with None => true | Some _ => false end.
Proof.
  destruct (c =? 6) eqn:Ec.
  - apply Z.eqb_eq in Ec. subst c. destruct (i =? 1) eqn:Ei.
    + apply Z.eqb_eq in Ei. subst i. destruct oa; reflexivity.
    + destruct i as [| q | q]; try reflexivity. destruct q; try reflexivity. discriminate.
  - destruct c as [| q | q]; try reflexivity.
    destruct q as [q | q |]; try reflexivity. destruct q as [q | q |]; try reflexivity.
    destruct q; try reflexivity. discriminate.
Qed.

Lemma delivered_ucmm d a svc :
  wf_call d a svc [] -> a_connected a = false -> a_ucsend a = false ->
  exists d' fr, gm_request d a = (d', Done fr) /\ spec_extract fr = Some (asked d a svc []).
Proof.
  intros W Hc Hu. destruct W as [Wd _ Ws Wcl Wi Wa [Wdo Wdl] Wr Wp].
  destruct (Wr Hc) as [Hrt _]. rewrite Hu in Hrt. specialize (Wp Hc Hu).
  destruct (service_bytes_ok _ _ Ws) as [Hsb Hsr].
  destruct (request_path_cia _ _ _ Wcl Wi Wa) as (p & Hrp & Hcia & Hpo & Hpe & Hpl).
  unfold gm_request, asked. rewrite Hc, Hu, Hrt. cbn [bind].
  rewrite Hsb. cbn [bind]. unfold unconnected_message. rewrite Hrp. cbn [bind].
  rewrite cmd_rr, addr_uccm, item_unconnected. cbn [bind].
  set (msg := [svc] ++ (blen p / 2 :: p) ++ a_data a ++ []).
  pose proof (blen_nonneg (a_data a)) as Hdn.
  assert (Hml : blen msg = 2 + blen p + blen (a_data a)).
  { unfold msg. rewrite !blen_app, !blen_cons, !blen_nil. lia. }
  assert (Hmo : bytes_ok msg = true).
  { unfold msg. rewrite !bytes_ok_app, !bytes_ok_cons, Hpo, Wdo. rewrite !bytes_ok_byte by lia. reflexivity. }
  rewrite (build_request_rr d msg Wd) by lia.
  cbn [of_res]. eexists _, _. split; [reflexivity |].
  unfold spec_extract. rewrite parse_mk_frame by (apply (frame_wf_rr d); [exact Wd | exact Hmo | lia]).
  cbn [f_body f_session]. unfold msg. rewrite app_nil_r. cbn [app].
  destruct (mr_request_read svc p (a_data a) (d_session d) MUcmm _ _ _ Hsr Hpe ltac:(lia) Hcia) as [Hpm Hdm].
  rewrite Hpm.
  assert (Hnu : is_unconnected_send {| mr_service := svc; mr_path := p; mr_data := a_data a |} = false).
  { unfold is_unconnected_send. cbn [mr_service mr_path]. rewrite Hcia, cia_is_ucsend.
    destruct (svc =? 82) eqn:E1; [| reflexivity].
    destruct (lval_value (a_class a) =? 6) eqn:E2; [| reflexivity].
    destruct (lval_value (a_instance a) =? 1) eqn:E3; [| reflexivity].
    destruct (att_value (a_attribute a)) eqn:E4; [reflexivity |].
    exfalso. apply Wp. repeat split; lia. }
  rewrite Hnu, Hdm. reflexivity.
Qed.

(* ---------------------------------------------------------------- Unconnected Send with a route *)
Lemma bytes_ok_mk_ucsend emb rb :
  bytes_ok emb = true -> bytes_ok rb = true -> blen emb < 65536 -> blen rb < 512 ->
  bytes_ok (mk_ucsend 10 5 emb rb) = true.
Proof.
  intros He Hr Hl Hrl. pose proof (blen_nonneg rb). unfold mk_ucsend.
  rewrite !bytes_ok_cons, !bytes_ok_app, le_enc_ok, He, !bytes_ok_cons, Hr.
  rewrite (bytes_ok_byte (blen rb / 2)) by lia.
  destruct (Z.odd (blen emb)); reflexivity.
Qed.

Lemma blen_mk_ucsend emb rb : blen (mk_ucsend 10 5 emb rb) <= 7 + blen emb + blen rb.
Proof.
  unfold mk_ucsend. rewrite !blen_cons, !blen_app, blen_le_enc, !blen_cons.
  destruct (Z.odd (blen emb)); rewrite ?blen_cons, ?blen_nil; lia.
Qed.

Lemma priority_v : hd 0 PRIORITY = 10. Proof. reflexivity. Qed.
Lemma ticks_v : hd 0 TIMEOUT_TICKS = 5. Proof. reflexivity. Qed.

Lemma delivered_ucsend_core d a svc rt rb :
  wf_call d a svc rt -> a_connected a = false -> a_ucsend a = true ->
  (forall emb, blen emb < 65536 ->
     wrap_unconnected_send emb rt = Ok (82 :: blen [32; 6; 36; 1] / 2 :: [32; 6; 36; 1] ++ mk_ucsend 10 5 emb rb)) ->
  requested_route rt = rb ->
  Z.even (blen rb) = true -> blen rb < 512 -> route_ok rb = true -> bytes_ok rb = true ->
  exists d' fr, gm_request d a = (d', Done fr) /\ spec_extract fr = Some (asked d a svc rt).
Proof.
  intros W Hc Hu Hwrap Hreq Hre Hrl Hrok Hrbo. destruct W as [Wd _ Ws Wcl Wi Wa [Wdo Wdl] Wr _].
  destruct (Wr Hc) as [Hrt _]. rewrite Hu in Hrt.
  destruct (service_bytes_ok _ _ Ws) as [Hsb Hsr].
  destruct (request_path_cia _ _ _ Wcl Wi Wa) as (p & Hrp & Hcia & Hpo & Hpe & Hpl).
  unfold gm_request, asked. rewrite Hc, Hu, Hrt, Hreq. cbn [bind].
  rewrite Hsb. cbn [bind]. unfold unconnected_message. rewrite Hrp. cbn [bind].
  set (emb := [svc] ++ (blen p / 2 :: p) ++ a_data a).
  pose proof (blen_nonneg (a_data a)) as Hdn. pose proof (blen_nonneg rb) as Hrn.
  assert (Hel : blen emb = 2 + blen p + blen (a_data a)).
  { unfold emb. rewrite !blen_app, !blen_cons, !blen_nil. lia. }
  assert (Heo : bytes_ok emb = true).
  { unfold emb. rewrite !bytes_ok_app, !bytes_ok_cons, Hpo, Wdo. rewrite !bytes_ok_byte by lia. reflexivity. }
  rewrite Hwrap by lia. cbn [bind].
  rewrite cmd_rr, addr_uccm, item_unconnected. cbn [bind].
  set (msg := 82 :: blen [32; 6; 36; 1] / 2 :: [32; 6; 36; 1] ++ mk_ucsend 10 5 emb rb).
  pose proof (blen_mk_ucsend emb rb) as Hul. pose proof (blen_nonneg (mk_ucsend 10 5 emb rb)) as Hun.
  assert (Hml : blen msg = 6 + blen (mk_ucsend 10 5 emb rb)).
  { unfold msg. rewrite !blen_cons, blen_app, !blen_cons, blen_nil. lia. }
  assert (Hmo : bytes_ok msg = true).
  { unfold msg. rewrite !bytes_ok_cons, bytes_ok_app, bytes_ok_mk_ucsend by (try assumption; lia). reflexivity. }
  rewrite (build_request_rr d msg Wd) by lia.
  cbn [of_res]. eexists _, _. split; [reflexivity |].
  unfold spec_extract. rewrite parse_mk_frame by (apply (frame_wf_rr d); [exact Wd | exact Hmo | lia]).
  cbn [f_body f_session]. unfold msg.
  rewrite (parse_mr_built 82 [32; 6; 36; 1] (mk_ucsend 10 5 emb rb)) by (try reflexivity; lia).
  replace (is_unconnected_send {| mr_service := 82; mr_path := [32; 6; 36; 1]; mr_data := mk_ucsend 10 5 emb rb |})
    with true by reflexivity.
  cbn [mr_data].
  destruct (mr_request_read svc p (a_data a) (d_session d) (MUcsend 10 5 rb) _ _ _ Hsr Hpe ltac:(lia) Hcia) as [Hpm Hdm].
  rewrite (parse_mk_ucsend 10 5 emb rb _ ltac:(lia) Hre Hrl Hrok Hpm).
  cbn [us_priority us_ticks us_route us_request]. rewrite Hdm, priority_v, ticks_v. reflexivity.
Qed.

(* ... with a route: its size byte, the reserved byte, the route path *)
Lemma delivered_ucsend d a svc rt :
  wf_call d a svc rt -> a_connected a = false -> a_ucsend a = true -> route_wf rt = true ->
  exists d' fr, gm_request d a = (d', Done fr) /\ spec_extract fr = Some (asked d a svc rt).
Proof.
  intros W Hc Hu Hrw. destruct (route_wf_inv _ Hrw) as (rb & Heq & Hre & Hrl & Hrok & Hrbo). subst rt.
  apply (delivered_ucsend_core d a svc _ rb W Hc Hu); try assumption; try reflexivity.
  intros emb Hl. apply wrap_unconnected_send_spec. exact Hl.
Qed.

(* ... without a route: an empty route path (size 0, reserved 0) *)
Lemma delivered_ucsend_noroute d a svc :
  wf_call d a svc [] -> a_connected a = false -> a_ucsend a = true ->
  exists d' fr, gm_request d a = (d', Done fr) /\ spec_extract fr = Some (asked d a svc []).
Proof.
  intros W Hc Hu.
  apply (delivered_ucsend_core d a svc [] [] W Hc Hu); try reflexivity.
  intros emb Hl. apply wrap_unconnected_send_noroute. exact Hl.
Qed.

(* ---------------------------------------------------------------- delivered_verbatim *)
Theorem delivered_verbatim d a svc rt :
  wf_call d a svc rt -> delivery_guard a rt = false ->
  exists d' fr, gm_request d a = (d', Done fr) /\ spec_extract fr = Some (asked d a svc rt).
Proof.
  intros W G. unfold delivery_guard in G.
  destruct (a_connected a) eqn:Hc; [apply delivered_connected; assumption |].
  cbn [negb andb] in G. destruct (wf_route _ _ _ _ W Hc) as [_ Hrw].
  destruct (a_ucsend a) eqn:Hu.
  - destruct Hrw as [-> | Hrw]; [apply delivered_ucsend_noroute | apply delivered_ucsend]; assumption.
  - cbn [negb andb] in G. destruct rt as [| x rt']; [| discriminate]. apply delivered_ucmm; assumption.
Qed.

(* ---------------------------------------------------------------- the guard is exact *)
(* direct UCMM with a route: the route bytes arrive as request data after the caller's data *)
Lemma ucmm_route_appended d a svc rt :
  wf_call d a svc rt -> a_connected a = false -> a_ucsend a = false -> route_wf rt = true ->
  exists d' fr, gm_request d a = (d', Done fr)
    /\ spec_extract fr = Some {| dl_mode := MUcmm; dl_session := d_session d; dl_service := svc;
                                 dl_class := lval_value (a_class a); dl_instance := lval_value (a_instance a);
                                 dl_attribute := att_value (a_attribute a); dl_data := a_data a ++ rt |}.
Proof.
  intros W Hc Hu Hrw. destruct W as [Wd _ Ws Wcl Wi Wa [Wdo Wdl] Wr Wp].
  destruct (Wr Hc) as [Hrt _]. rewrite Hu in Hrt. specialize (Wp Hc Hu).
  destruct (route_wf_inv _ Hrw) as (rb & Hrteq & Hre & Hrl & Hrok & Hrbo).
  destruct (service_bytes_ok _ _ Ws) as [Hsb Hsr].
  destruct (request_path_cia _ _ _ Wcl Wi Wa) as (p & Hrp & Hcia & Hpo & Hpe & Hpl).
  unfold gm_request. rewrite Hc, Hu, Hrt. cbn [bind].
  rewrite Hsb. cbn [bind]. unfold unconnected_message. rewrite Hrp. cbn [bind].
  rewrite cmd_rr, addr_uccm, item_unconnected. cbn [bind].
  set (msg := [svc] ++ (blen p / 2 :: p) ++ a_data a ++ rt).
  pose proof (blen_nonneg (a_data a)) as Hdn. pose proof (blen_nonneg rb) as Hrn.
  assert (Hrtl : blen rt = 2 + blen rb) by (rewrite Hrteq, !blen_cons; lia).
  assert (Hrto : bytes_ok rt = true).
  { rewrite Hrteq, !bytes_ok_cons, Hrbo. rewrite (bytes_ok_byte (blen rb / 2)) by lia. reflexivity. }
  assert (Hml : blen msg = 2 + blen p + blen (a_data a) + blen rt).
  { unfold msg. rewrite !blen_app, !blen_cons, !blen_nil. lia. }
  assert (Hmo : bytes_ok msg = true).
  { unfold msg. rewrite !bytes_ok_app, !bytes_ok_cons, Hpo, Wdo, Hrto. rewrite !bytes_ok_byte by lia. reflexivity. }
  rewrite (build_request_rr d msg Wd) by lia.
  cbn [of_res]. eexists _, _. split; [reflexivity |].
  unfold spec_extract. rewrite parse_mk_frame by (apply (frame_wf_rr d); [exact Wd | exact Hmo | lia]).
  cbn [f_body f_session]. unfold msg. cbn [app].
  destruct (mr_request_read svc p (a_data a ++ rt) (d_session d) MUcmm _ _ _ Hsr Hpe ltac:(lia) Hcia) as [Hpm Hdm].
  rewrite Hpm.
  assert (Hnu : is_unconnected_send {| mr_service := svc; mr_path := p; mr_data := a_data a ++ rt |} = false).
  { unfold is_unconnected_send. cbn [mr_service mr_path]. rewrite Hcia, cia_is_ucsend.
    destruct (svc =? 82) eqn:E1; [| reflexivity].
    destruct (lval_value (a_class a) =? 6) eqn:E2; [| reflexivity].
    destruct (lval_value (a_instance a) =? 1) eqn:E3; [| reflexivity].
    destruct (att_value (a_attribute a)) eqn:E4; [reflexivity |].
    exfalso. apply Wp. repeat split; lia. }
  rewrite Hnu, Hdm. reflexivity.
Qed.

Theorem delivery_guard_exact d a svc rt :
  wf_call d a svc rt -> delivery_guard a rt = true ->
  exists d' fr, gm_request d a = (d', Done fr) /\ spec_extract fr <> Some (asked d a svc rt).
Proof.
  intros W G. unfold delivery_guard in G.
  destruct (a_connected a) eqn:Hc; [discriminate |]. cbn [negb andb] in G.
  destruct (wf_route _ _ _ _ W Hc) as [_ Hrw].
  destruct (a_ucsend a) eqn:Hu; [discriminate |]. cbn [negb andb] in G.
  destruct rt as [| x rt']; [discriminate |]. destruct Hrw as [Hrw | Hrw]; [discriminate |].
  destruct (ucmm_route_appended d a svc (x :: rt') W Hc Hu Hrw) as (d' & fr & H1 & H2).
  exists d', fr. split; [exact H1 |]. rewrite H2. unfold asked. rewrite Hc, Hu.
  intros [= Heq]. apply (f_equal (@List.length Z)) in Heq. rewrite app_length in Heq. cbn [List.length] in Heq. lia.
Qed.
