(* Proofs/ReadInstance.v — symbol-instance addressing (use_instance_ids=True) and member paths.
   Part 1 (reference target, Spec/TargetLogix.v): the pair  class 0x6B / instance i  stands for the tag whose
           symbol instance is i: followed by ANY segments (element indexes, member names, deeper members) it
           resolves to the same place as the symbolic segment of the tag's name followed by the same segments —
           in every scope (after a Program:P segment too), for every project with distinct instance ids / names.
           At the byte level for controller-scope tags: inst_seg_bytes i ++ R  vs  sym_seg_bytes name ++ R.
   Part 2 (the driver, Model/Path.v tag_request_path through LogixRead.read_path): WHEN the code uses an instance
           segment.  [by_instance use q]: use_instance_ids, the tag info of the request carries an instance id
           that is not 0, and the first dotted part does not start with "Program:".  Outside it the path is the
           symbolic one whatever use_instance_ids is.  A request with a member path takes its info from the
           data-type dict of the member (_get_tag_info), which has no instance id: member requests are ALWAYS
           addressed symbolically (so are Program: scoped tags).  The instance form is only emitted for
           single-segment controller-scope requests (tag, tag[i,j,k], .bit, {n}): Proofs/ReadResolve1.v.
   No axioms. *)
From Coq Require Import ZifyBool String.
From PV Require Import Base.Bytes Base.BytesLemmas Base.Res Base.Proto Base.PyStr.
From PV Require Import Gen.Consts Gen.PathTables Model.Path Model.Reply Model.LogixPlan Model.LogixRead.
From PV Require Import Spec.EncapParser Spec.MRParser Spec.TargetIface Spec.TargetCore Spec.Project Spec.Expect Spec.TargetLogix.
From PV Require Import Proofs.PathStr Proofs.TargetCoreP Proofs.TargetLogixP Proofs.ReadBits Proofs.ReadDecode Proofs.ReadTarget
  Proofs.ReadValue Proofs.ReadFrag Proofs.ReadMulti Proofs.ReadPlan Proofs.ReadCorrect Proofs.ReadResolve Proofs.ReadResolve1
  Proofs.ReadResolve2.
Open Scope list_scope.
Open Scope Z_scope.
Ltac Zify.zify_post_hook ::= Z.to_euclidean_division_equations.

(* ================================================================ Part 1: the target *)
Lemma wf_distinct p : wf_project p = true ->
  distinct_by Z.eqb (map g_inst (p_tags p)) = true /\ distinct_by tag_key_eqb (p_tags p) = true.
Proof.
  intros H. unfold wf_project in H. repeat (apply andb_prop in H; destruct H as [H ?]). split; assumption.
Qed.

Definition inst_psegs (i : Z) : list pseg := [PLog 0 107; PLog 1 i].

Lemma resolve_in_scope_inst p listing sc i rest :
  resolve_in_scope p listing sc (PLog 0 107 :: PLog 1 i :: rest)
  = match rest, listing with
    | [], true => TgSymbols sc i
    | _, _ => match find_tag_inst (p_tags p) i with
              | Some g => if scope_eqb (g_scope g) sc
                          then match tag_wloc g with ROk l => of_rres (resolve_segs p l [] rest) | RErr a b c => TgErr a b c end
                          else TgErr 4 [] 9
              | None => TgErr 4 [] 9
              end
    end.
Proof. reflexivity. Qed.

Theorem instance_in_scope p g listing rest :
  wf_project p = true -> In g (p_tags p) -> (listing = false \/ rest <> []) ->
  resolve_in_scope p listing (g_scope g) (inst_psegs (g_inst g) ++ rest)
  = resolve_in_scope p listing (g_scope g) (PSym (g_name g) :: rest).
Proof.
  intros Hwf Hin Hl. destruct (wf_distinct p Hwf) as [Hdi Hdk].
  unfold inst_psegs. cbn [app]. rewrite resolve_in_scope_inst.
  rewrite (find_tag_inst_distinct _ g Hdi Hin), scope_eqb_refl.
  cbn [resolve_in_scope]. rewrite (find_tag_name_distinct _ g Hdk Hin).
  destruct rest as [|r0 rr]; [|reflexivity]. destruct listing; [|reflexivity]. destruct Hl; congruence.
Qed.

(* bytes *)
Lemma parse_psegs_inst i R f : 0 < i < 4294967296 ->
  parse_psegs (S (S f)) (inst_seg_bytes i ++ R)
  = match parse_psegs f R with Some l => Some (PLog 0 107 :: PLog 1 i :: l) | None => None end.
Proof.
  intros Hi. unfold inst_seg_bytes. destruct (i <=? 255) eqn:E1.
  - cbn [app parse_psegs]. rewrite (pseg_log 32) by reflexivity. rewrite pl_32.
    rewrite (pseg_log 36) by reflexivity. rewrite pl_36. destruct (parse_psegs f R); reflexivity.
  - destruct (i <=? 65535) eqn:E2.
    + cbn [app le_enc parse_psegs]. rewrite (pseg_log 32) by reflexivity. rewrite pl_32.
      rewrite (pseg_log 37) by reflexivity. rewrite pl_37, u16_enc by lia. destruct (parse_psegs f R); reflexivity.
    + cbn [app le_enc parse_psegs]. rewrite (pseg_log 32) by reflexivity. rewrite pl_32.
      rewrite (pseg_log 38) by reflexivity. rewrite pl_38, u32_enc by lia. destruct (parse_psegs f R); reflexivity.
Qed.

Lemma inst_seg_len i : (4 <= length (inst_seg_bytes i))%nat.
Proof. unfold inst_seg_bytes. destruct (i <=? 255); [cbn; lia|]. destruct (i <=? 65535); cbn; lia. Qed.

(* the rest of a path: element indexes of the tag, then member parts *)
Definition rest_bytes (idv : list Z) (more : list ppart) : bytes := mems_bytes idv ++ gbytes more.
Definition rest_psegs (idv : list Z) (more : list ppart) : list pseg := map (PLog 2) idv ++ gpsegs more.

Lemma parse_rest idv more : idx32 idv -> Forall ppart_ok more ->
  parse_psegs (length idv + length (gpsegs more)) (rest_bytes idv more) = Some (rest_psegs idv more)
  /\ (length idv + length (gpsegs more) <= length (rest_bytes idv more))%nat.
Proof.
  intros H32 HF. unfold rest_bytes, rest_psegs. split.
  - rewrite (parse_psegs_mems_app idv (gbytes more) _ H32), (parse_gpsegs more HF). reflexivity.
  - rewrite app_length. destruct (gbytes_len more) as [_ Hl]. destruct (mems_len idv) as [_ Hm]. unfold Path.len in Hm. lia.
Qed.

Theorem instance_path_resolves p g idv more :
  wf_project p = true -> In g (p_tags p) -> g_scope g = ScCtrl ->
  starts_with txt_Program_ (g_name g) = false -> Path.len (g_name g) < 256 -> idx32 idv -> Forall ppart_ok more ->
  parse_psegs (length (inst_seg_bytes (g_inst g) ++ rest_bytes idv more)) (inst_seg_bytes (g_inst g) ++ rest_bytes idv more)
    = Some (inst_psegs (g_inst g) ++ rest_psegs idv more)
  /\ parse_psegs (length (sym_seg_bytes (g_name g) ++ rest_bytes idv more)) (sym_seg_bytes (g_name g) ++ rest_bytes idv more)
    = Some (PSym (g_name g) :: rest_psegs idv more)
  /\ resolve_path p false (inst_seg_bytes (g_inst g) ++ rest_bytes idv more)
     = resolve_path p false (sym_seg_bytes (g_name g) ++ rest_bytes idv more).
Proof.
  intros Hwf Hin Hsc Hnp Hn256 H32 HF.
  assert (Hok : tag_ok p g = true).
  { pose proof Hwf as H. unfold wf_project in H. repeat (apply andb_prop in H; destruct H as [H ?]).
    apply (forallb_In _ (p_tags p)); assumption. }
  assert (Hir : 0 < g_inst g < 4294967296).
  { unfold tag_ok in Hok. repeat (apply andb_prop in Hok; destruct Hok as [Hok ?]). lia. }
  assert (Hnl : 1 <= Path.len (g_name g) < 256).
  { unfold tag_ok in Hok. repeat (apply andb_prop in Hok; destruct Hok as [Hok ?]).
    destruct (g_name g); [discriminate|]. unfold Path.len in *. cbn [length] in *. lia. }
  destruct (parse_rest idv more H32 HF) as [Hpr Hlen].
  assert (P1 : parse_psegs (length (inst_seg_bytes (g_inst g) ++ rest_bytes idv more)) (inst_seg_bytes (g_inst g) ++ rest_bytes idv more)
               = Some (inst_psegs (g_inst g) ++ rest_psegs idv more)).
  { apply (parse_psegs_mono (S (S (length idv + length (gpsegs more))))).
    - rewrite (parse_psegs_inst _ _ _ Hir), Hpr. reflexivity.
    - rewrite app_length. pose proof (inst_seg_len (g_inst g)). lia. }
  assert (P2 : parse_psegs (length (sym_seg_bytes (g_name g) ++ rest_bytes idv more)) (sym_seg_bytes (g_name g) ++ rest_bytes idv more)
               = Some (PSym (g_name g) :: rest_psegs idv more)).
  { apply (parse_psegs_mono (S (length idv + length (gpsegs more)))).
    - rewrite (parse_psegs_sym _ _ _ Hnl), Hpr. reflexivity.
    - rewrite app_length. unfold sym_seg_bytes. rewrite !app_length. cbn [length]. lia. }
  split; [exact P1|]. split; [exact P2|].
  unfold resolve_path. rewrite P1, P2.
  pose proof (instance_in_scope p g false (rest_psegs idv more) Hwf Hin (or_introl eq_refl)) as E. rewrite Hsc in E.
  change txt_Program with txt_Program_. rewrite Hnp.
  unfold inst_psegs in *. cbn [app] in *.
  destruct (rest_psegs idv more); exact E.
Qed.

(* ================================================================ Part 2: the driver *)
(* the condition under which tag_request_path opens with the class / instance pair *)
Definition by_instance (use_ids : bool) (q : preq) : bool :=
  match ti_inst (pq_info q) with
  | Some i => use_ids && negb (starts_with (txt "Program:") (hd [] (split_chr 46 (pq_plc q)))) && negb (i =? 0)
  | None => false
  end.

Theorem read_path_symbolic use q : by_instance use q = false -> read_path use q = read_path false q.
Proof.
  unfold by_instance, read_path, tag_request_path, tag_segments.
  destruct (split_chr 46 (pq_plc q)) as [|base attrs]; [reflexivity|]. cbn [hd].
  destruct (find_tag_index base) as [bt idx]. destruct (ti_inst (pq_info q)) as [i|]; [|reflexivity].
  intros ->. reflexivity.
Qed.

Lemma by_instance_exclusions use q :
  (use = false \/ ti_inst (pq_info q) = None \/ ti_inst (pq_info q) = Some 0
   \/ starts_with (txt "Program:") (hd [] (split_chr 46 (pq_plc q))) = true) -> by_instance use q = false.
Proof.
  unfold by_instance. intros [Hu|[Hn|[Hz|H]]].
  - rewrite Hu. destruct (ti_inst (pq_info q)); reflexivity.
  - rewrite Hn. reflexivity.
  - rewrite Hz. cbn [Z.eqb negb]. rewrite andb_false_r. reflexivity.
  - rewrite H. destruct (ti_inst (pq_info q)); [|reflexivity]. cbn [negb]. rewrite andb_false_r. reflexivity.
Qed.

(* ---------------------------------------------------------------- member requests and Program: requests are symbolic.
   Same hypotheses as ReadResolve2.gen_request_ok (without the build / fit ones); the first part of its proof
   (the client's parse of the string) is replayed to expose the tag info the client ends with. *)
Theorem greq_symbolic p mem cfg g x1 more bit cnt :
  wf_project p = true -> wf_mem p mem = true -> layout_ok p = true -> upload_ok p = true -> dword_arrays p = true ->
  In g (visible_tags p) -> pp_name x1 = g_name g ->
  Forall ppart_ok (prog_parts (g_scope g) ++ x1 :: more) ->
  starts_with txt_Program_ (seg_txt x1) = false ->
  forallb (fun y => negb (isdigit (seg_txt y))) more = true ->
  opt_ok bit -> opt_ok cnt ->
  Forall (fun d => d <= 4294967296) (g_dims g) ->
  (more <> [] \/ g_scope g <> ScCtrl \/ c_use_ids cfg = false) ->
  (forall pl0 pl1, tag_place g = Some pl0 -> index_place p pl0 (pp_idv x1) = Some pl1 -> exact_members p pl1 more) ->
  ref_read p mem (greq_ast g x1 more bit cnt) <> None ->
  exists q, parse_tag_request (client_tags p) (greq_text g x1 more bit cnt) = Ok q
    /\ (more <> [] -> ti_inst (pq_info q) = None)
    /\ by_instance (c_use_ids cfg) q = false
    /\ read_path (c_use_ids cfg) q = read_path false q.
Proof.
  intros Hwf Hwm Hlay Hup Hda Hvis Hx1n HF Hnp Hdig Hbit Hcnt H32 Hsym Hex Href.
  set (s := greq_text g x1 more bit cnt) in *. set (r := greq_ast g x1 more bit cnt) in *.
  pose proof (pl_in_tags p g Hvis) as Hgin.
  destruct (pl_wf p g Hwf Hvis) as (Hok & Hdi & Hdk).
  destruct (forall_app_inv _ _ _ HF) as [HFprog HF1]. inversion HF1 as [|x1' more' Hx1 HFmore]; subst x1' more'.
  (* the client's dict *)
  assert (Hinfo : exists info, tag_info p g = Some info /\ dget (full_name g) (client_tags p) = Some info).
  { pose proof Hup as Hup'. unfold upload_ok in Hup'. apply andb_prop in Hup'. destruct Hup' as [Hup1 _].
    apply andb_prop in Hup1. destruct Hup1 as [Hi Hdist].
    pose proof (forallb_In _ _ _ Hi Hvis) as Hi'. cbv beta in Hi'.
    destruct (tag_info p g) as [info|] eqn:E; [|discriminate]. exists info. split; [reflexivity|].
    apply client_tags_lookup; [apply distinct_by_nodup; exact Hdist|exact Hvis|exact E]. }
  destruct Hinfo as (info & Hinfo & Hget).
  destruct (tag_pre_rel p g info Hlay Hda Hgin Hok Hinfo H32) as (total & pl0 & l0 & Hts & Htp & Htw & Hpre).
  (* the reference *)
  assert (Hfind : find_tag_name (p_tags p) (g_scope g) (g_name g) = Some g) by (apply find_tag_name_distinct; assumption).
  assert (Hscope : req_scope r = g_scope g) by (unfold req_scope, r, greq_ast; cbn [r_prog]; destruct (g_scope g); reflexivity).
  assert (Hres : exists plf, resolve p r = Some plf
                 /\ match index_place p pl0 (pp_idv x1) with Some pl' => walk_members p pl' (map seg_ast more) | None => None end = Some plf).
  { unfold ref_read in Href. destruct (resolve p r) as [plf|] eqn:E; [|congruence]. exists plf. split; [reflexivity|].
    unfold resolve in E. rewrite Hscope in E. unfold r, greq_ast in E. cbn [r_segs map seg_ast s_name s_idx] in E.
    rewrite Hx1n, Hfind, Htp in E. exact E. }
  destruct Hres as (plf & Hres & Hwalk).
  assert (Hex' : match index_place p pl0 (pp_idv x1) with Some pl' => exact_members p pl' more | None => True end).
  { destruct (index_place p pl0 (pp_idv x1)) as [pl'|] eqn:E; [|exact I]. apply (Hex pl0 pl' Htp E). }
  destruct (walk_agree p total (g_inst g) Hlay Hda more x1 pl0 l0 info plf Hpre Hwalk Hex')
    as (A & xl & pll & ll & infol & EA & Hprel & Hipl & Hcw & Hinone & Htall).
  unfold ref_read in Href. rewrite Hres in Href.
  destruct (mem_get mem (place_inst plf)) as [img|] eqn:Emem; [|congruence].
  unfold r, greq_ast in Href. cbn [r_bit r_count] in Href.
  destruct (final_agree p total (g_inst g) pll ll infol (pp_idv xl) plf (opt_val bit) (opt_val cnt) img Hlay Hup Hprel Hipl Href)
    as (Hdwc & lf & Hai & Hag & Hcover).
  (* the last segment is a good part *)
  assert (Hxl : ppart_ok xl /\ Forall ppart_ok A).
  { assert (HFa : Forall ppart_ok (A ++ [xl])) by (rewrite <- EA; exact HF1).
    destruct (forall_app_inv _ _ _ HFa) as [Ha Hl]. inversion Hl; subst. split; assumption. }
  destruct Hxl as [Hxl HFA].
  (* the client's parse *)
  assert (Hstrip : strip_array (g_base (prog_of (g_scope g)) (seg_txt x1)) = full_name g).
  { apply (strip_base (g_scope g) x1 g Hx1 Hx1n eq_refl).
    destruct (g_scope g) as [|P]; [exact I|]. cbn [prog_parts] in HFprog. inversion HFprog as [|y ys Hy _]; subst. apply Hy. }
  pose proof (get_tag_info_walk (client_tags p) _ _ more info infol HFmore Hstrip Hget Hcw) as Hgti.
  assert (Hparse0 := fun Hsep Hne HX Hnp' =>
            parse_gen (prog_of (g_scope g)) (seg_txt x1) (map seg_txt more) bit cnt Hsep Hne HX Hnp' Hbit Hcnt (client_tags p) infol).
  assert (Hsep : forall c, c = 46 \/ c = 123 \/ c = 125 ->
            forallb (nosep c) (seg_txt x1 :: map seg_txt more) = true
            /\ match match prog_of (g_scope g) with Some P => Some (txt_Program_ ++ P) | None => None end with
               | Some q => nosep c q = true | None => True end).
  { intros c Hc. split.
    - cbn [forallb]. rewrite (seg_txt_nosep c x1 Hx1 Hc). cbn [andb]. rewrite forallb_forall. intros y Hy.
      apply in_map_iff in Hy. destruct Hy as (z & <- & Hz). rewrite Forall_forall in HFmore. apply seg_txt_nosep; [apply HFmore; exact Hz|exact Hc].
    - destruct (g_scope g) as [|P]; [exact I|]. cbn [prog_of prog_parts] in *. inversion HFprog as [|y ys Hy _]; subst.
      destruct Hy as (Hpn & _). destruct (pname_facts _ Hpn) as (Hpc & _). apply (pchar_nosep c _ Hpc). tauto. }
  assert (Hne : seg_txt x1 <> []).
  { destruct Hx1 as (Hpn & _). destruct (pname_facts _ Hpn) as (_ & Hne & _). unfold seg_txt. intros E. apply app_eq_nil in E. tauto. }
  assert (HX : forallb (fun x => negb (isdigit x)) (map seg_txt more) = true).
  { rewrite forallb_forall. intros y Hy. apply in_map_iff in Hy. destruct Hy as (z & <- & Hz).
    apply (forallb_In _ _ _ Hdig Hz). }
  specialize (Hparse0 Hsep Hne HX (fun _ => Hnp)).
  assert (Hgb : forall pre t1, match match pre with Some P => Some (txt_Program_ ++ P) | None => None end with
                                 | Some q => q ++ 46 :: t1 | None => t1 end = g_base pre t1) by (intros [P|] t1; reflexivity).
  rewrite (Hgb _ _) in Hparse0. specialize (Hparse0 Hgti).
  fold (g_body0 (prog_of (g_scope g)) (seg_txt x1) (map seg_txt more)) in Hparse0.
  fold (g_text (prog_of (g_scope g)) (seg_txt x1) (map seg_txt more) bit cnt) in Hparse0.
  fold (greq_text g x1 more bit cnt) in Hparse0. fold s in Hparse0.
  (* the path the client builds: the parts with the last one as the client sends it *)
  set (B := prog_parts (g_scope g) ++ A).
  assert (Hall : prog_parts (g_scope g) ++ x1 :: more = B ++ [xl]) by (unfold B; rewrite <- app_assoc; f_equal; exact EA).
  assert (Hbody0 : g_body0 (prog_of (g_scope g)) (seg_txt x1) (map seg_txt more) = pfx B ++ seg_txt xl).
  { rewrite g_body0_parts, Hall. apply join_last. }
  set (xl' := if is_dw infol then dw_last xl else xl).
  assert (Hxl' : ppart_ok xl' /\ pp_name xl' = pp_name xl
                 /\ pp_idv xl' = (if is_dw infol then match pp_idv xl with [] => [] | _ => [0] end else pp_idv xl)).
  { unfold xl'. destruct (is_dw infol); [apply dw_last_ok; exact Hxl|]. split; [exact Hxl|]. split; reflexivity. }
  destruct Hxl' as (Hxl'ok & Hxl'n & Hxl'i).
  assert (Hq : exists q, parse_tag_request (client_tags p) s = Ok q /\ pq_info q = infol
               /\ pq_plc q = join [46] (map seg_txt (B ++ [xl']))
               /\ (if is_dw infol
                   then pq_bit q = idx_start (pp_idv xl) /\ pq_bools q = bools_of_cnt (opt_val cnt)
                        /\ pq_elements q = dword_elements (match idx_start (pp_idv xl) with Some b => b | None => 0 end) (cnt_n (opt_val cnt))
                   else pq_bit q = opt_val bit /\ pq_bools q = None /\ pq_elements q = cnt_n (opt_val cnt))).
  { rewrite join_last. unfold xl'. fold (is_dw infol) in Hparse0. destruct (is_dw infol) eqn:Edw.
    - destruct (Hdwc eq_refl) as [Hl1 Hb0]. rewrite Hbody0 in Hparse0.
      destruct (get_array_index_last B xl Hxl Hl1) as [Hgai Hplc]. rewrite Hgai in Hparse0. cbn [bind] in Hparse0.
      rewrite Hplc in Hparse0. eexists. split; [exact Hparse0|]. cbn [pq_info pq_plc pq_bit pq_bools pq_elements].
      split; [reflexivity|]. split; [reflexivity|]. split; [reflexivity|]. split.
      + unfold bools_of_cnt, cnt_val. destruct cnt as [[c cv]|]; cbn [opt_val orb]; [|reflexivity]. destruct (cv =? 1); reflexivity.
      + unfold dword_elements. rewrite cnt_val_n. reflexivity.
    - rewrite Hbody0 in Hparse0. eexists. split; [exact Hparse0|]. cbn [pq_info pq_plc pq_bit pq_bools pq_elements].
      split; [reflexivity|]. split; [reflexivity|]. rewrite cnt_val_n. repeat split; reflexivity. }
  destruct Hq as (q & Hparse & Hqi & Hqplc & Hqf).
  (* the head of the member-free part is the tag *)
  assert (Hhd : exists z rest, A ++ [xl'] = z :: rest /\ pp_name z = g_name g).
  { destruct A as [|a A'].
    - cbn [app] in *. injection EA as Ex _. exists xl', []. split; [reflexivity|]. rewrite Hxl'n, <- Ex. exact Hx1n.
    - cbn [app] in *. injection EA as Ex _. exists a, (A' ++ [xl']). split; [reflexivity|]. rewrite <- Ex. exact Hx1n. }
  destruct Hhd as (z & rest & Ez & Hzn).
  assert (HFall : Forall ppart_ok (prog_parts (g_scope g) ++ z :: rest)).
  { rewrite <- Ez. apply Forall_app. split; [exact HFprog|]. apply Forall_app. split; [exact HFA|]. constructor; [exact Hxl'ok|constructor]. }
  assert (HBz : B ++ [xl'] = prog_parts (g_scope g) ++ z :: rest) by (unfold B; rewrite <- app_assoc, Ez; reflexivity).
  (* symbolic addressing *)
  assert (Hfirst : exists f0 pp0, prog_parts (g_scope g) ++ z :: rest = f0 :: pp0
            /\ (match ti_inst infol with
                | Some i => c_use_ids cfg && negb (starts_with (txt "Program:") (seg_txt f0)) && negb (i =? 0)
                | None => false end) = false).
  { destruct (g_scope g) as [|P] eqn:Esc.
    - cbn [prog_parts app]. exists z, rest. split; [reflexivity|].
      destruct Hsym as [Hm|[Hs|Hu]]; [rewrite (Hinone Hm); reflexivity|congruence|].
      rewrite Hu. destruct (ti_inst infol); reflexivity.
    - cbn [prog_parts app]. eexists. eexists. split; [reflexivity|]. rewrite seg_txt_prog.
      change (txt "Program:") with txt_Program_. rewrite starts_with_self_app. cbn [negb]. rewrite andb_false_r.
      destruct (ti_inst infol); reflexivity. }
  destruct Hfirst as (f0 & pp0 & Efp & Hsymc). rewrite Efp in HFall.
  assert (Hby : by_instance (c_use_ids cfg) q = false).
  { unfold by_instance. rewrite Hqi, Hqplc, HBz, Efp. inversion HFall as [|f0' pp0' Hf0 Hpp0]; subst f0' pp0'.
    cbn [map]. rewrite split_join.
    - cbn [hd]. exact Hsymc.
    - apply seg_txt_nosep; [exact Hf0|tauto].
    - rewrite forallb_forall. intros y Hy. apply in_map_iff in Hy. destruct Hy as (z0 & <- & Hz0).
      rewrite Forall_forall in Hpp0. apply seg_txt_nosep; [apply Hpp0; exact Hz0|tauto]. }
  exists q. split; [exact Hparse|]. split; [intros Hm; rewrite Hqi; exact (Hinone Hm)|].
  split; [exact Hby|apply read_path_symbolic; exact Hby].
Qed.

Print Assumptions instance_in_scope.
Print Assumptions instance_path_resolves.
Print Assumptions greq_symbolic.

Theorem greq_ok_symbolic p mem cfg fuel x :
  wf_project p = true -> wf_mem p mem = true -> layout_ok p = true -> upload_ok p = true -> dword_arrays p = true ->
  greq_ok p mem cfg fuel x ->
  exists q, parse_tag_request (client_tags p) (gq_text x) = Ok q
    /\ (gq_more x <> [] -> ti_inst (pq_info q) = None)
    /\ by_instance (c_use_ids cfg) q = false
    /\ read_path (c_use_ids cfg) q = read_path false q.
Proof.
  intros Hwf Hwm Hlay Hup Hda (H1 & H2 & H3 & H4 & H5 & H6 & H7 & H8 & H9 & H10 & H11 & _).
  apply (greq_symbolic p mem cfg); assumption.
Qed.
