(* Proofs/LifecycleReplyBridge.v — the reply classification the lifecycle model uses (Model/Lifecycle.v:
   [register_valid], [valid KRR], [valid KUnit], [register_session_of], [data_of]) is the one
   Model/Reply.v computes (property C13) and therefore the one C13 proves correct against the
   status words of the wire layout (Spec/ReplyReader.v) — for EVERY byte string. *)
From Coq Require Import ZifyBool.
From PV Require Import Base.Bytes Base.BytesLemmas Base.Res.
From PV Require Import Gen.Consts Gen.LifecycleGen Gen.ReplyTables.
From PV Require Import Model.Lifecycle.
From PV Require Model.Reply Spec.ReplyReader Proofs.ReplyBase Proofs.ReplyValid.
Open Scope Z_scope.
Ltac Zify.zify_post_hook ::= Z.to_euclidean_division_equations.

Lemma nth_error_short {A} (l : list A) n : (length l <= n)%nat -> nth_error l n = None.
Proof. intros H. apply nth_error_None. exact H. Qed.

(* the model's continuing-service test is the Spec's *)
Lemma in_multi_continues v : in_multi v = ReplyReader.continues v.
Proof.
  unfold in_multi, ReplyReader.continues, ReplyReader.continuing_services, multi_packet_services.
  cbn [existsb snd]. rewrite !(Z.eqb_sym v). reflexivity.
Qed.

(* ---------------------------------------------------------------- against the status words (Spec/ReplyReader.v) *)
Lemma register_valid_spec raw : bytes_ok raw = true -> register_valid raw = ReplyValid.encap_zero raw.
Proof.
  intros Hok. unfold register_valid, base_error, OFF_STATUS_HI, ReplyValid.encap_zero, ReplyReader.encap_status.
  destruct (Nat.ltb (length raw) 12) eqn:El.
  - apply Nat.ltb_lt in El. cbn [negb andb].
    unfold ReplyReader.u32_at, ReplyReader.byte_at. rewrite (nth_error_short raw (8 + 3)) by lia.
    destruct (nth_error raw 8), (nth_error raw (8 + 1)), (nth_error raw (8 + 2)); reflexivity.
  - apply Nat.ltb_ge in El. cbn [negb andb].
    do 12 (destruct raw as [| ? raw]; [cbn in El; lia |]).
    unfold command_status, OFF_STATUS_LO, OFF_STATUS_HI, slice, ReplyReader.u32_at, ReplyReader.byte_at.
    cbn [Nat.sub skipn firstn nth_error Nat.add le_dec].
    rewrite !bytes_ok_cons in Hok. unfold byte_ok in Hok.
    unfold SUCCESS.
    match goal with |- (to_signed 4 ?e =? 0) = _ => rewrite (ReplyBase.to_signed4_zero e) by lia end.
    f_equal. lia.
Qed.

Lemma cip_valid_spec (k : rkind) raw : bytes_ok raw = true ->
  valid k raw = ReplyReader.spec_success (match k with KUnit => true | KRR => false end)
                  (match k with KUnit => ReplyReader.unit_layout | KRR => ReplyReader.rr_layout end) raw.
Proof.
  intros Hok.
  destruct k.
  - (* SendRRData: offsets 40 / 42 *)
    unfold valid, parse_error, cip_error, base_error, off_svc, off_st, RR_OFF_SERVICE, RR_OFF_STATUS, OFF_STATUS_HI,
      ReplyReader.spec_success, ReplyReader.status_ok, ReplyReader.status_words, ReplyReader.reply_bit,
      ReplyReader.encap_status, ReplyReader.byte_at, ReplyReader.rr_layout, ReplyReader.l_svc, ReplyReader.l_status.
    destruct (Nat.leb (length raw) 42) eqn:El.
    + apply Nat.leb_le in El. rewrite (nth_error_short raw 42) by lia.
      rewrite !Bool.orb_true_r. cbn [negb andb].
      destruct (ReplyReader.u32_at 8 raw), (nth_error raw 40); reflexivity.
    + apply Nat.leb_gt in El.
      do 43 (destruct raw as [| ? raw]; [cbn in El; lia |]).
      unfold command_status, OFF_STATUS_LO, OFF_STATUS_HI, slice, ReplyReader.u32_at, ReplyReader.byte_at, nthz.
      cbn [Nat.sub skipn firstn nth_error nth Nat.add le_dec List.length Nat.ltb Nat.leb orb].
      rewrite !bytes_ok_cons in Hok. unfold byte_ok in Hok.
      unfold SUCCESS.
      match goal with |- context [to_signed 4 ?e =? 0] => rewrite (ReplyBase.to_signed4_zero e) by lia end.
      cbn [andb]. lia.
  - (* SendUnitData: offsets 46 / 48 *)
    unfold valid, parse_error, cip_error, base_error, off_svc, off_st, UD_OFF_SERVICE, UD_OFF_STATUS, OFF_STATUS_HI,
      ReplyReader.spec_success, ReplyReader.status_ok, ReplyReader.status_words, ReplyReader.reply_bit,
      ReplyReader.encap_status, ReplyReader.byte_at, ReplyReader.unit_layout, ReplyReader.l_svc, ReplyReader.l_status.
    destruct (Nat.leb (length raw) 48) eqn:El.
    + apply Nat.leb_le in El. rewrite (nth_error_short raw 48) by lia.
      rewrite !Bool.orb_true_r. cbn [negb andb].
      destruct (ReplyReader.u32_at 8 raw), (nth_error raw 46); reflexivity.
    + apply Nat.leb_gt in El.
      do 49 (destruct raw as [| ? raw]; [cbn in El; lia |]).
      unfold command_status, OFF_STATUS_LO, OFF_STATUS_HI, slice, ReplyReader.u32_at, ReplyReader.byte_at, nthz.
      cbn [Nat.sub skipn firstn nth_error nth Nat.add le_dec List.length Nat.ltb Nat.leb orb].
      rewrite !bytes_ok_cons in Hok. unfold byte_ok in Hok.
      unfold SUCCESS, INSUFFICIENT_PACKETS.
      match goal with |- context [to_signed 4 ?e =? 0] => rewrite (ReplyBase.to_signed4_zero e) by lia end.
      rewrite in_multi_continues. cbn [andb].
      match goal with |- context [ReplyReader.continues (?s - 128)] =>
        destruct (128 <=? s) eqn:Es;
        [replace (s mod 128) with (s - 128) by lia; destruct (ReplyReader.continues (s - 128)); lia
        | destruct (ReplyReader.continues (s - 128)), (ReplyReader.continues (s mod 128)); lia] end.
Qed.

(* ---------------------------------------------------------------- against Model/Reply.v (C13's model of the response classes) *)
Definition rk (k : rkind) : Reply.rkind := match k with KRR => Reply.KRR | KUnit => Reply.KUnit end.
Definition parse_k (k : rkind) (raw : bytes) : Reply.resp :=
  match k with KRR => Reply.parse_rr raw | KUnit => Reply.parse_unit raw end.

(* RegisterSessionResponsePacket: same validity, same session *)
Theorem register_reply_agrees raw : bytes_ok raw = true ->
  register_valid raw = Reply.is_valid Reply.KRegister (Reply.parse_register raw)
  /\ Reply.register_session raw = if register_valid raw then Some (register_session_of raw) else None.
Proof.
  intros Hok. destruct (ReplyValid.parse_register_spec raw Hok) as [Hv Hs].
  rewrite (register_valid_spec raw Hok). split; [symmetry; exact Hv |].
  unfold Reply.register_session. rewrite Hv.
  destruct (ReplyValid.encap_zero raw) eqn:Ez; [| reflexivity].
  destruct (Hs eq_refl) as [Hs1 Hs2]. rewrite Hs1.
  unfold ReplyValid.encap_zero, ReplyReader.encap_status in Ez.
  destruct (ReplyReader.u32_at 8 raw) as [e |] eqn:E8; [| discriminate].
  assert (12 <= length raw)%nat as Hl.
  { unfold ReplyReader.u32_at, ReplyReader.byte_at in E8.
    destruct (nth_error raw (8 + 3)) eqn:E; [apply ReplyBase.nth_error_some_lt in E; lia |].
    destruct (nth_error raw 8), (nth_error raw (8 + 1)), (nth_error raw (8 + 2)); discriminate. }
  do 12 (destruct raw as [| ? raw]; [cbn in Hl; lia |]).
  unfold register_session_of, OFF_SESSION_LO, OFF_SESSION_HI, slice, ReplyReader.u32_at, ReplyReader.byte_at.
  cbn [Nat.sub skipn firstn nth_error Nat.add le_dec]. f_equal. lia.
Qed.

(* SendRRData / SendUnitData (and the Generic* subclasses with data_type None): same validity *)
Theorem cip_reply_agrees k raw : bytes_ok raw = true ->
  valid k raw = Reply.is_valid (rk k) (parse_k k raw)
  /\ (valid k raw = true -> Reply.r_data (parse_k k raw) = Some (data_of k raw)).
Proof.
  intros Hok. rewrite (cip_valid_spec k raw Hok).
  destruct k; cbn [rk parse_k].
  - rewrite (ReplyValid.rr_valid_iff raw Hok). split; [reflexivity |]. intros Hv.
    destruct (ReplyValid.parse_cip_spec 40 42 44 raw Hok) as (_ & _ & _ & _ & P).
    unfold ReplyReader.spec_success, ReplyReader.status_ok, ReplyReader.status_words, ReplyReader.reply_bit,
      ReplyReader.byte_at, ReplyReader.rr_layout, ReplyReader.l_svc, ReplyReader.l_status in Hv.
    unfold Reply.parse_rr. destruct (ReplyReader.encap_status raw); [| discriminate].
    destruct (nth_error raw 40) as [s |]; [| discriminate]. destruct (nth_error raw 42) as [g |]; [| discriminate].
    destruct (128 <=? s); [| rewrite Bool.andb_false_r in Hv; discriminate].
    destruct P as (_ & _ & P & _). exact P.
  - rewrite (ReplyValid.unit_valid_iff raw Hok). split; [reflexivity |]. intros Hv.
    destruct (ReplyValid.parse_cip_spec 46 48 50 raw Hok) as (_ & _ & _ & _ & P).
    unfold ReplyReader.spec_success, ReplyReader.status_ok, ReplyReader.status_words, ReplyReader.reply_bit,
      ReplyReader.byte_at, ReplyReader.unit_layout, ReplyReader.l_svc, ReplyReader.l_status in Hv.
    unfold Reply.parse_unit. destruct (ReplyReader.encap_status raw); [| discriminate].
    destruct (nth_error raw 46) as [s |]; [| discriminate]. destruct (nth_error raw 48) as [g |]; [| discriminate].
    destruct (128 <=? s); [| rewrite Bool.andb_false_r in Hv; discriminate].
    destruct P as (_ & _ & P & _). exact P.
Qed.

(* CIPDriver.generic_message: whenever C13's model returns a Tag, its truthiness is the lifecycle
   model's [valid] and its value the lifecycle model's [data_of] (so _forward_open reads the same
   connection id from the same reply in both models) *)
Theorem generic_message_agrees k raw t : bytes_ok raw = true ->
  Reply.generic_message (rk k) None raw = Reply.ROk t ->
  Reply.tag_truthy t = valid k raw
  /\ (valid k raw = true -> Reply.t_value t = Some (Reply.VBytes (data_of k raw))).
Proof.
  intros Hok. destruct (cip_reply_agrees k raw Hok) as [Hv Hd].
  unfold Reply.generic_message, Reply.parse_generic.
  assert (match rk k with Reply.KRR => Reply.parse_rr raw | _ => Reply.parse_unit raw end = parse_k k raw) as -> by (destruct k; reflexivity).
  cbn [Reply.g_r Reply.g_value]. unfold Reply.error. rewrite <- Hv.
  destruct (valid k raw) eqn:Ev.
  - intros H. inversion H; subst t. rewrite (Hd eq_refl). cbn. auto.
  - intros H. split; [| discriminate].
    assert (exists e, Reply.t_error t = Some e) as [e He].
    { destruct (Reply.r_error (parse_k k raw)) as [e |]; [inversion H; eexists; reflexivity |].
      unfold Reply.some_text in H.
      destruct (Reply.not_none_or_success (Reply.r_command_status (parse_k k raw))) as [cs |].
      - destruct (Reply.extended_status (rk k) (parse_k k raw) cs); inversion H; eexists; reflexivity.
      - destruct (Reply.not_none_or_success (Reply.r_service_status (parse_k k raw))) as [ss |].
        + destruct (Reply.extended_status (rk k) (parse_k k raw) ss); inversion H; eexists; reflexivity.
        + inversion H; eexists; reflexivity. }
    unfold Reply.tag_truthy. rewrite He. cbn. apply Bool.andb_false_r.
Qed.

(* ---------------------------------------------------------------- the `error` property and the call as a whole *)
Lemma ges_agrees msg start :
  match Reply.get_extended_status msg start with
  | Reply.RErr e _ => ext_status_raises (skipn start msg) = Some e
  | Reply.ROk _ => ext_status_raises (skipn start msg) = None
  end.
Proof.
  unfold Reply.get_extended_status. generalize (skipn start msg) as s. intros s.
  unfold Reply.decode_elem_stream. rewrite ReplyBase.USINT_eq, ReplyBase.UINT_eq, ReplyBase.UDINT_eq.
  cbn [Reply.ety_size Reply.ety_signed Reply.ety_name].
  destruct s as [| a [| n rest]]; cbn [firstn skipn length Nat.ltb Nat.leb ext_status_raises]; try reflexivity.
  unfold Reply.elem_value. cbn [Reply.ety_signed Reply.ety_size le_dec].
  replace (n + 256 * 0) with n by lia.
  destruct (n * 2 =? 0) eqn:E0.
  { replace (2 * n =? 2) with false by lia. replace (2 * n =? 4) with false by lia. reflexivity. }
  destruct (n * 2 =? 1) eqn:E1; [lia |].
  destruct (n * 2 =? 2) eqn:E2.
  { replace (2 * n =? 2) with true by lia.
    destruct rest as [| r0 [| r1 rest]]; cbn [firstn skipn length Nat.ltb Nat.leb]; reflexivity. }
  replace (2 * n =? 2) with false by lia.
  destruct (n * 2 =? 4) eqn:E4.
  { replace (2 * n =? 4) with true by lia.
    destruct rest as [| r0 [| r1 [| r2 [| r3 rest]]]]; cbn [firstn skipn length Nat.ltb Nat.leb]; reflexivity. }
  replace (2 * n =? 4) with false by lia. reflexivity.
Qed.

Lemma u32_none_short raw : Reply.is_none (ReplyReader.u32_at 8 raw) = Nat.ltb (length raw) 12.
Proof.
  unfold ReplyReader.u32_at, ReplyReader.byte_at.
  destruct (Nat.ltb (length raw) 12) eqn:E.
  - apply Nat.ltb_lt in E. rewrite (nth_error_short raw (8 + 3)) by lia.
    destruct (nth_error raw 8), (nth_error raw (8 + 1)), (nth_error raw (8 + 2)); reflexivity.
  - apply Nat.ltb_ge in E. do 12 (destruct raw as [| ? raw]; [cbn in E; lia |]). reflexivity.
Qed.

Lemma parse_error_agrees k raw : bytes_ok raw = true ->
  parse_error k raw = Reply.is_some (Reply.r_error (parse_k k raw)).
Proof.
  intros Hok.
  assert (forall o1 o2 o3, cip_error o1 o2 raw = Reply.is_some (Reply.r_error (Reply.parse_cip o1 o2 o3 raw))) as H.
  { intros o1 o2 o3. destruct (ReplyValid.parse_cip_spec o1 o2 o3 raw Hok) as (_ & _ & _ & _ & P).
    unfold cip_error, base_error, OFF_STATUS_HI, nthz.
    destruct (nth_error raw o1) as [s |] eqn:E1.
    2: { apply nth_error_None in E1. destruct P as (-> & _). apply Nat.leb_le in E1. rewrite E1.
         rewrite Bool.orb_true_r. reflexivity. }
    pose proof (ReplyBase.nth_error_some_lt _ _ _ E1) as L1. rewrite (nth_error_nth _ _ 0 E1).
    replace (Nat.leb (length raw) o1) with false by (symmetry; apply Nat.leb_gt; lia). rewrite Bool.orb_false_r.
    destruct (nth_error raw o2) as [g |] eqn:E2.
    2: { apply nth_error_None in E2. destruct P as (-> & _). apply Nat.leb_le in E2. rewrite E2.
         rewrite Bool.orb_true_r. reflexivity. }
    pose proof (ReplyBase.nth_error_some_lt _ _ _ E2) as L2.
    replace (Nat.leb (length raw) o2) with false by (symmetry; apply Nat.leb_gt; lia). rewrite Bool.orb_false_r.
    destruct (128 <=? s) eqn:Es.
    - destruct P as (_ & _ & _ & ->). rewrite u32_none_short. replace (s <? 128) with false by lia.
      rewrite Bool.orb_false_r. reflexivity.
    - destruct P as (-> & _). replace (s <? 128) with true by lia. rewrite Bool.orb_true_r. reflexivity. }
  destruct k; apply H.
Qed.

(* CIPDriver.generic_message as a whole: same exception class, or the same Tag truthiness and value *)
Theorem classify_agrees k raw : bytes_ok raw = true ->
  match Reply.generic_message (rk k) None raw with
  | Reply.RErr e _ => classify k raw = Err e
  | Reply.ROk t => classify k raw = Ok (Reply.tag_truthy t, data_of k raw)
  end.
Proof.
  intros Hok. destruct (cip_reply_agrees k raw Hok) as [Hv Hd].
  pose proof (parse_error_agrees k raw Hok) as Hpe.
  unfold Reply.generic_message, Reply.parse_generic, classify, error_raises.
  assert (match rk k with Reply.KRR => Reply.parse_rr raw | _ => Reply.parse_unit raw end = parse_k k raw) as -> by (destruct k; reflexivity).
  cbn [Reply.g_r Reply.g_value]. unfold Reply.error. rewrite <- Hv.
  destruct (valid k raw) eqn:Ev; cbn [orb].
  { rewrite (Hd eq_refl). reflexivity. }
  rewrite Hpe.
  destruct (Reply.r_error (parse_k k raw)) as [e |] eqn:Ee; cbn [Reply.is_some].
  { unfold Reply.tag_truthy. cbn. rewrite Bool.andb_false_r. reflexivity. }
  (* no parse error: both status words are there, and one of them is not success *)
  assert (Reply.r_raw (parse_k k raw) = Some raw) as Hraw.
  { destruct k; [destruct (ReplyValid.parse_cip_spec 40 42 44 raw Hok) as (P & _) | destruct (ReplyValid.parse_cip_spec 46 48 50 raw Hok) as (P & _)]; exact P. }
  assert (forall code, match Reply.some_text (Reply.extended_status (rk k) (parse_k k raw) code) with
                       | Reply.RErr e _ => ext_status_raises (skipn (off_ext k) raw) = Some e
                       | Reply.ROk o => ext_status_raises (skipn (off_ext k) raw) = None /\ exists t, o = Some t
                       end) as Hext.
  { intros code. unfold Reply.extended_status. rewrite Hraw.
    assert (match rk k with Reply.KUnit => 48%nat | _ => 42%nat end = off_ext k) as Ho by (destruct k; reflexivity).
    destruct k; cbn [rk]; rewrite ?Ho; pose proof (ges_agrees raw (off_ext KRR)) as G1; pose proof (ges_agrees raw (off_ext KUnit)) as G2;
      cbn [off_ext RR_OFF_EXT UD_OFF_EXT] in *.
    - change RR_OFF_EXT with 42%nat in *. destruct (Reply.get_extended_status raw 42); cbn [Reply.some_text]; [split; [exact G1 | eexists; reflexivity] | exact G1].
    - change UD_OFF_EXT with 48%nat in *. destruct (Reply.get_extended_status raw 48); cbn [Reply.some_text]; [split; [exact G2 | eexists; reflexivity] | exact G2]. }
  assert (Reply.not_none_or_success (Reply.r_command_status (parse_k k raw)) = None ->
          Reply.not_none_or_success (Reply.r_service_status (parse_k k raw)) = None -> False) as Hone.
  { intros H1 H2. revert Hv.
    unfold Reply.is_valid, Reply.is_valid_base. rewrite Ee. cbn [Reply.is_none andb].
    assert (Reply.is_some (Reply.r_command (parse_k k raw)) = true) as ->.
    { destruct k; [destruct (ReplyValid.parse_cip_spec 40 42 44 raw Hok) as (_ & P & _) | destruct (ReplyValid.parse_cip_spec 46 48 50 raw Hok) as (_ & P & _)]; cbn [parse_k]; unfold Reply.parse_rr, Reply.parse_unit; rewrite P; reflexivity. }
    assert (exists v g, Reply.r_command_status (parse_k k raw) = Some v /\ Reply.r_service_status (parse_k k raw) = Some g) as (v & g & Hcs & Hss).
    { assert (forall o1 o2 o3, Reply.r_error (Reply.parse_cip o1 o2 o3 raw) = None ->
                exists v g, Reply.r_command_status (Reply.parse_cip o1 o2 o3 raw) = Some v /\ Reply.r_service_status (Reply.parse_cip o1 o2 o3 raw) = Some g) as H.
      { intros o1 o2 o3 He. destruct (ReplyValid.parse_cip_spec o1 o2 o3 raw Hok) as (_ & _ & _ & P4 & P).
        rewrite He in P. cbn [Reply.is_some] in P.
        destruct (nth_error raw o1); [| destruct P; discriminate]. destruct (nth_error raw o2); [| destruct P; discriminate].
        destruct (128 <=? z); [| destruct P; discriminate]. destruct P as (_ & Pg & _ & Pn).
        rewrite P4, Pg. destruct (ReplyReader.u32_at 8 raw); [eexists; eexists; split; reflexivity | discriminate]. }
      destruct k; apply H; exact Ee. }
    rewrite Hcs, Hss in *. cbn [Reply.not_none_or_success Reply.opt_is] in *.
    destruct (v =? SUCCESS) eqn:Ev1; [| try rewrite Ev1 in H1; discriminate H1].
    destruct (g =? SUCCESS) eqn:Eg1; [| try rewrite Eg1 in H2; discriminate H2].
    destruct k; cbn; intros Hx; discriminate Hx. }
  destruct (Reply.not_none_or_success (Reply.r_command_status (parse_k k raw))) as [cs |] eqn:Ecs.
  { specialize (Hext cs). destruct (Reply.some_text _) as [o | e m]; [| rewrite Hext; reflexivity].
    destruct Hext as [-> [t ->]]. unfold Reply.tag_truthy. cbn. rewrite Bool.andb_false_r. reflexivity. }
  destruct (Reply.not_none_or_success (Reply.r_service_status (parse_k k raw))) as [ss |] eqn:Ess.
  { specialize (Hext ss). destruct (Reply.some_text _) as [o | e m]; [| rewrite Hext; reflexivity].
    destruct Hext as [-> [t ->]]. unfold Reply.tag_truthy. cbn. rewrite Bool.andb_false_r. reflexivity. }
  exfalso. apply Hone; reflexivity.
Qed.

Print Assumptions register_reply_agrees.
Print Assumptions cip_reply_agrees.
Print Assumptions generic_message_agrees.
Print Assumptions classify_agrees.
