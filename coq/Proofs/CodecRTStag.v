(* Proofs/CodecRTStag.v — C06: the round-trip law for StructTag (Logix template structures):
   members spliced into a zeroed buffer at their offsets, BOOL members set / cleared in hidden host
   bytes, decoding from a private sub-stream by skipping to each offset. *)
From PV Require Import Base.Bytes Base.BytesLemmas Base.Res Base.Proto.
From PV Require Import Gen.Types Gen.CodecFacts Model.Codec Model.CodecDom.
From PV Require Import Proofs.CodecRTBase Proofs.CodecRT Proofs.CodecRTDict Proofs.CodecRTComp Proofs.CodecRTBuf.
From Coq Require Import ZifyBool.
Open Scope Z_scope.

(* what StructTag needs of its member types *)
Definition MP (t : ty) : Prop := RT t /\ FW t /\ AD t.

Definition enc_smembers (ms : list ((key * nat) * ty)) := map (fun m => (fst m, as_member (snd m) (encode (snd m)))) ms.
Definition dec_smembers (fuel : nat) (ms : list ((key * nat) * ty)) := map (fun m => (fst m, decode_fuel fuel (snd m))) ms.

(* ------------------------------------------------------------------ layouts *)
Lemma extents_cons k off t ms size :
  extents_ok (stag_layout (((k, off), t) :: ms)) size = true ->
  exists w, fixed_width t = Some w /\ (off + w <= size)%nat
            /\ (forall m w', In m ms -> fixed_width (snd m) = Some w' ->
                  (off + w <= snd (fst m) \/ snd (fst m) + w' <= off)%nat)
            /\ extents_ok (stag_layout ms) size = true.
Proof.
  unfold stag_layout. cbn [map extents_ok fst snd]. destruct (fixed_width t) as [w|]; [|discriminate].
  intros H. apply andb_prop in H as [H H3]. apply andb_prop in H as [H1 H2].
  exists w. split; [reflexivity|]. split; [apply Nat.leb_le in H1; exact H1|]. split; [|exact H3].
  intros m w' Hin Hw'. rewrite forallb_forall in H2.
  specialize (H2 (snd (fst m), fixed_width (snd m)) ltac:(apply in_map_iff; exists m; split; [reflexivity|exact Hin])).
  rewrite Hw' in H2. cbn [ext_disjoint] in H2. lia.
Qed.

(* ------------------------------------------------------------------ members after encoding *)
Definition member_ok (priv : list text) (d : list (key * val)) (buf : bytes) (m : (key * nat) * ty) : Prop :=
  exists w, fixed_width (snd m) = Some w /\ (snd (fst m) + w <= length buf)%nat /\
  if key_in (fst (fst m)) priv then always_decodes (snd m) = true
  else exists x e, dict_get d (fst (fst m)) = Ok x /\ good (snd m) x e /\ length e = w
                   /\ forall j, (j < w)%nat -> nth_error buf (snd (fst m) + j) = nth_error e j.

Definition outside_visible (priv : list text) (ms : list ((key * nat) * ty)) (i : nat) : Prop :=
  forall m w, In m ms -> key_in (fst (fst m)) priv = false -> fixed_width (snd m) = Some w ->
              ~ (snd (fst m) <= i < snd (fst m) + w)%nat.

Lemma stag_enc_members priv d ms : forall buf,
  Forall (fun m => MP (snd m)) ms ->
  forallb (fun m => wf_ty (snd m) && negb (greedy (snd m))) ms = true ->
  extents_ok (stag_layout ms) (length buf) = true ->
  forallb (fun m => negb (key_in (fst (fst m)) priv) || always_decodes (snd m)) ms = true ->
  forallb (fun m => key_in (fst (fst m)) priv
                    || match dict_get d (fst (fst m)) with Ok x => in_dom (snd m) x | Err _ => false end) ms = true ->
  exists buf1, stag_encode_members (enc_smembers ms) priv d buf = Ok buf1
    /\ length buf1 = length buf
    /\ (forall i, outside_visible priv ms i -> nth_error buf1 i = nth_error buf i)
    /\ Forall (member_ok priv d buf1) ms.
Proof.
  induction ms as [|[[k off] t] ms IH]; intros buf Hmp Hwf Hlay Hpriv Hdom.
  - exists buf. repeat split; constructor.
  - inversion Hmp as [|? ? [Hrt [Hfw Had]] Hmp']; subst. cbn [snd] in Hrt, Hfw, Had.
    cbn [forallb fst snd] in Hwf, Hpriv, Hdom.
    apply andb_prop in Hwf as [Hwt Hwf]. apply andb_prop in Hwt as [Hwt Hgt]. apply negb_true_iff in Hgt.
    apply andb_prop in Hpriv as [Hpt Hpriv]. apply andb_prop in Hdom as [Hdt Hdom].
    apply extents_cons in Hlay as (w & Hw & Hend & Hdis & Hlay).
    cbn [enc_smembers map stag_encode_members fst snd]. fold (enc_smembers ms).
    destruct (key_in k priv) eqn:Ek.
    + cbn [negb orb] in Hpt.
      destruct (IH buf Hmp' Hwf Hlay Hpriv Hdom) as (buf1 & He & Hl & Hout & Hall).
      exists buf1. split; [exact He|]. split; [exact Hl|]. split.
      * intros i Hi. apply Hout. intros m w' Hin. apply Hi. now right.
      * constructor; [|exact Hall]. exists w. cbn [fst snd]. rewrite Ek. repeat split; [exact Hw|lia|exact Hpt].
    + cbn [orb] in Hdt. destruct (dict_get d k) as [x|] eqn:Ex; [|discriminate].
      destruct (good_of_RT t x Hrt Hwt Hgt Hdt) as (e & Hgood).
      pose proof (Hfw w x e Hw Hwt Hdt (proj1 Hgood)) as Hle.
      cbn [bind]. rewrite (as_member_dom _ _ _ Hdt), (proj1 Hgood). cbn [bind].
      assert (Hsp : (off + length e <= length buf)%nat) by lia.
      destruct (IH (splice buf off e) Hmp' Hwf) as (buf1 & He & Hl & Hout & Hall); try assumption.
      { now rewrite splice_length. }
      rewrite splice_length in Hl by exact Hsp.
      exists buf1. split; [exact He|]. split; [exact Hl|]. split.
      * intros i Hi. rewrite Hout.
        -- apply splice_nth_outside; [exact Hsp|].
           specialize (Hi ((k, off), t) w (or_introl eq_refl) Ek Hw). cbn [fst snd] in Hi. lia.
        -- intros m w' Hin. apply Hi. now right.
      * constructor; [|exact Hall]. exists w. cbn [fst snd]. rewrite Ek. repeat split; [exact Hw|lia|].
        exists x, e. repeat split; try assumption; try (apply Hgood).
        intros j Hj. rewrite Hout.
        -- apply splice_nth_inside; lia.
        -- intros m w' Hin Hk Hw' Hr. destruct (Hdis m w' Hin Hw'); lia.
Qed.

(* ------------------------------------------------------------------ bit members *)
Definition bit_off (b : text * (nat * nat)) : nat := fst (snd b).
Definition bit_no (b : text * (nat * nat)) : nat := snd (snd b).

Lemma bitpos_nodup_cons o b r :
  bitpos_nodup ((o, b) :: r) = true -> ~ In (o, b) r /\ bitpos_nodup r = true.
Proof.
  cbn [bitpos_nodup]. intros H. apply andb_prop in H as [H1 H2]. split; [|exact H2].
  intros Hin. apply negb_true_iff in H1.
  assert (existsb (fun p => (fst p =? o)%nat && (snd p =? b)%nat) r = true).
  { apply existsb_exists. exists (o, b). split; [exact Hin|]. cbn. now rewrite !Nat.eqb_refl. }
  congruence.
Qed.

Definition byte_at (buf : bytes) (o : nat) (byte : Z) : Prop := nth_error buf o = Some byte /\ 0 <= byte < 256.

Lemma stag_enc_bits d bits : forall buf,
  forallb (fun b => match dict_get d (Some (fst b)) with Ok x => is_vbool x | Err _ => false end) bits = true ->
  Forall (fun b => (bit_off b < length buf)%nat /\ (bit_no b < 8)%nat) bits ->
  bitpos_nodup (map snd bits) = true ->
  (forall b, In b bits -> exists byte, byte_at buf (bit_off b) byte) ->
  exists buf2, stag_encode_bits bits d buf = Ok buf2
    /\ length buf2 = length buf
    /\ (forall i, ~ In i (map bit_off bits) -> nth_error buf2 i = nth_error buf i)
    /\ (forall o b0 byte, (b0 < 8)%nat -> ~ In (o, b0) (map snd bits) -> byte_at buf o byte ->
          exists byte2, byte_at buf2 o byte2 /\ Z.testbit byte2 (Z.of_nat b0) = Z.testbit byte (Z.of_nat b0))
    /\ Forall (fun b => exists byte val, dict_get d (Some (fst b)) = Ok (VBool val)
                                      /\ nth_error buf2 (bit_off b) = Some byte
                                      /\ Z.testbit byte (Z.of_nat (bit_no b)) = val) bits.
Proof.
  induction bits as [|[name [off bit]] bits IH]; intros buf Hv Hr Hnd Hby.
  - exists buf. repeat split; try constructor. intros o b0 byte _ _ H. exists byte. now split.
  - cbn [forallb fst] in Hv. apply andb_prop in Hv as [Hv0 Hv].
    destruct (dict_get d (Some name)) as [x|] eqn:Ex; [|discriminate]. destruct x; try discriminate Hv0.
    inversion Hr as [|? ? [Hoff Hbit] Hr']; subst. unfold bit_off, bit_no in Hoff, Hbit. cbn [fst snd] in Hoff, Hbit.
    cbn [map snd] in Hnd. apply bitpos_nodup_cons in Hnd as [Hnin Hnd].
    destruct (Hby (name, (off, bit)) (or_introl eq_refl)) as (byte & Hb1 & Hb2). unfold bit_off in Hb1. cbn [fst snd] in Hb1.
    destruct (setbit_ok byte (Z.of_nat bit) Hb2 ltac:(lia)) as (Rhi & Rlo & Thi & Tlo & Tother).
    cbv zeta in Rhi, Rlo, Thi, Tlo, Tother.
    set (nb := if b then Z.lor byte (2 ^ Z.of_nat bit) else Z.land byte (Z.lnot (2 ^ Z.of_nat bit))).
    assert (Hnb : 0 <= nb < 256) by (unfold nb; destruct b; assumption).
    assert (Hnt : Z.testbit nb (Z.of_nat bit) = b) by (unfold nb; destruct b; assumption).
    assert (Hno : forall b', (b' < 8)%nat -> b' <> bit -> Z.testbit nb (Z.of_nat b') = Z.testbit byte (Z.of_nat b')).
    { intros b' H1 H2. unfold nb. destruct b; apply Tother; lia. }
    (* the buffer after this bit *)
    assert (Hset : exists buf', length buf' = length buf
                     /\ (forall j, j <> off -> nth_error buf' j = nth_error buf j)
                     /\ nth_error buf' off = Some nb
                     /\ forall k : bytes -> res bytes, (let* x := dict_get d (Some name) in
                                   if truthy x then
                                     match nth_error buf off with
                                     | None => Err (Foreign IndexError)
                                     | Some b1 =>
                                         let nb1 := Z.lor b1 (2 ^ Z.of_nat bit) in
                                         if nb1 <? 256
                                         then match set_nth buf off (fun _ => nb1) with Some buf'' => k buf'' | None => Err (Foreign IndexError) end
                                         else Err (Foreign ValueError)
                                     end
                                   else
                                     match set_nth buf off (fun b1 => Z.land b1 (Z.lnot (2 ^ Z.of_nat bit))) with
                                     | Some buf'' => k buf''
                                     | None => Err (Foreign IndexError)
                                     end) = k buf').
    { rewrite Ex. cbn [bind truthy]. destruct b.
      - destruct (set_nth_some buf off (fun _ => Z.lor byte (2 ^ Z.of_nat bit)) Hoff) as (buf' & Hs).
        destruct (set_nth_spec _ _ _ _ Hs) as (L1 & L2 & b1 & L3 & L4).
        exists buf'. split; [exact L1|split; [exact L2|split]].
        + rewrite L4. reflexivity.
        + intros k. rewrite Hb1. cbv zeta. destruct (Z.lor byte (2 ^ Z.of_nat bit) <? 256) eqn:E; [|lia]. now rewrite Hs.
      - destruct (set_nth_some buf off (fun b1 => Z.land b1 (Z.lnot (2 ^ Z.of_nat bit))) Hoff) as (buf' & Hs).
        destruct (set_nth_spec _ _ _ _ Hs) as (L1 & L2 & b1 & L3 & L4).
        exists buf'. split; [exact L1|split; [exact L2|split]].
        + rewrite L4. rewrite Hb1 in L3. injection L3 as <-. reflexivity.
        + intros k. now rewrite Hs. }
    destruct Hset as (buf' & L1 & L2 & L3 & Hk).
    destruct (IH buf' Hv) as (buf2 & He & Hl & Hsame & Hpres & Hall).
    { rewrite L1. exact Hr'. }
    { exact Hnd. }
    { intros b' Hin. destruct (Hby b' (or_intror Hin)) as (byte' & Hb'1 & Hb'2).
      destruct (Nat.eq_dec (bit_off b') off) as [->|Hne].
      - exists nb. now split.
      - exists byte'. split; [now rewrite L2|exact Hb'2]. }
    exists buf2. split.
    { exact (eq_trans (Hk (stag_encode_bits bits d)) He). }
    split; [now rewrite Hl|]. split.
    { intros i Hi. cbn [map] in Hi. unfold bit_off at 1 in Hi. cbn [fst snd] in Hi.
      rewrite Hsame by (intros H; apply Hi; now right). apply L2. intros ->. apply Hi. now left. }
    split.
    { intros o b0 byte0 Hb0 Hnin0 [Ho1 Ho2]. cbn [map snd] in Hnin0.
      destruct (Nat.eq_dec o off) as [->|Hne].
      - rewrite Hb1 in Ho1. injection Ho1 as <-.
        destruct (Hpres off b0 nb Hb0 ltac:(intros H; apply Hnin0; now right) (conj L3 Hnb)) as (byte2 & Hb2' & Ht).
        exists byte2. split; [exact Hb2'|]. rewrite Ht. apply Hno; [exact Hb0|]. intros ->. apply Hnin0. now left.
      - destruct (Hpres o b0 byte0 Hb0 ltac:(intros H; apply Hnin0; now right)) as (byte2 & Hb2' & Ht).
        { split; [now rewrite L2|exact Ho2]. }
        exists byte2. now split. }
    constructor; [|exact Hall].
    destruct (Hpres off bit nb Hbit Hnin (conj L3 Hnb)) as (byte2 & [Hb2a Hb2b] & Ht).
    exists byte2, b. unfold bit_off, bit_no. cbn [fst snd]. repeat split; [exact Ex|exact Hb2a|now rewrite Ht].
Qed.

(* ------------------------------------------------------------------ decoding the members *)
Lemma skipn_skipn' {A} (a b : nat) (l : list A) : skipn a (skipn b l) = skipn (b + a) l.
Proof.
  revert l. induction b as [|b IH]; intros l; [reflexivity|]. destruct l; [now rewrite !skipn_nil|]. cbn [skipn Nat.add]. apply IH.
Qed.

Definition set_all (acc : list (key * val)) (kvs : list (key * val)) : list (key * val) :=
  fold_left (fun a kv => dict_set a (fst kv) (snd kv)) kvs acc.

Lemma stag_dec_members priv d buf fuel ms : forall acc,
  Forall (fun m => MP (snd m)) ms -> Forall (member_ok priv d buf) ms -> (length buf < fuel)%nat ->
  exists vals,
    stag_decode_members (dec_smembers fuel ms) acc buf
    = DOk (VDict (set_all acc (combine (map (fun m => fst (fst m)) ms) vals))) []
    /\ Forall2 (fun m v => key_in (fst (fst m)) priv = false ->
                           exists x, dict_get d (fst (fst m)) = Ok x /\ v = norm (snd m) x) ms vals.
Proof.
  induction ms as [|[[k off] t] ms IH]; intros acc Hmp Hok Hf.
  - exists []. split; [reflexivity|constructor].
  - inversion Hmp as [|? ? [Hrt [Hfw Had]] Hmp']; subst. inversion Hok as [|? ? Hm Hok']; subst.
    cbn [snd] in Hrt, Hfw, Had.
    destruct Hm as (w & Hw & Hend & Hm). cbn [fst snd] in Hw, Hend, Hm.
    cbn [dec_smembers map stag_decode_members fst snd]. fold (dec_smembers fuel ms).
    destruct (key_in k priv) eqn:Ek.
    + rewrite <- (firstn_skipn w (skipn off buf)), skipn_skipn'.
      destruct (Had w (firstn w (skipn off buf)) (skipn (off + w) buf) fuel Hm Hw) as (v & Hv & _).
      { rewrite firstn_length, skipn_length. lia. }
      rewrite Hv. cbn [dbind].
      destruct (IH (dict_set acc k v) Hmp' Hok' Hf) as (vals & Hd & Hall).
      exists (v :: vals). split; [exact Hd|]. constructor; [intros H; cbn [fst] in H; congruence|exact Hall].
    + destruct Hm as (x & e & Hx & Hgood & Hle & Hnth).
      rewrite (skipn_slice_ext buf e off) by (rewrite Hle; assumption).
      rewrite (proj2 Hgood) by lia. cbn [dbind].
      destruct (IH (dict_set acc k (norm t x)) Hmp' Hok' Hf) as (vals & Hd & Hall).
      exists (norm t x :: vals). split; [exact Hd|]. constructor; [|exact Hall].
      intros _. exists x. now split.
Qed.

Lemma stag_dec_bits d bits raw : forall acc,
  Forall (fun b => exists byte val, dict_get d (Some (fst b)) = Ok (VBool val)
                                   /\ nth_error raw (bit_off b) = Some byte
                                   /\ Z.testbit byte (Z.of_nat (bit_no b)) = val) bits ->
  stag_decode_bits bits raw acc
  = Ok (set_all acc (flat_map (fun b => match dict_get d (Some (fst b)) with Ok x => [(Some (fst b), x)] | Err _ => [] end) bits)).
Proof.
  induction bits as [|[name [off bit]] bits IH]; intros acc H; [reflexivity|].
  inversion H as [|b0 bs0 (byte & val & Hx & Hb & Ht) H' E1]. clear H. unfold bit_off, bit_no in Hb, Ht. cbn [fst snd] in Hx, Hb, Ht.
  cbn [stag_decode_bits flat_map fst]. rewrite Hb, Hx. cbn [app]. unfold set_all. cbn [fold_left fst snd].
  rewrite Ht. apply IH. exact H'.
Qed.

(* ------------------------------------------------------------------ the dict that comes out *)
Lemma set_all_fresh kvs : forall acc,
  keys_nodup (map fst kvs) = true -> forallb (fun k => negb (has_key acc k)) (map fst kvs) = true ->
  set_all acc kvs = acc ++ kvs.
Proof.
  induction kvs as [|[k v] kvs IH]; intros acc Hnd Hf; [now rewrite app_nil_r|].
  cbn [map fst keys_nodup] in Hnd. apply andb_prop in Hnd as [Hn1 Hn2].
  cbn [map fst forallb] in Hf. apply andb_prop in Hf as [Hf1 Hf2]. apply negb_true_iff in Hf1.
  unfold set_all. cbn [fold_left fst snd]. rewrite dict_set_fresh by exact Hf1.
  fold (set_all (acc ++ [(k, v)]) kvs). rewrite IH.
  - now rewrite <- app_assoc.
  - exact Hn2.
  - apply forallb_forall. intros k' Hin. rewrite forallb_forall in Hf2. specialize (Hf2 k' Hin).
    rewrite has_key_app. apply negb_true_iff in Hf2. rewrite Hf2. cbn [has_key existsb fst orb].
    apply negb_true_iff. rewrite orb_false_r. apply negb_true_iff in Hn1.
    destruct (keyb k k') eqn:E; [|reflexivity]. apply keyb_eq in E. subst k'.
    assert (existsb (keyb k) (map fst kvs) = true) by (apply existsb_exists; exists k; split; [exact Hin|apply keyb_refl]).
    congruence.
Qed.

Lemma set_all_app acc a b : set_all acc (a ++ b) = set_all (set_all acc a) b.
Proof. unfold set_all. apply fold_left_app. Qed.

Lemma nth_error_zeros n i : (i < n)%nat -> nth_error (zeros n) i = Some 0.
Proof.
  revert i. induction n as [|n IH]; intros i H; [lia|]. destruct i; [reflexivity|]. cbn [zeros nth_error]. apply IH. lia.
Qed.

Lemma outside_of_bits priv ms off :
  existsb (in_extent off) (stag_visible_extents ms priv) = false -> outside_visible priv ms off.
Proof.
  intros H m w Hin Hk Hw Hr.
  assert (existsb (in_extent off) (stag_visible_extents ms priv) = true); [|congruence].
  apply existsb_exists. exists (snd (fst m), Some w). split.
  - unfold stag_visible_extents. apply in_map_iff. exists m. split; [now rewrite Hw|].
    apply filter_In. split; [exact Hin|]. now rewrite Hk.
  - cbn [in_extent]. apply andb_true_intro. split; [apply Nat.leb_le|apply Nat.ltb_lt]; lia.
Qed.

Lemma member_ok_transfer priv d buf1 buf2 m :
  length buf2 = length buf1 ->
  (key_in (fst (fst m)) priv = false -> forall w i, fixed_width (snd m) = Some w ->
     (snd (fst m) <= i < snd (fst m) + w)%nat -> nth_error buf2 i = nth_error buf1 i) ->
  member_ok priv d buf1 m -> member_ok priv d buf2 m.
Proof.
  intros Hl Hs (w & Hw & Hend & H). exists w. rewrite Hl. split; [exact Hw|]. split; [exact Hend|].
  destruct (key_in (fst (fst m)) priv) eqn:Ek; [exact H|].
  destruct H as (x & e & Hx & Hg & Hle & Hn). exists x, e. repeat split; try assumption; try apply Hg.
  intros j Hj. rewrite (Hs eq_refl w); [now apply Hn|exact Hw|lia].
Qed.

Lemma filter_members priv d ms vals :
  Forall2 (fun m v => key_in (fst (fst m)) priv = false ->
                      exists x, dict_get d (fst (fst m)) = Ok x /\ v = norm (snd m) x) ms vals ->
  filter (fun kv : key * val => negb (key_in (fst kv) priv)) (combine (map (fun m => fst (fst m)) ms) vals)
  = flat_map (fun m : (key * nat) * ty =>
                if key_in (fst (fst m)) priv then []
                else match dict_get d (fst (fst m)) with
                     | Ok x => [(fst (fst m), norm (snd m) x)]
                     | Err _ => []
                     end) ms.
Proof.
  induction 1 as [|m v ms vals Hm _ IH]; [reflexivity|].
  cbn [map combine filter flat_map fst]. destruct (key_in (fst (fst m)) priv) eqn:Ek; cbn [negb app].
  - exact IH.
  - destruct (Hm eq_refl) as (x & Hx & ->). rewrite Hx. cbn [app]. now rewrite IH.
Qed.

Definition bit_entries (d : list (key * val)) (bits : list (text * (nat * nat))) : list (key * val) :=
  flat_map (fun b => match dict_get d (Some (fst b)) with Ok x => [(Some (fst b), x)] | Err _ => [] end) bits.

Lemma bit_entries_keys d bits :
  forallb (fun b => match dict_get d (Some (fst b)) with Ok x => is_vbool x | Err _ => false end) bits = true ->
  map fst (bit_entries d bits) = map (fun b => Some (fst b)) bits.
Proof.
  induction bits as [|b bits IH]; [reflexivity|]. cbn [forallb]. intros H. apply andb_prop in H as [H1 H2].
  unfold bit_entries. cbn [flat_map map]. destruct (dict_get d (Some (fst b))); [|discriminate].
  cbn [app map fst]. f_equal. now apply IH.
Qed.

Lemma filter_bit_entries priv d bits :
  forallb (fun b => negb (mem_text (fst b) priv)) bits = true ->
  filter (fun kv : key * val => negb (key_in (fst kv) priv)) (bit_entries d bits) = bit_entries d bits.
Proof.
  induction bits as [|b bits IH]; [reflexivity|]. cbn [forallb]. intros H. apply andb_prop in H as [H1 H2].
  unfold bit_entries in *. cbn [flat_map]. rewrite filter_app. f_equal; [|exact (IH H2)].
  destruct (dict_get d (Some (fst b))); [|reflexivity]. cbn [filter fst key_in]. now rewrite H1.
Qed.

Lemma combine_keys {A B} (ks : list A) (vs : list B) : length ks = length vs -> map fst (combine ks vs) = ks.
Proof.
  revert vs. induction ks as [|k ks IH]; intros [|v vs] H; try discriminate; [reflexivity|].
  cbn [combine map fst]. f_equal. apply IH. now injection H.
Qed.

Lemma Forall2_len' {A B} (R : A -> B -> Prop) la lb : Forall2 R la lb -> length la = length lb.
Proof. induction 1; cbn [length]; congruence. Qed.

(* the encoding of a StructTag value, its length, and what decodes from it *)
Lemma stag_form ms bits priv size d rest :
  Forall (fun m => MP (snd m)) ms ->
  wf_ty (TStructTag ms bits priv size) = true -> in_dom (TStructTag ms bits priv size) (VDict d) = true ->
  exists bs, encode (TStructTag ms bits priv size) (VDict d) = Ok bs /\ length bs = size
    /\ forall fuel, (length bs < fuel)%nat ->
         decode_fuel fuel (TStructTag ms bits priv size) (bs ++ rest)
         = DOk (norm (TStructTag ms bits priv size) (VDict d)) rest.
Proof.
  intros Hmp Hwf Hd. cbn [wf_ty] in Hwf.
  apply andb_prop in Hwf as [Hwf Hbnd]. apply andb_prop in Hwf as [Hwf Hbits]. apply andb_prop in Hwf as [Hwf Hpriv].
  apply andb_prop in Hwf as [Hwf Hkeys]. apply andb_prop in Hwf as [Hw1 Hlay].
  cbn [in_dom] in Hd. apply andb_prop in Hd as [Hdm Hdb].
  (* encode: members *)
  destruct (stag_enc_members priv d ms (zeros size) Hmp Hw1) as (buf1 & He1 & Hl1 & Hout & Hall1); try assumption.
  { now rewrite zeros_length. }
  rewrite zeros_length in Hl1.
  (* encode: bits *)
  assert (Hbf : Forall (fun b => (bit_off b < length buf1)%nat /\ (bit_no b < 8)%nat
                                 /\ negb (mem_text (fst b) priv) = true
                                 /\ outside_visible priv ms (bit_off b)) bits).
  { apply Forall_forall. intros b Hin. rewrite forallb_forall in Hbits. specialize (Hbits b Hin).
    apply andb_prop in Hbits as [Hb Hb4]. apply andb_prop in Hb as [Hb Hb3]. apply andb_prop in Hb as [Hb1 Hb2].
    rewrite Hl1. unfold bit_off, bit_no. repeat split; try lia; try assumption.
    apply outside_of_bits. now apply negb_true_iff. }
  destruct (stag_enc_bits d bits buf1 Hdb) as (buf2 & He2 & Hl2 & Hsame & Hpres & Hallb).
  { eapply Forall_impl; [|exact Hbf]. intros b (H1 & H2 & _). now split. }
  { exact Hbnd. }
  { intros b Hin. rewrite Forall_forall in Hbf. destruct (Hbf b Hin) as (H1 & _ & _ & H4).
    exists 0. split; [|lia]. rewrite (Hout _ H4). apply nth_error_zeros. now rewrite <- Hl1. }
  assert (Hall2 : Forall (member_ok priv d buf2) ms).
  { apply Forall_forall. intros m Hin. rewrite Forall_forall in Hall1.
    apply (member_ok_transfer priv d buf1 buf2 m Hl2); [|now apply Hall1].
    intros Ek w i Hw Hi. apply Hsame. intros Hib. apply in_map_iff in Hib as (b & <- & Hb).
    rewrite Forall_forall in Hbf. destruct (Hbf b Hb) as (_ & _ & _ & H4).
    exact (H4 m w Hin Ek Hw Hi). }
  exists buf2. split; [|split].
  - cbn [encode]. unfold structtag_encode, pub_encode. fold (enc_smembers ms). rewrite He1. cbn [bind]. now rewrite He2.
  - lia.
  - intros fuel Hf. cbn [decode_fuel]. unfold structtag_decode. fold (dec_smembers fuel ms).
    assert (Hs : size = length buf2) by lia.
    replace (firstn size (buf2 ++ rest)) with buf2 by (rewrite Hs; symmetry; apply firstn_app_exact).
    replace (skipn size (buf2 ++ rest)) with rest by (rewrite Hs; symmetry; apply skipn_app_exact).
    replace ((length buf2 <? size)%nat) with false by (symmetry; apply Nat.ltb_ge; lia). rewrite andb_false_r.
    destruct (stag_dec_members priv d buf2 fuel ms [] Hmp Hall2 Hf) as (vals & Hdm2 & Hvals).
    rewrite Hdm2.
    rewrite (stag_dec_bits d bits buf2 _ Hallb). fold (bit_entries d bits).
    rewrite <- set_all_app.
    pose proof (Forall2_len' _ _ _ Hvals) as Hlen.
    rewrite set_all_fresh.
    + cbn [app dwrap norm]. rewrite filter_app, (filter_members _ _ _ _ Hvals).
      rewrite filter_bit_entries.
      * reflexivity.
      * apply forallb_forall. intros b Hin. rewrite Forall_forall in Hbf. now destruct (Hbf b Hin) as (_ & _ & H3 & _).
    + rewrite map_app, (bit_entries_keys _ _ Hdb). rewrite combine_keys by (now rewrite map_length). exact Hkeys.
    + apply forallb_forall. intros. reflexivity.
Qed.

Lemma rt_TStructTag ms bits priv size : Forall (fun m => MP (snd m)) ms -> RT (TStructTag ms bits priv size).
Proof.
  intros Hmp Hwf v rest Hd _. destruct v; try (cbn [in_dom] in Hd; discriminate Hd).
  destruct (stag_form ms bits priv size d rest Hmp Hwf Hd) as (bs & He & _ & Hdec). exists bs. now split.
Qed.

Lemma fw_TStructTag ms bits priv size : Forall (fun m => MP (snd m)) ms -> FW (TStructTag ms bits priv size).
Proof.
  intros Hmp w v bs Hw Hwf Hd He. cbn in Hw. injection Hw as <-.
  destruct v; try (cbn [in_dom] in Hd; discriminate Hd).
  destruct (stag_form ms bits priv size d [] Hmp Hwf Hd) as (bs' & He' & Hl & _).
  rewrite He in He'. injection He' as <-. exact Hl.
Qed.
