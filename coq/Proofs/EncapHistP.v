(* Proofs/EncapHistP.v — C11, history level: along ANY sequence of driver calls (open / unconnected
   request / connected request behind with_forward_open / close, with whatever replies the target
   gives), every frame the model driver writes passes the observer of Spec/EncapTrace.v: accepted by
   the strict parser, command of the operation, the session handle the target granted (0 while none
   is granted), and for 0x70 the connection id of the last successful Forward Open. *)
From Coq Require Import ZifyBool.
From PV Require Import Base.Bytes Base.BytesLemmas Base.Res Model.EncapDefs Gen.EncapGen Model.Encap
                       Spec.EncapParser Spec.EncapTrace Proofs.TargetCoreP Proofs.EncapP.
Open Scope Z_scope.
Ltac Zify.zify_post_hook ::= Z.to_euclidean_division_equations.

(* ================================================================ what the observer sees of the model's events *)
Definition obs_of_event (e : event) : obs :=
  match e with
  | EvFrame k f => ObsFrame (cmd_of k) f
  | EvRegistered h => ObsRegistered h
  | EvForwardOpened value => ObsForwardOpened (le_dec (firstn 4 value))
  | EvClosed => ObsClosed
  end.

(* ================================================================ well-formed histories (computable) *)
Fixpoint chunks_of (l : list pv) : option (list bytes) :=
  match l with
  | [] => Some []
  | PBytes b :: r => option_map (cons b) (chunks_of r)
  | _ :: _ => None
  end.

(* a message body: byte strings whose total length leaves room in the 16-bit length field *)
Definition body_ok (overhead : Z) (body : list pv) : bool :=
  match chunks_of body with
  | Some cs => all_bytes_ok cs && (overhead + zlen (concat cs) <? 65536)
  | None => false
  end.

(* a successful Forward Open reply carries at least the 4-byte O->T connection id *)
Definition reply_ok (r : option bytes) : bool :=
  match r with Some v => bytes_ok v && (4 <=? zlen v) | None => true end.

Definition op_ok (o : op) : bool :=
  match o with
  | OOpen (Some h) => (0 <=? h) && (h <? 4294967296)
  | OOpen None => true
  | OUnconnected KSendRR body => body_ok 16 body
  | OUnconnected KListIdentity body => body_ok 0 body
  | OUnconnected _ _ => false                 (* RegisterSession / UnRegisterSession are sent by open / close only *)
  | OConnected (PInt s) body fo =>
      (0 <=? s) && (s <? 65536) && body_ok 22 body
      && forallb (fun x => body_ok 16 (fst x) && reply_ok (snd x)) fo
  | OConnected _ _ _ => false
  | OClose m _ => body_ok 16 m
  end.

(* ================================================================ the observer as a fold *)
Fixpoint walk (g : ghost) (t : list obs) : option ghost :=
  match t with
  | [] => Some g
  | ObsFrame c f :: r => if frame_check g c f =? 0 then walk g r else None
  | o :: r => walk (ghost_step g o) r
  end.

Lemma trace_check_walk t : forall g i, trace_check g i t = None <-> walk g t <> None.
Proof.
  induction t as [| o r IH]; intros g i; cbn [trace_check walk].
  - split; [discriminate | reflexivity].
  - destruct o as [c f | h | c |]; try apply IH.
    destruct (frame_check g c f =? 0); [apply IH |]. split; [discriminate | congruence].
Qed.

Lemma walk_app t1 : forall g t2, walk g (t1 ++ t2) = match walk g t1 with Some g' => walk g' t2 | None => None end.
Proof.
  induction t1 as [| o r IH]; intros g t2; cbn [app walk]; [reflexivity |].
  destruct o as [c f | h | c |]; try apply IH.
  destruct (frame_check g c f =? 0); [apply IH | reflexivity].
Qed.

(* ================================================================ the invariant *)
Definition inv (st : dstate) (g : ghost) : Prop :=
  d_session st = PInt (expected_session g) /\ 0 <= expected_session g < 4294967296
  /\ (d_connected st = true ->
      exists cb, d_target_cid st = PBytes cb /\ length cb = 4%nat /\ bytes_ok cb = true /\ g_cid g = Some (le_dec cb)).

(* a call from a state related to g: its events pass the observer and leave a related state *)
Definition good {A} (g : ghost) (c : call A) : Prop :=
  exists g', walk g (map obs_of_event (snd (fst c))) = Some g' /\ inv (fst (fst c)) g'.

Lemma chunks_of_map l cs : chunks_of l = Some cs -> l = map PBytes cs.
Proof.
  revert cs; induction l as [| x r IH]; intros cs H; cbn [chunks_of] in H.
  - inversion H. reflexivity.
  - destruct x as [| b |]; try discriminate. destruct (chunks_of r) as [cs' |]; [| discriminate].
    inversion H; subst. cbn [map]. now rewrite (IH cs' eq_refl).
Qed.

Lemma body_ok_spec n body : body_ok n body = true ->
  exists cs, body = map PBytes cs /\ all_bytes_ok cs = true /\ n + zlen (concat cs) < 65536.
Proof.
  unfold body_ok. destruct (chunks_of body) as [cs |] eqn:E; [| discriminate].
  intros H. apply andb_true_iff in H as [H1 H2]. exists cs. repeat split; [now apply chunks_of_map | exact H1 | lia].
Qed.

Lemma ctx_facts : length CFG_CONTEXT = 8%nat /\ bytes_ok CFG_CONTEXT = true.
Proof. split; reflexivity. Qed.

(* ---------------------------------------------------------------- send *)
Lemma send_good st g k seq sq pver flags cs :
  inv st g -> 0 <= seq < 65536 -> args_for k seq sq pver flags -> all_bytes_ok cs = true ->
  (k = KSendUnit -> d_connected st = true) -> (k = KRegister -> concat cs = []) ->
  common_len k (concat cs) < 65536 ->
  exists p1 f, send st (request_gen k sq pver flags cs) = (p1, if d_sock st then Ok f else Err CommError)
               /\ frame_check g (cmd_of k) f = 0.
Proof.
  intros (Hs & Hr & Hc) Hseq Hargs Hcs Hunit Hreg Hlen.
  destruct ctx_facts as [Hc8 Hcok].
  assert (exists cid, k = KSendUnit -> d_target_cid st = PBytes cid /\ length cid = 4%nat /\ bytes_ok cid = true
                                       /\ g_cid g = Some (le_dec cid)) as [cid Hcid].
  { destruct k; try (exists []; discriminate).
    destruct (Hc (Hunit eq_refl)) as (cb & H1 & H2 & H3 & H4). exists cb. intros _. auto. }
  destruct (frame_ok_gen k seq sq pver flags cs (d_target_cid st) cid (expected_session g) CFG_CONTEXT
              Hseq Hargs Hr Hc8 Hcok Hcs) as (p1 & f & Hb & Hp).
  - intros Hk. destruct (Hcid Hk) as (H1 & H2 & H3 & _). auto.
  - exact Hreg.
  - exact Hlen.
  - exists p1, f. split.
    + unfold send, SEND_TARGET_CID, SEND_SESSION_ID, SEND_CONTEXT, SEND_OPTION. cbn [src_val].
      rewrite Hs, Hb. reflexivity.
    + unfold frame_check. rewrite Hp. unfold frame_of. cbn [f_cmd f_session f_body].
      rewrite !Z.eqb_refl. cbn [negb].
      destruct k; cbn [body_of]; try reflexivity.
      destruct (Hcid eq_refl) as (_ & _ & _ & ->). rewrite Z.eqb_refl. reflexivity.
Qed.

Lemma inv_set_sock st g b : inv st g -> inv (set_sock_opened st b) g.
Proof. intros H. exact H. Qed.

Lemma walk_frame g k f : frame_check g (cmd_of k) f = 0 -> walk g (map obs_of_event [EvFrame k f]) = Some g.
Proof. intros H. cbn [map obs_of_event walk]. rewrite H. reflexivity. Qed.

(* ---------------------------------------------------------------- _register_session / open *)
Lemma register_session_good st g reg :
  inv st g -> (forall h, reg = Some h -> 0 <= h < 4294967296) -> good g (register_session st reg).
Proof.
  intros Hi Hreg. unfold register_session.
  destruct (truthy (d_session st)) eqn:Ht.
  - exists g. split; [reflexivity | exact Hi].
  - assert (expected_session g = 0) as H0.
    { destruct Hi as (Hs & _ & _). rewrite Hs in Ht. cbn [truthy] in Ht. lia. }
    destruct (send_good st g KRegister 0 PNone (src_val CfgProtocolVersion st) (PBytes REGISTER_OPTION_FLAGS_DEFAULT) []
                Hi ltac:(lia)) as (p1 & f & Hsend & Hf).
    + split; [discriminate | intros _; split; reflexivity].
    + reflexivity.
    + discriminate.
    + reflexivity.
    + cbn [common_len]. lia.
    + change (request_gen KRegister PNone (src_val CfgProtocolVersion st) (PBytes REGISTER_OPTION_FLAGS_DEFAULT) [])
        with (new_packet KRegister PNone (src_val CfgProtocolVersion st) (PBytes REGISTER_OPTION_FLAGS_DEFAULT)) in Hsend.
      rewrite Hsend. destruct (d_sock st).
      * destruct reg as [h |].
        -- exists {| g_session := Some h; g_cid := g_cid g |}. split.
           ++ cbn [fst snd map obs_of_event walk]. rewrite Hf. reflexivity.
           ++ destruct Hi as (Hs & Hr & Hc). cbn [fst]. unfold inv, set_session, expected_session.
              cbn [d_session d_connected d_target_cid g_session g_cid]. repeat split; try apply (Hreg h eq_refl). exact Hc.
        -- exists g. split; [apply walk_frame; exact Hf | exact Hi].
      * exists g. split; [reflexivity | exact Hi].
Qed.

Lemma open_good st g reg :
  inv st g -> (forall h, reg = Some h -> 0 <= h < 4294967296) -> good g (open st reg).
Proof.
  intros Hi Hreg. unfold open. destruct (d_opened st).
  - exists g. split; [reflexivity | exact Hi].
  - pose proof (register_session_good (set_sock_opened st true) g reg (inv_set_sock st g true Hi) Hreg) as Hg.
    destruct (register_session (set_sock_opened st true) reg) as [[s e] [b | x]]; exact Hg.
Qed.

(* ---------------------------------------------------------------- unconnected requests *)
Lemma send_unconnected_good st g k body n :
  inv st g -> (k = KSendRR /\ n = 16 \/ k = KListIdentity /\ n = 0) -> body_ok n body = true ->
  good g (send_unconnected st k body)
  /\ fst (fst (send_unconnected st k body)) = st.
Proof.
  intros Hi Hk Hb. destruct (body_ok_spec n body Hb) as (cs & -> & Hcs & Hlen).
  unfold send_unconnected.
  destruct (send_good st g k 0 PNone PNone PNone cs Hi ltac:(lia)) as (p1 & f & Hsend & Hf).
  - split; intros ->; destruct Hk as [[? _] | [? _]]; discriminate.
  - exact Hcs.
  - intros ->; destruct Hk as [[? _] | [? _]]; discriminate.
  - intros ->; destruct Hk as [[? _] | [? _]]; discriminate.
  - destruct Hk as [[-> ->] | [-> ->]]; cbn [common_len]; lia.
  - change (add (new_packet k PNone PNone PNone) (map PBytes cs)) with (request_gen k PNone PNone PNone cs).
    rewrite Hsend. destruct (d_sock st).
    + split; [| reflexivity]. exists g. split; [apply walk_frame; exact Hf | exact Hi].
    + split; [| reflexivity]. exists g. split; [reflexivity | exact Hi].
Qed.

(* ---------------------------------------------------------------- _forward_open *)
Lemma firstn4_facts v : bytes_ok v = true -> 4 <= zlen v -> length (firstn 4 v) = 4%nat /\ bytes_ok (firstn 4 v) = true.
Proof.
  intros Hok Hl. split.
  - rewrite firstn_length. unfold zlen in Hl. lia.
  - rewrite <- (firstn_skipn 4 v), bytes_ok_app in Hok. apply andb_true_iff in Hok as [H _]. exact H.
Qed.

Lemma forward_open_good st g msg reply :
  inv st g -> body_ok 16 msg = true -> reply_ok reply = true ->
  good g (forward_open st msg reply)
  /\ (forall b, snd (forward_open st msg reply) = Ok b -> b = true -> d_connected (fst (fst (forward_open st msg reply))) = true)
  /\ d_ext_fo (fst (fst (forward_open st msg reply))) = d_ext_fo st.
Proof.
  intros Hi Hm Hr. unfold forward_open.
  destruct (d_connected st) eqn:Hc.
  - split; [exists g; split; [reflexivity | exact Hi] |]. split; [intros; exact Hc | reflexivity].
  - destruct (eq_int (d_session st) 0).
    + split; [exists g; split; [reflexivity | exact Hi] |]. split; [discriminate | reflexivity].
    + destruct (send_unconnected_good st g KSendRR msg 16 Hi (or_introl (conj eq_refl eq_refl)) Hm) as [(g1 & Hw & Hi1) Hst].
      destruct (send_unconnected st KSendRR msg) as [[s1 e1] [u | x]]; cbn [fst snd] in *; subst s1.
      * destruct reply as [value |].
        -- cbn [reply_ok] in Hr. apply andb_true_iff in Hr as [Hv Hl].
           destruct (firstn4_facts value Hv ltac:(lia)) as [H4 Hok4].
           split; [| split; [reflexivity | reflexivity]].
           exists {| g_session := g_session g1; g_cid := Some (le_dec (firstn 4 value)) |}. split.
           ++ cbn [fst snd]; rewrite map_app, walk_app, Hw. reflexivity.
           ++ destruct Hi1 as (Hs & Hrg & _). unfold inv, set_cid_connected, expected_session in *.
              cbn [d_session d_connected d_target_cid g_session g_cid]. repeat split; try assumption; try lia.
              intros _. exists (firstn 4 value). repeat split; assumption.
        -- split; [exists g1; split; [exact Hw | exact Hi1] |]. split; [| reflexivity].
           intros b Hb Htrue. inversion Hb. congruence.
      * split; [exists g1; split; [exact Hw | exact Hi1] |]. split; [discriminate | reflexivity].
Qed.

Lemma inv_set_ext st g b : inv st g -> inv (set_ext_fo st b) g.
Proof. intros H. exact H. Qed.

Lemma nth_fo_ok fo n :
  forallb (fun x => body_ok 16 (fst x) && reply_ok (snd x)) fo = true ->
  body_ok 16 (fst (nth_fo fo n)) = true /\ reply_ok (snd (nth_fo fo n)) = true.
Proof.
  intros H. unfold nth_fo. destruct (nth_in_or_default n fo ([], None)) as [Hin | ->].
  - rewrite forallb_forall in H. specialize (H _ Hin). apply andb_true_iff in H. exact H.
  - split; reflexivity.
Qed.

(* ---------------------------------------------------------------- with_forward_open *)
Lemma with_forward_open_good st g fo :
  inv st g -> forallb (fun x => body_ok 16 (fst x) && reply_ok (snd x)) fo = true ->
  good g (with_forward_open st fo)
  /\ (forall u, snd (with_forward_open st fo) = Ok u -> d_connected (fst (fst (with_forward_open st fo))) = true).
Proof.
  intros Hi Hfo. unfold with_forward_open.
  destruct (d_connected st) eqn:Hc.
  - split; [exists g; split; [reflexivity | exact Hi] | intros; exact Hc].
  - destruct (nth_fo_ok fo 0 Hfo) as [Hm0 Hr0]. destruct (nth_fo_ok fo 1 Hfo) as [Hm1 Hr1].
    destruct (forward_open_good st g _ _ Hi Hm0 Hr0) as ((g1 & Hw1 & Hi1) & Hconn1 & _).
    destruct (forward_open st (fst (nth_fo fo 0)) (snd (nth_fo fo 0))) as [[s1 e1] [b1 | x1]]; cbn [fst snd] in *.
    + destruct b1.
      * split; [exists g1; split; assumption | intros; now apply (Hconn1 true)].
      * destruct (d_ext_fo s1).
        -- destruct (forward_open_good (set_ext_fo s1 false) g1 _ _ (inv_set_ext s1 g1 false Hi1) Hm1 Hr1) as ((g2 & Hw2 & Hi2) & Hconn2 & _).
           destruct (forward_open (set_ext_fo s1 false) (fst (nth_fo fo 1)) (snd (nth_fo fo 1))) as [[s2 e2] [b2 | x2]]; cbn [fst snd] in *.
           ++ destruct b2.
              ** split; [| intros; now apply (Hconn2 true)]. exists g2. split; [| exact Hi2].
                 cbn [fst snd]; rewrite map_app, walk_app, Hw1. exact Hw2.
              ** split; [| discriminate]. exists g2. split; [| exact Hi2]. cbn [fst snd]; rewrite map_app, walk_app, Hw1. exact Hw2.
           ++ split; [| discriminate]. exists g2. split; [| exact Hi2]. cbn [fst snd]; rewrite map_app, walk_app, Hw1. exact Hw2.
        -- split; [exists g1; split; assumption | discriminate].
    + split; [exists g1; split; assumption | discriminate].
Qed.

(* ---------------------------------------------------------------- a connected request *)
Lemma send_connected_good st g s body fo :
  inv st g -> 0 <= s < 65536 -> body_ok 22 body = true ->
  forallb (fun x => body_ok 16 (fst x) && reply_ok (snd x)) fo = true ->
  good g (send_connected st (PInt s) body fo).
Proof.
  intros Hi Hs Hb Hfo. unfold send_connected.
  destruct (with_forward_open_good st g fo Hi Hfo) as ((g1 & Hw1 & Hi1) & Hconn).
  destruct (with_forward_open st fo) as [[s1 e1] [u | x]]; cbn [fst snd] in *.
  - destruct (body_ok_spec 22 body Hb) as (cs & -> & Hcs & Hlen).
    destruct (send_good s1 g1 KSendUnit s (PInt s) PNone PNone cs Hi1 Hs) as (p1 & f & Hsend & Hf).
    + split; [reflexivity | discriminate].
    + exact Hcs.
    + intros _. exact (Hconn u eq_refl).
    + discriminate.
    + cbn [common_len]. lia.
    + change (add (new_packet KSendUnit (PInt s) PNone PNone) (map PBytes cs)) with (request_gen KSendUnit (PInt s) PNone PNone cs).
      rewrite Hsend. destruct (d_sock s1).
      * exists g1. split; [| exact Hi1]. cbn [fst snd]. cbn [fst snd]; rewrite map_app, walk_app, Hw1. apply walk_frame. exact Hf.
      * exists g1. split; assumption.
  - exists g1. split; assumption.
Qed.

(* ---------------------------------------------------------------- close *)
Lemma forward_close_good st g msg ok :
  inv st g -> body_ok 16 msg = true -> good g (forward_close st msg ok).
Proof.
  intros Hi Hm. unfold forward_close. destruct (eq_int (d_session st) 0).
  - exists g. split; [reflexivity | exact Hi].
  - destruct (send_unconnected_good st g KSendRR msg 16 Hi (or_introl (conj eq_refl eq_refl)) Hm) as [(g1 & Hw & Hi1) Hst].
    destruct (send_unconnected st KSendRR msg) as [[s1 e1] [u | x]]; cbn [fst snd] in *.
    + destruct ok.
      * exists g1. split; [exact Hw |]. cbn [fst]. destruct Hi1 as (H1 & H2 & _). unfold inv, set_connected.
        cbn [d_session d_connected d_target_cid]. repeat split; try assumption; try lia; try (intros Hx; discriminate Hx).
      * exists g1. split; assumption.
    + exists g1. split; assumption.
Qed.

Lemma un_register_frames st g :
  inv st g ->
  exists g', walk g (map obs_of_event (snd (fst (un_register_session st)))) = Some g'.
Proof.
  intros Hi. unfold un_register_session.
  destruct (send_good st g KUnRegister 0 PNone PNone PNone [] Hi ltac:(lia)) as (p1 & f & Hsend & Hf).
  - split; discriminate.
  - reflexivity.
  - discriminate.
  - discriminate.
  - cbn [common_len]. lia.
  - change (request_gen KUnRegister PNone PNone PNone []) with (new_packet KUnRegister PNone PNone PNone) in Hsend.
    rewrite Hsend. destruct (d_sock st).
    + exists g. apply walk_frame. exact Hf.
    + exists g. reflexivity.
Qed.

Lemma inv_closed st : inv (set_session (set_connected (set_sock_opened st false) false) (PInt 0)) ghost0.
Proof. unfold inv. cbn. repeat split; try lia; try discriminate. Qed.

Lemma walk_closed g t g' : walk g t = Some g' -> walk g (t ++ [ObsClosed]) = Some ghost0.
Proof. intros H. rewrite walk_app, H. reflexivity. Qed.

Lemma close_good st g msg ok : inv st g -> body_ok 16 msg = true -> good g (close st msg ok).
Proof.
  intros Hi Hm. unfold close.
  assert (exists st1 evs1 r1,
            (if d_connected st
             then match forward_close st msg ok with
                  | (s, e, Err x) => (s, e, Err x)
                  | (s, e, Ok _) => (s, e, Ok tt)
                  end
             else (st, [], Ok tt)) = (st1, evs1, r1)
            /\ exists g1, walk g (map obs_of_event evs1) = Some g1 /\ inv st1 g1) as (st1 & evs1 & r1 & -> & g1 & Hw1 & Hi1).
  { destruct (d_connected st).
    - destruct (forward_close_good st g msg ok Hi Hm) as (g1 & Hw & Hi1).
      destruct (forward_close st msg ok) as [[s e] [b | x]]; cbn [fst snd] in *; do 3 eexists; (split; [reflexivity |]); exists g1; split; assumption.
    - do 3 eexists. split; [reflexivity |]. exists g. split; [reflexivity | exact Hi]. }
  destruct r1 as [u | x].
  - destruct (negb (eq_int (d_session st1) 0)).
    + destruct (un_register_frames st1 g1 Hi1) as (g2 & Hw2).
      destruct (un_register_session st1) as [[s2 e2] r2]; cbn [fst snd] in *.
      exists ghost0. split; [| apply inv_closed].
      cbn [fst snd]; rewrite map_app, walk_app, Hw1. rewrite map_app. apply (walk_closed g1 _ g2). exact Hw2.
    + exists ghost0. split; [| apply inv_closed]. cbn [fst snd app]. cbn [fst snd]; rewrite map_app, walk_app, Hw1. reflexivity.
  - exists ghost0. split; [| apply inv_closed]. cbn [fst snd app]. cbn [fst snd]; rewrite map_app, walk_app, Hw1. reflexivity.
Qed.

(* ================================================================ histories *)
Lemma step_good st g o : inv st g -> op_ok o = true ->
  exists g', walk g (map obs_of_event (snd (fst (step st o)))) = Some g' /\ inv (fst (fst (step st o))) g'.
Proof.
  intros Hi Ho. destruct o as [reg | k body | seq body fo | m ok]; cbn [step].
  - assert (forall h, reg = Some h -> 0 <= h < 4294967296) as Hreg.
    { intros h ->. cbn [op_ok] in Ho. lia. }
    pose proof (open_good st g reg Hi Hreg) as Hg.
    destruct (open st reg) as [[s e] r]. exact Hg.
  - assert (exists n, (k = KSendRR /\ n = 16 \/ k = KListIdentity /\ n = 0) /\ body_ok n body = true) as (n & Hk & Hb).
    { destruct k; cbn [op_ok] in Ho; try discriminate; [exists 16 | exists 0]; split; auto. }
    destruct (send_unconnected_good st g k body n Hi Hk Hb) as [Hg _].
    destruct (send_unconnected st k body) as [[s e] r]. exact Hg.
  - destruct seq as [| b | s]; cbn [op_ok] in Ho; try discriminate.
    apply andb_true_iff in Ho as [Ho Hfo]. apply andb_true_iff in Ho as [Hs Hb].
    pose proof (send_connected_good st g s body fo Hi ltac:(lia) Hb Hfo) as Hg.
    destruct (send_connected st (PInt s) body fo) as [[s' e] r]. exact Hg.
  - cbn [op_ok] in Ho. pose proof (close_good st g m ok Hi Ho) as Hg.
    destruct (close st m ok) as [[s e] r]. exact Hg.
Qed.

Lemma trace_good ops : forall st g, inv st g -> forallb op_ok ops = true ->
  walk g (map obs_of_event (trace st ops)) <> None.
Proof.
  induction ops as [| o r IH]; intros st g Hi Hops; cbn [trace map walk]; [discriminate |].
  cbn [forallb] in Hops. apply andb_true_iff in Hops as [Ho Hr].
  destruct (step_good st g o Hi Ho) as (g' & Hw & Hi').
  destruct (step st o) as [[s e] c]; cbn [fst snd] in *.
  cbn [fst snd]; rewrite map_app, walk_app, Hw. apply IH; assumption.
Qed.

Lemma inv_init : inv init_dstate ghost0.
Proof. unfold inv. cbn. repeat split; try lia; try discriminate. Qed.

(* the history half of C11 *)
Theorem history_ok : forall ops, forallb op_ok ops = true ->
  trace_ok (map obs_of_event (trace init_dstate ops)).
Proof.
  intros ops H. unfold trace_ok. apply trace_check_walk. apply trace_good; [apply inv_init | exact H].
Qed.
