(* Proofs/CodecWireCodes.v — C07: the CIP type-code table of the library (regenerated rows
   Gen/Types.v: class name, code, size, struct format, length type, encoding, host type) against the
   hand-written reference table [spec_codes] (Spec/Wire.v); and DATE_AND_TIME through its documented
   two-argument call. *)
From Coq Require Import String.
From PV Require Import Base.Bytes Base.BytesLemmas Base.Res Base.Proto Gen.Types Gen.CodecFacts Model.Codec.
From PV Require Import Spec.WireFloat Spec.Wire Proofs.CodecWireDefs Proofs.CodecWireBase Proofs.CodecWireEnc.
From Coq Require Import ZifyBool.
Open Scope Z_scope.

Definition tenc_eqb (a b : tenc) : bool :=
  match a, b with Latin1, Latin1 | Utf8, Utf8 | Utf16, Utf16 | Utf32, Utf32 => true | _, _ => false end.
(* equality of elementary type terms (composite terms never appear in the table) *)
Definition elem_ty_eqb (a b : ty) : bool :=
  match a, b with
  | TBool, TBool | TDateTime, TDateTime | TStringN, TStringN => true
  | TInt s w, TInt s' w' => Bool.eqb s s' && (w =? w')%nat
  | TReal d, TReal d' => Bool.eqb d d'
  | TStr s w e, TStr s' w' e' => Bool.eqb s s' && (w =? w')%nat && tenc_eqb e e'
  | TBits w, TBits w' => (w =? w')%nat
  | _, _ => false
  end.
Definition width_eqb (a : option nat) (b : option nat) : bool :=
  match a, b with Some x, Some y => (x =? y)%nat | None, None => true | _, _ => false end.

Fixpoint first_with_code (rows : list row) (c : Z) : option row :=
  match rows with [] => None | r :: rs => if row_code r =? c then Some r else first_with_code rs c end.

(* a row of the reference table against the library's rows: the class of that name carries the
   code, the first class carrying the code is that class (code 0 = no CIP code: not looked up), its declared size is the documented width,
   and the type the model reads off the row is the reference type, of that width *)
Definition code_ok (r : code_row) : bool :=
  let '(code, name, width, sty) := r in
  match find_row type_rows (zs_of_string name) with
  | Some row =>
      (row_code row =? code)
      && ((code =? 0) || match first_with_code type_rows code with Some r1 => text_eqb (row_name r1) (zs_of_string name) | None => false end)
      && match width with Some w => row_size row =? Z.of_nat w | None => true end
      && match sty with
         | Some t => match ty_of_name (zs_of_string name) with
                     | Some t' => elem_ty_eqb t t' && wire_ty t
                     | None => false
                     end
                     && match width with Some _ => width_eqb (sfixed t) width | None => true end
         | None => true
         end
  | None => false
  end.

Definition all_codes : list code_row := spec_codes ++ spec_uncoded.

(* every documented code maps to a class of the documented width and layout *)
Lemma type_codes_all : forallb code_ok all_codes = true.
Proof. vm_compute. reflexivity. Qed.

Lemma named_int_encode_UDINT z bs :
  spec_int 4 false z = Some bs -> named_int_encode n_UDINT (VInt z) = Ok bs.
Proof. intros H. unfold named_int_encode. rewrite int_row_UDINT. apply spec_int_encode; [lia|exact H]. Qed.

(* DATE_AND_TIME.encode(time, date): the documented positional call produces the reference bytes *)
Theorem datetime_args_is_spec a b bs :
  spec_encode TDateTime (VTuple [VInt a; VInt b]) = Some bs -> encode_args TDateTime [VInt a; VInt b] = Ok bs.
Proof.
  cbn [spec_encode]. unfold spec_datetime_enc.
  destruct (spec_int 4 false a) as [pa|] eqn:Ha; [|discriminate].
  destruct (spec_int 2 false b) as [pb|] eqn:Hb; [|discriminate]. intros H. apply Some_inj in H. subst bs.
  cbn [encode_args]. unfold datetime_encode2. cbn [bind fst snd].
  rewrite (named_int_encode_UDINT _ _ Ha). cbn [bind]. rewrite (named_int_encode_UINT _ _ Hb). reflexivity.
Qed.
