(* Proofs/GenericReply.v — reply_returned: on the reply frames the reference target builds
   (Spec/TargetCore.v encap_reply + mk_cpf + mr_bytes), Model/Generic.v gm_response returns the
   reply data unchanged (no data type), its decoding (data type given), or — general status not 0 —
   a falsy Tag whose error text starts with the text of that status. *)
From Coq Require Import String ZifyBool.
From PV Require Import Base.Bytes Base.BytesLemmas Base.Res Base.Proto Base.PyStr.
From PV Require Import Gen.Consts Model.EnumMapDefs Model.Path Model.Generic.
From PV Require Model.CodecPrim Model.Codec Model.Reply.
From PV Require Import Spec.EncapParser Spec.MRParser Spec.TargetIface Spec.TargetCore.
From PV Require Import Proofs.TargetCoreP.
Open Scope Z_scope.
Ltac Zify.zify_post_hook ::= Z.to_euclidean_division_equations.

(* ---------------------------------------------------------------- the target's reply frames *)
Definition reply_rr (ses : Z) (ctx : bytes) (svc : Z) (rp : mr_reply) : bytes :=
  encap_reply CMD_RRDATA ses 0 ctx (mk_cpf 0 AddrNull ITEM_UNCONN_DATA (mr_bytes svc rp)).
Definition reply_unit (ses : Z) (ctx : bytes) (toid seq svc : Z) (rp : mr_reply) : bytes :=
  encap_reply CMD_UNITDATA ses 0 ctx (mk_cpf 0 (AddrConn toid) ITEM_CONN_DATA (le_enc 2 seq ++ mr_bytes svc rp)).
Definition target_reply (connected : bool) (ses : Z) (ctx : bytes) (toid seq svc : Z) (rp : mr_reply) : bytes :=
  if connected then reply_unit ses ctx toid seq svc rp else reply_rr ses ctx svc rp.

Definition ext_bytes (ext : list Z) : bytes := flat_map (le_enc 2) ext.

(* ---------------------------------------------------------------- list positions *)
Lemma skipn_app_len {A} (pre l : list A) k : skipn (List.length pre + k) (pre ++ l) = skipn k l.
Proof. induction pre as [| x pre IH]; [reflexivity | exact IH]. Qed.

Lemma firstn_app_in {A} (pre l : list A) k : (k <= List.length pre)%nat -> firstn k (pre ++ l) = firstn k pre.
Proof.
  revert k. induction pre as [| x pre IH]; intros k Hk.
  - destruct k; [reflexivity | cbn in Hk; lia].
  - destruct k; [reflexivity |]. cbn [app firstn]. f_equal. apply IH. cbn in Hk. lia.
Qed.

Lemma skipn_app_in {A} (pre l : list A) k : (k <= List.length pre)%nat -> skipn k (pre ++ l) = skipn k pre ++ l.
Proof.
  revert k. induction pre as [| x pre IH]; intros k Hk.
  - destruct k; [reflexivity | cbn in Hk; lia].
  - destruct k; [reflexivity |]. cbn [app skipn]. apply IH. cbn in Hk. lia.
Qed.

Lemma slice_app_in (pre l : bytes) a b : (b <= List.length pre)%nat -> slice a b (pre ++ l) = slice a b pre.
Proof.
  intros Hb. unfold slice.
  destruct (Nat.le_gt_cases a (List.length pre)) as [Ha | Ha].
  - rewrite skipn_app_in by exact Ha. apply firstn_app_in. rewrite skipn_length. lia.
  - replace (b - a)%nat with 0%nat by lia. reflexivity.
Qed.

Lemma slice_at (pre l : bytes) (x : Z) : slice (List.length pre) (S (List.length pre)) (pre ++ x :: l) = [x].
Proof.
  unfold slice. rewrite skipn_app_exact. replace (S (List.length pre) - List.length pre)%nat with 1%nat by lia. reflexivity.
Qed.

(* ---------------------------------------------------------------- elementary decoders on one byte / four zero bytes *)
Lemma USINT_t_v : Reply.USINT_t = {| Reply.ety_name := Reply.T "USINT"; Reply.ety_size := 1; Reply.ety_signed := false |}.
Proof. reflexivity. Qed.
Lemma UINT_t_v : Reply.UINT_t = {| Reply.ety_name := Reply.T "UINT"; Reply.ety_size := 2; Reply.ety_signed := false |}.
Proof. reflexivity. Qed.
Lemma UDINT_t_v : Reply.UDINT_t = {| Reply.ety_name := Reply.T "UDINT"; Reply.ety_size := 4; Reply.ety_signed := false |}.
Proof. reflexivity. Qed.
Lemma decode_dint_zero : Reply.decode_elem Reply.DINT_t [0; 0; 0; 0] = Reply.ROk 0.
Proof. reflexivity. Qed.
Lemma decode_usint_one x : Reply.decode_elem Reply.USINT_t [x] = Reply.ROk x.
Proof.
  unfold Reply.decode_elem. rewrite USINT_t_v. cbn [Reply.ety_size firstn List.length Nat.ltb Nat.leb].
  unfold Reply.elem_value. cbn [Reply.ety_signed le_dec]. f_equal. lia.
Qed.
Lemma decode_stream_usint whole x r : exists v, Reply.decode_elem_stream Reply.USINT_t whole (x :: r) = Reply.ROk (v, r).
Proof.
  unfold Reply.decode_elem_stream. rewrite USINT_t_v. cbn [Reply.ety_size firstn skipn List.length Nat.ltb Nat.leb].
  eexists. reflexivity.
Qed.
Lemma decode_stream_usint_v whole x r : Reply.decode_elem_stream Reply.USINT_t whole (x :: r) = Reply.ROk (x, r).
Proof.
  unfold Reply.decode_elem_stream. rewrite USINT_t_v. cbn [Reply.ety_size firstn skipn List.length Nat.ltb Nat.leb].
  unfold Reply.elem_value. cbn [Reply.ety_signed le_dec]. f_equal. f_equal. lia.
Qed.
Lemma decode_stream_uint whole a b r : exists v, Reply.decode_elem_stream Reply.UINT_t whole (a :: b :: r) = Reply.ROk (v, r).
Proof.
  unfold Reply.decode_elem_stream. rewrite UINT_t_v. cbn [Reply.ety_size firstn skipn List.length Nat.ltb Nat.leb].
  eexists. reflexivity.
Qed.
Lemma decode_stream_udint whole a b c d r : exists v, Reply.decode_elem_stream Reply.UDINT_t whole (a :: b :: c :: d :: r) = Reply.ROk (v, r).
Proof.
  unfold Reply.decode_elem_stream. rewrite UDINT_t_v. cbn [Reply.ety_size firstn skipn List.length Nat.ltb Nat.leb].
  eexists. reflexivity.
Qed.

(* ---------------------------------------------------------------- the base response classes on a reply of the target's shape *)
(* raw = pre ++ reply service :: 0 :: status :: ext words :: (ext bytes ++ data), pre = everything
   before the message-router reply (40 bytes over SendRRData, 46 over SendUnitData) *)
Lemma parse_cip_shape (o : nat) (pre : bytes) (rs st n : Z) (rest : bytes) :
  List.length pre = o -> (12 <= o)%nat -> slice 8 12 pre = [0; 0; 0; 0] -> 128 <= rs < 256 ->
  let raw := pre ++ rs :: 0 :: st :: n :: rest in
  Reply.parse_cip o (S (S o)) (S (S (S (S o)))) raw
  = Reply.mkResp (Some raw) None (Some (firstn 2 raw)) (Some 0)
      (Reply.services_get (Reply.services_get (Some (KBytes [rs - 128])))) (Some st) (Some rest) None.
Proof.
  intros Ho H12 Hz Hrs raw. unfold Reply.parse_cip, Reply.parse_base.
  assert (Hs : slice 8 12 raw = [0; 0; 0; 0]) by (unfold raw; rewrite slice_app_in by lia; exact Hz).
  rewrite Hs, decode_dint_zero.
  assert (Hsv : slice o (S o) raw = [rs]) by (unfold raw; rewrite <- Ho; apply slice_at).
  rewrite Hsv. unfold Reply.from_reply. rewrite decode_usint_one. unfold Reply.encode_usint.
  replace ((0 <=? rs - 128) && (rs - 128 <? 256)) with true by lia.
  assert (Hst : slice (S (S o)) (S (S (S o))) raw = [st]).
  { unfold raw. change (pre ++ rs :: 0 :: st :: n :: rest) with (pre ++ [rs; 0] ++ st :: n :: rest).
    rewrite app_assoc. replace (S (S o)) with (List.length (pre ++ [rs; 0])) by (rewrite app_length; cbn; lia).
    apply slice_at. }
  rewrite Hst, decode_usint_one.
  assert (Hd : skipn (S (S (S (S o)))) raw = rest).
  { unfold raw. change (pre ++ rs :: 0 :: st :: n :: rest) with (pre ++ [rs; 0; st; n] ++ rest).
    rewrite app_assoc. replace (S (S (S (S o)))) with (Nat.add (List.length (pre ++ [rs; 0; st; n])) O) by (rewrite app_length; cbn; lia).
    rewrite skipn_app_len. reflexivity. }
  rewrite Hd. reflexivity.
Qed.

(* ---------------------------------------------------------------- the error text names the status *)
Lemma starts_with_app (p q : text) : starts_with p (p ++ q) = true.
Proof. induction p as [| c p IH]; [destruct q; reflexivity |]. cbn [app starts_with]. rewrite Z.eqb_refl. exact IH. Qed.

Lemma with_ext_starts status ext : starts_with status (Reply.with_ext status ext) = true.
Proof.
  unfold Reply.with_ext. destruct ext as [[| c e] |].
  - rewrite <- (app_nil_r status) at 2. apply starts_with_app.
  - apply starts_with_app.
  - rewrite <- (app_nil_r status) at 2. apply starts_with_app.
Qed.

(* get_extended_status never raises on a reply that carries all its extended status words *)
Lemma get_extended_status_total (pre : bytes) (st : Z) (ext : list Z) (data : bytes) :
  exists x, Reply.get_extended_status (pre ++ st :: zlen ext :: ext_bytes ext ++ data) (List.length pre) = Reply.ROk x.
Proof.
  unfold Reply.get_extended_status.
  replace (List.length pre) with (List.length pre + 0)%nat by lia. rewrite skipn_app_len. cbn [skipn].
  rewrite decode_stream_usint_v, decode_stream_usint_v.
  destruct ext as [| e1 [| e2 [| e3 ext']]].
  - cbn [zlen List.length Z.of_nat Z.mul Z.eqb]. eexists. reflexivity.
  - change (zlen [e1]) with 1. cbn [Z.mul Z.eqb Pos.mul Pos.eqb ext_bytes flat_map le_enc app].
    destruct (decode_stream_uint (st :: 1 :: (e1 mod 256) :: ((e1 / 256) mod 256) :: data) (e1 mod 256) ((e1 / 256) mod 256) data) as (v & Hv).
    rewrite Hv. eexists. reflexivity.
  - change (zlen [e1; e2]) with 2. cbn [Z.mul Z.eqb Pos.mul Pos.eqb ext_bytes flat_map le_enc app].
    destruct (decode_stream_udint (st :: 2 :: (e1 mod 256) :: ((e1 / 256) mod 256) :: (e2 mod 256) :: ((e2 / 256) mod 256) :: data)
                (e1 mod 256) ((e1 / 256) mod 256) (e2 mod 256) ((e2 / 256) mod 256) data) as (v & Hv).
    rewrite Hv. eexists. reflexivity.
  - assert (Hz : zlen (e1 :: e2 :: e3 :: ext') = 3 + zlen ext') by (unfold zlen; cbn [List.length]; lia).
    rewrite Hz. assert (0 <= zlen ext') by (unfold zlen; lia).
    replace ((3 + zlen ext') * 2 =? 0) with false by lia.
    replace ((3 + zlen ext') * 2 =? 1) with false by lia.
    replace ((3 + zlen ext') * 2 =? 2) with false by lia.
    replace ((3 + zlen ext') * 2 =? 4) with false by lia.
    eexists. reflexivity.
Qed.

(* ---------------------------------------------------------------- shape of the target's frames *)
Lemma reply_rr_shape ses ctx svc rp :
  blen ctx = 8 ->
  exists pre, List.length pre = 40%nat /\ slice 8 12 pre = [0; 0; 0; 0] /\ reply_rr ses ctx svc rp = pre ++ mr_bytes svc rp.
Proof.
  intros Hc. destruct (length8 ctx Hc) as (x0 & x1 & x2 & x3 & x4 & x5 & x6 & x7 & ->).
  unfold reply_rr, encap_reply, mk_header, mk_cpf, addr_bytes.
  set (m := mr_bytes svc rp).
  exists (le_enc 2 CMD_RRDATA ++ le_enc 2 (blen ([0; 0; 0; 0] ++ le_enc 2 0 ++ [2; 0] ++ [0; 0; 0; 0] ++ le_enc 2 ITEM_UNCONN_DATA ++ le_enc 2 (blen m) ++ m))
          ++ le_enc 4 ses ++ le_enc 4 0 ++ [x0; x1; x2; x3; x4; x5; x6; x7] ++ le_enc 4 0
          ++ [0; 0; 0; 0] ++ le_enc 2 0 ++ [2; 0] ++ [0; 0; 0; 0] ++ le_enc 2 ITEM_UNCONN_DATA ++ le_enc 2 (blen m)).
  split; [reflexivity |]. split; [reflexivity |].
  rewrite <- !app_assoc. reflexivity.
Qed.

Lemma reply_unit_shape ses ctx toid seq svc rp :
  blen ctx = 8 ->
  exists pre, List.length pre = 46%nat /\ slice 8 12 pre = [0; 0; 0; 0] /\ reply_unit ses ctx toid seq svc rp = pre ++ mr_bytes svc rp.
Proof.
  intros Hc. destruct (length8 ctx Hc) as (x0 & x1 & x2 & x3 & x4 & x5 & x6 & x7 & ->).
  unfold reply_unit, encap_reply, mk_header, mk_cpf, addr_bytes.
  set (m := le_enc 2 seq ++ mr_bytes svc rp).
  exists (le_enc 2 CMD_UNITDATA ++ le_enc 2 (blen ([0; 0; 0; 0] ++ le_enc 2 0 ++ [2; 0] ++ (le_enc 2 ITEM_CONN_ADDR ++ [4; 0] ++ le_enc 4 toid) ++ le_enc 2 ITEM_CONN_DATA ++ le_enc 2 (blen m) ++ m))
          ++ le_enc 4 ses ++ le_enc 4 0 ++ [x0; x1; x2; x3; x4; x5; x6; x7] ++ le_enc 4 0
          ++ [0; 0; 0; 0] ++ le_enc 2 0 ++ [2; 0] ++ (le_enc 2 ITEM_CONN_ADDR ++ [4; 0] ++ le_enc 4 toid) ++ le_enc 2 ITEM_CONN_DATA ++ le_enc 2 (blen m)
          ++ le_enc 2 seq).
  split; [reflexivity |]. split; [reflexivity |].
  unfold m. rewrite <- !app_assoc. reflexivity.
Qed.

(* both transports at once: the response object the base classes build *)
Lemma parse_target_reply (connected : bool) ses ctx toid seq svc st ext data :
  blen ctx = 8 -> 0 <= st < 256 -> zlen ext < 256 ->
  let rp := {| rp_status := st; rp_ext := ext; rp_data := data |} in
  let raw := target_reply connected ses ctx toid seq svc rp in
  let k := rkind_of connected in
  exists pre sk,
    raw = pre ++ st :: zlen ext :: ext_bytes ext ++ data
    /\ List.length pre = (if connected then 48 else 42)%nat
    /\ (match k with Reply.KRR => Reply.parse_rr raw | _ => Reply.parse_unit raw end)
       = Reply.mkResp (Some raw) None (Some (firstn 2 raw)) (Some 0) sk (Some st) (Some (ext_bytes ext ++ data)) None.
Proof.
  intros Hc Hst Hn rp raw k.
  assert (Hzl : 0 <= zlen ext) by (unfold zlen; lia).
  assert (Hm : mr_bytes svc rp = reply_service svc :: 0 :: st :: zlen ext :: ext_bytes ext ++ data).
  { unfold mr_bytes, rp. cbn [rp_status rp_ext rp_data]. unfold ext_bytes.
    change (blen ext) with (zlen ext). f_equal. f_equal. f_equal; [lia |]. f_equal. lia. }
  assert (Hrs : 128 <= reply_service svc < 256) by (unfold reply_service; lia).
  destruct connected.
  - destruct (reply_unit_shape ses ctx toid seq svc rp Hc) as (pre & Hl & Hz & Heq).
    exists (pre ++ [reply_service svc; 0]), (Reply.services_get (Reply.services_get (Some (KBytes [reply_service svc - 128])))).
    unfold raw, target_reply, k, rkind_of. rewrite Heq, Hm. split; [| split].
    + rewrite <- app_assoc. reflexivity.
    + rewrite app_length, Hl. reflexivity.
    + unfold Reply.parse_unit. apply (parse_cip_shape 46 pre); [exact Hl | lia | exact Hz | exact Hrs].
  - destruct (reply_rr_shape ses ctx svc rp Hc) as (pre & Hl & Hz & Heq).
    exists (pre ++ [reply_service svc; 0]), (Reply.services_get (Reply.services_get (Some (KBytes [reply_service svc - 128])))).
    unfold raw, target_reply, k, rkind_of. rewrite Heq, Hm. split; [| split].
    + rewrite <- app_assoc. reflexivity.
    + rewrite app_length, Hl. reflexivity.
    + unfold Reply.parse_rr. apply (parse_cip_shape 40 pre); [exact Hl | lia | exact Hz | exact Hrs].
Qed.

(* ---------------------------------------------------------------- reply_returned *)
(* general status 0: the reply data, unchanged or decoded *)
Theorem reply_returned_ok (a : gm_args) ses ctx toid seq svc data :
  blen ctx = 8 ->
  gm_response a (target_reply (a_connected a) ses ctx toid seq svc (mr_ok data))
  = Ok {| g_name := a_name a;
          g_value := match a_dt a with
                     | None => Some (GBytes data)
                     | Some t => match Codec.decode t data with Ok (v, _) => Some (GVal v) | Err _ => None end
                     end;
          g_type := a_dt a;
          g_error := match a_dt a with
                     | None => None
                     | Some t => match Codec.decode t data with Ok _ => None | Err _ => Some EParse end
                     end |}.
Proof.
  intros Hc.
  destruct (parse_target_reply (a_connected a) ses ctx toid seq svc 0 [] data Hc ltac:(lia) ltac:(reflexivity))
    as (pre & sk & _ & _ & Hp).
  cbn [ext_bytes flat_map app] in Hp. change {| rp_status := 0; rp_ext := []; rp_data := data |} with (mr_ok data) in Hp.
  unfold gm_response, parse_generic.
  destruct (a_connected a); cbn [rkind_of] in *; rewrite Hp; (destruct (a_dt a) as [t |]; [| reflexivity]);
    (replace (Reply.is_valid _ _) with true by reflexivity); cbn [Reply.r_data];
    (destruct (Codec.decode t data) as [[v rest] | e]; reflexivity).
Qed.

(* a refusal: general status st <> 0 (over a connection also <> 6, which the connected response
   class accepts for the fragmenting services): a falsy Tag whose error starts with the status text *)
Theorem reply_refused (a : gm_args) ses ctx toid seq svc st ext data :
  blen ctx = 8 -> 0 < st < 256 -> zlen ext < 256 -> (a_connected a = true -> st <> 6) ->
  exists txt v,
    gm_response a (target_reply (a_connected a) ses ctx toid seq svc {| rp_status := st; rp_ext := ext; rp_data := data |})
    = Ok {| g_name := a_name a; g_value := v; g_type := a_dt a; g_error := Some (EText txt) |}
    /\ starts_with (Reply.get_service_status_z st) txt = true
    /\ (a_dt a <> None -> v = None).
Proof.
  intros Hc Hst Hn H6.
  destruct (parse_target_reply (a_connected a) ses ctx toid seq svc st ext data Hc ltac:(lia) Hn)
    as (pre & sk & Hraw & Hl & Hp).
  set (raw := target_reply (a_connected a) ses ctx toid seq svc {| rp_status := st; rp_ext := ext; rp_data := data |}) in *.
  set (r := Reply.mkResp (Some raw) None (Some (firstn 2 raw)) (Some 0) sk (Some st) (Some (ext_bytes ext ++ data)) None) in *.
  assert (Hv : Reply.is_valid (rkind_of (a_connected a)) r = false).
  { unfold r, rkind_of, Reply.is_valid, Reply.is_valid_base, Reply.opt_is. cbn [Reply.r_error Reply.r_command Reply.r_command_status Reply.r_service_status Reply.r_service].
    unfold SUCCESS, INSUFFICIENT_PACKETS.
    destruct (a_connected a).
    - specialize (H6 eq_refl). replace (st =? 0) with false by lia. replace (st =? 6) with false by lia. reflexivity.
    - replace (st =? 0) with false by lia. rewrite andb_false_r. reflexivity. }
  destruct (get_extended_status_total pre st ext data) as (x & Hx). rewrite <- Hraw in Hx.
  assert (He : Reply.error (rkind_of (a_connected a)) r
               = Reply.ROk (Some (Reply.with_ext (Reply.get_service_status_z st) x))).
  { unfold Reply.error. rewrite Hv. unfold r at 1. cbn [Reply.r_error].
    unfold r at 1. cbn [Reply.r_command_status Reply.not_none_or_success]. unfold SUCCESS. cbn [Z.eqb].
    unfold r at 1. cbn [Reply.r_service_status Reply.not_none_or_success]. unfold SUCCESS.
    replace (st =? 0) with false by lia.
    unfold Reply.extended_status, rkind_of. unfold r. cbn [Reply.r_raw].
    destruct (a_connected a); rewrite Hl in Hx; rewrite Hx; reflexivity. }
  unfold gm_response, parse_generic. rewrite Hp. fold r.
  destruct (a_dt a) as [t |].
  - rewrite Hv, He. eexists _, None. split; [reflexivity |]. split; [apply with_ext_starts | reflexivity].
  - rewrite He. eexists _, _. split; [reflexivity |]. split; [apply with_ext_starts | intros H; contradiction].
Qed.
