(* Proofs/UploadParse.v — C05, the symbol-list pager of the upload model:
   * byte readers against little-endian encodings;
   * [parse_entry] / [parse_entries] invert the wire layout of a Get Instance Attribute List entry
     (instance UDINT, name STRING, type UINT, attributes 3 5 6 UDINT, three dimensions UDINT,
     external access USINT from firmware 18 on);
   * [parse_entries_fuel]: the bound [length data] of the entry loop is never the reason of a failure;
   * [pagination_independent]: against ANY peer that answers a request starting at instance s with
     a non-empty prefix — of any length — of the symbols whose instance is >= s (status 6 while
     symbols remain), the pager returns every symbol exactly once, in order: the result does not
     depend on the pagination points.  Unbounded, by induction on the fuel / the remaining list. *)
From Coq Require Import ZifyBool Sorted.
From PV Require Import Base.Bytes Base.BytesLemmas Base.PyStr Base.Res Model.LogixUpload.
From PV Require Gen.Consts.
Open Scope Z_scope.

(* ================================================================ readers *)
Lemma le_enc_cons w z : exists b r, le_enc (S w) z = b :: r.
Proof. cbn [le_enc]. eauto. Qed.

Lemma rd_u_enc w z rest :
  (0 < w)%nat -> 0 <= z < pow256 w -> rd_u w (le_enc w z ++ rest) = Ok (z, rest).
Proof.
  intros Hw Hz. destruct w as [|w']; [lia|].
  destruct (le_enc_cons w' z) as (b & r & E).
  unfold rd_u. rewrite E. cbn [app].
  change (b :: r ++ rest) with ((b :: r) ++ rest). rewrite <- E.
  assert (L : length (le_enc (S w') z ++ rest) = (S w' + length rest)%nat)
    by (rewrite app_length, le_enc_length; reflexivity).
  destruct (Nat.ltb (length (le_enc (S w') z ++ rest)) (S w')) eqn:Hlt.
  - apply Nat.ltb_lt in Hlt. lia.
  - rewrite <- (le_enc_length (S w') z) at 1 3.
    rewrite firstn_app_exact, skipn_app_exact, le_dec_enc_id by assumption. reflexivity.
Qed.

Lemma rd_string_enc (name rest : bytes) :
  Z.of_nat (length name) < 65536 ->
  rd_string (le_enc 2 (Z.of_nat (length name)) ++ name ++ rest) = Ok (name, rest).
Proof.
  intros Hn. unfold rd_string.
  rewrite rd_u_enc by (try lia; unfold pow256; cbn; lia). cbn [bind].
  destruct (Z.of_nat (length name) =? 0) eqn:E0.
  - destruct name; [reflexivity | cbn [length] in E0; lia].
  - destruct name as [|c name']; [cbn in E0; lia|].
    cbn [app]. rewrite Nat2Z.id.
    change (c :: name' ++ rest) with ((c :: name') ++ rest).
    rewrite firstn_app_exact, skipn_app_exact. reflexivity.
Qed.

(* ================================================================ the wire layout of one entry *)
Record wentry := mkW {
  we_inst : Z; we_name : bytes; we_stype : Z; we_a3 : Z; we_a5 : Z; we_a6 : Z;
  we_d1 : Z; we_d2 : Z; we_d3 : Z; we_access : Z
}.

Definition enc_wentry (wa : bool) (e : wentry) : bytes :=
  le_enc 4 (we_inst e) ++ le_enc 2 (Z.of_nat (length (we_name e))) ++ we_name e
  ++ le_enc 2 (we_stype e) ++ le_enc 4 (we_a3 e) ++ le_enc 4 (we_a5 e) ++ le_enc 4 (we_a6 e)
  ++ le_enc 4 (we_d1 e) ++ le_enc 4 (we_d2 e) ++ le_enc 4 (we_d3 e)
  ++ (if wa then [we_access e] else []).

Definition u32 (z : Z) : Prop := 0 <= z < 4294967296.
Definition wentry_ok (e : wentry) : Prop :=
  u32 (we_inst e) /\ Z.of_nat (length (we_name e)) < 65536 /\ 0 <= we_stype e < 65536
  /\ u32 (we_a3 e) /\ u32 (we_a5 e) /\ u32 (we_a6 e) /\ u32 (we_d1 e) /\ u32 (we_d2 e) /\ u32 (we_d3 e)
  /\ 0 <= we_access e < 256.

Definition raw_of_wentry (wa : bool) (e : wentry) : raw_tag :=
  mkRaw (we_inst e) (we_name e) (we_stype e) (we_a3 e) (we_a5 e) (we_a6 e)
        (external_access_name (if wa then Some (we_access e) else None))
        [we_d1 e; we_d2 e; we_d3 e].

Lemma pow256_4 : pow256 4 = 4294967296. Proof. reflexivity. Qed.
Lemma pow256_2 : pow256 2 = 65536. Proof. reflexivity. Qed.
Lemma pow256_1 : pow256 1 = 256. Proof. reflexivity. Qed.

Lemma le_enc_1 z : 0 <= z < 256 -> le_enc 1 z = [z].
Proof. intros H. cbn [le_enc]. rewrite Z.mod_small by lia. reflexivity. Qed.

Lemma parse_entry_enc wa e rest :
  wentry_ok e -> parse_entry wa (enc_wentry wa e ++ rest) = Ok (raw_of_wentry wa e, rest).
Proof.
  intros (Hi & Hn & Hs & H3 & H5 & H6 & H1 & H2 & Hd3 & Ha).
  unfold u32 in *. unfold parse_entry, enc_wentry.
  repeat rewrite <- app_assoc.
  rewrite rd_u_enc by (try lia; rewrite pow256_4; lia). cbn [bind].
  rewrite rd_string_enc by assumption. cbn [bind].
  rewrite rd_u_enc by (try lia; rewrite pow256_2; lia). cbn [bind].
  do 6 (rewrite rd_u_enc by (try lia; rewrite pow256_4; lia); cbn [bind]).
  destruct wa.
  - rewrite <- (le_enc_1 (we_access e)) by lia.
    rewrite rd_u_enc by (try lia; rewrite pow256_1; lia). cbn [bind].
    reflexivity.
  - reflexivity.
Qed.

Lemma enc_wentry_nonempty wa e : exists b r, enc_wentry wa e = b :: r.
Proof. unfold enc_wentry. destruct (le_enc_cons 3 (we_inst e)) as (b & r & E). rewrite E. cbn [app]. eauto. Qed.

Lemma parse_entries_enc wa es :
  Forall wentry_ok es -> forall fuel, (length es <= fuel)%nat ->
  parse_entries fuel wa (flat_map (enc_wentry wa) es) = Ok (map (raw_of_wentry wa) es).
Proof.
  induction 1 as [|e es He Hes IH]; intros fuel Hf.
  - destruct fuel; reflexivity.
  - cbn [flat_map map].
    destruct (enc_wentry_nonempty wa e) as (b & r & E).
    destruct fuel as [|f]; [cbn in Hf; lia|].
    cbn [parse_entries]. rewrite E. cbn [app]. rewrite app_comm_cons, <- E.
    rewrite parse_entry_enc by assumption. cbn [bind].
    rewrite IH by (cbn in Hf; lia). reflexivity.
Qed.

Lemma flat_map_enc_length wa es : (length es <= length (flat_map (enc_wentry wa) es))%nat.
Proof.
  induction es as [|e es IH]; [cbn; lia|].
  cbn [flat_map]. rewrite app_length.
  destruct (enc_wentry_nonempty wa e) as (b & r & E). rewrite E. cbn [length]. lia.
Qed.

(* ================================================================ the bound of the entry loop *)
Lemma rd_u_shrinks w s z s' : rd_u w s = Ok (z, s') -> (0 < w)%nat -> (length s' < length s)%nat.
Proof.
  unfold rd_u. destruct s as [|b r]; [discriminate|].
  destruct (Nat.ltb (length (b :: r)) w) eqn:E; [discriminate|].
  intros H Hw. injection H as _ <-. apply Nat.ltb_ge in E.
  rewrite skipn_length. lia.
Qed.
Lemma rd_u_le w s z s' : rd_u w s = Ok (z, s') -> (length s' <= length s)%nat.
Proof.
  unfold rd_u. destruct s as [|b r]; [discriminate|].
  destruct (Nat.ltb (length (b :: r)) w); [discriminate|].
  intros H. injection H as _ <-. rewrite skipn_length. lia.
Qed.
Lemma rd_string_le s n s' : rd_string s = Ok (n, s') -> (length s' <= length s)%nat.
Proof.
  unfold rd_string. destruct (rd_u 2 s) as [[z s1]|] eqn:E; [|discriminate]. cbn [bind].
  apply rd_u_le in E.
  destruct (z =? 0).
  - intros H. injection H as _ <-. exact E.
  - destruct s1 as [|c r]; [discriminate|]. intros H. injection H as _ <-.
    rewrite skipn_length. lia.
Qed.

Lemma parse_entry_shrinks wa s t s' : parse_entry wa s = Ok (t, s') -> (length s' < length s)%nat.
Proof.
  unfold parse_entry.
  destruct (rd_u 4 s) as [[i s0]|] eqn:E0; [|discriminate]. cbn [bind].
  apply rd_u_shrinks in E0; [|lia].
  destruct (rd_string s0) as [[n s1]|] eqn:E1; [|discriminate]. cbn [bind]. apply rd_string_le in E1.
  destruct (rd_u 2 s1) as [[a s2]|] eqn:E2; [|discriminate]. cbn [bind]. apply rd_u_le in E2.
  destruct (rd_u 4 s2) as [[a3 s3]|] eqn:E3; [|discriminate]. cbn [bind]. apply rd_u_le in E3.
  destruct (rd_u 4 s3) as [[a4 s4]|] eqn:E4; [|discriminate]. cbn [bind]. apply rd_u_le in E4.
  destruct (rd_u 4 s4) as [[a5 s5]|] eqn:E5; [|discriminate]. cbn [bind]. apply rd_u_le in E5.
  destruct (rd_u 4 s5) as [[a6 s6]|] eqn:E6; [|discriminate]. cbn [bind]. apply rd_u_le in E6.
  destruct (rd_u 4 s6) as [[a7 s7]|] eqn:E7; [|discriminate]. cbn [bind]. apply rd_u_le in E7.
  destruct (rd_u 4 s7) as [[a8 s8]|] eqn:E8; [|discriminate]. cbn [bind]. apply rd_u_le in E8.
  destruct wa.
  - destruct (rd_u 1 s8) as [[a9 s9]|] eqn:E9; [|discriminate]. cbn [bind]. apply rd_u_le in E9.
    intros H. injection H as _ <-. lia.
  - cbn [bind]. intros H. injection H as _ <-. lia.
Qed.

(* more fuel than bytes never changes the result: the O branch of [parse_entries] is dead code
   under [parse_instance_attribute_list], which passes [length data] *)
Theorem parse_entries_fuel wa : forall f1 f2 s,
  (length s <= f1)%nat -> (length s <= f2)%nat -> parse_entries f1 wa s = parse_entries f2 wa s.
Proof.
  induction f1 as [|f1 IH]; intros f2 s H1 H2.
  - destruct s; [|cbn in H1; lia]. destruct f2; reflexivity.
  - destruct s as [|b r]; [destruct f2; reflexivity|].
    destruct f2 as [|f2]; [cbn in H2; lia|].
    cbn [parse_entries].
    destruct (parse_entry wa (b :: r)) as [[t s']|e] eqn:E; [|reflexivity]. cbn [bind].
    apply parse_entry_shrinks in E.
    rewrite (IH f2 s') by (cbn [length] in *; lia). reflexivity.
Qed.

Lemma parse_page_enc wa status es :
  Forall wentry_ok es ->
  parse_instance_attribute_list wa status (flat_map (enc_wentry wa) es)
  = Ok (map (raw_of_wentry wa) es,
        if status =? Consts.SUCCESS then -1
        else if status =? Consts.INSUFFICIENT_PACKETS then last_instance_of (map (raw_of_wentry wa) es) + 1
        else -1).
Proof.
  intros H. unfold parse_instance_attribute_list.
  rewrite parse_entries_enc by (auto using flat_map_enc_length). reflexivity.
Qed.

(* ================================================================ ascending instance ids *)
Definition ascending (l : list wentry) : Prop := StronglySorted (fun a b => we_inst a < we_inst b) l.

Definition from (s : Z) (l : list wentry) : list wentry := filter (fun e => s <=? we_inst e) l.

Lemma ascending_filter f l : ascending l -> ascending (filter f l).
Proof.
  induction 1 as [|a l Hl IH Ha]; cbn [filter]; [constructor|].
  destruct (f a); [|exact IH].
  constructor; [exact IH|].
  rewrite Forall_forall in *. intros x Hx. apply filter_In in Hx. apply Ha, Hx.
Qed.

Lemma from_from s s' l : s <= s' -> from s' (from s l) = from s' l.
Proof.
  intros H. unfold from. induction l as [|a l IH]; [reflexivity|].
  cbn [filter]. destruct (s <=? we_inst a) eqn:E1; destruct (s' <=? we_inst a) eqn:E2; cbn [filter];
    rewrite ?E2, ?IH; try reflexivity. lia.
Qed.

Lemma from_all s l : Forall (fun e => s <= we_inst e) l -> from s l = l.
Proof.
  induction 1 as [|a l Ha Hl IH]; [reflexivity|].
  unfold from in *. cbn [filter]. destruct (s <=? we_inst a) eqn:E; [|lia]. rewrite IH. reflexivity.
Qed.
Lemma from_none s l : Forall (fun e => we_inst e < s) l -> from s l = [].
Proof.
  induction 1 as [|a l Ha Hl IH]; [reflexivity|].
  unfold from in *. cbn [filter]. destruct (s <=? we_inst a) eqn:E; [lia|]. exact IH.
Qed.

Definition last_inst (l : list wentry) : Z := last (map we_inst l) 0.

(* after a page of k >= 1 symbols of an ascending list, the symbols from (last instance + 1) on
   are exactly the rest *)
Lemma from_after_page l : ascending l -> forall k, (1 <= k <= length l)%nat ->
  from (last_inst (firstn k l) + 1) l = skipn k l.
Proof.
  induction 1 as [|a l Hl IH Ha]; intros k Hk; [cbn in Hk; lia|].
  destruct k as [|k]; [lia|]. cbn [firstn skipn].
  destruct k as [|k].
  - cbn [firstn]. unfold last_inst. cbn [map last].
    unfold from. cbn [filter]. destruct (we_inst a + 1 <=? we_inst a) eqn:E; [lia|].
    apply from_all. eapply Forall_impl; [|exact Ha]. cbn. intros; lia.
  - assert (Hk' : (1 <= S k <= length l)%nat) by (cbn [length] in Hk; lia).
    specialize (IH (S k) Hk').
    assert (E : last_inst (a :: firstn (S k) l) = last_inst (firstn (S k) l)).
    { unfold last_inst. destruct l as [|b l']; [cbn in Hk'; lia|]. reflexivity. }
    rewrite E. unfold from in *. cbn [filter].
    destruct (last_inst (firstn (S k) l) + 1 <=? we_inst a) eqn:E1; [|exact IH].
    exfalso.
    assert (In (nth 0 (firstn (S k) l) a) l).
    { destruct l as [|b l']; [cbn in Hk'; lia|]. cbn. auto. }
    assert (Hlast : exists x, In x l /\ last_inst (firstn (S k) l) = we_inst x).
    { unfold last_inst. clear - Hk'. revert k Hk'. induction l as [|b l IHl]; intros k Hk'; [cbn in Hk'; lia|].
      destruct k as [|k].
      - exists b. cbn. auto.
      - cbn [firstn]. assert (Hk2 : (1 <= S k <= length l)%nat) by (cbn [length] in Hk'; lia).
        destruct (IHl k Hk2) as (x & Hx & Ex). exists x. split; [right; exact Hx|].
        destruct l as [|c l']; [cbn in Hk2; lia|]. cbn [firstn map last] in *. exact Ex. }
    destruct Hlast as (x & Hx & Ex). rewrite Forall_forall in Ha. specialize (Ha x Hx). lia.
Qed.

Lemma last_instance_of_map wa l : last_instance_of (map (raw_of_wentry wa) l) = last_inst l.
Proof. unfold last_instance_of, last_inst. rewrite map_map. reflexivity. Qed.

Lemma in_firstn {A} k (l : list A) x : In x (firstn k l) -> In x l.
Proof. intros H. rewrite <- (firstn_skipn k l). apply in_or_app. left. exact H. Qed.

(* ================================================================ pagination independence *)
Section Pager.
  Variable St : Type.
  Variable call : St -> ureq -> St * option urep.
  Variable rev_major : Z.
  Variable Inv : St -> Prop.
  Variable prog : option text.
  Variable all : list wentry.          (* the symbols of the scope as the peer holds them *)

  Let wa := with_access rev_major.

  (* the peer: any non-empty prefix of what remains, status 6 while something remains *)
  Definition paging_peer : Prop :=
    forall st start rq, Inv st -> 0 <= start -> symbols_request wa prog start = Ok rq ->
    exists k st',
      call st rq = (st', Some (mkRep true
                                     (if Nat.ltb k (length (from start all)) then Consts.INSUFFICIENT_PACKETS else Consts.SUCCESS)
                                     (flat_map (enc_wentry wa) (firstn k (from start all))) false))
      /\ Inv st' /\ (k <= length (from start all))%nat /\ (from start all <> [] -> (1 <= k)%nat).

  Hypothesis peer : paging_peer.
  Hypothesis all_ok : Forall wentry_ok all.
  Hypothesis all_asc : ascending all.
  (* every start instance the pager can reach is encodable in a request path *)
  Hypothesis req_ok : forall start, 0 <= start < 4294967296 -> exists rq, symbols_request wa prog start = Ok rq.

  Lemma from_ok s : Forall wentry_ok (from s all).
  Proof. rewrite Forall_forall in *. intros x Hx. apply filter_In in Hx. apply all_ok, Hx. Qed.

  Lemma pager_from : forall fuel st start acc,
    Inv st -> 0 <= start < 4294967296 -> (length (from start all) < fuel)%nat ->
    exists st', get_instance_attribute_list St call rev_major fuel st prog start acc
                = (st', Done (acc ++ map (raw_of_wentry wa) (from start all))) /\ Inv st'.
  Proof.
    induction fuel as [|fuel IH]; intros st start acc Hinv Hs Hf; [lia|].
    cbn [get_instance_attribute_list].
    destruct (start =? -1) eqn:E1; [lia|].
    destruct (req_ok start Hs) as (rq & Erq). fold wa. rewrite Erq.
    destruct (peer st start rq Hinv (proj1 Hs) Erq) as (k & st' & Ecall & Hinv' & Hk & Hk1).
    rewrite Ecall. cbn [p_valid negb p_status p_data].
    set (l := from start all) in *.
    assert (Hfk : Forall wentry_ok (firstn k l)).
    { pose proof (from_ok start) as H. fold l in H. rewrite Forall_forall in *. intros x Hx.
      apply H. eapply in_firstn. exact Hx. }
    rewrite parse_page_enc by exact Hfk.
    destruct (Nat.ltb k (length l)) eqn:Elt.
    - (* more remain: continue from last instance + 1 *)
      apply Nat.ltb_lt in Elt.
      change (Consts.INSUFFICIENT_PACKETS =? Consts.SUCCESS) with false.
      change (Consts.INSUFFICIENT_PACKETS =? Consts.INSUFFICIENT_PACKETS) with true. cbv iota.
      rewrite last_instance_of_map.
      assert (Hne : l <> []) by (destruct l; [cbn in Elt; lia | discriminate]).
      specialize (Hk1 Hne).
      assert (Hasc : ascending l) by (apply ascending_filter; exact all_asc).
      pose proof (from_after_page l Hasc k ltac:(lia)) as Hrest.
      (* the continuation instance is the instance of a remaining symbol at most *)
      assert (Hx : exists x, In x l /\ last_inst (firstn k l) = we_inst x /\ exists y, In y l /\ we_inst x < we_inst y).
      { clear - Hasc Hk1 Elt. revert k Hk1 Elt. induction Hasc as [|a l' Hl' IHl Ha]; intros k Hk1 Elt; [cbn in Elt; lia|].
        destruct k as [|k]; [lia|]. destruct k as [|k].
        - exists a. split; [left; reflexivity|]. split; [reflexivity|].
          destruct l' as [|b l'']; [cbn in Elt; lia|]. exists b. split; [right; left; reflexivity|].
          rewrite Forall_forall in Ha. apply Ha. left; reflexivity.
        - destruct (IHl (S k) ltac:(lia) ltac:(cbn [length] in Elt; lia)) as (x & Hx & Ex & y & Hy & Hxy).
          exists x. split; [right; exact Hx|]. split.
          + unfold last_inst in *. destruct l' as [|b l'']; [cbn in Elt; lia|]. cbn [firstn map last] in *. exact Ex.
          + exists y. split; [right; exact Hy | exact Hxy]. }
      destruct Hx as (x & Hx & Ex & y & Hy & Hxy).
      pose proof (from_ok start) as Hok. fold l in Hok. rewrite Forall_forall in Hok.
      pose proof (Hok x Hx) as (Hxi & _). pose proof (Hok y Hy) as (Hyi & _). unfold u32 in *.
      assert (Hx0 : start <= we_inst x) by (apply filter_In in Hx; lia).
      destruct (IH st' (last_inst (firstn k l) + 1) (acc ++ map (raw_of_wentry wa) (firstn k l)) Hinv' ltac:(lia)) as (st'' & Eq & Hinv'').
      { rewrite <- (from_from start) by lia. fold l. rewrite Hrest, skipn_length. lia. }
      exists st''. split; [|exact Hinv''].
      rewrite Eq. rewrite <- (from_from start) by lia. fold l. rewrite Hrest.
      rewrite <- app_assoc, <- map_app, firstn_skipn. reflexivity.
    - (* the last page *)
      apply Nat.ltb_ge in Elt.
      change (Consts.SUCCESS =? Consts.SUCCESS) with true. cbv iota.
      assert (Ek : firstn k l = l) by (apply firstn_all2; lia).
      rewrite Ek.
      exists st'. split; [|exact Hinv'].
      destruct fuel; reflexivity.
  Qed.

  (* every symbol exactly once, in the peer's order, whatever the pagination points *)
  Theorem pagination_independent : forall fuel st,
    Inv st -> Forall (fun e => 0 <= we_inst e) all -> (length all < fuel)%nat ->
    exists st', get_instance_attribute_list St call rev_major fuel st prog 0 []
                = (st', Done (map (raw_of_wentry wa) all)) /\ Inv st'.
  Proof.
    intros fuel st Hinv Hpos Hf.
    destruct (pager_from fuel st 0 [] Hinv ltac:(lia)) as (st' & E & Hinv').
    { rewrite from_all by exact Hpos. exact Hf. }
    exists st'. rewrite E, from_all by exact Hpos. auto.
  Qed.
End Pager.
