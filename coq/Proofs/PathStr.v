(* Proofs/PathStr.v — string lemmas used by the C09 proofs: split/join, _find_tag_index on a
   rendered level, int() on decimal strings, UTF-8 of ASCII text, association lists. *)
From Coq Require Import String.
From PV Require Import Base.Bytes Base.BytesLemmas Base.Proto Base.Res Base.PyStr Gen.PathTables Model.Path.
From Coq Require Import ZifyBool.
Open Scope Z_scope.
Ltac Zify.zify_post_hook ::= Z.to_euclidean_division_equations.

(* ---------------------------------------------------------------- generic list facts *)
Lemma forallb_rev {A} (P : A -> bool) l : forallb P (rev l) = forallb P l.
Proof.
  induction l as [|a l IH]; cbn [rev forallb]; [reflexivity|].
  rewrite forallb_app, IH. cbn [forallb]. rewrite andb_true_r. apply andb_comm.
Qed.

Lemma len_app a b : len (a ++ b) = len a + len b.
Proof. unfold len. rewrite app_length. lia. Qed.

Lemma len_cons a b : len (a :: b) = 1 + len b.
Proof. unfold len. cbn [length]. lia. Qed.

Lemma len_nonneg a : 0 <= len a.
Proof. unfold len. lia. Qed.

Lemma text_eqb_eq a b : text_eqb a b = true -> a = b.
Proof.
  revert b; induction a as [|x a IH]; intros [|y b] H; cbn [text_eqb] in H; try discriminate; [reflexivity|].
  apply andb_true_iff in H as [Hx Hr]. f_equal; [lia|auto].
Qed.

Lemma text_eqb_refl a : text_eqb a a = true.
Proof. induction a as [|x a IH]; cbn [text_eqb]; [reflexivity|]. rewrite IH. lia. Qed.

(* a key found in an association list is one of its keys, with that value *)
Lemma assoc_text_in k t v : assoc_text k t = Some v -> In (k, v) t.
Proof.
  induction t as [|[k' v'] t IH]; cbn [assoc_text]; [discriminate|].
  destruct (text_eqb k' k) eqn:E.
  - intros H. injection H as ->. apply text_eqb_eq in E. subst. now left.
  - intros H. right. auto.
Qed.

(* ---------------------------------------------------------------- split / join *)
Definition nosep (sep : Z) (s : text) : bool := forallb (fun c => negb (c =? sep)) s.

Lemma split_aux_nosep sep p rest cur :
  nosep sep p = true -> split_chr_aux sep (p ++ rest) cur = split_chr_aux sep rest (rev p ++ cur).
Proof.
  revert cur; induction p as [|c p IH]; intros cur H; [reflexivity|].
  cbn [nosep forallb] in H. apply andb_true_iff in H as [Hc Hp].
  cbn [app split_chr_aux]. destruct (c =? sep) eqn:E; [lia|].
  rewrite IH by exact Hp. cbn [rev]. now rewrite <- app_assoc.
Qed.

Lemma split_aux_join sep parts : forall p cur,
  nosep sep p = true -> forallb (nosep sep) parts = true ->
  split_chr_aux sep (join [sep] (p :: parts)) cur = (rev cur ++ p) :: parts.
Proof.
  induction parts as [|q qs IH]; intros p cur Hp Hq.
  - cbn [join]. rewrite <- (app_nil_r p) at 1. rewrite split_aux_nosep by exact Hp.
    cbn [split_chr_aux]. now rewrite rev_app_distr, rev_involutive.
  - cbn [forallb] in Hq. apply andb_true_iff in Hq as [Hq Hqs].
    change (join [sep] (p :: q :: qs)) with (p ++ [sep] ++ join [sep] (q :: qs)).
    rewrite split_aux_nosep by exact Hp. cbn [app split_chr_aux]. rewrite Z.eqb_refl.
    rewrite IH by assumption. now rewrite rev_app_distr, rev_involutive.
Qed.

Lemma split_join sep p parts :
  nosep sep p = true -> forallb (nosep sep) parts = true ->
  split_chr sep (join [sep] (p :: parts)) = p :: parts.
Proof. intros Hp Hq. unfold split_chr. now rewrite split_aux_join. Qed.

Lemma split_aux_nonempty sep s cur : split_chr_aux sep s cur <> [].
Proof.
  revert cur; induction s as [|c s IH]; intros cur; cbn [split_chr_aux]; [discriminate|].
  destruct (c =? sep); [discriminate|apply IH].
Qed.

Lemma join_split_aux sep s : forall cur, join [sep] (split_chr_aux sep s cur) = rev cur ++ s.
Proof.
  induction s as [|c s IH]; intros cur; cbn [split_chr_aux].
  - cbn [join]. now rewrite app_nil_r.
  - destruct (c =? sep) eqn:E.
    + specialize (IH []). destruct (split_chr_aux sep s []) as [|x l] eqn:Es.
      { exfalso. exact (split_aux_nonempty _ _ _ Es). }
      change (join [sep] (rev cur :: x :: l)) with (rev cur ++ [sep] ++ join [sep] (x :: l)).
      rewrite IH. cbn [rev app]. assert (c = sep) by lia. now subst.
    + rewrite IH. cbn [rev]. now rewrite <- app_assoc.
Qed.

Lemma join_split sep s : join [sep] (split_chr sep s) = s.
Proof. unfold split_chr. now rewrite join_split_aux. Qed.

(* ---------------------------------------------------------------- find, starts_with *)
Lemma find_from_nosep c name rest i :
  nosep c name = true -> find_from [c] (name ++ c :: rest) i = Some (i + length name)%nat.
Proof.
  revert i; induction name as [|x name IH]; intros i H.
  - cbn [app find_from starts_with]. rewrite Z.eqb_refl. cbn. f_equal. lia.
  - cbn [nosep forallb] in H. apply andb_true_iff in H as [Hx Hn].
    cbn [app find_from starts_with].
    destruct (c =? x) eqn:E; [lia|]. cbn [andb].
    rewrite IH by exact Hn. f_equal. cbn [length]. lia.
Qed.

Lemma starts_with_app p s : starts_with p s = true -> exists r, s = p ++ r.
Proof.
  revert s; induction p as [|x p IH]; intros s H.
  - now exists s.
  - destruct s as [|y s]; cbn [starts_with] in H; [discriminate|].
    apply andb_true_iff in H as [Hx Hr]. destruct (IH _ Hr) as [r ->].
    exists r. cbn [app]. f_equal. lia.
Qed.

Lemma contains_chr_nosep c s : nosep c s = true -> contains_chr c s = false.
Proof.
  unfold contains_chr. induction s as [|x s IH]; cbn [nosep forallb existsb]; [reflexivity|].
  intros H. apply andb_true_iff in H as [Hx Hs]. rewrite (IH Hs).
  destruct (c =? x) eqn:E; [lia|reflexivity].
Qed.

Lemma contains_chr_app_cons c a b : contains_chr c (a ++ c :: b) = true.
Proof.
  unfold contains_chr. rewrite existsb_app. cbn [existsb]. rewrite Z.eqb_refl.
  now rewrite orb_true_r.
Qed.

Lemma removelast_snoc {A} (l : list A) x : removelast (l ++ [x]) = l.
Proof. rewrite removelast_app by discriminate. cbn. apply app_nil_r. Qed.

(* ---------------------------------------------------------------- decimal strings *)
Definition all_digits (s : text) : bool := forallb is_ascii_digit s.

Lemma isdigit_all s : isdigit s = true -> all_digits s = true /\ s <> [].
Proof. destruct s; cbn [isdigit]; [discriminate|]. intros H. split; [exact H|discriminate]. Qed.

Lemma digits_val_total s : forall acc, all_digits s = true -> exists v, digits_val s acc = Some v.
Proof.
  induction s as [|c s IH]; intros acc H; cbn [digits_val]; [now exists acc|].
  cbn [all_digits forallb] in H. apply andb_true_iff in H as [Hc Hs]. rewrite Hc. now apply IH.
Qed.

Lemma digits_val_nonneg s : forall acc v, 0 <= acc -> digits_val s acc = Some v -> 0 <= v.
Proof.
  induction s as [|c s IH]; intros acc v Ha; cbn [digits_val].
  - intros H. injection H as <-. exact Ha.
  - destruct (is_ascii_digit c) eqn:E; [|discriminate]. unfold is_ascii_digit in E.
    apply IH. lia.
Qed.

Lemma digits_us_digits s : forall acc b, all_digits s = true -> (s <> [] \/ b = true) ->
  digits_us s acc b = digits_val s acc.
Proof.
  induction s as [|c s IH]; intros acc b H Hne; cbn [digits_us digits_val].
  - destruct Hne as [Hne| ->]; [congruence|reflexivity].
  - cbn [all_digits forallb] in H. apply andb_true_iff in H as [Hc Hs]. rewrite Hc.
    apply IH; [exact Hs|now right].
Qed.

Lemma digit_not_ws c : is_ascii_digit c = true -> is_ws c = false.
Proof. unfold is_ascii_digit, is_ws. lia. Qed.

Lemma lstrip_digits s : all_digits s = true -> lstrip s = s.
Proof.
  destruct s as [|c s]; [reflexivity|]. cbn [all_digits forallb lstrip]. intros H.
  apply andb_true_iff in H as [Hc _]. now rewrite (digit_not_ws _ Hc).
Qed.

Lemma strip_digits s : all_digits s = true -> strip s = s.
Proof.
  intros H. unfold strip. rewrite (lstrip_digits s H).
  rewrite lstrip_digits; [apply rev_involutive|]. unfold all_digits. now rewrite forallb_rev.
Qed.

Lemma filter_all {A} (P : A -> bool) l : forallb P l = true -> filter P l = l.
Proof.
  induction l as [|a l IH]; cbn [forallb filter]; [reflexivity|].
  intros H. apply andb_true_iff in H as [Ha Hl]. rewrite Ha. f_equal. auto.
Qed.

(* int() of a decimal string of at most 4300 digits is its value *)
Lemma py_int_full_digits s v :
  isdigit s = true -> len s <= int_max_str_digits -> digits_val s 0 = Some v -> py_int_full s = Ok v.
Proof.
  intros Hd Hl Hv. destruct (isdigit_all s Hd) as [Ha Hne].
  unfold py_int_full. rewrite (strip_digits s Ha).
  destruct s as [|c r]; [congruence|].
  pose proof Ha as Ha'. cbn [all_digits forallb] in Ha'. apply andb_true_iff in Ha' as [Hc _].
  unfold is_ascii_digit in Hc.
  destruct (c =? 45) eqn:E1; [lia|]. destruct (c =? 43) eqn:E2; [lia|].
  unfold py_int_unsigned, count_digits. rewrite (filter_all _ _ Ha).
  destruct (len (c :: r) <=? int_max_str_digits) eqn:E3; [|lia].
  rewrite digits_us_digits by (auto; left; discriminate). now rewrite Hv.
Qed.

(* ---------------------------------------------------------------- UTF-8 of ASCII text *)
Lemma utf8_encode_ascii s : ascii_ok s = true -> utf8_encode s = Ok s.
Proof.
  induction s as [|c s IH]; cbn [ascii_ok forallb utf8_encode]; [reflexivity|].
  intros H. apply andb_true_iff in H as [Hc Hs]. unfold utf8_char.
  destruct (c <? 0) eqn:E0; [lia|]. destruct (c <? 128) eqn:E1; [|lia].
  unfold ascii_ok in IH. rewrite (IH Hs). reflexivity.
Qed.

Lemma ascii_bytes_ok s : ascii_ok s = true -> bytes_ok s = true.
Proof.
  unfold ascii_ok, bytes_ok. induction s as [|c s IH]; cbn [forallb]; [reflexivity|].
  intros H. apply andb_true_iff in H as [Hc Hs]. rewrite (IH Hs). unfold byte_ok. lia.
Qed.

Lemma digits_ascii s : all_digits s = true -> ascii_ok s = true.
Proof.
  unfold all_digits, ascii_ok. induction s as [|c s IH]; cbn [forallb]; [reflexivity|].
  intros H. apply andb_true_iff in H as [Hc Hs]. rewrite (IH Hs). unfold is_ascii_digit in Hc. lia.
Qed.

Lemma ascii_ok_app a b : ascii_ok (a ++ b) = ascii_ok a && ascii_ok b.
Proof. unfold ascii_ok. apply forallb_app. Qed.

(* ---------------------------------------------------------------- dotted quads *)
Lemma octet_ok_facts o : octet_ok o = true -> all_digits o = true /\ (1 <= length o <= 3)%nat.
Proof.
  unfold octet_ok. intros H. apply andb_true_iff in H as [H _]. apply andb_true_iff in H as [H _].
  apply andb_true_iff in H as [H Hl].
  destruct (isdigit_all o H) as [Ha Hne]. split; [exact Ha|].
  destruct o; [congruence|]. cbn [length] in *. apply Nat.leb_le in Hl. lia.
Qed.

Lemma ip_v4_ok_shape s : ip_v4_ok s = true -> ascii_ok s = true /\ 7 <= len s <= 15.
Proof.
  unfold ip_v4_ok. intros H. pose proof (join_split 46 s) as J.
  destruct (split_chr 46 s) as [|a [|b [|c [|d [|e l]]]]]; try discriminate.
  apply andb_true_iff in H as [H Hd]. apply andb_true_iff in H as [H Hc].
  apply andb_true_iff in H as [Ha Hb].
  destruct (octet_ok_facts _ Ha) as [A1 A2]. destruct (octet_ok_facts _ Hb) as [B1 B2].
  destruct (octet_ok_facts _ Hc) as [C1 C2]. destruct (octet_ok_facts _ Hd) as [D1 D2].
  cbn [join] in J. subst s. split.
  - rewrite !ascii_ok_app. cbn [ascii_ok forallb].
    rewrite (digits_ascii _ A1), (digits_ascii _ B1), (digits_ascii _ C1), (digits_ascii _ D1). reflexivity.
  - unfold len. rewrite !app_length. cbn [length]. lia.
Qed.

Lemma Zodd_of_nat n : Z.odd (Z.of_nat n) = Nat.odd n.
Proof.
  induction n as [|n IH]; [reflexivity|].
  rewrite Nat2Z.inj_succ, Z.odd_succ, Nat.odd_succ, <- Z.negb_odd, <- Nat.negb_odd, IH. reflexivity.
Qed.
