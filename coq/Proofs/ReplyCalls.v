(* Proofs/ReplyCalls.v — the public calls (LogixDriver.read/write, CIPDriver.generic_message/open,
   the forward-open handshake) over ARBITRARY reply bytes: which exceptions can escape, what a
   truthy result implies about the status words, and what well-formed error replies produce. *)
From Coq Require Import String ZifyBool.
From PV Require Import Base.Bytes Base.BytesLemmas Base.Res Base.Proto Base.PyStr.
From PV Require Import Gen.Tables Gen.Types Gen.Status Gen.Consts Gen.ReplyTables.
From PV Require Import Model.EnumMapDefs Model.EnumMap Model.Reply Spec.ReplyReader.
From PV Require Import Proofs.EnumMapP Proofs.ReplyBase Proofs.ReplyValid Proofs.ReplyError Proofs.ReplyMulti.
Open Scope Z_scope.
Ltac Zify.zify_post_hook ::= Z.to_euclidean_division_equations.

(* ---------------------------------------------------------------- no foreign exception *)
Definition nf {A} (r : rm A) : Prop := match r with ROk _ => True | RErr e _ => is_foreign e = false end.

Lemma nf_library {A} (r : rm A) : nf r <-> rm_is_library r = true.
Proof. destruct r as [a|e m]; cbn; [tauto|]. unfold rm_is_library, is_library. cbn. destruct (is_foreign e); cbn; split; congruence. Qed.

Lemma lib_nf {A} (r : rm A) : rm_lib r -> nf r.
Proof. destruct r as [a|e m]; cbn; [auto|]. intros [->| ->]; reflexivity. Qed.

Lemma get_extended_status_nf msg st : nf (get_extended_status msg st).
Proof.
  unfold get_extended_status.
  pose proof (decode_elem_stream_lib USINT_t (skipn st msg) (skipn st msg)) as H1.
  destruct (decode_elem_stream USINT_t (skipn st msg) (skipn st msg)) as [[status s1]|e m]; [|now apply lib_nf].
  pose proof (decode_elem_stream_lib USINT_t (skipn st msg) s1) as H2.
  destruct (decode_elem_stream USINT_t (skipn st msg) s1) as [[sz s2]|e m]; [|now apply lib_nf].
  cbv zeta.
  destruct (sz * 2 =? 0); [exact I|].
  destruct (sz * 2 =? 1).
  { pose proof (decode_elem_stream_lib USINT_t (skipn st msg) s2) as H3.
    destruct (decode_elem_stream USINT_t (skipn st msg) s2) as [[e0 ?]|e m]; [exact I|now apply lib_nf]. }
  destruct (sz * 2 =? 2).
  { pose proof (decode_elem_stream_lib UINT_t (skipn st msg) s2) as H3.
    destruct (decode_elem_stream UINT_t (skipn st msg) s2) as [[e0 ?]|e m]; [exact I|now apply lib_nf]. }
  destruct (sz * 2 =? 4).
  { pose proof (decode_elem_stream_lib UDINT_t (skipn st msg) s2) as H3.
    destruct (decode_elem_stream UDINT_t (skipn st msg) s2) as [[e0 ?]|e m]; [exact I|now apply lib_nf]. }
  exact I.
Qed.

Lemma extended_status_nf k r c : nf (extended_status k r c).
Proof.
  unfold extended_status. destruct k; try exact I.
  - destruct (r_raw r) as [raw|]; [|reflexivity].
    pose proof (get_extended_status_nf raw 48) as H. destruct (get_extended_status raw 48); [exact I|exact H].
  - destruct (r_raw r) as [raw|]; [|reflexivity].
    pose proof (get_extended_status_nf raw 42) as H. destruct (get_extended_status raw 42); [exact I|exact H].
Qed.

Lemma error_nf k r : nf (error k r).
Proof.
  unfold error. destruct (is_valid k r); [exact I|]. destruct (r_error r); [exact I|].
  destruct (not_none_or_success (r_command_status r)) as [cs|].
  { pose proof (extended_status_nf k r cs) as H. destruct (extended_status k r cs); [exact I|exact H]. }
  destruct (not_none_or_success (r_service_status r)) as [ss|]; [|exact I].
  pose proof (extended_status_nf k r ss) as H. destruct (extended_status k r ss); [exact I|exact H].
Qed.

(* error is None exactly for valid responses *)
Lemma error_none_iff k r t : error k r = ROk t -> (t = None <-> is_valid k r = true).
Proof.
  unfold error. destruct (is_valid k r).
  - intros [= <-]. tauto.
  - intros H. split; [|discriminate]. intros ->.
    destruct (r_error r); [discriminate|].
    destruct (not_none_or_success (r_command_status r)).
    { destruct (extended_status k r z); discriminate. }
    destruct (not_none_or_success (r_service_status r)); [|discriminate].
    destruct (extended_status k r z); discriminate.
Qed.

Lemma tag_of_response_nf k r v : nf (tag_of_response k r v).
Proof.
  unfold tag_of_response. pose proof (error_nf k r) as H. destruct (error k r); [|exact H].
  destruct (is_valid k r); exact I.
Qed.

Lemma read_single_nf dec raw : nf (read_single dec raw).
Proof.
  unfold read_single. pose proof (tag_of_response_nf KUnit (g_r (parse_read_tag dec raw)) (g_value (parse_read_tag dec raw))) as H.
  destruct (tag_of_response _ _ _); [exact I|exact H].
Qed.
Lemma write_single_nf v raw : nf (write_single v raw).
Proof.
  unfold write_single. pose proof (tag_of_response_nf KUnit (parse_unit raw) (Some v)) as H.
  destruct (tag_of_response _ _ _); [exact I|exact H].
Qed.
Lemma generic_message_nf k dt raw : nf (generic_message k dt raw).
Proof.
  unfold generic_message. pose proof (error_nf k (g_r (parse_generic k dt raw))) as H.
  destruct (error _ _); [exact I|exact H].
Qed.
Lemma forward_open_nf raw : nf (forward_open raw).
Proof. unfold forward_open. pose proof (generic_message_nf KRR None raw) as H. destruct (generic_message _ _ _); [exact I|exact H]. Qed.
Lemma with_forward_open_nf f replies : nf (with_forward_open f replies).
Proof.
  unfold with_forward_open. destruct replies as [|r1 rest]; [reflexivity|].
  pose proof (forward_open_nf r1) as H1. destruct (forward_open r1) as [[|]|e m]; [exact I| |exact H1].
  destruct rest as [|r2 rest']; [reflexivity|].
  pose proof (forward_open_nf r2) as H2. destruct (forward_open r2) as [[|]|e m]; [exact I|reflexivity|exact H2].
Qed.

(* ---------------------------------------------------------------- fragmented read *)
Lemma parse_read_frag_r raw : f_r (parse_read_frag raw) = parse_unit raw.
Proof. unfold parse_read_frag. destruct (r_data (parse_unit raw)) as [b|]; [destruct (is_struct_reply b)|]; reflexivity. Qed.

Lemma read_frag_loop_nf dec replies : forall acc, nf (read_frag_loop dec replies acc).
Proof.
  induction replies as [|raw rest IH]; intros acc; cbn [read_frag_loop]; [reflexivity|]. cbv zeta.
  destruct (opt_is (r_service_status (f_r (parse_read_frag raw))) INSUFFICIENT_PACKETS); [apply IH|].
  pose proof (error_nf KUnit (f_r (parse_read_frag raw))) as He.
  destruct (error KUnit (f_r (parse_read_frag raw))); [|exact He].
  destruct (forallb _ _); exact I.
Qed.
Lemma read_fragmented_nf dec replies : nf (read_fragmented dec replies).
Proof.
  unfold read_fragmented. pose proof (read_frag_loop_nf dec replies []) as H.
  destruct (read_frag_loop dec replies []) as [[r v]|e m]; [|exact H].
  pose proof (tag_of_response_nf KUnit r v) as H2. destruct (tag_of_response KUnit r v); [exact I|exact H2].
Qed.

(* ---------------------------------------------------------------- fragmented write *)
Lemma write_frag_loop_spec n : forall replies acc rs, write_frag_loop n replies acc = ROk rs ->
  rs = acc ++ map parse_unit (firstn n replies) /\ (n <= length replies)%nat.
Proof.
  induction n as [|n IH]; intros replies acc rs H; cbn [write_frag_loop] in H.
  - injection H as <-. cbn. now rewrite app_nil_r; split; [|lia].
  - destruct replies as [|raw rest]; [discriminate|]. apply IH in H as [-> Hl].
    cbn [firstn map length]. rewrite <- app_assoc. split; [reflexivity|lia].
Qed.
Lemma write_frag_loop_nf n : forall replies acc, nf (write_frag_loop n replies acc).
Proof.
  induction n as [|n IH]; intros replies acc; cbn [write_frag_loop]; [exact I|].
  destruct replies; [reflexivity|apply IH].
Qed.
Lemma write_fragmented_nf v n replies : (0 < n)%nat -> nf (write_fragmented v n replies).
Proof.
  intros Hn. unfold write_fragmented. pose proof (write_frag_loop_nf n replies []) as H.
  destruct (write_frag_loop n replies []) as [rs|e m] eqn:E; [|exact H].
  apply write_frag_loop_spec in E as [-> Hl]. cbn [app].
  destruct (forallb (is_valid KUnit) (map parse_unit (firstn n replies))).
  - destruct (rev (map parse_unit (firstn n replies))) as [|last q] eqn:Er.
    + exfalso. assert (Hlen : length (rev (map parse_unit (firstn n replies))) = n) by (rewrite rev_length, map_length, firstn_length; lia).
      rewrite Er in Hlen. cbn in Hlen. lia.
    + pose proof (tag_of_response_nf KUnit last (Some v)) as H2. destruct (tag_of_response KUnit last (Some v)); [exact I|exact H2].
  - pose proof (tag_of_response_nf KUnit failed_fragments (Some v)) as H2. destruct (tag_of_response KUnit failed_fragments (Some v)); [exact I|exact H2].
Qed.

(* ---------------------------------------------------------------- multi-service *)
Lemma multi_tags_nf rs : nf (multi_tags rs).
Proof.
  induction rs as [|s rest IH]; [exact I|]. cbn [multi_tags].
  destruct (is_valid KUnit (s_r s)).
  - destruct (multi_tags rest); [exact I|exact IH].
  - pose proof (error_nf KUnit (s_r s)) as He. destruct (error KUnit (s_r s)); [|exact He].
    destruct (multi_tags rest); [exact I|exact IH].
Qed.
Lemma rest_error_nf r : nf (rest_error r).
Proof. unfold rest_error. pose proof (error_nf KUnit r) as H. destruct (error KUnit r) as [[[|c t]|]|e m]; try exact I. exact H. Qed.

Lemma rw_multi_nf reqs raw : nf (rw_multi reqs raw).
Proof.
  unfold rw_multi. destruct (parse_multi reqs raw) as [r subs].
  pose proof (multi_tags_nf subs) as H. destruct (multi_tags subs) as [ts|e m]; [|exact H].
  destruct (skipn (length subs) reqs); [exact I|].
  pose proof (rest_error_nf r) as H2. destruct (rest_error r); [exact I|exact H2].
Qed.

(* ---------------------------------------------------------------- all calls *)
Lemma with_forward_open_rest f replies rest : with_forward_open f replies = ROk rest ->
  exists used, replies = used ++ rest.
Proof.
  unfold with_forward_open. destruct replies as [|r1 q]; [discriminate|].
  destruct (forward_open r1) as [[|]|]; try discriminate.
  - intros [= <-]. now exists [r1].
  - destruct q as [|r2 q']; [discriminate|]. destruct (forward_open r2) as [[|]|]; try discriminate.
    intros [= <-]. now exists [r1; r2].
Qed.

Lemma one_reply_nf replies f : (forall raw, nf (f raw)) -> nf (one_reply replies f).
Proof.
  intros H. unfold one_reply. destruct replies as [|raw q]; [reflexivity|].
  specialize (H raw). destruct (f raw); [exact I|exact H].
Qed.

(* no foreign exception escapes any call, whatever the reply bytes *)
Theorem calls_library_only c : forall replies, nf (run_call c replies).
Proof.
  induction c as [dec|dec|v|v n|reqs|k dt| |f c IH]; intros replies; cbn [run_call].
  - apply one_reply_nf, read_single_nf.
  - pose proof (read_fragmented_nf dec replies) as H. unfold tag_out. destruct (read_fragmented dec replies); [exact I|exact H].
  - apply one_reply_nf, write_single_nf.
  - pose proof (write_fragmented_nf v (S n) replies (Nat.lt_0_succ n)) as H. unfold tag_out. destruct (write_fragmented v (S n) replies); [exact I|exact H].
  - destruct replies as [|raw q]; [reflexivity|].
    pose proof (rw_multi_nf reqs raw) as H. unfold tags_out. destruct (rw_multi reqs raw); [exact I|exact H].
  - apply one_reply_nf. intros raw. apply generic_message_nf.
  - unfold open_call. destruct replies; [reflexivity|exact I].
  - pose proof (with_forward_open_nf f replies) as H.
    destruct (with_forward_open f replies) as [rest|e m]; [apply IH|exact H].
Qed.

(* ================================================================ truthy results are backed by status words *)
Lemma tag_of_response_truthy k r v t : tag_of_response k r v = ROk t -> tag_truthy t = true -> is_valid k r = true.
Proof.
  unfold tag_of_response. destruct (error k r) as [err|]; [|discriminate].
  destruct (is_valid k r); [reflexivity|]. intros [= <-]. discriminate.
Qed.
Lemma tag_of_response_shape k r v t : tag_of_response k r v = ROk t ->
  exists err, error k r = ROk err /\ t = (if is_valid k r then {| t_value := v; t_error := err |} else {| t_value := None; t_error := err |}).
Proof.
  unfold tag_of_response. destruct (error k r) as [err|]; [|discriminate]. intros H. exists err. split; [reflexivity|].
  destruct (is_valid k r); now injection H.
Qed.
Lemma read_post_truthy t : tag_truthy (read_post t) = tag_truthy t.
Proof. unfold read_post. destruct (tag_truthy t) eqn:E; [exact E|reflexivity]. Qed.

Theorem read_truthy dec raw t : bytes_ok raw = true ->
  read_single dec raw = ROk t -> tag_truthy t = true -> spec_success true unit_layout raw = true.
Proof.
  intros Hok H Ht. unfold read_single in H.
  destruct (tag_of_response KUnit (g_r (parse_read_tag dec raw)) (g_value (parse_read_tag dec raw))) as [t0|] eqn:E; [|discriminate].
  injection H as <-. rewrite read_post_truthy in Ht.
  rewrite <- (unit_valid_iff raw Hok). apply (read_tag_valid dec). eapply tag_of_response_truthy; eauto.
Qed.

Theorem write_truthy_iff v raw t : bytes_ok raw = true ->
  write_single v raw = ROk t -> tag_truthy t = spec_success true unit_layout raw.
Proof.
  intros Hok H. unfold write_single in H.
  destruct (tag_of_response KUnit (parse_unit raw) (Some v)) as [t0|] eqn:E; [|discriminate]. injection H as <-.
  apply tag_of_response_shape in E as (err & He & ->). rewrite <- (unit_valid_iff raw Hok).
  pose proof (error_none_iff _ _ _ He) as Hi. unfold write_post, tag_truthy. cbn [t_value is_some andb].
  destruct (is_valid KUnit (parse_unit raw)); cbn [t_error].
  - destruct Hi as [_ Hi]. now rewrite (Hi eq_refl).
  - destruct err; [reflexivity|]. destruct Hi as [Hi _]. discriminate (Hi eq_refl).
Qed.

Lemma parse_generic_valid k dt raw : k = KUnit \/ k = KRR ->
  is_valid k (g_r (parse_generic k dt raw)) = true -> g_r (parse_generic k dt raw) = parse_k k raw /\ is_valid k (parse_k k raw) = true.
Proof.
  intros Hk. unfold parse_generic.
  assert (Hr : (match k with KRR => parse_rr raw | _ => parse_unit raw end) = parse_k k raw) by (destruct Hk as [->| ->]; reflexivity).
  rewrite Hr. destruct dt as [d|]; cbn [g_r]; [|auto].
  destruct (is_valid k (parse_k k raw)) eqn:Ev; cbn [g_r]; [|congruence].
  destruct (r_data (parse_k k raw)) as [data|]; cbn [g_r]; [|now rewrite set_error_invalid].
  destruct (d data); cbn [g_r]; [auto|now rewrite set_error_invalid].
Qed.

Definition layout_k (k : rkind) : layout := match k with KRR => rr_layout | _ => unit_layout end.
Lemma valid_k_iff k raw : k = KUnit \/ k = KRR -> bytes_ok raw = true ->
  is_valid k (parse_k k raw) = spec_success (partial_k k) (layout_k k) raw.
Proof. intros [->| ->] Hok; [apply unit_valid_iff|apply rr_valid_iff]; exact Hok. Qed.

Theorem generic_truthy k dt raw t : k = KUnit \/ k = KRR -> bytes_ok raw = true ->
  generic_message k dt raw = ROk t -> tag_truthy t = true -> spec_success (partial_k k) (layout_k k) raw = true.
Proof.
  intros Hk Hok H Ht. unfold generic_message in H.
  destruct (error k (g_r (parse_generic k dt raw))) as [err|] eqn:E; [|discriminate]. injection H as <-.
  unfold tag_truthy in Ht. cbn [t_value t_error] in Ht. apply andb_true_iff in Ht as [_ Ht].
  destruct err; [discriminate|].
  destruct (error_none_iff _ _ _ E) as [Hi _]. specialize (Hi eq_refl).
  destruct (parse_generic_valid k dt raw Hk Hi) as [_ Hv]. now rewrite <- (valid_k_iff k raw Hk Hok).
Qed.

(* without a data type (forward open, raw generic messages): exactly the status-word rule *)
Theorem generic_raw_truthy_iff k raw t : k = KUnit \/ k = KRR -> bytes_ok raw = true ->
  generic_message k None raw = ROk t -> tag_truthy t = spec_success (partial_k k) (layout_k k) raw.
Proof.
  intros Hk Hok H. unfold generic_message in H.
  assert (Hg : g_r (parse_generic k None raw) = parse_k k raw /\ g_value (parse_generic k None raw) = option_map VBytes (r_data (parse_k k raw))).
  { unfold parse_generic. destruct Hk as [->| ->]; split; reflexivity. }
  destruct Hg as [Hg1 Hg2]. rewrite Hg1, Hg2 in H.
  destruct (error k (parse_k k raw)) as [err|] eqn:E; [|discriminate]. injection H as <-.
  rewrite <- (valid_k_iff k raw Hk Hok). pose proof (error_none_iff _ _ _ E) as Hi.
  unfold tag_truthy. cbn [t_value t_error].
  destruct (is_valid k (parse_k k raw)) eqn:Ev.
  - destruct Hi as [_ Hi]. rewrite (Hi eq_refl). cbn [is_none]. rewrite andb_true_r.
    (* a valid response has data *)
    assert (Hd : exists d, r_data (parse_k k raw) = Some d).
    { assert (Hc : exists o1 o2 o3, parse_k k raw = parse_cip o1 o2 o3 raw /\ is_valid_base (parse_k k raw) = true /\ r_service_status (parse_k k raw) <> None).
      { destruct Hk as [->| ->]; cbn [is_valid] in Ev; apply andb_true_iff in Ev as [Ev1 Ev2].
        - exists 46%nat, 48%nat, 50%nat. repeat split; auto. intros Hn. rewrite Hn in Ev2. discriminate.
        - exists 40%nat, 42%nat, 44%nat. repeat split; auto. intros Hn. rewrite Hn in Ev2. discriminate. }
      destruct Hc as (o1 & o2 & o3 & Hp & Hb & Hs). rewrite Hp in *.
      destruct (parse_cip_spec o1 o2 o3 raw Hok) as (_ & _ & _ & _ & P5).
      destruct (nth_error raw o1) as [s|]; [destruct (nth_error raw o2) as [g|]; [destruct (128 <=? s)|]|];
        try (destruct P5 as (_ & _ & Q3); congruence).
      destruct P5 as (_ & _ & Q3 & _). eauto. }
    destruct Hd as [d ->]. reflexivity.
  - destruct err; [now rewrite andb_false_r|]. destruct Hi as [Hi _]. discriminate (Hi eq_refl).
Qed.

(* ---------------------------------------------------------------- fragmented read / write *)
Lemma frag_parse_value_valid dec f j : is_valid KUnit (f_r (frag_parse_value dec f j)) = true -> is_valid KUnit (f_r f) = true.
Proof.
  unfold frag_parse_value. destruct (is_valid KUnit (f_r f)) eqn:E; [reflexivity|]. cbn [f_r]. now rewrite E.
Qed.

Lemma read_frag_loop_valid dec : forall replies acc r v,
  read_frag_loop dec replies acc = ROk (r, v) -> is_valid KUnit r = true ->
  Forall (fun f => is_valid KUnit (f_r f) = true) acc
  /\ exists used rest, replies = used ++ rest /\ used <> []
       /\ Forall (fun raw => is_valid KUnit (parse_unit raw) = true) used.
Proof.
  induction replies as [|raw rest IH]; intros acc r v H Hv; [discriminate|].
  cbn [read_frag_loop] in H. cbv zeta in H. set (f := parse_read_frag raw) in *.
  pose proof (parse_read_frag_r raw) as Hf. fold f in Hf.
  destruct (opt_is (r_service_status (f_r f)) INSUFFICIENT_PACKETS).
  - destruct (IH _ _ _ H Hv) as (Ha & used & rest' & -> & Hne & Hu).
    apply Forall_app in Ha as [Ha Hf1]. split; [exact Ha|].
    exists (raw :: used), rest'. split; [reflexivity|]. split; [discriminate|].
    constructor; [|exact Hu]. inversion Hf1; subst. congruence.
  - destruct (error KUnit (f_r f)); [|discriminate].
    destruct (forallb (fun x => is_valid KUnit (f_r x)) (acc ++ [f])) eqn:Eall.
    + rewrite forallb_forall in Eall. split.
      * apply Forall_forall. intros x Hx. apply Eall. apply in_or_app. now left.
      * exists [raw], rest. split; [reflexivity|]. split; [discriminate|]. constructor; [|constructor].
        rewrite <- Hf. apply Eall. apply in_or_app. right. now left.
    + injection H as <- <-. discriminate.
Qed.

Theorem read_frag_truthy dec replies t : Forall (fun r => bytes_ok r = true) replies ->
  read_fragmented dec replies = ROk t -> tag_truthy t = true ->
  exists used rest, replies = used ++ rest /\ used <> []
    /\ Forall (fun raw => spec_success true unit_layout raw = true) used.
Proof.
  intros Hok H Ht. unfold read_fragmented in H.
  destruct (read_frag_loop dec replies []) as [[r v]|] eqn:El; [|discriminate].
  destruct (tag_of_response KUnit r v) as [t0|] eqn:E; [|discriminate]. injection H as <-.
  rewrite read_post_truthy in Ht. pose proof (tag_of_response_truthy _ _ _ _ E Ht) as Hv.
  destruct (read_frag_loop_valid dec replies [] r v El Hv) as (_ & used & rest & -> & Hne & Hu).
  exists used, rest. split; [reflexivity|]. split; [exact Hne|].
  apply Forall_app in Hok as [Hok _]. rewrite Forall_forall in *. intros raw Hin.
  rewrite <- (unit_valid_iff raw (Hok raw Hin)). now apply Hu.
Qed.

Theorem write_frag_truthy v n replies t : Forall (fun r => bytes_ok r = true) replies ->
  write_fragmented v n replies = ROk t -> tag_truthy t = true ->
  (n <= length replies)%nat /\ Forall (fun raw => spec_success true unit_layout raw = true) (firstn n replies).
Proof.
  intros Hok H Ht. unfold write_fragmented in H.
  destruct (write_frag_loop n replies []) as [rs|] eqn:El; [|discriminate].
  apply write_frag_loop_spec in El as [-> Hl]. cbn [app] in H. split; [exact Hl|].
  assert (Hfalsy : forall r t0, tag_of_response KUnit r (Some v) = ROk t0 -> tag_truthy (write_post v t0) = true -> is_valid KUnit r = true).
  { intros r t0 E Htt. apply tag_of_response_shape in E as (err & He & ->). pose proof (error_none_iff _ _ _ He) as Hi.
    destruct (is_valid KUnit r); [reflexivity|]. unfold write_post, tag_truthy in Htt. cbn [t_value t_error is_some andb] in Htt.
    destruct err; [discriminate|]. destruct Hi as [Hi _]. discriminate (Hi eq_refl). }
  destruct (forallb (is_valid KUnit) (map parse_unit (firstn n replies))) eqn:Eall.
  - rewrite forallb_forall in Eall. apply Forall_forall. intros raw Hin.
    assert (Hokr : bytes_ok raw = true).
    { rewrite Forall_forall in Hok. apply Hok. rewrite <- (firstn_skipn n replies). apply in_or_app. now left. }
    rewrite <- (unit_valid_iff raw Hokr). apply Eall. now apply in_map.
  - destruct (tag_of_response KUnit failed_fragments (Some v)) as [t0|] eqn:E; [|discriminate]. injection H as <-.
    pose proof (Hfalsy _ _ E Ht) as Hbad. discriminate.
Qed.

(* ---------------------------------------------------------------- open / forward open *)
Theorem open_true replies : Forall (fun r => bytes_ok r = true) replies ->
  open_call replies = ROk true -> exists raw rest, replies = raw :: rest /\ encap_zero raw = true.
Proof.
  intros Hok H. unfold open_call in H. destruct replies as [|raw rest]; [discriminate|].
  inversion Hok as [|? ? Hr _]; subst. exists raw, rest. split; [reflexivity|].
  injection H as H. unfold register_session in H. rewrite <- (register_valid_iff raw Hr).
  destruct (is_valid KRegister (parse_register raw)); [reflexivity|discriminate].
Qed.

Lemma forward_open_true raw : bytes_ok raw = true -> forward_open raw = ROk true -> spec_success false rr_layout raw = true.
Proof.
  intros Hok H. unfold forward_open in H. destruct (generic_message KRR None raw) as [t|] eqn:E; [|discriminate].
  injection H as H. rewrite <- H. symmetry. apply (generic_raw_truthy_iff KRR raw t); auto.
Qed.
Theorem with_forward_open_ok f replies rest : Forall (fun r => bytes_ok r = true) replies ->
  with_forward_open f replies = ROk rest ->
  exists raw, In raw replies /\ spec_success false rr_layout raw = true.
Proof.
  intros Hok H. unfold with_forward_open in H. destruct replies as [|r1 q]; [discriminate|].
  inversion Hok as [|? ? H1 Hq]; subst.
  destruct (forward_open r1) as [[|]|] eqn:E1; try discriminate.
  - exists r1. split; [now left|now apply forward_open_true].
  - destruct q as [|r2 q']; [discriminate|]. inversion Hq as [|? ? H2 _]; subst.
    destruct (forward_open r2) as [[|]|] eqn:E2; try discriminate.
    exists r2. split; [right; now left|now apply forward_open_true].
Qed.

(* ---------------------------------------------------------------- multi-service: per-service truthiness *)
Definition falsy_with_error (t : tag) : Prop := t_value t = None /\ t_error t <> None.

Lemma multi_tags_nth : forall subs ts, multi_tags subs = ROk ts ->
  forall i t, nth_error ts i = Some t ->
  exists s, nth_error subs i = Some s
    /\ ((is_valid KUnit (s_r s) = true /\ t = {| t_value := s_value s; t_error := None |})
        \/ (is_valid KUnit (s_r s) = false /\ falsy_with_error t)).
Proof.
  induction subs as [|s rest IH]; intros ts H i t Hi; cbn [multi_tags] in H.
  - injection H as <-. destruct i; discriminate.
  - destruct (is_valid KUnit (s_r s)) eqn:Ev.
    + destruct (multi_tags rest) as [ts'|] eqn:Er; [|discriminate]. injection H as <-.
      destruct i as [|i]; [injection Hi as <-; exists s; split; [reflexivity|left; auto]|].
      cbn [nth_error] in *. eapply IH; eauto.
    + destruct (error KUnit (s_r s)) as [err|] eqn:Ee; [|discriminate].
      destruct (multi_tags rest) as [ts'|] eqn:Er; [|discriminate]. injection H as <-.
      destruct i as [|i].
      * injection Hi as <-. exists s. split; [reflexivity|right]. split; [exact Ev|]. split; [reflexivity|].
        cbn [t_error]. intros ->. destruct (error_none_iff _ _ _ Ee) as [Hn _]. rewrite (Hn eq_refl) in Ev. discriminate.
      * cbn [nth_error] in *. eapply IH; eauto.
Qed.

Lemma collect_results_nth : forall reqs ts k i t, nth_error (collect_results k reqs ts) i = Some t ->
  (exists q t0, nth_error reqs i = Some q /\ nth_error ts i = Some t0 /\ t = post_multi q t0)
  \/ (nth_error ts i = None /\ tag_truthy t = false).
Proof.
  induction reqs as [|q reqs IH]; intros ts k i t H; [destruct i; discriminate|].
  cbn [collect_results] in H. destruct ts as [|t0 ts].
  - destruct i as [|i].
    + injection H as <-. right. split; reflexivity.
    + cbn [nth_error] in H. destruct (IH [] (S k) i t H) as [(q' & t' & _ & Hn & _)|[_ Hf]]; [destruct i; discriminate|].
      right. split; [reflexivity|exact Hf].
  - destruct i as [|i].
    + injection H as <-. left. exists q, t0. auto.
    + cbn [nth_error] in *. apply (IH ts (S k) i t H).
Qed.

Lemma Forall_map_const {A B} (P : B -> Prop) (b : B) (l : list A) : P b -> Forall P (map (fun _ => b) l).
Proof. intros H. induction l; cbn; auto. Qed.

Lemma post_multi_falsy q t0 : t_value t0 = None -> t_error t0 <> None -> tag_truthy (post_multi q t0) = false.
Proof.
  intros Hv He. destruct q as [dec|v]; cbn [post_multi].
  - rewrite read_post_truthy. unfold tag_truthy. now rewrite Hv.
  - unfold write_post, tag_truthy. cbn [t_value t_error is_some andb]. destruct (t_error t0); [reflexivity|congruence].
Qed.

(* a truthy per-service result: the service reply's own words say success AND the enclosing frame's
   encapsulation status is 0 *)
Theorem multi_truthy reqs raw tags i t : bytes_ok raw = true ->
  rw_multi reqs raw = ROk tags -> nth_error tags i = Some t -> tag_truthy t = true ->
  multi_sub_success raw i = true.
Proof.
  intros Hok H Hi Ht. unfold rw_multi in H.
  destruct (parse_multi reqs raw) as [r subs] eqn:Ep.
  destruct (multi_tags subs) as [ts|] eqn:Em; [|discriminate].
  assert (Hall : exists fill, tags = collect_results 0 reqs (ts ++ fill)
                              /\ Forall (fun t0 => t_value t0 = None /\ t_error t0 <> None) fill).
  { destruct (skipn (length subs) reqs) as [|m ms].
    - exists []. rewrite app_nil_r. split; [congruence|constructor].
    - destruct (rest_error r) as [e|]; [|discriminate]. injection H as <-. eexists. split; [reflexivity|].
      apply (Forall_map_const _ _ (m :: ms)). cbn. split; [reflexivity|discriminate]. }
  destruct Hall as (fill & -> & Hfill).
  destruct (collect_results_nth _ _ _ _ _ Hi) as [(q & t0 & Hq & Ht0 & ->)|[_ Hf]]; [|congruence].
  assert (Hcase : nth_error ts i = Some t0 \/ In t0 fill).
  { destruct (Nat.lt_ge_cases i (length ts)) as [Hlt|Hge].
    - left. now rewrite nth_error_app1 in Ht0.
    - right. rewrite nth_error_app2 in Ht0 by lia. eapply nth_error_In; eauto. }
  destruct Hcase as [Hts|Hin].
  - destruct (multi_tags_nth _ _ Em _ _ Hts) as (s & Hs & [[Hv _]|[Hv [Hval Herr]]]).
    + exact (multi_sub_words_of_valid reqs raw r subs i s Hok Ep Hs Hv).
    + rewrite (post_multi_falsy q t0 Hval Herr) in Ht. discriminate.
  - rewrite Forall_forall in Hfill. destruct (Hfill _ Hin) as [Hval Herr].
    rewrite (post_multi_falsy q t0 Hval Herr) in Ht. discriminate.
Qed.

(* ================================================================ well-formed error replies give falsy results with a text *)
Definition wf_error (k : rkind) (raw : bytes) : bool :=
  (wf_cip_reply (layout_k k) raw && negb (spec_success (partial_k k) (layout_k k) raw)) || wf_header_only_error raw.

Lemma error_of_wf_error k raw : k = KUnit \/ k = KRR -> bytes_ok raw = true -> wf_error k raw = true ->
  is_valid k (parse_k k raw) = false /\ exists t, error k (parse_k k raw) = ROk (Some t) /\ t <> [].
Proof.
  intros Hk Hok Hw. unfold wf_error in Hw. apply orb_true_iff in Hw as [Hw|Hw].
  - apply andb_true_iff in Hw as [Hw Hn]. apply negb_true_iff in Hn. split; [now rewrite (valid_k_iff k raw Hk Hok)|].
    assert (HkL : (k = KUnit /\ layout_k k = unit_layout) \/ (k = KRR /\ layout_k k = rr_layout)) by (destruct Hk as [->| ->]; auto).
    destruct (error_text_gen k (layout_k k) raw HkL Hok Hw Hn) as (t & He & Hne & _). eauto.
  - apply (header_only_error k raw Hk Hok Hw).
Qed.

Definition falsy_text (t : tag) : Prop := tag_truthy t = false /\ exists e, t_error t = Some e /\ e <> [].

Theorem read_wf_error dec raw : bytes_ok raw = true -> wf_error KUnit raw = true ->
  exists t, read_single dec raw = ROk t /\ falsy_text t.
Proof.
  intros Hok Hw. destruct (error_of_wf_error KUnit raw (or_introl eq_refl) Hok Hw) as (Hv & e & He & Hne).
  cbn [parse_k] in Hv, He. unfold read_single, parse_read_tag, tag_of_response. rewrite Hv. cbn [g_r g_value]. rewrite He, Hv.
  eexists. split; [reflexivity|]. unfold read_post. cbn. split; [reflexivity|]. exists e. split; [reflexivity|exact Hne].
Qed.
Theorem write_wf_error v raw : bytes_ok raw = true -> wf_error KUnit raw = true ->
  exists t, write_single v raw = ROk t /\ falsy_text t.
Proof.
  intros Hok Hw. destruct (error_of_wf_error KUnit raw (or_introl eq_refl) Hok Hw) as (Hv & e & He & Hne).
  cbn [parse_k] in Hv, He. unfold write_single, tag_of_response. rewrite He, Hv.
  eexists. split; [reflexivity|]. unfold write_post. cbn. split; [reflexivity|]. exists e. split; [reflexivity|exact Hne].
Qed.
Theorem generic_wf_error k dt raw : k = KUnit \/ k = KRR -> bytes_ok raw = true -> wf_error k raw = true ->
  exists t, generic_message k dt raw = ROk t /\ falsy_text t.
Proof.
  intros Hk Hok Hw. destruct (error_of_wf_error k raw Hk Hok Hw) as (Hv & e & He & Hne).
  unfold generic_message.
  assert (Hg : g_r (parse_generic k dt raw) = parse_k k raw).
  { unfold parse_generic.
    assert (Hr : (match k with KRR => parse_rr raw | _ => parse_unit raw end) = parse_k k raw) by (destruct Hk as [->| ->]; reflexivity).
    rewrite Hr. destruct dt; [rewrite Hv|]; reflexivity. }
  rewrite Hg, He. eexists. split; [reflexivity|]. split; [|exists e; split; [reflexivity|exact Hne]].
  unfold tag_truthy. cbn [t_error is_none]. apply andb_false_r.
Qed.

(* ---------------------------------------------------------------- multi-service: an error reply without service data fails every request *)
Definition no_service_data (raw : bytes) : bool :=
  wf_header_only_error raw
  || match byte_at 49 raw with Some n => Z.of_nat (length raw) =? 50 + 2 * n | None => false end.
Lemma collect_results_fill : forall reqs k t0,
  collect_results k reqs (map (fun _ => t0) reqs) = map (fun q => post_multi q t0) reqs.
Proof. induction reqs as [|q reqs IH]; intros k t0; cbn [map collect_results]; [reflexivity|]. f_equal. apply IH. Qed.

Lemma parse_multi_nothing reqs raw : bytes_ok raw = true -> wf_error KUnit raw = true ->
  no_service_data raw = true -> parse_multi reqs raw = (parse_unit raw, []).
Proof.
  intros Hok Hw Hn. unfold parse_multi.
  destruct (parse_cip_spec 46 48 50 raw Hok) as (_ & _ & _ & P4 & P5). fold (parse_unit raw) in P4, P5.
  destruct (wf_header_only_error raw) eqn:Eh.
  { unfold wf_header_only_error in Eh. apply andb_true_iff in Eh as [Hl _]. apply Nat.eqb_eq in Hl.
    assert (H46 : nth_error raw 46 = None) by (apply nth_error_None; lia). rewrite H46 in P5. destruct P5 as (Q1 & _).
    now rewrite Q1. }
  unfold wf_error in Hw. rewrite Eh, orb_false_r in Hw. cbn [layout_k partial_k] in Hw. apply andb_true_iff in Hw as [Hwf _].
  unfold no_service_data in Hn. rewrite Eh in Hn. cbn [orb] in Hn.
  unfold wf_cip_reply in Hwf. destruct (encap_status raw) as [e|] eqn:Ee; [|discriminate].
  cbn [l_extsize l_svc l_data unit_layout] in Hwf. destruct (byte_at 49 raw) as [n|] eqn:E49; [|discriminate].
  apply andb_true_iff in Hwf as [Hrb _]. unfold reply_bit in Hrb. cbn [l_svc unit_layout] in Hrb.
  unfold byte_at in *. destruct (nth_error raw 46) as [s|]; [|discriminate].
  pose proof (nth_error_bytes_ok raw _ n Hok E49) as Hnr.
  assert (H48 : exists g, nth_error raw 48 = Some g).
  { destruct (nth_error raw 48) eqn:E; [eauto|]. apply nth_error_None in E. apply nth_error_some_lt in E49. lia. }
  destruct H48 as [g H48]. rewrite H48, Hrb in P5. destruct P5 as (_ & _ & Q3 & Q4).
  unfold encap_status in Ee. rewrite Ee in P4, Q4. cbn [option_map is_none] in P4, Q4. rewrite Q4, P4, Q3.
  cbn [orb opt_is]. unfold SUCCESS. rewrite (to_signed4_zero e (u32_range 8 raw e Hok Ee)).
  destruct (e =? 0) eqn:E0; [|reflexivity]. cbn [negb orb].
  rewrite no_additional_status_spec, E49.
  destruct (n =? 0) eqn:En0; [|reflexivity]. cbn [negb].
  assert (Hl : length (skipn 50 raw) = 0%nat) by (rewrite skipn_length; lia).
  destruct (skipn 50 raw); [reflexivity|cbn in Hl; lia].
Qed.

Theorem multi_wf_error reqs raw : reqs <> [] -> bytes_ok raw = true -> wf_error KUnit raw = true ->
  no_service_data raw = true ->
  exists tags, rw_multi reqs raw = ROk tags /\ tags <> [] /\ Forall falsy_text tags.
Proof.
  intros Hne Hok Hw Hn.
  destruct (error_of_wf_error KUnit raw (or_introl eq_refl) Hok Hw) as (Hv & e & He & Hnee). cbn [parse_k] in Hv, He.
  unfold rw_multi. rewrite (parse_multi_nothing reqs raw Hok Hw Hn). cbn [multi_tags length skipn].
  destruct reqs as [|q qs]; [congruence|].
  unfold rest_error. rewrite He. destruct e as [|c e']; [congruence|].
  cbn [app]. rewrite collect_results_fill.
  eexists. split; [reflexivity|]. split; [discriminate|].
  apply Forall_forall. intros t Ht. apply in_map_iff in Ht as (q0 & <- & _).
  split.
  - apply post_multi_falsy; [reflexivity|discriminate].
  - exists (c :: e'). split; [|discriminate]. destruct q0 as [dec|v]; reflexivity.
Qed.
