(* Proofs/CodecErrBase.v — C08: induction on type terms and the elementary facts about the stream
   primitives and the decode combinators the error-algebra proofs use. *)
From PV Require Import Base.Bytes Base.BytesLemmas Base.Res.
From PV Require Import Gen.Types Gen.CodecFacts Model.Codec Proofs.CodecErrDefs.
From Coq Require Import ZifyBool.
Open Scope Z_scope.
Ltac Zify.zify_post_hook ::= Z.to_euclidean_division_equations.

(* ------------------------------------------------------------------ nested induction on [ty] *)
Section TyInd.
  Variable P : ty -> Prop.
  Hypothesis HBool : P TBool.
  Hypothesis HInt : forall sg w, P (TInt sg w).
  Hypothesis HReal : forall dbl, P (TReal dbl).
  Hypothesis HDateTime : P TDateTime.
  Hypothesis HStr : forall lsg lw enc, P (TStr lsg lw enc).
  Hypothesis HStringN : P TStringN.
  Hypothesis HStringI : P TStringI.
  Hypothesis HNBytes : forall n, P (TNBytes n).
  Hypothesis HBits : forall w, P (TBits w).
  Hypothesis HArrFixed : forall n e, P e -> P (TArrFixed n e).
  Hypothesis HArrPrefix : forall inst lt e, P lt -> P e -> P (TArrPrefix inst lt e).
  Hypothesis HArrAll : forall e, P e -> P (TArrAll e).
  Hypothesis HStruct : forall k ms, Forall (fun m => P (snd m)) ms -> P (TStruct k ms).
  Hypothesis HFixedStr : forall size lsg lw cap, P (TFixedStr size lsg lw cap).
  Hypothesis HStructTag : forall ms bits priv size, Forall (fun m => P (snd m)) ms -> P (TStructTag ms bits priv size).
  Hypothesis HIPAddr : P TIPAddr.
  Hypothesis HPcccAscii : P TPcccAscii.
  Hypothesis HPcccString : P TPcccString.

  Fixpoint ty_ind_nested (t : ty) : P t :=
    match t with
    | TBool => HBool
    | TInt sg w => HInt sg w
    | TReal dbl => HReal dbl
    | TDateTime => HDateTime
    | TStr a b c => HStr a b c
    | TStringN => HStringN
    | TStringI => HStringI
    | TNBytes n => HNBytes n
    | TBits w => HBits w
    | TArrFixed n e => HArrFixed n e (ty_ind_nested e)
    | TArrPrefix i lt e => HArrPrefix i lt e (ty_ind_nested lt) (ty_ind_nested e)
    | TArrAll e => HArrAll e (ty_ind_nested e)
    | TStruct k ms =>
        HStruct k ms ((fix go (l : list (key * ty)) : Forall (fun m => P (snd m)) l :=
                         match l with
                         | [] => Forall_nil _
                         | m :: r => Forall_cons m (ty_ind_nested (snd m)) (go r)
                         end) ms)
    | TFixedStr a b c d => HFixedStr a b c d
    | TStructTag ms bits priv size =>
        HStructTag ms bits priv size
          ((fix go (l : list ((key * nat) * ty)) : Forall (fun m => P (snd m)) l :=
              match l with
              | [] => Forall_nil _
              | m :: r => Forall_cons m (ty_ind_nested (snd m)) (go r)
              end) ms)
    | TIPAddr => HIPAddr
    | TPcccAscii => HPcccAscii
    | TPcccString => HPcccString
    end.
End TyInd.

(* ------------------------------------------------------------------ Gen rows the codecs name *)
Lemma row_UINT : int_row n_UINT = Some (false, 2%nat). Proof. reflexivity. Qed.
Lemma row_UDINT : int_row n_UDINT = Some (false, 4%nat). Proof. reflexivity. Qed.
Lemma row_USINT : int_row n_USINT = Some (false, 1%nat). Proof. reflexivity. Qed.
Lemma fss_enc_is : fss_enc = Some Latin1. Proof. reflexivity. Qed.
Lemma pccc_ascii_enc_is : pccc_ascii_enc = Some Latin1. Proof. reflexivity. Qed.
Lemma pccc_string_enc_is : pccc_string_enc = Some Latin1. Proof. reflexivity. Qed.
Lemma stringn_enc_1_is : stringn_enc 1 = Some Latin1. Proof. reflexivity. Qed.
Lemma stringn_enc_0_is : stringn_enc 0 = None. Proof. reflexivity. Qed.
Lemma named_SHORT_STRING_decode : named_decode n_SHORT_STRING = str_decode false 1 Latin1. Proof. reflexivity. Qed.

Lemma named_UINT_decode : named_int_decode n_UINT = int_decode false 2.
Proof. unfold named_int_decode. now rewrite row_UINT. Qed.
Lemma named_UDINT_decode : named_int_decode n_UDINT = int_decode false 4.
Proof. unfold named_int_decode. now rewrite row_UDINT. Qed.
Lemma named_USINT_decode : named_int_decode n_USINT = int_decode false 1.
Proof. unfold named_int_decode. now rewrite row_USINT. Qed.
Lemma named_UINT_encode : named_int_encode n_UINT = int_encode false 2.
Proof. unfold named_int_encode. now rewrite row_UINT. Qed.
Lemma named_UDINT_encode : named_int_encode n_UDINT = int_encode false 4.
Proof. unfold named_int_encode. now rewrite row_UDINT. Qed.
Lemma named_USINT_encode : named_int_encode n_USINT = int_encode false 1.
Proof. unfold named_int_encode. now rewrite row_USINT. Qed.

(* ------------------------------------------------------------------ lists *)
Lemma zlen_nonneg' {A} (l : list A) : 0 <= zlen l.
Proof. unfold zlen. lia. Qed.

Lemma ztake_length {A} n (l : list A) : 0 <= n -> length (ztake n l) = Z.to_nat (Z.min n (zlen l)).
Proof. intros Hn. unfold ztake. rewrite firstn_length. unfold zlen. lia. Qed.

Lemma ztake_zdrop {A} n (l : list A) : ztake n l ++ zdrop n l = l.
Proof. unfold ztake, zdrop. apply firstn_skipn. Qed.

(* stream.read(n): the data and the rest split the buffer *)
Lemma stream_take_split n bs d r : stream_take n bs = (d, r) -> bs = d ++ r.
Proof.
  unfold stream_take. destruct (n <? 0) eqn:E; intros H; injection H as <- <-.
  - now rewrite app_nil_r.
  - symmetry. apply ztake_zdrop.
Qed.

Lemma stream_take_len n bs d r : stream_take n bs = (d, r) -> length bs = (length d + length r)%nat.
Proof. intros H. apply stream_take_split in H. subst. apply app_length. Qed.

(* a non-negative read returns min(n, remaining) bytes *)
Lemma stream_take_data_len n bs d r :
  0 <= n -> stream_take n bs = (d, r) -> length d = Z.to_nat (Z.min n (zlen bs)).
Proof.
  intros Hn. unfold stream_take. destruct (n <? 0) eqn:E; [lia|]. intros H. injection H as <- <-.
  now apply ztake_length.
Qed.

(* an empty read: the buffer is exhausted, or zero bytes were asked for *)
Lemma stream_take_nil n bs r : stream_take n bs = ([], r) -> r = bs /\ (bs = [] \/ n = 0).
Proof.
  intros H. pose proof (stream_take_split _ _ _ _ H) as Hs. cbn in Hs. split; [now subst|].
  unfold stream_take in H. destruct (n <? 0) eqn:E.
  - injection H as H1 _. now left.
  - injection H as H1 _. assert (Hl : length (ztake n bs) = 0%nat) by now rewrite H1.
    rewrite ztake_length in Hl by lia. destruct bs as [|b bs']; [now left|right].
    unfold zlen in Hl. cbn [length] in Hl. lia.
Qed.

(* _stream_read: BufferEmptyError when a non-zero read returns nothing, DataError when it returns
   less than asked for, the continuation otherwise *)
Lemma stream_read_cases n bs k :
  exists d r, stream_take n bs = (d, r) /\
    ((d = [] /\ n <> 0 /\ stream_read n bs k = DEmpty r)
     \/ (d = [] /\ n = 0 /\ stream_read n bs k = k [] r)
     \/ (d <> [] /\ zlen d < n /\ stream_read n bs k = DErr DataError)
     \/ (d <> [] /\ n <= zlen d /\ stream_read n bs k = k d r)).
Proof.
  unfold stream_read. destruct (stream_take n bs) as [d r] eqn:E. exists d, r. split; [reflexivity|].
  destruct d as [|b d'].
  - destruct (n =? 0) eqn:En; [right; left|left]; repeat split; auto; lia.
  - right; right. destruct (zlen (b :: d') <? n) eqn:El; [left|right]; repeat split; auto; try discriminate; lia.
Qed.

(* an empty read that raises: the buffer is exhausted *)
Lemma stream_read_empty n bs r : stream_take n bs = ([], r) -> n <> 0 -> r = [] /\ bs = [].
Proof. intros Ht Hn. apply stream_take_nil in Ht as [-> [->|H]]; [auto|contradiction]. Qed.

(* a full read of n >= 0 bytes *)
Lemma stream_take_full n bs d r : stream_take n bs = (d, r) -> 0 <= n -> n <= zlen d -> length d = Z.to_nat n.
Proof.
  intros Ht Hn Hl. pose proof (stream_take_data_len _ _ _ _ Hn Ht) as H. unfold zlen in *. lia.
Qed.

(* ------------------------------------------------------------------ dres *)
Definition dres_rest_le (bs : bytes) (r : dres) : Prop :=
  match r with DOk _ x | DEmpty x => (length x <= length bs)%nat | _ => True end.

Lemma dwrap_rest_le bs r : dres_rest_le bs r -> dres_rest_le bs (dwrap r).
Proof. destruct r; cbn; auto. Qed.

Lemma dwrap_ok r v x : dwrap r = DOk v x <-> r = DOk v x.
Proof. destruct r; cbn; split; intros H; try discriminate; auto. Qed.
Lemma dwrap_empty r x : dwrap r = DEmpty x <-> r = DEmpty x.
Proof. destruct r; cbn; split; intros H; try discriminate; auto. Qed.
Lemma dwrap_fuel r : dwrap r = DOutOfFuel <-> r = DOutOfFuel.
Proof. destruct r; cbn; split; intros H; try discriminate; auto. Qed.
Lemma dwrap_err r e : dwrap r = DErr e -> e = DataError.
Proof. destruct r; cbn; intros H; try discriminate. now injection H. Qed.

Definition lib_dres (r : dres) : Prop := match r with DErr e => e = DataError | _ => True end.
Lemma dwrap_lib r : lib_dres (dwrap r).
Proof. destruct r; cbn; auto. Qed.

(* ------------------------------------------------------------------ elementary decoders *)
Lemma dres_of_res_cases (x : res val) r :
  (exists v, x = Ok v /\ dres_of_res x r = DOk v r) \/ (exists e, x = Err e /\ dres_of_res x r = DErr e).
Proof. destruct x; [left|right]; eexists; split; reflexivity. Qed.

Lemma unpack_int_ok sg w d v : unpack_int sg w d = Ok v -> length d = w.
Proof. unfold unpack_int. destruct (length d =? w)%nat eqn:E; [|discriminate]. intros _. now apply Nat.eqb_eq. Qed.
Lemma unpack_real_ok dbl d v : unpack_real dbl d = Ok v -> length d = if dbl then 8%nat else 4%nat.
Proof.
  unfold unpack_real. destruct dbl.
  - destruct (length d =? 8)%nat eqn:E; [|discriminate]. intros _. now apply Nat.eqb_eq.
  - destruct (length d =? 4)%nat eqn:E; [|discriminate]. intros _. now apply Nat.eqb_eq.
Qed.

(* the shape of every result of an elementary decoder (one _stream_read of [size] bytes, then an
   unpack that demands exactly [size] bytes) *)
Lemma elem_decode_exact size unpack bs :
  (forall d v, unpack d = Ok v -> length d = size) ->
  match elem_decode size unpack bs with
  | DOk _ r => length bs = (size + length r)%nat
  | DEmpty r => r = [] /\ bs = [] /\ (0 < size)%nat
  | DErr e => e = DataError
  | DOutOfFuel => False
  end.
Proof.
  intros Hu. unfold elem_decode.
  destruct (stream_read_cases (Z.of_nat size) bs (fun data rest => dres_of_res (unpack data) rest))
    as (d & r & Ht & [(-> & Hn & ->)|[(-> & Hn & ->)|[(Hd & Hl & ->)|(Hd & Hl & ->)]]]); cbn [dwrap].
  - destruct (stream_read_empty _ _ _ Ht Hn) as [-> ->]. repeat split; lia.
  - pose proof (stream_take_split _ _ _ _ Ht) as ->.
    destruct (dres_of_res_cases (unpack []) r) as [(v & Hv & ->)|(e & He & ->)]; cbn; [|reflexivity].
    apply Hu in Hv. cbn in Hv. lia.
  - reflexivity.
  - pose proof (stream_take_split _ _ _ _ Ht) as ->.
    destruct (dres_of_res_cases (unpack d) r) as [(v & Hv & ->)|(e & He & ->)]; cbn; [|reflexivity].
    apply Hu in Hv. rewrite app_length. lia.
Qed.

Lemma int_decode_shape sg w bs :
  match int_decode sg w bs with
  | DOk _ r => length bs = (w + length r)%nat
  | DEmpty r => r = [] /\ bs = [] /\ (0 < w)%nat
  | DErr e => e = DataError
  | DOutOfFuel => False
  end.
Proof. apply elem_decode_exact. intros d v. apply unpack_int_ok. Qed.

Lemma real_decode_shape dbl bs :
  match real_decode dbl bs with
  | DOk _ r => length bs = ((if dbl then 8 else 4) + length r)%nat
  | DEmpty r => r = [] /\ bs = []
  | DErr e => e = DataError
  | DOutOfFuel => False
  end.
Proof.
  unfold real_decode.
  pose proof (elem_decode_exact (if dbl then 8 else 4)%nat (unpack_real dbl) bs (fun d v => unpack_real_ok dbl d v)) as H.
  destruct (elem_decode _ _ bs); auto. tauto.
Qed.

Lemma bool_decode_shape bs :
  match bool_decode bs with
  | DOk _ r => length bs = (1 + length r)%nat
  | DEmpty r => r = [] /\ bs = []
  | DErr e => e = DataError
  | DOutOfFuel => False
  end.
Proof.
  unfold bool_decode. unfold elem_decode.
  destruct (stream_read_cases (Z.of_nat 1) bs (fun data rest =>
              dres_of_res (Ok (VBool (negb match data with [0] => true | _ => false end))) rest))
    as (d & r & Ht & [(-> & Hn & ->)|[(-> & Hn & ->)|[(Hd & Hl & ->)|(Hd & Hl & ->)]]]); cbn [dwrap dres_of_res].
  - destruct (stream_read_empty _ _ _ Ht Hn) as [-> ->]. auto.
  - lia.
  - reflexivity.
  - pose proof (stream_take_full _ _ _ _ Ht ltac:(lia) Hl) as Hf. apply stream_take_split in Ht. subst bs.
    rewrite app_length. lia.
Qed.

(* ------------------------------------------------------------------ Forall over member lists *)
Lemma Forall_map_snd {K T D} (P : T -> Prop) (Q : D -> Prop) (f : T -> D) (ms : list (K * T)) :
  (forall t, P t -> Q (f t)) ->
  Forall (fun m => P (snd m)) ms -> Forall (fun d => Q (snd d)) (map (fun m => (fst m, f (snd m))) ms).
Proof. intros Hf H. induction H; cbn [map]; constructor; cbn [snd]; auto. Qed.
