(* Proofs/IdentityP.v — C16: decoding what the Spec puts on the wire for an identity gives the view
   the statement demands, for every identity with fields in range (universally quantified: all ids,
   codes, revisions, status words, serials, names of every length 0..255 over Latin-1, addresses,
   states), through every entry point of Model/Identity.v; and encode-then-decode is the identity on
   the dictionary domain. *)
From Coq Require Import String ZifyBool.
From PV Require Import Base.Bytes Base.BytesLemmas Base.Res Base.Proto Base.PyStr Model.Identity Spec.IdentitySpec.
From PV Require Import Proofs.IdentityPrim Proofs.IdentityHex Proofs.IdentityTables.
From PV Require Proofs.IdentityLayout.   (* the regenerated struct declarations are the ones the model follows *)
From PV Require Gen.Vendors Gen.Status Gen.Consts.
Open Scope Z_scope.
Ltac Zify.zify_post_hook ::= Z.to_euclidean_division_equations.

(* ------------------------------------------------------------------ the range hypothesis, as propositions *)
Lemma fields_in_range_spec i : fields_in_range i = true ->
  0 <= i_vendor i < 65536 /\ 0 <= i_product_type i < 65536 /\ 0 <= i_product_code i < 65536
  /\ 0 <= i_major i < 256 /\ 0 <= i_minor i < 256 /\ 0 <= i_status i < 65536
  /\ 0 <= i_serial i < 4294967296 /\ (length (i_name i) <= 255)%nat /\ forallb in8 (i_name i) = true
  /\ 0 <= i_encap_version i < 65536 /\ 0 <= i_sin_family i < 65536 /\ 0 <= i_sin_port i < 65536
  /\ 0 <= i_ip i < 4294967296 /\ 0 <= i_state i < 256.
Proof.
  unfold fields_in_range, in16, in8, in32. intros H.
  repeat (apply andb_true_iff in H as [H ?]).
  repeat split; try lia; assumption.
Qed.

(* ------------------------------------------------------------------ the seven identity members *)
Definition raw_of (i : ident) : raw_identity :=
  {| r_vendor := i_vendor i; r_product_type := i_product_type i; r_product_code := i_product_code i;
     r_major := i_major i; r_minor := i_minor i; r_status := spec_u16le (i_status i);
     r_serial := i_serial i; r_product_name := i_name i |}.

Lemma members_decode i rest : (length (i_name i) <= 255)%nat ->
  identity_members_decode (spec_identity_object i ++ rest) = Ok (raw_of i, rest).
Proof.
  intros Hl. unfold identity_members_decode, spec_identity_object. rewrite <- !app_assoc.
  rewrite dec_UINT. cbn [bind]. rewrite dec_UINT. cbn [bind]. rewrite dec_UINT. cbn [bind].
  cbn [app]. rewrite dec_Revision. cbn [bind].
  rewrite (dec_bytes 2 (spec_u16le (i_status i))) by (reflexivity || lia). cbn [bind].
  rewrite dec_UDINT. cbn [bind]. rewrite dec_SHORT_STRING by assumption. cbn [bind fst snd].
  reflexivity.
Qed.

Lemma post_process_view i : 0 <= i_serial i < 4294967296 -> post_process (raw_of i) = view_module i.
Proof.
  intros H. unfold post_process, view_module, raw_of.
  cbn [r_vendor r_product_type r_product_code r_major r_minor r_status r_serial r_product_name].
  rewrite VENDORS_get_spec, PRODUCT_TYPES_get_spec, fmt_08x_hex8 by assumption. reflexivity.
Qed.

(* ModuleIdentityObject.decode on the Identity object attributes (+ whatever a device appends) *)
Theorem module_object_faithful i extra : fields_in_range i = true ->
  ModuleIdentityObject_decode (spec_identity_object i ++ extra) = Ok (view_module i).
Proof.
  intros H. destruct (fields_in_range_spec i H) as (_ & _ & _ & _ & _ & _ & Hser & Hlen & _).
  unfold ModuleIdentityObject_decode, ModuleIdentityObject_decode_stream.
  rewrite members_decode by assumption. cbn [bind wrap_decode].
  rewrite post_process_view by assumption. reflexivity.
Qed.

(* ------------------------------------------------------------------ ListIdentityObject *)
Lemma list_object_faithful i len rest : fields_in_range i = true ->
  ListIdentityObject_decode (spec_u16le 12 ++ spec_u16le len ++ spec_list_identity_item i ++ rest) = Ok (view_list i).
Proof.
  intros H. destruct (fields_in_range_spec i H) as (_ & _ & _ & _ & _ & _ & Hser & Hlen & _ & _ & _ & _ & Hip & _).
  unfold ListIdentityObject_decode, ListIdentityObject_decode_stream, spec_list_identity_item.
  rewrite <- !app_assoc.
  rewrite dec_UINT. cbn [bind]. rewrite dec_UINT. cbn [bind]. rewrite dec_UINT. cbn [bind].
  rewrite (dec_INT_raw (spec_u16be (i_sin_family i))) by reflexivity. cbn [bind].
  rewrite (dec_UINT_raw (spec_u16be (i_sin_port i))) by reflexivity. cbn [bind].
  rewrite dec_IPAddress by assumption. cbn [bind].
  rewrite (dec_ULINT_raw (zeros 8)) by reflexivity. cbn [bind].
  rewrite members_decode by assumption. cbn [bind].
  cbn [app]. rewrite dec_USINT. cbn [bind wrap_decode].
  rewrite post_process_view by assumption. reflexivity.
Qed.

(* ------------------------------------------------------------------ encapsulation replies: where things are *)
Lemma header_status cmd len ses st ctx opt body :
  slice 8 12 (spec_encap_header cmd len ses st ctx opt ++ body) = spec_u32le st.
Proof. reflexivity. Qed.

Lemma decode_status_0 : decode_slice T_DINT (spec_u32le 0) = Ok 0.
Proof. vm_compute. reflexivity. Qed.

Lemma ResponsePacket_parse_ok cmd len ses ctx opt body :
  ResponsePacket_parse (spec_encap_header cmd len ses 0 ctx opt ++ body) = {| b_error := false; b_command_status := Some 0 |}.
Proof. unfold ResponsePacket_parse. rewrite header_status, decode_status_0. reflexivity. Qed.

Lemma base_valid_ok : base_is_valid {| b_error := false; b_command_status := Some 0 |} = true.
Proof. vm_compute. reflexivity. Qed.

Lemma list_reply_tail ctx i : length ctx = 8%nat ->
  skipn 26 (spec_list_identity_reply ctx i)
  = spec_u16le 12 ++ spec_u16le (Z.of_nat (length (spec_list_identity_item i))) ++ spec_list_identity_item i ++ [].
Proof.
  intros H. destruct ctx as [|c0 [|c1 [|c2 [|c3 [|c4 [|c5 [|c6 [|c7 [|? ?]]]]]]]]]; try discriminate H.
  unfold spec_list_identity_reply. cbv zeta. rewrite app_nil_r. reflexivity.
Qed.

(* the ListIdentity reply packet: valid, and its identity is the view *)
Theorem list_reply_packet ctx i : length ctx = 8%nat -> fields_in_range i = true ->
  let r := ListIdentityResponsePacket (spec_list_identity_reply ctx i) in
  li_is_valid r = true /\ lr_identity r = Some (view_list i).
Proof.
  intros Hc H. cbv zeta. unfold ListIdentityResponsePacket.
  rewrite list_reply_tail by assumption. rewrite list_object_faithful by assumption.
  unfold spec_list_identity_reply. cbv zeta. rewrite ResponsePacket_parse_ok.
  unfold li_is_valid. cbn [lr_base lr_error lr_identity]. rewrite base_valid_ok. split; reflexivity.
Qed.

(* CIPDriver.list_identity / _list_identity *)
Theorem list_identity_faithful ctx i : length ctx = 8%nat -> fields_in_range i = true ->
  list_identity (spec_list_identity_reply ctx i) = Some (view_list i).
Proof. intros Hc H. unfold list_identity. apply (list_reply_packet ctx i Hc H). Qed.

(* the response loop of discover: every device that answered is reported, in order, as its view *)
Theorem discover_faithful (l : list (list Z * ident)) :
  Forall (fun p => length (fst p) = 8%nat /\ fields_in_range (snd p) = true) l ->
  broadcast_discover_responses (map (fun p => spec_list_identity_reply (fst p) (snd p)) l)
  = map (fun p => view_list (snd p)) l.
Proof.
  unfold broadcast_discover_responses.
  induction 1 as [|[ctx i] l [Hc H] _ IH]; [reflexivity|].
  cbn [map flat_map fst snd] in *. destruct (list_reply_packet ctx i Hc H) as [Hv Hi]. cbv zeta in Hv, Hi.
  rewrite Hv, Hi, IH. reflexivity.
Qed.

(* ------------------------------------------------------------------ SendRRData reply with the Identity object *)
Lemma rr_reply_parts ses ctx i extra : length ctx = 8%nat ->
  let raw := spec_identity_object_reply ses ctx i extra in
  slice 40 41 raw = [129] /\ slice 42 43 raw = [0] /\ skipn 44 raw = spec_identity_object i ++ extra.
Proof.
  intros H. destruct ctx as [|c0 [|c1 [|c2 [|c3 [|c4 [|c5 [|c6 [|c7 [|? ?]]]]]]]]]; try discriminate H.
  cbv zeta. unfold spec_identity_object_reply. cbv zeta. repeat split; reflexivity.
Qed.

Lemma from_reply_81 : from_reply [129] = Ok [1].
Proof. vm_compute. reflexivity. Qed.
Lemma decode_service_status_0 : decode_slice T_USINT [0] = Ok 0.
Proof. vm_compute. reflexivity. Qed.

Lemma rr_parse ses ctx i extra : length ctx = 8%nat ->
  SendRRDataResponsePacket_parse (spec_identity_object_reply ses ctx i extra)
  = {| rr_base := {| b_error := false; b_command_status := Some 0 |}; rr_error := false;
       rr_service_status := Some 0; rr_data := Some (spec_identity_object i ++ extra) |}.
Proof.
  intros H. destruct (rr_reply_parts ses ctx i extra H) as (E40 & E42 & E44). cbv zeta in E40, E42, E44.
  unfold SendRRDataResponsePacket_parse. rewrite E40, E42, E44, from_reply_81, decode_service_status_0.
  unfold spec_identity_object_reply. cbv zeta. rewrite ResponsePacket_parse_ok. reflexivity.
Qed.

Lemma rr_valid_ok d :
  rr_is_valid {| rr_base := {| b_error := false; b_command_status := Some 0 |}; rr_error := false;
                 rr_service_status := Some 0; rr_data := d |} = true.
Proof. vm_compute. reflexivity. Qed.

(* CIPDriver.get_module_info (UCMM or Unconnected Send: the reply has the same layout) *)
Theorem module_identity_faithful ses ctx i extra : length ctx = 8%nat -> fields_in_range i = true ->
  get_module_info (spec_identity_object_reply ses ctx i extra) = Ok (view_module i).
Proof.
  intros Hc H. unfold get_module_info. rewrite rr_parse by assumption. cbn [rr_data].
  rewrite rr_valid_ok, module_object_faithful by assumption. reflexivity.
Qed.

(* LogixDriver.get_plc_info: the same view plus the keyswitch text of the two status bytes *)
Theorem plc_info_faithful ses ctx i extra : length ctx = 8%nat -> fields_in_range i = true ->
  get_plc_info (spec_identity_object_reply ses ctx i extra) = Ok (view_plc i).
Proof.
  intros Hc H. unfold get_plc_info. rewrite rr_parse by assumption.
  rewrite rr_valid_ok. cbn [rr_data]. rewrite module_object_faithful by assumption.
  unfold view_module at 1. cbn [d_status]. rewrite keyswitch_spec. reflexivity.
Qed.

(* ------------------------------------------------------------------ encode, then decode *)
(* the dictionaries ModuleIdentityObject.encode is meant for = the ones decode produces for known ids *)
Definition in_dom (d : mi_dict) : bool :=
  known_name Gen.Vendors.vendors (d_vendor d) && known_name Gen.Status.product_types (d_product_type d)
  && in16 (d_product_code d) && in8 (d_major d) && in8 (d_minor d)
  && (length (d_status d) =? 2)%nat && bytes_ok (d_status d)
  && is_hex8 (d_serial d)
  && (length (d_product_name d) <=? 255)%nat && latin1_ok (d_product_name d).

Lemma in_dom_view i : fields_in_range i = true ->
  known_name Gen.Vendors.vendors (d_vendor (view_module i)) = true ->
  known_name Gen.Status.product_types (d_product_type (view_module i)) = true ->
  in_dom (view_module i) = true.
Proof.
  intros H Hv Hp. destruct (fields_in_range_spec i H) as (? & ? & ? & ? & ? & ? & ? & ? & Hn & _).
  unfold in_dom. rewrite Hv, Hp. cbn [view_module d_product_code d_major d_minor d_status d_serial d_product_name].
  rewrite is_hex8_hex8 by assumption.
  change (latin1_ok (i_name i)) with (forallb in8 (i_name i)). rewrite Hn.
  unfold in16, in8, bytes_ok, byte_ok. cbn [length forallb]. lia.
Qed.

Theorem identity_encode_decode d : in_dom d = true ->
  exists b, ModuleIdentityObject_encode d = Ok b /\ ModuleIdentityObject_decode b = Ok d.
Proof.
  destruct d as [v p c ma mi st se nm]. unfold in_dom.
  cbn [d_vendor d_product_type d_product_code d_major d_minor d_status d_serial d_product_name].
  intros H.
  apply andb_true_iff in H as [H Hnb]. apply andb_true_iff in H as [H Hnl]. apply andb_true_iff in H as [H Hse].
  apply andb_true_iff in H as [H Hsb]. apply andb_true_iff in H as [H Hsl]. apply andb_true_iff in H as [H Hmi].
  apply andb_true_iff in H as [H Hma]. apply andb_true_iff in H as [H Hc]. apply andb_true_iff in H as [Hv Hp].
  destruct (getitem_get _ v vendors_nodup Hv) as (kv & Ekv & Ikv & Nkv).
  destruct (getitem_get _ p product_types_nodup Hp) as (kp & Ekp & Ikp & Nkp).
  pose proof (keys_u16_in _ _ _ vendors_u16 Ikv) as Rkv.
  pose proof (keys_u16_in _ _ _ product_types_u16 Ikp) as Rkp.
  destruct (is_hex8_value se Hse) as (n & Rn & ->).
  destruct st as [|s0 [|s1 [|? ?]]]; cbn [length] in Hsl; try discriminate Hsl.
  unfold bytes_ok, byte_ok in Hsb. cbn [forallb] in Hsb.
  unfold in16 in Hc. unfold in8 in Hma, Hmi.
  set (i := {| i_vendor := kv; i_product_type := kp; i_product_code := c; i_major := ma; i_minor := mi;
               i_status := s0 + 256 * s1; i_serial := n; i_name := nm;
               i_encap_version := 0; i_sin_family := 0; i_sin_port := 0; i_ip := 0; i_state := 0 |}).
  assert (Hst : spec_u16le (s0 + 256 * s1) = [s0; s1]) by (unfold spec_u16le; list_lia).
  assert (Hr : fields_in_range i = true).
  { unfold fields_in_range, i, in16, in8, in32.
    cbn [i_vendor i_product_type i_product_code i_major i_minor i_status i_serial i_name i_encap_version i_sin_family i_sin_port i_ip i_state].
    change (forallb (fun v0 : Z => (0 <=? v0) && (v0 <? 256)) nm) with (latin1_ok nm). rewrite Hnb. lia. }
  exists (spec_identity_object i ++ []). split.
  - unfold ModuleIdentityObject_encode, ModuleIdentityObject_encode_inner.
    cbn [d_vendor d_product_type d_product_code d_major d_minor d_status d_serial d_product_name].
    unfold PRODUCT_TYPES_getitem, VENDORS_getitem. rewrite Ekp, Ekv. cbn [bind].
    rewrite fromhex_hex8 by assumption. cbn [bind]. rewrite int_from_u32be.
    rewrite !enc_UINT by lia. cbn [bind]. rewrite enc_Revision by lia. cbn [bind].
    unfold bytes_encode. cbn [firstn bind]. rewrite enc_UDINT by assumption. cbn [bind].
    rewrite enc_SHORT_STRING by (lia || assumption). cbn [bind wrap_all].
    rewrite app_nil_r. unfold spec_identity_object, i.
    cbn [i_vendor i_product_type i_product_code i_major i_minor i_status i_serial i_name].
    rewrite Hst. reflexivity.
  - rewrite module_object_faithful by assumption. f_equal.
    unfold view_module, i.
    cbn [i_vendor i_product_type i_product_code i_major i_minor i_status i_serial i_name].
    rewrite Nkv, Nkp.
    change [(s0 + 256 * s1) mod 256; (s0 + 256 * s1) / 256] with (spec_u16le (s0 + 256 * s1)).
    rewrite Hst. reflexivity.
Qed.

(* ------------------------------------------------------------------ everything together (Props/C16.v) *)
Definition identity_faithful_at (i : ident) : Prop :=
  (forall ctx, length ctx = 8%nat ->
     list_identity (spec_list_identity_reply ctx i) = Some (view_list i)
     /\ li_is_valid (ListIdentityResponsePacket (spec_list_identity_reply ctx i)) = true)
  /\ (forall ses ctx extra, length ctx = 8%nat ->
        get_module_info (spec_identity_object_reply ses ctx i extra) = Ok (view_module i)
        /\ get_plc_info (spec_identity_object_reply ses ctx i extra) = Ok (view_plc i))
  /\ (forall extra, ModuleIdentityObject_decode (spec_identity_object i ++ extra) = Ok (view_module i))
  /\ (forall len rest, ListIdentityObject_decode (spec_u16le 12 ++ spec_u16le len ++ spec_list_identity_item i ++ rest) = Ok (view_list i)).

Lemma identity_faithful_all i : fields_in_range i = true -> identity_faithful_at i.
Proof.
  intros H. repeat split.
  - apply list_identity_faithful; assumption.
  - apply (list_reply_packet ctx i); assumption.
  - apply module_identity_faithful; assumption.
  - apply plc_info_faithful; assumption.
  - intros extra. apply module_object_faithful; assumption.
  - intros len rest. apply list_object_faithful; assumption.
Qed.

Lemma serial_text_all n : 0 <= n < 4294967296 ->
  length (hex8 n) = 8%nat /\ forallb lower_hex (hex8 n) = true /\ unhex (hex8 n) = Some n /\ fmt_08x n = hex8 n.
Proof.
  intros H. split; [reflexivity|]. split; [apply hex8_lower; assumption|].
  split; [apply hex8_roundtrip; assumption|apply fmt_08x_hex8; assumption].
Qed.
