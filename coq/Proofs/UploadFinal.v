(* Proofs/UploadFinal.v — C05, the headline: the upload of the model client against the reference
   target SHOWS the abstract view of the project (Spec/Expect.abstract_view rendered by
   Spec/UploadObs.obs_of_view), for every page policy, template-fragment policy, capacity and
   firmware major: [upload_mirrors_star] (get_tag_list("*") / open()) and [upload_mirrors_none]
   (get_tag_list(None), init_program_tags=False: the view of the controller scope).
   [no_dup_no_invent]: the uploaded names are distinct and are exactly the visible tags. *)
From Coq Require Import ZifyBool String Sorted Permutation.
From PV Require Import Base.Bytes Base.BytesLemmas Base.Proto Base.PyStr Base.Res.
From PV Require Import Spec.EncapParser Spec.MRParser Spec.TargetIface Spec.TargetCore Spec.Project Spec.Expect Spec.TargetLogix Spec.UploadObs.
From PV Require Import Model.LogixUpload.
From PV Require Import Proofs.UploadDefs Proofs.UploadParse Proofs.UploadFilter Proofs.UploadTemplate Proofs.UploadBlob
  Proofs.UploadObsP Proofs.UploadTarget Proofs.UploadMirror Proofs.UploadScope Proofs.UploadTop Proofs.UploadReach
  Proofs.UploadHistory.
Open Scope string_scope.
Open Scope list_scope.
Open Scope Z_scope.

(* two observations are the same up to the order of the (name-keyed) tag and type dictionaries *)
Definition oview_equiv (a b : oview) : Prop :=
  Permutation (ov_tags a) (ov_tags b) /\ Permutation (ov_types a) (ov_types b)
  /\ ov_programs a = ov_programs b /\ ov_tasks a = ov_tasks b.

(* ================================================================ lists *)
Lemma all_some_perm {A B} (f : A -> option B) : forall l1 l2,
  Permutation l1 l2 -> forall r1, all_some (map f l1) = Some r1 ->
  exists r2, all_some (map f l2) = Some r2 /\ Permutation r1 r2.
Proof.
  induction 1 as [|x l l' _ IH|x y l|l l' l'' _ IH1 _ IH2]; intros r1 H.
  - injection H as <-. exists []. auto.
  - cbn [map all_some] in *. destruct (f x); [|discriminate]. destruct (all_some (map f l)) as [r|]; [|discriminate].
    injection H as <-. destruct (IH r eq_refl) as (r2 & -> & Hp). eauto.
  - cbn [map all_some] in *. destruct (f y); [|discriminate]. destruct (f x); [|discriminate].
    destruct (all_some (map f l)); [|discriminate]. injection H as <-. eexists. split; [reflexivity | apply perm_swap].
  - destruct (IH1 r1 H) as (r2 & H2 & P2). destruct (IH2 r2 H2) as (r3 & H3 & P3). exists r3. split; [exact H3|].
    eapply perm_trans; eassumption.
Qed.

Lemma tags_dict_nodup : forall l acc,
  NoDup (map fst acc ++ map tg_name l) ->
  fold_left (fun d t => dict_set PyStr.text_eqb d (tg_name t) t) l acc = acc ++ map (fun t => (tg_name t, t)) l.
Proof.
  induction l as [|t l IH]; intros acc Hnd; [cbn; rewrite app_nil_r; reflexivity|].
  cbn [fold_left map]. cbn [map] in Hnd.
  rewrite dict_set_absent.
  - rewrite IH; [rewrite <- app_assoc; reflexivity|]. rewrite map_app. cbn [map fst]. rewrite <- app_assoc. exact Hnd.
  - apply tdict_get_notin. apply NoDup_remove_2 in Hnd. intros H. apply Hnd. apply in_or_app. left. exact H.
Qed.

Lemma Forall2_map_eq {A B C} (R : A -> B -> Prop) (f : A -> C) (g : B -> C) : forall l r,
  Forall2 R l r -> (forall a b, R a b -> f a = g b) -> map f l = map g r.
Proof. induction 1 as [|a b l r H _ IH]; intros Hfg; [reflexivity|]. cbn [map]. rewrite (Hfg a b H), IH by exact Hfg. reflexivity. Qed.

Lemma filter_perm {A} (f : A -> bool) l l' : Permutation l l' -> Permutation (filter f l) (filter f l').
Proof.
  induction 1 as [|x l l' _ IH|x y l|l l' l'' _ IH1 _ IH2]; cbn [filter].
  - constructor.
  - destruct (f x); [constructor|]; exact IH.
  - destruct (f y), (f x); try apply Permutation_refl. apply perm_swap.
  - eapply perm_trans; eassumption.
Qed.

Lemma flat_map_ext_in {A B} (f g : A -> list B) l : (forall x, In x l -> f x = g x) -> flat_map f l = flat_map g l.
Proof.
  induction l as [|x l IH]; intros H; [reflexivity|]. cbn [flat_map].
  rewrite (H x (or_introl eq_refl)), IH; [reflexivity|]. intros y Hy. apply H. right. exact Hy.
Qed.

(* ================================================================ partition of a list by scope *)
Lemma partition_perm {A K} (c : A -> bool) (s : K -> A -> bool) (keys : list K) : forall l : list A,
  (forall x, In x l ->
     (c x = true /\ forall k, In k keys -> s k x = false)
     \/ (c x = false /\ exists a k0 b, keys = a ++ k0 :: b /\ s k0 x = true /\ forall k, In k (a ++ b) -> s k x = false)) ->
  Permutation (filter c l ++ flat_map (fun k => filter (s k) l) keys) l.
Proof.
  induction l as [|x l IH]; intros H.
  - cbn [filter app]. induction keys as [|k ks IHk]; [constructor|]. cbn [flat_map filter app]. apply IHk. intros x [].
  - specialize (IH (fun y Hy => H y (or_intror Hy))).
    assert (Ec : filter c (x :: l) = if c x then x :: filter c l else filter c l) by reflexivity. rewrite Ec.
    destruct (H x (or_introl eq_refl)) as [(Hc & Hs) | (Hc & a & k0 & b & Hk & Hs0 & Hs)].
    + rewrite Hc. cbn [app]. constructor.
      replace (flat_map (fun k => filter (s k) (x :: l)) keys) with (flat_map (fun k => filter (s k) l) keys); [exact IH|].
      apply flat_map_ext_in. intros k Hkin. cbn [filter]. rewrite (Hs k Hkin). reflexivity.
    + rewrite Hc.
      assert (E : flat_map (fun k => filter (s k) (x :: l)) keys
                  = flat_map (fun k => filter (s k) l) a ++ (x :: filter (s k0) l) ++ flat_map (fun k => filter (s k) l) b).
      { rewrite Hk, flat_map_app. cbn [flat_map filter]. rewrite Hs0. f_equal; [|f_equal];
          apply flat_map_ext_in; intros k Hkin; cbn [filter]; rewrite Hs; [reflexivity | apply in_or_app; auto | reflexivity | apply in_or_app; auto]. }
      rewrite E.
      assert (E2 : flat_map (fun k => filter (s k) l) keys
                   = flat_map (fun k => filter (s k) l) a ++ filter (s k0) l ++ flat_map (fun k => filter (s k) l) b).
      { rewrite Hk, flat_map_app. reflexivity. }
      rewrite E2 in IH.
      eapply perm_trans; [|apply perm_skip; exact IH].
      set (FA := flat_map (fun k => filter (s k) l) a). set (FB := flat_map (fun k => filter (s k) l) b).
      replace (filter c l ++ FA ++ (x :: filter (s k0) l) ++ FB) with ((filter c l ++ FA) ++ x :: (filter (s k0) l ++ FB))
        by (rewrite <- !app_assoc; reflexivity).
      replace (filter c l ++ FA ++ filter (s k0) l ++ FB) with ((filter c l ++ FA) ++ (filter (s k0) l ++ FB))
        by (rewrite <- !app_assoc; reflexivity).
      symmetry. apply Permutation_middle.
Qed.

Lemma filter_flat_map {A K} (f : A -> bool) (F : K -> list A) keys :
  filter f (flat_map F keys) = flat_map (fun k => filter f (F k)) keys.
Proof. induction keys as [|k ks IH]; [reflexivity|]. cbn [flat_map]. rewrite filter_app, IH. reflexivity. Qed.

Lemma zdict_get_of_in {V} : forall (l : list (Z * V)) kv, In kv l -> NoDup (map fst l) -> dict_get Z.eqb l (fst kv) = Some (snd kv).
Proof.
  induction l as [|[a b] l IH]; intros kv Hin Hnd; [destruct Hin|].
  cbn [map fst] in Hnd. inversion Hnd as [|? ? Hn Hnd']; subst. cbn [dict_get].
  destruct Hin as [<- | Hin]; [cbn [fst snd]; rewrite Z.eqb_refl; reflexivity|].
  destruct (a =? fst kv) eqn:E; [|apply IH; assumption].
  exfalso. apply Hn. apply Z.eqb_eq in E. subst a. apply in_map. exact Hin.
Qed.

Lemma map_val_keys {V X} (C : list (Z * V)) (F : V -> X) (dflt : X) :
  NoDup (map fst C) ->
  map (fun kv => F (snd kv)) C
  = map (fun k => match dict_get Z.eqb C k with Some d => F d | None => dflt end) (map fst C).
Proof.
  intros Hnd. rewrite map_map. apply map_ext_in. intros kv Hin. rewrite (zdict_get_of_in C kv Hin Hnd). reflexivity.
Qed.

Lemma Forall2_map_r {A B C} (P : A -> C -> Prop) (h : B -> C) : forall l r,
  Forall2 (fun a b => P a (h b)) l r -> Forall2 P l (map h r).
Proof. induction 1; cbn [map]; constructor; assumption. Qed.

Lemma Forall2_map_same {A C} (P : A -> C -> Prop) (G : A -> C) : forall l,
  (forall a, In a l -> P a (G a)) -> Forall2 P l (map G l).
Proof.
  induction l as [|a l IH]; intros H; [constructor|]. cbn [map].
  constructor; [apply H; left; reflexivity | apply IH; intros b Hb; apply H; right; exact Hb].
Qed.

(* ================================================================ the headline *)
Section Final.
  Variable p : project.
  Variable pol : policy.
  Variable cap rev_major : Z.

  Let ts := p_templates p.
  Let wa := with_access rev_major.

  Hypothesis Hwf : wf_project p = true.
  Hypothesis Hdom : upload_dom p cap.

  Let Hts : templates_ok [] ts = true := wf_templates p Hwf.

  (* ---------------------------------------------------------------- the visible tags, scope by scope *)
  Lemma star_perm : Permutation (star_tags p) (visible_tags p).
  Proof.
    unfold star_tags, vis, ctrl, scope_tags, visible_tags.
    rewrite <- filter_flat_map, <- filter_app. apply filter_perm.
    apply (partition_perm (fun g => scope_eqb (g_scope g) ScCtrl) (fun pn g => scope_eqb (g_scope g) (ScProg pn))).
    intros g Hin. destruct (g_scope g) as [|pn0] eqn:Esc.
    - left. split; [reflexivity|]. intros; reflexivity.
    - right. split; [reflexivity|].
      pose proof (d_scope_known p cap Hdom g pn0 Hin Esc) as Hpn.
      destruct (in_split pn0 (program_names p) Hpn) as (a & b & Hk).
      exists a, pn0, b. split; [exact Hk|]. split; [cbn [scope_eqb]; apply name_eqb_refl|].
      intros pn Hpn'. destruct (scope_eqb (ScProg pn0) (ScProg pn)) eqn:E; [|reflexivity]. exfalso.
      assert (Hpn_in : In pn (program_names p)).
      { rewrite Hk. apply in_app_iff in Hpn'. apply in_app_iff. destruct Hpn'; [left | right; right]; assumption. }
      pose proof (d_scope_exact p cap Hdom g pn Hin Hpn_in ltac:(rewrite Esc; exact E)) as Hex. rewrite Esc in Hex. injection Hex as ->.
      pose proof (d_prog_names p cap Hdom) as Hnd. rewrite Hk in Hnd. apply NoDup_remove_2 in Hnd. contradiction.
  Qed.

  (* ---------------------------------------------------------------- one tag *)
  Lemma otag_eq types g mt :
    tagrel p rev_major g mt ->
    (forall tid od, g_ty g = BStruct tid -> Exp ts tid od -> odef_of (S (length types)) types tid = Some od) ->
    otag_of wa types (view_tag g) = Some (otag_of_mtag wa mt).
  Proof.
    intros [Hobs _] Hod. unfold tag_obs_ok in Hobs. fold ts wa in Hobs.
    destruct Hobs as (H1 & H2 & H3 & H4 & H5 & H6 & H7 & H8 & Hty).
    unfold otag_of, view_tag. cbn [vt_ty vt_name vt_inst vt_bitpos vt_dims vt_access vt_alias vt_attr3 vt_attr5 vt_attr6].
    destruct (otag_of_mtag wa mt) as [n i ty tn tid bp dims ac al x3 x5 x6].
    cbn [ot_name ot_inst ot_ty ot_tyname ot_tid ot_bitpos ot_dims ot_access ot_alias ot_a3 ot_a5 ot_a6] in *.
    destruct (g_ty g) as [c|t0|w] eqn:Ety; [| |contradiction].
    - destruct Hty as (T1 & T2 & T3 & T4). subst. reflexivity.
    - destruct Hty as (od & Hexp & T1 & T2 & T3 & T4). rewrite (Hod t0 od eq_refl Hexp). subst.
      destruct od. reflexivity.
  Qed.

  (* ---------------------------------------------------------------- the types of the view *)
  Definition roots : list Z :=
    nodup Z.eq_dec (flat_map (fun g => match g_ty g with BStruct tid => [tid] | _ => [] end) (visible_tags p)).
  Definition ids : list Z := reach (S (length ts)) ts roots.
  Definition keepf (t : template) : bool := zmem (t_id t) ids.
  Definition vtypes : list vtype := map view_type (filter keepf ts).

  Lemma view_shape :
    v_tags (abstract_view p) = map view_tag (visible_tags p) /\ v_types (abstract_view p) = vtypes.
  Proof. split; reflexivity. Qed.

  Lemma roots_spec tid : In tid roots <-> R_star p tid.
  Proof.
    unfold roots, R_star. rewrite nodup_In, in_flat_map. split.
    - intros (g & Hg & Hx). unfold visible_tags in Hg. apply filter_In in Hg. destruct Hg as [Hin Hv].
      exists g. split; [exact Hin|]. split; [destruct (hidden_symbol g); [discriminate | reflexivity]|].
      destruct (g_ty g) as [c|x|w]; [destruct Hx | | destruct Hx]. destruct Hx as [-> | []]. reflexivity.
    - intros (g & Hin & Hv & Hty). exists g. split; [unfold visible_tags; apply filter_In; rewrite Hv; auto|].
      rewrite Hty. left; reflexivity.
  Qed.

  Lemma roots_known : incl roots (tids p).
  Proof.
    intros tid H. apply roots_spec in H. destruct H as (g & Hin & _ & Hty).
    pose proof (wf_tags p Hwf) as Htags. rewrite forallb_forall in Htags. pose proof (Htags g Hin) as Hok.
    unfold tag_ok in Hok. apply andb_prop in Hok. destruct Hok as [_ Hok]. rewrite Hty in Hok. split_andb.
    destruct (find_template (p_templates p) tid) as [t|] eqn:Ef; [|discriminate].
    apply find_template_in in Ef. destruct Ef as [Ht <-]. unfold tids. apply in_map. exact Ht.
  Qed.

  Lemma ids_spec :
    closed p ids /\ incl roots ids /\ NoDup ids /\ (forall x, In x ids -> Reach p (Rr roots) x) /\ incl ids (tids p).
  Proof.
    apply (reach_spec p Hts roots (S (length ts)) roots).
    - apply NoDup_nodup.
    - exact roots_known.
    - apply incl_refl.
    - intros x Hx. apply Reach_root. exact Hx.
    - unfold tids. rewrite map_length. fold ts. lia.
  Qed.

  Lemma reach_mono (R R' : Z -> Prop) : (forall x, R x -> R' x) -> forall x, Reach p R x -> Reach p R' x.
  Proof. intros H x Hx. induction Hx as [tid Ht | tid t tid' _ IH Hf Hm]; [apply Reach_root; auto | eapply Reach_step; eassumption]. Qed.

  Lemma reach_in_ids x : Reach p (R_star p) x -> In x ids.
  Proof.
    destruct ids_spec as (Hc & Hr & _). intros H.
    induction H as [tid Ht | tid t tid' _ IH Hf Hm]; [apply Hr; apply roots_spec; exact Ht | eapply Hc; eassumption].
  Qed.

  (* ---------------------------------------------------------------- template ids are distinct *)
  Lemma templates_ids_nodup : forall l acc, templates_ok acc l = true ->
    NoDup (map t_id l) /\ (forall x y, In x acc -> In y l -> t_id x <> t_id y).
  Proof.
    induction l as [|t l IH]; intros acc H; [split; [constructor | intros ? ? ? []]|].
    cbn [templates_ok] in H. apply andb_prop in H. destruct H as [Ht Hl].
    destruct (IH (acc ++ [t]) Hl) as [Hnd Hdis]. pose proof (template_ok_fresh acc t Ht) as Hfresh.
    split.
    - cbn [map]. constructor; [|exact Hnd]. intros Hin. apply in_map_iff in Hin. destruct Hin as (y & Ey & Hy).
      apply (Hdis t y); [apply in_or_app; right; left; reflexivity | exact Hy | symmetry; exact Ey].
    - intros x y Hx [<- | Hy]; [apply Hfresh; exact Hx | apply Hdis; [apply in_or_app; left; exact Hx | exact Hy]].
  Qed.

  Lemma nodup_map_filter {A B} (f : A -> B) (k : A -> bool) l : NoDup (map f l) -> NoDup (map f (filter k l)).
  Proof.
    induction l as [|x l IH]; intros H; [constructor|]. cbn [map] in H. inversion H as [|? ? Hn H']; subst.
    cbn [filter]. destruct (k x); [|apply IH; exact H'].
    cbn [map]. constructor; [|apply IH; exact H']. intros Hin. apply Hn. apply in_map_iff in Hin.
    destruct Hin as (y & Ey & Hy). apply filter_In in Hy. rewrite <- Ey. apply in_map. apply Hy.
  Qed.

  Lemma keep_closed_ids :
    forall t tid' t', In t ts -> keepf t = true -> In tid' (struct_ids_of_members t) ->
                      find_template ts tid' = Some t' -> keepf t' = true.
  Proof.
    destruct ids_spec as (Hc & _). intros t tid' t' Hin Hk Hm Hf.
    unfold keepf in *. apply zmem_In in Hk. apply zmem_In.
    apply find_template_in in Hf as Hf'. destruct Hf' as [_ ->].
    apply in_split in Hin. destruct Hin as (e & l & Hsplit).
    eapply Hc; [exact Hk | apply (split_find p Hts e t l Hsplit) | exact Hm].
  Qed.

  (* ---------------------------------------------------------------- programs, routines, tasks of the view *)
  Lemma routines_eq n : routines_in (scope_tags p (ScProg n)) = routines_of p n.
  Proof.
    unfold routines_in, scope_tags, routines_of. induction (p_tags p) as [|g l IH]; [reflexivity|].
    cbn [filter flat_map]. destruct (scope_eqb (g_scope g) (ScProg n)); cbn [filter andb]; [|exact IH].
    unfold is_routine at 1. destruct (starts_with txt_Routine (g_name g)); cbn [map app]; rewrite IH; reflexivity.
  Qed.

  Lemma programs_eq :
    map (fun x : text * (Z * list text) => (fst x, fst (snd x), snd (snd x))) (star_programs p)
    = map (fun vp => (vp_name vp, vp_inst vp, vp_routines vp)) (v_programs (abstract_view p)).
  Proof.
    unfold star_programs. rewrite map_map. cbn [fst snd].
    rewrite (map_ext _ (fun g => (nm8 g, g_inst g, routines_of p (nm8 g)))) by (intros g; rewrite routines_eq; reflexivity).
    unfold PS, ctrl, scope_tags, abstract_view. cbn [v_programs].
    induction (p_tags p) as [|g l IH]; [reflexivity|].
    cbn [filter flat_map]. unfold is_program_symbol at 1. destruct (g_scope g); cbn [scope_eqb filter].
    - unfold is_prog at 1. destruct (starts_with txt_Program (g_name g)); cbn [map app]; rewrite IH; reflexivity.
    - exact IH.
  Qed.

  Lemma tasks_eq : map task_entry (filter is_task (ctrl p)) = v_tasks (abstract_view p).
  Proof.
    unfold ctrl, scope_tags, abstract_view. cbn [v_tasks].
    induction (p_tags p) as [|g l IH]; [reflexivity|].
    cbn [filter flat_map]. destruct (g_scope g); cbn [scope_eqb filter]; [|exact IH].
    unfold is_task at 1. destruct (starts_with txt_Task (g_name g)); cbn [map app]; rewrite IH; reflexivity.
  Qed.

  (* ---------------------------------------------------------------- the whole view *)
  Section Assembly.
    Variable tags_in : list tagdef.          (* the visible tags uploaded *)
    Variable r : uresult.
    Hypothesis HF : Forall2 (tagrel p rev_major) tags_in (res_tags r).
    Hypothesis Hinv : Inv p (R_star p) (res_state r).
    Hypothesis Hroots_in : forall g tid, In g tags_in -> g_ty g = BStruct tid -> In tid (keys (res_state r)).
    Hypothesis Hperm : Permutation tags_in (visible_tags p).
    Hypothesis Hfull : NoDup (map full_name (visible_tags p)).

    Lemma keys_ids k : In k (keys (res_state r)) <-> In k ids.
    Proof.
      split.
      - intros Hk. apply reach_in_ids. exact (inv_reach p _ _ Hinv k Hk).
      - intros Hk. destruct ids_spec as (_ & _ & _ & Hr & _). specialize (Hr k Hk). clear Hk.
        induction Hr as [tid Ht | tid t tid' _ IH Hf Hm].
        + apply roots_spec in Ht. destruct Ht as (g & Hin & Hv & Hty).
          apply (Hroots_in g tid); [|exact Hty]. eapply Permutation_in; [symmetry; exact Hperm|].
          unfold visible_tags. apply filter_In. rewrite Hv. auto.
        + exact (inv_closed p _ _ Hinv tid t tid' IH Hf Hm).
    Qed.

    Lemma kept_type t e l : ts = e ++ t :: l -> keepf t = true ->
      exists d, dict_get Z.eqb (u_udts (res_state r)) (t_id t) = Some d
                /\ odef_of (S (length vtypes)) vtypes (t_id t) = Some (odef_of_dt d).
    Proof.
      intros Hsplit Hk. unfold keepf in Hk. apply zmem_In in Hk. apply keys_ids in Hk.
      destruct (zdict_in_get _ _ Hk) as (d & Eget). exists d. split; [exact Eget|].
      destruct (inv_good p _ _ Hinv _ _ Eget) as (Hexp & _).
      apply (odef_of_exp p Hts keepf keep_closed_ids (S (length vtypes)) e t l (odef_of_dt d) Hsplit).
      - unfold keepf. apply zmem_In. apply keys_ids. exact Hk.
      - unfold vtypes. rewrite map_length. fold ts. rewrite Hsplit, filter_app, app_length. lia.
      - exact Hexp.
    Qed.

    Lemma struct_odef g tid od :
      In g tags_in -> g_ty g = BStruct tid -> Exp ts tid od -> odef_of (S (length vtypes)) vtypes tid = Some od.
    Proof.
      intros Hg Hty Hexp.
      assert (Hk : In tid ids) by (apply keys_ids; eapply Hroots_in; eassumption).
      inversion Hexp as [tid0 t ms Hf HF0]; subst.
      apply find_template_in in Hf as Hf'. destruct Hf' as [Hin Hid].
      apply in_split in Hin. destruct Hin as (e & l & Hsplit).
      rewrite <- Hid in Hexp |- *.
      apply (odef_of_exp p Hts keepf keep_closed_ids (S (length vtypes)) e t l _ Hsplit).
      - unfold keepf. apply zmem_In. rewrite Hid. exact Hk.
      - unfold vtypes. rewrite map_length. fold ts. rewrite Hsplit, filter_app, app_length. lia.
      - exact Hexp.
    Qed.

    Theorem assembly progs tasks :
      map (fun x : text * (Z * list text) => (fst x, fst (snd x), snd (snd x))) (u_programs (res_state r)) = progs ->
      u_tasks (res_state r) = tasks ->
      exists ov,
        obs_of_view wa (mkView (map view_tag (visible_tags p)) vtypes
                               (map (fun x : text * Z * list text => mkVProgram (fst (fst x)) (snd (fst x)) (snd x)) progs) tasks)
        = Some ov
        /\ oview_equiv (obs_of_result wa r) ov.
    Proof.
      intros Hprogs Htasks. unfold obs_of_view. cbn [v_tags v_types v_programs v_tasks].
      (* tags *)
      assert (Htags1 : all_some (map (fun g => otag_of wa vtypes (view_tag g)) tags_in) = Some (map (otag_of_mtag wa) (res_tags r))).
      { apply all_some_Forall2. apply Forall2_map_r. eapply Forall2_impl_in; [|exact HF].
        intros g mt Hg _ Hrel. apply (otag_eq vtypes g mt Hrel). intros tid od Hty Hexp. eapply struct_odef; eassumption. }
      destruct (all_some_perm (fun g => otag_of wa vtypes (view_tag g)) tags_in (visible_tags p) Hperm _ Htags1) as (ts2 & Htags2 & Hp2).
      rewrite map_map, Htags2.
      (* types *)
      set (val := fun tid => match dict_get Z.eqb (u_udts (res_state r)) tid with Some d => odef_of_dt d | None => odef_of_dt (MkDT None [] [] (mkTA 0 0 0 0) None None TcNone) end).
      assert (Htypes : all_some (map (fun y => odef_of (S (length vtypes)) vtypes (vy_id y)) vtypes)
                       = Some (map (fun t => val (t_id t)) (filter keepf ts))).
      { unfold vtypes at 3. rewrite map_map. cbn [view_type vy_id].
        apply all_some_Forall2. apply Forall2_map_same.
        intros t Ht. apply filter_In in Ht. destruct Ht as [Hin Hk]. apply in_split in Hin. destruct Hin as (e & l & Hsplit).
        destruct (kept_type t e l Hsplit Hk) as (d & Eget & Eod). unfold val. rewrite Eget. exact Eod. }
      rewrite Htypes.
      eexists. split; [reflexivity|].
      unfold oview_equiv, obs_of_result. cbn [ov_tags ov_types ov_programs ov_tasks].
      split; [|split; [|split]].
      - (* tags: the dictionary keyed by name *)
        assert (Hnames : map tg_name (res_tags r) = map full_name tags_in).
        { symmetry. apply (Forall2_map_eq _ _ _ _ _ HF). intros a b [_ H]. symmetry. exact H. }
        assert (Hnd : NoDup (map tg_name (res_tags r))).
        { rewrite Hnames. eapply Permutation_NoDup; [|exact Hfull]. apply Permutation_map. symmetry. exact Hperm. }
        unfold tags_dict. rewrite (tags_dict_nodup (res_tags r) []) by (cbn [map app]; exact Hnd).
        cbn [app]. rewrite map_map. cbn [snd]. exact Hp2.
      - (* types *)
        rewrite (inv_types p _ _ Hinv), map_map. cbn [snd].
        rewrite (map_val_keys (u_udts (res_state r)) odef_of_dt
                              (odef_of_dt (MkDT None [] [] (mkTA 0 0 0 0) None None TcNone)) (inv_nodup p _ _ Hinv)).
        fold (keys (res_state r)). fold val.
        rewrite <- (map_map t_id val). apply Permutation_map.
        apply NoDup_Permutation.
        + exact (inv_nodup p _ _ Hinv).
        + apply nodup_map_filter. exact (proj1 (templates_ids_nodup ts [] Hts)).
        + intros k. rewrite keys_ids. destruct ids_spec as (_ & _ & _ & _ & Hin_tids). split.
          * intros Hk. pose proof (Hin_tids k Hk) as Ht. unfold tids in Ht. apply in_map_iff in Ht. destruct Ht as (t & <- & Ht).
            apply in_map. apply filter_In. split; [exact Ht|]. unfold keepf. apply zmem_In. exact Hk.
          * intros Hk. apply in_map_iff in Hk. destruct Hk as (t & <- & Ht). apply filter_In in Ht. destruct Ht as [_ Hk].
            unfold keepf in Hk. apply zmem_In. exact Hk.
      - rewrite Hprogs. rewrite map_map. cbn [vp_name vp_inst vp_routines fst snd]. rewrite <- (map_id progs) at 1. apply map_ext. intros [[a b] c]. reflexivity.
      - exact Htasks.
    Qed.
  End Assembly.

  (* ---------------------------------------------------------------- get_tag_list("*") / open() *)
  Theorem upload_mirrors_star fuel :
    NoDup (map full_name (visible_tags p)) -> (fuel_bound p <= fuel)%nat ->
    exists r ov, upload_target cap rev_major fuel p pol ArgStar = Done r
                 /\ obs_of_view wa (abstract_view p) = Some ov
                 /\ oview_equiv (obs_of_result wa r) ov.
  Proof.
    intros Hfull Hfuel.
    destruct (upload_star p pol cap rev_major Hwf Hdom fuel Hfuel) as (r & Er & HF & Hinv & Hroots & Hprogs & Htasks).
    destruct (assembly (star_tags p) r HF Hinv Hroots star_perm Hfull
                       (map (fun vp => (vp_name vp, vp_inst vp, vp_routines vp)) (v_programs (abstract_view p)))
                       (v_tasks (abstract_view p))) as (ov & Eov & Heq).
    { rewrite Hprogs. exact programs_eq. }
    { rewrite Htasks. exact tasks_eq. }
    exists r, ov. split; [exact Er|]. split; [|exact Heq].
    rewrite <- Eov. f_equal.
    rewrite map_map. cbn [fst snd].
    replace (map (fun x : vprogram => {| vp_name := vp_name x; vp_inst := vp_inst x; vp_routines := vp_routines x |})
                 (v_programs (abstract_view p))) with (v_programs (abstract_view p))
      by (rewrite <- (map_id (v_programs (abstract_view p))) at 1; apply map_ext; intros []; reflexivity).
    reflexivity.
  Qed.

  (* ---------------------------------------------------------------- no tag missing, duplicated or invented *)
  Theorem no_dup_no_invent fuel :
    NoDup (map full_name (visible_tags p)) -> (fuel_bound p <= fuel)%nat ->
    exists r, upload_target cap rev_major fuel p pol ArgStar = Done r
              /\ NoDup (map tg_name (res_tags r))
              /\ Permutation (map tg_name (res_tags r)) (map full_name (visible_tags p)).
  Proof.
    intros Hfull Hfuel.
    destruct (upload_star p pol cap rev_major Hwf Hdom fuel Hfuel) as (r & Er & HF & _).
    exists r. split; [exact Er|].
    assert (Hnames : map tg_name (res_tags r) = map full_name (star_tags p)).
    { symmetry. apply (Forall2_map_eq _ _ _ _ _ HF). intros a b [_ H]. symmetry. exact H. }
    rewrite Hnames.
    assert (Hp : Permutation (map full_name (star_tags p)) (map full_name (visible_tags p))) by (apply Permutation_map; exact star_perm).
    split; [eapply Permutation_NoDup; [symmetry; exact Hp | exact Hfull] | exact Hp].
  Qed.
End Final.

(* ================================================================ get_tag_list(None): the controller scope *)
Lemma distinct_by_sub {A B} (eqb : B -> B -> bool) (h : A -> B) (f : A -> bool) : forall l,
  distinct_by eqb (map h l) = true -> distinct_by eqb (map h (filter f l)) = true.
Proof.
  induction l as [|x l IH]; intros H; [reflexivity|]. cbn [map distinct_by] in H. apply andb_prop in H. destruct H as [H1 H2].
  cbn [filter]. destruct (f x); [|apply IH; exact H2]. cbn [map distinct_by]. rewrite (IH H2), andb_true_r.
  apply negb_true_iff in H1. apply negb_true_iff.
  destruct (existsb (eqb (h x)) (map h (filter f l))) eqn:E; [|reflexivity].
  apply existsb_exists in E. destruct E as (y & Hy & Ey). apply in_map_iff in Hy. destruct Hy as (z & <- & Hz). apply filter_In in Hz.
  assert (existsb (eqb (h x)) (map h l) = true); [|congruence].
  apply existsb_exists. exists (h z). split; [apply in_map; apply Hz | exact Ey].
Qed.

Section NoneSec.
  Variable p : project.
  Variable pol : policy.
  Variable cap rev_major : Z.
  Hypothesis Hwf : wf_project p = true.
  Hypothesis Hdom : upload_dom p cap.

  Let p' := controller_scope p.
  Let wa := with_access rev_major.

  Lemma ctrl_tags_eq : p_tags p' = ctrl p.
  Proof.
    unfold p', controller_scope, ctrl, scope_tags. cbn [p_tags]. apply filter_ext. intros g. destruct (g_scope g); reflexivity.
  Qed.

  Lemma ctrl_all_ctrl g : In g (ctrl p) -> g_scope g = ScCtrl.
  Proof. intros H. apply (ctrl_scope p g H). Qed.

  Lemma wf_controller_scope : wf_project p' = true.
  Proof.
    unfold wf_project in *. split_andb.
    assert (E1 : templates_ok [] (p_templates p') = true) by assumption.
    assert (E2 : forallb (tag_ok p') (p_tags p') = true).
    { apply forallb_forall. intros g Hg. rewrite ctrl_tags_eq in Hg. destruct (ctrl_scope p g Hg) as [Hin Hsc].
      match goal with H : forallb (tag_ok p) _ = true |- _ => rewrite forallb_forall in H; pose proof (H g Hin) as Hok end.
      unfold tag_ok in *. rewrite Hsc in *. cbn [scope_ok] in *. exact Hok. }
    assert (E3 : distinct_by Z.eqb (map g_inst (p_tags p')) = true).
    { unfold p', controller_scope. cbn [p_tags]. apply distinct_by_sub. assumption. }
    assert (E4 : distinct_by tag_key_eqb (p_tags p') = true).
    { unfold p', controller_scope. cbn [p_tags]. rewrite <- (map_id (filter _ _)). apply distinct_by_sub. rewrite map_id. assumption. }
    rewrite E1, E2, E3, E4. reflexivity.
  Qed.

  Lemma visible_ctrl : visible_tags p' = vis (ctrl p).
  Proof. unfold visible_tags, vis. rewrite ctrl_tags_eq. reflexivity. Qed.

  Lemma Inv_transfer (R R' : Z -> Prop) u : (forall x, R x -> R' x) -> Inv p R u -> Inv p' R' u.
  Proof.
    intros H [G S N T C Rr]. constructor.
    - exact G.
    - exact S.
    - exact N.
    - exact T.
    - exact C.
    - intros tid Hk. specialize (Rr tid Hk). clear - H Rr.
      induction Rr as [tid Ht | tid t tid' _ IH Hf Hm]; [apply Reach_root; auto|].
      eapply Reach_step; [exact IH | exact Hf | exact Hm].
  Qed.

  Lemma no_routines n : routines_in (scope_tags p' (ScProg n)) = [].
  Proof.
    unfold routines_in, scope_tags. rewrite ctrl_tags_eq.
    assert (E : filter (fun g => scope_eqb (g_scope g) (ScProg n)) (ctrl p) = []); [|rewrite E; reflexivity].
    pose proof ctrl_all_ctrl as H. induction (ctrl p) as [|g l IH]; [reflexivity|].
    cbn [filter]. rewrite (H g (or_introl eq_refl)). cbn [scope_eqb]. apply IH. intros g0 H0. apply H. right. exact H0.
  Qed.

  Lemma ctrl_idem : ctrl p' = ctrl p.
  Proof.
    unfold ctrl at 1, scope_tags. rewrite ctrl_tags_eq.
    pose proof ctrl_all_ctrl as H. induction (ctrl p) as [|g l IH]; [reflexivity|].
    cbn [filter]. rewrite (H g (or_introl eq_refl)). cbn [scope_eqb]. f_equal. apply IH. intros g0 H0. apply H. right. exact H0.
  Qed.

  Theorem upload_mirrors_none fuel :
    NoDup (map full_name (visible_tags p)) -> (fuel_bound p <= fuel)%nat ->
    exists r ov, upload_target cap rev_major fuel p pol ArgNone = Done r
                 /\ obs_of_view wa (abstract_view (controller_scope p)) = Some ov
                 /\ oview_equiv (obs_of_result wa r) ov.
  Proof.
    intros Hfull Hfuel.
    destruct (upload_none p pol cap rev_major Hwf Hdom fuel Hfuel) as (r & Er & HF & Hinv & Hroots & Hprogs & Htasks).
    assert (Hinv' : Inv p' (R_star p') (res_state r)).
    { apply (Inv_transfer (R_ctrl p)); [|exact Hinv].
      intros x (g & Hg & Hv & Hty). exists g. rewrite ctrl_tags_eq. auto. }
    assert (Hfull' : NoDup (map full_name (visible_tags p'))).
    { rewrite visible_ctrl. unfold vis, ctrl, scope_tags. rewrite filter_filter.
      rewrite (filter_ext _ (fun g => negb (hidden_symbol g) && scope_eqb (g_scope g) ScCtrl)) by (intros g; apply andb_comm).
      rewrite <- filter_filter. apply nodup_map_filter. exact Hfull. }
    destruct (assembly p' rev_major wf_controller_scope (vis (ctrl p)) r HF Hinv') with
      (progs := map (fun vp => (vp_name vp, vp_inst vp, vp_routines vp)) (v_programs (abstract_view p')))
      (tasks := v_tasks (abstract_view p')) as (ov & Eov & Heq).
    { intros g tid Hg Hty. apply filter_In in Hg. destruct Hg as [Hg Hv]. apply (Hroots g tid Hg); [|exact Hty].
      destruct (hidden_symbol g); [discriminate | reflexivity]. }
    { rewrite visible_ctrl. apply Permutation_refl. }
    { exact Hfull'. }
    { rewrite Hprogs. rewrite <- (programs_eq p'). f_equal. unfold star_programs, PS. rewrite ctrl_idem.
      apply map_ext. intros g. unfold prog_entry, nm8. rewrite no_routines. reflexivity. }
    { rewrite Htasks, <- (tasks_eq p'), ctrl_idem. reflexivity. }
    exists r, ov. split; [exact Er|]. split; [|exact Heq].
    rewrite <- Eov. f_equal.
    rewrite map_map. cbn [fst snd].
    replace (map (fun x : vprogram => {| vp_name := vp_name x; vp_inst := vp_inst x; vp_routines := vp_routines x |})
                 (v_programs (abstract_view p'))) with (v_programs (abstract_view p'))
      by (rewrite <- (map_id (v_programs (abstract_view p'))) at 1; apply map_ext; intros []; reflexivity).
    reflexivity.
  Qed.
End NoneSec.

(* ================================================================ after any earlier uploads *)
(* get_tag_list("*") / get_tag_list(None) on a driver in ANY state u0 (whatever it uploaded before, from
   whatever project) IS the upload of a fresh driver: it mirrors the CURRENT project, data_types
   included — nothing of an earlier upload survives (/repo 0c7d79e resets _data_types too) *)
Theorem upload_history p pol cap rev_major fuel u0 arg :
  match arg with ArgProgram _ => False | _ => True end ->
  snd (get_tag_list lstate (target_call cap) rev_major fuel u0 (target_state p pol) arg)
  = upload_target cap rev_major fuel p pol arg.
Proof.
  intros H. unfold upload_target. rewrite (get_tag_list_forgets lstate (target_call cap) rev_major fuel u0 _ arg H). reflexivity.
Qed.

Theorem upload_history_star p pol cap rev_major fuel u0 :
  wf_project p = true -> upload_dom p cap -> NoDup (map full_name (visible_tags p)) -> (fuel_bound p <= fuel)%nat ->
  exists r ov,
    snd (get_tag_list lstate (target_call cap) rev_major fuel u0 (target_state p pol) ArgStar) = Done r
    /\ obs_of_view (with_access rev_major) (abstract_view p) = Some ov
    /\ oview_equiv (obs_of_result (with_access rev_major) r) ov.
Proof.
  intros Hwf Hdom Hfull Hfuel. rewrite (upload_history p pol cap rev_major fuel u0 ArgStar I).
  exact (upload_mirrors_star p pol cap rev_major Hwf Hdom fuel Hfull Hfuel).
Qed.

Theorem upload_history_none p pol cap rev_major fuel u0 :
  wf_project p = true -> upload_dom p cap -> NoDup (map full_name (visible_tags p)) -> (fuel_bound p <= fuel)%nat ->
  exists r ov,
    snd (get_tag_list lstate (target_call cap) rev_major fuel u0 (target_state p pol) ArgNone) = Done r
    /\ obs_of_view (with_access rev_major) (abstract_view (controller_scope p)) = Some ov
    /\ oview_equiv (obs_of_result (with_access rev_major) r) ov.
Proof.
  intros Hwf Hdom Hfull Hfuel. rewrite (upload_history p pol cap rev_major fuel u0 ArgNone I).
  exact (upload_mirrors_none p pol cap rev_major Hwf Hdom fuel Hfull Hfuel).
Qed.
