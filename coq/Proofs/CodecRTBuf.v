(* Proofs/CodecRTBuf.v — C06: byte-buffer lemmas for StructTag (slice assignment into a bytearray,
   setting / clearing one bit of one byte, reading a slice back). *)
From PV Require Import Base.Bytes Base.BytesLemmas Base.Res Model.Codec Model.CodecDom.
From Coq Require Import ZifyBool.
Open Scope Z_scope.

Lemma nth_error_firstn_lt {A} (l : list A) a i : (i < a)%nat -> nth_error (firstn a l) i = nth_error l i.
Proof.
  revert a i. induction l as [|x l IH]; intros a i H.
  - now rewrite firstn_nil.
  - destruct a; [lia|]. destruct i; [reflexivity|]. cbn [firstn nth_error]. apply IH. lia.
Qed.

Lemma nth_error_skipn' {A} (l : list A) n i : nth_error (skipn n l) i = nth_error l (n + i).
Proof.
  revert l. induction n as [|n IH]; intros l; [reflexivity|].
  destruct l; [now destruct i|]. cbn [skipn Nat.add nth_error]. apply IH.
Qed.

(* ------------------------------------------------------------------ splice *)
Lemma splice_length buf a e : (a + length e <= length buf)%nat -> length (splice buf a e) = length buf.
Proof.
  intros H. unfold splice. rewrite !app_length, firstn_length, skipn_length. lia.
Qed.

Lemma splice_nth_outside buf a e i :
  (a + length e <= length buf)%nat -> (i < a \/ a + length e <= i)%nat ->
  nth_error (splice buf a e) i = nth_error buf i.
Proof.
  intros H Hi. unfold splice. destruct Hi as [Hi|Hi].
  - rewrite nth_error_app1 by (rewrite firstn_length; lia). apply nth_error_firstn_lt. exact Hi.
  - rewrite nth_error_app2 by (rewrite firstn_length; lia). rewrite firstn_length.
    replace (Nat.min a (length buf)) with a by lia.
    rewrite nth_error_app2 by lia. rewrite nth_error_skipn'. f_equal. lia.
Qed.

Lemma splice_nth_inside buf a e j :
  (a + length e <= length buf)%nat -> (j < length e)%nat ->
  nth_error (splice buf a e) (a + j) = nth_error e j.
Proof.
  intros H Hj. unfold splice. rewrite nth_error_app2 by (rewrite firstn_length; lia).
  rewrite firstn_length. replace (a + j - Nat.min a (length buf))%nat with j by lia.
  now rewrite nth_error_app1 by lia.
Qed.

(* reading a slice back from its bytes *)
Lemma skipn_slice_ext (buf e : bytes) off :
  (off + length e <= length buf)%nat ->
  (forall j, (j < length e)%nat -> nth_error buf (off + j) = nth_error e j) ->
  skipn off buf = e ++ skipn (off + length e) buf.
Proof.
  revert off. induction e as [|x e IH]; intros off Hl H.
  - cbn [length app]. now rewrite Nat.add_0_r.
  - cbn [length] in *. pose proof (H 0%nat ltac:(lia)) as H0. rewrite Nat.add_0_r in H0. cbn [nth_error] in H0.
    pose proof H0 as Hx. apply nth_error_split in Hx as (l1 & l2 & -> & Hl1). subst off.
    rewrite skipn_app, skipn_all, Nat.sub_diag. cbn [app skipn].
    f_equal. specialize (IH (S (length l1))).
    assert (E : skipn (S (length l1)) (l1 ++ x :: l2) = l2).
    { replace (S (length l1)) with (length (l1 ++ [x])) by (rewrite app_length; cbn; lia).
      replace (l1 ++ x :: l2) with ((l1 ++ [x]) ++ l2) by (now rewrite <- app_assoc).
      apply skipn_app_exact. }
    rewrite E in IH.
    replace (length l1 + S (length e))%nat with (S (length l1) + length e)%nat by lia.
    apply IH.
    + rewrite app_length in *. cbn [length] in *. lia.
    + intros j Hj. specialize (H (S j) ltac:(lia)). cbn [nth_error] in H. rewrite <- H. f_equal. lia.
Qed.

(* ------------------------------------------------------------------ set_nth *)
Lemma set_nth_some buf i f : (i < length buf)%nat -> exists buf', set_nth buf i f = Some buf'.
Proof.
  revert i. induction buf as [|b r IH]; intros i H; [cbn in H; lia|].
  destruct i; cbn [set_nth]; [eauto|]. destruct (IH i ltac:(cbn in H; lia)) as (r' & ->). cbn. eauto.
Qed.

Lemma set_nth_spec buf i f buf' :
  set_nth buf i f = Some buf' ->
  length buf' = length buf
  /\ (forall j, j <> i -> nth_error buf' j = nth_error buf j)
  /\ (exists b, nth_error buf i = Some b /\ nth_error buf' i = Some (f b)).
Proof.
  revert i buf'. induction buf as [|b r IH]; intros i buf' H; [destruct i; discriminate|].
  destruct i; cbn [set_nth] in H.
  - injection H as <-. split; [reflexivity|split; [intros [|j] Hj; [congruence|reflexivity]|exists b; split; reflexivity]].
  - destruct (set_nth r i f) as [r'|] eqn:E; [|discriminate]. cbn in H. injection H as <-.
    destruct (IH i r' E) as (H1 & H2 & b0 & H3 & H4). split; [|split].
    + cbn [length]. now rewrite H1.
    + intros [|j] Hj; [reflexivity|]. cbn [nth_error]. apply H2. congruence.
    + exists b0. now split.
Qed.

(* ------------------------------------------------------------------ one bit of one byte *)
Fixpoint zrange8 (n : nat) : list Z := match n with O => [] | S k => zrange8 k ++ [Z.of_nat k] end.
Lemma zrange8_in n i : 0 <= i < Z.of_nat n -> In i (zrange8 n).
Proof.
  induction n as [|n IH]; intros H; [lia|]. cbn [zrange8]. apply in_or_app.
  destruct (Z.eq_dec i (Z.of_nat n)) as [->|Hne]; [right; now left|left; apply IH; lia].
Qed.

Definition setbit_check (b bit : Z) : bool :=
  let hi := Z.lor b (2 ^ bit) in
  let lo := Z.land b (Z.lnot (2 ^ bit)) in
  (0 <=? hi) && (hi <? 256) && (0 <=? lo) && (lo <? 256) && Z.testbit hi bit && negb (Z.testbit lo bit)
  && forallb (fun b' => (b' =? bit) || (Bool.eqb (Z.testbit hi b') (Z.testbit b b') && Bool.eqb (Z.testbit lo b') (Z.testbit b b')))
             (zrange8 8).

Lemma setbit_sweep : forallb (fun b => forallb (setbit_check b) (zrange8 8)) (zrange8 256) = true.
Proof. vm_compute. reflexivity. Qed.

Lemma setbit_ok b bit :
  0 <= b < 256 -> 0 <= bit < 8 ->
  let hi := Z.lor b (2 ^ bit) in
  let lo := Z.land b (Z.lnot (2 ^ bit)) in
  0 <= hi < 256 /\ 0 <= lo < 256 /\ Z.testbit hi bit = true /\ Z.testbit lo bit = false
  /\ forall b', 0 <= b' < 8 -> b' <> bit -> Z.testbit hi b' = Z.testbit b b' /\ Z.testbit lo b' = Z.testbit b b'.
Proof.
  intros Hb Hbit. pose proof setbit_sweep as S. rewrite forallb_forall in S.
  specialize (S b (zrange8_in 256 b ltac:(lia))). rewrite forallb_forall in S.
  specialize (S bit (zrange8_in 8 bit ltac:(lia))). unfold setbit_check in S. cbv zeta in S.
  apply andb_prop in S as [S Hall]. apply andb_prop in S as [S Hlo]. apply andb_prop in S as [S Hhi].
  apply andb_prop in S as [S R4]. apply andb_prop in S as [S R3]. apply andb_prop in S as [R1 R2].
  rewrite forallb_forall in Hall.
  cbv zeta. split; [lia|]. split; [lia|]. split; [exact Hhi|]. split; [now apply negb_true_iff|].
  intros b' Hb' Hne. specialize (Hall b' (zrange8_in 8 b' ltac:(lia))).
  apply orb_prop in Hall as [Hall|Hall]; [lia|]. apply andb_prop in Hall as [H1 H2].
  split; now apply Bool.eqb_prop.
Qed.
