(* Proofs/UploadDefs.v — definitions the C05 statements are written with (no proofs here):
   * [obs_of_result]: what the dictionaries produced by the model of the upload SAY, in the
     observation terms of Spec/UploadObs.v (the projection forgets only what the statement does
     not talk about: the hidden host members, the type classes);
   * [target_call]: the reference target's handler (Spec/TargetLogix.logix_request) as the peer
     of the model client, with what the driver's response object exposes of a message-router reply;
   * [upload_target]: model client o target;
   * [upload_dom]: the part of the project domain that well-formedness (Spec/Project.wf_project)
     does not already state, each clause with its reason. *)
From Coq Require Import String.
From PV Require Import Base.Bytes Base.Proto Base.PyStr Base.Res.
From PV Require Import Spec.EncapParser Spec.TargetIface Spec.TargetCore Spec.Project Spec.Expect Spec.TargetLogix Spec.UploadObs.
From PV Require Import Model.LogixUpload.
From PV Require Gen.Consts Gen.ReplyTables.
Open Scope Z_scope.

(* ================================================================ projection of the model's result *)
Definition ATOM_CODES : list Z :=
  [C_BOOL; C_SINT; C_INT; C_DINT; C_LINT; C_USINT; C_UINT; C_UDINT; C_ULINT; C_REAL; C_LREAL;
   C_BYTE; C_WORD; C_DWORD; C_LWORD].
(* the elementary type a name denotes (-1: none) *)
Definition atom_code_of_name (n : text) : Z :=
  match filter (fun c => match atom_name c with Some x => PyStr.text_eqb x n | None => false end) ATOM_CODES with
  | c :: _ => c
  | [] => -1
  end.

Definition in_attrs (attrs : list text) (n : text) : bool := existsb (PyStr.text_eqb n) attrs.

Fixpoint odef_of_dt (d : datatype) : odef :=
  match d with
  | MkDT name internal attributes template str sm tc =>
      MkODef name (ta_handle template) (ta_size template) (ta_defsize template) (ta_count template)
             attributes
             (flat_map (fun nm =>
                          let '(n, m) := nm in
                          if in_attrs attributes n then
                            [(n,
                              match mm_dtype m with
                              | DNone => inl (-1)
                              | DName x => if mm_struct m then inl (-2) else inl (atom_code_of_name x)
                              | DDef d' => if mm_struct m then inr (odef_of_dt d') else inl (-2)
                              end,
                              match mm_array m with Some a => a | None => 0 end,
                              mm_offset m, mm_bit m)]
                          else []) internal)
             (match str, tc with
              | Some cap, TcString size capacity => Some (cap, size, capacity)
              | Some cap, _ => Some (cap, -1, -1)
              | None, TcString size capacity => Some (-1, size, capacity)
              | None, _ => None
              end)
  end.

Definition oty_of_dtype (is_struct : bool) (t : dtype) : oty :=
  match t with
  | DNone => inl (-1)
  | DName x => if is_struct then inl (-2) else inl (atom_code_of_name x)
  | DDef d => if is_struct then inr (odef_of_dt d) else inl (-2)
  end.

Definition otag_of_mtag (with_access : bool) (t : mtag) : otag :=
  mkOTag (tg_name t) (tg_inst t) (oty_of_dtype (tg_struct t) (tg_dtype t)) (tg_dtname t) (tg_tid t) (tg_bitpos t)
         (firstn (Z.to_nat (tg_dim t)) (tg_dims t))
         (if with_access then Some (tg_access t) else None)
         (tg_alias t) (tg_addr t) (tg_oaddr t) (tg_swc t).

(* drv.tags (a dict keyed by tag_name), drv.data_types, drv.info['programs'|'tasks'] *)
Definition obs_of_result (with_access : bool) (r : uresult) : oview :=
  mkOView (map (fun nt => otag_of_mtag with_access (snd nt)) (tags_dict (res_tags r)))
          (map (fun nd => odef_of_dt (snd nd)) (u_data_types (res_state r)))
          (map (fun p => (fst p, fst (snd p), snd (snd p))) (u_programs (res_state r)))
          (u_tasks (res_state r)).

(* ================================================================ the target as the peer *)
Definition multi_packet_service (svc : Z) : bool :=
  existsb (fun nv => match snd nv with [b] => b =? svc | _ => false end) ReplyTables.multi_packet_services.

(* what SendUnitDataResponsePacket exposes of the reply [rp] to a request with service [svc]:
   bool(response) = status 0, or status 6 for a multi-packet service; data = raw[50:], i.e. the
   extended status words (when there are any) followed by the reply data *)
Definition urep_of (svc : Z) (rp : mr_reply) : urep :=
  mkRep ((rp_status rp =? Consts.SUCCESS)
         || ((rp_status rp =? Consts.INSUFFICIENT_PACKETS) && multi_packet_service svc))
        (rp_status rp)
        (flat_map (le_enc 2) (rp_ext rp) ++ rp_data rp)
        false.   (* a well-formed reply frame: response.error does not raise (C13) *)

(* one connected request answered by the Logix handler with reply capacity [cap]; an object the
   handler does not implement is answered 0x05 by the core *)
Definition target_call (cap : Z) (st : lstate) (rq : ureq) : lstate * option urep :=
  match logix_request st (TConnected 0) cap
                      {| mr_service := q_service rq; mr_path := q_path rq; mr_data := q_data rq |} with
  | Some (st', rp, _) => (st', Some (urep_of (q_service rq) rp))
  | None => (st, Some (urep_of (q_service rq) (mr_error 5 [])))
  end.

Definition target_state (p : project) (pol : policy) : lstate := mkLState p [] pol init_basic.

(* LogixDriver.get_tag_list(program) of a fresh driver against the target *)
Definition upload_target (cap rev : Z) (fuel : nat) (p : project) (pol : policy) (arg : scope_arg)
  : outcome uresult :=
  snd (get_tag_list lstate (target_call cap) rev fuel init_ustate (target_state p pol) arg).

(* enough fuel for every loop of the upload of [p]: pages <= symbols + 1, fragments of one
   template <= its length + 1, nesting depth <= templates + 1 *)
Definition max_blob (p : project) : nat :=
  fold_right Nat.max O (map (fun t => length (template_blob true t)) (p_templates p)).
Definition fuel_bound (p : project) : nat :=
  S (S (length (p_tags p) + length (p_templates p) + max_blob p)).
