(* Proofs/CodecRT.v — C06: the round-trip law for the leaf types of the codec model, and the
   nested induction principle on [ty].  The composite types are in Proofs/CodecRTComp.v. *)
From PV Require Import Base.Bytes Base.BytesLemmas Base.Res Base.Proto.
From PV Require Import Gen.Types Gen.CodecFacts Model.Codec Model.CodecDom Proofs.CodecRTBase.
From Coq Require Import ZifyBool.
Open Scope Z_scope.
Ltac Zify.zify_post_hook ::= Z.to_euclidean_division_equations.

(* ------------------------------------------------------------------ induction on type terms *)
Section TyInd.
  Variable P : ty -> Prop.
  Hypothesis HBool : P TBool.
  Hypothesis HInt : forall sg w, P (TInt sg w).
  Hypothesis HReal : forall dbl, P (TReal dbl).
  Hypothesis HDateTime : P TDateTime.
  Hypothesis HStr : forall lsg lw enc, P (TStr lsg lw enc).
  Hypothesis HStringN : P TStringN.
  Hypothesis HStringI : P TStringI.
  Hypothesis HNBytes : forall n, P (TNBytes n).
  Hypothesis HBits : forall w, P (TBits w).
  Hypothesis HArrFixed : forall n e, P e -> P (TArrFixed n e).
  Hypothesis HArrPrefix : forall inst lt e, P lt -> P e -> P (TArrPrefix inst lt e).
  Hypothesis HArrAll : forall e, P e -> P (TArrAll e).
  Hypothesis HStruct : forall k ms, Forall (fun m => P (snd m)) ms -> P (TStruct k ms).
  Hypothesis HFixedStr : forall size lsg lw cap, P (TFixedStr size lsg lw cap).
  Hypothesis HStructTag : forall ms bits priv size, Forall (fun m => P (snd m)) ms -> P (TStructTag ms bits priv size).
  Hypothesis HIPAddr : P TIPAddr.
  Hypothesis HPcccAscii : P TPcccAscii.
  Hypothesis HPcccString : P TPcccString.

  Fixpoint ty_nested_ind (t : ty) : P t :=
    match t with
    | TBool => HBool
    | TInt sg w => HInt sg w
    | TReal dbl => HReal dbl
    | TDateTime => HDateTime
    | TStr a b c => HStr a b c
    | TStringN => HStringN
    | TStringI => HStringI
    | TNBytes n => HNBytes n
    | TBits w => HBits w
    | TArrFixed n e => HArrFixed n e (ty_nested_ind e)
    | TArrPrefix i lt e => HArrPrefix i lt e (ty_nested_ind lt) (ty_nested_ind e)
    | TArrAll e => HArrAll e (ty_nested_ind e)
    | TStruct k ms =>
        HStruct k ms ((fix go (l : list (key * ty)) : Forall (fun m => P (snd m)) l :=
                         match l with
                         | [] => Forall_nil _
                         | m :: r => Forall_cons m (ty_nested_ind (snd m)) (go r)
                         end) ms)
    | TFixedStr a b c d => HFixedStr a b c d
    | TStructTag ms bits priv size =>
        HStructTag ms bits priv size
          ((fix go (l : list ((key * nat) * ty)) : Forall (fun m => P (snd m)) l :=
              match l with
              | [] => Forall_nil _
              | m :: r => Forall_cons m (ty_nested_ind (snd m)) (go r)
              end) ms)
    | TIPAddr => HIPAddr
    | TPcccAscii => HPcccAscii
    | TPcccString => HPcccString
    end.
End TyInd.

(* ------------------------------------------------------------------ the statement, per type *)
(* decoding the encoding, followed by ANY further data [rest] (nothing, for a greedy type), returns
   the normal form of the value and leaves exactly [rest]; any fuel above the encoding's length will do *)
Definition RT (t : ty) : Prop :=
  wf_ty t = true -> forall v rest, in_dom t v = true -> (greedy t = true -> rest = []) ->
  exists bs, encode t v = Ok bs
             /\ forall fuel, (length bs < fuel)%nat -> decode_fuel fuel t (bs ++ rest) = DOk (norm t v) rest.
(* what Array(None, T) needs of T: no empty encodings, BufferEmptyError on the empty buffer *)
Definition NE (t : ty) : Prop :=
  wf_ty t = true -> consumes t = true -> forall v bs, in_dom t v = true -> encode t v = Ok bs -> bs <> [].
Definition EM (t : ty) : Prop :=
  wf_ty t = true -> consumes t = true -> forall fuel, decode_fuel fuel t [] = DEmpty [].

Lemma elem_decode_app size unpack (data rest : bytes) :
  length data = size -> (0 < size)%nat ->
  elem_decode size unpack (data ++ rest) = dwrap (dres_of_res (unpack data) rest).
Proof.
  intros Hl Hs. unfold elem_decode. replace (Z.of_nat size) with (zlen data) by (unfold zlen; lia).
  now rewrite stream_read_app.
Qed.

Lemma elem_decode_nil size unpack : (0 < size)%nat -> elem_decode size unpack [] = DEmpty [].
Proof. intros H. unfold elem_decode. now rewrite stream_read_nil by lia. Qed.

Ltac dom_val v H :=
  destruct v; try discriminate H.

(* ---- BOOL *)
Lemma rt_TBool : RT TBool.
Proof.
  intros _ v rest Hd _. cbn [in_dom] in Hd. dom_val v Hd.
  exists [if b then 255 else 0]. split.
  - cbn [encode]. unfold bool_encode, pub_encode. cbn [truthy wrap_all]. reflexivity.
  - intros fuel _. cbn [decode_fuel norm]. unfold bool_decode.
    rewrite elem_decode_app by (cbn; lia). destruct b; reflexivity.
Qed.
Lemma em_TBool : EM TBool.
Proof. intros _ _ fuel. cbn [decode_fuel]. apply elem_decode_nil. lia. Qed.

(* ---- integers *)
Lemma rt_TInt sg w : RT (TInt sg w).
Proof.
  intros Hwf v rest Hd _. cbn [wf_ty] in Hwf. cbn [in_dom] in Hd. dom_val v Hd.
  exists (le_enc w z). split.
  - cbn [encode]. now apply int_encode_ok.
  - intros fuel _. cbn [decode_fuel norm]. apply int_decode_ok; [lia|exact Hd].
Qed.
Lemma em_TInt sg w : EM (TInt sg w).
Proof. intros Hwf _ fuel. cbn [wf_ty] in Hwf. cbn [decode_fuel]. apply int_decode_nil. lia. Qed.

(* ---- REAL / LREAL *)
Lemma pow256_8 : pow256 8 = 2 ^ 64.
Proof. reflexivity. Qed.

Lemma canon64_dom b : negb (is_nan64 b) || (b =? nan64) = true -> canon64 b = b.
Proof.
  intros H. unfold canon64. destruct (is_nan64 b) eqn:E; [|reflexivity].
  cbn [negb orb] in H. lia.
Qed.

Lemma rt_TReal dbl : RT (TReal dbl).
Proof.
  intros _ v rest Hd _. cbn [in_dom] in Hd. dom_val v Hd. unfold real_dom in Hd.
  apply andb_prop in Hd as [Hd H3]. apply andb_prop in Hd as [H1 H2].
  pose proof (canon64_dom _ H2) as Hc. unfold b64_ok in H1.
  destruct dbl.
  - exists (le_enc 8 bits). split.
    + cbn [encode]. unfold real_encode, pub_encode, pack_real. cbn [as_float bind]. now rewrite Hc.
    + intros fuel _. cbn [decode_fuel norm real_norm]. unfold real_decode.
      rewrite elem_decode_app by (rewrite ?le_enc_length; lia).
      unfold unpack_real. rewrite le_enc_length. cbn [Nat.eqb dres_of_res dwrap].
      rewrite le_dec_enc, pow256_8, Z.mod_small by lia. now rewrite Hc.
  - destruct (round32 bits) as [s|] eqn:Er; [|discriminate].
    exists (le_enc 4 s). split.
    + cbn [encode]. unfold real_encode, pub_encode, pack_real. cbn [as_float bind]. now rewrite Er.
    + intros fuel _. cbn [decode_fuel norm real_norm]. rewrite Er. unfold real_decode.
      rewrite elem_decode_app by (rewrite ?le_enc_length; lia).
      unfold unpack_real. rewrite le_enc_length. cbn [Nat.eqb dres_of_res dwrap].
      rewrite le_dec_enc_id; [reflexivity|]. unfold in_urange in H3. lia.
Qed.
Lemma em_TReal dbl : EM (TReal dbl).
Proof. intros _ _ fuel. cbn [decode_fuel]. apply elem_decode_nil. destruct dbl; lia. Qed.

(* ---- StringDataType *)
Lemma enc_char_size_pos e : 0 < enc_char_size e.
Proof. destruct e; cbn; lia. Qed.

Lemma rt_TStr lsg lw e : RT (TStr lsg lw e).
Proof.
  intros Hwf v rest Hd _. cbn [wf_ty] in Hwf. cbn [in_dom] in Hd. dom_val v Hd.
  unfold str_dom in Hd. apply andb_prop in Hd as [Hi Hr].
  destruct (codec_inverts_spec _ _ Hi) as (d & He & Hl & Hdec).
  unfold code_units in Hr, Hl. rewrite He in Hr, Hl.
  pose proof (enc_char_size_pos e) as Hcs.
  set (n := zlen d / enc_char_size e) in *.
  exists (le_enc lw n ++ d). split.
  - cbn [encode]. unfold str_encode, pub_encode. rewrite He. cbn [bind]. fold n.
    rewrite int_encode_ok by exact Hr. reflexivity.
  - intros fuel _. cbn [decode_fuel norm]. unfold str_decode. rewrite <- app_assoc.
    rewrite int_decode_ok by (try lia; exact Hr). cbn [dbind as_int].
    destruct (n =? 0) eqn:E0.
    + assert (d = []) by (destruct d; [reflexivity|rewrite zlen_cons in Hl; pose proof (zlen_nonneg d); lia]).
      subst d. rewrite text_decode_nil in Hdec. injection Hdec as <-. reflexivity.
    + rewrite <- Hl, stream_read_app, Hdec. reflexivity.
Qed.
Lemma em_TStr lsg lw e : EM (TStr lsg lw e).
Proof. intros Hwf _ fuel. cbn [wf_ty] in Hwf. cbn [decode_fuel]. unfold str_decode. rewrite int_decode_nil by lia. reflexivity. Qed.

(* ---- STRINGN (character size 1: Latin-1) *)
Lemma stringn_dom_split s :
  stringn_dom s = true -> in_urange 2 (zlen s) = true /\ forallb (single_byte Latin1) s = true.
Proof. unfold stringn_dom. intros H. now apply andb_prop in H. Qed.

Lemma rt_TStringN : RT TStringN.
Proof.
  intros _ v rest Hd _. cbn [in_dom] in Hd. dom_val v Hd. apply stringn_dom_split in Hd as (Hr & Hs).
  exists (le_enc 2 1 ++ le_enc 2 (zlen s) ++ s). split.
  - cbn [encode]. unfold stringn_encode, stringn_encode_cs. cbn [as_int]. rewrite stringn_enc_1.
    rewrite text_encode_single by exact Hs. cbn [bind].
    rewrite (named_int_encode_ok _ _ _ _ int_row_UINT) by reflexivity. cbn [bind]. rewrite Z.div_1_r.
    rewrite (named_int_encode_ok _ _ _ _ int_row_UINT) by exact Hr. reflexivity.
  - intros fuel _. cbn [decode_fuel norm]. unfold stringn_decode. rewrite <- !app_assoc.
    rewrite (named_int_decode_ok _ _ _ _ _ int_row_UINT) by (try lia; reflexivity). cbn [dbind].
    rewrite (named_int_decode_ok _ _ _ _ _ int_row_UINT) by (try lia; exact Hr). cbn [dbind as_int].
    rewrite stringn_enc_1. destruct (zlen s =? 0) eqn:E0.
    + assert (s = []) by (destruct s; [reflexivity|rewrite zlen_cons in E0; pose proof (zlen_nonneg s); lia]).
      subst s. reflexivity.
    + rewrite Z.mul_1_r, stream_read_app. cbn [text_decode]. reflexivity.
Qed.
Lemma em_TStringN : EM TStringN.
Proof.
  intros _ _ fuel. cbn [decode_fuel]. unfold stringn_decode, named_int_decode. rewrite int_row_UINT.
  now rewrite int_decode_nil by lia.
Qed.

(* ---- DATE_AND_TIME *)
Lemma rt_TDateTime : RT TDateTime.
Proof.
  intros _ v rest Hd _. cbn [in_dom] in Hd.
  destruct v as [| | | | | | |items| |]; try discriminate Hd.
  destruct items as [|v1 items]; [discriminate Hd|]. destruct v1 as [| |t| | | | | | |]; try discriminate Hd.
  destruct items as [|v2 items]; [discriminate Hd|]. destruct v2 as [| |d| | | | | | |]; try discriminate Hd.
  destruct items as [|? ?]; [|discriminate Hd].
  apply andb_prop in Hd as [Ht Hdd].
  exists (le_enc 4 t ++ le_enc 2 d). split.
  - cbn [encode]. unfold datetime_encode, datetime_encode2. cbn [py_iter bind fst snd].
    rewrite (named_int_encode_ok _ _ _ _ int_row_UDINT) by exact Ht. cbn [bind].
    rewrite (named_int_encode_ok _ _ _ _ int_row_UINT) by exact Hdd. reflexivity.
  - intros fuel _. cbn [decode_fuel norm]. unfold datetime_decode. rewrite <- app_assoc.
    rewrite (named_int_decode_ok _ _ _ _ _ int_row_UDINT) by (try lia; exact Ht). cbn [dbind].
    rewrite (named_int_decode_ok _ _ _ _ _ int_row_UINT) by (try lia; exact Hdd). reflexivity.
Qed.
Lemma em_TDateTime : EM TDateTime.
Proof.
  intros _ _ fuel. cbn [decode_fuel]. unfold datetime_decode, named_int_decode. rewrite int_row_UDINT.
  now rewrite int_decode_nil by lia.
Qed.

(* ---- n_bytes *)
Lemma rt_TNBytes n : RT (TNBytes n).
Proof.
  intros Hwf v rest Hd Hg. cbn [wf_ty] in Hwf. cbn [in_dom] in Hd. cbn [greedy] in Hg. dom_val v Hd.
  apply andb_prop in Hd as [_ Hl].
  exists b. split.
  - cbn [encode]. unfold nbytes_encode, pub_encode. cbn [wrap_all].
    destruct (n =? -1) eqn:E1; [reflexivity|].
    destruct (n <? 0) eqn:E0; [lia|]. unfold slice_to. destruct (0 <=? n) eqn:E2; [|lia].
    rewrite ztake_all by lia. reflexivity.
  - intros fuel _. cbn [decode_fuel norm]. unfold nbytes_decode.
    destruct (n <? 0) eqn:E0.
    + rewrite (Hg eq_refl), app_nil_r. unfold stream_read, stream_take. rewrite E0.
      destruct b as [|x b]; [cbn in Hl; discriminate|].
      destruct (zlen (x :: b) <? n) eqn:E; [pose proof (zlen_nonneg (x :: b)); lia|reflexivity].
    + assert (n = zlen b) by lia. subst n. now rewrite stream_read_app.
Qed.
Lemma em_TNBytes n : EM (TNBytes n).
Proof.
  intros _ Hc fuel. cbn [consumes] in Hc. cbn [decode_fuel]. unfold nbytes_decode. now rewrite stream_read_nil by lia.
Qed.

(* ---- bit strings *)
Lemma rt_TBits w : RT (TBits w).
Proof.
  intros Hwf v rest Hd _. cbn [wf_ty] in Hwf. cbn [in_dom] in Hd. dom_val v Hd.
  apply andb_prop in Hd as [Hl Hb].
  exists (le_enc w (bits_value l)). split.
  - cbn [encode]. apply bits_encode_ok. lia.
  - intros fuel _. cbn [decode_fuel norm]. apply bits_decode_ok; [lia|lia|exact Hb].
Qed.
Lemma em_TBits w : EM (TBits w).
Proof. intros Hwf _ fuel. cbn [wf_ty] in Hwf. cbn [decode_fuel]. unfold bits_decode. now rewrite int_decode_nil by lia. Qed.

(* ---- FixedSizeString *)
Lemma py_slice_str s cap : py_slice (VStr s) 0 cap = Ok (VStr (firstn cap s)).
Proof. cbn [py_slice]. unfold slice. cbn [skipn]. now rewrite Nat.sub_0_r. Qed.

Lemma fixedstr_encode_ok size lsg lw cap s :
  let s' := firstn cap s in
  str_dom lsg lw Latin1 s' = true ->
  fixedstr_encode size lsg lw cap (VStr s) = Ok (le_enc lw (zlen s') ++ s' ++ zeros (size - length s')).
Proof.
  intros s' Hd. apply latin1_dom in Hd as [Hr Hs].
  unfold fixedstr_encode, pub_encode. rewrite fss_enc_latin1, py_slice_str. cbn [bind py_len]. fold s'.
  rewrite int_encode_ok by exact Hr. cbn [bind]. rewrite text_encode_single by exact Hs. reflexivity.
Qed.

Lemma rt_TFixedStr size lsg lw cap : RT (TFixedStr size lsg lw cap).
Proof.
  intros Hwf v rest Hd _. cbn [wf_ty] in Hwf. cbn [in_dom] in Hd. dom_val v Hd.
  apply andb_prop in Hd as [Hd Hc]. pose proof (fixedstr_encode_ok size lsg lw cap s Hd) as He. cbv zeta in He.
  apply latin1_dom in Hd as [Hr Hs]. set (s' := firstn cap s) in *.
  eexists. split; [cbn [encode]; exact He|].
  intros fuel _. cbn [decode_fuel norm]. unfold fixedstr_decode. rewrite fss_enc_latin1. rewrite <- !app_assoc.
  rewrite int_decode_ok by (try lia; exact Hr). cbn [dbind as_int].
  rewrite (app_assoc s').
  assert (Hlen : zlen (s' ++ zeros (size - length s')) = Z.of_nat size).
  { rewrite zlen_app. unfold zlen. rewrite zeros_length. lia. }
  rewrite <- Hlen. rewrite stream_read_app.
  unfold slice_to. pose proof (zlen_nonneg s'). destruct (0 <=? zlen s') eqn:E; [|lia].
  rewrite ztake_app_exact. cbn [text_decode]. reflexivity.
Qed.
Lemma em_TFixedStr size lsg lw cap : EM (TFixedStr size lsg lw cap).
Proof.
  intros Hwf _ fuel. cbn [wf_ty] in Hwf. cbn [decode_fuel]. unfold fixedstr_decode. rewrite fss_enc_latin1.
  now rewrite int_decode_nil by lia.
Qed.

(* ---- IPAddress *)
Lemma rt_TIPAddr : RT TIPAddr.
Proof.
  intros _ v rest Hd _. cbn [in_dom] in Hd. dom_val v Hd. unfold ip_dom in Hd.
  destruct (parse_ipv4 s) as [bs|] eqn:Ep; [|discriminate].
  assert (Hshape : exists a b c d, bs = [a; b; c; d]).
  { unfold parse_ipv4 in Ep. destruct (map octet (split_dot s [])) as [|[o1|] [|[o2|] [|[o3|] [|[o4|] [|? ?]]]]]; try discriminate.
    injection Ep as <-. now exists o1, o2, o3, o4. }
  destruct Hshape as (a & b & c & d & ->).
  exists [a; b; c; d]. split.
  - cbn [encode]. unfold ip_encode, pub_encode. now rewrite Ep.
  - intros fuel _. cbn [decode_fuel norm]. unfold ip_decode.
    change 4 with (zlen [a; b; c; d]). rewrite stream_read_app.
    cbn [dwrap]. now rewrite <- (parse_ipv4_text _ _ _ _ _ Ep).
Qed.
Lemma em_TIPAddr : EM TIPAddr.
Proof. intros _ _ fuel. cbn [decode_fuel]. unfold ip_decode. now rewrite stream_read_nil by lia. Qed.

(* ---- PCCC_ASCII / PCCC_STRING *)
Lemma rt_TPcccAscii : RT TPcccAscii.
Proof.
  intros _ v rest Hd _. cbn [in_dom] in Hd. dom_val v Hd.
  apply andb_prop in Hd as [Hl Hs]. destruct s as [|c1 [|c2 [|? ?]]]; try discriminate.
  cbn [forallb] in Hs. apply andb_prop in Hs as [H1 Hs]. apply andb_prop in Hs as [H2 _].
  exists [c2; c1]. split.
  - cbn [encode]. unfold pccc_ascii_encode, pub_encode. rewrite pccc_ascii_enc_latin1.
    cbn [py_slice slice skipn firstn Nat.sub bind py_iter map or_space_encode truthy text_encode].
    rewrite (single_byte_enc_char Latin1 c1 H1), (single_byte_enc_char Latin1 c2 H2). reflexivity.
  - intros fuel _. cbn [decode_fuel norm]. unfold pccc_ascii_decode. rewrite pccc_ascii_enc_latin1.
    change 2 with (zlen [c2; c1]). rewrite stream_read_app. reflexivity.
Qed.

Lemma rt_TPcccString : RT TPcccString.
Proof.
  intros _ v rest Hd Hg. cbn [in_dom] in Hd. dom_val v Hd. rewrite (Hg eq_refl).
  apply andb_prop in Hd as [Hd Hs]. apply andb_prop in Hd as [Hev Hl].
  destruct (slc_swap_involutive s Hev) as (t & Ht1 & Ht2 & Ht3).
  assert (Hr : int_in_range false 2 (zlen s) = true).
  { cbn [int_in_range]. unfold in_urange, zlen. change (pow256 2) with 65536. lia. }
  exists (le_enc 2 (zlen s) ++ t). split.
  - cbn [encode]. unfold pccc_string_encode, pub_encode. rewrite pccc_string_enc_latin1. cbn [py_len bind].
    rewrite (named_int_encode_ok _ _ _ _ int_row_UINT) by exact Hr. cbn [bind].
    rewrite text_encode_single by exact Hs. cbn [bind]. now rewrite Ht1.
  - intros fuel _. cbn [decode_fuel norm]. unfold pccc_string_decode. rewrite pccc_string_enc_latin1.
    rewrite app_nil_r.
    rewrite (named_int_decode_ok _ _ _ _ _ int_row_UINT) by (try lia; exact Hr). cbn [dbind].
    unfold stream_take. cbn [Z.ltb Z.compare]. rewrite ztake_all, zdrop_all by (unfold zlen; lia).
    rewrite Ht2. cbn [text_decode dwrap]. reflexivity.
Qed.

(* ------------------------------------------------------------------ fixed widths (for StructTag layouts) *)
(* every in-domain value of a fixed-width type encodes to exactly that many bytes *)
Definition FW (t : ty) : Prop :=
  forall w v bs, fixed_width t = Some w -> wf_ty t = true -> in_dom t v = true -> encode t v = Ok bs -> length bs = w.
(* a hidden host member decodes whatever its bytes are *)
Definition AD (t : ty) : Prop :=
  forall w bs rest fuel, always_decodes t = true -> fixed_width t = Some w -> length bs = w ->
  exists v, decode_fuel fuel t (bs ++ rest) = DOk v rest /\ (is_bits t = true -> exists l, v = VList l).

Lemma fw_none t : fixed_width t = None -> FW t.
Proof. intros H w v bs Hw. congruence. Qed.
Lemma ad_none t : always_decodes t = false -> AD t.
Proof. intros H w bs rest fuel Ha. congruence. Qed.

Lemma fw_TBool : FW TBool.
Proof.
  intros w v bs Hw _ Hd. cbn in Hw. injection Hw as <-. cbn [in_dom] in Hd. dom_val v Hd.
  cbn [encode]. unfold bool_encode, pub_encode. cbn [wrap_all]. intros H. now injection H as <-.
Qed.
Lemma ad_TBool : AD TBool.
Proof.
  intros w bs rest fuel _ Hw Hl. cbn in Hw. injection Hw as <-. cbn [decode_fuel]. unfold bool_decode.
  rewrite elem_decode_app by (try exact Hl; lia). cbn [dres_of_res dwrap]. eexists. split; [reflexivity|discriminate].
Qed.

Lemma fw_TDateTime : FW TDateTime.
Proof.
  intros w v bs Hw _ Hd He. cbn in Hw. injection Hw as <-.
  destruct (rt_TDateTime eq_refl v [] Hd (fun _ => eq_refl)) as (bs' & He' & _).
  rewrite He in He'. injection He' as <-. cbn [in_dom] in Hd.
  destruct v as [| | | | | | |items| |]; try discriminate Hd.
  destruct items as [|v1 items]; [discriminate Hd|]. destruct v1 as [| |t| | | | | | |]; try discriminate Hd.
  destruct items as [|v2 items]; [discriminate Hd|]. destruct v2 as [| |d| | | | | | |]; try discriminate Hd.
  destruct items as [|? ?]; [|discriminate Hd].
  apply andb_prop in Hd as [Ht Hdd].
  cbn [encode] in He. unfold datetime_encode, datetime_encode2 in He. cbn [py_iter bind fst snd] in He.
  rewrite (named_int_encode_ok _ _ _ _ int_row_UDINT) in He by exact Ht. cbn [bind] in He.
  rewrite (named_int_encode_ok _ _ _ _ int_row_UINT) in He by exact Hdd. cbn [bind wrap_all] in He.
  injection He as <-. first [reflexivity | rewrite app_length, !le_enc_length; reflexivity].
Qed.
Lemma ad_TDateTime : AD TDateTime.
Proof.
  intros w bs rest fuel _ Hw Hl. cbn in Hw. injection Hw as <-.
  cbn [decode_fuel]. unfold datetime_decode, named_int_decode. rewrite int_row_UDINT, int_row_UINT.
  rewrite <- (firstn_skipn 4 bs), <- app_assoc.
  unfold int_decode at 1. rewrite elem_decode_app by (try (rewrite firstn_length; lia); lia).
  unfold unpack_int at 1. rewrite firstn_length. replace (Nat.min 4 (length bs)) with 4%nat by lia.
  cbn [Nat.eqb dres_of_res dwrap dbind].
  unfold int_decode. rewrite elem_decode_app by (try (rewrite skipn_length; lia); lia).
  unfold unpack_int. rewrite skipn_length. replace (length bs - 4)%nat with 2%nat by lia.
  cbn [Nat.eqb dres_of_res dwrap dbind]. eexists. split; [reflexivity|discriminate].
Qed.

Lemma fw_TNBytes n : FW (TNBytes n).
Proof.
  intros w v bs Hw Hwf Hd He. cbn [fixed_width] in Hw. destruct (0 <=? n) eqn:E; [|discriminate]. injection Hw as <-.
  destruct (rt_TNBytes n Hwf v [] Hd ltac:(cbn [greedy]; lia)) as (bs' & He' & _).
  rewrite He in He'. injection He' as <-.
  cbn [in_dom] in Hd. dom_val v Hd. apply andb_prop in Hd as [_ Hl]. destruct (n <? 0) eqn:E0; [lia|].
  cbn [encode] in He. unfold nbytes_encode, pub_encode in He. cbn [wrap_all] in He.
  destruct (n =? -1) eqn:E1; [lia|]. injection He as <-. unfold slice_to. rewrite E.
  rewrite ztake_all by lia. unfold zlen in Hl. lia.
Qed.
Lemma ad_TNBytes n : AD (TNBytes n).
Proof.
  intros w bs rest fuel Ha Hw Hl. cbn [always_decodes] in Ha. cbn [fixed_width] in Hw. rewrite Ha in Hw. injection Hw as <-.
  cbn [decode_fuel]. unfold nbytes_decode. replace n with (zlen bs) by (unfold zlen; lia).
  rewrite stream_read_app. cbn [dwrap]. eexists. split; [reflexivity|discriminate].
Qed.

Lemma fw_TInt sg w0 : FW (TInt sg w0).
Proof.
  intros w v bs Hw _ Hd. cbn in Hw. injection Hw as <-. cbn [in_dom] in Hd. dom_val v Hd.
  cbn [encode]. rewrite int_encode_ok by exact Hd. intros H. injection H as <-. apply le_enc_length.
Qed.
Lemma ad_TInt sg w0 : AD (TInt sg w0).
Proof.
  intros w bs rest fuel Ha Hw Hl. cbn in Hw. injection Hw as <-. cbn [always_decodes] in Ha.
  cbn [decode_fuel]. unfold int_decode. rewrite elem_decode_app by (try exact Hl; lia).
  unfold unpack_int. rewrite Hl, Nat.eqb_refl. cbn [dres_of_res dwrap]. eexists. split; [reflexivity|discriminate].
Qed.

Lemma fw_TReal dbl : FW (TReal dbl).
Proof.
  intros w v bs Hw _ Hd He. cbn in Hw. injection Hw as <-.
  cbn [in_dom] in Hd. dom_val v Hd. unfold real_dom in Hd.
  apply andb_prop in Hd as [Hd H3]. cbn [encode] in He. unfold real_encode, pub_encode, pack_real in He. cbn [as_float bind] in He.
  destruct dbl.
  - cbn [wrap_all] in He. injection He as <-. first [apply le_enc_length|reflexivity].
  - destruct (round32 bits); [|discriminate]. cbn [wrap_all] in He. injection He as <-. first [apply le_enc_length|reflexivity].
Qed.
Lemma ad_TReal dbl : AD (TReal dbl).
Proof.
  intros w bs rest fuel _ Hw Hl. cbn in Hw. injection Hw as <-. cbn [decode_fuel]. unfold real_decode.
  rewrite elem_decode_app by (try exact Hl; destruct dbl; lia).
  unfold unpack_real. rewrite Hl. destruct dbl; cbn [Nat.eqb dres_of_res dwrap]; eexists; (split; [reflexivity|discriminate]).
Qed.

Lemma fw_TBits w0 : FW (TBits w0).
Proof.
  intros w v bs Hw _ Hd. cbn in Hw. injection Hw as <-. cbn [in_dom] in Hd. dom_val v Hd.
  apply andb_prop in Hd as [Hl _]. cbn [encode]. rewrite bits_encode_ok by lia. intros H. injection H as <-. apply le_enc_length.
Qed.
Lemma ad_TBits w0 : AD (TBits w0).
Proof.
  intros w bs rest fuel Ha Hw Hl. cbn in Hw. injection Hw as <-. cbn [always_decodes] in Ha.
  cbn [decode_fuel]. unfold bits_decode, int_decode. rewrite elem_decode_app by (try exact Hl; lia).
  unfold unpack_int. rewrite Hl, Nat.eqb_refl. cbn [dres_of_res dwrap dbind]. eexists. split; [reflexivity|]. intros _. eexists. reflexivity.
Qed.

Lemma fw_TFixedStr size lsg lw cap : FW (TFixedStr size lsg lw cap).
Proof.
  intros w v bs Hw _ Hd. cbn in Hw. injection Hw as <-. cbn [in_dom] in Hd. dom_val v Hd.
  apply andb_prop in Hd as [Hd Hc]. cbn [encode]. rewrite fixedstr_encode_ok by exact Hd.
  intros H. injection H as <-. rewrite !app_length, le_enc_length, zeros_length. lia.
Qed.

Lemma fw_TIPAddr : FW TIPAddr.
Proof.
  intros w v bs Hw _ Hd He. cbn in Hw. injection Hw as <-.
  destruct (rt_TIPAddr eq_refl v [] Hd (fun _ => eq_refl)) as (bs' & He' & _).
  rewrite He in He'. injection He' as <-.
  cbn [in_dom] in Hd. dom_val v Hd. unfold ip_dom in Hd.
  cbn [encode] in He. unfold ip_encode, pub_encode in He.
  destruct (parse_ipv4 s) as [b4|] eqn:Ep; [|discriminate]. cbn [wrap_all] in He. injection He as <-.
  unfold parse_ipv4 in Ep. destruct (map octet (split_dot s [])) as [|[o1|] [|[o2|] [|[o3|] [|[o4|] [|? ?]]]]]; try discriminate.
  injection Ep as <-. reflexivity.
Qed.
Lemma ad_TIPAddr : AD TIPAddr.
Proof.
  intros w bs rest fuel _ Hw Hl. cbn in Hw. injection Hw as <-.
  destruct bs as [|a [|b [|c [|d [|? ?]]]]]; try discriminate Hl.
  cbn [decode_fuel]. unfold ip_decode. change 4 with (zlen [a; b; c; d]). rewrite stream_read_app.
  cbn [dwrap]. eexists. split; [reflexivity|discriminate].
Qed.

Lemma fw_TPcccAscii : FW TPcccAscii.
Proof.
  intros w v bs Hw _ Hd He. cbn in Hw. injection Hw as <-.
  destruct (rt_TPcccAscii eq_refl v [] Hd (fun _ => eq_refl)) as (bs' & He' & _).
  rewrite He in He'. injection He' as <-.
  cbn [in_dom] in Hd. dom_val v Hd.
  apply andb_prop in Hd as [Hl Hs]. destruct s as [|c1 [|c2 [|? ?]]]; try discriminate.
  cbn [forallb] in Hs. apply andb_prop in Hs as [H1 Hs]. apply andb_prop in Hs as [H2 _].
  cbn [encode] in He. unfold pccc_ascii_encode, pub_encode in He. rewrite pccc_ascii_enc_latin1 in He.
  cbn [py_slice slice skipn firstn Nat.sub bind py_iter map or_space_encode truthy text_encode] in He.
  rewrite (single_byte_enc_char Latin1 c1 H1), (single_byte_enc_char Latin1 c2 H2) in He.
  cbn in He. injection He as <-. reflexivity.
Qed.
