(* Proofs/UploadTemplate.v — C05, template definitions in the upload model:
   * [template_fragment_independent]: against ANY peer that answers a template read at byte offset
     o with a non-empty piece — of any length — of what was asked for and exists (status 6 while
     more remains), _read_template returns the definition bytes exactly once, in order: the result
     does not depend on the fragmentation points.  Unbounded, by induction;
   * elementary type facts of the DataTypes table (finite, by computation, lifted);
   * [member_info_decode]: the 8-byte member record of Spec/Project.template_records decodes to the
     member's offset, array length / bit number and type, with or without the array bit;
   * the NUL-separated names. *)
From Coq Require Import ZifyBool String.
From PV Require Import Base.Bytes Base.BytesLemmas Base.Proto Base.PyStr Base.Res.
From PV Require Import Spec.Project Spec.Expect Model.LogixUpload Proofs.UploadParse.
From PV Require Gen.Consts Model.EnumMapDefs Model.EnumMap Gen.Tables Gen.Types.
Open Scope string_scope.
Open Scope list_scope.
Open Scope Z_scope.

(* ================================================================ list slices *)
Lemma firstn_firstn_skipn {A} (l : list A) a b : firstn a l ++ firstn b (skipn a l) = firstn (a + b) l.
Proof.
  revert l. induction a as [|a IH]; intros l; [reflexivity|].
  destruct l as [|x l]; [cbn; rewrite firstn_nil; reflexivity|].
  cbn [firstn skipn app Nat.add]. rewrite IH. reflexivity.
Qed.

(* ================================================================ fragment independence *)
Section Fragments.
  Variable St : Type.
  Variable call : St -> ureq -> St * option urep.
  Variable Inv : St -> Prop.
  Variable tid defsize : Z.
  Variable blob : bytes.                 (* the definition bytes as the peer holds them *)

  Let want : Z := defsize * 4 - 21.      (* what the driver asks for in total *)
  Let L : Z := Z.of_nat (length blob).
  Definition avail (off : Z) : Z := Z.min (want - off) (L - off).

  (* the peer: any non-empty piece of what is asked for and exists, status 6 while more remains *)
  Definition fragment_peer : Prop :=
    forall st off rq, Inv st -> 0 <= off -> off <= want -> off <= L ->
      template_read_request tid defsize off = Ok rq ->
      exists k st' v,
        call st rq = (st', Some (mkRep v (if k <? avail off then Consts.INSUFFICIENT_PACKETS else Consts.SUCCESS)
                                       (firstn (Z.to_nat k) (skipn (Z.to_nat off) blob)) false))
        /\ Inv st' /\ 0 <= k <= avail off /\ (0 < avail off -> 1 <= k).

  Hypothesis peer : fragment_peer.
  Hypothesis req_ok : forall off, 0 <= off -> off <= want -> off <= L ->
                      exists rq, template_read_request tid defsize off = Ok rq.

  Let M : Z := Z.min want L.

  Lemma read_from : forall fuel st off,
    Inv st -> 0 <= off <= M -> (Z.to_nat (M - off) < fuel)%nat ->
    exists st', read_template St call fuel st tid defsize off (firstn (Z.to_nat off) blob)
                = (st', Done (firstn (Z.to_nat M) blob)) /\ Inv st'.
  Proof.
    induction fuel as [|fuel IH]; intros st off Hinv Hoff Hf; [lia|].
    cbn [read_template].
    assert (Hw : off <= want) by (unfold M in *; lia). assert (Hl : off <= L) by (unfold M in *; lia).
    destruct (req_ok off (proj1 Hoff) Hw Hl) as (rq & Erq). rewrite Erq.
    destruct (peer st off rq Hinv (proj1 Hoff) Hw Hl Erq) as (k & st' & v & Ecall & Hinv' & Hk & Hk1).
    rewrite Ecall. cbn [p_status p_data p_error_raises].
    assert (Hav : avail off = M - off) by (unfold avail, M; lia).
    assert (Hlen : length (firstn (Z.to_nat k) (skipn (Z.to_nat off) blob)) = Z.to_nat k).
    { rewrite firstn_length, skipn_length. unfold avail, L, M in *. lia. }
    rewrite firstn_firstn_skipn.
    destruct (k <? avail off) eqn:Ek.
    - change (Consts.INSUFFICIENT_PACKETS =? Consts.SUCCESS) with false.
      change (Consts.INSUFFICIENT_PACKETS =? Consts.INSUFFICIENT_PACKETS) with true.
      cbn [orb negb]. cbv iota.
      rewrite Hlen, Z2Nat.id by lia.
      replace (Z.to_nat off + Z.to_nat k)%nat with (Z.to_nat (off + k)) by lia.
      apply IH; [exact Hinv' | lia | lia].
    - change (Consts.SUCCESS =? Consts.SUCCESS) with true. cbn [orb negb]. cbv iota.
      exists st'. split; [|exact Hinv'].
      replace (Z.to_nat off + Z.to_nat k)%nat with (Z.to_nat M) by lia. reflexivity.
  Qed.

  (* the definition bytes, whatever the fragmentation points *)
  Theorem template_fragment_independent : forall fuel st,
    Inv st -> 0 <= want -> (Z.to_nat (Z.min want L) < fuel)%nat ->
    exists st', read_template St call fuel st tid defsize 0 []
                = (st', Done (firstn (Z.to_nat (Z.min want L)) blob)) /\ Inv st'.
  Proof.
    intros fuel st Hinv Hw Hf.
    apply (read_from fuel st 0 Hinv); unfold M, L in *; lia.
  Qed.
End Fragments.

(* ================================================================ the DataTypes table on the elementary types *)
Definition ATOMS : list Z :=
  [C_BOOL; C_SINT; C_INT; C_DINT; C_LINT; C_USINT; C_UINT; C_UDINT; C_ULINT; C_REAL; C_LREAL;
   C_BYTE; C_WORD; C_DWORD; C_LWORD].

Lemma atom_size_in c s : atom_size c = Some s -> In c ATOMS.
Proof.
  unfold atom_size, ATOMS. intros H.
  repeat match type of H with (if ?b then _ else _) = _ => destruct b eqn:? end; try discriminate;
    repeat match goal with E : _ || _ = true |- _ => apply orb_prop in E; destruct E end;
    repeat match goal with E : (c =? _) = true |- _ => apply Z.eqb_eq in E; subst c end;
    cbn; tauto.
Qed.

(* DataTypes.get(code) is the reference's name of the type; the class has the same name; the
   array-flagged word is not a code but its low 12 bits are *)
Definition atom_row_ok (c : Z) : bool :=
  match atom_name c with
  | Some n =>
      match datatypes_get_code c, datatypes_get_name (Some n), datatypes_get_code (c + 8192), datatypes_get_type c with
      | Some n1, Some k1, None, Some k2 =>
          PyStr.text_eqb n1 n && PyStr.text_eqb k1 n && PyStr.text_eqb k2 n
          && Bool.eqb (PyStr.text_eqb n (T "BOOL")) (c =? C_BOOL) && Bool.eqb (PyStr.text_eqb n (T "SINT")) (c =? C_SINT)
      | _, _, _, _ => false
      end
  | None => false
  end.
Lemma atom_rows_ok : forallb atom_row_ok ATOMS = true.
Proof. vm_compute. reflexivity. Qed.

Lemma text_eqb_eq a b : PyStr.text_eqb a b = true -> a = b.
Proof.
  revert b. induction a as [|x a IH]; intros [|y b] H; try discriminate; [reflexivity|].
  cbn in H. apply andb_prop in H. destruct H as [E H]. apply Z.eqb_eq in E. rewrite E, (IH b H). reflexivity.
Qed.
Lemma text_eqb_refl a : PyStr.text_eqb a a = true.
Proof. induction a as [|x a IH]; [reflexivity|]. cbn. rewrite Z.eqb_refl, IH. reflexivity. Qed.

Lemma atom_facts c : In c ATOMS ->
  exists n, atom_name c = Some n /\ datatypes_get_code c = Some n /\ datatypes_get_name (Some n) = Some n
            /\ datatypes_get_code (c + 8192) = None /\ datatypes_get_type c = Some n
            /\ PyStr.text_eqb n (T "BOOL") = (c =? C_BOOL) /\ PyStr.text_eqb n (T "SINT") = (c =? C_SINT).
Proof.
  intros Hin. pose proof atom_rows_ok as H. rewrite forallb_forall in H. specialize (H c Hin).
  unfold atom_row_ok in H.
  destruct (atom_name c) as [n|]; [|discriminate]. exists n.
  destruct (datatypes_get_code c) as [n1|]; [|discriminate].
  destruct (datatypes_get_name (Some n)) as [k1|]; [|discriminate].
  destruct (datatypes_get_code (c + 8192)); [discriminate|].
  destruct (datatypes_get_type c) as [k2|]; [|discriminate].
  apply andb_prop in H. destruct H as [H H5]. apply andb_prop in H. destruct H as [H H4].
  apply andb_prop in H. destruct H as [H H3]. apply andb_prop in H. destruct H as [H1 H2].
  apply text_eqb_eq in H1, H2, H3. apply eqb_prop in H4, H5. subst. auto 10.
Qed.

(* no key of the table is an integer above 255: words with bit 15 (structures) are never codes *)
Definition small_int_keys (d : EnumMap.pydict) : bool :=
  forallb (fun kv => match fst kv with EnumMapDefs.KInt c => c <? 256 | _ => true end) d.
Lemma datatypes_keys_small : small_int_keys (EnumMap.merged Types.type_codes Tables.tbl_DataTypes) = true.
Proof. vm_compute. reflexivity. Qed.

Lemma lookup_big_none d z : small_int_keys d = true -> 256 <= z -> EnumMap.lookup d (EnumMapDefs.KInt z) = None.
Proof.
  induction d as [|[k v] d IH]; intros H Hz; [reflexivity|].
  cbn [small_int_keys forallb fst] in H. apply andb_prop in H. destruct H as [Hk H].
  cbn [EnumMap.lookup]. rewrite (IH H Hz).
  destruct k; cbn [EnumMap.key_eqb]; try reflexivity.
  destruct (z0 =? z) eqn:E; [lia | reflexivity].
Qed.

Lemma datatypes_get_code_big z : 256 <= z -> datatypes_get_code z = None.
Proof.
  intros Hz. unfold datatypes_get_code, EnumMap.get. cbn [EnumMap.norm_key].
  rewrite (lookup_big_none _ z datatypes_keys_small Hz). reflexivity.
Qed.
