(* Proofs/WriteMsg.v — the write request messages (C02): assembled once, laid out as the
   SPECIFICATION side reads them.

     build_message_once     RequestPacket.build_message is idempotent: building a built packet again
                            returns the same packet with the same message (what the `_msg_setup` flag
                            is for; the pinned tree cleared the flag and so doubled the message)
     write_message / frag_message / rmw_message
                            the bytes of the three write requests: sequence count, service, path, type
                            (code | A0 02 handle), element count, [offset], data / mask size, masks
     parse_mr_message       the target's message-router parser splits them into service, path, data
     svc_write_accepts / svc_write_frag_accepts / svc_rmw_accepts
                            the target's (strict) services execute exactly the store the message
                            describes when type, count and length are those of the addressed tag *)
From Coq Require Import ZifyBool.
From PV Require Import Base.Bytes Base.BytesLemmas Base.Res Base.PyStr Model.Path Model.LogixWrite.
From PV Require Import Spec.EncapParser Spec.MRParser Spec.TargetIface Spec.TargetCore Spec.Project Spec.Expect Spec.TargetLogix.
From PV Require Import Proofs.TargetCoreP Proofs.TargetLogixP.
Open Scope Z_scope.
Ltac Zify.zify_post_hook ::= Z.to_euclidean_division_equations.

(* the service codes the model reads from the regenerated Services table *)
Lemma svc_codes : SVC_WRITE = [77] /\ SVC_WRITE_FRAG = [83] /\ SVC_RMW = [78] /\ SVC_MULTI = [10].
Proof. vm_compute. repeat split; reflexivity. Qed.

Lemma uint_encode_ok w z : in_urange w z = true -> uint_encode w z = Ok (le_enc w z).
Proof. unfold uint_encode. intros ->. reflexivity. Qed.
Lemma in_urange2 z : 0 <= z < 65536 -> in_urange 2 z = true.
Proof. unfold in_urange. change (pow256 2) with 65536. lia. Qed.
Lemma in_urange4 z : 0 <= z < 4294967296 -> in_urange 4 z = true.
Proof. unfold in_urange. change (pow256 4) with 4294967296. lia. Qed.
Lemma UINT_ok z : 0 <= z < 65536 -> UINT_encode z = Ok (le_enc 2 z).
Proof. intros H. apply uint_encode_ok, in_urange2, H. Qed.
Lemma UDINT_ok z : 0 <= z < 4294967296 -> UDINT_encode z = Ok (le_enc 4 z).
Proof. intros H. apply uint_encode_ok, in_urange4, H. Qed.

(* ================================================================ build_message is idempotent *)
Lemma build_fixpoint q m path f :
  build_message (set_msg q true m (concat m) path f) = Ok (set_msg q true m (concat m) path f).
Proof. destruct q. reflexivity. Qed.

Theorem build_message_once p p1 :
  build_message p = Ok p1 ->
  build_message p1 = Ok p1 /\ k_msg_setup p1 = true /\ k_message p1 = concat (k_msg p1).
Proof.
  unfold build_message. intros H.
  assert (G : exists q m path f, p1 = set_msg q true m (concat m) path f).
  { destruct (k_msg_setup p) eqn:E.
    - injection H as <-. exists p, (k_msg p), (k_path p), (k_failed p). rewrite E. reflexivity.
    - destruct (setup_message p) as [p0|e]; [|discriminate]. injection H as <-.
      eexists _, _, _, _. cbn [k_msg_setup k_msg k_path k_failed set_msg]. reflexivity. }
  destruct G as (q & m & path & f & ->). split; [apply build_fixpoint|]. destruct q. split; reflexivity.
Qed.

(* the second build (at send time) sends the message that was sized at planning time *)
Corollary build_message_twice p p1 p2 :
  build_message p = Ok p1 -> build_message p1 = Ok p2 -> k_message p2 = k_message p1.
Proof. intros H1 H2. destruct (build_message_once _ _ H1) as [E _]. rewrite E in H2. injection H2 as <-. reflexivity. Qed.

(* ================================================================ message layouts *)
Definition write_data (pt : bytes) (elements : Z) (value : bytes) : bytes := pt ++ le_enc 2 elements ++ value.
Definition frag_data (pt : bytes) (elements offset : Z) (seg : bytes) : bytes := pt ++ le_enc 2 elements ++ le_enc 4 offset ++ seg.
Definition rmw_data (size : Z) (o a : bytes) : bytes := le_enc 2 size ++ o ++ a.

Theorem write_message seq tag elements info id ui value p path :
  new_write_packet KWrite seq tag elements info id ui 0 value = Ok p ->
  path_of tag info ui = Ok (Some path) -> 0 <= seq < 65536 -> 0 <= elements < 65536 ->
  exists p1, build_message p = Ok p1
    /\ k_message p1 = le_enc 2 seq ++ [77] ++ path ++ write_data (k_packed_type p) elements value
    /\ k_value p1 = value /\ k_path p1 = Some path /\ k_elements p1 = elements /\ k_packed_type p1 = k_packed_type p.
Proof.
  intros Hn Hp Hs He. unfold new_write_packet in Hn. destruct (packed_data_type info) as [pt|]; [|discriminate].
  injection Hn as <-.
  unfold build_message, setup_message, tag_only_message. cbn [k_msg_setup k_seq k_kind k_path k_tag k_info k_use_inst k_msg k_elements
    k_added k_message k_failed k_value k_packed_type set_msg].
  rewrite (UINT_ok seq Hs), Hp.
  cbn [k_msg_setup k_seq k_kind k_path k_tag k_info k_use_inst k_msg k_elements k_added k_message k_failed k_value k_packed_type set_msg].
  rewrite (UINT_ok elements He).
  eexists. split; [reflexivity|]. cbn [k_message k_value k_path k_elements k_packed_type set_msg k_msg concat app].
  destruct svc_codes as (-> & _). unfold write_data. rewrite ?app_nil_r, <- ?app_assoc. repeat split; reflexivity.
Qed.

Theorem frag_message seq r off seg p :
  frag_from_request seq r off seg = Ok p -> seg <> [] -> k_path r <> None ->
  0 <= seq < 65536 -> 0 <= k_elements r < 65536 -> 0 <= off < 4294967296 ->
  exists p1 path, k_path r = Some path /\ build_message p = Ok p1
    /\ k_message p1 = le_enc 2 seq ++ [83] ++ path ++ frag_data (k_packed_type p) (k_elements r) off seg.
Proof.
  intros Hn Hseg Hpath Hs He Ho. unfold frag_from_request, new_write_packet in Hn.
  destruct (packed_data_type (k_info r)) as [pt|]; [|discriminate]. injection Hn as <-.
  destruct (k_path r) as [path|] eqn:EP; [|congruence].
  destruct seg as [|b seg']; [congruence|].
  unfold build_message, setup_message, tag_only_message. cbn [k_msg_setup k_seq k_kind k_path k_tag k_info k_use_inst k_msg k_elements
    k_added k_message k_failed k_value k_packed_type k_offset set_msg].
  rewrite (UINT_ok seq Hs).
  cbn [k_msg_setup k_seq k_kind k_path k_tag k_info k_use_inst k_msg k_elements k_added k_message k_failed k_value k_packed_type k_offset set_msg].
  rewrite (UINT_ok _ He), (UDINT_ok off Ho).
  eexists _, path. split; [reflexivity|]. split; [reflexivity|].
  cbn [k_message k_packed_type set_msg k_msg concat app].
  destruct svc_codes as (_ & -> & _). unfold frag_data. rewrite ?app_nil_r, <- ?app_assoc. reflexivity.
Qed.

Theorem rmw_message p size o a path ob ab :
  k_kind p = KRmw -> k_msg_setup p = false -> k_msg p = [] -> k_added p = [] -> k_path p = Some path ->
  k_mask_size p = size -> k_or p = o -> k_and p = a ->
  0 <= k_seq p < 65536 -> 0 <= size < 65536 -> mask_bytes o size = Ok ob -> mask_bytes a size = Ok ab ->
  exists p1, build_message p = Ok p1 /\ k_message p1 = le_enc 2 (k_seq p) ++ [78] ++ path ++ rmw_data size ob ab.
Proof.
  intros Hk Hsu Hm Had Hp Hsz Hor Han Hs Hsize Ho Ha.
  unfold build_message, setup_message. rewrite Hsu, Hk, Hm, Hp, Hsz, Hor, Han, (UINT_ok _ Hs), (UINT_ok _ Hsize), Ho, Ha.
  cbn [k_msg k_added k_message k_path k_failed k_msg_setup set_msg]. rewrite Had.
  eexists. split; [reflexivity|]. cbn [k_message set_msg concat app].
  destruct svc_codes as (_ & _ & -> & _). unfold rmw_data. rewrite ?app_nil_r, <- ?app_assoc. reflexivity.
Qed.

(* ================================================================ the target reads them *)
(* a counted padded path: word count, then that many words *)
Definition counted_path (path : bytes) (body : bytes) : Prop :=
  exists w, path = w :: body /\ EncapParser.blen body = 2 * w.

Theorem parse_mr_message svc path body data :
  0 <= svc < 128 -> counted_path path body ->
  parse_mr ([svc] ++ path ++ data) = RcOk {| mr_service := svc; mr_path := body; mr_data := data |}.
Proof.
  intros Hs (w & -> & Hw). unfold parse_mr. cbn [app].
  replace (128 <=? svc) with false by lia. rewrite <- Hw, takez_app. reflexivity.
Qed.

(* ---- the type field *)
Lemma parse_wtype_atom c r : 0 <= c < 65536 -> c mod 256 <> 160 ->
  parse_wtype (le_enc 2 c ++ r) = Some (inl c, r).
Proof.
  intros Hc Hne. cbn [le_enc app]. set (c0 := c mod 256) in *. set (c1 := (c / 256) mod 256).
  assert (E : u16 c0 c1 = c) by (subst c0 c1; apply u16_enc, Hc).
  unfold parse_wtype.
  destruct c0 as [|q|q]; try (rewrite E; reflexivity).
  do 8 (destruct q as [q|q|]; try (rewrite E; reflexivity)).
  all: try (exfalso; apply Hne; reflexivity).
Qed.

Lemma parse_wtype_struct h r : 0 <= h < 65536 ->
  parse_wtype (160 :: 2 :: le_enc 2 h ++ r) = Some (inr h, r).
Proof. intros Hh. cbn [le_enc app parse_wtype]. rewrite u16_enc by exact Hh. reflexivity. Qed.

(* ---- Write Tag 0x4D *)
Theorem svc_write_accepts p m img l data ty n value s :
  parse_wtype data = Some (ty, le_enc 2 n ++ value) ->
  type_matches p l ty = true -> loc_esize p l = Some s ->
  1 <= n <= w_avail l -> n < 65536 -> Expect.blen value = n * s ->
  svc_write p m img l data = do_store 77 m img l 0 value.
Proof.
  intros Hp Ht Hs Hn Hn2 Hl. unfold svc_write. rewrite Hp. cbn [le_enc app]. rewrite Hs, Ht. cbn [negb].
  rewrite u16_enc by lia.
  replace ((n <? 1) || (w_avail l <? n)) with false by lia.
  replace (Expect.blen value <? n * s) with false by lia.
  replace (n * s <? Expect.blen value) with false by lia. reflexivity.
Qed.

(* ---- Write Tag Fragmented 0x53: the memory and the reply are those of the store (an information
   event is added when the fragment splits an element) *)
Theorem svc_write_frag_accepts p m img l data ty n off seg s :
  parse_wtype data = Some (ty, le_enc 2 n ++ le_enc 4 off ++ seg) ->
  type_matches p l ty = true -> loc_esize p l = Some s ->
  1 <= n <= w_avail l -> n < 65536 -> 0 <= off < 4294967296 ->
  1 <= Expect.blen seg -> off < n * s -> off + Expect.blen seg <= n * s ->
  fst (svc_write_frag p m img l data) = fst (do_store 83 m img l off seg)
  /\ exists extra, snd (svc_write_frag p m img l data) = snd (do_store 83 m img l off seg) ++ extra
       /\ Forall (fun e => match e with EvApp 3 _ _ => True | _ => False end) extra.
Proof.
  intros Hp Ht Hs Hn Hn2 Ho Hl1 Hl2 Hl3. unfold svc_write_frag. rewrite Hp. cbn [le_enc app]. rewrite Hs, Ht. cbn [negb].
  rewrite u16_enc by lia.
  replace (u32 (off mod 256) ((off / 256) mod 256) ((off / 256 / 256) mod 256) ((off / 256 / 256 / 256) mod 256)) with off
    by (symmetry; apply u32_enc, Ho).
  replace ((n <? 1) || (w_avail l <? n)) with false by lia.
  replace (Expect.blen seg <? 1) with false by lia.
  replace (n * s <=? off) with false by lia.
  replace (n * s <? off + Expect.blen seg) with false by lia.
  destruct (do_store 83 m img l off seg) as [[m' rp] evs].
  destruct (negb (loc_is_struct l) && (negb (off mod s =? 0) || negb (Expect.blen seg mod s =? 0))); cbn [fst snd].
  - split; [reflexivity|]. eexists. split; [reflexivity|]. repeat constructor.
  - split; [reflexivity|]. exists []. rewrite app_nil_r. split; [reflexivity|constructor].
Qed.

(* ---- Read-Modify-Write 0x4E *)
Theorem svc_rmw_accepts p m img l size o a old :
  loc_esize p l = Some size -> rmw_ok_type l = true -> 0 <= size < 65536 ->
  Expect.blen o = size -> Expect.blen a = size ->
  get_bytes img (w_off l) size = Some old ->
  svc_rmw p m img l (le_enc 2 size ++ o ++ a) = do_store 78 m img l 0 (rmw_bytes old o a).
Proof.
  intros Hs Hok Hsize Ho Ha Hg. unfold svc_rmw. cbn [le_enc app]. rewrite u16_enc by lia. rewrite Hs, Hok.
  cbn [negb orb]. rewrite Z.eqb_refl. cbn [negb].
  assert (Hl : Expect.blen (o ++ a) = 2 * size) by (rewrite blen_app; lia).
  replace (Expect.blen (o ++ a) <? 2 * size) with false by lia.
  replace (2 * size <? Expect.blen (o ++ a)) with false by lia.
  rewrite Hg.
  assert (Hn : Z.to_nat size = length o) by (unfold Expect.blen in Ho; lia).
  rewrite Hn, firstn_app_exact, skipn_app_exact. reflexivity.
Qed.

(* ---- through tag_service / logix_request *)
Theorem tag_service_write st l cap path data img :
  mem_get (ls_mem st) (w_inst l) = Some img ->
  TargetLogix.tag_service st l cap {| mr_service := 77; mr_path := path; mr_data := data |}
  = let '(m', rp, ev) := svc_write (ls_proj st) (ls_mem st) img l data in (set_mem m' st, rp, ev).
Proof. intros H. unfold TargetLogix.tag_service. rewrite H. reflexivity. Qed.

Theorem tag_service_frag st l cap path data img :
  mem_get (ls_mem st) (w_inst l) = Some img ->
  TargetLogix.tag_service st l cap {| mr_service := 83; mr_path := path; mr_data := data |}
  = let '(m', rp, ev) := svc_write_frag (ls_proj st) (ls_mem st) img l data in (set_mem m' st, rp, ev).
Proof. intros H. unfold TargetLogix.tag_service. rewrite H. reflexivity. Qed.

Theorem tag_service_rmw st l cap path data img :
  mem_get (ls_mem st) (w_inst l) = Some img ->
  TargetLogix.tag_service st l cap {| mr_service := 78; mr_path := path; mr_data := data |}
  = let '(m', rp, ev) := svc_rmw (ls_proj st) (ls_mem st) img l data in (set_mem m' st, rp, ev).
Proof. intros H. unfold TargetLogix.tag_service. rewrite H. reflexivity. Qed.

Theorem logix_request_tag st tr cap rq l :
  resolve_path (ls_proj st) (mr_service rq =? 85) (mr_path rq) = TgTag l ->
  logix_request st tr cap rq = Some (TargetLogix.tag_service st l cap rq).
Proof. intros H. unfold logix_request. rewrite H. reflexivity. Qed.

(* ---- what an executed store is *)
Theorem do_store_plain svc m img l from d img' :
  w_bit l = None -> put_bytes img (w_off l + from) d = Some img' ->
  do_store svc m img l from d = (mem_set m (w_inst l) img', mr_ok [], [EvApp 1 [w_inst l; w_off l + from; svc] d]).
Proof. intros Hb Hp. unfold do_store, loc_store. rewrite Hb, Hp. reflexivity. Qed.
