(* Proofs/IdentityPrim.v — lemmas about the primitive decoders / encoders of Model/Identity.v on
   the wire encodings of Spec/IdentitySpec.v.  The facts read from the regenerated Gen/Types.v
   (sizes, struct formats, len_type and encoding of SHORT_STRING) are the [type_row_*] lemmas: a
   change of one of these declarations in /repo breaks them (and with them C16). *)
From Coq Require Import String ZifyBool.
From PV Require Import Base.Bytes Base.BytesLemmas Base.Res Base.Proto Base.PyStr Model.Identity Spec.IdentitySpec.
From PV Require Gen.Types.
Open Scope Z_scope.
Ltac Zify.zify_post_hook ::= Z.to_euclidean_division_equations.

(* [x :: ... = y :: ...] with arithmetic heads *)
Ltac list_lia := repeat (apply (f_equal2 (@cons Z)); [lia|]); try reflexivity.

(* ------------------------------------------------------------------ regenerated facts *)
Lemma type_row_USINT : type_row T_USINT = Some (1, zs_of_string "<B", [], []).
Proof. vm_compute. reflexivity. Qed.
Lemma type_row_UINT : type_row T_UINT = Some (2, zs_of_string "<H", [], []).
Proof. vm_compute. reflexivity. Qed.
Lemma type_row_INT : type_row T_INT = Some (2, zs_of_string "<h", [], []).
Proof. vm_compute. reflexivity. Qed.
Lemma type_row_DINT : type_row T_DINT = Some (4, zs_of_string "<i", [], []).
Proof. vm_compute. reflexivity. Qed.
Lemma type_row_UDINT : type_row T_UDINT = Some (4, zs_of_string "<I", [], []).
Proof. vm_compute. reflexivity. Qed.
Lemma type_row_ULINT : type_row T_ULINT = Some (8, zs_of_string "<Q", [], []).
Proof. vm_compute. reflexivity. Qed.
Lemma type_row_SHORT_STRING : type_row T_SHORT_STRING = Some (0, [], T_USINT, ENC_LATIN1).
Proof. vm_compute. reflexivity. Qed.

Lemma fmt_B : fmt_sem (zs_of_string "<B") = Some (false, 1%nat). Proof. vm_compute. reflexivity. Qed.
Lemma fmt_H : fmt_sem (zs_of_string "<H") = Some (false, 2%nat). Proof. vm_compute. reflexivity. Qed.
Lemma fmt_h : fmt_sem (zs_of_string "<h") = Some (true, 2%nat). Proof. vm_compute. reflexivity. Qed.
Lemma fmt_i : fmt_sem (zs_of_string "<i") = Some (true, 4%nat). Proof. vm_compute. reflexivity. Qed.
Lemma fmt_I : fmt_sem (zs_of_string "<I") = Some (false, 4%nat). Proof. vm_compute. reflexivity. Qed.
Lemma fmt_Q : fmt_sem (zs_of_string "<Q") = Some (false, 8%nat). Proof. vm_compute. reflexivity. Qed.

(* ------------------------------------------------------------------ finite sweeps, lifted *)
Fixpoint upto (n : nat) : list Z := match n with O => [] | S k => Z.of_nat k :: upto k end.
Lemma upto_in n i : 0 <= i < Z.of_nat n -> In i (upto n).
Proof.
  induction n as [|n IH]; intros H; [lia|]. cbn [upto].
  destruct (Z.eq_dec i (Z.of_nat n)) as [->|Hne]; [now left|right; apply IH; lia].
Qed.
Lemma forallb_upto (P : Z -> bool) n : forallb P (upto n) = true -> forall i, 0 <= i < Z.of_nat n -> P i = true.
Proof. intros H i Hi. rewrite forallb_forall in H. apply H, upto_in, Hi. Qed.

Lemma text_eqb_eq a b : text_eqb a b = true <-> a = b.
Proof.
  revert b; induction a as [|x a IH]; intros [|y b]; cbn [text_eqb]; try (split; congruence).
  rewrite andb_true_iff, IH, Z.eqb_eq. split; [intros [-> ->]; reflexivity|intros E; inversion E; auto].
Qed.
Lemma text_eqb_refl a : text_eqb a a = true.
Proof. now apply text_eqb_eq. Qed.

(* ------------------------------------------------------------------ streams *)
Lemma stream_read_app d rest : d <> [] -> stream_read (length d) (d ++ rest) = Ok (d, rest).
Proof.
  intros H. unfold stream_read. rewrite firstn_app_exact, skipn_app_exact.
  destruct d as [|x d]; [congruence|]. rewrite Nat.ltb_irrefl. reflexivity.
Qed.

Lemma elem_decode_gen name size fmt lt enc sg w d rest :
  type_row name = Some (size, fmt, lt, enc) -> fmt_sem fmt = Some (sg, w) -> Z.to_nat size = w ->
  length d = w -> (0 < w)%nat ->
  elem_decode name (d ++ rest) = Ok ((if sg then to_signed w (le_dec d) else le_dec d), rest).
Proof.
  intros Hr Hf Hs Hl Hw. unfold elem_decode. rewrite Hr, Hf, Hs. clear Hs. subst w.
  rewrite stream_read_app by (destruct d; cbn [length] in Hw; [lia|congruence]).
  cbn [bind]. unfold unpack. rewrite Nat.eqb_refl. reflexivity.
Qed.

(* members whose value the structs drop (unnamed) or keep as it is: any bytes of the right length *)
Lemma dec_USINT a rest : elem_decode T_USINT (a :: rest) = Ok (a, rest).
Proof.
  change (a :: rest) with ([a] ++ rest).
  rewrite (elem_decode_gen _ _ _ _ _ _ _ [a] rest type_row_USINT fmt_B eq_refl eq_refl) by lia.
  cbn [le_dec]. f_equal. f_equal. lia.
Qed.
Lemma dec_UINT_raw d rest : length d = 2%nat -> elem_decode T_UINT (d ++ rest) = Ok (le_dec d, rest).
Proof. intros H. rewrite (elem_decode_gen _ _ _ _ _ _ _ d rest type_row_UINT fmt_H eq_refl H) by lia. reflexivity. Qed.
Lemma dec_INT_raw d rest : length d = 2%nat -> elem_decode T_INT (d ++ rest) = Ok (to_signed 2 (le_dec d), rest).
Proof. intros H. rewrite (elem_decode_gen _ _ _ _ _ _ _ d rest type_row_INT fmt_h eq_refl H) by lia. reflexivity. Qed.
Lemma dec_DINT_raw d rest : length d = 4%nat -> elem_decode T_DINT (d ++ rest) = Ok (to_signed 4 (le_dec d), rest).
Proof. intros H. rewrite (elem_decode_gen _ _ _ _ _ _ _ d rest type_row_DINT fmt_i eq_refl H) by lia. reflexivity. Qed.
Lemma dec_UDINT_raw d rest : length d = 4%nat -> elem_decode T_UDINT (d ++ rest) = Ok (le_dec d, rest).
Proof. intros H. rewrite (elem_decode_gen _ _ _ _ _ _ _ d rest type_row_UDINT fmt_I eq_refl H) by lia. reflexivity. Qed.
Lemma dec_ULINT_raw d rest : length d = 8%nat -> elem_decode T_ULINT (d ++ rest) = Ok (le_dec d, rest).
Proof. intros H. rewrite (elem_decode_gen _ _ _ _ _ _ _ d rest type_row_ULINT fmt_Q eq_refl H) by lia. reflexivity. Qed.

(* the arithmetic encodings of the Spec decode to the number that was encoded *)
Lemma dec_UINT v rest : elem_decode T_UINT (spec_u16le v ++ rest) = Ok (v, rest).
Proof.
  rewrite dec_UINT_raw by reflexivity. unfold spec_u16le. cbn [le_dec]. f_equal. f_equal. lia.
Qed.
Lemma dec_UDINT v rest : elem_decode T_UDINT (spec_u32le v ++ rest) = Ok (v, rest).
Proof.
  rewrite dec_UDINT_raw by reflexivity. unfold spec_u32le. cbn [le_dec]. f_equal. f_equal. lia.
Qed.

(* encoders *)
Lemma elem_encode_gen name size fmt lt enc w v :
  type_row name = Some (size, fmt, lt, enc) -> fmt_sem fmt = Some (false, w) -> in_urange w v = true ->
  elem_encode name v = Ok (le_enc w v).
Proof. intros Hr Hf Hv. unfold elem_encode. rewrite Hr, Hf. unfold pack. rewrite Hv. reflexivity. Qed.

Lemma enc_USINT v : 0 <= v < 256 -> elem_encode T_USINT v = Ok [v].
Proof.
  intros H. rewrite (elem_encode_gen _ _ _ _ _ 1%nat v type_row_USINT fmt_B).
  - cbn [le_enc]. f_equal. list_lia.
  - unfold in_urange. change (pow256 1) with 256. lia.
Qed.
Lemma enc_UINT v : 0 <= v < 65536 -> elem_encode T_UINT v = Ok (spec_u16le v).
Proof.
  intros H. rewrite (elem_encode_gen _ _ _ _ _ 2%nat v type_row_UINT fmt_H).
  - cbn [le_enc]. unfold spec_u16le. f_equal. list_lia.
  - unfold in_urange. change (pow256 2) with 65536. lia.
Qed.
Lemma enc_UDINT v : 0 <= v < 4294967296 -> elem_encode T_UDINT v = Ok (spec_u32le v).
Proof.
  intros H. rewrite (elem_encode_gen _ _ _ _ _ 4%nat v type_row_UDINT fmt_I).
  - cbn [le_enc]. unfold spec_u32le. f_equal. list_lia.
  - unfold in_urange. change (pow256 4) with 4294967296. lia.
Qed.

(* ------------------------------------------------------------------ SHORT_STRING, n_bytes, Revision *)
Lemma dec_SHORT_STRING s rest :
  (length s <= 255)%nat -> string_decode T_SHORT_STRING (spec_short_string s ++ rest) = Ok (s, rest).
Proof.
  intros Hl. unfold string_decode. rewrite type_row_SHORT_STRING.
  change (zs_eqb ENC_LATIN1 ENC_LATIN1) with true. cbv iota.
  unfold spec_short_string. rewrite <- app_comm_cons. rewrite dec_USINT. cbn [bind wrap_decode].
  destruct s as [|c s].
  - reflexivity.
  - destruct (Z.of_nat (length (c :: s)) =? 0) eqn:E; [cbn [length] in E; lia|].
    rewrite Nat2Z.id. rewrite stream_read_app by congruence. reflexivity.
Qed.

Lemma enc_SHORT_STRING s :
  (length s <= 255)%nat -> latin1_ok s = true -> string_encode T_SHORT_STRING s = Ok (spec_short_string s).
Proof.
  intros Hl Hs. unfold string_encode. rewrite type_row_SHORT_STRING.
  change (zs_eqb ENC_LATIN1 ENC_LATIN1) with true. cbv iota.
  rewrite enc_USINT by lia. unfold latin1_encode. rewrite Hs. reflexivity.
Qed.

Lemma dec_bytes n d rest : length d = n -> (0 < n)%nat -> bytes_decode n (d ++ rest) = Ok (d, rest).
Proof.
  intros Hl Hn. unfold bytes_decode. subst n.
  rewrite stream_read_app by (destruct d; cbn [length] in Hn; [lia|congruence]). reflexivity.
Qed.

Lemma dec_Revision a b rest : Revision_decode (a :: b :: rest) = Ok ((a, b), rest).
Proof. unfold Revision_decode. rewrite dec_USINT. cbn [bind]. rewrite dec_USINT. reflexivity. Qed.

Lemma enc_Revision a b : 0 <= a < 256 -> 0 <= b < 256 -> Revision_encode a b = Ok [a; b].
Proof. intros Ha Hb. unfold Revision_encode. rewrite !enc_USINT by assumption. reflexivity. Qed.

(* ------------------------------------------------------------------ IPv4 *)
Lemma str_octet o : 0 <= o < 256 -> py_str_int o = dec_octet o.
Proof.
  intros H. apply text_eqb_eq.
  apply (forallb_upto (fun o => text_eqb (py_str_int o) (dec_octet o)) 256); [vm_compute; reflexivity|lia].
Qed.

Lemma dec_IPAddress ip rest :
  0 <= ip < 4294967296 -> IPAddress_decode (spec_u32be ip ++ rest) = Ok (ip_text ip, rest).
Proof.
  intros H. unfold IPAddress_decode.
  change 4%nat with (length (spec_u32be ip)) at 1.
  rewrite stream_read_app by (unfold spec_u32be; congruence).
  cbn [bind]. change (length (spec_u32be ip) =? 4)%nat with true. cbv iota.
  unfold spec_u32be. cbn [map join]. rewrite !str_octet by lia. reflexivity.
Qed.
