(* Proofs/CodecRTBase.v — C06: lemmas about the primitives of the codec model (streams, integer
   and text codecs, bit strings) used by the round-trip induction (Proofs/CodecRT.v). *)
From PV Require Import Base.Bytes Base.BytesLemmas Base.Res Base.Proto.
From PV Require Import Gen.Types Gen.CodecFacts Model.Codec Model.CodecDom.
From Coq Require Import ZifyBool.
Open Scope Z_scope.
Ltac Zify.zify_post_hook ::= Z.to_euclidean_division_equations.

(* ------------------------------------------------------------------ lists / streams *)
Lemma zlen_app {A} (a b : list A) : zlen (a ++ b) = zlen a + zlen b.
Proof. unfold zlen. rewrite app_length. lia. Qed.

Lemma zlen_nonneg {A} (a : list A) : 0 <= zlen a.
Proof. unfold zlen. lia. Qed.

Lemma ztake_app_exact {A} (a b : list A) : ztake (zlen a) (a ++ b) = a.
Proof.
  unfold ztake. rewrite zlen_app.
  replace (Z.to_nat (Z.min (zlen a) (zlen a + zlen b))) with (length a)
    by (pose proof (zlen_nonneg b); unfold zlen in *; lia).
  apply firstn_app_exact.
Qed.

Lemma zdrop_app_exact {A} (a b : list A) : zdrop (zlen a) (a ++ b) = b.
Proof.
  unfold zdrop. rewrite zlen_app.
  replace (Z.to_nat (Z.min (zlen a) (zlen a + zlen b))) with (length a)
    by (pose proof (zlen_nonneg b); unfold zlen in *; lia).
  apply skipn_app_exact.
Qed.

Lemma ztake_all {A} (n : Z) (a : list A) : zlen a <= n -> ztake n a = a.
Proof.
  intros H. unfold ztake. replace (Z.to_nat (Z.min n (zlen a))) with (length a) by (unfold zlen in *; lia).
  apply firstn_all.
Qed.

Lemma zdrop_all {A} (n : Z) (a : list A) : zlen a <= n -> zdrop n a = [].
Proof.
  intros H. unfold zdrop. replace (Z.to_nat (Z.min n (zlen a))) with (length a) by (unfold zlen in *; lia).
  apply skipn_all.
Qed.

Lemma stream_take_app (a r : bytes) : stream_take (zlen a) (a ++ r) = (a, r).
Proof.
  unfold stream_take. pose proof (zlen_nonneg a) as H.
  destruct (zlen a <? 0) eqn:E; [lia|]. now rewrite ztake_app_exact, zdrop_app_exact.
Qed.

Lemma stream_read_app (a r : bytes) (k : bytes -> bytes -> dres) :
  stream_read (zlen a) (a ++ r) k = k a r.
Proof.
  unfold stream_read. rewrite stream_take_app. destruct a as [|x a]; [reflexivity|].
  destruct (zlen (x :: a) <? zlen (x :: a)) eqn:E; [lia|reflexivity].
Qed.

Lemma stream_read_nil (n : Z) (k : bytes -> bytes -> dres) : n <> 0 -> stream_read n [] k = DEmpty [].
Proof.
  intros Hn. unfold stream_read, stream_take. destruct (n <? 0).
  - destruct (n =? 0) eqn:E; [lia|reflexivity].
  - unfold ztake, zdrop. rewrite firstn_nil, skipn_nil. destruct (n =? 0) eqn:E; [lia|reflexivity].
Qed.

Lemma zlen_cons {A} (x : A) (l : list A) : zlen (x :: l) = 1 + zlen l.
Proof. unfold zlen. cbn [length]. lia. Qed.

Lemma nonempty_zlen {A} (l : list A) : 0 < zlen l -> l <> [].
Proof. destruct l; unfold zlen; cbn; [lia|congruence]. Qed.

(* ------------------------------------------------------------------ Gen rows used by the bodies *)
Lemma int_row_UINT : int_row n_UINT = Some (false, 2%nat).
Proof. reflexivity. Qed.
Lemma int_row_UDINT : int_row n_UDINT = Some (false, 4%nat).
Proof. reflexivity. Qed.
Lemma int_row_USINT : int_row n_USINT = Some (false, 1%nat).
Proof. reflexivity. Qed.
Lemma fss_enc_latin1 : fss_enc = Some Latin1.
Proof. reflexivity. Qed.
Lemma pccc_ascii_enc_latin1 : pccc_ascii_enc = Some Latin1.
Proof. reflexivity. Qed.
Lemma pccc_string_enc_latin1 : pccc_string_enc = Some Latin1.
Proof. reflexivity. Qed.
Lemma stringn_enc_1 : stringn_enc 1 = Some Latin1.
Proof. reflexivity. Qed.

(* ------------------------------------------------------------------ integers *)
Lemma pow256_Z (w : nat) : pow256 w = 256 ^ Z.of_nat w.
Proof. reflexivity. Qed.

Lemma int_encode_ok sg w z :
  int_in_range sg w z = true -> int_encode sg w (VInt z) = Ok (le_enc w z).
Proof. intros H. unfold int_encode, pub_encode, pack_int. now rewrite H. Qed.

Lemma int_roundtrip_value sg w z :
  (0 < w)%nat -> int_in_range sg w z = true ->
  (if sg then to_signed w (le_dec (le_enc w z)) else le_dec (le_enc w z)) = z.
Proof.
  intros Hw H. rewrite le_dec_enc. destruct sg; cbn [int_in_range] in H.
  - change (z mod pow256 w) with (of_signed w z). now apply to_of_signed.
  - unfold in_urange in H. apply Z.mod_small. lia.
Qed.

Lemma int_decode_ok sg w z rest :
  (0 < w)%nat -> int_in_range sg w z = true ->
  int_decode sg w (le_enc w z ++ rest) = DOk (VInt z) rest.
Proof.
  intros Hw H. unfold int_decode, elem_decode.
  assert (Hl : length (le_enc w z) = w) by apply le_enc_length.
  replace (Z.of_nat w) with (zlen (le_enc w z)) by (unfold zlen; now rewrite Hl).
  rewrite stream_read_app.
  unfold unpack_int. rewrite Hl, Nat.eqb_refl. cbn [dres_of_res dwrap].
  now rewrite int_roundtrip_value.
Qed.

Lemma int_decode_nil sg w : (0 < w)%nat -> int_decode sg w [] = DEmpty [].
Proof. intros Hw. unfold int_decode, elem_decode. now rewrite stream_read_nil by lia. Qed.

Lemma named_int_encode_ok n sg w z :
  int_row n = Some (sg, w) -> int_in_range sg w z = true -> named_int_encode n (VInt z) = Ok (le_enc w z).
Proof. intros Hr H. unfold named_int_encode. rewrite Hr. now apply int_encode_ok. Qed.

Lemma named_int_decode_ok n sg w z rest :
  int_row n = Some (sg, w) -> (0 < w)%nat -> int_in_range sg w z = true ->
  named_int_decode n (le_enc w z ++ rest) = DOk (VInt z) rest.
Proof. intros Hr Hw H. unfold named_int_decode. rewrite Hr. now apply int_decode_ok. Qed.

(* ------------------------------------------------------------------ text *)
Lemma single_byte_enc_char e c : single_byte e c = true -> enc_char e c = Some [c].
Proof.
  destruct e; cbn [single_byte enc_char]; intros H; try discriminate.
  - now rewrite H.
  - assert (Hs : scalar_ok c = true) by (unfold scalar_ok, is_surrogate; lia).
    rewrite Hs. cbn [negb]. destruct (c <? 128) eqn:E; [reflexivity|lia].
Qed.

Lemma text_encode_single e s : forallb (single_byte e) s = true -> text_encode e s = Ok s.
Proof.
  induction s as [|c s IH]; cbn [forallb text_encode]; [reflexivity|].
  intros H. apply andb_prop in H as [Hc Hs]. rewrite (single_byte_enc_char _ _ Hc), (IH Hs). reflexivity.
Qed.

Lemma utf8_decode_ascii s fuel :
  (length s <= fuel)%nat -> forallb (single_byte Utf8) s = true -> utf8_decode fuel s = Some s.
Proof.
  revert fuel. induction s as [|c s IH]; intros fuel Hf H.
  - destruct fuel; reflexivity.
  - destruct fuel as [|f]; [cbn in Hf; lia|]. cbn [forallb] in H. apply andb_prop in H as [Hc Hs].
    cbn [utf8_decode]. cbn [single_byte] in Hc.
    destruct (c <? 128) eqn:E; [|lia]. rewrite IH; [reflexivity| cbn in Hf; lia | exact Hs].
Qed.

Lemma forallb_false_nil {A} (s : list A) : forallb (fun _ => false) s = true -> s = [].
Proof. destruct s; [reflexivity|discriminate]. Qed.

Lemma text_decode_single e s : forallb (single_byte e) s = true -> text_decode e s = Ok s.
Proof.
  destruct e; cbn [text_decode]; intros H.
  - reflexivity.
  - now rewrite utf8_decode_ascii.
  - apply forallb_false_nil in H. now subst.
  - apply forallb_false_nil in H. now subst.
Qed.

(* what [codec_inverts] gives: the encoding, its length in code units, and its decoding *)
Lemma codec_inverts_spec e s :
  codec_inverts e s = true ->
  exists d, text_encode e s = Ok d /\ zlen d = code_units e s * enc_char_size e /\ text_decode e d = Ok s.
Proof.
  unfold codec_inverts, code_units. destruct (text_encode e s) as [d|]; [|discriminate].
  intros H. apply andb_prop in H as [H1 H2]. exists d. split; [reflexivity|]. split.
  - destruct e; cbn [enc_char_size] in *; lia.
  - destruct (text_decode e d) as [s'|]; [|discriminate]. f_equal.
    clear -H2. revert s H2. induction s' as [|c s' IH]; intros [|c2 s] H; cbn [text_eqb] in H; try discriminate; [reflexivity|].
    apply andb_prop in H as [Hc Hs]. f_equal; [lia|now apply IH].
Qed.

Lemma text_decode_nil e : text_decode e [] = Ok [].
Proof. destruct e; reflexivity. Qed.

Lemma text_encode_latin1_chars s d : text_encode Latin1 s = Ok d -> d = s /\ forallb (single_byte Latin1) s = true.
Proof.
  revert d. induction s as [|c s IH]; intros d H; cbn [text_encode] in H.
  - injection H as <-. now split.
  - cbn [enc_char] in H. destruct ((0 <=? c) && (c <? 256)) eqn:E; [|discriminate].
    destruct (text_encode Latin1 s) as [rs|] eqn:Er; [|discriminate]. injection H as <-.
    destruct (IH rs eq_refl) as [-> Hs]. split; [reflexivity|]. cbn [forallb single_byte]. now rewrite E, Hs.
Qed.

Lemma latin1_dom lsg lw s :
  str_dom lsg lw Latin1 s = true -> int_in_range lsg lw (zlen s) = true /\ forallb (single_byte Latin1) s = true.
Proof.
  unfold str_dom. intros H. apply andb_prop in H as [H1 H2].
  destruct (codec_inverts_spec _ _ H1) as (d & He & Hl & _).
  destruct (text_encode_latin1_chars _ _ He) as [-> Hs]. split; [|exact Hs].
  unfold code_units in H2. rewrite He in H2. cbn [enc_char_size] in H2. now rewrite Z.div_1_r in H2.
Qed.

Lemma latin1_inverts s : forallb (single_byte Latin1) s = true -> codec_inverts Latin1 s = true.
Proof.
  intros H. unfold codec_inverts. rewrite text_encode_single by exact H. cbn [enc_char_size text_decode].
  rewrite Z.mod_1_r. cbn. clear H. induction s as [|c s IH]; [reflexivity|]. cbn [text_eqb]. now rewrite Z.eqb_refl, IH.
Qed.

(* ------------------------------------------------------------------ bit strings *)
Lemma bits_value_range l : 0 <= bits_value l < 2 ^ Z.of_nat (length l).
Proof.
  induction l as [|v l IH]; [cbn; lia|].
  cbn [bits_value length]. rewrite Nat2Z.inj_succ, Z.pow_succ_r by lia.
  destruct (truthy v); lia.
Qed.

Lemma value_bits_bits_value l :
  forallb is_vbool l = true -> value_bits (length l) (bits_value l) = l.
Proof.
  induction l as [|v l IH]; [reflexivity|].
  cbn [forallb]. intros H. apply andb_prop in H as [Hv Hl].
  destruct v; try discriminate. cbn [length value_bits bits_value truthy].
  f_equal.
  - f_equal. destruct b; [rewrite Z.odd_add_mul_2| rewrite Z.odd_add_mul_2]; reflexivity.
  - replace ((if b then 1 else 0) + 2 * bits_value l) with (bits_value l * 2 + (if b then 1 else 0)) by lia.
    rewrite Z.div_add_l by lia. replace ((if b then 1 else 0) / 2) with 0 by (destruct b; reflexivity).
    rewrite Z.add_0_r. now apply IH.
Qed.

Lemma pow256_bits (w : nat) : pow256 w = 2 ^ Z.of_nat (8 * w).
Proof.
  unfold pow256. replace 256 with (2 ^ 8) by reflexivity. rewrite <- Z.pow_mul_r by lia.
  f_equal. lia.
Qed.

Lemma py_iter_vbools l : py_iter (VList l) = Ok l.
Proof. reflexivity. Qed.

Lemma bits_encode_ok w l :
  zlen l = 8 * Z.of_nat w -> bits_encode w (VList l) = Ok (le_enc w (bits_value l)).
Proof.
  intros Hl. unfold bits_encode, pub_encode. cbn [py_len bind]. rewrite Hl, Z.eqb_refl. cbn [negb py_iter bind pack_int].
  assert (Hr : int_in_range false w (bits_value l) = true).
  { cbn [int_in_range]. unfold in_urange. pose proof (bits_value_range l) as H. rewrite pow256_bits.
    replace (Z.of_nat (8 * w)) with (Z.of_nat (length l)) by (unfold zlen in Hl; lia). lia. }
  now rewrite Hr.
Qed.

Lemma bits_decode_ok w l rest :
  (0 < w)%nat -> zlen l = 8 * Z.of_nat w -> forallb is_vbool l = true ->
  bits_decode w (le_enc w (bits_value l) ++ rest) = DOk (VList l) rest.
Proof.
  intros Hw Hl Hb. unfold bits_decode.
  assert (Hr : int_in_range false w (bits_value l) = true).
  { cbn [int_in_range]. unfold in_urange. pose proof (bits_value_range l) as H. rewrite pow256_bits.
    replace (Z.of_nat (8 * w)) with (Z.of_nat (length l)) by (unfold zlen in Hl; lia). lia. }
  rewrite int_decode_ok by assumption. cbn [dbind as_int dwrap].
  replace (8 * w)%nat with (length l) by (unfold zlen in Hl; lia).
  now rewrite value_bits_bits_value.
Qed.

(* ------------------------------------------------------------------ PCCC swap *)
Lemma slc_swap_involutive s :
  Nat.even (length s) = true -> exists t, slc_swap s = Some t /\ slc_swap t = Some s /\ length t = length s.
Proof.
  revert s. fix IH 1. intros [|a [|b r]] H.
  - exists []. repeat split.
  - discriminate.
  - cbn [length Nat.even] in H. destruct (IH r H) as (t & H1 & H2 & H3).
    exists (b :: a :: t). cbn [slc_swap]. rewrite H1, H2. cbn. repeat split. now rewrite H3.
Qed.

(* ------------------------------------------------------------------ IPv4 text *)
Lemma split_dot_join s cur :
  fold_right (fun p acc => match acc with None => Some p | Some a => Some (p ++ [46] ++ a) end) None (split_dot s cur)
  = Some (rev cur ++ s).
Proof.
  revert cur. induction s as [|c s IH]; intros cur; cbn [split_dot].
  - cbn. now rewrite app_nil_r.
  - destruct (c =? 46) eqn:E.
    + cbn [fold_right]. rewrite IH. cbn [rev app]. assert (c = 46) by lia. subst. reflexivity.
    + rewrite IH. cbn [rev]. now rewrite <- app_assoc.
Qed.

Lemma octet_dec3 s v : octet s = Some v -> dec3 v = s /\ 0 <= v < 256.
Proof.
  unfold octet. destruct s as [|c1 s]; [discriminate|]. cbv zeta.
  remember (digits_val (c1 :: s) 0) as v0 eqn:Hv0.
  destruct (forallb is_dig (c1 :: s) && (length (c1 :: s) <=? 3)%nat
            && negb ((c1 =? 48) && negb (length (c1 :: s) =? 1)%nat)) eqn:E; [|discriminate].
  apply andb_prop in E as [E E3]. apply andb_prop in E as [E1 E2].
  destruct (v0 <=? 255) eqn:Ev; [|discriminate].
  intros H. injection H as <-.
  destruct s as [|c2 [|c3 [|c4 s]]]; cbn [length] in E2; try (cbn in E2; discriminate);
    cbn [forallb] in E1; unfold is_dig in E1; cbn [length Nat.eqb negb andb] in E3; cbn [digits_val] in Hv0;
    (split; [|lia]); unfold dec3.
  - destruct (v0 <? 10) eqn:A; [|lia]. f_equal. lia.
  - destruct (v0 <? 10) eqn:A; [lia|]. destruct (v0 <? 100) eqn:B; [|lia]. f_equal; [lia|f_equal; lia].
  - destruct (v0 <? 10) eqn:A; [lia|]. destruct (v0 <? 100) eqn:B; [lia|].
    f_equal; [lia|f_equal; [lia|f_equal; lia]].
Qed.

Lemma parse_ipv4_text s a b c d :
  parse_ipv4 s = Some [a; b; c; d] ->
  s = dec3 a ++ [46] ++ dec3 b ++ [46] ++ dec3 c ++ [46] ++ dec3 d.
Proof.
  unfold parse_ipv4. intros H. pose proof (split_dot_join s []) as J. cbn [rev app] in J.
  destruct (split_dot s []) as [|s1 [|s2 [|s3 [|s4 [|s5 t]]]]]; cbn [map] in H; try discriminate;
    try (destruct (octet s1); try discriminate; destruct (octet s2); try discriminate;
         destruct (octet s3); discriminate).
  - destruct (octet s1) as [v1|] eqn:O1; try discriminate. destruct (octet s2) as [v2|] eqn:O2; try discriminate.
    destruct (octet s3) as [v3|] eqn:O3; try discriminate. destruct (octet s4) as [v4|] eqn:O4; try discriminate.
    injection H as -> -> -> ->.
    apply octet_dec3 in O1 as [-> _], O2 as [-> _], O3 as [-> _], O4 as [-> _].
    cbn [fold_right] in J. injection J as <-. reflexivity.
  - destruct (octet s1); try discriminate. destruct (octet s2); try discriminate.
    destruct (octet s3); try discriminate. destruct (octet s4); try discriminate.
Qed.

(* ------------------------------------------------------------------ UTF-16 (STRING2) *)
Lemma utf16_roundtrip s :
  forallb scalar_ok s = true ->
  exists d, text_encode Utf16 s = Ok d /\ zlen d mod 2 = 0
            /\ forall fuel, (length s <= fuel)%nat -> utf16_decode fuel d = Some s.
Proof.
  induction s as [|c s IH]; intros H.
  - exists []. repeat split. intros [|f] _; reflexivity.
  - cbn [forallb] in H. apply andb_prop in H as [Hc Hs]. destruct (IH Hs) as (d & He & Hm & Hd).
    cbn [text_encode enc_char]. rewrite Hc. cbn [negb]. rewrite He.
    unfold scalar_ok, is_surrogate in Hc.
    destruct (c <? 65536) eqn:E.
    + eexists. split; [reflexivity|]. split.
      * cbn [le_enc app]. rewrite !zlen_cons. lia.
      * intros [|f] Hf; [cbn in Hf; lia|]. cbn [le_enc app utf16_decode].
        assert (Hu : c mod 256 + 256 * (c / 256 mod 256) = c) by lia. rewrite Hu.
        destruct ((55296 <=? c) && (c <=? 56319)) eqn:E1; [lia|].
        destruct ((56320 <=? c) && (c <=? 57343)) eqn:E2; [lia|].
        rewrite Hd by (cbn in Hf; lia). reflexivity.
    + eexists. split; [reflexivity|]. split.
      * cbn [le_enc app]. rewrite !zlen_cons. lia.
      * intros [|f] Hf; [cbn in Hf; lia|]. cbn [le_enc app utf16_decode].
        set (hi := 55296 + (c - 65536) / 1024). set (lo := 56320 + (c - 65536) mod 1024).
        assert (Hhi : hi mod 256 + 256 * (hi / 256 mod 256) = hi) by (unfold hi; lia).
        assert (Hlo : lo mod 256 + 256 * (lo / 256 mod 256) = lo) by (unfold lo; lia).
        rewrite Hhi, Hlo.
        destruct ((55296 <=? hi) && (hi <=? 56319)) eqn:E1; [|unfold hi in E1; lia].
        destruct ((56320 <=? lo) && (lo <=? 57343)) eqn:E2; [|unfold lo in E2; lia].
        rewrite Hd by (cbn in Hf; lia). cbn [option_map]. f_equal. f_equal. unfold hi, lo. lia.
Qed.

Lemma text_eqb_refl s : text_eqb s s = true.
Proof. induction s as [|c s IH]; [reflexivity|]. cbn [text_eqb]. now rewrite Z.eqb_refl, IH. Qed.

(* every string of Unicode scalar values is in STRING2's domain as far as the codec goes *)
Lemma utf16_inverts s : forallb scalar_ok s = true -> codec_inverts Utf16 s = true.
Proof.
  intros H. destruct (utf16_roundtrip s H) as (d & He & Hm & Hd). unfold codec_inverts. rewrite He.
  cbn [enc_char_size text_decode]. rewrite Hd.
  - rewrite text_eqb_refl. lia.
  - (* two bytes per code unit at least: length s <= length d *)
    clear -He H. revert d He. induction s as [|c s IH]; intros d He; [cbn; lia|].
    cbn [forallb] in H. apply andb_prop in H as [Hc Hs].
    cbn [text_encode enc_char] in He. rewrite Hc in He. cbn [negb] in He.
    destruct (text_encode Utf16 s) as [ds|] eqn:Es; [|destruct (c <? 65536); discriminate].
    specialize (IH Hs ds eq_refl).
    destruct (c <? 65536); injection He as <-; cbn [le_enc app length]; rewrite ?app_length; cbn [length]; lia.
Qed.
